(* C06, RTSP side: what Rtmp2RtspRemuxer.remux emits for one message once the
   analysis is over, read back by the RFC 6184 / 7798 / 3640 reference
   depacketisers (C12's RtpSpec). *)
From Coq Require Import Lia ZifyN ZifyNat ZifyBool.
From Lal Require Import Common.LBytes Common.LBytesProofs Common.Res Group.GroupMsg Codec.CodecBits Codec.CodecAac
  Codec.CodecNalFraming Codec.CodecAvcSeqHeader Codec.CodecHevcSeqHeader Codec.CodecSdp Rtp.RtpSeqArith Rtp.RtpPacker Rtp.RtpPackerProofs Rtp.RtpSpec Rtp.RtpSpecProofs
  Rtp.RtpRoundtripProofs Remux.RemuxRtmp2Ts Remux.RemuxRtmp2Rtp Remux.RemuxSpec.
Open Scope N_scope.
Ltac Zify.zify_post_hook ::= Z.div_mod_to_equations.

(* a frame's payloads through the RFC depacketiser: the units that are not access unit delimiters *)
Definition rfc_depack (c : vcodec) := match c with Avc => rfc6184_depack None | Hevc => rfc7798_depack None end.

Definition rtp_unit_ok (c : vcodec) (nal : bytes) : Prop := nal <> [] /\ nth 0 nal 0 < 256 /\ rfc_unit_ok c nal.

Lemma rfc_depack_frame c maxp : fu_hdr_size c < maxp -> forall nals,
  Forall (fun u => is_aud c u = false -> rtp_unit_ok c u) nals ->
  rfc_depack c (frame_payloads c maxp nals) = Some (filter (not_aud c) nals).
Proof.
  intros Hh. induction nals as [|nal t IH]; intros Hok.
  - destruct c; reflexivity.
  - inversion Hok as [|? ? Hn Ht]; subst. unfold frame_payloads in *. cbn [filter].
    assert (En : not_aud c nal = negb (is_aud c nal)) by reflexivity. rewrite En.
    destruct (is_aud c nal) eqn:Ea; cbn [negb]; [exact (IH Ht)|].
    destruct (Hn eq_refl) as (Hne & Hb & Hu). cbn [map concat].
    destruct (pack_nal_total c nal maxp Hh) as [pls Ep]. unfold payloads_of at 1. rewrite Ep.
    specialize (IH Ht). destruct c; cbn [rfc_depack] in *.
    + rewrite (rfc6184_pack_nal nal maxp pls _ Hh Hne Hb Hu Ep). now rewrite IH.
    + rewrite (rfc7798_pack_nal nal maxp pls _ Hh Hb Hu Ep). now rewrite IH.
Qed.

Lemma not_aud_is_rtp_payload c u : nth 0 u 0 < 256 -> not_aud c u = rtp_payload_unit c u.
Proof.
  intros Hb. unfold not_aud, rtp_payload_unit, is_aud, is_aud_type, nal_type. destruct c.
  - now rewrite avc_type_mod.
  - now rewrite hevc_type_mod.
Qed.

Section Codecs.
  Variable b64_enc hex_enc : bytes -> bytes.
  Variable tool : bytes.
  Variable rtsp_fixed : bool.
  Let remux := remux rtsp_fixed.

  (* one video message, analysis over, the packer exists (or is created now) *)
  Theorem remux_video s m c seq nals :
    rm_type m = type_video ->
    q_sps s <> None ->
    (q_vpacker s = Some (c, seq) \/ (q_vpacker s = None /\ seq = 0 /\ c = if (q_vpt s =? pt_avc)%Z then Avc else Hevc)) ->
    seq < 65536 -> enhanced_too_short m = false ->
    iterate_nalu_avcc (if (video_codec_id m =? codec_id_hevc) && is_enhanced_hevc_nalu m
                       then skipn (enhanced_nalu_index m) (rm_payload m) else skipn 5 (rm_payload m)) = (nals, None) ->
    Forall (fun u => is_aud c u = false -> rtp_unit_ok c u) nals ->
    exists s' pk,
      remux s m = (s', map (RRtp false) pk)
      /\ rfc_depack c (map rp_payload pk) = Some (filter (not_aud c) nals)
      /\ Forall (fun p => lenN (rp_payload p) <= rtp_max_payload) pk
      /\ seq_chain seq pk /\ marks_ok pk
      /\ Forall (fun p => rp_ts p = (rm_ts m * 90000 / 1000) mod 4294967296 /\ rp_pt p = u8z (q_vpt s)) pk
      /\ q_vpacker s' = Some (c, if lenN pk =? 0 then seq else seq_add seq (lenN pk)).
  Proof.
    intros Hty Hsps Hpk Hseq Hshort Hsplit Hok. unfold remux, RemuxRtmp2Rtp.remux.
    rewrite Hty. change (type_video =? type_audio) with false. change (type_video =? type_video) with true. cbv iota.
    assert (Hg : exists s1, get_video_packer s = (s1, Some (c, seq)) /\ q_vpt s1 = q_vpt s
                 /\ forall p, q_vpacker (set_vpacker s1 p) = p).
    { unfold get_video_packer. destruct (q_sps s) as [sp|]; [|congruence].
      destruct Hpk as [Hpk|(Hpk & -> & ->)]; rewrite Hpk.
      - exists s. repeat split.
      - eexists. repeat split. }
    destruct Hg as (s1 & Hg & Hvpt & Hset). rewrite Hg, Hshort.
    match goal with |- context [iterate_nalu_avcc ?b] =>
      replace (iterate_nalu_avcc b) with (nals, @None N) by (symmetry; exact Hsplit) end.
    assert (Hh : fu_hdr_size c < rtp_max_payload) by (destruct c; reflexivity).
    rewrite (pack_video_frame_payloads c rtp_max_payload nals Hh).
    destruct (rtp_pack (u8z (q_vpt s1)) 90000 0 seq (rm_ts m) (frame_payloads c rtp_max_payload nals)) as [pk seq'] eqn:Ep.
    unfold rtp_pack in Ep. destruct (rtp_pack_payloads_spec _ _ _ _ _ _ _ Ep) as (H1 & H2 & H3 & H4 & H5).
    exists (set_vpacker s1 (Some (c, seq'))), pk. split; [reflexivity|].
    rewrite H1. split; [now apply rfc_depack_frame|]. split.
    { assert (Hl : Forall (fun p => lenN p <= rtp_max_payload) (frame_payloads c rtp_max_payload nals)).
      { eapply pack_nals_limit; [exact Hh|]. apply pack_nals_frame. exact Hh. }
      rewrite <- H1 in Hl. rewrite Forall_map in Hl. exact Hl. }
    split; [exact H2|]. split; [exact H3|]. split.
    - eapply Forall_impl; [|exact H5]. intros p (Ht & Hp & _). unfold rtp_timestamp, u32 in Ht. rewrite Hvpt in Hp. now split.
    - rewrite Hset. f_equal. f_equal. rewrite H4. rewrite <- H1. unfold lenN. now rewrite map_length.
  Qed.

  (* one AAC message: one packet, the frame comes back from the RFC 3640 reader *)
  Theorem remux_aac s m rate seq :
    rm_type m = type_audio -> audio_codec_id m = sound_aac ->
    q_apacker s = Some (KAac, rate, seq) ->
    lenN (skipn 2 (rm_payload m)) < 8192 ->
    exists s' p,
      remux s m = (s', [RRtp true p])
      /\ rfc3640_depack [rp_payload p] = Some [skipn 2 (rm_payload m)]
      /\ rp_seq p = seq /\ rp_mark p = 1 /\ rp_pt p = u8z (q_apt s)
      /\ rp_ts p = (rm_ts m * Z.to_N rate / 1000) mod 4294967296
      /\ q_apacker s' = Some (KAac, rate, seq_succ seq).
  Proof.
    intros Hty Hco Hpk Hlen. unfold remux, RemuxRtmp2Rtp.remux.
    rewrite Hty. change (type_audio =? type_audio) with true. cbv iota.
    unfold get_audio_packer. rewrite Hpk. rewrite Hco.
    change ((sound_aac =? sound_g711a) || (sound_aac =? sound_g711u) || (sound_aac =? sound_opus)) with false. cbv iota.
    unfold pack_aac. change (rtp_max_payload =? 0) with false. cbv iota.
    unfold rtp_pack. cbn [rtp_pack_payloads map].
    eexists. eexists. split; [reflexivity|].
    cbn [rp_payload rp_seq rp_mark rp_pt rp_ts set_apacker q_apacker].
    repeat split; try reflexivity.
    pose proof (rfc3640_pack_aac (skipn 2 (rm_payload m)) rtp_max_payload) as H.
    unfold pack_aac in H. change (rtp_max_payload =? 0) with false in H. cbv iota in H. apply H; [reflexivity|exact Hlen].
  Qed.

  (* G.711 / Opus: the frame is the packet payload *)
  Theorem remux_raw s m k rate seq :
    rm_type m = type_audio ->
    (audio_codec_id m = sound_g711a \/ audio_codec_id m = sound_g711u \/ audio_codec_id m = sound_opus) ->
    q_apacker s = Some (k, rate, seq) -> k <> KAac ->
    exists s' p,
      remux s m = (s', [RRtp true p])
      /\ rp_payload p = skipn 1 (rm_payload m)
      /\ rp_seq p = seq /\ rp_mark p = 1 /\ rp_pt p = u8z (q_apt s)
      /\ rp_ts p = (rm_ts m * Z.to_N rate / 1000) mod 4294967296.
  Proof.
    intros Hty Hco Hpk Hk. unfold remux, RemuxRtmp2Rtp.remux.
    rewrite Hty. change (type_audio =? type_audio) with true. cbv iota.
    unfold get_audio_packer. rewrite Hpk.
    assert (Hc : ((audio_codec_id m =? sound_g711a) || (audio_codec_id m =? sound_g711u) || (audio_codec_id m =? sound_opus)) = true).
    { destruct Hco as [E | [E | E]]; rewrite E; reflexivity. }
    rewrite Hc.
    assert (Hp : (match k with KAac => pack_aac (skipn 1 (rm_payload m)) rtp_max_payload
                  | _ => pack_raw (skipn 1 (rm_payload m)) rtp_max_payload end) = [skipn 1 (rm_payload m)]).
    { destruct k; try congruence; reflexivity. }
    rewrite Hp. unfold rtp_pack. cbn [rtp_pack_payloads map].
    eexists. eexists. split; [reflexivity|]. cbn. repeat split; reflexivity.
  Qed.
End Codecs.

(* the RTP time stamp is the published time at the clock rate, rounded down: within one tick *)
Lemma rtp_ts_within_tick ms rate : rate <> 0 ->
  let x := ms * rate / 1000 in
  1000 * x <= ms * rate /\ ms * rate < 1000 * (x + 1).
Proof. intros Hr x. subst x. lia. Qed.

(* ---- the SDP comes once, before every RTP packet ---- *)
Definition is_rtp (o : rout) : Prop := match o with RRtp _ _ => True | RSdp _ => False end.

Section Codecs2.
  Variable b64_enc hex_enc : bytes -> bytes.
  Variable tool : bytes.
  Variable rtsp_fixed : bool.

  Lemma get_audio_packer_done s : q_done (fst (get_audio_packer rtsp_fixed s)) = q_done s.
  Proof.
    unfold get_audio_packer. destruct (q_apacker s); [reflexivity|].
    destruct (_ || _); [reflexivity|]. destruct (q_apt s =? pt_opus)%Z; [reflexivity|].
    destruct (q_apt s =? pt_aac)%Z; [|reflexivity]. destruct (q_asc s); [|reflexivity].
    destruct (asc_unpack _); reflexivity.
  Qed.

  Lemma get_video_packer_done s : q_done (fst (get_video_packer s)) = q_done s.
  Proof. unfold get_video_packer. destruct (q_sps s); [|reflexivity]. destruct (q_vpacker s); reflexivity. Qed.

  Lemma remux_only_rtp s m : Forall is_rtp (snd (RemuxRtmp2Rtp.remux rtsp_fixed s m)) /\ q_done (fst (RemuxRtmp2Rtp.remux rtsp_fixed s m)) = q_done s.
  Proof.
    unfold RemuxRtmp2Rtp.remux. destruct (rm_type m =? type_audio).
    - pose proof (get_audio_packer_done s) as Hd.
      destruct (get_audio_packer rtsp_fixed s) as [s1 [[[k r] sq]|]]; cbn [fst] in Hd; [|split; [constructor|exact Hd]].
      destruct (rtp_pack _ _ _ _ _ _) as [pk sq']. cbn [fst snd set_apacker q_done]. split; [|exact Hd].
      apply Forall_map. apply Forall_forall. intros; exact I.
    - destruct (rm_type m =? type_video); [|split; [constructor|reflexivity]].
      pose proof (get_video_packer_done s) as Hd.
      destruct (get_video_packer s) as [s1 [[cc sq]|]]; cbn [fst] in Hd; [|split; [constructor|exact Hd]].
      destruct (enhanced_too_short m); [split; [constructor|exact Hd]|].
      destruct (rtp_pack _ _ _ _ _ _) as [pk sq']. cbn [fst snd set_vpacker q_done]. split; [|exact Hd].
      apply Forall_map. apply Forall_forall. intros; exact I.
  Qed.

  Lemma remux_all_only_rtp : forall ms s,
    Forall is_rtp (snd (remux_all rtsp_fixed s ms)) /\ q_done (fst (remux_all rtsp_fixed s ms)) = q_done s.
  Proof.
    induction ms as [|m t IH]; intros s; cbn [remux_all]; [split; [constructor|reflexivity]|].
    destruct (remux_only_rtp s m) as [H1 H2]. destruct (RemuxRtmp2Rtp.remux rtsp_fixed s m) as [s1 o1]. cbn [fst snd] in *.
    destruct (IH s1) as [H3 H4]. destruct (remux_all rtsp_fixed s1 t) as [s2 o2]. cbn [fst snd] in *.
    split; [apply Forall_app; now split|now rewrite H4].
  Qed.

  Definition sdp_first (done_before done_after : bool) (outs : list rout) : Prop :=
    if done_before then done_after = true /\ Forall is_rtp outs
    else (outs = [] /\ done_after = false) \/ (exists r rest, outs = RSdp r :: rest /\ Forall is_rtp rest /\ done_after = true).

  Lemma do_analyze_sdp_first s : q_done s = false ->
    sdp_first false (q_done (fst (do_analyze b64_enc hex_enc tool rtsp_fixed s))) (snd (do_analyze b64_enc hex_enc tool rtsp_fixed s)).
  Proof.
    intros Hd. unfold do_analyze. destruct (negb (analyze_enough s)); [left; now split|].
    destruct (q_asc s) as [asc|].
    - destruct (asc_unpack asc) as [cx|e|p]; try (left; now split).
      destruct (asc_sampling_frequency cx); try (left; now split).
      set (s1 := mk_r2r _ _ _ _ _ _ _ _ _ _ _).
      pose proof (remux_all_only_rtp (q_cache s1) s1) as [H1 _]. destruct (remux_all rtsp_fixed s1 (q_cache s1)) as [s2 outs].
      right. eexists. eexists. cbn [fst snd q_done] in *. now repeat split.
    - set (s1 := mk_r2r _ _ _ _ _ _ _ _ _ _ _).
      pose proof (remux_all_only_rtp (q_cache s1) s1) as [H1 _]. destruct (remux_all rtsp_fixed s1 (q_cache s1)) as [s2 outs].
      right. eexists. eexists. cbn [fst snd q_done] in *. now repeat split.
  Qed.

  Lemma feed_sdp_first s i :
    sdp_first (q_done s) (q_done (fst (feed_rtmp_msg b64_enc hex_enc tool rtsp_fixed s i)))
              (snd (feed_rtmp_msg b64_enc hex_enc tool rtsp_fixed s i)).
  Proof.
    unfold feed_rtmp_msg. destruct i as [ac rate|m].
    - destruct (rtsp_fixed && q_done s) eqn:Eg; cbn [fst snd set_audio_guess q_done]; unfold sdp_first;
      (destruct (q_done s); [split; [reflexivity|constructor]|left; now split]).
    - destruct (if rm_type m =? type_audio then _ else _).
      { cbn [fst snd]. unfold sdp_first. destruct (q_done s); [split; [reflexivity|constructor]|left; now split]. }
      set (s0 := if (rm_type m =? type_audio) && (q_apt s =? pt_unknown)%Z then _ else s).
      assert (Hs0 : q_done s0 = q_done s).
      { subst s0. destruct ((rm_type m =? type_audio) && (q_apt s =? pt_unknown)%Z); [|reflexivity].
        destruct (audio_codec_id m =? sound_g711u); [reflexivity|]. destruct (audio_codec_id m =? sound_g711a); [reflexivity|].
        destruct (audio_codec_id m =? sound_opus); reflexivity. }
      rewrite <- Hs0. destruct (q_done s0) eqn:Ed; cbn [negb].
      + destruct (_ || _); [cbn [fst snd]; split; [exact Ed|constructor]|].
        destruct (remux_only_rtp s0 m) as [H1 H2]. split; [now rewrite H2|exact H1].
      + destruct (is_avc_key_seq_header m).
        { destruct (avc_parse_seq_header (rm_payload m)) as [[sp pq]|e|p]; try (apply do_analyze_sdp_first; exact Ed);
            (destruct (if rtsp_fixed then avc_parse_seq_header_list (rm_payload m) else Err 0) as [[[|x1 l1] [|x2 l2]]|e2|p2];
             apply do_analyze_sdp_first; exact Ed). }
        destruct (is_hevc_key_seq_header m).
        { destruct (is_ext_header m).
          - destruct (hevc_parse_enhanced_seq_header (rm_payload m)) as [[[v sp] q]|e|p]; apply do_analyze_sdp_first; exact Ed.
          - destruct (hevc_parse_seq_header (rm_payload m)) as [[[v sp] q]|e|p]; apply do_analyze_sdp_first; exact Ed. }
        destruct (is_aac_seq_header m); apply do_analyze_sdp_first; exact Ed.
  Qed.

  (* the whole run: nothing, or the SDP followed by RTP packets only *)
  Theorem rtsp_sdp_first : forall l s,
    sdp_first (q_done s) (q_done (fst (feed_all_msgs b64_enc hex_enc tool rtsp_fixed s l)))
              (snd (feed_all_msgs b64_enc hex_enc tool rtsp_fixed s l)).
  Proof.
    induction l as [|i t IH]; intros s; cbn [feed_all_msgs].
    - cbn [fst snd]. unfold sdp_first. destruct (q_done s); [split; [reflexivity|constructor]|left; now split].
    - pose proof (feed_sdp_first s i) as H1. destruct (feed_rtmp_msg b64_enc hex_enc tool rtsp_fixed s i) as [s1 o1]. cbn [fst snd] in H1.
      specialize (IH s1). destruct (feed_all_msgs b64_enc hex_enc tool rtsp_fixed s1 t) as [s2 o2]. cbn [fst snd] in *.
      unfold sdp_first in *. destruct (q_done s).
      + destruct H1 as [D1 R1]. rewrite D1 in IH. destruct IH as [D2 R2]. split; [exact D2|apply Forall_app; now split].
      + destruct H1 as [[-> D1]|(r & rest & -> & R1 & D1)]; rewrite D1 in IH.
        * exact IH.
        * destruct IH as [D2 R2]. right. exists r, (rest ++ o2). repeat split; [|exact D2]. apply Forall_app; now split.
  Qed.
End Codecs2.

(* an AVC sequence header with several SPS / PPS during the analysis phase: the
   first SPS and the first PPS become the remuxer's parameter sets (the pinned
   tree dropped both) *)
Lemma feed_avc_header_list b64 hex tool s m sps spss pps ppss :
  q_done s = false -> rm_type m = type_video -> (lenN (rm_payload m) <=? 5) = false ->
  is_avc_key_seq_header m = true ->
  avc_parse_seq_header_list (rm_payload m) = Ok (sps :: spss, pps :: ppss) -> sps <> [] -> pps <> [] ->
  (forall a b, avc_parse_seq_header (rm_payload m) = Ok (a, b) -> a = sps /\ b = pps) ->
  feed_rtmp_msg b64 hex tool true s (RMsg m)
  = do_analyze b64 hex tool true (set_params s (q_vps s) (Some sps) (Some pps)).
Proof.
  intros Hd Hty Hlen Hsh Hl Hs Hp Hone. unfold feed_rtmp_msg. rewrite Hty.
  change (type_video =? type_audio) with false. change (type_video =? type_video) with true. cbv iota.
  rewrite Hlen. cbn [andb]. rewrite Hd. cbn [negb]. rewrite Hsh.
  assert (Hn : forall x, x <> [] -> nil_if_empty x = Some x) by (intros [|y t] H; [congruence|reflexivity]).
  destruct (avc_parse_seq_header (rm_payload m)) as [[a b]|e|p] eqn:E.
  - destruct (Hone a b eq_refl) as [-> ->]. now rewrite !Hn.
  - rewrite Hl. now rewrite !Hn.
  - rewrite Hl. now rewrite !Hn.
Qed.
