(* C06 / C10: hls.Muxer as logic.Group wires it - observer of the remuxer, with
   FlushAudio called back from inside openFragment (RemuxGroup.v) - keeps C10's
   invariant (Hls/HlsInv.v) at EVERY file system operation.  The observer
   version is built from C10's own steps (closeFragment, openFragment,
   FeedMpegts of the handed-over frames, the duration update, the write), so
   C10's step lemmas compose: the operation sequence is a [chain], and every
   prefix of it leaves the directory in a state C10's theorems describe. *)
From Coq Require Import ZArith Bool List Lia.
From Lal Require Import Common.LBytes Group.GroupMsg Mpegts.TsPack Hls.HlsFloat Hls.HlsFs Hls.HlsFsProofs Hls.HlsPlaylist Hls.HlsMuxer
  Hls.HlsConsistent Hls.HlsInv Hls.HlsInvProofs Hls.HlsLiveProofs Hls.HlsRunProofs
  Remux.RemuxRtmp2Ts Remux.RemuxTsFilter Remux.RemuxGroup.
Import ListNotations.
Open Scope Z_scope.

(* [h'] continues [h]: more operations, every prefix of which C10's invariant describes *)
Definition hext (c : cfg) (h h' : hstate) : Prop :=
  exists ops, h_ops h' = (h_ops h ++ ops)%list /\ h_fs h' = apply_all (h_fs h) ops
              /\ HlsInv.chain c (h_mux h) (h_fs h) ops (h_mux h').
Definition hgood (c : cfg) (h : hstate) : Prop := Inv c (h_mux h) (h_fs h) /\ good_pp (m_patpmt (h_mux h)).

Lemma hext_refl c h : hext c h h.
Proof. exists []. split; [now rewrite app_nil_r|]. split; [reflexivity|apply ch_nil]. Qed.

Lemma hext_trans c h1 h2 h3 : hext c h1 h2 -> hext c h2 h3 -> hext c h1 h3.
Proof.
  intros (o1 & E1 & F1 & C1) (o2 & E2 & F2 & C2). exists (o1 ++ o2)%list.
  split; [now rewrite E2, E1, app_assoc|]. split; [now rewrite F2, F1, apply_all_app|].
  eapply chain_app; [exact C1|]. rewrite <- F1. exact C2.
Qed.

Lemma hext_step c h m ops : HlsInv.chain c (h_mux h) (h_fs h) ops m -> hext c h (h_step h m ops).
Proof. intro H. exists ops. split; [reflexivity|]. split; [reflexivity|exact H]. Qed.

Definition ev_whole (e : tsev) : Prop := whole_pkts (ev_bytes e).

(* FeedMpegts of one handed-over frame = C10's feed *)
Lemma feed_plain_ok c now h e : hgood c h -> ev_whole e ->
  hext c h (hls_feed_plain c now h e) /\ hgood c (hls_feed_plain c now h e).
Proof.
  intros [HI Hpp] Hw. unfold hls_feed_plain.
  destruct (feed c (h_mux h) (h_fs h) (ev_is_audio e) (Z.of_N (f_pts (te_frame e))) (Z.of_N (f_dts (te_frame e)))
                 (te_boundary e) now (ev_bytes e)) as [m1 ops] eqn:E.
  destruct (feed_ok c _ _ _ _ _ _ _ _ _ _ HI Hpp Hw E) as (A & B & C).
  split; [now apply hext_step|]. split; [exact B|]. cbn [h_step h_mux]. now rewrite C.
Qed.

Lemma fold_plain_ok c now : forall pend h, hgood c h -> Forall ev_whole pend ->
  hext c h (fold_left (hls_feed_plain c now) pend h) /\ hgood c (fold_left (hls_feed_plain c now) pend h).
Proof.
  induction pend as [|e t IH]; intros h Hg Hw; cbn [fold_left]; [split; [apply hext_refl|exact Hg]|].
  inversion Hw as [|? ? He Ht]; subst. destruct (feed_plain_ok c now h e Hg He) as [X1 G1].
  destruct (IH _ G1 Ht) as [X2 G2]. split; [exact (hext_trans _ _ _ _ X1 X2)|exact G2].
Qed.

Lemma reopen_obs_ok c h ts doit d now pend h' p' cl :
  hgood c h -> Forall ev_whole pend -> reopen_obs c h ts doit d now pend = (h', p', cl) ->
  hext c h h' /\ hgood c h'.
Proof.
  intros [HI Hpp] Hw. unfold reopen_obs. destruct doit.
  - destruct (close_fragment c (h_mux h) (h_fs h) false) as [m1 o1] eqn:E1.
    destruct (close_any c _ _ _ _ _ HI E1) as (A1 & B1 & C1 & D1).
    destruct (open_fragment c m1 ts d now) as [m2 o2] eqn:E2.
    rewrite <- D1 in Hpp.
    destruct (open_ok c m1 (apply_all (h_fs h) o1) ts d now m2 o2 B1 C1 Hpp E2) as (A2 & B2 & C2 & _ & _ & D2 & F2).
    set (h1 := h_step h m1 o1). set (h2 := h_step h1 m2 o2).
    assert (X12 : hext c h h2).
    { eapply hext_trans; [apply (hext_step c h m1 o1 A1)|apply (hext_step c h1 m2 o2 A2)]. }
    assert (G2 : hgood c h2) by (split; [exact B2|cbn [h2 h_step h_mux]; congruence]).
    intros H. injection H as <- <- <-.
    destruct (fold_plain_ok c now pend h2 G2 Hw) as [X3 G3].
    split; [exact (hext_trans _ _ _ _ X12 X3)|exact G3].
  - intros H. injection H as <- <- <-. split; [apply hext_refl|split; assumption].
Qed.

Lemma with_mux_self h : with_mux h (h_mux h) = h.
Proof. now destruct h. Qed.

(* updateFragment with the observer *)
Lemma update_obs_ok c h ts b now pend h' p' cl :
  hgood c h -> Forall ev_whole pend -> update_fragment_obs c h ts b now pend = (h', p', cl) ->
  hext c h h' /\ hgood c h' /\ (p' = pend \/ p' = []).
Proof.
  intros Hg Hw. pose proof Hg as [HI Hpp]. unfold update_fragment_obs. cbv zeta.
  destruct (m_opened (h_mux h)) eqn:Ho.
  - set (fslot := slot c (h_mux h) (m_nfrags (h_mux h))).
    destruct (force_split c (h_mux h) ts) eqn:Ef.
    + destruct (reopen_obs c h ts true true now pend) as [[h1 p1] c1] eqn:E1.
      destruct (reopen_obs_ok _ _ _ _ _ _ _ _ _ _ Hg Hw E1) as [X1 G1].
      assert (Hp1 : p1 = []) by (unfold reopen_obs in E1; destruct (close_fragment _ _ _ _); destruct (open_fragment _ _ _ _ _); now injection E1).
      rewrite with_mux_self.
      destruct (f_ltb _ _).
      * intros H. injection H as <- <- <-. split; [exact X1|]. split; [exact G1|now right].
      * destruct (reopen_obs c h1 ts b false now p1) as [[h3 p3] c3] eqn:E3.
        subst p1. destruct (reopen_obs_ok _ _ _ _ _ _ _ _ _ _ G1 (Forall_nil _) E3) as [X3 G3].
        intros H. injection H as <- <- <-. split; [exact (hext_trans _ _ _ _ X1 X3)|]. split; [exact G3|].
        right. unfold reopen_obs in E3. destruct b; [destruct (close_fragment _ _ _ _); destruct (open_fragment _ _ _ _ _)|]; now injection E3.
    + destruct (upd_dur_cur c (h_mux h) (h_fs h) ts HI Ho Ef) as (A2 & B2 & B2' & C2 & D2 & F2). fold fslot in A2, B2, B2', C2, D2, F2.
      set (m2 := upd_dur (h_mux h) fslot ts) in *.
      set (h2 := with_mux h m2).
      assert (X2 : hext c h h2).
      { exists []. split; [now rewrite app_nil_r|]. split; [reflexivity|].
        eapply ch_silent; [exact B2|exact B2'|exact C2|exact A2|apply ch_nil]. }
      assert (G2 : hgood c h2) by (split; [exact A2|cbn [h2 with_mux h_mux]; congruence]).
      change (h_mux h2) with m2.
      destruct (f_ltb _ _).
      * intros H. injection H as <- <- <-. split; [exact X2|]. split; [exact G2|now left].
      * destruct (reopen_obs c h2 ts b false now pend) as [[h3 p3] c3] eqn:E3.
        destruct (reopen_obs_ok _ _ _ _ _ _ _ _ _ _ G2 Hw E3) as [X3 G3].
        intros H. injection H as <- <- <-. split; [exact (hext_trans _ _ _ _ X2 X3)|]. split; [exact G3|].
        unfold reopen_obs in E3. destruct b; [destruct (close_fragment _ _ _ _); destruct (open_fragment _ _ _ _ _); right|left]; now injection E3.
  - intros E. destruct (reopen_obs_ok _ _ _ _ _ _ _ _ _ _ Hg Hw E) as [X G]. split; [exact X|]. split; [exact G|].
    unfold reopen_obs in E. destruct b; [destruct (close_fragment _ _ _ _); destruct (open_fragment _ _ _ _ _); right|left]; now injection E.
Qed.

(* IFile.Write of frame data to the open segment (the last step of C10's feed_ok) *)
Lemma write_ok c m s pk :
  Inv c m s -> m_opened m = true -> whole_pkts pk ->
  HlsInv.chain c m s [OWrite (m_cur m) pk] m /\ Inv c m (apply s (OWrite (m_cur m) pk)).
Proof.
  intros B1 Ho1 Hpk.
  assert (HI2 : Inv c m (apply s (OWrite (m_cur m) pk))).
  { destruct B1 as [H1 H2 H3 H4 H5 H6 H7 H8 H9 H10 H11 H12 H13].
    destruct (H10 Ho1) as (f & Hf & Hg). destruct (H6 Ho1) as [_ Hcur].
    assert (Hlk_o : forall q, q <> m_cur m -> fs_lookup q (apply s (OWrite (m_cur m) pk)) = fs_lookup q s).
    { intros q Hq. apply lookup_apply_other; [exact I|cbn; intuition congruence]. }
    constructor; try assumption.
    - intros i Hi Hw. rewrite Hlk_o; [now apply H9|]. rewrite Hcur. intros Eq. injection Eq as _ Eq. lia.
    - intros _. exists (mkfile (fdata f ++ pk) (fclosed f)). split.
      + rewrite lookup_apply, Hf, path_eqb_refl. reflexivity.
      + cbn. now apply good_data_app.
    - intros Hz. eapply (prev_ok_ext c m m); [reflexivity|reflexivity| | |now apply H11].
      + apply Hlk_o. rewrite Hcur. discriminate.
      + intros now0 id0 Hid. apply Hlk_o. rewrite Hcur. intros Eq. injection Eq as _ Eq. unfold nclosed in *. lia.
    - intros Hz. rewrite Hlk_o; [now apply H12|]. rewrite Hcur. discriminate. }
  split; [|exact HI2].
  eapply ch_cons; [|exact HI2|apply ch_nil]. apply rstep_same; [exact I|exact I|reflexivity|].
  destruct B1 as [_ G2 _ _ _ G6 _ _ _ _ _ _ _]. destruct (G6 Ho1) as [_ Hcur].
  intros q [<-|[]]. rewrite Hcur. unfold nclosed. lia.
Qed.

(* FeedMpegts of [e] during which FlushAudio handed over [nested] *)
Lemma feed_obs_ok c now h e nested :
  hgood c h -> ev_whole e -> Forall ev_whole nested ->
  hext c h (hls_feed_obs c now h e nested) /\ hgood c (hls_feed_obs c now h e nested).
Proof.
  intros Hg He Hn. unfold hls_feed_obs.
  destruct (update_fragment_obs c h (ev_ts e) (te_boundary e) now nested) as [[h1 p1] c1] eqn:E.
  destruct (update_obs_ok _ _ _ _ _ _ _ _ _ Hg Hn E) as (X1 & [HI1 Hpp1] & _).
  destruct (m_opened (h_mux h1)) eqn:Ho; [|split; [exact X1|split; assumption]].
  destruct (write_ok c (h_mux h1) (h_fs h1) (ev_bytes e) HI1 Ho He) as [A B].
  split; [eapply hext_trans; [exact X1|apply (hext_step c h1 (h_mux h1) _ A)]|].
  split; [exact B|exact Hpp1].
Qed.

(* FeedPatPmt *)
Lemma patpmt_ok c h b : Inv c (h_mux h) (h_fs h) -> good_pp b ->
  hext c h (with_mux h (with_patpmt (h_mux h) b)) /\ hgood c (with_mux h (with_patpmt (h_mux h) b)).
Proof.
  intros HI Hb. split.
  - exists []. split; [now rewrite app_nil_r|]. split; [reflexivity|].
    eapply ch_silent; [apply mle_with_patpmt|apply same_pub_with_patpmt|reflexivity|now apply inv_with_patpmt|apply ch_nil].
  - split; [now apply inv_with_patpmt|exact Hb].
Qed.

(* ---- the PAT/PMT blocks of the remuxer are good ---- *)
Lemma fit_length n pad l : length (TsPsi.fit n pad l) = n.
Proof. unfold TsPsi.fit. rewrite firstn_length, app_length, repeat_length. lia. Qed.

Lemma good_pp_remuxer v a k : good_pp (TsPsi.pack_pat ++ TsPsi.pack_pmt_ver v a k).
Proof.
  assert (Hl : length TsPsi.pack_pat = 188%nat) by (unfold TsPsi.pack_pat; apply fit_length).
  unfold good_pp. rewrite app_length, Hl. unfold TsPsi.pack_pmt_ver at 1. rewrite fit_length.
  split; [reflexivity|].
  rewrite !app_nth1 by (rewrite Hl; lia).
  split; [reflexivity|]. split; [reflexivity|]. split; [reflexivity|].
  rewrite app_nth2 by (rewrite Hl; lia). rewrite Hl. reflexivity.
Qed.
