(* C07: GB28181 ingest.  gb28181.PubSession.feedPacket -> PsUnpacker (the C13
   model Net/NetPs.v, fixed tree) -> Group.OnAvPacketFromPsPubSession ->
   AvPacket2RtmpRemuxer with the options StartRtpPub sets (Annex-B video,
   ADTS AAC).  No proofs here. *)
From Lal Require Export Common.LBytes Common.Res Remux.RemuxAv2Rtmp.
From Lal Require Net.NetPs.
Open Scope N_scope.

(* group.rtsp2RtmpRemuxer of StartRtpPub *)
Definition ps_rstate : rstate := rs_with_option rs_new vfmt_annexb afmt_adts.

Definition av_of_psev (e : NetPs.ps_ev) : avpkt := mk_av (NetPs.pe_pt e) (NetPs.pe_ts e) (NetPs.pe_payload e).

(* rtp datagrams in arrival order -> per datagram: the AvPackets the unpacker
   called back with, and the rtmp messages the group received *)
Fixpoint ps_ingest (fx : bool) (maxsize : Z) (st : NetPs.ps_state) (r : rstate) (pkts : list bytes)
  : res (list (list avpkt * list rmsg)) :=
  match pkts with
  | [] => Ok []
  | b :: t =>
      let* (es, evs) := NetPs.ps_feed_rtp_packet true maxsize st b in
      let (_, st1) := es in
      let avs := map av_of_psev evs in
      let* (r1, ms) := feed_all_av fx r avs in
      let* more := ps_ingest fx maxsize st1 r1 t in
      Ok ((avs, ms) :: more)
  end.

Definition ps_ingest_run (fx : bool) (maxsize : Z) (pkts : list bytes) : res (list (list avpkt * list rmsg)) :=
  ps_ingest fx maxsize NetPs.ps_init ps_rstate pkts.
