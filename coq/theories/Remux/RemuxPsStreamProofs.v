(* C07: a whole program stream through gb28181.PsUnpacker.FeedRtpBody.
   The stream is a list of elements written by a reference muxer (ISO 13818-1
   2.5.3.3 pack header with stuffing, 2.5.3.5 system header and the other
   length-prefixed packets lal skips, 2.5.4.1 program stream map, 2.4.3.6 PES
   packets of the video and the audio stream, program end code).  It reaches
   FeedRtpBody cut into RTP bodies at ARBITRARY positions.  Result: the state
   and the AvPackets are those of processing the elements one after the other -
   however the stream was cut. *)
From Coq Require Import Lia ZifyN ZifyNat ZifyBool.
From Lal Require Import Common.LBytes Common.LBytesProofs Common.Res Net.NetChk Net.NetChkProofs Net.NetPs Remux.RemuxPsPesProofs.
Open Scope N_scope.
Ltac Zify.zify_post_hook ::= Z.div_mod_to_equations.

(* ---------------------------------------------------------------- reference muxer *)
Inductive elem :=
| EPack (fixed : bytes) (hi : N) (stuffing : bytes)
| EOther (c : N) (body : bytes)
| EPsm (b6 b7 : N) (info : bytes) (entries : list (N * N * bytes)) (crc : bytes)
| EPes (video : bool) (pts : option N) (data : bytes)
| EEnd.

(* stream ids lal skips by their length field: system header bb, private 1 bd, private 2 bf, ecm f0, emm f1, padding be, directory ff *)
Definition other_code (c : N) : bool :=
  (c =? 187) || (c =? 189) || (c =? 191) || (c =? 240) || (c =? 241) || (c =? 190) || (c =? 255).

Definition es_entry (x : N * N * bytes) : bytes := let '(t, sid, d) := x in t :: sid :: be_put 2 (lenN d) ++ d.
Definition es_bytes (entries : list (N * N * bytes)) : bytes := concat (map es_entry entries).

Definition ebytes (e : elem) : bytes :=
  match e with
  | EPack fixed hi st => 0 :: 0 :: 1 :: 186 :: fixed ++ (hi * 8 + lenN st) :: st
  | EOther c body => 0 :: 0 :: 1 :: c :: be_put 2 (lenN body) ++ body
  | EPsm b6 b7 info entries crc =>
      0 :: 0 :: 1 :: 188 :: be_put 2 (10 + lenN info + lenN (es_bytes entries)) ++ b6 :: b7 :: be_put 2 (lenN info) ++ info
        ++ be_put 2 (lenN (es_bytes entries)) ++ es_bytes entries ++ crc
  | EPes v pts data => pes_pkt (if v then 224 else 192) pts data
  | EEnd => [0; 0; 1; 185]
  end.

Definition elem_ok (e : elem) : Prop :=
  match e with
  | EPack fixed hi st => lenN fixed = 9 /\ lenN st < 8
  | EOther c body => other_code c = true /\ lenN body < 65536
  | EPsm _ _ info entries crc =>
      lenN info < 65536 /\ lenN (es_bytes entries) < 65536 /\ lenN crc = 4 /\ Forall (fun x => lenN (snd x) < 65536) entries
  | EPes _ pts data => pes_ok (pts, data)
  | EEnd => True
  end.

(* ---------------------------------------------------------------- what an element does to the unpacker (buffer and rtp timestamps aside) *)
Record core := mk_core {
  k_abuf : bytes; k_vbuf : bytes; k_ast : N; k_vst : N; k_apt : Z; k_vpt : Z;
  k_apts : Z; k_vpts : Z; k_adts : Z; k_wait : bool }.

Definition core_of (st : ps_state) : core :=
  mk_core (ps_abuf st) (ps_vbuf st) (ps_ast st) (ps_vst st) (ps_apt st) (ps_vpt st)
          (ps_pre_apts st) (ps_pre_vpts st) (ps_pre_adts st) (ps_wait_sps st).

Definition psm_entry (x : N * N * Z * Z) (e : N * N * bytes) : N * N * Z * Z :=
  let '(t, sid, _) := e in
  let '(ast, vst, apt, vpt) := x in
  if (224 <=? sid) && (sid <=? 239) then
    (ast, t, apt, if t =? 27 then 96%Z else if t =? 36 then 98%Z else (-1)%Z)
  else if (192 <=? sid) && (sid <=? 223) then
    (t, vst, (if t =? 15 then 97%Z else if t =? 144 then 8%Z else if t =? 145 then 0%Z else (-1)%Z), vpt)
  else x.

Definition e_nopts : N := 99.   (* a PES packet without PTS while no frame with a PTS is running: outside this theorem *)

Definition astep (k : core) (e : elem) : res (core * list ps_ev) :=
  match e with
  | EPack _ _ _ | EOther _ _ | EEnd => Ok (k, [])
  | EPsm _ _ _ entries _ =>
      let '(ast, vst, apt, vpt) := fold_left psm_entry entries (k_ast k, k_vst k, k_apt k, k_vpt k) in
      Ok (mk_core (k_abuf k) (k_vbuf k) ast vst apt vpt (k_apts k) (k_vpts k) (k_adts k) (k_wait k), [])
  | EPes true (Some v) d =>
      let p := Z.of_N v in
      if (negb (p =? k_vpts k) && (0 <=? k_vpts k))%Z then
        let* we := iterate_nalu_by_start_code true (k_vbuf k) (k_vpt k) (k_vpts k) (k_vpts k) (k_wait k) in
        Ok (mk_core (k_abuf k) ([] ++ d) (k_ast k) (k_vst k) (k_apt k) (k_vpt k) (k_apts k) p (k_adts k) (fst we), snd we)
      else Ok (mk_core (k_abuf k) (k_vbuf k ++ d) (k_ast k) (k_vst k) (k_apt k) (k_vpt k) (k_apts k) p (k_adts k) (k_wait k), [])
  | EPes true None d =>
      if (k_vpts k =? -1)%Z then Err e_nopts
      else Ok (mk_core (k_abuf k) (k_vbuf k ++ d) (k_ast k) (k_vst k) (k_apt k) (k_vpt k) (k_apts k) (k_vpts k) (k_adts k) (k_wait k), [])
  | EPes false pts d =>
      match pts with
      | None => if (k_apts k =? -1)%Z then Err e_nopts else
          if (k_ast k =? 15) || (k_ast k =? 144) || (k_ast k =? 145)
          then Ok (mk_core (k_abuf k ++ d) (k_vbuf k) (k_ast k) (k_vst k) (k_apt k) (k_vpt k) (k_apts k) (k_vpts k) (k_adts k) (k_wait k), [])
          else Ok (k, [])
      | Some v =>
          let p := Z.of_N v in
          if (k_ast k =? 15) || (k_ast k =? 144) || (k_ast k =? 145) then
            if (negb (p =? k_apts k) && (0 <=? k_apts k))%Z then
              Ok (mk_core ([] ++ d) (k_vbuf k) (k_ast k) (k_vst k) (k_apt k) (k_vpt k) p (k_vpts k) p (k_wait k),
                  [mk_psev (k_apt k) (Z.quot (k_adts k) 90) (Z.quot (k_apts k) 90) (k_abuf k)])
            else Ok (mk_core (k_abuf k ++ d) (k_vbuf k) (k_ast k) (k_vst k) (k_apt k) (k_vpt k) p (k_vpts k) p (k_wait k), [])
          else Ok (k, [])
      end
  end.

Fixpoint arun (k : core) (els : list elem) : res (core * list ps_ev) :=
  match els with
  | [] => Ok (k, [])
  | e :: t => let* (k1, ev1) := astep k e in let* (k2, ev2) := arun k1 t in Ok (k2, ev1 ++ ev2)
  end.

(* ---------------------------------------------------------------- reading inside a buffer *)
Lemma idx_mid site pre x r : idx site (pre ++ x :: r) (lenN pre) = Ok x.
Proof. apply idx_nth. unfold lenN. rewrite Nat2N.id. rewrite nth_error_app2 by lia. rewrite Nat.sub_diag. reflexivity. Qed.

Lemma be16_mid ss si pre a b r : be_at ss si 2 (pre ++ a :: b :: r) (lenN pre) = Ok (a * 256 + b).
Proof.
  unfold be_at. rewrite lenN_app, !lenN_cons.
  assert (lenN pre + (lenN r + 1 + 1) <? lenN pre = false) as -> by (apply N.ltb_ge; lia).
  assert (lenN pre + (lenN r + 1 + 1) <? lenN pre + 2 = false) as -> by (apply N.ltb_ge; lia).
  unfold lenN at 1. rewrite Nat2N.id, skipn_app, skipn_all, Nat.sub_diag. change (N.to_nat 2) with 2%nat. cbn [skipn app firstn].
  unfold be_get. cbn [be_get_acc]. f_equal; try lia.
Qed.

Lemma idx_mid' site rb pre x r : rb = pre ++ x :: r -> idx site rb (lenN pre) = Ok x.
Proof. intros ->. apply idx_mid. Qed.
Lemma be16_mid' ss si rb pre a b r : rb = pre ++ a :: b :: r -> be_at ss si 2 rb (lenN pre) = Ok (a * 256 + b).
Proof. intros ->. apply be16_mid. Qed.

Lemma be_put2_val n : n < 65536 -> (n / 256) mod 256 * 256 + n mod 256 = n.
Proof. intros H. lia. Qed.

Lemma be_put2 v : be_put 2 v = [(v / 256) mod 256; v mod 256].
Proof. cbn [be_put]. change (256 ^ N.of_nat 1) with 256. change (256 ^ N.of_nat 0) with 1. rewrite N.div_1_r. reflexivity. Qed.

Lemma lenN_be_put n v : lenN (be_put n v) = N.of_nat n.
Proof. unfold lenN. rewrite be_put_length. reflexivity. Qed.

(* ---------------------------------------------------------------- one loop iteration per complete element *)
Definition same_queue (st st' : ps_state) : Prop :=
  ps_list st' = ps_list st /\ ps_size st' = ps_size st /\ ps_done st' = ps_done st.

Lemma code_at (c : N) t rest : c < 256 ->
  be_at s_ps_feed_slice s_ps_be32_index 4 (0 :: 0 :: 1 :: c :: t ++ rest) 0 = Ok (256 + c).
Proof.
  intros Hc. unfold be_at. rewrite !lenN_cons.
  assert (lenN (t ++ rest) + 1 + 1 + 1 + 1 <? 0 = false) as -> by (apply N.ltb_ge; lia).
  assert (lenN (t ++ rest) + 1 + 1 + 1 + 1 <? 0 + 4 = false) as -> by (apply N.ltb_ge; lia).
  change (N.to_nat 0) with 0%nat. change (N.to_nat 4) with 4%nat. cbn [skipn firstn]. unfold be_get. cbn [be_get_acc]. f_equal; try lia.
Qed.

(* the program stream map *)
Lemma psm_loop_entries rb : forall entries pre rest fuel esml x,
  rb = pre ++ es_bytes entries ++ rest -> Forall (fun e => lenN (snd e) < 65536) entries ->
  esml = Z.of_N (lenN (es_bytes entries)) -> (length entries < fuel)%nat ->
  psm_loop fuel rb (lenN pre) esml x = Ok (lenN pre + lenN (es_bytes entries), fold_left psm_entry entries x).
Proof.
  induction entries as [|[[t sid] d] tl IH]; intros pre rest fuel esml x Erb Hok Hesml Hf.
  - destruct fuel; cbn [psm_loop es_bytes map concat lenN length N.of_nat fold_left] in *; subst esml; cbn; rewrite N.add_0_r; reflexivity.
  - destruct fuel as [|f]; [cbn in Hf; lia|]. apply Forall_cons_iff in Hok as [Hd Hok]. cbn [snd] in Hd.
    unfold es_bytes in *. cbn [map concat es_entry] in *. fold (es_bytes tl) in *.
    assert (Hl : lenN ((t :: sid :: be_put 2 (lenN d) ++ d) ++ es_bytes tl) = 4 + lenN d + lenN (es_bytes tl)).
    { rewrite lenN_app. cbn [app]. rewrite !lenN_cons, lenN_app, lenN_be_put. lia. }
    cbn [psm_loop]. assert ((esml <=? 0)%Z = false) as -> by (apply Z.leb_gt; subst esml; rewrite Hl; lia).
    assert (E0 : rb = pre ++ t :: (sid :: be_put 2 (lenN d) ++ d ++ es_bytes tl ++ rest)).
    { rewrite Erb. cbn [app]. rewrite <- !app_assoc. reflexivity. }
    rewrite (idx_mid' _ _ _ _ _ E0). cbn [bind].
    assert (E1 : rb = (pre ++ [t]) ++ sid :: (be_put 2 (lenN d) ++ d ++ es_bytes tl ++ rest)) by (rewrite E0, <- app_assoc; reflexivity).
    replace (lenN pre + 1) with (lenN (pre ++ [t])) by (rewrite lenN_app; reflexivity).
    rewrite (idx_mid' _ _ _ _ _ E1). cbn [bind].
    assert (E2 : rb = (pre ++ [t; sid]) ++ (lenN d / 256) mod 256 :: lenN d mod 256 :: (d ++ es_bytes tl ++ rest)).
    { rewrite E0, be_put2, <- app_assoc. reflexivity. }
    destruct x as [[[ast vst] apt] vpt].
    replace (lenN pre + 2) with (lenN (pre ++ [t; sid])) by (rewrite lenN_app; reflexivity).
    rewrite (be16_mid' _ _ _ _ _ _ _ E2), be_put2_val by exact Hd. cbn [bind].
    replace (lenN pre + 4 + lenN d) with (lenN (pre ++ t :: sid :: be_put 2 (lenN d) ++ d)).
    2:{ rewrite lenN_app, !lenN_cons, lenN_app, lenN_be_put. lia. }
    rewrite (IH (pre ++ t :: sid :: be_put 2 (lenN d) ++ d) rest f).
    + f_equal. f_equal. rewrite Hl, lenN_app, !lenN_cons, lenN_app, lenN_be_put. lia.
    + rewrite Erb. cbn [app]. rewrite <- !app_assoc. cbn [app]. rewrite <- !app_assoc. reflexivity.
    + exact Hok.
    + subst esml. rewrite Hl. lia.
    + cbn [length] in Hf. lia.
Qed.

(* ---------------------------------------------------------------- accessors on a prefix of the buffer *)
Lemma idx_prefix site P Q i : i < lenN P -> idx site P i = idx site (P ++ Q) i.
Proof.
  intros H. unfold idx. rewrite lenN_app.
  assert (i <? lenN P = true) as -> by (apply N.ltb_lt; lia).
  assert (i <? lenN P + lenN Q = true) as -> by (apply N.ltb_lt; lia).
  rewrite nth_error_app1 by (unfold lenN in H; lia). reflexivity.
Qed.

Lemma be_at_prefix ss si n P Q off : off + n <= lenN P -> be_at ss si n P off = be_at ss si n (P ++ Q) off.
Proof.
  intros H. unfold be_at. rewrite lenN_app.
  assert (lenN P <? off = false) as -> by (apply N.ltb_ge; lia).
  assert (lenN P <? off + n = false) as -> by (apply N.ltb_ge; lia).
  assert (lenN P + lenN Q <? off = false) as -> by (apply N.ltb_ge; lia).
  assert (lenN P + lenN Q <? off + n = false) as -> by (apply N.ltb_ge; lia).
  f_equal. f_equal. rewrite skipn_app. rewrite firstn_app.
  replace (N.to_nat n - length (skipn (N.to_nat off) P))%nat with 0%nat by (rewrite skipn_length; unfold lenN in H; lia).
  cbn [firstn]. rewrite app_nil_r. reflexivity.
Qed.

Lemma lenN_ebytes e : elem_ok e ->
  lenN (ebytes e) = match e with
                    | EPack fixed hi st => 14 + lenN st
                    | EOther c body => 6 + lenN body
                    | EPsm _ _ info entries crc => 16 + lenN info + lenN (es_bytes entries)
                    | EPes _ pts data => 6 + pes_len pts data
                    | EEnd => 4
                    end.
Proof.
  destruct e as [fixed hi st|c body|b6 b7 info entries crc|v pts data|]; cbn [ebytes elem_ok].
  - intros [Hf _]. rewrite !lenN_cons, lenN_app, lenN_cons. lia.
  - intros _. rewrite !lenN_cons, lenN_app, lenN_be_put. lia.
  - intros (_ & _ & Hc & _). repeat (rewrite ?lenN_cons, ?lenN_app, ?lenN_be_put). lia.
  - intros _. pose proof (lenN_pes (if v then 224 else 192) pts data []) as H. rewrite app_nil_r in H. rewrite H. unfold lenN. cbn [length]. lia.
  - reflexivity.
Qed.

(* the stream id byte of an element *)
Definition ecode (e : elem) : N :=
  match e with EPack _ _ _ => 186 | EOther c _ => c | EPsm _ _ _ _ _ => 188 | EPes v _ _ => if v then 224 else 192 | EEnd => 185 end.

Lemma ebytes_head e : exists t, ebytes e = 0 :: 0 :: 1 :: ecode e :: t.
Proof. destruct e as [fixed hi st|c body|b6 b7 info entries crc|v pts data|]; cbn [ebytes ecode]; try unfold pes_pkt; eexists; reflexivity. Qed.

Lemma ecode_lt e : elem_ok e -> ecode e < 256.
Proof.
  destruct e as [fixed hi st|c body|b6 b7 info entries crc|v pts data|]; cbn [ecode elem_ok]; try lia.
  - intros [Hc _]. unfold other_code in Hc. repeat (apply orb_true_iff in Hc as [Hc|Hc]); apply N.eqb_eq in Hc; lia.
  - intros _. destruct v; lia.
Qed.

(* ---------------------------------------------------------------- (S) a complete element at the head of the buffer *)
Lemma buf_skip_app a rest n : n = Z.of_N (lenN a) -> buf_skip (a ++ rest) n = rest.
Proof.
  intros ->. unfold buf_skip. rewrite lenN_app.
  assert ((Z.of_N (lenN a + lenN rest) <? Z.of_N (lenN a))%Z = false) as -> by (apply Z.ltb_ge; lia).
  replace (Z.to_nat (Z.of_N (lenN a))) with (length a) by (unfold lenN; lia).
  rewrite skipn_app, skipn_all, Nat.sub_diag. reflexivity.
Qed.

Lemma core_set_buf st b : core_of (set_buf st b) = core_of st. Proof. reflexivity. Qed.
Lemma queue_set_buf st b : same_queue st (set_buf st b). Proof. repeat split. Qed.

Definition stepped (f : nat) (st : ps_state) (rtpts : N) (acc : list ps_ev) (rest : bytes) (k' : core) (evs : list ps_ev) : Prop :=
  exists st', feed_body_loop true (S f) st rtpts acc = feed_body_loop true f st' rtpts (acc ++ evs) /\
              ps_buf st' = rest /\ core_of st' = k' /\ same_queue st st'.

Lemma step_pack fixed hi stf st rest rtpts acc f : elem_ok (EPack fixed hi stf) -> ps_buf st = ebytes (EPack fixed hi stf) ++ rest ->
  stepped f st rtpts acc rest (core_of st) [].
Proof.
  intros [Hf Hs] Hbuf. exists (set_buf st rest). split; [|split; [reflexivity|split; [reflexivity|apply queue_set_buf]]].
  cbn [feed_body_loop]. rewrite Hbuf. cbn [ebytes app andb].
  set (rb := 0 :: 0 :: 1 :: 186 :: (fixed ++ (hi * 8 + lenN stf) :: stf) ++ rest).
  assert (Hlen : lenN rb = 14 + lenN stf + lenN rest).
  { subst rb. rewrite !lenN_cons, !lenN_app, lenN_cons. lia. }
  assert (lenN rb <? 4 = false) as -> by (apply N.ltb_ge; lia).
  subst rb. rewrite code_at by lia. cbn [bind]. change (256 + 186 =? 442) with true. cbv iota.
  set (rb := 0 :: 0 :: 1 :: 186 :: (fixed ++ (hi * 8 + lenN stf) :: stf) ++ rest) in *.
  unfold parse_pack_header. cbn [andb].
  assert (lenN rb <=? 13 = false) as -> by (apply N.leb_gt; lia).
  assert (Erb : rb = (0 :: 0 :: 1 :: 186 :: fixed) ++ (hi * 8 + lenN stf) :: (stf ++ rest)).
  { subst rb. cbn [app]. rewrite <- app_assoc. reflexivity. }
  assert (E13 : idx s_ps_misc_index rb 13 = Ok (hi * 8 + lenN stf)).
  { replace 13 with (lenN (0 :: 0 :: 1 :: 186 :: fixed)) by (rewrite !lenN_cons; lia). apply (idx_mid' _ _ _ _ _ Erb). }
  rewrite E13. cbn [bind].
  assert (Hm : (hi * 8 + lenN stf) mod 8 = lenN stf) by lia. rewrite Hm.
  assert (lenN rb <? 14 + lenN stf = false) as -> by (apply N.ltb_ge; lia). cbn [bind].
  assert ((Z.of_N (10 + lenN stf) =? -2)%Z = false) as -> by (apply Z.eqb_neq; lia).
  assert ((Z.of_N (10 + lenN stf) <? 0)%Z = false) as -> by (apply Z.ltb_ge; lia).
  rewrite Hbuf. rewrite buf_skip_app; [rewrite app_nil_r; reflexivity|].
  rewrite (lenN_ebytes (EPack fixed hi stf)) by (split; assumption). lia.
Qed.

Lemma step_end st rest rtpts acc f : ps_buf st = ebytes EEnd ++ rest -> stepped f st rtpts acc rest (core_of st) [].
Proof.
  intros Hbuf. exists (set_buf st rest). split; [|split; [reflexivity|split; [reflexivity|apply queue_set_buf]]].
  cbn [feed_body_loop]. rewrite Hbuf. cbn [ebytes app andb].
  assert (lenN (0 :: 0 :: 1 :: 185 :: rest) <? 4 = false) as -> by (apply N.ltb_ge; rewrite !lenN_cons; lia).
  pose proof (code_at 185 [] rest) as Hcode. cbn [app] in Hcode. rewrite Hcode by lia. cbn [bind].
  change (256 + 185 =? 442) with false.
  change ((256 + 185 =? 443) || (256 + 185 =? 445) || (256 + 185 =? 447) || (256 + 185 =? 496) || (256 + 185 =? 497) || (256 + 185 =? 446) || (256 + 185 =? 511)) with false.
  change (256 + 185 =? 444) with false. change ((256 + 185 =? 448) || (256 + 185 =? 480)) with false. change (256 + 185 =? 441) with true.
  cbv iota. cbn [bind]. change ((0 =? -2)%Z) with false. change ((0 <? 0)%Z) with false. cbv iota.
  rewrite Hbuf. rewrite (buf_skip_app [0; 0; 1; 185] rest) by reflexivity. rewrite app_nil_r. reflexivity.
Qed.

Lemma step_other c body st rest rtpts acc f : elem_ok (EOther c body) -> ps_buf st = ebytes (EOther c body) ++ rest ->
  stepped f st rtpts acc rest (core_of st) [].
Proof.
  intros [Hc Hl] Hbuf. exists (set_buf st rest). split; [|split; [reflexivity|split; [reflexivity|apply queue_set_buf]]].
  cbn [feed_body_loop]. rewrite Hbuf. cbn [ebytes app andb]. rewrite be_put2. cbn [app].
  set (rb := 0 :: 0 :: 1 :: c :: (lenN body / 256) mod 256 :: lenN body mod 256 :: body ++ rest).
  assert (Hlen : lenN rb = 6 + lenN body + lenN rest) by (subst rb; rewrite !lenN_cons, lenN_app; lia).
  assert (lenN rb <? 4 = false) as -> by (apply N.ltb_ge; lia).
  assert (Hcl : c < 256) by (apply (ecode_lt (EOther c body)); split; assumption).
  subst rb. pose proof (code_at c ((lenN body / 256) mod 256 :: lenN body mod 256 :: body) rest Hcl) as Hcode. cbn [app] in Hcode. rewrite Hcode. cbn [bind app].
  set (rb := 0 :: 0 :: 1 :: c :: (lenN body / 256) mod 256 :: lenN body mod 256 :: body ++ rest) in *.
  assert (Epar : parse_pack_stream_body rb = Ok (Z.of_N (2 + lenN body))).
  { unfold parse_pack_stream_body. assert (lenN rb <? 6 = false) as -> by (apply N.ltb_ge; lia).
    assert (Eb : be_at s_ps_feed_slice s_ps_be16_index 2 rb 4 = Ok (lenN body)).
    { subst rb. replace 4 with (lenN [0; 0; 1; c]) by reflexivity.
      change (0 :: 0 :: 1 :: c :: (lenN body / 256) mod 256 :: lenN body mod 256 :: body ++ rest)
        with ([0; 0; 1; c] ++ (lenN body / 256) mod 256 :: lenN body mod 256 :: (body ++ rest)).
      rewrite be16_mid, be_put2_val by exact Hl. reflexivity. }
    rewrite Eb. cbn [bind]. assert (lenN rb <? 6 + lenN body = false) as -> by (apply N.ltb_ge; lia). reflexivity. }
  unfold other_code in Hc.
  assert (Hdisp : (256 + c =? 442) = false /\
                  (256 + c =? 443) || (256 + c =? 445) || (256 + c =? 447) || (256 + c =? 496) || (256 + c =? 497) || (256 + c =? 446) || (256 + c =? 511) = true).
  { repeat (apply orb_true_iff in Hc as [Hc|Hc]); apply N.eqb_eq in Hc; subst c; split; reflexivity. }
  destruct Hdisp as [-> ->]. rewrite Epar. cbn [bind].
  assert ((Z.of_N (2 + lenN body) =? -2)%Z = false) as -> by (apply Z.eqb_neq; lia).
  assert ((Z.of_N (2 + lenN body) <? 0)%Z = false) as -> by (apply Z.ltb_ge; lia).
  rewrite Hbuf. rewrite buf_skip_app; [rewrite app_nil_r; reflexivity|].
  rewrite (lenN_ebytes (EOther c body)) by (split; [unfold other_code|]; assumption). lia.
Qed.

(* one iteration of the loop of FeedRtpBody on a buffer of at least 4 bytes *)
Definition iter_body (f : nat) (st : ps_state) (rtpts : N) (acc : list ps_ev) (rb : bytes) : res (bool * ps_state * list ps_ev) :=
  let* code := be_at s_ps_feed_slice s_ps_be32_index 4 rb 0 in
  let* (cs, evs) :=
    (if code =? 442 then let* c := parse_pack_header true rb in Ok (c, st, [])
     else if (code =? 443) || (code =? 445) || (code =? 447) || (code =? 496) || (code =? 497) || (code =? 446) || (code =? 511)
          then let* c := parse_pack_stream_body rb in Ok (c, st, [])
     else if code =? 444 then
       let* (c, x) := parse_psm rb (ps_ast st, ps_vst st, ps_apt st, ps_vpt st) in Ok (c, set_psm st x, [])
     else if (code =? 448) || (code =? 480) then parse_av_stream true st code rtpts rb
     else if code =? 441 then Ok (0%Z, st, [])
     else Ok ((-2)%Z, st, [])) in
  let (consumed, st') := cs in
  if (consumed =? -2)%Z then Ok (true, clear_bufs st', acc ++ evs)
  else if (consumed <? 0)%Z then Ok (false, st', acc ++ evs)
  else feed_body_loop true f (set_buf st' (buf_skip (ps_buf st') (4 + consumed))) rtpts (acc ++ evs).

Lemma loop_iter f st rtpts acc rb : ps_buf st = rb -> 4 <= lenN rb ->
  feed_body_loop true (S f) st rtpts acc = iter_body f st rtpts acc rb.
Proof.
  intros H Hl. cbn [feed_body_loop]. rewrite H. destruct rb as [|r0 rt]; [cbn in Hl; lia|].
  cbn [andb]. assert (lenN (r0 :: rt) <? 4 = false) as -> by (apply N.ltb_ge; exact Hl). reflexivity.
Qed.

Lemma code_of rb c t : rb = 0 :: 0 :: 1 :: c :: t -> c < 256 -> be_at s_ps_feed_slice s_ps_be32_index 4 rb 0 = Ok (256 + c).
Proof. intros -> Hc. pose proof (code_at c t [] Hc) as H. rewrite app_nil_r in H. exact H. Qed.

Lemma entries_short entries : (length entries <= length (es_bytes entries))%nat.
Proof.
  induction entries as [|[[t sid] d] tl IH]; [cbn; lia|]. unfold es_bytes in *. cbn [map concat es_entry length]. rewrite app_length. cbn [length]. lia.
Qed.

Lemma step_psm b6 b7 info entries crc st rest rtpts acc f k' evs :
  elem_ok (EPsm b6 b7 info entries crc) -> ps_buf st = ebytes (EPsm b6 b7 info entries crc) ++ rest ->
  astep (core_of st) (EPsm b6 b7 info entries crc) = Ok (k', evs) -> stepped f st rtpts acc rest k' evs.
Proof.
  intros (Hi & He & Hc & Hent) Hbuf Ea. cbn [astep core_of k_ast k_vst k_apt k_vpt k_abuf k_vbuf k_apts k_vpts k_adts k_wait] in Ea.
  destruct (fold_left psm_entry entries (ps_ast st, ps_vst st, ps_apt st, ps_vpt st)) as [[[ast vst] apt] vpt] eqn:Efold.
  injection Ea as <- <-.
  exists (set_buf (set_psm st (ast, vst, apt, vpt)) rest). split; [|split; [reflexivity|split; [reflexivity|repeat split]]].
  set (ML := 10 + lenN info + lenN (es_bytes entries)).
  set (pre := 0 :: 0 :: 1 :: 188 :: (ML / 256) mod 256 :: ML mod 256 :: b6 :: b7 :: (lenN info / 256) mod 256 :: lenN info mod 256 :: info
              ++ [(lenN (es_bytes entries) / 256) mod 256; lenN (es_bytes entries) mod 256]).
  assert (Erb : ps_buf st = pre ++ es_bytes entries ++ (crc ++ rest)).
  { rewrite Hbuf. subst pre. cbn [ebytes]. rewrite !be_put2. fold ML. repeat (cbn [app]; rewrite <- ?app_assoc). reflexivity. }
  assert (Hpre : lenN pre = 12 + lenN info) by (subst pre; rewrite !lenN_cons, lenN_app; unfold lenN at 2; cbn [length]; lia).
  remember (ps_buf st) as rb eqn:Heqrb.
  assert (Hlen : lenN rb = 16 + lenN info + lenN (es_bytes entries) + lenN rest).
  { rewrite Erb, !lenN_app, Hpre, Hc. lia. }
  rewrite (loop_iter f st rtpts acc rb (eq_sym Heqrb)) by lia. unfold iter_body.
  assert (Hhead : exists t, rb = 0 :: 0 :: 1 :: 188 :: t).
  { rewrite Hbuf. cbn [ebytes app]. eexists. reflexivity. }
  destruct Hhead as [t Eh]. rewrite (code_of rb 188 t Eh) by lia. cbn [bind].
  change (256 + 188 =? 442) with false.
  change ((256 + 188 =? 443) || (256 + 188 =? 445) || (256 + 188 =? 447) || (256 + 188 =? 496) || (256 + 188 =? 497) || (256 + 188 =? 446) || (256 + 188 =? 511)) with false.
  change (256 + 188 =? 444) with true. cbv iota.
  assert (Epsm : parse_psm rb (ps_ast st, ps_vst st, ps_apt st, ps_vpt st) = Ok (Z.of_N (12 + lenN info + lenN (es_bytes entries)), (ast, vst, apt, vpt))).
  { unfold parse_psm.
    assert (lenN rb <? 4 = false) as -> by (apply N.ltb_ge; lia).
    assert (lenN rb - 4 <? 6 = false) as -> by (apply N.ltb_ge; lia).
    assert (E8 : be_at s_ps_psm_slice s_ps_be16_index 2 rb 8 = Ok (lenN info)).
    { replace 8 with (lenN [0; 0; 1; 188; (ML / 256) mod 256; ML mod 256; b6; b7]) by reflexivity.
      rewrite (be16_mid' _ _ rb _ ((lenN info / 256) mod 256) (lenN info mod 256)
                 (info ++ [(lenN (es_bytes entries) / 256) mod 256; lenN (es_bytes entries) mod 256] ++ es_bytes entries ++ crc ++ rest)).
      - rewrite be_put2_val by exact Hi. reflexivity.
      - rewrite Erb. subst pre. cbn [app]. rewrite <- !app_assoc. reflexivity. }
    rewrite E8. cbn [bind].
    assert (lenN rb - 10 <? lenN info + 2 = false) as -> by (apply N.ltb_ge; lia).
    assert (Ees : be_at s_ps_psm_slice s_ps_be16_index 2 rb (10 + lenN info) = Ok (lenN (es_bytes entries))).
    { replace (10 + lenN info) with (lenN (0 :: 0 :: 1 :: 188 :: (ML / 256) mod 256 :: ML mod 256 :: b6 :: b7 :: (lenN info / 256) mod 256 :: lenN info mod 256 :: info))
        by (rewrite !lenN_cons; lia).
      rewrite (be16_mid' _ _ rb _ ((lenN (es_bytes entries) / 256) mod 256) (lenN (es_bytes entries) mod 256) (es_bytes entries ++ crc ++ rest)).
      - rewrite be_put2_val by exact He. reflexivity.
      - rewrite Erb. subst pre. cbn [app]. rewrite <- !app_assoc. reflexivity. }
    rewrite Ees. cbn [bind].
    assert (lenN rb - (10 + lenN info + 2) <? lenN (es_bytes entries) + 4 = false) as -> by (apply N.ltb_ge; lia).
    replace (10 + lenN info + 2) with (lenN pre) by lia.
    rewrite (psm_loop_entries rb entries pre (crc ++ rest) (S (length rb)) _ _ Erb Hent eq_refl).
    2:{ pose proof (entries_short entries). rewrite Erb, !app_length. lia. }
    cbn [bind]. rewrite Efold, Hpre. f_equal. f_equal. lia. }
  rewrite Epsm. cbn [bind].
  assert ((Z.of_N (12 + lenN info + lenN (es_bytes entries)) =? -2)%Z = false) as -> by (apply Z.eqb_neq; lia).
  assert ((Z.of_N (12 + lenN info + lenN (es_bytes entries)) <? 0)%Z = false) as -> by (apply Z.ltb_ge; lia).
  cbn [ps_buf set_psm]. rewrite <- Heqrb, Hbuf. rewrite buf_skip_app; [rewrite app_nil_r; reflexivity|].
  rewrite (lenN_ebytes (EPsm b6 b7 info entries crc)) by (repeat split; assumption). lia.
Qed.

Lemma step_pes (v : bool) pts data st rest rtpts acc f k' evs :
  elem_ok (EPes v pts data) -> ps_buf st = ebytes (EPes v pts data) ++ rest ->
  astep (core_of st) (EPes v pts data) = Ok (k', evs) -> stepped f st rtpts acc rest k' evs.
Proof.
  intros Hok Hbuf Ea. cbn [elem_ok] in Hok. cbn [ebytes] in Hbuf.
  assert (Hl : lenN (ps_buf st) = 6 + pes_len pts data + lenN rest) by (rewrite Hbuf; apply lenN_pes).
  unfold stepped. rewrite (loop_iter f st rtpts acc _ eq_refl) by lia. unfold iter_body.
  assert (Hskip : forall st1 : ps_state, ps_buf st1 = ps_buf st ->
            buf_skip (ps_buf st1) (4 + Z.of_N (2 + pes_len pts data)) = rest).
  { intros st1 ->. rewrite Hbuf. apply buf_skip_pes. }
  assert (Hc2 : (Z.of_N (2 + pes_len pts data) =? -2)%Z = false) by (apply Z.eqb_neq; lia).
  assert (Hc0 : (Z.of_N (2 + pes_len pts data) <? 0)%Z = false) by (apply Z.ltb_ge; lia).
  destruct v.
  - (* video *)
    assert (Hh : exists t, ps_buf st = 0 :: 0 :: 1 :: 224 :: t) by (rewrite Hbuf; unfold pes_pkt; cbn [app]; eexists; reflexivity).
    destruct Hh as [t Eh]. rewrite (code_of (ps_buf st) 224 t Eh) by lia. cbn [bind].
    change (256 + 224 =? 442) with false.
    change ((256 + 224 =? 443) || (256 + 224 =? 445) || (256 + 224 =? 447) || (256 + 224 =? 496) || (256 + 224 =? 497) || (256 + 224 =? 446) || (256 + 224 =? 511)) with false.
    change (256 + 224 =? 444) with false. change ((256 + 224 =? 448) || (256 + 224 =? 480)) with true. cbv iota.
    change (256 + 224) with 480. rewrite Hbuf.
    cbn [astep core_of k_vpts k_vbuf k_vpt k_wait k_abuf k_ast k_vst k_apt k_apts k_adts] in Ea.
    rewrite (parse_video_pes st rtpts pts data rest Hok).
    2:{ intros ->. destruct (ps_pre_vpts st =? -1)%Z eqn:E1; [discriminate|]. apply Z.eqb_neq. exact E1. }
    unfold video_pes_result. destruct pts as [p|].
    + destruct ((negb (Z.of_N p =? ps_pre_vpts st) && (0 <=? ps_pre_vpts st))%Z).
      * destruct (iterate_nalu_by_start_code true (ps_vbuf st) (ps_vpt st) (ps_pre_vpts st) (ps_pre_vpts st) (ps_wait_sps st)) as [we| |]; cbn [bind] in Ea |- *; try discriminate.
        injection Ea as <- <-. rewrite Hc2, Hc0. eexists. split; [rewrite Hskip by reflexivity; reflexivity|]. repeat split.
      * injection Ea as <- <-. cbn [bind]. rewrite Hc2, Hc0. eexists. split; [rewrite Hskip by reflexivity; reflexivity|]. repeat split.
    + destruct (ps_pre_vpts st =? -1)%Z; [discriminate|]. injection Ea as <- <-. cbn [bind]. rewrite Hc2, Hc0.
      eexists. split; [rewrite Hskip by reflexivity; reflexivity|]. repeat split.
  - (* audio *)
    assert (Hh : exists t, ps_buf st = 0 :: 0 :: 1 :: 192 :: t) by (rewrite Hbuf; unfold pes_pkt; cbn [app]; eexists; reflexivity).
    destruct Hh as [t Eh]. rewrite (code_of (ps_buf st) 192 t Eh) by lia. cbn [bind].
    change (256 + 192 =? 442) with false.
    change ((256 + 192 =? 443) || (256 + 192 =? 445) || (256 + 192 =? 447) || (256 + 192 =? 496) || (256 + 192 =? 497) || (256 + 192 =? 446) || (256 + 192 =? 511)) with false.
    change (256 + 192 =? 444) with false. change ((256 + 192 =? 448) || (256 + 192 =? 480)) with true. cbv iota.
    change (256 + 192) with 448. rewrite Hbuf.
    cbn [astep core_of k_vpts k_vbuf k_vpt k_wait k_abuf k_ast k_vst k_apt k_apts k_adts] in Ea.
    rewrite (parse_audio_pes st rtpts pts data rest Hok).
    2:{ intros ->. destruct (ps_pre_apts st =? -1)%Z eqn:E1; [discriminate|]. apply Z.eqb_neq. exact E1. }
    unfold audio_pes_result, audio_known. destruct pts as [p|].
    + destruct ((ps_ast st =? 15) || (ps_ast st =? 144) || (ps_ast st =? 145)).
      * destruct ((negb (Z.of_N p =? ps_pre_apts st) && (0 <=? ps_pre_apts st))%Z); injection Ea as <- <-; cbn [bind]; rewrite Hc2, Hc0;
          (eexists; split; [rewrite Hskip by reflexivity; reflexivity|]; repeat split).
      * injection Ea as <- <-. cbn [bind]. rewrite Hc2, Hc0. eexists. split; [rewrite Hskip by reflexivity; reflexivity|]. repeat split.
    + destruct (ps_pre_apts st =? -1)%Z; [discriminate|].
      destruct ((ps_ast st =? 15) || (ps_ast st =? 144) || (ps_ast st =? 145)); injection Ea as <- <-; cbn [bind]; rewrite Hc2, Hc0;
        (eexists; split; [rewrite Hskip by reflexivity; reflexivity|]; repeat split).
Qed.

Theorem step_elem e st rest rtpts acc f k' evs : elem_ok e -> ps_buf st = ebytes e ++ rest ->
  astep (core_of st) e = Ok (k', evs) -> stepped f st rtpts acc rest k' evs.
Proof.
  intros Hok Hbuf Ea. destruct e as [fixed hi stf|c body|b6 b7 info entries crc|v pts data|].
  - injection Ea as <- <-. apply (step_pack fixed hi stf); assumption.
  - injection Ea as <- <-. apply (step_other c body); assumption.
  - apply (step_psm b6 b7 info entries crc); assumption.
  - apply (step_pes v pts data); assumption.
  - injection Ea as <- <-. apply step_end; assumption.
Qed.

(* ---------------------------------------------------------------- (W) a proper prefix of an element: FeedRtpBody waits *)
Lemma set_psm_same st : set_psm st (ps_ast st, ps_vst st, ps_apt st, ps_vpt st) = st.
Proof. destruct st; reflexivity. Qed.

Lemma prefix_head P Q c t : P ++ Q = 0 :: 0 :: 1 :: c :: t -> 4 <= lenN P -> exists t', P = 0 :: 0 :: 1 :: c :: t'.
Proof.
  intros E H. destruct P as [|p0 [|p1 [|p2 [|p3 t']]]]; try (unfold lenN in H; cbn [length] in H; lia).
  cbn [app] in E. injection E as -> -> -> -> _. eexists. reflexivity.
Qed.

Theorem prefix_waits e st P Q rtpts acc f : elem_ok e -> P ++ Q = ebytes e -> Q <> [] -> ps_buf st = P ->
  feed_body_loop true (S f) st rtpts acc = Ok (false, st, acc).
Proof.
  intros Hok E HQ Hbuf.
  assert (HQ1 : 1 <= lenN Q) by (destruct Q; [congruence|rewrite lenN_cons; lia]).
  assert (Hlen : lenN P + lenN Q = lenN (ebytes e)) by (rewrite <- E, lenN_app; reflexivity).
  destruct (lenN P <? 4) eqn:E4.
  { cbn [feed_body_loop]. rewrite Hbuf. destruct P; [reflexivity|]. cbn [andb]. rewrite E4. reflexivity. }
  apply N.ltb_ge in E4. rewrite (loop_iter f st rtpts acc P Hbuf E4). unfold iter_body.
  destruct (ebytes_head e) as [t Eh]. rewrite Eh in E. destruct (prefix_head P Q _ t E E4) as [t' EP].
  rewrite (code_of P (ecode e) t' EP) by (apply ecode_lt; exact Hok). cbn [bind].
  rewrite <- Eh in E. rewrite (lenN_ebytes e Hok) in Hlen.
  assert (Hfin : forall c : Z, c = (-1)%Z ->
            (let (consumed, st') := (c, st) in
             if (consumed =? -2)%Z then Ok (true, clear_bufs st', acc ++ [])
             else if (consumed <? 0)%Z then Ok (false, st', acc ++ [])
             else feed_body_loop true f (set_buf st' (buf_skip (ps_buf st') (4 + consumed))) rtpts (acc ++ [])) = Ok (false, st, acc)).
  { intros c ->. cbn. rewrite app_nil_r. reflexivity. }
  destruct e as [fixed hi stf|c body|b6 b7 info entries crc|v pts data|]; cbn [ecode].
  - (* pack header *)
    change (256 + 186 =? 442) with true. cbv iota. unfold parse_pack_header. cbn [andb].
    destruct (lenN P <=? 13) eqn:E13; [cbn [bind]; apply Hfin; reflexivity|]. apply N.leb_gt in E13.
    rewrite (idx_prefix _ P Q 13) by lia. rewrite E. cbn [ebytes].
    destruct Hok as [Hf Hs].
    assert (Erb : 0 :: 0 :: 1 :: 186 :: fixed ++ (hi * 8 + lenN stf) :: stf = (0 :: 0 :: 1 :: 186 :: fixed) ++ (hi * 8 + lenN stf) :: stf) by reflexivity.
    replace 13 with (lenN (0 :: 0 :: 1 :: 186 :: fixed)) by (rewrite !lenN_cons; lia).
    rewrite (idx_mid' _ _ _ _ _ Erb). cbn [bind].
    assert (Hm : (hi * 8 + lenN stf) mod 8 = lenN stf) by lia. rewrite Hm.
    assert (lenN P <? 14 + lenN stf = true) as -> by (apply N.ltb_lt; lia). cbn [bind]. apply Hfin. reflexivity.
  - (* skipped packets *)
    destruct Hok as [Hc Hl]. unfold other_code in Hc.
    assert (Hdisp : (256 + c =? 442) = false /\
                    (256 + c =? 443) || (256 + c =? 445) || (256 + c =? 447) || (256 + c =? 496) || (256 + c =? 497) || (256 + c =? 446) || (256 + c =? 511) = true).
    { repeat (apply orb_true_iff in Hc as [Hc|Hc]); apply N.eqb_eq in Hc; subst c; split; reflexivity. }
    destruct Hdisp as [-> ->]. unfold parse_pack_stream_body.
    destruct (lenN P <? 6) eqn:E6; [cbn [bind]; apply Hfin; reflexivity|]. apply N.ltb_ge in E6.
    rewrite (be_at_prefix _ _ 2 P Q 4) by lia. rewrite E. cbn [ebytes]. rewrite be_put2.
    assert (Erb : 0 :: 0 :: 1 :: c :: [(lenN body / 256) mod 256; lenN body mod 256] ++ body
                  = [0; 0; 1; c] ++ (lenN body / 256) mod 256 :: lenN body mod 256 :: body) by reflexivity.
    replace 4 with (lenN [0; 0; 1; c]) by reflexivity.
    rewrite (be16_mid' _ _ _ _ _ _ _ Erb), be_put2_val by exact Hl. cbn [bind].
    assert (lenN P <? 6 + lenN body = true) as -> by (apply N.ltb_lt; lia). cbn [bind]. apply Hfin. reflexivity.
  - (* program stream map *)
    change (256 + 188 =? 442) with false.
    change ((256 + 188 =? 443) || (256 + 188 =? 445) || (256 + 188 =? 447) || (256 + 188 =? 496) || (256 + 188 =? 497) || (256 + 188 =? 446) || (256 + 188 =? 511)) with false.
    change (256 + 188 =? 444) with true. cbv iota.
    destruct Hok as (Hi & He & Hc & Hent).
    assert (Epsm : parse_psm P (ps_ast st, ps_vst st, ps_apt st, ps_vpt st) = Ok ((-1)%Z, (ps_ast st, ps_vst st, ps_apt st, ps_vpt st))).
    { unfold parse_psm. assert (lenN P <? 4 = false) as -> by (apply N.ltb_ge; lia).
      destruct (lenN P - 4 <? 6) eqn:E10; [reflexivity|]. apply N.ltb_ge in E10.
      set (ML := 10 + lenN info + lenN (es_bytes entries)).
      rewrite (be_at_prefix _ _ 2 P Q 8) by lia. rewrite E. cbn [ebytes]. rewrite !be_put2. fold ML.
      assert (E8 : 0 :: 0 :: 1 :: 188 :: [(ML / 256) mod 256; ML mod 256] ++ b6 :: b7 :: [(lenN info / 256) mod 256; lenN info mod 256] ++ info
                   ++ [(lenN (es_bytes entries) / 256) mod 256; lenN (es_bytes entries) mod 256] ++ es_bytes entries ++ crc
                   = [0; 0; 1; 188; (ML / 256) mod 256; ML mod 256; b6; b7] ++ (lenN info / 256) mod 256 :: lenN info mod 256 ::
                     (info ++ [(lenN (es_bytes entries) / 256) mod 256; lenN (es_bytes entries) mod 256] ++ es_bytes entries ++ crc)) by reflexivity.
      replace 8 with (lenN [0; 0; 1; 188; (ML / 256) mod 256; ML mod 256; b6; b7]) by reflexivity.
      rewrite (be16_mid' _ _ _ _ _ _ _ E8), be_put2_val by exact Hi. cbn [bind].
      destruct (lenN P - 10 <? lenN info + 2) eqn:E12; [reflexivity|]. apply N.ltb_ge in E12.
      rewrite (be_at_prefix _ _ 2 P Q (10 + lenN info)) by lia. rewrite E. cbn [ebytes]. rewrite !be_put2. fold ML.
      assert (E9 : 0 :: 0 :: 1 :: 188 :: [(ML / 256) mod 256; ML mod 256] ++ b6 :: b7 :: [(lenN info / 256) mod 256; lenN info mod 256] ++ info
                   ++ [(lenN (es_bytes entries) / 256) mod 256; lenN (es_bytes entries) mod 256] ++ es_bytes entries ++ crc
                   = (0 :: 0 :: 1 :: 188 :: (ML / 256) mod 256 :: ML mod 256 :: b6 :: b7 :: (lenN info / 256) mod 256 :: lenN info mod 256 :: info)
                     ++ (lenN (es_bytes entries) / 256) mod 256 :: lenN (es_bytes entries) mod 256 :: (es_bytes entries ++ crc)).
      { cbn [app]. rewrite <- ?app_assoc. reflexivity. }
      replace (10 + lenN info) with (lenN (0 :: 0 :: 1 :: 188 :: (ML / 256) mod 256 :: ML mod 256 :: b6 :: b7 :: (lenN info / 256) mod 256 :: lenN info mod 256 :: info))
        by (rewrite !lenN_cons; lia).
      rewrite (be16_mid' _ _ _ _ _ _ _ E9), be_put2_val by exact He. cbn [bind].
      rewrite !lenN_cons.
      assert (lenN P - (lenN info + 1 + 1 + 1 + 1 + 1 + 1 + 1 + 1 + 1 + 1 + 2) <? lenN (es_bytes entries) + 4 = true) as -> by (apply N.ltb_lt; lia).
      reflexivity. }
    rewrite Epsm. cbn [bind]. rewrite set_psm_same. apply Hfin. reflexivity.
  - (* PES packet *)
    cbn [elem_ok ebytes] in Hok, E.
    assert (Hcode : (256 + (if v then 224 else 192) =? 442) = false /\
                    (256 + (if v then 224 else 192) =? 443) || (256 + (if v then 224 else 192) =? 445) || (256 + (if v then 224 else 192) =? 447)
                    || (256 + (if v then 224 else 192) =? 496) || (256 + (if v then 224 else 192) =? 497) || (256 + (if v then 224 else 192) =? 446)
                    || (256 + (if v then 224 else 192) =? 511) = false /\
                    (256 + (if v then 224 else 192) =? 444) = false /\
                    (256 + (if v then 224 else 192) =? 448) || (256 + (if v then 224 else 192) =? 480) = true) by (destruct v; repeat split).
    destruct Hcode as (-> & -> & -> & ->).
    destruct (lenN P <? 6) eqn:E6.
    + unfold parse_av_stream. cbn [andb]. rewrite E6. cbn [bind]. apply Hfin. reflexivity.
    + apply N.ltb_ge in E6. rewrite (pes_prefix_waits st _ rtpts _ pts data P Q Hok E HQ E6). cbn [bind]. apply Hfin. reflexivity.
  - (* the end code has no proper prefix of 4 bytes *)
    exfalso. lia.
Qed.

(* ---------------------------------------------------------------- a buffer of complete elements followed by a (possibly empty) proper prefix *)
Definition proper_prefix (P : bytes) (els : list elem) : Prop :=
  P = [] \/ exists e t Q, els = e :: t /\ elem_ok e /\ P ++ Q = ebytes e /\ Q <> [].

Lemma ebytes_nonempty e : ebytes e <> [].
Proof. destruct (ebytes_head e) as [t ->]. discriminate. Qed.

Lemma els_short els : (length els <= length (concat (map ebytes els)))%nat.
Proof.
  induction els as [|e t IH]; [cbn; lia|]. cbn [map concat length]. rewrite app_length.
  destruct (ebytes_head e) as [t' ->]. cbn [length]. lia.
Qed.

Lemma arun_app : forall a b k, arun k (a ++ b) =
  let* (k1, e1) := arun k a in let* (k2, e2) := arun k1 b in Ok (k2, e1 ++ e2).
Proof.
  induction a as [|e t IH]; intros b k; cbn [app arun bind].
  - destruct (arun k b) as [[k2 e2]| |]; reflexivity.
  - destruct (astep k e) as [[k1 ev1]| |]; cbn [bind]; try reflexivity. rewrite IH.
    destruct (arun k1 t) as [[k2 ev2]| |]; cbn [bind]; try reflexivity.
    destruct (arun k2 b) as [[k3 ev3]| |]; cbn [bind]; try reflexivity. rewrite app_assoc. reflexivity.
Qed.

Lemma same_queue_trans a b c : same_queue a b -> same_queue b c -> same_queue a c.
Proof. intros (A1 & A2 & A3) (B1 & B2 & B3). repeat split; congruence. Qed.

Lemma loop_elems rtpts : forall els1 els2 st P acc fuel k' evs,
  Forall elem_ok els1 -> ps_buf st = concat (map ebytes els1) ++ P -> proper_prefix P els2 ->
  arun (core_of st) els1 = Ok (k', evs) -> (length els1 < fuel)%nat ->
  exists st', feed_body_loop true fuel st rtpts acc = Ok (false, st', acc ++ evs) /\
              ps_buf st' = P /\ core_of st' = k' /\ same_queue st st'.
Proof.
  induction els1 as [|e t IH]; intros els2 st P acc fuel k' evs Hok Hbuf Hp Ha Hf.
  - cbn [map concat app arun] in *. injection Ha as <- <-. rewrite app_nil_r. destruct fuel as [|f]; [lia|].
    exists st. split; [|repeat split; assumption].
    destruct Hp as [->|(e & t & Q & _ & Hoke & HPQ & HQ)].
    + cbn [feed_body_loop]. rewrite Hbuf. reflexivity.
    + apply (prefix_waits e st P Q rtpts acc f Hoke HPQ HQ Hbuf).
  - apply Forall_cons_iff in Hok as [Hoke Hokt]. cbn [map concat arun] in *.
    destruct (astep (core_of st) e) as [[k1 ev1]| |] eqn:Es; cbn [bind] in Ha; try discriminate.
    destruct fuel as [|f]; [lia|]. rewrite <- app_assoc in Hbuf.
    destruct (step_elem e st _ rtpts acc f k1 ev1 Hoke Hbuf Es) as (st1 & -> & Hb1 & Hk1 & Hq1).
    rewrite <- Hk1 in Ha. destruct (arun (core_of st1) t) as [[k2 ev2]| |] eqn:Er; cbn [bind] in Ha; try discriminate.
    injection Ha as <- <-.
    destruct (IH els2 st1 P (acc ++ ev1) f k2 ev2 Hokt Hb1 Hp Er) as (st' & E & Hb & Hk & Hq); [cbn [length] in Hf; lia|].
    exists st'. rewrite E, app_assoc. repeat split; try assumption; apply (same_queue_trans _ _ _ Hq1 Hq).
Qed.

(* cutting a prefix of the stream at the last element boundary *)
Lemma decompose : forall els B R, Forall elem_ok els -> B ++ R = concat (map ebytes els) ->
  exists els1 els2 P, els = els1 ++ els2 /\ B = concat (map ebytes els1) ++ P /\ proper_prefix P els2 /\
                      P ++ R = concat (map ebytes els2).
Proof.
  induction els as [|e t IH]; intros B R Hok E.
  - cbn [map concat] in E. apply app_eq_nil in E as [-> ->]. exists [], [], []. repeat split. left. reflexivity.
  - apply Forall_cons_iff in Hok as [Hoke Hokt]. cbn [map concat] in E.
    apply app_eq_app in E as [l [[E1 E2]|[E1 E2]]].
    + (* B reaches beyond this element *)
      destruct (IH l R Hokt (eq_sym E2)) as (els1 & els2 & P & -> & -> & Hp & HR).
      exists (e :: els1), els2, P. cbn [map concat app]. rewrite E1, app_assoc. repeat split; assumption.
    + (* B ends inside (or at the end of) this element *)
      destruct l as [|q0 qt].
      * rewrite app_nil_r in E1. cbn [app] in E2. subst R.
        exists [e], t, []. cbn [map concat app]. rewrite !app_nil_r.
        split; [reflexivity|]. split; [symmetry; exact E1|]. split; [left; reflexivity|reflexivity].
      * exists [], (e :: t), B. cbn [map concat app].
        split; [reflexivity|]. split; [reflexivity|]. split.
        -- right. exists e, t, (q0 :: qt). split; [reflexivity|]. split; [exact Hoke|]. split; [symmetry; exact E1|discriminate].
        -- rewrite E2, app_assoc, <- E1. reflexivity.
Qed.

(* ---------------------------------------------------------------- the stream cut into RTP bodies at arbitrary positions *)
Definition e_reset : N := 98.   (* FeedRtpBody returned an error (unknown start code): never on these streams *)

(* FeedRtpBody for every body in arrival order, each with the rtp timestamp of its packet *)
Fixpoint feed_chunks (st : ps_state) (chunks : list (bytes * N)) : res (ps_state * list ps_ev) :=
  match chunks with
  | [] => Ok (st, [])
  | (c, ts) :: t =>
      let* (es, ev) := feed_rtp_body true st c ts in
      let (err, st1) := es in
      if (err : bool) then Err e_reset
      else let* (st2, ev2) := feed_chunks st1 t in Ok (st2, ev ++ ev2)
  end.

Lemma proper_prefix_drained P els R : proper_prefix P els -> Forall elem_ok els -> P ++ R = concat (map ebytes els) -> R = [] ->
  P = [] /\ els = [].
Proof.
  intros Hp Hok E ->. rewrite app_nil_r in E. destruct Hp as [->|(e & t & Q & -> & _ & HPQ & HQ)].
  - split; [reflexivity|]. destruct els as [|e t]; [reflexivity|]. cbn [map concat] in E.
    destruct (ebytes_head e) as [t' Eh]. rewrite Eh in E. discriminate.
  - exfalso. cbn [map concat] in E. rewrite <- HPQ in E. rewrite <- app_assoc in E.
    apply (f_equal (@length N)) in E. rewrite !app_length in E. destruct Q; [congruence|cbn [length] in E; lia].
Qed.

Theorem chunked_stream : forall chunks els st k' evs,
  Forall elem_ok els -> proper_prefix (ps_buf st) els ->
  ps_buf st ++ concat (map fst chunks) = concat (map ebytes els) ->
  arun (core_of st) els = Ok (k', evs) ->
  exists st', feed_chunks st chunks = Ok (st', evs) /\ ps_buf st' = [] /\ core_of st' = k' /\ same_queue st st'.
Proof.
  induction chunks as [|[c ts] t IH]; intros els st k' evs Hok Hp E Ha.
  - cbn [map concat] in E. destruct (proper_prefix_drained _ _ _ Hp Hok E eq_refl) as [Hb ->].
    cbn [arun] in Ha. injection Ha as <- <-. exists st. repeat split; assumption.
  - cbn [map concat fst] in E. rewrite app_assoc in E.
    destruct (decompose els (ps_buf st ++ c) (concat (map fst t)) Hok E) as (els1 & els2 & P & -> & EB & Hp2 & ER).
    apply Forall_app in Hok as [Hok1 Hok2]. rewrite arun_app in Ha.
    destruct (arun (core_of st) els1) as [[k1 ev1]| |] eqn:E1; cbn [bind] in Ha; try discriminate.
    destruct (arun k1 els2) as [[k2 ev2]| |] eqn:E2; cbn [bind] in Ha; try discriminate. injection Ha as <- <-.
    cbn [feed_chunks]. unfold feed_rtp_body. set (st0 := set_buf st (ps_buf st ++ c)).
    destruct (loop_elems ts els1 els2 st0 P [] (S (length (ps_buf st0))) k1 ev1 Hok1) as (st1 & El & Hb1 & Hk1 & Hq1).
    + subst st0. cbn [ps_buf set_buf]. exact EB.
    + exact Hp2.
    + exact E1.
    + subst st0. cbn [ps_buf set_buf]. rewrite EB, app_length. pose proof (els_short els1). lia.
    + rewrite El. cbn [bind app].
      destruct (IH els2 st1 k2 ev2 Hok2) as (st' & Ef & Hb & Hk & Hq).
      * rewrite Hb1. exact Hp2.
      * rewrite Hb1. exact ER.
      * rewrite Hk1. exact E2.
      * rewrite Ef. cbn [bind]. exists st'. repeat split; try assumption; try apply Hq.
        all: destruct Hq1 as (A1 & A2 & A3); destruct Hq as (B1 & B2 & B3); subst st0; cbn [ps_list ps_size ps_done set_buf] in *; congruence.
Qed.
