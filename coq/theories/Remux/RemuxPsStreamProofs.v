(* C07: a whole program stream through gb28181.PsUnpacker.FeedRtpBody.
   The stream is a list of elements written by a reference muxer (ISO 13818-1
   2.5.3.3 pack header with stuffing, 2.5.3.5 system header and the other
   length-prefixed packets lal skips, 2.5.4.1 program stream map, 2.4.3.6 PES
   packets of the video and the audio stream, program end code).  It reaches
   FeedRtpBody cut into RTP bodies at ARBITRARY positions.  Result: the state
   and the AvPackets are those of processing the elements one after the other -
   however the stream was cut. *)
From Coq Require Import Lia ZifyN ZifyNat ZifyBool.
From Lal Require Import Common.LBytes Common.LBytesProofs Common.Res Net.NetChk Net.NetChkProofs Net.NetPs Remux.RemuxPsPesProofs.
Open Scope N_scope.
Ltac Zify.zify_post_hook ::= Z.div_mod_to_equations.

(* ---------------------------------------------------------------- reference muxer *)
Inductive elem :=
| EPack (fixed : bytes) (hi : N) (stuffing : bytes)
| EOther (c : N) (body : bytes)
| EPsm (b6 b7 : N) (info : bytes) (entries : list (N * N * bytes)) (crc : bytes)
| EPes (video : bool) (pts : option N) (data : bytes)
| EEnd.

(* stream ids lal skips by their length field: system header bb, private 1 bd, private 2 bf, ecm f0, emm f1, padding be, directory ff *)
Definition other_code (c : N) : bool :=
  (c =? 187) || (c =? 189) || (c =? 191) || (c =? 240) || (c =? 241) || (c =? 190) || (c =? 255).

Definition es_entry (x : N * N * bytes) : bytes := let '(t, sid, d) := x in t :: sid :: be_put 2 (lenN d) ++ d.
Definition es_bytes (entries : list (N * N * bytes)) : bytes := concat (map es_entry entries).

Definition ebytes (e : elem) : bytes :=
  match e with
  | EPack fixed hi st => 0 :: 0 :: 1 :: 186 :: fixed ++ (hi * 8 + lenN st) :: st
  | EOther c body => 0 :: 0 :: 1 :: c :: be_put 2 (lenN body) ++ body
  | EPsm b6 b7 info entries crc =>
      0 :: 0 :: 1 :: 188 :: be_put 2 (10 + lenN info + lenN (es_bytes entries)) ++ b6 :: b7 :: be_put 2 (lenN info) ++ info
        ++ be_put 2 (lenN (es_bytes entries)) ++ es_bytes entries ++ crc
  | EPes v pts data => pes_pkt (if v then 224 else 192) pts data
  | EEnd => [0; 0; 1; 185]
  end.

Definition elem_ok (e : elem) : Prop :=
  match e with
  | EPack fixed hi st => lenN fixed = 9 /\ lenN st < 8
  | EOther c body => other_code c = true /\ lenN body < 65536
  | EPsm _ _ info entries crc =>
      lenN info < 65536 /\ lenN (es_bytes entries) < 65536 /\ lenN crc = 4 /\ Forall (fun x => lenN (snd x) < 65536) entries
  | EPes _ pts data => pes_ok (pts, data)
  | EEnd => True
  end.

(* ---------------------------------------------------------------- what an element does to the unpacker (buffer and rtp timestamps aside) *)
Record core := mk_core {
  k_abuf : bytes; k_vbuf : bytes; k_ast : N; k_vst : N; k_apt : Z; k_vpt : Z;
  k_apts : Z; k_vpts : Z; k_adts : Z; k_wait : bool }.

Definition core_of (st : ps_state) : core :=
  mk_core (ps_abuf st) (ps_vbuf st) (ps_ast st) (ps_vst st) (ps_apt st) (ps_vpt st)
          (ps_pre_apts st) (ps_pre_vpts st) (ps_pre_adts st) (ps_wait_sps st).

Definition psm_entry (x : N * N * Z * Z) (e : N * N * bytes) : N * N * Z * Z :=
  let '(t, sid, _) := e in
  let '(ast, vst, apt, vpt) := x in
  if (224 <=? sid) && (sid <=? 239) then
    (ast, t, apt, if t =? 27 then 96%Z else if t =? 36 then 98%Z else (-1)%Z)
  else if (192 <=? sid) && (sid <=? 223) then
    (t, vst, (if t =? 15 then 97%Z else if t =? 144 then 8%Z else if t =? 145 then 0%Z else (-1)%Z), vpt)
  else x.

Definition e_nopts : N := 99.   (* a PES packet without PTS while no frame with a PTS is running: outside this theorem *)

Definition astep (k : core) (e : elem) : res (core * list ps_ev) :=
  match e with
  | EPack _ _ _ | EOther _ _ | EEnd => Ok (k, [])
  | EPsm _ _ _ entries _ =>
      let '(ast, vst, apt, vpt) := fold_left psm_entry entries (k_ast k, k_vst k, k_apt k, k_vpt k) in
      Ok (mk_core (k_abuf k) (k_vbuf k) ast vst apt vpt (k_apts k) (k_vpts k) (k_adts k) (k_wait k), [])
  | EPes true (Some v) d =>
      let p := Z.of_N v in
      if (negb (p =? k_vpts k) && (0 <=? k_vpts k))%Z then
        let* we := iterate_nalu_by_start_code true (k_vbuf k) (k_vpt k) (k_vpts k) (k_vpts k) (k_wait k) in
        Ok (mk_core (k_abuf k) ([] ++ d) (k_ast k) (k_vst k) (k_apt k) (k_vpt k) (k_apts k) p (k_adts k) (fst we), snd we)
      else Ok (mk_core (k_abuf k) (k_vbuf k ++ d) (k_ast k) (k_vst k) (k_apt k) (k_vpt k) (k_apts k) p (k_adts k) (k_wait k), [])
  | EPes true None d =>
      if (k_vpts k =? -1)%Z then Err e_nopts
      else Ok (mk_core (k_abuf k) (k_vbuf k ++ d) (k_ast k) (k_vst k) (k_apt k) (k_vpt k) (k_apts k) (k_vpts k) (k_adts k) (k_wait k), [])
  | EPes false pts d =>
      match pts with
      | None => if (k_apts k =? -1)%Z then Err e_nopts else
          if (k_ast k =? 15) || (k_ast k =? 144) || (k_ast k =? 145)
          then Ok (mk_core (k_abuf k ++ d) (k_vbuf k) (k_ast k) (k_vst k) (k_apt k) (k_vpt k) (k_apts k) (k_vpts k) (k_adts k) (k_wait k), [])
          else Ok (k, [])
      | Some v =>
          let p := Z.of_N v in
          if (k_ast k =? 15) || (k_ast k =? 144) || (k_ast k =? 145) then
            if (negb (p =? k_apts k) && (0 <=? k_apts k))%Z then
              Ok (mk_core ([] ++ d) (k_vbuf k) (k_ast k) (k_vst k) (k_apt k) (k_vpt k) p (k_vpts k) p (k_wait k),
                  [mk_psev (k_apt k) (Z.quot (k_adts k) 90) (Z.quot (k_apts k) 90) (k_abuf k)])
            else Ok (mk_core (k_abuf k ++ d) (k_vbuf k) (k_ast k) (k_vst k) (k_apt k) (k_vpt k) p (k_vpts k) p (k_wait k), [])
          else Ok (k, [])
      end
  end.

Fixpoint arun (k : core) (els : list elem) : res (core * list ps_ev) :=
  match els with
  | [] => Ok (k, [])
  | e :: t => let* (k1, ev1) := astep k e in let* (k2, ev2) := arun k1 t in Ok (k2, ev1 ++ ev2)
  end.

(* ---------------------------------------------------------------- reading inside a buffer *)
Lemma idx_mid site pre x r : idx site (pre ++ x :: r) (lenN pre) = Ok x.
Proof. apply idx_nth. unfold lenN. rewrite Nat2N.id. rewrite nth_error_app2 by lia. rewrite Nat.sub_diag. reflexivity. Qed.

Lemma be16_mid ss si pre a b r : be_at ss si 2 (pre ++ a :: b :: r) (lenN pre) = Ok (a * 256 + b).
Proof.
  unfold be_at. rewrite lenN_app, !lenN_cons.
  assert (lenN pre + (lenN r + 1 + 1) <? lenN pre = false) as -> by (apply N.ltb_ge; lia).
  assert (lenN pre + (lenN r + 1 + 1) <? lenN pre + 2 = false) as -> by (apply N.ltb_ge; lia).
  unfold lenN at 1. rewrite Nat2N.id, skipn_app, skipn_all, Nat.sub_diag. change (N.to_nat 2) with 2%nat. cbn [skipn app firstn].
  unfold be_get. cbn [be_get_acc]. f_equal; lia.
Qed.

Lemma be_put2_val n : n < 65536 -> (n / 256) mod 256 * 256 + n mod 256 = n.
Proof. intros H. lia. Qed.

Lemma lenN_be_put n v : lenN (be_put n v) = N.of_nat n.
Proof. unfold lenN. rewrite be_put_length. reflexivity. Qed.

(* ---------------------------------------------------------------- one loop iteration per complete element *)
Definition same_queue (st st' : ps_state) : Prop :=
  ps_list st' = ps_list st /\ ps_size st' = ps_size st /\ ps_done st' = ps_done st.

Lemma code_at (c : N) t rest : c < 256 ->
  be_at s_ps_feed_slice s_ps_be32_index 4 (0 :: 0 :: 1 :: c :: t ++ rest) 0 = Ok (256 + c).
Proof.
  intros Hc. unfold be_at. rewrite !lenN_cons.
  assert (lenN (t ++ rest) + 1 + 1 + 1 + 1 <? 0 = false) as -> by (apply N.ltb_ge; lia).
  assert (lenN (t ++ rest) + 1 + 1 + 1 + 1 <? 0 + 4 = false) as -> by (apply N.ltb_ge; lia).
  change (N.to_nat 0) with 0%nat. change (N.to_nat 4) with 4%nat. cbn [skipn firstn]. unfold be_get. cbn [be_get_acc]. f_equal. lia.
Qed.

(* the program stream map *)
Lemma psm_loop_entries rb : forall entries pre rest fuel esml x,
  rb = pre ++ es_bytes entries ++ rest -> Forall (fun e => lenN (snd e) < 65536) entries ->
  esml = Z.of_N (lenN (es_bytes entries)) -> (length entries < fuel)%nat ->
  psm_loop fuel rb (lenN pre) esml x = Ok (lenN pre + lenN (es_bytes entries), fold_left psm_entry entries x).
Proof.
  induction entries as [|[[t sid] d] tl IH]; intros pre rest fuel esml x Erb Hok Hesml Hf.
  - destruct fuel; cbn [psm_loop es_bytes map concat lenN length N.of_nat fold_left] in *; subst esml; cbn; rewrite N.add_0_r; reflexivity.
  - destruct fuel as [|f]; [cbn in Hf; lia|]. apply Forall_cons_iff in Hok as [Hd Hok]. cbn [snd] in Hd.
    unfold es_bytes in *. cbn [map concat es_entry] in *. fold (es_bytes tl) in *.
    assert (Hl : lenN ((t :: sid :: be_put 2 (lenN d) ++ d) ++ es_bytes tl) = 4 + lenN d + lenN (es_bytes tl)).
    { rewrite lenN_app. cbn [app]. rewrite !lenN_cons, lenN_app, lenN_be_put. lia. }
    cbn [psm_loop]. assert ((esml <=? 0)%Z = false) as -> by (apply Z.leb_gt; subst esml; rewrite Hl; lia).
    assert (E0 : rb = pre ++ t :: (sid :: be_put 2 (lenN d) ++ d ++ es_bytes tl ++ rest)).
    { rewrite Erb. cbn [app]. rewrite <- !app_assoc. reflexivity. }
    rewrite E0 at 1. rewrite idx_mid. cbn [bind].
    assert (E1 : rb = (pre ++ [t]) ++ sid :: (be_put 2 (lenN d) ++ d ++ es_bytes tl ++ rest)) by (rewrite E0, <- app_assoc; reflexivity).
    replace (lenN pre + 1) with (lenN (pre ++ [t])) by (rewrite lenN_app; reflexivity).
    rewrite E1 at 1. rewrite idx_mid. cbn [bind].
    assert (E2 : rb = (pre ++ [t; sid]) ++ (lenN d / 256) mod 256 :: lenN d mod 256 :: (d ++ es_bytes tl ++ rest)).
    { rewrite E0, <- app_assoc. reflexivity. }
    replace (lenN pre + 2) with (lenN (pre ++ [t; sid])) by (rewrite lenN_app; reflexivity).
    rewrite E2 at 1. rewrite be16_mid, be_put2_val by exact Hd. cbn [bind].
    replace (lenN (pre ++ [t; sid])) with (lenN pre + 2) by (rewrite lenN_app; reflexivity).
    replace (lenN pre + 4 + lenN d) with (lenN (pre ++ t :: sid :: be_put 2 (lenN d) ++ d)).
    2:{ rewrite lenN_app, !lenN_cons, lenN_app, lenN_be_put. lia. }
    replace (lenN pre + 2 + 2 + lenN d) with (lenN (pre ++ t :: sid :: be_put 2 (lenN d) ++ d)) || idtac.
    rewrite (IH (pre ++ t :: sid :: be_put 2 (lenN d) ++ d) rest f).
    + f_equal. f_equal. rewrite Hl, lenN_app, !lenN_cons, lenN_app, lenN_be_put. lia.
    + rewrite Erb. cbn [app]. rewrite <- !app_assoc. cbn [app]. rewrite <- !app_assoc. reflexivity.
    + exact Hok.
    + subst esml. rewrite Hl. lia.
    + cbn [length] in Hf. lia.
Qed.
