(* lal pkg/remux/rtmp2mpegts.go: Rtmp2MpegtsRemuxer behind its probe filter
   (onPop / feedVideo / feedAudio / FlushAudio / onFrame).  The pieces it is
   made of are the merged models: AVCC splitting and the sequence-header ->
   Annex-B converters (C19: CodecNalFraming, CodecAvcSeqHeader,
   CodecHevcSeqHeader), AscContext / PackAdtsHeader (C19: CodecAac),
   mpegts.Frame.Pack (C09: TsPack), the RTMP message predicates (GroupMsg).

   The observer (IRtmp2MpegtsRemuxerObserver) is a parameter: OnTsPackets may
   call back into FlushAudio (logic.Group does: hls.Muxer.openFragment ->
   OnFragmentOpen -> FlushAudio, inside the callback of the frame that opened
   the fragment).  [obs_decide o ev] says whether the observer calls FlushAudio
   during the callback of [ev]; [obs_apply o ev nested] is the observer after
   the callback of [ev] during which the frames [nested] (at most one audio
   frame) were handed to it re-entrantly.  A re-entrant FlushAudio from inside
   the callback of a frame that FlushAudio itself emitted finds the cache
   already reset (resetAudioCache precedes onFrame) and returns: one level of
   nesting is all there is.

   Payload indices: every helper reads payload bytes through GroupMsg.pb
   (0 beyond the end).  Go indexes Payload[0..4] only behind len > 5 (video) /
   len > 2 (audio) here; an enhanced-RTMP CodedFrames message too short for its
   8 header bytes is dropped ([enhanced_too_short], lal 01a3e51).  MsgLen is taken to be len(Payload)
   (logic.Group logs an error otherwise).  No proofs in this file. *)
From Lal Require Import Common.LBytes Common.Res Group.GroupMsg Codec.CodecBits Codec.CodecAac
  Codec.CodecAvcSeqHeader Codec.CodecHevcSeqHeader Codec.CodecNalFraming Rtp.RtpPacker
  Mpegts.TsPack Remux.RemuxTsTimestamp.
Open Scope N_scope.

Definition max_audio_delay_by_audio : N := 150 * 90.   (* maxAudioCacheDelayByAudio *)
Definition max_audio_delay_by_video : N := 300 * 90.   (* maxAudioCacheDelayByVideo *)

Definition codec_id_avc : N := 7.      (* base.RtmpCodecIdAvc *)
Definition codec_id_hevc : N := 12.    (* base.RtmpCodecIdHevc *)
Definition sound_aac : N := 10.        (* base.RtmpSoundFormatAac *)
Definition sound_opus : N := 13.       (* base.RtmpSoundFormatOpus *)

Definition avc_aud_nalu : bytes := [0; 0; 0; 1; 9; 240].        (* avc.AudNalu *)
Definition hevc_aud_nalu : bytes := [0; 0; 0; 1; 70; 1; 16].    (* hevc.AudNalu *)

(* ---- base.RtmpMsg helpers not in GroupMsg ---- *)
(* VideoCodecId *)
Definition video_codec_id (m : rmsg) : N :=
  if lenN (rm_payload m) <? 1 then 0
  else if is_ext_header m then
    (if lenN (rm_payload m) <? 5 then 0 else if hvc1_tag m then codec_id_hevc else codec_id_avc)
  else pb m 0 mod 16.

Definition ex_packet_type (m : rmsg) : N := pb m 0 mod 16.

(* IsEnchanedHevcNalu: enhanced header with CodedFrames (1) or CodedFramesX (3) *)
Definition is_enhanced_hevc_nalu (m : rmsg) : bool :=
  is_ext_header m && ((ex_packet_type m =? 1) || (ex_packet_type m =? 3)).

(* GetEnchanedHevcNaluIndex *)
Definition enhanced_nalu_index (m : rmsg) : nat :=
  if is_ext_header m then
    (if ex_packet_type m =? 1 then 8%nat else if ex_packet_type m =? 3 then 5%nat else 0%nat)
  else 0%nat.

Definition be24_at (m : rmsg) (i : nat) : N := pb m i * 65536 + pb m (i + 1) * 256 + pb m (i + 2).

(* an enhanced-RTMP CodedFrames message too short for its header (lal 01a3e51 / 40cc430: dropped) *)
Definition enhanced_too_short (m : rmsg) : bool :=
  (video_codec_id m =? codec_id_hevc) && is_enhanced_hevc_nalu m
  && (lenN (rm_payload m) <=? N.of_nat (enhanced_nalu_index m)).

(* Cts of a video message *)
Definition video_cts (m : rmsg) : N :=
  if is_ext_header m then (if ex_packet_type m =? 1 then be24_at m 5 else 0)
  else be24_at m 2.

(* ---- the remuxer ---- *)
Record r2t := mk_r2t {
  r_spspps : option bytes;      (* nil / Annex-B parameter sets *)
  r_asc : option asc_ctx;       (* ascCtx *)
  r_acc : N;                    (* audioCc *)
  r_vcc : N;                    (* videoCc *)
  r_tsf : tsfilter;
  r_acache : bytes;             (* audioCacheFrames *)
  r_afirst : N;                 (* audioCacheFirstFramePts *)
  r_opened : bool }.

Definition r2t_init : r2t := mk_r2t None None 0 0 tsfilter_init [] 0 false.

Definition set_spspps (s : r2t) (v : option bytes) : r2t :=
  mk_r2t v (r_asc s) (r_acc s) (r_vcc s) (r_tsf s) (r_acache s) (r_afirst s) (r_opened s).
Definition set_asc (s : r2t) (v : option asc_ctx) : r2t :=
  mk_r2t (r_spspps s) v (r_acc s) (r_vcc s) (r_tsf s) (r_acache s) (r_afirst s) (r_opened s).
Definition set_acc (s : r2t) (v : N) : r2t :=
  mk_r2t (r_spspps s) (r_asc s) v (r_vcc s) (r_tsf s) (r_acache s) (r_afirst s) (r_opened s).
Definition set_vcc (s : r2t) (v : N) : r2t :=
  mk_r2t (r_spspps s) (r_asc s) (r_acc s) v (r_tsf s) (r_acache s) (r_afirst s) (r_opened s).
Definition set_acache (s : r2t) (c : bytes) (first : N) : r2t :=
  mk_r2t (r_spspps s) (r_asc s) (r_acc s) (r_vcc s) (r_tsf s) c first (r_opened s).
Definition set_tsf_opened (s : r2t) (f : tsfilter) (o : bool) : r2t :=
  mk_r2t (r_spspps s) (r_asc s) (r_acc s) (r_vcc s) f (r_acache s) (r_afirst s) o.

Definition audio_cache_empty (s : r2t) : bool := match r_acache s with [] => true | _ => false end.
Definition video_seq_header_cached (s : r2t) : bool :=
  match r_spspps s with Some (_ :: _) => true | _ => false end.
Definition audio_seq_header_cached (s : r2t) : bool :=
  match r_asc s with Some _ => true | None => false end.

(* what OnTsPackets receives: the frame as handed to Pack (time stamps after
   the filter, counter before packing), its composition offset, the boundary
   flag, the packets and the counter afterwards *)
Record tsev := mk_tsev {
  te_nested : bool;            (* emitted by a FlushAudio called from inside the callback of the next event *)
  te_frame : frame;
  te_dts0 : N;                 (* ghost: frame.Dts before the time stamp filter; never printed *)
  te_cts : N;
  te_boundary : bool;
  te_packets : list bytes;
  te_cc : N }.

Definition with_times (f : frame) (dts pts : N) : frame :=
  mk_frame pts dts (f_cc f) (f_pid f) (f_sid f) (f_key f) (f_raw f).

(* onFrame up to the observer call *)
Definition on_frame_core (nested : bool) (s : r2t) (f : frame) (cts : N) : r2t * tsev :=
  let '(tf, dts, pts) := tsfilter_do (r_tsf s) (f_sid f) (f_dts f) (f_pts f) cts in
  let boundary :=
    if f_sid f =? sid_audio then negb (video_seq_header_cached s)
    else f_key f && (negb (audio_seq_header_cached s) || negb (r_opened s) || negb (audio_cache_empty s)) in
  let f' := with_times f dts pts in
  let (pk, cc') := pack f' in
  (set_tsf_opened s tf (r_opened s || boundary), mk_tsev nested f' (f_dts f) cts boundary pk cc').

Definition audio_frame (s : r2t) : frame :=
  mk_frame (r_afirst s) (r_afirst s) (r_acc s) pid_audio sid_audio false (r_acache s).

(* FlushAudio called from inside an OnTsPackets callback *)
Definition flush_audio_nested (s : r2t) : r2t * list tsev :=
  if audio_cache_empty s then (s, [])
  else
    let f := audio_frame s in
    let (s1, ev) := on_frame_core true (set_acache s [] (r_afirst s)) f 0 in
    (set_acc s1 (te_cc ev), [ev]).

Section Observer.
  Variable O : Type.
  Variable obs_decide : O -> tsev -> bool.
  Variable obs_apply : O -> tsev -> list tsev -> O.

  (* onFrame: the events in the order in which their callbacks COMPLETE (the
     nested audio frame first), and the event of the frame itself *)
  Definition on_frame (s : r2t) (o : O) (f : frame) (cts : N) : r2t * O * list tsev * tsev :=
    let (s1, ev) := on_frame_core false s f cts in
    if obs_decide o ev then
      let (s2, nested) := flush_audio_nested s1 in
      (s2, obs_apply o ev nested, nested ++ [ev], ev)
    else (s1, obs_apply o ev [], [ev], ev).

  (* FlushAudio (from feedVideo, feedAudio, Dispose, or the owner between messages) *)
  Definition flush_audio (s : r2t) (o : O) : r2t * O * list tsev :=
    if audio_cache_empty s then (s, o, [])
    else
      let f := audio_frame s in
      let '(s1, o1, evs, ev) := on_frame (set_acache s [] (r_afirst s)) o f 0 in
      (set_acc s1 (te_cc ev), o1, evs).

  (* the NAL loop of feedVideo.  Result: the parameter-set cache afterwards and
     the Annex-B buffer, None when appendSpsPps failed (the message is dropped,
     the cache update stays) *)
  Definition is_param_or_aud (c : vcodec) (t : N) : bool :=
    match c with
    | Avc => (t =? 9) || (t =? 7) || (t =? 8)
    | Hevc => (t =? 39) || (t =? 40) || (t =? 35) || (t =? 32) || (t =? 33) || (t =? 34)
    end.

  Definition nal_type_of (c : vcodec) (nal : bytes) : N :=
    match c with Avc => avc_nal_type (nth 0 nal 0) | Hevc => hevc_nal_type (nth 0 nal 0) end.

  Definition is_key_nal_type (c : vcodec) (t : N) : bool :=
    match c with Avc => t =? 5 | Hevc => (16 <=? t) && (t <=? 23) end.

  Definition resets_sent (c : vcodec) (t : N) : bool :=
    match c with Avc => t =? 1 | Hevc => negb ((16 <=? t) && (t <=? 23)) end.

  Definition nonempty (b : bytes) : bool := match b with [] => false | _ => true end.

  Fixpoint video_loop (c : vcodec) (nals : list bytes) (cache : option bytes) (vps sps pps : bytes)
           (aud_sent sps_sent : bool) (out : bytes) : option bytes * option bytes :=
    match nals with
    | [] => (cache, Some out)
    | nal :: t =>
      let ty := nal_type_of c nal in
      match c with
      | Avc =>
        if ty =? 9 then video_loop c t cache vps sps pps aud_sent sps_sent out
        else if ty =? 7 then video_loop c t cache vps nal pps aud_sent sps_sent out
        else if ty =? 8 then
          let cache' := if nonempty sps && nonempty nal
                        then Some (start_code4 ++ sps ++ start_code4 ++ nal) else cache in
          video_loop c t cache' vps sps nal aud_sent sps_sent out
        else
          let out1 := if aud_sent then out else out ++ avc_aud_nalu in
          if (ty =? 5) && negb sps_sent then
            match cache with
            | None => (cache, None)
            | Some p =>
              let out2 := out1 ++ p in
              video_loop c t cache vps sps pps true true
                         (out2 ++ (if nonempty out2 then start_code3 else start_code4) ++ nal)
            end
          else
            let sent' := if ty =? 5 then true else if ty =? 1 then false else sps_sent in
            video_loop c t cache vps sps pps true sent'
                       (out1 ++ (if nonempty out1 then start_code3 else start_code4) ++ nal)
      | Hevc =>
        if (ty =? 39) || (ty =? 40) then video_loop c t cache vps sps pps aud_sent sps_sent out
        else if ty =? 35 then video_loop c t cache vps sps pps aud_sent sps_sent out
        else if ty =? 32 then video_loop c t cache nal sps pps aud_sent sps_sent out
        else if ty =? 33 then video_loop c t cache vps nal pps aud_sent sps_sent out
        else if ty =? 34 then
          let cache' := if nonempty vps && nonempty sps && nonempty nal
                        then Some (start_code4 ++ vps ++ start_code4 ++ sps ++ start_code4 ++ nal) else cache in
          video_loop c t cache' vps sps nal aud_sent sps_sent out
        else
          let out1 := if aud_sent then out else out ++ hevc_aud_nalu in
          let irap := (16 <=? ty) && (ty <=? 23) in
          if irap && negb sps_sent then
            match cache with
            | None => (cache, None)
            | Some p =>
              let out2 := out1 ++ p in
              video_loop c t cache vps sps pps true true
                         (out2 ++ (if nonempty out2 then start_code3 else start_code4) ++ nal)
            end
          else
            video_loop c t cache vps sps pps true irap
                       (out1 ++ (if nonempty out1 then start_code3 else start_code4) ++ nal)
      end
    end.

  Definition res_to_opt {A} (r : res A) : option A := match r with Ok a => Some a | _ => None end.

  (* feedVideo *)
  Definition feed_video (s : r2t) (o : O) (m : rmsg) : r2t * O * list tsev :=
    if lenN (rm_payload m) <=? 5 then (s, o, [])
    else
      let cid := video_codec_id m in
      if negb ((cid =? codec_id_avc) || (cid =? codec_id_hevc)) then (s, o, [])
      else if is_avc_key_seq_header m then
        (set_spspps s (res_to_opt (avc_seq_header2annexb (rm_payload m))), o, [])
      else if is_hevc_key_seq_header m then
        if is_ext_header m then
          (set_spspps s (res_to_opt
             (let* (v, sp, q) := hevc_parse_enhanced_seq_header (rm_payload m) in
              Ok (hsc4 ++ v ++ hsc4 ++ sp ++ hsc4 ++ q))), o, [])
        else (set_spspps s (res_to_opt (hevc_seq_header2annexb (rm_payload m))), o, [])
      else if enhanced_too_short m then (s, o, [])
      else
        let c := if cid =? codec_id_hevc then Hevc else Avc in
        let body := if (cid =? codec_id_hevc) && is_enhanced_hevc_nalu m
                    then skipn (enhanced_nalu_index m) (rm_payload m) else skipn 5 (rm_payload m) in
        match iterate_nalu_avcc body with
        | (_, Some _) => (s, o, [])
        | (nals, None) =>
          match video_loop c nals (r_spspps s) [] [] [] false false [] with
          | (cache, None) => (set_spspps s cache, o, [])
          | (cache, Some []) => (set_spspps s cache, o, [])
          | (cache, Some out) =>
            let s0 := set_spspps s cache in
            let dts := u64 (rm_ts m * 90) in
            let '(s1, o1, evs1) :=
              if negb (audio_cache_empty s0) && (r_afirst s0 + max_audio_delay_by_video <? dts)
              then flush_audio s0 o else (s0, o, []) in
            let cts := video_cts m in
            let f := mk_frame (u64 (dts + 90 * cts)) dts (r_vcc s1) pid_video sid_video (is_video_key_nalu m) out in
            let '(s2, o2, evs2, ev) := on_frame s1 o1 f cts in
            (set_vcc s2 (te_cc ev), o2, evs1 ++ evs2)
          end
        end.

  (* feedAudio (only reached for AAC and Opus, see on_pop) *)
  Definition feed_audio (s : r2t) (o : O) (m : rmsg) : r2t * O * list tsev :=
    if lenN (rm_payload m) <=? 2 then (s, o, [])
    else
      let pts := u64 (rm_ts m * 90) in
      if audio_codec_id m =? sound_aac then
        if pb m 1 =? 0 then (set_asc s (res_to_opt (asc_unpack (skipn 2 (rm_payload m)))), o, [])
        else
          match r_asc s with
          | None => (s, o, [])
          | Some asc =>
            let '(s1, o1, evs) :=
              if negb (audio_cache_empty s) && (r_afirst s + max_audio_delay_by_audio <? pts)
              then flush_audio s o else (s, o, []) in
            let first := if audio_cache_empty s1 then pts else r_afirst s1 in
            let hdr := adts_pack asc (u32 (lenN (rm_payload m) + 4294967294)) in
            (set_acache s1 (r_acache s1 ++ hdr ++ skipn 2 (rm_payload m)) first, o1, evs)
          end
      else
        flush_audio (set_acache s (r_acache s ++ skipn 1 (rm_payload m)) pts) o.

  (* onPop *)
  Definition on_pop (s : r2t) (o : O) (m : rmsg) : r2t * O * list tsev :=
    if rm_type m =? type_audio then
      if negb ((audio_codec_id m =? sound_aac) || (audio_codec_id m =? sound_opus)) then (s, o, [])
      else feed_audio s o m
    else if rm_type m =? type_video then feed_video s o m
    else (s, o, []).
End Observer.
