(* C06, HLS inside logic.Group: hls.Muxer as observer of the remuxer, with the
   re-entrant FlushAudio from openFragment.  The data written to the segment
   files (PAT/PMT writes excluded, C10's [fws]) are, callback by callback, the
   packets of the nested frames followed by the frame itself, for every
   callback from the first one that finds a fragment open or is a boundary. *)
From Coq Require Import ZArith Bool List Lia.
From Lal Require Import Common.LBytes Group.GroupMsg Mpegts.TsPack Hls.HlsFloat Hls.HlsFs Hls.HlsPlaylist Hls.HlsMuxer
  Hls.HlsConsistent Hls.HlsLossProofs
  Remux.RemuxTsTimestamp Remux.RemuxRtmp2Ts Remux.RemuxTsFilter Remux.RemuxGroup Remux.RemuxObsProofs.
Open Scope N_scope.

Lemma fws_seq a b x y : fws false a = (x, false) -> fws false b = (y, false) -> fws false (a ++ b) = ((x ++ y)%list, false).
Proof. intros Ha Hb. rewrite fws_app, Ha, Hb. reflexivity. Qed.

(* [h'] extends [h] by operations that write [w] *)
Definition extends (h h' : hstate) (w : list bytes) : Prop :=
  exists new, h_ops h' = (h_ops h ++ new)%list /\ fws false new = (w, false).

Lemma extends_refl h : extends h h [].
Proof. exists []. split; [now rewrite app_nil_r|reflexivity]. Qed.

Lemma extends_trans h1 h2 h3 w1 w2 : extends h1 h2 w1 -> extends h2 h3 w2 -> extends h1 h3 (w1 ++ w2)%list.
Proof.
  intros (n1 & E1 & F1) (n2 & E2 & F2). exists (n1 ++ n2)%list. split; [now rewrite E2, E1, app_assoc|now apply fws_seq].
Qed.

Lemma extends_step h m ops w : fws false ops = (w, false) -> extends h (h_step h m ops) w.
Proof. intros H. exists ops. now split. Qed.

Lemma feed_plain_spec c now h e : m_opened (h_mux h) = true ->
  extends h (hls_feed_plain c now h e) [ev_bytes e] /\ m_opened (h_mux (hls_feed_plain c now h e)) = true.
Proof.
  intros Ho. unfold hls_feed_plain.
  destruct (feed_fws c (h_mux h) (h_fs h) (ev_is_audio e) (Z.of_N (f_pts (te_frame e))) (Z.of_N (f_dts (te_frame e)))
                     (te_boundary e) now (ev_bytes e)) as [Hf Hm].
  destruct (feed c _ _ _ _ _ _ _ _) as [m1 ops]. cbn [fst snd] in *. rewrite Ho in *. cbn [orb] in *.
  split; [now apply extends_step|exact Hm].
Qed.

Lemma fold_plain_spec c now : forall pend h, m_opened (h_mux h) = true ->
  extends h (fold_left (hls_feed_plain c now) pend h) (map ev_bytes pend)
  /\ m_opened (h_mux (fold_left (hls_feed_plain c now) pend h)) = true.
Proof.
  induction pend as [|e t IH]; intros h Ho; cbn [fold_left map]; [split; [apply extends_refl|exact Ho]|].
  destruct (feed_plain_spec c now h e Ho) as [E1 O1]. destruct (IH _ O1) as [E2 O2].
  split; [exact (extends_trans _ _ _ _ _ E1 E2)|exact O2].
Qed.

Lemma reopen_obs_spec c h ts doit d now pend h' p' cl :
  reopen_obs c h ts doit d now pend = (h', p', cl) ->
  cl = doit /\ p' = (if doit then [] else pend)
  /\ extends h h' (if doit then map ev_bytes pend else [])
  /\ m_opened (h_mux h') = m_opened (h_mux h) || doit.
Proof.
  unfold reopen_obs. destruct doit.
  - pose proof (close_quiet c (h_mux h) (h_fs h) false) as Hq.
    destruct (close_fragment c (h_mux h) (h_fs h) false) as [m1 o1]. cbn [snd] in Hq.
    set (h1 := h_step h m1 o1).
    destruct (open_fragment c m1 ts d now) as [m2 o2] eqn:Eo.
    assert (Ho2 : fws false o2 = ([], false) /\ m_opened m2 = true).
    { unfold open_fragment in Eo. injection Eo as <- <-. split; reflexivity. }
    set (h2 := h_step h1 m2 o2).
    destruct (fold_plain_spec c now pend h2 (proj2 Ho2)) as [E3 O3].
    intros H. injection H as <- <- <-. repeat split; try reflexivity.
    + apply (extends_trans h h1 _ [] _ (extends_step h m1 o1 [] Hq)).
      apply (extends_trans h1 h2 _ [] _ (extends_step h1 m2 o2 [] (proj1 Ho2))). exact E3.
    + rewrite O3. now rewrite orb_true_r.
  - intros H. injection H as <- <- <-. repeat split; try reflexivity; [apply extends_refl|now rewrite orb_false_r].
Qed.

Lemma upd_dur_opened m i ts : m_opened (upd_dur m i ts) = m_opened m.
Proof.
  unfold upd_dur. destruct (m_fragts m <? ts)%Z; [|reflexivity]. destruct (f_ltb _ _); reflexivity.
Qed.

(* whether updateFragment calls OnFragmentOpen does not depend on the pending frames *)
Definition upd_called (c : cfg) (h : hstate) (ts : Z) (boundary : bool) : bool :=
  let m := h_mux h in
  if m_opened m then
    if force_split c m ts then true
    else if f_ltb (fi_dur (get_slot (upd_dur m (slot c m (m_nfrags m)) ts) (slot c m (m_nfrags m)))) (frag_target c) then false
         else boundary
  else boundary.

Lemma update_obs_spec c h ts b now pend h' p' cl :
  update_fragment_obs c h ts b now pend = (h', p', cl) ->
  cl = upd_called c h ts b /\ p' = (if cl then [] else pend)
  /\ extends h h' (if cl then map ev_bytes pend else [])
  /\ m_opened (h_mux h') = m_opened (h_mux h) || b
  /\ (cl = true -> m_opened (h_mux h) || b = true).
Proof.
  unfold update_fragment_obs, upd_called. cbv zeta. destruct (m_opened (h_mux h)) eqn:Ho.
  - set (fslot := slot c (h_mux h) (m_nfrags (h_mux h))).
    destruct (force_split c (h_mux h) ts).
    + destruct (reopen_obs c h ts true true now pend) as [[h1 p1] c1] eqn:E1.
      destruct (reopen_obs_spec _ _ _ _ _ _ _ _ _ _ E1) as (-> & -> & X1 & O1).
      set (h2 := with_mux h1 (h_mux h1)).
      assert (X2 : extends h h2 (map ev_bytes pend)).
      { destruct X1 as (n & En & Fn). exists n. now split. }
      assert (O2 : m_opened (h_mux h2) = true).
      { unfold h2. cbn [with_mux h_mux]. rewrite O1. now rewrite orb_true_r. }
      change (h_mux h2) with (h_mux h1).
      destruct (f_ltb _ _).
      * intros H. injection H as <- <- <-.
        split; [reflexivity|]. split; [reflexivity|]. split; [exact X2|]. split; [exact O2|reflexivity].
      * destruct (reopen_obs c h2 ts b false now []) as [[h3 p3] c3] eqn:E3.
        destruct (reopen_obs_spec _ _ _ _ _ _ _ _ _ _ E3) as (-> & -> & X3 & O3).
        intros H. injection H as <- <- <-. cbn [orb].
        split; [reflexivity|]. split; [now destruct b|]. split; [|split; [|reflexivity]].
        -- pose proof (extends_trans _ _ _ _ _ X2 X3) as X. destruct b; cbn [map] in X; rewrite app_nil_r in X; exact X.
        -- rewrite O3, O2. reflexivity.
    + set (h2 := with_mux h (upd_dur (h_mux h) fslot ts)).
      assert (X2 : extends h h2 []) by (exists []; split; [now rewrite app_nil_r|reflexivity]).
      assert (O2 : m_opened (h_mux h2) = true) by (unfold h2; cbn [with_mux h_mux]; now rewrite upd_dur_opened).
      change (h_mux h2) with (upd_dur (h_mux h) fslot ts).
      destruct (f_ltb _ _).
      * intros H. injection H as <- <- <-.
        split; [reflexivity|]. split; [reflexivity|]. split; [exact X2|]. split; [exact O2|discriminate].
      * destruct (reopen_obs c h2 ts b false now pend) as [[h3 p3] c3] eqn:E3.
        destruct (reopen_obs_spec _ _ _ _ _ _ _ _ _ _ E3) as (-> & -> & X3 & O3).
        intros H. injection H as <- <- <-. cbn [orb].
        split; [reflexivity|]. split; [reflexivity|]. split; [exact (extends_trans _ _ _ [] _ X2 X3)|].
        split; [rewrite O3, O2; reflexivity|reflexivity].
  - intros E. destruct (reopen_obs_spec _ _ _ _ _ _ _ _ _ _ E) as (-> & -> & X & O).
    rewrite Ho in O. cbn [orb] in *.
    split; [reflexivity|]. split; [reflexivity|]. split; [exact X|]. split; [exact O|intros H; exact H].
Qed.

Lemma hls_opens_is_called c now h e : hls_opens c now h e = upd_called c h (ev_ts e) (te_boundary e).
Proof.
  unfold hls_opens. destruct (update_fragment_obs c h (ev_ts e) (te_boundary e) now []) as [[h1 p1] c1] eqn:E.
  destruct (update_obs_spec _ _ _ _ _ _ _ _ _ E) as (-> & _). reflexivity.
Qed.

(* FeedMpegts with re-entrant frames: they are written first, then the frame *)
Lemma feed_obs_spec c now h e nested :
  (nested = [] \/ hls_opens c now h e = true) ->
  let acc := m_opened (h_mux h) || te_boundary e in
  extends h (hls_feed_obs c now h e nested) (if acc then (map ev_bytes (nested ++ [e])) else [])
  /\ m_opened (h_mux (hls_feed_obs c now h e nested)) = acc.
Proof.
  intros Hv acc. unfold hls_feed_obs.
  destruct (update_fragment_obs c h (ev_ts e) (te_boundary e) now nested) as [[h1 p1] c1] eqn:E.
  destruct (update_obs_spec _ _ _ _ _ _ _ _ _ E) as (Hc & _ & X & O & Hacc). fold acc in O, Hacc.
  assert (Hn : (if c1 then map ev_bytes nested else []) = map ev_bytes nested).
  { destruct c1; [reflexivity|]. destruct Hv as [->|Hv]; [reflexivity|]. rewrite hls_opens_is_called, <- Hc in Hv. discriminate. }
  rewrite Hn in X.
  assert (Hnacc : acc = false -> nested = []).
  { intros Ha. destruct Hv as [->|Hv]; [reflexivity|]. rewrite hls_opens_is_called, <- Hc in Hv. rewrite (Hacc Hv) in Ha. discriminate. }
  rewrite O. destruct acc.
  - split; [|cbn [h_step h_mux]; exact O]. rewrite map_app. cbn [map].
    apply (extends_trans _ _ _ _ _ X). apply extends_step. reflexivity.
  - rewrite (Hnacc eq_refl) in X. cbn [map] in X. split; [exact X|exact O].
Qed.

(* ---- the whole run ---- *)
Fixpoint written (opened : bool) (cbs : list cb) : list bytes :=
  match cbs with
  | [] => []
  | CbPatPmt _ :: t => written opened t
  | CbTs e n :: t => if opened || te_boundary e then (map ev_bytes (n ++ [e]) ++ written true t)%list else written false t
  end.

Fixpoint opened_after (opened : bool) (cbs : list cb) : bool :=
  match cbs with
  | [] => opened
  | CbPatPmt _ :: t => opened_after opened t
  | CbTs e _ :: t => opened_after (opened || te_boundary e) t
  end.

Section Cfg.
  Variable c : cfg.

  Definition hinv (g : gstate) (w : list bytes) (opened : bool) : Prop :=
    exists h, g_hls g = Some h /\ fws false (h_ops h) = (w, false) /\ m_opened (h_mux h) = opened.

  Lemma replay_hinv : forall cbs g w opened,
    hinv g w opened -> cb_valid gstate (g_decide c) (g_apply c) g_onpatpmt g cbs ->
    hinv (replay gstate (g_apply c) g_onpatpmt g cbs) (w ++ written opened cbs)%list (opened_after opened cbs).
  Proof.
    induction cbs as [|[e n|b] t IH]; intros g w opened (h & Hh & Hw & Ho) Hv; cbn [replay written opened_after cb_valid] in *.
    - rewrite app_nil_r. now exists h.
    - destruct Hv as [Hv1 Hv2].
      assert (Hv1' : n = [] \/ hls_opens c (g_now g) h e = true).
      { destruct Hv1 as [->|Hd]; [now left|right]. unfold g_decide in Hd. now rewrite Hh in Hd. }
      destruct (feed_obs_spec c (g_now g) h e n Hv1') as [(new & En & Fn) Ho']. rewrite Ho in *.
      assert (Hi : hinv (g_apply c g e n) (w ++ (if opened || te_boundary e then map ev_bytes (n ++ [e]) else []))%list (opened || te_boundary e)).
      { exists (hls_feed_obs c (g_now g) h e n). unfold g_apply. rewrite Hh. cbn [g_hls]. split; [reflexivity|]. split; [|exact Ho'].
        rewrite En. now apply fws_seq. }
      specialize (IH _ _ _ Hi Hv2).
      destruct (opened || te_boundary e); [now rewrite <- app_assoc in IH|now rewrite app_nil_r in IH].
    - apply IH; [|exact Hv]. exists (with_mux h (with_patpmt (h_mux h) b)). unfold g_onpatpmt. rewrite Hh. cbn [g_hls].
      split; [reflexivity|]. split; [exact Hw|]. cbn [with_mux h_mux]. unfold with_patpmt. cbn [m_opened]. exact Ho.
  Qed.

  Lemma hinv_clock g w o n : hinv g w o -> hinv (mk_gstate (g_hls g) (g_subs g) (g_patpmt g) n) w o.
  Proof. intros (h & H). now exists h. Qed.

  Lemma g_run_hinv : forall evs x g w opened x' g' outs,
    hinv g w opened -> g_run c x g evs = (x', g', outs) ->
    exists cbs, outs = cb_outs cbs /\ Forall cb_flags cbs
                /\ hinv g' (w ++ written opened cbs)%list (opened_after opened cbs).
  Proof.
    induction evs as [|e t IH]; intros x g w opened x' g' outs Hi; cbn [g_run].
    - intros H. injection H as <- <- <-. exists []. cbn. rewrite app_nil_r. repeat split; [constructor|exact Hi].
    - destruct (match e with
                | GMsg m => feed_rtmp_message gstate (g_decide c) (g_apply c) g_onpatpmt x g m
                | GJoinTs id => (x, mk_gstate (g_hls g) (g_subs g ++ [mk_tssub id true true []]) (g_patpmt g) (g_now g), [])
                | GNop => (x, g, [])
                end) as [[x1 g1] o1] eqn:E1.
      destruct (g_run c x1 (mk_gstate (g_hls g1) (g_subs g1) (g_patpmt g1) (g_now g1 + 1)%Z) t) as [[x2 g2] o2] eqn:E2.
      intros H. injection H as <- <- <-.
      assert (H1 : exists cbs1, o1 = cb_outs cbs1 /\ Forall cb_flags cbs1
                   /\ hinv g1 (w ++ written opened cbs1)%list (opened_after opened cbs1)).
      { destruct e as [m|id|].
        - destruct (feed_rtmp_message_traced _ _ _ _ _ _ _ _ _ _ E1) as (cbs & -> & V & -> & F).
          exists cbs. repeat split; try assumption. now apply replay_hinv.
        - injection E1 as <- <- <-. exists []. cbn. rewrite app_nil_r. repeat split; [constructor|].
          destruct Hi as (h & Hh). now exists h.
        - injection E1 as <- <- <-. exists []. cbn. rewrite app_nil_r. repeat split; [constructor|exact Hi]. }
      destruct H1 as (cbs1 & -> & F1 & Hi1).
      destruct (IH _ _ _ _ _ _ _ (hinv_clock _ _ _ _ Hi1) E2) as (cbs2 & -> & F2 & Hi2).
      exists (cbs1 ++ cbs2)%list. split; [unfold cb_outs; now rewrite flat_map_app|]. split; [apply Forall_app; now split|].
      assert (Hw : forall l o, written o (l ++ cbs2) = (written o l ++ written (opened_after o l) cbs2)%list
                              /\ opened_after o (l ++ cbs2) = opened_after (opened_after o l) cbs2).
      { induction l as [|[e' n'|b'] l' IHl]; intros o; cbn [app written opened_after]; [now split| |apply IHl].
        destruct (IHl (o || te_boundary e')) as [A B]. destruct (IHl true) as [A' B']. destruct (IHl false) as [A'' B''].
        destruct (o || te_boundary e'); split; rewrite ?A', ?A'', ?B', ?B'', <- ?app_assoc; reflexivity. }
      destruct (Hw cbs1 opened) as [-> ->]. now rewrite app_assoc.
  Qed.
End Cfg.

(* the callbacks can be read off the flat output list: nested frames carry
   te_nested = true and precede the frame whose callback they were emitted in *)
Fixpoint parse_cbs (pend : list tsev) (outs : list tsout) : list cb :=
  match outs with
  | [] => []
  | OutPatPmt b :: t => CbPatPmt b :: parse_cbs [] t
  | OutTs e :: t => if te_nested e then parse_cbs (pend ++ [e]) t else CbTs e pend :: parse_cbs [] t
  end.

Lemma parse_nested : forall n pend rest, Forall (fun x => te_nested x = true) n ->
  parse_cbs pend (map OutTs n ++ rest) = parse_cbs (pend ++ n) rest.
Proof.
  induction n as [|x t IH]; intros pend rest Hn; cbn [map app parse_cbs]; [now rewrite app_nil_r|].
  inversion Hn as [|? ? Hx Ht]; subst. rewrite Hx, IH by assumption. now rewrite <- app_assoc.
Qed.

Lemma parse_cb_outs : forall cbs, Forall cb_flags cbs -> parse_cbs [] (cb_outs cbs) = cbs.
Proof.
  induction cbs as [|[e n|b] t IH]; intros Hf; [reflexivity| |].
  - inversion Hf as [|? ? Hc Ht]; subst. cbn [cb_flags] in Hc. destruct Hc as [He Hn]. cbn [cb_outs flat_map]. fold (cb_outs t).
    rewrite map_app, <- app_assoc, parse_nested by assumption. cbn [map app parse_cbs]. rewrite He. cbn [app].
    now rewrite IH.
  - inversion Hf; subst. cbn [cb_outs flat_map app parse_cbs]. fold (cb_outs t). now rewrite IH.
Qed.

(* THE GROUP, HLS enabled: the data in the segment files = what [written]
   says of the callbacks, i.e. for every callback from the first one that is a
   boundary frame on: the packets of the nested (re-entrantly flushed audio)
   frames, then the frame's - nothing lost, repeated or reordered *)
Theorem group_hls_no_loss c evs g' outs :
  group_run_outs c true evs = (g', outs) ->
  exists h, g_hls g' = Some h
    /\ fst (fws false (h_ops h)) = written false (parse_cbs [] outs).
Proof.
  unfold group_run_outs.
  destruct (g_run c remuxer_init (g_init c true) evs) as [[x g] o1] eqn:E1.
  assert (Hi0 : hinv (g_init c true) [] false).
  { eexists. split; [reflexivity|]. split; reflexivity. }
  destruct (g_run_hinv c evs _ _ _ _ _ _ _ Hi0 E1) as (cbs1 & -> & F1 & Hi1). cbn [app] in Hi1.
  unfold g_finish, remuxer_dispose.
  destruct (remuxer_flush gstate (g_decide c) (g_apply c) x g) as [[x2 g1] o2] eqn:E2.
  destruct (remuxer_flush_traced gstate (g_decide c) (g_apply c) g_onpatpmt _ _ _ _ _ E2) as (cbs2 & -> & V2 & -> & F2).
  pose proof (replay_hinv c cbs2 g _ _ Hi1 V2) as (h & Hh & Hw & Ho).
  rewrite Hh.
  pose proof (close_quiet c (h_mux h) (h_fs h) true) as Hq.
  destruct (close_fragment c (h_mux h) (h_fs h) true) as [m' ops]. cbn [snd] in Hq.
  intros H. injection H as <- <-. cbn [g_hls]. eexists. split; [reflexivity|].
  cbn [h_step h_ops]. rewrite (fws_seq _ _ _ _ Hw Hq). cbn [fst]. rewrite app_nil_r.
  replace (cb_outs cbs1 ++ cb_outs cbs2)%list with (cb_outs (cbs1 ++ cbs2)) by (unfold cb_outs; now rewrite flat_map_app).
  rewrite parse_cb_outs by (apply Forall_app; now split).
  clear. revert cbs2. generalize false.
  induction cbs1 as [|[e n|b] t IH]; intros o cbs2; cbn [app written opened_after]; [reflexivity| |apply IH].
  destruct (o || te_boundary e); [now rewrite <- app_assoc, IH|apply IH].
Qed.

(* ---- an HTTP-TS subscriber inside the group: PAT/PMT, then every frame from
   the first boundary frame after it joined, in delivery order ---- *)
Fixpoint from_boundary (evs : list tsev) : list tsev :=
  match evs with
  | [] => []
  | e :: t => if te_boundary e then e :: t else from_boundary t
  end.

Lemma sub_feed_fold pp : forall evs u,
  u_wait u = true ->
  let u' := fold_left (fun v ev => sub_feed (Some pp) ev v) evs u in
  u_id u' = u_id u
  /\ u_out u' = (u_out u ++ (if u_fresh u then (match evs with [] => [] | _ => pp end) else []) ++ concat (map ev_bytes (from_boundary evs)))%list.
Proof.
  assert (Hrun : forall evs u, u_wait u = false -> u_fresh u = false ->
            let u' := fold_left (fun v ev => sub_feed (Some pp) ev v) evs u in
            u_id u' = u_id u /\ u_out u' = (u_out u ++ concat (map ev_bytes evs))%list).
  { induction evs as [|e t IH]; intros u Hw Hf; cbn [fold_left map concat]; [now rewrite app_nil_r|].
    destruct (IH (sub_feed (Some pp) e u)) as [I1 I2]; try (unfold sub_feed; rewrite Hw, Hf; reflexivity).
    cbn zeta. rewrite I1, I2. unfold sub_feed. rewrite Hw, Hf. cbn [u_id u_out]. now rewrite <- app_assoc. }
  induction evs as [|e t IH]; intros u Hw; cbn [fold_left map concat from_boundary].
  - destruct (u_fresh u); now rewrite !app_nil_r.
  - destruct (te_boundary e) eqn:Eb.
    + destruct (Hrun t (sub_feed (Some pp) e u)) as [I1 I2]; try (unfold sub_feed; rewrite Hw, Eb; reflexivity).
      cbn zeta. rewrite I1, I2. unfold sub_feed. rewrite Hw, Eb. cbn [u_id u_out map concat].
      split; [reflexivity|]. destruct (u_fresh u); rewrite <- ?app_assoc; cbn [app]; rewrite <- ?app_assoc; reflexivity.
    + assert (Hw' : u_wait (sub_feed (Some pp) e u) = true) by (unfold sub_feed; rewrite Hw, Eb; reflexivity).
      destruct (IH _ Hw') as [I1 I2]. cbn zeta. rewrite I1, I2. unfold sub_feed. rewrite Hw, Eb. cbn [u_id u_out u_fresh].
      split; [reflexivity|]. destruct (u_fresh u); rewrite <- ?app_assoc; [|reflexivity].
      destruct t; cbn [app from_boundary map concat]; now rewrite ?app_nil_r.
Qed.

Lemma fold_map_subs p : forall n l,
  fold_left (fun subs ev => map (sub_feed p ev) subs) n l
  = map (fun u => fold_left (fun v ev => sub_feed p ev v) n u) l.
Proof.
  induction n as [|x n' IH]; intros l; cbn [fold_left]; [now rewrite map_id|].
  rewrite IH, map_map. reflexivity.
Qed.

Section CfgSubs.
  Variable c : cfg.

  Definition only_ts (cbs : list cb) : Prop := Forall (fun x => match x with CbTs _ _ => True | CbPatPmt _ => False end) cbs.

  Lemma replay_subs pp : forall cbs g, g_patpmt g = Some pp -> only_ts cbs ->
    g_subs (replay gstate (g_apply c) g_onpatpmt g cbs)
    = map (fun u => fold_left (fun v ev => sub_feed (Some pp) ev v) (cb_evs cbs) u) (g_subs g)
    /\ g_patpmt (replay gstate (g_apply c) g_onpatpmt g cbs) = Some pp.
  Proof.
    induction cbs as [|[e n|b] t IH]; intros g Hp Ho; cbn [replay cb_evs flat_map].
    - split; [now rewrite map_id|exact Hp].
    - inversion Ho; subst. destruct (IH (g_apply c g e n)) as [I1 I2]; [exact Hp|assumption|].
      split; [|exact I2]. rewrite I1. unfold g_apply. cbn [g_subs]. rewrite Hp.
      rewrite fold_map_subs, !map_map. apply map_ext. intros u. fold (cb_evs t).
      rewrite fold_left_app, fold_left_app. reflexivity.
    - inversion Ho; subst. contradiction.
  Qed.
End CfgSubs.
