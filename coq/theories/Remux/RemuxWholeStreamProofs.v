(* C06: ONE formula per track for the whole transport stream of a publication.
   [track_frames] turns the list of frame descriptions of a track - buffer,
   published DTS (90 * time stamp), composition offset, key flag: what the
   video walk (RemuxVideoWalkProofs) and the audio partition
   (RemuxBatchProofs) compute from the published messages alone - into
   mpegts frames: DTS rebased on the first one of the track on the 33-bit
   clock, PTS = DTS + 90 * offset.  The frames a run emits on a track are
   those (up to the continuity counter, which [expected_units] supplies). *)
From Coq Require Import Lia.
From Lal Require Import Common.LBytes Common.Res Group.GroupMsg Mpegts.TsPack Mpegts.TsPackProofs Mpegts.TsStreamProofs
  Remux.RemuxTsTimestamp Remux.RemuxRtmp2Ts Remux.RemuxTsFilter
  Remux.RemuxChainProofs Remux.RemuxBatchProofs Remux.RemuxVideoWalkProofs Remux.RemuxRunProofs.
Open Scope N_scope.

Definition track_frame (audio : bool) (base : N) (v : vview) : frame :=
  let dts := rebase_dts (vv_dts0 v) base in
  mk_frame (u64 (dts + 90 * vv_cts v)) dts 0 (if audio then pid_audio else pid_video)
           (if audio then sid_audio else sid_video) (vv_key v) (vv_raw v).

Definition track_frames (audio : bool) (vs : list vview) : list frame :=
  match vs with [] => [] | v0 :: _ => map (track_frame audio (vv_dts0 v0)) vs end.

(* one audio PES: the ADTS frames of a group, stamped with its first frame *)
Definition group_view (g : list aframe) : vview := mk_vview (render g) (group_dts g) 0 false.

Lemma expected_units_ext : forall fs gs cc,
  Forall2 (fun f g => forall c, with_cc f c = with_cc g c) fs gs -> expected_units cc fs = expected_units cc gs.
Proof.
  induction fs as [|f fs IH]; intros gs cc H; inversion H as [|? g ? gs' Hfg Hrest]; subst; [reflexivity|].
  cbn [expected_units]. rewrite (Hfg cc). f_equal. now apply IH.
Qed.

Lemma frames_forall2 audio b l :
  (forall e, In e l -> forall c, with_cc (te_frame e) c = with_cc (track_frame audio b (vview_of e)) c) ->
  Forall2 (fun f g => forall c, with_cc f c = with_cc g c) (map te_frame l) (map (track_frame audio b) (map vview_of l)).
Proof.
  induction l as [|e l IH]; intros Hall; [constructor|]. cbn [map]. constructor; [apply Hall; now left|].
  apply IH. intros e' Hin. apply Hall. now right.
Qed.

(* the frames of one track of a run are the track frames of their descriptions *)
Lemma track_frames_of_evs s evs audio :
  chained s evs -> Forall (fun e => te_dts0 e <> max_u64) (track_evs audio evs) ->
  Forall2 (fun f g => forall c, with_cc f c = with_cc g c)
          (map te_frame (track_evs audio evs)) (track_frames audio (map vview_of (track_evs audio evs))).
Proof.
  intros Hc Hmax. destruct (track_evs audio evs) as [|e0 rest] eqn:Et; [constructor|].
  cbn [map track_frames]. change (track_frame audio (vv_dts0 (vview_of e0)) (vview_of e0) :: map (track_frame audio (vv_dts0 (vview_of e0))) (map vview_of rest))
    with (map (track_frame audio (te_dts0 e0)) (map vview_of (e0 :: rest))).
  assert (Hb : te_dts0 e0 <> max_u64) by (inversion Hmax; assumption).
  assert (Hids : Forall ids_ok evs) by (destruct Hc as (_ & _ & H); exact H).
  assert (Hall : forall e, In e (e0 :: rest) ->
            forall c, with_cc (te_frame e) c = with_cc (track_frame audio (te_dts0 e0) (vview_of e)) c).
  { intros e Hin c. destruct (track_times audio s evs e0 rest e Hc Et Hb Hin) as [Hd Hp].
    assert (Hin' : In e (track_evs audio evs)) by (rewrite Et; exact Hin).
    unfold track_evs in Hin'. apply filter_In in Hin'. destruct Hin' as [Hine Hf].
    rewrite Forall_forall in Hids. specialize (Hids e Hine).
    unfold with_cc, track_frame, vview_of. cbn [f_pts f_dts f_cc f_pid f_sid f_key f_raw vv_raw vv_dts0 vv_cts vv_key].
    rewrite <- Hd, <- Hp.
    destruct audio; unfold is_audio_ev, is_video_ev, ev_sid in Hf.
    - destruct Hids as [(Hs & Hpi & _)|(Hs & _)]; [rewrite Hs, Hpi; reflexivity|rewrite Hs in Hf; discriminate].
    - destruct Hids as [(Hs & _)|(Hs & Hpi)]; [rewrite Hs in Hf; discriminate|rewrite Hs, Hpi; reflexivity]. }
  exact (frames_forall2 audio (te_dts0 e0) (e0 :: rest) Hall).
Qed.

(* an audio track: buffers and stamps as the groups say, no composition offset, no key flag *)
Lemma audio_views evs (groups : list (list aframe)) :
  Forall ids_ok evs ->
  map (fun e => f_raw (te_frame e)) (audio_evs evs) = map render groups ->
  map te_dts0 (audio_evs evs) = map group_dts groups ->
  map vview_of (audio_evs evs) = map group_view groups.
Proof.
  intros Hids. assert (Ha : Forall audio_ids (audio_evs evs)).
  { unfold audio_evs. rewrite Forall_forall in *. intros e He. apply filter_In in He. destruct He as [Hin Hf].
    destruct (Hids e Hin) as [H|(Hs & _)]; [exact H|]. unfold is_audio_ev, ev_sid in Hf. rewrite Hs in Hf. discriminate. }
  revert Ha. generalize (audio_evs evs) as l. intro l. revert groups.
  induction l as [|e l IH]; intros groups Ha H1 H2; destruct groups as [|g groups]; try discriminate; [reflexivity|].
  cbn [map] in *. injection H1 as R1 R1'. injection H2 as D1 D1'. inversion Ha as [|? ? (_ & _ & Hk & Hc) Hl]; subst.
  f_equal; [|now apply IH]. unfold vview_of, group_view. now rewrite R1, D1, Hk, Hc.
Qed.
