(* C07: rtsp.AvPacketQueue is an order-preserving merge per track, and under
   the caller's obligation ("timestamps grow per track": never below the
   first one, never more than 1000 ms backwards) every output timestamp is
   the input timestamp minus one constant per track. *)
From Coq Require Import Lia ZifyN ZifyNat ZifyBool.
From Lal Require Import Common.LBytes Common.Res Remux.RemuxAv2Rtmp Remux.RemuxAvQueue.
Open Scope Z_scope.

Definition isv (p : avpkt) : bool := is_video_pt (av_pt p).
Definition vs (l : list avpkt) : list avpkt := filter isv l.
Definition as_ (l : list avpkt) : list avpkt := filter (fun p => negb (isv p)) l.

Lemma vs_app a b : vs (a ++ b) = vs a ++ vs b. Proof. apply filter_app. Qed.
Lemma as_app a b : as_ (a ++ b) = as_ a ++ as_ b. Proof. apply filter_app. Qed.

Lemma vs_all l : Forall (fun p => isv p = true) l -> vs l = l /\ as_ l = [].
Proof.
  induction 1 as [|p l Hp _ [IH1 IH2]]; [split; reflexivity|].
  unfold vs, as_ in *. cbn [filter]. rewrite Hp. cbn [negb]. rewrite IH1, IH2. split; reflexivity.
Qed.
Lemma as_all l : Forall (fun p => isv p = false) l -> as_ l = l /\ vs l = [].
Proof.
  induction 1 as [|p l Hp _ [IH1 IH2]]; [split; reflexivity|].
  unfold vs, as_ in *. cbn [filter]. rewrite Hp. cbn [negb]. rewrite IH1, IH2. split; reflexivity.
Qed.

(* the queues hold their own track only and are never full between two calls *)
Definition q_inv (s : aq) : Prop :=
  Forall (fun p => isv p = true) (q_v s) /\ Forall (fun p => isv p = false) (q_a s) /\
  (length (q_v s) < max_queue_size)%nat /\ (length (q_a s) < max_queue_size)%nat.

Lemma aq_init_inv : q_inv aq_init.
Proof. repeat split; try constructor; cbv; lia. Qed.

Lemma with_ts_isv p ts : isv (with_ts p ts) = isv p. Proof. reflexivity. Qed.

Lemma q_push_ok q p : (length q < max_queue_size)%nat -> q_push q p = q ++ [p].
Proof. intros H. unfold q_push. apply Nat.ltb_lt in H. rewrite H. reflexivity. Qed.

(* ---------------------------------------------------------------- merge loop *)
Lemma merge_loop_tracks : forall fuel cur a v acc a' v' acc',
  Forall (fun p => isv p = false) a -> Forall (fun p => isv p = true) v ->
  merge_loop fuel cur a v acc = (a', v', acc') ->
  vs acc' ++ v' = vs acc ++ v /\ as_ acc' ++ a' = as_ acc ++ a /\
  Forall (fun p => isv p = false) a' /\ Forall (fun p => isv p = true) v' /\
  (length a' <= length a)%nat /\ (length v' <= length v)%nat.
Proof.
  induction fuel as [|f IH]; intros cur a v acc a' v' acc' Ha Hv E; cbn [merge_loop] in E.
  { inversion E; subst. repeat split; auto. }
  destruct a as [|pa ra]. { inversion E; subst. repeat split; auto. }
  destruct v as [|pv rv]. { inversion E; subst. repeat split; auto. }
  inversion Ha as [|? ? Hpa Hra]; subst. inversion Hv as [|? ? Hpv Hrv]; subst.
  assert (Hpop_a : forall a' v' acc', merge_loop f cur ra (pv :: rv) (acc ++ [pa]) = (a', v', acc') ->
            vs acc' ++ v' = vs acc ++ pv :: rv /\ as_ acc' ++ a' = as_ acc ++ pa :: ra /\
            Forall (fun p => isv p = false) a' /\ Forall (fun p => isv p = true) v' /\
            (length a' <= length (pa :: ra))%nat /\ (length v' <= length (pv :: rv))%nat).
  { intros a2 v2 acc2 E2. destruct (IH _ _ _ _ _ _ _ Hra Hv E2) as (H1 & H2 & H3 & H4 & H5 & H6).
    rewrite vs_app, as_app in *.
    assert (Ev : vs [pa] = []) by (unfold vs; cbn [filter]; rewrite Hpa; reflexivity).
    assert (Ea : as_ [pa] = [pa]) by (unfold as_; cbn [filter]; rewrite Hpa; reflexivity).
    rewrite Ev in H1. rewrite Ea in H2. rewrite app_nil_r in H1. rewrite <- app_assoc in H2.
    repeat split; auto. cbn [length]. lia. }
  assert (Hpop_v : forall a' v' acc', merge_loop f cur (pa :: ra) rv (acc ++ [pv]) = (a', v', acc') ->
            vs acc' ++ v' = vs acc ++ pv :: rv /\ as_ acc' ++ a' = as_ acc ++ pa :: ra /\
            Forall (fun p => isv p = false) a' /\ Forall (fun p => isv p = true) v' /\
            (length a' <= length (pa :: ra))%nat /\ (length v' <= length (pv :: rv))%nat).
  { intros a2 v2 acc2 E2. destruct (IH _ _ _ _ _ _ _ Ha Hrv E2) as (H1 & H2 & H3 & H4 & H5 & H6).
    rewrite vs_app, as_app in *.
    assert (Ev : vs [pv] = [pv]) by (unfold vs; cbn [filter]; rewrite Hpv; reflexivity).
    assert (Ea : as_ [pv] = []) by (unfold as_; cbn [filter]; rewrite Hpv; reflexivity).
    rewrite Ev in H1. rewrite Ea in H2. rewrite app_nil_r in H2. rewrite <- app_assoc in H1.
    repeat split; auto. cbn [length]. lia. }
  destruct (av_ts pa <? av_ts pv); [apply Hpop_a; exact E|].
  destruct (av_ts pv <? av_ts pa); [apply Hpop_v; exact E|].
  destruct cur; [apply Hpop_v; exact E|apply Hpop_a; exact E].
Qed.

(* ---------------------------------------------------------------- adjust *)
Lemma pop_all_tracks s s1 out : q_inv s -> pop_all_by_force s = (s1, out) ->
  vs out ++ q_v s1 = q_v s /\ as_ out ++ q_a s1 = q_a s /\ q_inv s1.
Proof.
  intros (Hv & Ha & Lv & La) E. unfold pop_all_by_force in E.
  destruct (q_a s) as [|a0 ar] eqn:Ea; destruct (q_v s) as [|v0 vr] eqn:Ev; inversion E; subst; clear E; cbn [q_a q_v].
  - split; [reflexivity|]. split; [reflexivity|]. unfold q_inv. cbn [q_v q_a length]. repeat split; try apply Forall_nil; cbv; lia.
  - destruct (vs_all _ Hv) as [E1 E2]. rewrite E1, E2. cbn [app]. rewrite ?app_nil_r. split; [reflexivity|]. split; [reflexivity|].
    unfold q_inv. cbn [q_v q_a length]. repeat split; try apply Forall_nil; cbv; lia.
  - destruct (as_all _ Ha) as [E1 E2]. rewrite E1, E2. cbn [app]. rewrite ?app_nil_r. split; [reflexivity|]. split; [reflexivity|].
    unfold q_inv. cbn [q_v q_a length]. repeat split; try apply Forall_nil; cbv; lia.
  - split; [reflexivity|]. split; [reflexivity|]. unfold q_inv. cbn [q_v q_a]. repeat split; assumption.
Qed.

(* the tracks after adjust: everything that was queued, in order, then the new packet *)
Definition push_spec (s s1 : aq) (out : list avpkt) (p p' : avpkt) : Prop :=
  isv p' = isv p /\ av_pt p' = av_pt p /\ av_payload p' = av_payload p /\
  vs out ++ q_v s1 = q_v s ++ (if isv p then [p'] else []) /\
  as_ out ++ q_a s1 = q_a s ++ (if isv p then [] else [p']) /\
  Forall (fun x => isv x = true) (q_v s1) /\ Forall (fun x => isv x = false) (q_a s1) /\
  (length (q_v s1) <= max_queue_size)%nat /\ (length (q_a s1) <= max_queue_size)%nat.

Lemma adjust_tracks rot s p s1 out p' : q_inv s -> adjust rot s p = (s1, out, p') -> push_spec s s1 out p p'.
Proof.
  intros Hi E. pose proof Hi as (Hv & Ha & Lv & La). unfold adjust in E. fold (isv p) in E.
  destruct rot.
  - destruct (isv p) eqn:Ep.
    + destruct (rot_fn (q_vpo s) (q_vpm s) (q_vpi s) (av_ts p)) as [[[po pm] pi] ts]. inversion E; subst; clear E.
      unfold push_spec. cbn [q_v q_a]. rewrite (q_push_ok _ _ Lv). rewrite with_ts_isv, Ep.
      repeat split; auto; try (rewrite app_nil_r; reflexivity).
      * apply Forall_app. split; [assumption|]. constructor; [rewrite with_ts_isv; exact Ep|constructor].
      * rewrite app_length. cbn [length]. lia.
      * lia.
    + destruct (rot_fn (q_apo s) (q_apm s) (q_api s) (av_ts p)) as [[[po pm] pi] ts]. inversion E; subst; clear E.
      unfold push_spec. cbn [q_v q_a]. rewrite (q_push_ok _ _ La). rewrite with_ts_isv, Ep.
      repeat split; auto; try (rewrite app_nil_r; reflexivity).
      * apply Forall_app. split; [assumption|]. constructor; [rewrite with_ts_isv; exact Ep|constructor].
      * lia.
      * rewrite app_length. cbn [length]. lia.
  - destruct (isv p) eqn:Ep.
    + destruct (if av_ts p <? q_vbase s then pop_all_by_force s else (s, [])) as [s0 o0] eqn:E0.
      assert (H0 : vs o0 ++ q_v s0 = q_v s /\ as_ o0 ++ q_a s0 = q_a s /\ q_inv s0).
      { destruct (av_ts p <? q_vbase s); [apply pop_all_tracks; assumption|]. inversion E0; subst. repeat split; auto. }
      destruct H0 as (H1 & H2 & (Hv0 & Ha0 & Lv0 & La0)).
      inversion E; subst; clear E. unfold push_spec. cbn [q_v q_a]. rewrite (q_push_ok _ _ Lv0). rewrite with_ts_isv, Ep.
      repeat split; auto.
      * rewrite app_assoc, H1. reflexivity.
      * rewrite H2, app_nil_r. reflexivity.
      * apply Forall_app. split; [assumption|]. constructor; [rewrite with_ts_isv; exact Ep|constructor].
      * rewrite app_length. cbn [length]. lia.
      * lia.
    + destruct (if av_ts p <? q_abase s then pop_all_by_force s else (s, [])) as [s0 o0] eqn:E0.
      assert (H0 : vs o0 ++ q_v s0 = q_v s /\ as_ o0 ++ q_a s0 = q_a s /\ q_inv s0).
      { destruct (av_ts p <? q_abase s); [apply pop_all_tracks; assumption|]. inversion E0; subst. repeat split; auto. }
      destruct H0 as (H1 & H2 & (Hv0 & Ha0 & Lv0 & La0)).
      inversion E; subst; clear E. unfold push_spec. cbn [q_v q_a]. rewrite (q_push_ok _ _ La0). rewrite with_ts_isv, Ep.
      repeat split; auto.
      * rewrite H1, app_nil_r. reflexivity.
      * rewrite app_assoc, H2. reflexivity.
      * apply Forall_app. split; [assumption|]. constructor; [rewrite with_ts_isv; exact Ep|constructor].
      * lia.
      * rewrite app_length. cbn [length]. lia.
Qed.

(* ---------------------------------------------------------------- Feed *)
(* the packet as Feed queues it (its timestamp adjusted) *)
Definition adjusted_pkt (rot : bool) (s : aq) (p : avpkt) : avpkt := snd (adjust rot s p).

Lemma aq_feed_tracks rot s p s' out : q_inv s -> aq_feed rot s p = (s', out) ->
  let p' := adjusted_pkt rot s p in
  av_pt p' = av_pt p /\ av_payload p' = av_payload p /\
  vs out ++ q_v s' = q_v s ++ (if isv p then [p'] else []) /\
  as_ out ++ q_a s' = q_a s ++ (if isv p then [] else [p']) /\
  q_inv s'.
Proof.
  intros Hi E. unfold aq_feed in E. unfold adjusted_pkt.
  destruct (adjust rot s p) as [[s1 out0] p'] eqn:Ea. cbn [snd].
  destruct (adjust_tracks rot s p s1 out0 p' Hi Ea) as (I1 & I2 & I3 & T1 & T2 & F1 & F2 & L1 & L2).
  destruct (merge_loop (S (length (q_a s1) + length (q_v s1))) (is_audio_pt (av_pt p')) (q_a s1) (q_v s1) []) as [[a v] out1] eqn:Em.
  destruct (merge_loop_tracks _ _ _ _ _ _ _ _ F2 F1 Em) as (M1 & M2 & G2 & G1 & K2 & K1).
  cbn [vs as_ filter app] in M1, M2.
  assert (LA : (length (q_a s1) <= length (q_a s) + length (if isv p then [] else [p']))%nat).
  { apply (f_equal (@length avpkt)) in T2. rewrite !app_length in T2. lia. }
  assert (LV : (length (q_v s1) <= length (q_v s) + length (if isv p then [p'] else []))%nat).
  { apply (f_equal (@length avpkt)) in T1. rewrite !app_length in T1. lia. }
  split; [exact I2|]. split; [exact I3|].
  unfold q_full in E.
  destruct (Nat.leb max_queue_size (length v)) eqn:Efv.
  - inversion E; subst; clear E. cbn [q_v q_a set_queues].
    destruct (vs_all _ G1) as [V1 V2]. rewrite !vs_app, !as_app, V1, V2. rewrite <- ?app_assoc, ?app_nil_r. cbn [app].
    split; [rewrite M1; exact T1|]. split; [rewrite M2; exact T2|].
    unfold q_inv. cbn [q_v q_a set_queues length]. split; [apply Forall_nil|]. split; [exact G2|]. split; [cbv; lia|].
    apply Nat.leb_le in Efv. destruct Hi as (_ & _ & Lv & La). unfold max_queue_size in *.
    destruct (isv p); cbn [length] in LA, LV; lia.
  - destruct (Nat.leb max_queue_size (length a)) eqn:Efa.
    + inversion E; subst; clear E. cbn [q_v q_a set_queues].
      destruct (as_all _ G2) as [A1 A2]. rewrite !vs_app, !as_app, A1, A2. rewrite <- ?app_assoc, ?app_nil_r. cbn [app].
      split; [rewrite M1; exact T1|]. split; [rewrite M2; exact T2|].
      apply Nat.leb_gt in Efv. unfold q_inv. cbn [q_v q_a set_queues length].
      split; [exact G1|]. split; [apply Forall_nil|]. split; [exact Efv|cbv; lia].
    + inversion E; subst; clear E. cbn [q_v q_a set_queues].
      rewrite !vs_app, !as_app. rewrite <- ?app_assoc.
      split; [rewrite M1; exact T1|]. split; [rewrite M2; exact T2|].
      apply Nat.leb_gt in Efv, Efa. unfold q_inv. cbn [q_v q_a set_queues]. repeat split; assumption.
Qed.

(* ---------------------------------------------------------------- a whole run *)
(* the input packets as the queue stamps them, in input order *)
Fixpoint adjusted (rot : bool) (s : aq) (l : list avpkt) : list avpkt :=
  match l with
  | [] => []
  | p :: t => adjusted_pkt rot s p :: adjusted rot (fst (aq_feed rot s p)) t
  end.

Lemma isv_of_pt p q : av_pt p = av_pt q -> isv p = isv q.
Proof. unfold isv. intros ->. reflexivity. Qed.

Lemma aq_run_tracks rot : forall l s s' outs, q_inv s -> aq_run rot s l = (s', outs) ->
  vs (concat outs) ++ q_v s' = q_v s ++ vs (adjusted rot s l) /\
  as_ (concat outs) ++ q_a s' = q_a s ++ as_ (adjusted rot s l) /\
  q_inv s' /\
  map av_pt (adjusted rot s l) = map av_pt l /\ map av_payload (adjusted rot s l) = map av_payload l.
Proof.
  induction l as [|p t IH]; intros s s' outs Hi E; cbn [aq_run] in E.
  - inversion E; subst. cbn [concat adjusted vs as_ filter map app]. rewrite !app_nil_r. repeat split; try reflexivity; apply Hi.
  - destruct (aq_feed rot s p) as [s1 out] eqn:Ef. destruct (aq_run rot s1 t) as [s2 more] eqn:Er.
    inversion E; subst; clear E.
    destruct (aq_feed_tracks rot s p s1 out Hi Ef) as (P1 & P2 & T1 & T2 & Hi1).
    destruct (IH s1 s' more Hi1 Er) as (R1 & R2 & Hi2 & R3 & R4).
    cbn [concat adjusted map]. rewrite Ef. cbn [fst].
    set (p' := adjusted_pkt rot s p) in *.
    assert (Ev : isv p' = isv p) by (apply isv_of_pt; exact P1).
    rewrite !vs_app, !as_app. rewrite <- !app_assoc. rewrite R1, R2. rewrite !app_assoc. rewrite T1, T2.
    split; [|split; [|split; [exact Hi2|split; [f_equal; assumption|f_equal; assumption]]]].
    + rewrite <- app_assoc. f_equal. unfold vs. cbn [filter]. rewrite Ev. destruct (isv p); reflexivity.
    + rewrite <- app_assoc. f_equal. unfold as_. cbn [filter]. rewrite Ev. destruct (isv p); reflexivity.
Qed.

(* ---------------------------------------------------------------- timestamps *)
(* what is known of one track: nothing yet, or its first and its latest input timestamp *)
Inductive trk := TNone | TSome (first last : Z).

Definition first_of (t : trk) (ts : Z) : Z := match t with TNone => ts | TSome f _ => f end.
Definition next_trk (t : trk) (ts : Z) : trk := TSome (first_of t ts) ts.
(* the caller's obligation for the next packet of a track *)
Definition ok_next (t : trk) (ts : Z) : Prop :=
  0 <= ts /\ match t with TNone => True | TSome f l => f <= ts /\ -1000 <= ts - l end.

Fixpoint stream_ok (tv ta : trk) (l : list avpkt) : Prop :=
  match l with
  | [] => True
  | p :: r => if isv p then ok_next tv (av_ts p) /\ stream_ok (next_trk tv (av_ts p)) ta r
              else ok_next ta (av_ts p) /\ stream_ok tv (next_trk ta (av_ts p)) r
  end.

Fixpoint rebased (tv ta : trk) (l : list avpkt) : list avpkt :=
  match l with
  | [] => []
  | p :: r => if isv p then with_ts p (av_ts p - first_of tv (av_ts p)) :: rebased (next_trk tv (av_ts p)) ta r
              else with_ts p (av_ts p - first_of ta (av_ts p)) :: rebased tv (next_trk ta (av_ts p)) r
  end.

Definition rot_trk (t : trk) (po pm : Z) : Prop :=
  match t with TNone => po = -1 | TSome f l => po = l /\ pm = l - f /\ 0 <= f /\ f <= l end.
Definition base_trk (t : trk) (b : Z) : Prop :=
  match t with TNone => b = -1 | TSome f l => b = f /\ 0 <= f end.

Definition state_rel (rot : bool) (s : aq) (tv ta : trk) : Prop :=
  if rot then rot_trk tv (q_vpo s) (q_vpm s) /\ rot_trk ta (q_apo s) (q_apm s)
  else base_trk tv (q_vbase s) /\ base_trk ta (q_abase s).

Lemma rot_fn_ok t po pm pi ts : rot_trk t po pm -> ok_next t ts ->
  exists pi', rot_fn po pm pi ts = (ts, ts - first_of t ts, pi', ts - first_of t ts)
              /\ rot_trk (next_trk t ts) ts (ts - first_of t ts).
Proof.
  intros Ht [H0 Hn]. unfold rot_fn. destruct t as [|f l]; cbn [rot_trk first_of next_trk] in *.
  - subst po. cbn [Z.eqb]. exists pi. replace (ts - ts) with 0 by lia. split; [reflexivity|]. repeat split; lia.
  - destruct Ht as (-> & -> & Hf & Hl). destruct Hn as [Hn1 Hn2].
    assert (l =? -1 = false) as -> by (apply Z.eqb_neq; lia).
    assert (ts - l <? -1000 = false) as -> by (apply Z.ltb_ge; lia).
    assert (l - f + (ts - l) <? 0 = false) as -> by (apply Z.ltb_ge; lia).
    replace (l - f + (ts - l)) with (ts - f) by lia. eexists. split; [reflexivity|]. repeat split; lia.
Qed.

(* the timestamp variables after Feed are those adjust left *)
Lemma aq_feed_vars rot s p :
  let s1 := fst (fst (adjust rot s p)) in
  let s' := fst (aq_feed rot s p) in
  q_vpo s' = q_vpo s1 /\ q_vpm s' = q_vpm s1 /\ q_apo s' = q_apo s1 /\ q_apm s' = q_apm s1 /\
  q_vbase s' = q_vbase s1 /\ q_abase s' = q_abase s1.
Proof.
  unfold aq_feed. destruct (adjust rot s p) as [[s1 out0] p']. cbn [fst].
  destruct (merge_loop _ _ _ _ _) as [[a v] out1].
  destruct (q_full v); [cbn; repeat split|]. destruct (q_full a); cbn; repeat split.
Qed.

Lemma adjust_rebase rot s p tv ta : state_rel rot s tv ta ->
  (if isv p then ok_next tv (av_ts p) else ok_next ta (av_ts p)) ->
  adjusted_pkt rot s p = with_ts p (av_ts p - first_of (if isv p then tv else ta) (av_ts p)) /\
  state_rel rot (fst (aq_feed rot s p))
            (if isv p then next_trk tv (av_ts p) else tv) (if isv p then ta else next_trk ta (av_ts p)).
Proof.
  intros Hs Hok. pose proof (aq_feed_vars rot s p) as Hv. cbv zeta in Hv.
  unfold adjusted_pkt. unfold adjust in *. fold (isv p) in *.
  destruct rot; unfold state_rel in *; destruct Hs as [Sv Sa].
  - destruct (isv p) eqn:Ep.
    + destruct (rot_fn_ok tv (q_vpo s) (q_vpm s) (q_vpi s) (av_ts p) Sv Hok) as (pi' & E & Hn). rewrite E in *.
      cbn [fst snd q_vpo q_vpm q_apo q_apm] in *. destruct Hv as (V1 & V2 & V3 & V4 & _).
      split; [reflexivity|]. rewrite V1, V2, V3, V4. split; assumption.
    + destruct (rot_fn_ok ta (q_apo s) (q_apm s) (q_api s) (av_ts p) Sa Hok) as (pi' & E & Hn). rewrite E in *.
      cbn [fst snd q_vpo q_vpm q_apo q_apm] in *. destruct Hv as (V1 & V2 & V3 & V4 & _).
      split; [reflexivity|]. rewrite V1, V2, V3, V4. split; assumption.
  - destruct (isv p) eqn:Ep.
    + destruct Hok as [H0 Hn].
      assert (av_ts p <? q_vbase s = false) as Eb.
      { apply Z.ltb_ge. destruct tv as [|f l]; cbn [base_trk] in Sv; [lia|]. destruct Sv. lia. }
      rewrite Eb in *. cbn [fst snd q_vbase q_abase] in *. destruct Hv as (_ & _ & _ & _ & V5 & V6).
      rewrite V5, V6. destruct tv as [|f l]; cbn [base_trk first_of next_trk] in *.
      * rewrite Sv. cbn [Z.eqb]. split; [reflexivity|]. split; [split; [reflexivity|lia]|exact Sa].
      * destruct Sv as [Sv1 Sv2]. assert (q_vbase s =? -1 = false) as -> by (apply Z.eqb_neq; lia).
        rewrite Sv1. split; [reflexivity|]. split; [split; [reflexivity|lia]|exact Sa].
    + destruct Hok as [H0 Hn].
      assert (av_ts p <? q_abase s = false) as Eb.
      { apply Z.ltb_ge. destruct ta as [|f l]; cbn [base_trk] in Sa; [lia|]. destruct Sa. lia. }
      rewrite Eb in *. cbn [fst snd q_vbase q_abase] in *. destruct Hv as (_ & _ & _ & _ & V5 & V6).
      rewrite V5, V6. destruct ta as [|f l]; cbn [base_trk first_of next_trk] in *.
      * rewrite Sa. cbn [Z.eqb]. split; [reflexivity|]. split; [exact Sv|split; [reflexivity|lia]].
      * destruct Sa as [Sa1 Sa2]. assert (q_abase s =? -1 = false) as -> by (apply Z.eqb_neq; lia).
        rewrite Sa1. split; [reflexivity|]. split; [exact Sv|split; [reflexivity|lia]].
Qed.

Lemma adjusted_rebased rot : forall l s tv ta, state_rel rot s tv ta -> stream_ok tv ta l ->
  adjusted rot s l = rebased tv ta l.
Proof.
  induction l as [|p t IH]; intros s tv ta Hs Hok; [reflexivity|].
  cbn [adjusted rebased stream_ok] in *.
  destruct (isv p) eqn:Ep.
  - destruct Hok as [H1 H2]. pose proof (adjust_rebase rot s p tv ta Hs) as Ha. rewrite Ep in Ha.
    destruct (Ha H1) as [E Hs']. rewrite E. f_equal. apply IH; assumption.
  - destruct Hok as [H1 H2]. pose proof (adjust_rebase rot s p tv ta Hs) as Ha. rewrite Ep in Ha.
    destruct (Ha H1) as [E Hs']. rewrite E. f_equal. apply IH; assumption.
Qed.

Lemma state_rel_init rot : state_rel rot aq_init TNone TNone.
Proof. destruct rot; split; reflexivity. Qed.

(* per track, "rebased" subtracts one constant: the first timestamp of the track *)
Definition track_first (t : trk) (l : list avpkt) : Z :=
  match t with TSome f _ => f | TNone => match l with p :: _ => av_ts p | [] => 0 end end.

Lemma vs_cons_t p r : isv p = true -> vs (p :: r) = p :: vs r /\ as_ (p :: r) = as_ r.
Proof. intros H. unfold vs, as_. cbn [filter]. rewrite H. split; reflexivity. Qed.
Lemma vs_cons_f p r : isv p = false -> vs (p :: r) = vs r /\ as_ (p :: r) = p :: as_ r.
Proof. intros H. unfold vs, as_. cbn [filter]. rewrite H. split; reflexivity. Qed.

Lemma rebased_video : forall l tv ta,
  vs (rebased tv ta l) = map (fun p => with_ts p (av_ts p - track_first tv (vs l))) (vs l).
Proof.
  induction l as [|p r IH]; intros tv ta; [reflexivity|].
  cbn [rebased]. destruct (isv p) eqn:Ep.
  - destruct (vs_cons_t p r Ep) as [-> _].
    destruct (vs_cons_t (with_ts p (av_ts p - first_of tv (av_ts p))) (rebased (next_trk tv (av_ts p)) ta r)) as [-> _];
      [rewrite with_ts_isv; exact Ep|].
    cbn [map]. rewrite IH. destruct tv; reflexivity.
  - destruct (vs_cons_f p r Ep) as [-> _].
    destruct (vs_cons_f (with_ts p (av_ts p - first_of ta (av_ts p))) (rebased tv (next_trk ta (av_ts p)) r)) as [-> _];
      [rewrite with_ts_isv; exact Ep|].
    apply IH.
Qed.

Lemma rebased_audio : forall l tv ta,
  as_ (rebased tv ta l) = map (fun p => with_ts p (av_ts p - track_first ta (as_ l))) (as_ l).
Proof.
  induction l as [|p r IH]; intros tv ta; [reflexivity|].
  cbn [rebased]. destruct (isv p) eqn:Ep.
  - destruct (vs_cons_t p r Ep) as [_ ->].
    destruct (vs_cons_t (with_ts p (av_ts p - first_of tv (av_ts p))) (rebased (next_trk tv (av_ts p)) ta r)) as [_ ->];
      [rewrite with_ts_isv; exact Ep|].
    apply IH.
  - destruct (vs_cons_f p r Ep) as [_ ->].
    destruct (vs_cons_f (with_ts p (av_ts p - first_of ta (av_ts p))) (rebased tv (next_trk ta (av_ts p)) r)) as [_ ->];
      [rewrite with_ts_isv; exact Ep|].
    cbn [map]. rewrite IH. destruct ta; reflexivity.
Qed.

(* ---------------------------------------------------------------- the two statements of Properties/C07.v *)
Theorem queue_merge rot l s' outs : aq_run rot aq_init l = (s', outs) ->
  let adj := adjusted rot aq_init l in
  map av_pt adj = map av_pt l /\ map av_payload adj = map av_payload l /\
  vs (concat outs) ++ q_v s' = vs adj /\ as_ (concat outs) ++ q_a s' = as_ adj /\
  (length (q_v s') < max_queue_size)%nat /\ (length (q_a s') < max_queue_size)%nat.
Proof.
  intros E. destruct (aq_run_tracks rot l aq_init s' outs aq_init_inv E) as (R1 & R2 & (_ & _ & L1 & L2) & R3 & R4).
  cbn [aq_init q_v q_a app] in R1, R2. repeat split; assumption.
Qed.

Theorem queue_rebase rot l s' outs : stream_ok TNone TNone l -> aq_run rot aq_init l = (s', outs) ->
  vs (concat outs) ++ q_v s' = map (fun p => with_ts p (av_ts p - track_first TNone (vs l))) (vs l) /\
  as_ (concat outs) ++ q_a s' = map (fun p => with_ts p (av_ts p - track_first TNone (as_ l))) (as_ l).
Proof.
  intros Hok E. destruct (queue_merge rot l s' outs E) as (_ & _ & M1 & M2 & _).
  rewrite (adjusted_rebased rot l aq_init TNone TNone (state_rel_init rot) Hok) in M1, M2.
  rewrite rebased_video in M1. rewrite rebased_audio in M2. split; assumption.
Qed.
