(* C06, stream level (1): per track, the frames the remuxer emits form a CHAIN:
   the continuity counter of a frame is the counter left by the previous frame
   of the track, its packets are mpegts.Frame.Pack of it, its DTS is the
   published one rebased on the first DTS of the track (or left alone when it
   is below that base), its PTS is DTS + 90 * CTS.  Holds for every message
   sequence, every observer. *)
From Coq Require Import Lia ZifyN ZifyNat ZifyBool.
From Lal Require Import Common.LBytes Common.LBytesProofs Common.Res Group.GroupMsg Codec.CodecBits Codec.CodecAac
  Codec.CodecAvcSeqHeader Codec.CodecHevcSeqHeader Codec.CodecNalFraming Rtp.RtpPacker
  Mpegts.TsPack Mpegts.TsPsi Remux.RemuxTsTimestamp Remux.RemuxRtmp2Ts Remux.RemuxTsFilter Remux.RemuxStepProofs.
Open Scope N_scope.
Ltac Zify.zify_post_hook ::= Z.div_mod_to_equations.

Definition ev_sid (e : tsev) : N := f_sid (te_frame e).
Definition is_audio_ev (e : tsev) : bool := ev_sid e =? sid_audio.
Definition is_video_ev (e : tsev) : bool := ev_sid e =? sid_video.

(* one track: [base] = the filter's base before the frame, [cc] = the counter before it *)
Fixpoint chain (base cc : N) (l : list tsev) : Prop :=
  match l with
  | [] => True
  | e :: t =>
    let f := te_frame e in
    f_cc f = cc /\ pack f = (te_packets e, te_cc e) /\
    f_dts f = snd (rebase base (te_dts0 e)) /\ f_pts f = u64 (f_dts f + 90 * te_cts e) /\
    chain (fst (rebase base (te_dts0 e))) (te_cc e) t
  end.

Fixpoint chain_end (base cc : N) (l : list tsev) : N * N :=
  match l with
  | [] => (base, cc)
  | e :: t => chain_end (fst (rebase base (te_dts0 e))) (te_cc e) t
  end.

Lemma chain_snoc : forall l base cc e,
  chain base cc (l ++ [e]) <->
  chain base cc l /\ chain (fst (chain_end base cc l)) (snd (chain_end base cc l)) [e].
Proof.
  induction l as [|x t IH]; intros base cc e; cbn [app chain chain_end fst snd].
  - tauto.
  - specialize (IH (fst (rebase base (te_dts0 x))) (te_cc x) e). cbn [chain] in IH. intuition.
Qed.

Lemma chain_end_snoc : forall l base cc e,
  chain_end base cc (l ++ [e])
  = (fst (rebase (fst (chain_end base cc l)) (te_dts0 e)), te_cc e).
Proof. induction l as [|x t IH]; intros base cc e; cbn [app chain_end]; [reflexivity|apply IH]. Qed.

Definition audio_ids (e : tsev) : Prop :=
  let f := te_frame e in f_sid f = sid_audio /\ f_pid f = pid_audio /\ f_key f = false /\ te_cts e = 0.
Definition video_ids (e : tsev) : Prop := let f := te_frame e in f_sid f = sid_video /\ f_pid f = pid_video.
Definition ids_ok (e : tsev) : Prop := audio_ids e \/ video_ids e.

(* the invariant, one half per track: the track's frames are a chain that ends
   in the state's filter base and counter *)
Definition achained (s : r2t) (evs : list tsev) : Prop :=
  chain max_u64 0 (filter is_audio_ev evs)
  /\ chain_end max_u64 0 (filter is_audio_ev evs) = (tf_abase (r_tsf s), r_acc s).
Definition vchained (s : r2t) (evs : list tsev) : Prop :=
  chain max_u64 0 (filter is_video_ev evs)
  /\ chain_end max_u64 0 (filter is_video_ev evs) = (tf_vbase (r_tsf s), r_vcc s).
Definition chained (s : r2t) (evs : list tsev) : Prop := achained s evs /\ vchained s evs /\ Forall ids_ok evs.

Lemma chained_init : chained r2t_init [].
Proof. repeat split; constructor. Qed.

(* ---- FlushAudio: touches the audio half only ---- *)
Lemma flushed_chained n s evs s' evs' :
  achained s evs -> flushed n s = (s', evs') ->
  achained s' (evs ++ evs')
  /\ Forall audio_ids evs'
  /\ tf_vbase (r_tsf s') = tf_vbase (r_tsf s) /\ r_vcc s' = r_vcc s
  /\ r_spspps s' = r_spspps s /\ r_asc s' = r_asc s /\ audio_cache_empty s' = true.
Proof.
  intros (Ha & Hae). unfold flushed.
  destruct (audio_cache_empty s) eqn:Ee.
  { intros H. injection H as <- <-. rewrite app_nil_r. repeat split; try assumption. constructor. }
  unfold on_frame_core, audio_frame.
  cbn [f_sid f_dts f_pts r_tsf set_acache r_spspps r_asc r_acc r_vcc r_acache r_afirst r_opened].
  unfold tsfilter_do. rewrite N.eqb_refl.
  destruct (rebase (tf_abase (r_tsf s)) (r_afirst s)) as [ab d] eqn:Er.
  cbn [with_times f_cc f_pid f_sid f_key f_raw].
  destruct (pack _) as [pk cc'] eqn:Ep. intros H. injection H as <- <-.
  set (ev := mk_tsev _ _ _ _ _ _ _).
  assert (Eva : is_audio_ev ev = true) by reflexivity.
  unfold achained. rewrite !filter_app. cbn [filter]. rewrite Eva.
  split; [split|].
  - apply chain_snoc. split; [assumption|]. rewrite Hae. cbn [fst snd chain].
    subst ev. cbn [te_frame te_dts0 te_cts te_packets te_cc f_cc f_dts f_pts]. rewrite Er. cbn [fst snd].
    repeat split; try reflexivity; try assumption.
  - rewrite chain_end_snoc, Hae. subst ev. cbn [fst snd te_dts0 te_cc]. now rewrite Er.
  - split; [constructor; [|constructor]; subst ev; cbn; repeat split|].
    cbn. repeat split; reflexivity.
Qed.

Lemma filter_video_audio_ids evs : Forall audio_ids evs -> filter is_video_ev evs = [].
Proof.
  induction 1 as [|e t He _ IH]; [reflexivity|]. cbn [filter]. rewrite IH.
  destruct He as (Hs & _). unfold is_video_ev, ev_sid. rewrite Hs. reflexivity.
Qed.
Lemma filter_audio_audio_ids evs : Forall audio_ids evs -> filter is_audio_ev evs = evs.
Proof.
  induction 1 as [|e t He _ IH]; [reflexivity|]. cbn [filter]. rewrite IH.
  destruct He as (Hs & _). unfold is_audio_ev, ev_sid. rewrite Hs. reflexivity.
Qed.

Lemma flushed_chained_all n s evs s' evs' :
  chained s evs -> flushed n s = (s', evs') ->
  chained s' (evs ++ evs') /\ Forall audio_ids evs'
  /\ r_vcc s' = r_vcc s /\ r_spspps s' = r_spspps s /\ r_asc s' = r_asc s /\ audio_cache_empty s' = true.
Proof.
  intros (Ha & (Hv & Hve) & Hids) E.
  destruct (flushed_chained n s evs s' evs' Ha E) as (Ha' & Hai & Hvb & Hvc & Hsp & Hasc & Hemp).
  split; [split; [exact Ha'|split]|repeat split; assumption].
  - unfold vchained. rewrite filter_app, (filter_video_audio_ids evs' Hai), app_nil_r, Hvb, Hvc. split; assumption.
  - apply Forall_app. split; [assumption|]. eapply Forall_impl; [|exact Hai]. intros e He. now left.
Qed.

(* ---- a video frame whose counter is the state's: onFrame, then videoCc updated ---- *)
Lemma video_frame_chained d s evs f cts s2 evs2 ev :
  chained s evs -> f_sid f = sid_video -> f_pid f = pid_video -> f_cc f = r_vcc s ->
  f_pts f = u64 (f_dts f + 90 * cts) ->
  on_frame_pure d s f cts = (s2, evs2, ev) ->
  chained (set_vcc s2 (te_cc ev)) (evs ++ evs2)
  /\ r_spspps s2 = r_spspps s /\ r_asc s2 = r_asc s
  /\ te_dts0 ev = f_dts f /\ te_cts ev = cts /\ f_raw (te_frame ev) = f_raw f /\ f_key (te_frame ev) = f_key f
  /\ video_ids ev /\ (exists nested, evs2 = nested ++ [ev] /\ Forall audio_ids nested).
Proof.
  intros ((Ha & Hae) & (Hv & Hve) & Hids) Hsid Hpid Hcc Hpts. unfold on_frame_pure, on_frame_core.
  unfold tsfilter_do. rewrite Hsid. change (sid_video =? sid_audio) with false. rewrite N.eqb_refl. cbv iota.
  destruct (rebase (tf_vbase (r_tsf s)) (f_dts f)) as [vb dd] eqn:Er.
  destruct (pack _) as [pk cc'] eqn:Ep.
  set (ev0 := mk_tsev _ _ _ _ _ _ _).
  set (s1 := set_tsf_opened s _ _).
  assert (Ev0v : is_video_ev ev0 = true) by (unfold is_video_ev, ev_sid; subst ev0; cbn; now rewrite Hsid).
  assert (Ev0a : is_audio_ev ev0 = false) by (unfold is_audio_ev, ev_sid; subst ev0; cbn; now rewrite Hsid).
  assert (Hs1 : achained s1 evs) by (subst s1; split; assumption).
  assert (Hvid : chain max_u64 0 (filter is_video_ev evs ++ [ev0])
                 /\ chain_end max_u64 0 (filter is_video_ev evs ++ [ev0]) = (vb, cc')).
  { split.
    - apply chain_snoc. split; [assumption|]. rewrite Hve. cbn [fst snd chain].
      subst ev0. cbn [te_frame te_dts0 te_cts te_packets te_cc with_times f_cc f_dts f_pts]. rewrite Er. cbn [fst snd].
      repeat split; try reflexivity; try assumption.
    - rewrite chain_end_snoc, Hve. subst ev0. cbn [fst snd te_dts0 te_cc]. now rewrite Er. }
  assert (Hid0 : video_ids ev0) by (subst ev0; cbn; now split).
  assert (Hev0 : te_dts0 ev0 = f_dts f /\ te_cts ev0 = cts /\ f_raw (te_frame ev0) = f_raw f /\ f_key (te_frame ev0) = f_key f)
    by (subst ev0; cbn; repeat split).
  destruct d.
  - destruct (flushed true s1) as [s2' nested] eqn:Ef. intros H. injection H as <- <- <-.
    destruct (flushed_chained true s1 evs s2' nested Hs1 Ef) as ((Ha2 & Hae2) & Hai & Hvb & Hvc & Hsp & Hasc & _).
    split; [|repeat split; try apply Hev0; try assumption; try (now exists nested)].
    + split; [|split].
      * unfold achained. rewrite app_assoc, filter_app. cbn [filter]. rewrite Ev0a, app_nil_r. split; assumption.
      * unfold vchained. rewrite !filter_app, (filter_video_audio_ids nested Hai). cbn [filter app]. rewrite Ev0v.
        cbn [set_vcc r_tsf r_vcc]. rewrite Hvb. subst s1. cbn [r_tsf set_tsf_opened tf_vbase]. exact Hvid.
      * apply Forall_app. split; [assumption|]. apply Forall_app. split.
        -- eapply Forall_impl; [|exact Hai]. intros e He. now left.
        -- constructor; [now right|constructor].
  - intros H. injection H as <- <- <-.
    split; [|repeat split; try apply Hev0; try assumption; try reflexivity; exists []; now split].
    split; [|split].
    * unfold achained. rewrite filter_app. cbn [filter]. rewrite Ev0a, app_nil_r. exact Hs1.
    * unfold vchained. rewrite filter_app. cbn [filter app]. rewrite Ev0v.
      cbn [set_vcc r_tsf r_vcc]. subst s1. cbn [r_tsf set_tsf_opened tf_vbase]. exact Hvid.
    * apply Forall_app. split; [assumption|]. constructor; [now right|constructor].
Qed.

(* ---- lifting to messages ---- *)
Lemma chained_ext s s' evs :
  r_tsf s' = r_tsf s -> r_acc s' = r_acc s -> r_vcc s' = r_vcc s -> chained s evs -> chained s' evs.
Proof. intros E1 E2 E3 ((Ha & Hae) & (Hv & Hve) & Hi). unfold chained, achained, vchained. rewrite E1, E2, E3. tauto. Qed.

Lemma feed_video_chained d s evs m s' evs' :
  chained s evs -> feed_video_pure d s m = (s', evs') -> chained s' (evs ++ evs').
Proof.
  intros Hc. unfold feed_video_pure.
  destruct (lenN (rm_payload m) <=? 5); [intros H; injection H as <- <-; now rewrite app_nil_r|].
  destruct (negb _); [intros H; injection H as <- <-; now rewrite app_nil_r|].
  destruct (is_avc_key_seq_header m); [intros H; injection H as <- <-; rewrite app_nil_r; now apply (chained_ext s)|].
  destruct (is_hevc_key_seq_header m).
  { destruct (is_ext_header m); intros H; injection H as <- <-; rewrite app_nil_r; now apply (chained_ext s). }
  destruct (enhanced_too_short m); [intros H; injection H as <- <-; now rewrite app_nil_r|].
  destruct (iterate_nalu_avcc _) as [nals [e|]]; [intros H; injection H as <- <-; now rewrite app_nil_r|].
  destruct (video_loop _ _ _ _ _ _ _ _ _) as [cache [[|b out]|]];
    try (intros H; injection H as <- <-; rewrite app_nil_r; now apply (chained_ext s)).
  set (s0 := set_spspps s cache). set (dts := u64 (rm_ts m * 90)).
  assert (Hc0 : chained s0 evs) by now apply (chained_ext s).
  destruct (if negb (audio_cache_empty s0) && (r_afirst s0 + max_audio_delay_by_video <? dts)
            then flushed false s0 else (s0, [])) as [s1 evs1] eqn:Ef.
  assert (Hc1 : chained s1 (evs ++ evs1)).
  { destruct (negb (audio_cache_empty s0) && (r_afirst s0 + max_audio_delay_by_video <? dts)).
    - now destruct (flushed_chained_all false s0 evs s1 evs1 Hc0 Ef).
    - injection Ef as <- <-. now rewrite app_nil_r. }
  set (f := mk_frame _ _ _ _ _ _ _).
  destruct (on_frame_pure d s1 f (video_cts m)) as [[s2 evs2] ev] eqn:Eo.
  intros H. injection H as <- <-.
  destruct (video_frame_chained d s1 (evs ++ evs1) f (video_cts m) s2 evs2 ev Hc1) as (Hc2 & _); try reflexivity; try assumption.
  now rewrite app_assoc.
Qed.

Lemma feed_audio_chained s evs m s' evs' :
  chained s evs -> feed_audio_pure s m = (s', evs') -> chained s' (evs ++ evs').
Proof.
  intros Hc. unfold feed_audio_pure.
  destruct (lenN (rm_payload m) <=? 2); [intros H; injection H as <- <-; now rewrite app_nil_r|].
  destruct (audio_codec_id m =? sound_aac).
  - destruct (pb m 1 =? 0); [intros H; injection H as <- <-; rewrite app_nil_r; now apply (chained_ext s)|].
    destruct (r_asc s) as [asc|]; [|intros H; injection H as <- <-; now rewrite app_nil_r].
    destruct (if negb (audio_cache_empty s) && (r_afirst s + max_audio_delay_by_audio <? u64 (rm_ts m * 90))
              then flushed false s else (s, [])) as [s1 evs1] eqn:Ef.
    intros H. injection H as <- <-.
    assert (Hc1 : chained s1 (evs ++ evs1)).
    { destruct (negb (audio_cache_empty s) && (r_afirst s + max_audio_delay_by_audio <? u64 (rm_ts m * 90))).
      - now destruct (flushed_chained_all false s evs s1 evs1 Hc Ef).
      - injection Ef as <- <-. now rewrite app_nil_r. }
    now apply (chained_ext s1).
  - intros Ef. refine (proj1 (flushed_chained_all false _ evs s' evs' _ Ef)). now apply (chained_ext s).
Qed.

Lemma on_pop_chained d s evs m s' evs' :
  chained s evs -> on_pop_pure d s m = (s', evs') -> chained s' (evs ++ evs').
Proof.
  intros Hc. unfold on_pop_pure. destruct (rm_type m =? type_audio).
  - destruct (negb _); [intros H; injection H as <- <-; now rewrite app_nil_r|]. now apply feed_audio_chained.
  - destruct (rm_type m =? type_video); [now apply feed_video_chained|].
    intros H; injection H as <- <-; now rewrite app_nil_r.
Qed.

Lemma pop_all_chained : forall ms ds s evs s' evs',
  chained s evs -> pop_all_pure ds s ms = (s', evs') -> chained s' (evs ++ evs').
Proof.
  induction ms as [|m t IH]; intros ds s evs s' evs' Hc; cbn [pop_all_pure].
  - intros H. injection H as <- <-. now rewrite app_nil_r.
  - destruct (on_pop_pure (hd false ds) s m) as [s1 e1] eqn:E1.
    destruct (pop_all_pure (tl ds) s1 t) as [s2 e2] eqn:E2. intros H. injection H as <- <-.
    rewrite app_assoc. eapply IH; [|exact E2]. eapply on_pop_chained; eassumption.
Qed.

(* ---- consequences of a chain ---- *)
(* the packets of the track are mpegts.Frame.Pack over the frames with the
   counter carried from frame to frame (C09's pack_seq) *)
Lemma chain_pack_seq : forall l base cc,
  chain base cc l ->
  pack_seq cc (map te_frame l) = (map te_packets l, snd (chain_end base cc l)).
Proof.
  unfold pack_seq, pack.
  induction l as [|e t IH]; intros base cc H; [reflexivity|].
  cbn [chain] in H. destruct H as (Hcc & Hp & _ & _ & Ht). unfold pack in Hp.
  cbn [map pack_seq_q chain_end].
  assert (Hw : with_cc (te_frame e) cc = te_frame e) by (rewrite <- Hcc; destruct (te_frame e); reflexivity).
  rewrite Hw, Hp, (IH _ _ Ht). reflexivity.
Qed.

(* time stamps: once the base of the track is set (by its first frame) every
   DTS is the published one minus that base, unless it lies below the base *)
Lemma chain_times : forall l base cc e,
  chain base cc l -> base <> max_u64 -> In e l ->
  f_dts (te_frame e) = rebase_dts (te_dts0 e) base
  /\ f_pts (te_frame e) = u64 (f_dts (te_frame e) + 90 * te_cts e).
Proof.
  induction l as [|x t IH]; intros base cc e H Hb Hin; [destruct Hin|].
  cbn [chain] in H. destruct H as (_ & _ & Hd & Hp & Ht).
  assert (Er : rebase base (te_dts0 x) = (base, rebase_dts (te_dts0 x) base)).
  { unfold rebase. apply N.eqb_neq in Hb. now rewrite Hb. }
  destruct Hin as [<-|Hin].
  - split; [rewrite Hd, Er; reflexivity|exact Hp].
  - rewrite Er in Ht. cbn [fst] in Ht. exact (IH _ _ _ Ht Hb Hin).
Qed.

Lemma chain_first_base e t cc : chain max_u64 cc (e :: t) ->
  f_dts (te_frame e) = 0 /\ chain (te_dts0 e) (te_cc e) t.
Proof.
  cbn [chain]. intros (_ & _ & Hd & _ & Ht).
  unfold rebase, rebase_dts in *. rewrite N.eqb_refl in *. cbn [fst snd] in *.
  rewrite N.ltb_irrefl in Hd. rewrite N.sub_diag in Hd. now split.
Qed.

(* the rebased dts is the published one minus the base on the 33-bit clock, whatever their order *)
Lemma rebase_dts_mod d b : (rebase_dts d b + b) mod ts_clock = d mod ts_clock.
Proof. unfold rebase_dts, ts_clock. destruct (d <? b) eqn:E; lia. Qed.

Lemma rebase_dts_ge d b : b <= d -> rebase_dts d b = d - b.
Proof. unfold rebase_dts. intros H. destruct (d <? b) eqn:E; [lia|reflexivity]. Qed.

(* the pinned filter left a dts below the base alone: no constant fits *)
Lemma rebase_pinned_refuted :
  exists b d, snd (rebase_pinned b d) = d /\ d < b /\ (snd (rebase_pinned b d) + b) mod ts_clock <> d mod ts_clock.
Proof. exists 90000, 45000. repeat split; vm_compute; congruence. Qed.
