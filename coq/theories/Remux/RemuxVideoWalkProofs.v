(* C06, video over WHOLE message sequences: the video frames a run emits are,
   in order, the frames a NAL-unit-level walk over the published messages
   describes - one per NAL-unit message whose plan is not empty, its Annex-B
   buffer the rendering of the plan ([plan_loop], of which c06_video_nals says
   what it holds), stamped 90 * time stamp, with the message's composition
   offset and key flag; the parameter sets in force are those of the last
   sequence header / in-band set (as NAL-unit lists, not as joined bytes).
   The video counterpart of the audio partition of RemuxBatchProofs. *)
From Coq Require Import Lia.
From Lal Require Import Common.LBytes Common.Res Group.GroupMsg Codec.CodecNalFraming Codec.CodecNalFramingProofs Codec.CodecAvcSeqHeader Codec.CodecHevcSeqHeader
  Rtp.RtpPacker Mpegts.TsPack Remux.RemuxTsTimestamp Remux.RemuxRtmp2Ts Remux.RemuxTsFilter
  Remux.RemuxStepProofs Remux.RemuxVideoProofs Remux.RemuxChainProofs.
Open Scope N_scope.

Record vview := mk_vview { vv_raw : bytes; vv_dts0 : N; vv_cts : N; vv_key : bool }.
Definition vview_of (e : tsev) : vview := mk_vview (f_raw (te_frame e)) (te_dts0 e) (te_cts e) (f_key (te_frame e)).
Definition video_evs (evs : list tsev) : list tsev := filter is_video_ev evs.

(* the parameter sets a sequence header announces, as NAL units *)
Definition hdr_units (m : rmsg) : option (list bytes) :=
  if is_avc_key_seq_header m then
    match avc_parse_seq_header_list (rm_payload m) with Ok (spss, ppss) => Some (spss ++ ppss) | _ => None end
  else if is_ext_header m then
    match hevc_parse_enhanced_seq_header (rm_payload m) with Ok (v, sp, q) => Some [v; sp; q] | _ => None end
  else
    match hevc_parse_seq_header (rm_payload m) with Ok (v, sp, q) => Some [v; sp; q] | _ => None end.

Definition vmsg_codec (m : rmsg) : vcodec := if video_codec_id m =? codec_id_hevc then Hevc else Avc.
Definition vmsg_body (m : rmsg) : bytes :=
  if (video_codec_id m =? codec_id_hevc) && is_enhanced_hevc_nalu m
  then skipn (enhanced_nalu_index m) (rm_payload m) else skipn 5 (rm_payload m).

(* one published message: the parameter sets in force afterwards, the frame it yields (if any) *)
Definition vstep (st : option (list bytes) * list vview) (m : rmsg) : option (list bytes) * list vview :=
  if negb (rm_type m =? type_video) then st
  else if lenN (rm_payload m) <=? 5 then st
  else if negb ((video_codec_id m =? codec_id_avc) || (video_codec_id m =? codec_id_hevc)) then st
  else if is_avc_key_seq_header m || is_hevc_key_seq_header m then (hdr_units m, snd st)
  else if enhanced_too_short m then st
  else
    match iterate_nalu_avcc (vmsg_body m) with
    | (_, Some _) => st
    | (nals, None) =>
      match plan_loop (vmsg_codec m) nals (fst st) [] [] [] false false [] with
      | (cl', Some (u :: plan)) =>
          (cl', snd st ++ [mk_vview (join_annexb (u :: plan)) (u64 (rm_ts m * 90)) (video_cts m) (is_video_key_nalu m)])
      | (cl', _) => (cl', snd st)
      end
    end.

Definition video_walk (ms : list rmsg) : option (list bytes) * list vview := fold_left vstep ms (None, []).

Lemma video_walk_snoc ms m : video_walk (ms ++ [m]) = vstep (video_walk ms) m.
Proof. unfold video_walk. now rewrite fold_left_app. Qed.

(* the invariant: the cache of the remuxer is the join of the walk's units, the video frames so far are the walk's *)
Definition vwalked (s : r2t) (evs : list tsev) (ms : list rmsg) : Prop :=
  r_spspps s = omap annexb_join4 (fst (video_walk ms)) /\ map vview_of (video_evs evs) = snd (video_walk ms).

Lemma vwalked_init : vwalked r2t_init [] [].
Proof. split; reflexivity. Qed.

Lemma annexb_join4_app a b : annexb_join4 (a ++ b) = annexb_join4 a ++ annexb_join4 b.
Proof. unfold annexb_join4. now rewrite map_app, concat_app. Qed.

Lemma hdr_units_avc m : is_avc_key_seq_header m = true ->
  res_to_opt (avc_seq_header2annexb (rm_payload m)) = omap annexb_join4 (hdr_units m).
Proof.
  intro H. unfold hdr_units, avc_seq_header2annexb. rewrite H.
  destruct (avc_parse_seq_header_list (rm_payload m)) as [[a b]| |]; cbn; [now rewrite annexb_join4_app|reflexivity|reflexivity].
Qed.

Lemma join4_three v sp q : hsc4 ++ v ++ hsc4 ++ sp ++ hsc4 ++ q = annexb_join4 [v; sp; q].
Proof. unfold annexb_join4. cbn [map concat]. rewrite app_nil_r, <- !app_assoc. reflexivity. Qed.

Lemma hdr_units_hevc m : is_avc_key_seq_header m = false ->
  (if is_ext_header m
   then res_to_opt (let* (v, sp, q) := hevc_parse_enhanced_seq_header (rm_payload m) in Ok (hsc4 ++ v ++ hsc4 ++ sp ++ hsc4 ++ q))
   else res_to_opt (hevc_seq_header2annexb (rm_payload m))) = omap annexb_join4 (hdr_units m).
Proof.
  intro H. unfold hdr_units, hevc_seq_header2annexb. rewrite H. destruct (is_ext_header m).
  - destruct (hevc_parse_enhanced_seq_header (rm_payload m)) as [[[v sp] q]| |]; cbn - [hsc4 app annexb_join4]; [now rewrite join4_three|reflexivity|reflexivity].
  - destruct (hevc_parse_seq_header (rm_payload m)) as [[[v sp] q]| |]; cbn - [hsc4 app annexb_join4]; [now rewrite join4_three|reflexivity|reflexivity].
Qed.

Lemma video_evs_app a b : video_evs (a ++ b) = video_evs a ++ video_evs b.
Proof. apply filter_app. Qed.

Lemma vwalked_ext s s' evs ms : r_spspps s' = r_spspps s -> vwalked s evs ms -> vwalked s' evs ms.
Proof. intros E [A B]. split; [now rewrite E|exact B]. Qed.

(* events of audio frames, state changes that leave the cache alone: nothing moves *)
Lemma vwalked_audio s s' evs evs' ms :
  r_spspps s' = r_spspps s -> Forall audio_ids evs' -> vwalked s evs ms -> vwalked s' (evs ++ evs') ms.
Proof.
  intros E Ha [A B]. split; [now rewrite E|]. rewrite video_evs_app. unfold video_evs at 2.
  rewrite (filter_video_audio_ids evs' Ha), app_nil_r. exact B.
Qed.

Lemma feed_audio_vwalked s evs ms m s' evs' :
  chained s evs -> rm_type m = type_audio -> feed_audio_pure s m = (s', evs') ->
  vwalked s evs ms -> vwalked s' (evs ++ evs') (ms ++ [m]).
Proof.
  intros Hc Hty E Hv.
  assert (Hstep : vstep (video_walk ms) m = video_walk ms) by (unfold vstep; rewrite Hty; reflexivity).
  assert (Hgoal : vwalked s' (evs ++ evs') ms -> vwalked s' (evs ++ evs') (ms ++ [m])).
  { intros [A B]. unfold vwalked. now rewrite video_walk_snoc, Hstep. }
  apply Hgoal. clear Hgoal Hstep. revert E. unfold feed_audio_pure.
  destruct (lenN (rm_payload m) <=? 2); [intros H; injection H as <- <-; now rewrite app_nil_r|].
  destruct (audio_codec_id m =? sound_aac).
  - destruct (pb m 1 =? 0); [intros H; injection H as <- <-; rewrite app_nil_r; now apply (vwalked_ext s)|].
    destruct (r_asc s) as [asc|]; [|intros H; injection H as <- <-; now rewrite app_nil_r].
    destruct (if negb (audio_cache_empty s) && (r_afirst s + max_audio_delay_by_audio <? u64 (rm_ts m * 90))
              then flushed false s else (s, [])) as [s1 evs1] eqn:Ef.
    intros H. injection H as <- <-.
    assert (H1 : vwalked s1 (evs ++ evs1) ms).
    { destruct (negb (audio_cache_empty s) && (r_afirst s + max_audio_delay_by_audio <? u64 (rm_ts m * 90))).
      - destruct (flushed_chained_all false s evs s1 evs1 Hc Ef) as (_ & Hai & _ & Hsp & _). now apply (vwalked_audio s).
      - injection Ef as <- <-. now rewrite app_nil_r. }
    now apply (vwalked_ext s1).
  - intros Ef. set (s0 := set_acache s (r_acache s ++ skipn 1 (rm_payload m)) (u64 (rm_ts m * 90))) in *.
    assert (Hc0 : chained s0 evs) by now apply (chained_ext s).
    destruct (flushed_chained_all false s0 evs s' evs' Hc0 Ef) as (_ & Hai & _ & Hsp & _).
    apply (vwalked_audio s0); [exact Hsp|exact Hai|now apply (vwalked_ext s)].
Qed.

Lemma feed_video_vwalked d s evs ms m s' evs' :
  chained s evs -> rm_type m = type_video -> feed_video_pure d s m = (s', evs') ->
  vwalked s evs ms -> vwalked s' (evs ++ evs') (ms ++ [m]).
Proof.
  intros Hc Hty E [Hsp Hev]. unfold vwalked. rewrite video_walk_snoc. unfold vstep. rewrite Hty. change (negb (type_video =? type_video)) with false. cbv iota.
  revert E. unfold feed_video_pure. cbv zeta.
  destruct (lenN (rm_payload m) <=? 5); [intros H; injection H as <- <-; rewrite app_nil_r; now split|].
  destruct (negb _); [intros H; injection H as <- <-; rewrite app_nil_r; now split|].
  destruct (is_avc_key_seq_header m) eqn:Ea.
  { intros H. injection H as <- <-. rewrite app_nil_r. cbn [orb fst snd set_spspps r_spspps]. split; [now apply hdr_units_avc|exact Hev]. }
  destruct (is_hevc_key_seq_header m) eqn:Eh.
  { cbn [orb fst snd]. pose proof (hdr_units_hevc m Ea) as Hh.
    destruct (is_ext_header m); intros H; injection H as <- <-; rewrite app_nil_r; cbn [set_spspps r_spspps]; (split; [exact Hh|exact Hev]). }
  cbn [orb].
  destruct (enhanced_too_short m); [intros H; injection H as <- <-; rewrite app_nil_r; now split|].
  fold (vmsg_codec m). unfold vmsg_body.
  destruct (iterate_nalu_avcc _) as [nals [e|]]; [intros H; injection H as <- <-; rewrite app_nil_r; now split|].
  rewrite Hsp.
  pose proof (video_loop_plan (vmsg_codec m) nals (fst (video_walk ms)) [] [] [] false false []) as Hv. cbn [join_annexb] in Hv.
  rewrite Hv by (congruence || discriminate). clear Hv.
  destruct (plan_loop (vmsg_codec m) nals (fst (video_walk ms)) [] [] [] false false []) as [cl' [plan|]]; cbn [fst snd omap].
  2:{ intros H. injection H as <- <-. rewrite app_nil_r. cbn [set_spspps r_spspps]. now split. }
  destruct plan as [|u plan].
  { cbn [join_annexb]. intros H. injection H as <- <-. rewrite app_nil_r. cbn [set_spspps r_spspps fst snd]. now split. }
  destruct (join_annexb (u :: plan)) as [|b out] eqn:Ej.
  { exfalso. pose proof (join_annexb_nonempty (u :: plan) ltac:(discriminate)) as Hn. rewrite Ej in Hn. discriminate. }
  set (s0 := set_spspps s (omap annexb_join4 cl')). set (dts := u64 (rm_ts m * 90)).
  assert (Hc0 : chained s0 evs) by now apply (chained_ext s).
  destruct (if negb (audio_cache_empty s0) && (r_afirst s0 + max_audio_delay_by_video <? dts)
            then flushed false s0 else (s0, [])) as [s1 evs1] eqn:Ef.
  assert (H1 : chained s1 (evs ++ evs1) /\ Forall audio_ids evs1 /\ r_spspps s1 = omap annexb_join4 cl').
  { destruct (negb (audio_cache_empty s0) && (r_afirst s0 + max_audio_delay_by_video <? dts)).
    - destruct (flushed_chained_all false s0 evs s1 evs1 Hc0 Ef) as (A & B & _ & C & _). split; [exact A|]. split; [exact B|]. now rewrite C.
    - injection Ef as <- <-. rewrite app_nil_r. split; [exact Hc0|]. split; [constructor|reflexivity]. }
  destruct H1 as (Hc1 & Ha1 & Hsp1).
  set (f := mk_frame _ _ _ _ _ _ _).
  destruct (on_frame_pure d s1 f (video_cts m)) as [[s2 evs2] ev] eqn:Eo.
  intros H. injection H as <- <-.
  destruct (video_frame_chained d s1 (evs ++ evs1) f (video_cts m) s2 evs2 ev Hc1) as (_ & Hsp2 & _ & D1 & D2 & D3 & D4 & Hvid & (nested & -> & Hna));
    try reflexivity; try assumption.
  cbn [fst snd]. split.
  - cbn [set_vcc r_spspps]. now rewrite Hsp2.
  - rewrite !video_evs_app. unfold video_evs at 2 3. rewrite (filter_video_audio_ids evs1 Ha1), (filter_video_audio_ids nested Hna).
    cbn [app]. unfold video_evs at 2. cbn [filter]. destruct Hvid as [Hs _]. unfold is_video_ev, ev_sid. rewrite Hs, N.eqb_refl.
    rewrite map_app, Hev. cbn [map]. f_equal. f_equal. unfold vview_of. rewrite D1, D2, D3, D4. reflexivity.
Qed.

Lemma on_pop_vwalked d s evs ms m s' evs' :
  chained s evs -> on_pop_pure d s m = (s', evs') -> vwalked s evs ms -> vwalked s' (evs ++ evs') (ms ++ [m]).
Proof.
  intros Hc E Hv. unfold on_pop_pure in E.
  assert (Hskip : (rm_type m =? type_video) = false -> vwalked s evs ms -> vwalked s (evs ++ []) (ms ++ [m])).
  { intros Hne [A B]. rewrite app_nil_r. unfold vwalked. rewrite video_walk_snoc. unfold vstep. rewrite Hne. now split. }
  destruct (rm_type m =? type_audio) eqn:Et.
  - apply N.eqb_eq in Et.
    destruct (negb _); [injection E as <- <-; apply Hskip; [rewrite Et; reflexivity|exact Hv]|].
    now apply (feed_audio_vwalked s evs ms m).
  - destruct (rm_type m =? type_video) eqn:Ev.
    + apply N.eqb_eq in Ev. now apply (feed_video_vwalked d s evs ms m).
    + injection E as <- <-. now apply Hskip.
Qed.

Lemma pop_all_vwalked : forall ms ds s evs ms0 s' evs',
  chained s evs -> vwalked s evs ms0 -> pop_all_pure ds s ms = (s', evs') -> vwalked s' (evs ++ evs') (ms0 ++ ms).
Proof.
  induction ms as [|m t IH]; intros ds s evs ms0 s' evs' Hc Hv; cbn [pop_all_pure].
  - intros H. injection H as <- <-. now rewrite !app_nil_r.
  - destruct (on_pop_pure (hd false ds) s m) as [s1 e1] eqn:E1.
    destruct (pop_all_pure (tl ds) s1 t) as [s2 e2] eqn:E2. intros H. injection H as <- <-.
    rewrite app_assoc. replace (ms0 ++ m :: t) with ((ms0 ++ [m]) ++ t) by now rewrite <- app_assoc.
    eapply IH; [|eapply on_pop_vwalked; eassumption|exact E2]. eapply on_pop_chained; eassumption.
Qed.
