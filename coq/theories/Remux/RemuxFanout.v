(* C06, the whole path: an RTMP publisher into logic.Group, the two remuxers,
   and the group's fan-out to HTTP-TS and RTSP subscribers - with the HTTP-TS
   GOP cache and RtspConfig.OutWaitKeyFrameFlag.

   Nothing is modelled again here.  The remuxers are RemuxTsFilter /
   RemuxRtmp2Rtp, hls.Muxer as their observer is RemuxGroup (C10's model), and
   the subscribers are the consumers of Group/GroupFanout.v (the model C01 /
   C02 check against logic.Group): this file only turns what the remuxers
   call back - in the order broadcastByRtmpMsg makes the calls - into the
   HISTORY of events GroupFanout.step runs on, and says which bytes each label
   of that history stands for.  No proofs in this file.

   broadcastByRtmpMsg, message with a non-empty payload:
     rtmp2MpegtsRemuxer.FeedRtmpMessage  -> OnPatPmt / OnTsPackets  (EvPatPmt / EvTs boundary)
     rtmp2RtspRemuxer.FeedRtmpMsg        -> onSdpFromRemux / onRtpPacketFromRemux (EvSdp / EvRtp)
     the RTMP / FLV fan-out, stat.VideoCodec                        (EvPublish)
   an empty payload returns before the remuxers (EvPublish alone).

   Payload types: GroupFanout tells the two tracks of an RTSP session apart by
   the payload types its harness announces (96 video, 97 audio); lal compares
   with the types of the session's SDP, which here is the remuxer's own, so
   every packet of the remuxer belongs to a track.  The history therefore
   carries each packet with the type of its track written as 96 / 97
   ([fan_raw]); the label LRtp j stands for the j-th packet as the remuxer made
   it ([fo_items]). *)
From Coq Require Import ZArith.
From Lal Require Import Common.LBytes Common.Res Group.GroupMsg Group.GroupGopCache Group.GroupFanout Mpegts.TsPack
  Hls.HlsMuxer Codec.CodecSdp Rtp.RtpPacker Remux.RemuxRtmp2Ts Remux.RemuxTsFilter Remux.RemuxRtmp2Rtp Remux.RemuxGroup.
Open Scope N_scope.

Inductive fevent :=
| FMsg (m : rmsg)                                        (* an audio / video message of the publisher *)
| FMeta (acodec : option N) (rate : option Z) (m : rmsg) (* a metadata message; the two fields the RTSP remuxer reads, pre-parsed *)
| FJoinTs (id : N)                                       (* AddHttptsSubSession *)
| FJoinRtsp (id : N).                                    (* an RTSP player: DESCRIBE as soon as the group has an SDP, SETUP, PLAY *)

(* what happens at the group, in order *)
Inductive fout :=
| FoIn (start : bool)                          (* addIn / delIn *)
| FoPub (m : rmsg)
| FoPat (b : bytes)
| FoTs (e : tsev)
| FoSdp (raw : bytes) (v : GroupFanout.vcodec)
| FoRtp (audio : bool) (p : rtp_packet)
| FoJoin (k : ckind) (id : N)
| FoPlay (id : N).

Definition fan_raw (audio : bool) (p : rtp_packet) : bytes :=
  rtp_raw (mk_rtp (rp_mark p) (if audio then 97 else 96) (rp_seq p) (rp_ts p) (rp_ssrc p) (rp_payload p)).

Definition fo_ev (o : fout) : GroupFanout.ev :=
  match o with
  | FoIn true => GroupFanout.EvInStart
  | FoIn false => GroupFanout.EvInStop
  | FoPub m => GroupFanout.EvPublish m
  | FoPat _ => GroupFanout.EvPatPmt
  | FoTs e => GroupFanout.EvTs (te_boundary e)
  | FoSdp _ v => GroupFanout.EvSdp v
  | FoRtp audio p => GroupFanout.EvRtp (fan_raw audio p)
  | FoJoin k id => GroupFanout.EvJoin k id
  | FoPlay id => GroupFanout.EvPlay id
  end.

Definition fan_hist (outs : list fout) : list GroupFanout.ev := map fo_ev outs.

(* ---- the bytes behind the labels ---- *)
Inductive fitem :=
| ITs (b : bytes) | IPat (b : bytes) | ISdp (b : bytes) | IRtp (audio : bool) (raw : bytes) | INone.

Definition ts_tab (outs : list fout) : list bytes := flat_map (fun o => match o with FoTs e => [ev_bytes e] | _ => [] end) outs.
Definition pat_tab (outs : list fout) : list bytes := flat_map (fun o => match o with FoPat b => [b] | _ => [] end) outs.
Definition sdp_tab (outs : list fout) : list bytes := flat_map (fun o => match o with FoSdp b _ => [b] | _ => [] end) outs.
Definition rtp_tab (outs : list fout) : list (bool * bytes) :=
  flat_map (fun o => match o with FoRtp a p => [(a, rtp_raw p)] | _ => [] end) outs.

Definition fo_item (outs : list fout) (l : label) : fitem :=
  match l with
  | LTs j => match nth_error (ts_tab outs) j with Some b => ITs b | None => INone end
  | LPat k => match nth_error (pat_tab outs) k with Some b => IPat b | None => INone end
  | LSdp k => match nth_error (sdp_tab outs) k with Some b => ISdp b | None => INone end
  | LRtp j => match nth_error (rtp_tab outs) j with Some (a, b) => IRtp a b | None => INone end
  | _ => INone
  end.

Definition fo_items (outs : list fout) (ls : list label) : list fitem := map (fo_item outs) ls.

(* an HTTP-TS subscriber's byte stream *)
Definition item_ts_bytes (i : fitem) : bytes := match i with ITs b | IPat b => b | _ => [] end.
Definition ts_bytes_of (outs : list fout) (ls : list label) : bytes := concat (map item_ts_bytes (fo_items outs ls)).

(* ---- the publisher's side ---- *)
Record fstate := mk_fstate {
  f_x : remuxer;              (* rtmp2MpegtsRemuxer *)
  f_g : RemuxGroup.gstate;    (* hls.Muxer and hls.Clock (the subscriber list of that model stays empty) *)
  f_r : r2r;                  (* rtmp2RtspRemuxer *)
  f_sdp : bool;               (* the group has an SDP a DESCRIBE is answered with *)
  f_pend : list N }.          (* RTSP players that wait for it *)

Definition vcodec_of_pt (pt : Z) : GroupFanout.vcodec :=
  if (pt =? pt_avc)%Z then VAvc else if (pt =? pt_hevc)%Z then VHevc else VOther.

Section Run.
  Variable b64_enc hex_enc : bytes -> bytes.
  Variable tool : bytes.
  Variable hc : HlsMuxer.cfg.
  Variable rtsp : bool.       (* RtspConfig.Enable: the group runs an Rtmp2RtspRemuxer *)

  Definition of_tsout (o : tsout) : fout := match o with OutPatPmt b => FoPat b | OutTs e => FoTs e end.

  (* sdp.Pack refused: the zero context is stored, a DESCRIBE stays unanswered - no event *)
  Definition of_rout (r1 : r2r) (o : rout) : list fout :=
    match o with
    | RSdp (Some raw) => [FoSdp raw (vcodec_of_pt (q_vpt r1))]
    | RSdp None => []
    | RRtp a p => [FoRtp a p]
    end.

  Definition has_sdp (os : list rout) : bool :=
    existsb (fun o => match o with RSdp (Some _) => true | _ => false end) os.

  (* the players that were waiting describe, set up and play *)
  Definition attach (s : fstate) : fstate * list fout :=
    if f_sdp s then (mk_fstate (f_x s) (f_g s) (f_r s) true [], flat_map (fun id => [FoJoin KRtsp id; FoPlay id]) (f_pend s))
    else (s, []).

  Definition f_msg (s : fstate) (m : rmsg) (ri : rin) : fstate * list fout :=
    if lenN (rm_payload m) =? 0 then
      let '(x1, g1, _) := g_run hc (f_x s) (f_g s) [GNop] in
      (mk_fstate x1 g1 (f_r s) (f_sdp s) (f_pend s), [FoPub m])
    else
      let '(x1, g1, touts) := g_run hc (f_x s) (f_g s) [GMsg m] in
      let '(r1, routs) := if rtsp then feed_rtmp_msg b64_enc hex_enc tool true (f_r s) ri else (f_r s, []) in
      (mk_fstate x1 g1 r1 (f_sdp s || has_sdp routs) (f_pend s),
       map of_tsout touts ++ flat_map (of_rout r1) routs ++ [FoPub m]).

  Definition f_step (s : fstate) (e : fevent) : fstate * list fout :=
    let '(s1, o1) :=
      match e with
      | FMsg m => f_msg s m (RMsg m)
      | FMeta a r m => f_msg s m (RMeta a r)
      | FJoinTs id =>
        let '(x1, g1, _) := g_run hc (f_x s) (f_g s) [GNop] in
        (mk_fstate x1 g1 (f_r s) (f_sdp s) (f_pend s), [FoJoin KTs id])
      | FJoinRtsp id =>
        let '(x1, g1, _) := g_run hc (f_x s) (f_g s) [GNop] in
        (mk_fstate x1 g1 (f_r s) (f_sdp s) (f_pend s ++ [id]), [])
      end in
    let '(s2, o2) := attach s1 in (s2, o1 ++ o2).

  Fixpoint f_run (s : fstate) (evs : list fevent) : fstate * list fout :=
    match evs with
    | [] => (s, [])
    | e :: t => let '(s1, o1) := f_step s e in let '(s2, o2) := f_run s1 t in (s2, o1 ++ o2)
    end.

  Definition f_init (hls : bool) : fstate := mk_fstate remuxer_init (RemuxGroup.g_init hc hls) r2r_init false [].

  (* the publisher arrives, the events, the publisher leaves (Rtmp2MpegtsRemuxer.Dispose flushes the audio
     it still holds, hls.Muxer.Dispose closes the last fragment) *)
  Definition fan_outs (hls : bool) (evs : list fevent) : RemuxGroup.gstate * list fout :=
    let '(s, o) := f_run (f_init hls) evs in
    let '(g', o2) := g_finish hc (f_x s) (f_g s) in
    (g', FoIn true :: o ++ map of_tsout o2 ++ [FoIn false]).
End Run.

(* every consumer that ever existed with what it was sent *)
Definition fan_consumers (cf : GroupFanout.cfg) (outs : list fout) : list (N * ckind * list fitem) :=
  map (fun c => (c_id c, c_kind c, fo_items outs (c_out c))) (all_consumers (GroupFanout.run cf (fan_hist outs))).

(* the fan-out configuration of the end-to-end op: only the HTTP-TS GOP cache and the RTSP wait flag matter *)
Definition fan_cfg (ts_gop : nat) (rtsp_wait : bool) : GroupFanout.cfg :=
  {| cf_rtmp_enable := false; cf_rtmp_gop := 0; cf_rtmp_max := 0; cf_flv_enable := false; cf_flv_gop := 0; cf_flv_max := 0;
     cf_ts_gop := ts_gop; cf_ts_max := 0; cf_merge := 0; cf_record_flv := false; cf_chunk := 4096; cf_ext_at_limit := true;
     cf_rtsp_wait := rtsp_wait; cf_hook := false; cf_record_ts := false |}.
