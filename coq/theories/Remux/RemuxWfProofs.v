(* C06: every frame the remuxer emits is well-formed for C09's theorems (time
   stamps below 2^64, PID / stream id of its track, a non-empty byte string as
   buffer) as soon as the message payloads are byte strings.  Plumbing: byte
   strings stay byte strings through the AVCC splitter, the sequence-header
   converters, the NAL loop, the ADTS writer and the audio cache. *)
From Coq Require Import Lia ZifyN ZifyNat ZifyBool.
From Lal Require Import Common.LBytes Common.LBytesProofs Common.Res Group.GroupMsg Codec.CodecBits Codec.CodecAac
  Codec.CodecAacProofs Codec.CodecAvcSeqHeader Codec.CodecHevcSeqHeader Codec.CodecNalFraming Rtp.RtpPacker
  Mpegts.TsPack Mpegts.TsDemux Mpegts.TsPackProofs Mpegts.TsStreamProofs
  Remux.RemuxTsTimestamp Remux.RemuxRtmp2Ts Remux.RemuxTsFilter Remux.RemuxStepProofs.
Open Scope N_scope.
Ltac Zify.zify_post_hook ::= Z.div_mod_to_equations.

(* ---- byte strings ---- *)
Lemma bits_val8 b7 b6 b5 b4 b3 b2 b1 b0 : bits_val [b7; b6; b5; b4; b3; b2; b1; b0] < 256.
Proof. pose proof (bits_val_bound [b7; b6; b5; b4; b3; b2; b1; b0]) as H. exact H. Qed.

Lemma bytes_of_bits_ok : forall n l, (length l <= n)%nat -> bytes_ok (bytes_of_bits l).
Proof.
  induction n as [n IH] using lt_wf_ind. intros l Hl.
  destruct l as [|b7 [|b6 [|b5 [|b4 [|b3 [|b2 [|b1 [|b0 t]]]]]]]]; cbn [bytes_of_bits];
    try (constructor; [|constructor]; cbn [length Nat.sub repeat app]; apply bits_val8).
  - constructor.
  - apply bytes_ok_cons; [apply bits_val8|]. apply (IH (length t)); [cbn [length] in Hl; lia|lia].
Qed.

Lemma adts_pack_ok c n : bytes_ok (adts_pack c n).
Proof. unfold adts_pack. eapply bytes_of_bits_ok. reflexivity. Qed.

Lemma bytes_ok_nil : bytes_ok [].
Proof. constructor. Qed.

Lemma bytes_ok_concat l : Forall bytes_ok l -> bytes_ok (concat l).
Proof. induction 1; cbn [concat]; [constructor|now apply bytes_ok_app]. Qed.

Lemma annexb_join4_ok l : Forall bytes_ok l -> bytes_ok (annexb_join4 l).
Proof.
  intros H. unfold annexb_join4. apply bytes_ok_concat. apply Forall_map.
  eapply Forall_impl; [|exact H]. intros u Hu. apply bytes_ok_app; [repeat constructor|exact Hu].
Qed.

(* ---- the AVCC splitter hands out pieces of its input ---- *)
Lemma avcc_loop_ok : forall fuel rest, bytes_ok rest -> Forall bytes_ok (fst (avcc_loop fuel rest)).
Proof.
  induction fuel as [|f IH]; intros rest Hr; cbn [avcc_loop]; [constructor|].
  unfold split_exact. destruct (Nat.leb 4 (length rest)); [|constructor].
  set (r := skipn 4 rest). assert (Hrr : bytes_ok r) by (apply bytes_ok_skipn; exact Hr).
  destruct r as [|x r'] eqn:Er; [constructor|]. rewrite <- Er in *. clear Er x r'.
  destruct (be_get (firstn 4 rest) <? lenN r).
  - destruct (be_get (firstn 4 rest) =? 0); [now apply IH|].
    pose proof (IH (skipn (N.to_nat (be_get (firstn 4 rest))) r) (bytes_ok_skipn _ _ Hrr)) as H.
    destruct (avcc_loop f _) as [us e]. cbn [fst] in *. constructor; [now apply bytes_ok_firstn|exact H].
  - destruct (be_get (firstn 4 rest) =? lenN r).
    + destruct (be_get (firstn 4 rest) =? 0); [now apply IH|]. constructor; [exact Hrr|constructor].
    + constructor; [exact Hrr|constructor].
Qed.

Lemma iterate_avcc_ok body nals e : bytes_ok body -> iterate_nalu_avcc body = (nals, e) -> Forall bytes_ok nals.
Proof. intros Hb H. pose proof (avcc_loop_ok (S (length body)) body Hb) as Ho. unfold iterate_nalu_avcc in H. now rewrite H in Ho. Qed.

(* ---- the NAL loop ---- *)
Definition opt_ok (o : option bytes) : Prop := match o with Some b => bytes_ok b | None => True end.

Lemma video_loop_ok c : forall nals cache vps sps pps aud_sent sent out cache' out',
  Forall bytes_ok nals -> opt_ok cache -> bytes_ok vps -> bytes_ok sps -> bytes_ok pps -> bytes_ok out ->
  video_loop c nals cache vps sps pps aud_sent sent out = (cache', out') ->
  opt_ok cache' /\ opt_ok out'.
Proof.
  induction nals as [|nal t IH]; intros cache vps sps pps aud_sent sent out cache' out' Hn Hc Hv Hs Hp Ho E.
  - cbn in E. injection E as <- <-. now split.
  - inversion Hn as [|? ? Hnal Ht]; subst. cbn [video_loop] in E.
    assert (Hsc3 : bytes_ok start_code3) by repeat constructor.
    assert (Hsc4 : bytes_ok start_code4) by repeat constructor.
    assert (Haud : bytes_ok (match c with Avc => avc_aud_nalu | Hevc => hevc_aud_nalu end))
      by (destruct c; repeat constructor).
    assert (Hpick : forall o, bytes_ok (if nonempty o then start_code3 else start_code4))
      by (intros o; destruct (nonempty o); assumption).
    destruct c.
    + destruct (nal_type_of Avc nal =? 9); [exact (IH _ _ _ _ _ _ _ _ _ Ht Hc Hv Hs Hp Ho E)|].
      destruct (nal_type_of Avc nal =? 7); [exact (IH _ _ _ _ _ _ _ _ _ Ht Hc Hv Hnal Hp Ho E)|].
      destruct (nal_type_of Avc nal =? 8).
      { refine (IH _ _ _ _ _ _ _ _ _ Ht _ Hv Hs Hnal Ho E).
        destruct (nonempty sps && nonempty nal); [|exact Hc]. cbn [opt_ok]. repeat apply bytes_ok_app; assumption. }
      assert (Ho1 : bytes_ok (if aud_sent then out else out ++ avc_aud_nalu))
        by (destruct aud_sent; [assumption|now apply bytes_ok_app]).
      destruct ((nal_type_of Avc nal =? 5) && negb sent).
      * destruct cache as [p|]; [|injection E as <- <-; now split].
        refine (IH _ _ _ _ _ _ _ _ _ Ht Hc Hv Hs Hp _ E). repeat apply bytes_ok_app; try assumption. apply Hpick.
      * refine (IH _ _ _ _ _ _ _ _ _ Ht Hc Hv Hs Hp _ E). repeat apply bytes_ok_app; try assumption. apply Hpick.
    + destruct ((nal_type_of Hevc nal =? 39) || (nal_type_of Hevc nal =? 40)); [exact (IH _ _ _ _ _ _ _ _ _ Ht Hc Hv Hs Hp Ho E)|].
      destruct (nal_type_of Hevc nal =? 35); [exact (IH _ _ _ _ _ _ _ _ _ Ht Hc Hv Hs Hp Ho E)|].
      destruct (nal_type_of Hevc nal =? 32); [exact (IH _ _ _ _ _ _ _ _ _ Ht Hc Hnal Hs Hp Ho E)|].
      destruct (nal_type_of Hevc nal =? 33); [exact (IH _ _ _ _ _ _ _ _ _ Ht Hc Hv Hnal Hp Ho E)|].
      destruct (nal_type_of Hevc nal =? 34).
      { refine (IH _ _ _ _ _ _ _ _ _ Ht _ Hv Hs Hnal Ho E).
        destruct (nonempty vps && nonempty sps && nonempty nal); [|exact Hc]. cbn [opt_ok]. repeat apply bytes_ok_app; assumption. }
      assert (Ho1 : bytes_ok (if aud_sent then out else out ++ hevc_aud_nalu))
        by (destruct aud_sent; [assumption|now apply bytes_ok_app]).
      destruct ((16 <=? nal_type_of Hevc nal) && (nal_type_of Hevc nal <=? 23) && negb sent).
      * destruct cache as [p|]; [|injection E as <- <-; now split].
        refine (IH _ _ _ _ _ _ _ _ _ Ht Hc Hv Hs Hp _ E). repeat apply bytes_ok_app; try assumption. apply Hpick.
      * refine (IH _ _ _ _ _ _ _ _ _ Ht Hc Hv Hs Hp _ E). repeat apply bytes_ok_app; try assumption. apply Hpick.
Qed.

(* ---- the sequence-header converters ---- *)
Lemma read_ps_list_ok : forall cnt p items r, bytes_ok p ->
  read_ps_list cnt p = Ok (items, r) -> Forall bytes_ok items /\ bytes_ok r.
Proof.
  induction cnt as [|cnt IH]; intros p items r Hp H; cbn [read_ps_list] in H.
  - injection H as <- <-. split; [constructor|exact Hp].
  - unfold split_exact in H. destruct (Nat.leb 2 (length p)); [|discriminate].
    unfold split_exactN in H. destruct (be_get (firstn 2 p) <=? lenN (skipn 2 p)); [|discriminate].
    set (r0 := skipn 2 p) in *. assert (Hr0 : bytes_ok r0) by (apply bytes_ok_skipn; exact Hp).
    destruct (read_ps_list cnt (skipn (N.to_nat (be_get (firstn 2 p))) r0)) as [[items' r'']|e|s] eqn:E; cbn [bind] in H; try discriminate.
    injection H as <- <-. destruct (IH _ _ _ (bytes_ok_skipn _ _ Hr0) E) as [H1 H2].
    split; [constructor; [now apply bytes_ok_firstn|exact H1]|exact H2].
Qed.

Lemma avc_seq_header2annexb_ok p b : bytes_ok p -> avc_seq_header2annexb p = Ok b -> bytes_ok b.
Proof.
  intros Hp. unfold avc_seq_header2annexb, avc_parse_seq_header_list.
  destruct (lenN p <? 5); [discriminate|]. destruct (negb _); [discriminate|].
  unfold split_exact. destruct (Nat.leb 10 (length p)); [|discriminate].
  assert (Hr : bytes_ok (skipn 10 p)) by (apply bytes_ok_skipn; exact Hp).
  destruct (skipn 10 p) as [|x r1]; [discriminate|]. apply bytes_ok_app_inv with (a := [x]) in Hr. destruct Hr as [_ Hr1].
  destruct (read_ps_list _ r1) as [[spss r2]|e|s] eqn:E1; cbn [bind]; try discriminate.
  destruct (read_ps_list_ok _ _ _ _ Hr1 E1) as [Hs Hr2].
  destruct r2 as [|x2 r3]; [discriminate|]. apply bytes_ok_app_inv with (a := [x2]) in Hr2. destruct Hr2 as [_ Hr3].
  destruct (read_ps_list _ r3) as [[ppss r4]|e|s] eqn:E2; cbn [bind]; try discriminate.
  destruct (read_ps_list_ok _ _ _ _ Hr3 E2) as [Hq _].
  intros H. injection H as <-. apply bytes_ok_app; now apply annexb_join4_ok.
Qed.

Lemma slice_chk_ok p a b d : bytes_ok p -> slice_chk p a b = Ok d -> bytes_ok d.
Proof.
  intros Hp. unfold slice_chk. destruct ((a <=? b) && (b <=? lenN p)); [|discriminate].
  intros H. injection H as <-. apply bytes_ok_firstn, bytes_ok_skipn, Hp.
Qed.

Lemma hevc_record_array_ok p i t need d l : bytes_ok p -> hevc_record_array p i t need = Ok (d, l) -> bytes_ok d.
Proof.
  intros Hp. unfold hevc_record_array.
  destruct (idx p i) as [x|e|s]; cbn [bind]; try discriminate.
  destruct (negb _); [discriminate|].
  destruct (u16_at p (i + 1)) as [n|e|s]; cbn [bind]; try discriminate.
  destruct (negb _); [discriminate|].
  destruct (u16_at p (i + 3)) as [ll|e|s]; cbn [bind]; try discriminate.
  destruct (lenN p <? need + ll); [discriminate|].
  destruct (slice_chk p (i + 5) (i + 5 + ll)) as [dd|e|s] eqn:E; cbn [bind]; try discriminate.
  intros H. injection H as <- _. exact (slice_chk_ok _ _ _ _ Hp E).
Qed.

Lemma hevc_parse_record_ok fx p v s q : bytes_ok p -> hevc_parse_record_f fx p = Ok (v, s, q) ->
  bytes_ok v /\ bytes_ok s /\ bytes_ok q.
Proof.
  intros Hp. unfold hevc_parse_record_f.
  destruct (fx && (lenN p <? 33)); [discriminate|].
  destruct (idx p 27) as [na|e|ss]; cbn [bind]; try discriminate.
  destruct (negb _); [discriminate|].
  destruct (hevc_record_array p 28 32 33) as [[v0 vl]|e|ss] eqn:E1; cbn [bind]; try discriminate.
  destruct (lenN p <? 38 + vl); [discriminate|].
  destruct (hevc_record_array p (33 + vl) 33 (38 + vl)) as [[s0 sl]|e|ss] eqn:E2; cbn [bind]; try discriminate.
  destruct (lenN p <? 43 + vl + sl); [discriminate|].
  destruct (hevc_record_array p (38 + vl + sl) 34 (43 + vl + sl)) as [[q0 ql]|e|ss] eqn:E3; cbn [bind]; try discriminate.
  intros H. injection H as <- <- <-.
  repeat split; eapply hevc_record_array_ok; eassumption.
Qed.

Lemma hevc_annexb_loop_ok fx : forall fuel p i acc r, bytes_ok p ->
  bytes_ok (fst (fst acc)) -> bytes_ok (snd (fst acc)) -> bytes_ok (snd acc) ->
  hevc_annexb_loop fx fuel p i acc = Ok r ->
  bytes_ok (fst (fst r)) /\ bytes_ok (snd (fst r)) /\ bytes_ok (snd r).
Proof.
  induction fuel as [|f IH]; intros p i acc r Hp Ha Hb Hc; cbn [hevc_annexb_loop].
  - destruct (negb (i + 4 <? lenN p)); [|discriminate]. intros H. injection H as <-. now repeat split.
  - destruct (negb (i + 4 <? lenN p)); [intros H; injection H as <-; now repeat split|].
    destruct (index_sc4 (skipn (N.to_nat i) p) 0) as [start|]; [|intros H; injection H as <-; now repeat split].
    set (i' := i + start).
    set (e := match index_sc4 (skipn (N.to_nat (i' + 4)) p) 0 with Some k => k + 4 | None => lenN p - i' end).
    set (nal := firstn (N.to_nat (e - 4)) (skipn (N.to_nat (i' + 4)) p)).
    assert (Hnal : bytes_ok nal) by (apply bytes_ok_firstn, bytes_ok_skipn, Hp).
    destruct nal as [|b t] eqn:En.
    + destruct fx; [|discriminate]. now apply IH.
    + rewrite <- En in *. destruct acc as [[v s] q]. cbn [fst snd] in *.
      apply IH; try assumption;
        destruct (N.land b 126 / 2 =? 32); cbn [fst snd]; try assumption; try (now apply bytes_ok_app);
        destruct (N.land b 126 / 2 =? 33); cbn [fst snd]; try assumption; try (now apply bytes_ok_app);
        destruct (N.land b 126 / 2 =? 34); cbn [fst snd]; try assumption; try (now apply bytes_ok_app).
Qed.

Lemma hevc_parse_seq_header_ok p v s q : bytes_ok p -> hevc_parse_seq_header p = Ok (v, s, q) ->
  bytes_ok v /\ bytes_ok s /\ bytes_ok q.
Proof.
  intros Hp. unfold hevc_parse_seq_header, hevc_parse_seq_header_f.
  destruct (lenN p <? 5); [discriminate|]. destruct (negb _); [discriminate|]. destruct (lenN p <? 33); [discriminate|].
  destruct (hevc_parse_record_f true p) as [[[v0 s0] q0]|e|ss] eqn:E.
  - intros H. injection H as <- <- <-. exact (hevc_parse_record_ok _ _ _ _ _ Hp E).
  - unfold hevc_parse_annexb_record_f.
    destruct (hevc_annexb_loop true (length p) p 0 ([], [], [])) as [[[v1 s1] q1]|e1|s1'] eqn:E2; cbn [bind]; try discriminate.
    destruct (hevc_annexb_loop_ok true _ _ _ ([], [], []) _ Hp bytes_ok_nil bytes_ok_nil bytes_ok_nil E2) as (H1 & H2 & H3).
    cbn [fst snd] in *.
    destruct v1; [discriminate|]. destruct s1; [discriminate|]. destruct q1; [discriminate|].
    intros H. injection H as <- <- <-. now repeat split.
  - discriminate.
Qed.

Lemma hsc4_join_ok v s q : bytes_ok v -> bytes_ok s -> bytes_ok q -> bytes_ok (hsc4 ++ v ++ hsc4 ++ s ++ hsc4 ++ q).
Proof. intros. assert (bytes_ok hsc4) by repeat constructor. repeat apply bytes_ok_app; assumption. Qed.

Lemma hevc_seq_header2annexb_ok p b : bytes_ok p -> hevc_seq_header2annexb p = Ok b -> bytes_ok b.
Proof.
  intros Hp. unfold hevc_seq_header2annexb.
  destruct (hevc_parse_seq_header p) as [[[v s] q]|e|ss] eqn:E; cbn [bind]; try discriminate.
  intros H. injection H as <-. destruct (hevc_parse_seq_header_ok _ _ _ _ Hp E) as (H1 & H2 & H3). now apply hsc4_join_ok.
Qed.

Lemma hevc_enhanced2annexb_ok p b : bytes_ok p ->
  (let* (v, sp, q) := hevc_parse_enhanced_seq_header p in Ok (hsc4 ++ v ++ hsc4 ++ sp ++ hsc4 ++ q)) = Ok b -> bytes_ok b.
Proof.
  intros Hp. unfold hevc_parse_enhanced_seq_header, hevc_parse_enhanced_seq_header_f.
  destruct (idx p 0) as [x|e|ss]; cbn [bind]; try discriminate.
  destruct (N.land x 15 =? 0); [|discriminate].
  destruct (hevc_parse_record_f true p) as [[[v s] q]|e|ss] eqn:E; cbn [bind]; try discriminate.
  intros H. injection H as <-. destruct (hevc_parse_record_ok _ _ _ _ _ Hp E) as (H1 & H2 & H3). now apply hsc4_join_ok.
Qed.

(* ---- the invariant ---- *)
Definition two64 : N := 18446744073709551616.
Definition st_wf (s : r2t) : Prop := opt_ok (r_spspps s) /\ bytes_ok (r_acache s) /\ r_afirst s < two64.
Definition ev_wf (e : tsev) : Prop := frame_wf_nocc (te_frame e).
Definition track_ids (f : frame) : Prop :=
  (f_sid f = sid_audio /\ f_pid f = pid_audio) \/ (f_sid f = sid_video /\ f_pid f = pid_video).

Lemma st_wf_init : st_wf r2t_init.
Proof. repeat split; try constructor. Qed.

Lemma rebase_le b d : d < two64 -> snd (rebase b d) < two64.
Proof.
  unfold rebase, rebase_dts, two64, ts_clock. intros H.
  destruct (b =? max_u64); cbn [snd]; destruct (d <? _); try lia;
    (eapply N.lt_trans; [apply N.mod_lt; discriminate|reflexivity]).
Qed.

Lemma u64_lt x : u64 x < two64.
Proof. unfold u64, two64. apply N.mod_lt. discriminate. Qed.

Lemma core_wf n s f cts s' ev :
  st_wf s -> f_pts f < two64 -> f_dts f < two64 -> track_ids f -> bytes_ok (f_raw f) -> f_raw f <> [] ->
  on_frame_core n s f cts = (s', ev) ->
  st_wf s' /\ ev_wf ev /\ r_acache s' = r_acache s /\ r_afirst s' = r_afirst s /\ r_spspps s' = r_spspps s
  /\ r_asc s' = r_asc s /\ r_vcc s' = r_vcc s /\ r_acc s' = r_acc s.
Proof.
  intros (H1 & H2 & H3) Hp Hd Hid Hb Hne. unfold on_frame_core.
  destruct (tsfilter_do (r_tsf s) (f_sid f) (f_dts f) (f_pts f) cts) as [[tf dd] pp] eqn:Et.
  destruct (pack _) as [pk cc']. intros H. injection H as <- <-.
  assert (Hdd : dd < two64 /\ pp < two64).
  { revert Et. unfold tsfilter_do.
    destruct (f_sid f =? sid_audio).
    - destruct (rebase (tf_abase (r_tsf s)) (f_dts f)) as [b d] eqn:Er. intros H. injection H as _ <- <-.
      pose proof (rebase_le (tf_abase (r_tsf s)) (f_dts f) Hd) as Hl. rewrite Er in Hl. cbn [snd] in Hl.
      split; [exact Hl|apply u64_lt].
    - destruct (f_sid f =? sid_video).
      + destruct (rebase (tf_vbase (r_tsf s)) (f_dts f)) as [b d] eqn:Er. intros H. injection H as _ <- <-.
        pose proof (rebase_le (tf_vbase (r_tsf s)) (f_dts f) Hd) as Hl. rewrite Er in Hl. cbn [snd] in Hl.
        split; [exact Hl|apply u64_lt].
      + intros H. injection H as _ <- <-. now split. }
  split; [repeat split; assumption|]. split; [|repeat split].
  unfold ev_wf, frame_wf_nocc. cbn [te_frame with_times f_pts f_dts f_pid f_sid f_raw].
  destruct Hdd as [Hdd Hpp]. fold two64.
  destruct Hid as [(Hs & Hpi)|(Hs & Hpi)]; rewrite Hs, Hpi; repeat split; try assumption; reflexivity.
Qed.

Lemma flushed_wf n s s' evs : st_wf s -> flushed n s = (s', evs) -> st_wf s' /\ Forall ev_wf evs.
Proof.
  intros Hw. unfold flushed. destruct (audio_cache_empty s) eqn:Ee.
  { intros H. injection H as <- <-. split; [exact Hw|constructor]. }
  destruct (on_frame_core n (set_acache s [] (r_afirst s)) (audio_frame s) 0) as [s1 ev] eqn:Ec. intros H. injection H as <- <-.
  destruct Hw as (H1 & H2 & H3).
  assert (Hw0 : st_wf (set_acache s [] (r_afirst s))) by (repeat split; [exact H1|constructor|exact H3]).
  assert (Hne : f_raw (audio_frame s) <> []).
  { cbn. unfold audio_cache_empty in Ee. destruct (r_acache s); [discriminate|congruence]. }
  destruct (core_wf n _ (audio_frame s) 0 s1 ev Hw0 H3 H3 (or_introl (conj eq_refl eq_refl)) H2 Hne Ec)
    as ((A1 & A2 & A3) & Hev & _).
  split; [repeat split; assumption|]. constructor; [exact Hev|constructor].
Qed.

Lemma on_frame_pure_wf d s f cts s2 evs2 ev :
  st_wf s -> f_pts f < two64 -> f_dts f < two64 -> track_ids f -> bytes_ok (f_raw f) -> f_raw f <> [] ->
  on_frame_pure d s f cts = (s2, evs2, ev) -> st_wf s2 /\ Forall ev_wf evs2.
Proof.
  intros Hw Hp Hd Hid Hb Hne. unfold on_frame_pure.
  destruct (on_frame_core false s f cts) as [s1 ev0] eqn:Ec.
  destruct (core_wf _ _ _ _ _ _ Hw Hp Hd Hid Hb Hne Ec) as (Hw1 & Hev & _).
  destruct d.
  - destruct (flushed true s1) as [s2' nested] eqn:Ef. intros H. injection H as <- <- <-.
    destruct (flushed_wf _ _ _ _ Hw1 Ef) as [Hw2 Hn]. split; [exact Hw2|].
    apply Forall_app. split; [exact Hn|]. constructor; [exact Hev|constructor].
  - intros H. injection H as <- <- <-. split; [exact Hw1|]. constructor; [exact Hev|constructor].
Qed.

Definition msg_ok (m : rmsg) : Prop := bytes_ok (rm_payload m).

Lemma st_wf_set_spspps s c : st_wf s -> opt_ok c -> st_wf (set_spspps s c).
Proof. intros (H1 & H2 & H3) Hc. repeat split; assumption. Qed.

Lemma st_wf_set_acache s c f : st_wf s -> bytes_ok c -> f < two64 -> st_wf (set_acache s c f).
Proof. intros (H1 & H2 & H3) Hc Hf. repeat split; assumption. Qed.

Lemma st_wf_set_asc s a : st_wf s -> st_wf (set_asc s a).
Proof. intros (H1 & H2 & H3). repeat split; assumption. Qed.

Lemma res_to_opt_ok (r : res bytes) : (forall b, r = Ok b -> bytes_ok b) -> opt_ok (res_to_opt r).
Proof. intros H. destruct r; cbn; auto. Qed.

Lemma feed_video_wf d s m s' evs :
  st_wf s -> msg_ok m -> feed_video_pure d s m = (s', evs) -> st_wf s' /\ Forall ev_wf evs.
Proof.
  intros Hw Hm. unfold feed_video_pure.
  destruct (lenN (rm_payload m) <=? 5); [intros H; injection H as <- <-; split; [exact Hw|constructor]|].
  destruct (negb _); [intros H; injection H as <- <-; split; [exact Hw|constructor]|].
  destruct (is_avc_key_seq_header m).
  { intros H. injection H as <- <-. split; [|constructor]. apply st_wf_set_spspps; [exact Hw|].
    apply res_to_opt_ok. intros b. now apply avc_seq_header2annexb_ok. }
  destruct (is_hevc_key_seq_header m).
  { destruct (is_ext_header m); intros H; injection H as <- <-; (split; [|constructor]); (apply st_wf_set_spspps; [exact Hw|]);
      apply res_to_opt_ok; intros b; [now apply hevc_enhanced2annexb_ok|now apply hevc_seq_header2annexb_ok]. }
  destruct (enhanced_too_short m); [intros H; injection H as <- <-; split; [exact Hw|constructor]|].
  set (body := if (video_codec_id m =? codec_id_hevc) && is_enhanced_hevc_nalu m
               then skipn (enhanced_nalu_index m) (rm_payload m) else skipn 5 (rm_payload m)).
  assert (Hbody : bytes_ok body) by (subst body; destruct (_ && _); apply bytes_ok_skipn; exact Hm).
  destruct (iterate_nalu_avcc body) as [nals [e|]] eqn:Ei; [intros H; injection H as <- <-; split; [exact Hw|constructor]|].
  pose proof (iterate_avcc_ok _ _ _ Hbody Ei) as Hnals.
  destruct (video_loop _ nals (r_spspps s) [] [] [] false false []) as [cache out] eqn:Ev.
  destruct Hw as (H1 & H2 & H3).
  destruct (video_loop_ok _ _ _ _ _ _ _ _ _ _ _ Hnals H1 bytes_ok_nil bytes_ok_nil bytes_ok_nil bytes_ok_nil Ev) as [Hc Hout].
  assert (Hw0 : st_wf (set_spspps s cache)) by (repeat split; assumption).
  destruct out as [[|b out]|]; try (intros H; injection H as <- <-; split; [exact Hw0|constructor]).
  set (s0 := set_spspps s cache) in *. set (dts := u64 (rm_ts m * 90)).
  destruct (if negb (audio_cache_empty s0) && (r_afirst s0 + max_audio_delay_by_video <? dts)
            then flushed false s0 else (s0, [])) as [s1 evs1] eqn:Ef.
  assert (Hw1 : st_wf s1 /\ Forall ev_wf evs1).
  { destruct (negb (audio_cache_empty s0) && (r_afirst s0 + max_audio_delay_by_video <? dts)).
    - exact (flushed_wf _ _ _ _ Hw0 Ef).
    - injection Ef as <- <-. split; [exact Hw0|constructor]. }
  set (f := mk_frame _ _ _ _ _ _ _).
  destruct (on_frame_pure d s1 f (video_cts m)) as [[s2 evs2] ev] eqn:Eo.
  intros H. injection H as <- <-.
  destruct (on_frame_pure_wf d s1 f (video_cts m) s2 evs2 ev (proj1 Hw1)) as [Hw2 He2]; try exact Eo.
  - apply u64_lt.
  - apply u64_lt.
  - right. now split.
  - exact Hout.
  - discriminate.
  - split; [destruct Hw2 as (A1 & A2 & A3); repeat split; assumption|].
    apply Forall_app. split; [exact (proj2 Hw1)|exact He2].
Qed.

Lemma feed_audio_wf s m s' evs :
  st_wf s -> msg_ok m -> feed_audio_pure s m = (s', evs) -> st_wf s' /\ Forall ev_wf evs.
Proof.
  intros Hw Hm. unfold feed_audio_pure.
  destruct (lenN (rm_payload m) <=? 2); [intros H; injection H as <- <-; split; [exact Hw|constructor]|].
  destruct (audio_codec_id m =? sound_aac).
  - destruct (pb m 1 =? 0).
    { intros H. injection H as <- <-. split; [|constructor]. now apply st_wf_set_asc. }
    destruct (r_asc s) as [asc|]; [|intros H; injection H as <- <-; split; [exact Hw|constructor]].
    destruct (if negb (audio_cache_empty s) && (r_afirst s + max_audio_delay_by_audio <? u64 (rm_ts m * 90))
              then flushed false s else (s, [])) as [s1 evs1] eqn:Ef.
    assert (Hw1 : st_wf s1 /\ Forall ev_wf evs1).
    { destruct (negb (audio_cache_empty s) && (r_afirst s + max_audio_delay_by_audio <? u64 (rm_ts m * 90))).
      - exact (flushed_wf _ _ _ _ Hw Ef).
      - injection Ef as <- <-. split; [exact Hw|constructor]. }
    destruct Hw1 as (Hw1 & He).
    set (hdr := adts_pack asc (u32 (lenN (rm_payload m) + 4294967294))).
    assert (Hh : bytes_ok hdr) by apply adts_pack_ok. clearbody hdr.
    intros H. injection H as <- <-. split; [|exact He].
    apply st_wf_set_acache; [exact Hw1| |].
    + destruct Hw1 as (_ & A2 & _). repeat apply bytes_ok_app; [exact A2|exact Hh|exact (bytes_ok_skipn 2 _ Hm)].
    + destruct Hw1 as (_ & _ & A3). destruct (audio_cache_empty s1); [apply u64_lt|exact A3].
  - intros Ef. refine (flushed_wf _ _ _ _ _ Ef). apply st_wf_set_acache; [exact Hw| |apply u64_lt].
    destruct Hw as (_ & H2 & _). apply bytes_ok_app; [exact H2|exact (bytes_ok_skipn 1 _ Hm)].
Qed.

Lemma on_pop_wf d s m s' evs :
  st_wf s -> msg_ok m -> on_pop_pure d s m = (s', evs) -> st_wf s' /\ Forall ev_wf evs.
Proof.
  intros Hw Hm. unfold on_pop_pure. destruct (rm_type m =? type_audio).
  - destruct (negb _); [intros H; injection H as <- <-; split; [exact Hw|constructor]|]. now apply feed_audio_wf.
  - destruct (rm_type m =? type_video); [now apply feed_video_wf|].
    intros H; injection H as <- <-; split; [exact Hw|constructor].
Qed.

Lemma pop_all_wf : forall ms ds s s' evs,
  st_wf s -> Forall msg_ok ms -> pop_all_pure ds s ms = (s', evs) -> st_wf s' /\ Forall ev_wf evs.
Proof.
  induction ms as [|m t IH]; intros ds s s' evs Hw Hm; cbn [pop_all_pure].
  - intros H. injection H as <- <-. split; [exact Hw|constructor].
  - inversion Hm as [|? ? Hm1 Hmt]; subst.
    destruct (on_pop_pure (hd false ds) s m) as [s1 e1] eqn:E1.
    destruct (pop_all_pure (tl ds) s1 t) as [s2 e2] eqn:E2. intros H. injection H as <- <-.
    destruct (on_pop_wf _ _ _ _ _ Hw Hm1 E1) as [Hw1 He1].
    destruct (IH _ _ _ _ Hw1 Hmt E2) as [Hw2 He2]. split; [exact Hw2|]. apply Forall_app. now split.
Qed.
