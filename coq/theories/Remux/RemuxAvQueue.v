(* C07: rtsp.AvPacketQueue (pkg/rtsp/avpacket_queue.go) on top of
   naza circularqueue.CircularQueue (capacity 128: PushBack on a full queue
   fails and the failure is ignored by the caller).  Both timestamp modes:
   [rot = true] is TimestampFilterHandleRotateFlag (the default),
   [rot = false] the base-timestamp mode with PopAllByForce.
   int64 arithmetic is modelled in Z without wrap-around (timestamps are
   milliseconds; |ts| < 2^62 is assumed).  No proofs here. *)
From Lal Require Export Common.LBytes Common.Res Remux.RemuxAv2Rtmp.
Open Scope Z_scope.

Definition max_queue_size : nat := 128.

Record aq := mk_aq {
  q_a : list avpkt; q_v : list avpkt;
  q_abase : Z; q_vbase : Z;
  q_apo : Z; q_vpo : Z;        (* audio/videoPrevOriginTs *)
  q_apm : Z; q_vpm : Z;        (* audio/videoPrevModTs *)
  q_api : Z; q_vpi : Z }.      (* audio/videoPrevIntervalTs *)

Definition aq_init : aq := mk_aq [] [] (-1) (-1) (-1) (-1) (-1) (-1) (-1) (-1).

Definition with_ts (p : avpkt) (ts : Z) : avpkt := mk_av (av_pt p) ts (av_payload p).

(* CircularQueue.PushBack: error (ignored) when Full *)
Definition q_push (q : list avpkt) (p : avpkt) : list avpkt :=
  if Nat.ltb (length q) max_queue_size then q ++ [p] else q.
Definition q_full (q : list avpkt) : bool := Nat.leb max_queue_size (length q).

(* the closure fn of adjustTsHandleRotate on one track:
   (prevOriginTs, prevModTs, prevIntervalTs, pkt.Timestamp) -> the same four afterwards *)
Definition rot_fn (po pm pi ts : Z) : Z * Z * Z * Z :=
  if po =? -1 then (ts, 0, pi, 0)
  else
    let interval := ts - po in
    let '(ts1, pi1) := if interval <? -1000 then (pm + pi, pi) else (pm + interval, interval) in
    let ts2 := if ts1 <? 0 then 0 else ts1 in
    (ts, ts2, pi1, ts2).

(* popAllAudio / popAllVideo / PopAllByForce *)
Definition pop_all_by_force (s : aq) : aq * list avpkt :=
  let s0 := mk_aq (q_a s) (q_v s) (-1) (-1) (q_apo s) (q_vpo s) (q_apm s) (q_vpm s) (q_api s) (q_vpi s) in
  match q_a s, q_v s with
  | [], [] => (s0, [])
  | [], v => (mk_aq [] [] (-1) (-1) (q_apo s) (q_vpo s) (q_apm s) (q_vpm s) (q_api s) (q_vpi s), v)
  | a, [] => (mk_aq [] [] (-1) (-1) (q_apo s) (q_vpo s) (q_apm s) (q_vpm s) (q_api s) (q_vpi s), a)
  | _, _ => (s0, [])
  end.

(* adjustTsHandleRotate / adjustTs: the state with the packet pushed, what
   PopAllByForce handed out, and the packet with its adjusted timestamp *)
Definition adjust (rot : bool) (s : aq) (p : avpkt) : aq * list avpkt * avpkt :=
  let video := is_video_pt (av_pt p) in
  if rot then
    if video then
      let '(po, pm, pi, ts) := rot_fn (q_vpo s) (q_vpm s) (q_vpi s) (av_ts p) in
      let p' := with_ts p ts in
      (mk_aq (q_a s) (q_push (q_v s) p') (q_abase s) (q_vbase s) (q_apo s) po (q_apm s) pm (q_api s) pi, [], p')
    else
      let '(po, pm, pi, ts) := rot_fn (q_apo s) (q_apm s) (q_api s) (av_ts p) in
      let p' := with_ts p ts in
      (mk_aq (q_push (q_a s) p') (q_v s) (q_abase s) (q_vbase s) po (q_vpo s) pm (q_vpm s) pi (q_vpi s), [], p')
  else
    if video then
      let (s1, out) := if av_ts p <? q_vbase s then pop_all_by_force s else (s, []) in
      let vbase := if q_vbase s1 =? -1 then av_ts p else q_vbase s1 in
      let p' := with_ts p (av_ts p - vbase) in
      (mk_aq (q_a s1) (q_push (q_v s1) p') (q_abase s1) vbase (q_apo s1) (q_vpo s1) (q_apm s1) (q_vpm s1) (q_api s1) (q_vpi s1), out, p')
    else
      let (s1, out) := if av_ts p <? q_abase s then pop_all_by_force s else (s, []) in
      let abase := if q_abase s1 =? -1 then av_ts p else q_abase s1 in
      let p' := with_ts p (av_ts p - abase) in
      (mk_aq (q_push (q_a s1) p') (q_v s1) abase (q_vbase s1) (q_apo s1) (q_vpo s1) (q_apm s1) (q_vpm s1) (q_api s1) (q_vpi s1), out, p').

Definition set_queues (s : aq) (a v : list avpkt) : aq :=
  mk_aq a v (q_abase s) (q_vbase s) (q_apo s) (q_vpo s) (q_apm s) (q_vpm s) (q_api s) (q_vpi s).

(* for !audioQueue.Empty() && !videoQueue.Empty(): the smaller timestamp goes
   first; on a tie the queue that did NOT just receive the packet *)
Fixpoint merge_loop (fuel : nat) (cur_is_audio : bool) (a v : list avpkt) (acc : list avpkt)
  : list avpkt * list avpkt * list avpkt :=
  match fuel with
  | O => (a, v, acc)
  | S f =>
      match a, v with
      | pa :: ra, pv :: rv =>
          if av_ts pa <? av_ts pv then merge_loop f cur_is_audio ra v (acc ++ [pa])
          else if av_ts pv <? av_ts pa then merge_loop f cur_is_audio a rv (acc ++ [pv])
          else if cur_is_audio then merge_loop f cur_is_audio a rv (acc ++ [pv])
          else merge_loop f cur_is_audio ra v (acc ++ [pa])
      | _, _ => (a, v, acc)
      end
  end.

(* Feed *)
Definition aq_feed (rot : bool) (s : aq) (p : avpkt) : aq * list avpkt :=
  let '(s1, out0, p') := adjust rot s p in
  let '(a, v, out1) := merge_loop (S (length (q_a s1) + length (q_v s1))) (is_audio_pt (av_pt p')) (q_a s1) (q_v s1) [] in
  if q_full v then (set_queues s1 a [], out0 ++ out1 ++ v)
  else if q_full a then (set_queues s1 [] v, out0 ++ out1 ++ a)
  else (set_queues s1 a v, out0 ++ out1).

Fixpoint aq_run (rot : bool) (s : aq) (l : list avpkt) : aq * list (list avpkt) :=
  match l with
  | [] => (s, [])
  | p :: t =>
      let (s1, out) := aq_feed rot s p in
      let (s2, more) := aq_run rot s1 t in
      (s2, out :: more)
  end.
