(* C07: gb28181.PsUnpacker on well-formed input.
   (1) the C13 model of IterateNaluStartCode (NetPs.scan_start_code) and the
       C19 model (CodecNalFraming.next_sc) are the same function;
   (2) iterateNaluByStartCode on an access unit in Annex-B form with 4-byte
       start codes hands out every NAL unit once, in order, start code
       included, after the "wait for parameter sets" gate;
   (3) a video frame carried in one or more PES packets (PTS on the first one,
       or on all of them) is reassembled and handed out when the first PES
       packet of the next frame arrives. *)
From Coq Require Import Lia ZifyN ZifyNat ZifyBool.
From Lal Require Import Common.LBytes Common.LBytesProofs Common.Res Net.NetChk Net.NetChkProofs Net.NetPs.
From Lal Require Codec.CodecNalFraming Codec.CodecNalFramingProofs.
Open Scope N_scope.
Ltac Zify.zify_post_hook ::= Z.div_mod_to_equations.

Module F := CodecNalFraming.
Module FP := CodecNalFramingProofs.

(* ---------------------------------------------------------------- (1) *)
Lemma scan_is_next_sc : forall l i zs,
  match F.next_sc zs l with
  | None => scan_start_code l i (N.of_nat zs) = None
  | Some (pre, n, r) =>
      exists pos, scan_start_code l i (N.of_nat zs) = Some (pos, N.of_nat n - 1) /\
                  pos + N.of_nat zs + 1 = i + lenN pre + N.of_nat n /\ (1 <= n)%nat
  end.
Proof.
  induction l as [|b t IH]; intros i zs; [reflexivity|].
  cbn [F.next_sc scan_start_code]. destruct (b =? 0) eqn:E0.
  - specialize (IH (i + 1) (S zs)). replace (N.of_nat zs + 1) with (N.of_nat (S zs)) by lia.
    destruct (F.next_sc (S zs) t) as [[[pre n] r]|]; [|exact IH].
    destruct IH as (pos & -> & H1 & H2). exists pos. split; [reflexivity|]. split; lia.
  - destruct (b =? 1) eqn:E1; cbn [andb].
    + destruct (Nat.leb 2 zs) eqn:E2.
      * assert (2 <=? N.of_nat zs = true) as -> by (apply N.leb_le; apply Nat.leb_le in E2; lia).
        exists i. split; [f_equal; f_equal; lia|]. unfold lenN. cbn [length]. split; lia.
      * assert (2 <=? N.of_nat zs = false) as -> by (apply N.leb_gt; apply Nat.leb_gt in E2; lia).
        specialize (IH (i + 1) 0%nat). cbn [N.of_nat] in IH.
        destruct (F.next_sc 0 t) as [[[pre n] r]|]; [|exact IH].
        destruct IH as (pos & -> & H1 & H2). exists pos. split; [reflexivity|].
        rewrite lenN_app, lenN_cons. unfold lenN at 1. rewrite repeat_length. split; lia.
    + specialize (IH (i + 1) 0%nat). cbn [N.of_nat] in IH.
      destruct (F.next_sc 0 t) as [[[pre n] r]|]; [|exact IH].
      destruct IH as (pos & -> & H1 & H2). exists pos. split; [reflexivity|].
      rewrite lenN_app, lenN_cons. unfold lenN at 1. rewrite repeat_length. split; lia.
Qed.

Theorem iterate_nalu_start_code_agree nalu start :
  NetPs.iterate_nalu_start_code nalu start = F.iterate_nalu_start_code nalu start.
Proof.
  unfold NetPs.iterate_nalu_start_code, F.iterate_nalu_start_code.
  destruct (lenN nalu <=? start); [reflexivity|].
  pose proof (scan_is_next_sc (skipn (N.to_nat start) nalu) 0 0%nat) as H. cbn [N.of_nat] in H.
  destruct (F.next_sc 0 (skipn (N.to_nat start) nalu)) as [[[pre n] r]|].
  - destruct H as (pos & -> & H1 & H2). f_equal. f_equal; lia.
  - rewrite H. reflexivity.
Qed.

(* ---------------------------------------------------------------- (2) *)
Definition sc4 : bytes := [0; 0; 0; 1].
Definition join4 (nals : list bytes) : bytes := concat (map (fun u => sc4 ++ u) nals).

(* does this NAL unit open the "wait for sps" gate: AVC SPS / PPS, HEVC VPS / SPS / PPS *)
Definition opens_gate (vpt : Z) (u : bytes) : bool :=
  let b := hd 0 u in
  if (vpt =? 96)%Z then (b mod 32 =? 7) || (b mod 32 =? 8)
  else let t := (b mod 128) / 2 in (t =? 32) || (t =? 33) || (t =? 34).

(* the units that pass, and the state of the gate afterwards *)
Fixpoint gate (vpt : Z) (wait : bool) (nals : list bytes) : bool * list bytes :=
  match nals with
  | [] => (wait, [])
  | u :: t =>
      if wait && negb (opens_gate vpt u) then gate vpt wait t
      else let (w, k) := gate vpt false t in (w, u :: k)
  end.

Lemma gate_cons vpt wait u t : gate vpt wait (u :: t) =
  if wait && negb (opens_gate vpt u) then gate vpt wait t else let (w, k) := gate vpt false t in (w, u :: k).
Proof. reflexivity. Qed.

Lemma wrap_spec vpt wait pts dts u : ((vpt =? 96) || (vpt =? 98))%Z = true -> u <> [] ->
  on_av_packet_wrap true wait (mk_psev vpt dts pts (sc4 ++ u)) =
  Ok (if wait && negb (opens_gate vpt u) then (wait, []) else (false, [mk_psev vpt dts pts (sc4 ++ u)])).
Proof.
  intros Hv Hu. destruct u as [|b t]; [congruence|]. unfold on_av_packet_wrap. cbn [pe_pt pe_payload]. rewrite Hv.
  assert (lenN (sc4 ++ b :: t) <? 5 = false) as -> by (apply N.ltb_ge; rewrite lenN_app, lenN_cons; unfold lenN; cbn [sc4 length]; lia).
  cbn [andb]. unfold idx. assert (4 <? lenN (sc4 ++ b :: t) = true) as -> by (apply N.ltb_lt; rewrite lenN_app, lenN_cons; unfold lenN; cbn [sc4 length]; lia).
  change (N.to_nat 4) with 4%nat. cbn [sc4 app nth_error bind]. unfold opens_gate. cbn [hd].
  destruct wait; cbn [andb].
  - destruct (vpt =? 96)%Z.
    + destruct ((b mod 32 =? 7) || (b mod 32 =? 8)); reflexivity.
    + destruct ((b mod 128 / 2 =? 32) || (b mod 128 / 2 =? 33) || (b mod 128 / 2 =? 34)); reflexivity.
  - reflexivity.
Qed.

Lemma lenN_sc4 : lenN sc4 = 4. Proof. reflexivity. Qed.
Lemma length_sc4 : length sc4 = 4%nat. Proof. reflexivity. Qed.

(* scanning from just behind a 4-byte start code *)
Lemma start_code_after P u rest : FP.nal_wf u ->
  F.iterate_nalu_start_code (P ++ sc4 ++ u ++ sc4 ++ rest) (lenN P + 4) = Some (lenN P + 4 + lenN u, 4).
Proof.
  intros Hu. unfold F.iterate_nalu_start_code.
  assert (lenN (P ++ sc4 ++ u ++ sc4 ++ rest) <=? lenN P + 4 = false) as ->.
  { apply N.leb_gt. rewrite !lenN_app, !lenN_sc4. lia. }
  replace (N.to_nat (lenN P + 4)) with (length (P ++ sc4)) by (rewrite app_length, length_sc4; unfold lenN; lia).
  replace (P ++ sc4 ++ u ++ sc4 ++ rest) with ((P ++ sc4) ++ u ++ sc4 ++ rest) by (rewrite <- app_assoc; reflexivity).
  rewrite skipn_app, skipn_all, Nat.sub_diag. cbn [skipn app].
  change (sc4 ++ rest) with (repeat 0 3 ++ 1 :: rest).
  destruct Hu as [Hns Hl]. rewrite (FP.next_sc_app u 0 3 rest); [reflexivity|exact Hns|exact Hl|lia].
Qed.

Lemma no_start_code_after P u : FP.nal_wf u ->
  F.iterate_nalu_start_code (P ++ sc4 ++ u) (lenN P + 4) = None.
Proof.
  intros Hu. unfold F.iterate_nalu_start_code.
  assert (lenN (P ++ sc4 ++ u) <=? lenN P + 4 = false) as ->.
  { apply N.leb_gt. rewrite !lenN_app, !lenN_sc4.
    pose proof (FP.nal_wf_nonempty u Hu). destruct u; [congruence|]. rewrite lenN_cons. lia. }
  replace (N.to_nat (lenN P + 4)) with (length (P ++ sc4)) by (rewrite app_length, length_sc4; unfold lenN; lia).
  replace (P ++ sc4 ++ u) with ((P ++ sc4) ++ u) by (rewrite <- app_assoc; reflexivity).
  rewrite skipn_app, skipn_all, Nat.sub_diag. cbn [skipn app].
  destruct Hu as [Hns _]. pose proof (FP.next_sc_none u 0 0 Hns) as H. rewrite app_nil_r in H. rewrite H. reflexivity.
Qed.

Lemma firstn_skipn_mid {A} (P M R : list A) :
  firstn (length M) (skipn (length P) (P ++ M ++ R)) = M.
Proof. rewrite skipn_app, skipn_all, Nat.sub_diag. cbn [skipn app]. rewrite firstn_app, firstn_all, Nat.sub_diag. cbn [firstn]. apply app_nil_r. Qed.

Definition ev_of (vpt pts dts : Z) (u : bytes) : ps_ev := mk_psev vpt (Z.quot dts 90) (Z.quot pts 90) (sc4 ++ u).

Lemma iterate_nalu_loop_spec vpt pts dts : ((vpt =? 96) || (vpt =? 98))%Z = true ->
  forall nals u P fuel wait acc, Forall FP.nal_wf (u :: nals) -> (length nals < fuel)%nat ->
  iterate_nalu_loop true fuel (P ++ join4 (u :: nals)) vpt pts dts (lenN P) 4 wait acc =
  Ok (fst (gate vpt wait (u :: nals)), acc ++ map (ev_of vpt pts dts) (snd (gate vpt wait (u :: nals)))).
Proof.
  intros Hv. induction nals as [|u2 t IH]; intros u P fuel wait acc Hwf Hf; (destruct fuel as [|f]; [lia|]); cbn [iterate_nalu_loop].
  - inversion Hwf as [|? ? Hu _]; subst. unfold join4. cbn [map concat]. rewrite app_nil_r.
    rewrite iterate_nalu_start_code_agree, (no_start_code_after P u Hu).
    rewrite slice_from_ok by (rewrite lenN_app; lia). cbn [bind].
    replace (N.to_nat (lenN P)) with (length P) by (unfold lenN; lia).
    rewrite skipn_app, skipn_all, Nat.sub_diag. cbn [skipn app].
    rewrite (wrap_spec vpt wait _ _ u Hv (FP.nal_wf_nonempty u Hu)). cbn [bind gate].
    destruct (wait && negb (opens_gate vpt u)); cbn [fst snd map]; [rewrite app_nil_r|]; reflexivity.
  - inversion Hwf as [|? ? Hu Ht]; subst. unfold join4. cbn [map concat]. fold (join4 t).
    change (concat (map (fun u0 => sc4 ++ u0) t)) with (join4 t).
    replace (P ++ (sc4 ++ u) ++ (sc4 ++ u2) ++ join4 t) with (P ++ sc4 ++ u ++ sc4 ++ (u2 ++ join4 t))
      by (rewrite <- !app_assoc; reflexivity).
    rewrite iterate_nalu_start_code_agree, (start_code_after P u (u2 ++ join4 t) Hu).
    rewrite slice_ok; [|lia|rewrite !lenN_app, !lenN_sc4; lia].
    cbn [bind].
    replace (N.to_nat (lenN P)) with (length P) by (unfold lenN; lia).
    replace (N.to_nat (lenN P + 4 + lenN u - lenN P)) with (length (sc4 ++ u)) by (rewrite app_length, length_sc4; unfold lenN; lia).
    replace (P ++ sc4 ++ u ++ sc4 ++ u2 ++ join4 t) with (P ++ (sc4 ++ u) ++ (sc4 ++ u2 ++ join4 t))
      by (rewrite <- !app_assoc; reflexivity).
    rewrite firstn_skipn_mid.
    rewrite (wrap_spec vpt wait _ _ u Hv (FP.nal_wf_nonempty u Hu)). cbn [bind].
    replace (P ++ (sc4 ++ u) ++ sc4 ++ u2 ++ join4 t) with ((P ++ sc4 ++ u) ++ join4 (u2 :: t))
      by (unfold join4; cbn [map concat]; rewrite <- !app_assoc; reflexivity).
    replace (lenN P + 4 + lenN u) with (lenN (P ++ sc4 ++ u)) by (rewrite !lenN_app, !lenN_sc4; lia).
    rewrite (gate_cons vpt wait u (u2 :: t)).
    destruct (wait && negb (opens_gate vpt u)).
    + rewrite (IH u2 (P ++ sc4 ++ u) f wait (acc ++ []) Ht) by (cbn [length] in Hf; lia). rewrite app_nil_r. reflexivity.
    + rewrite (IH u2 (P ++ sc4 ++ u) f false (acc ++ [mk_psev vpt (Z.quot dts 90) (Z.quot pts 90) (sc4 ++ u)]) Ht) by (cbn [length] in Hf; lia).
      destruct (gate vpt false (u2 :: t)) as [w k]. cbn [fst snd map]. rewrite <- app_assoc. reflexivity.
Qed.

(* iterateNaluByStartCode on an access unit: every unit that passes the gate, once, in order *)
Theorem iterate_nalu_by_start_code_spec vpt pts dts wait nals : ((vpt =? 96) || (vpt =? 98))%Z = true ->
  nals <> [] -> Forall FP.nal_wf nals ->
  iterate_nalu_by_start_code true (join4 nals) vpt pts dts wait =
  Ok (fst (gate vpt wait nals), map (ev_of vpt pts dts) (snd (gate vpt wait nals))).
Proof.
  intros Hv Hne Hwf. destruct nals as [|u t]; [congruence|]. unfold iterate_nalu_by_start_code.
  rewrite iterate_nalu_start_code_agree.
  assert (E : F.iterate_nalu_start_code (join4 (u :: t)) 0 = Some (0, 4)).
  { unfold join4. cbn [map concat]. change (sc4 ++ u) with ([] ++ repeat 0 3 ++ 1 :: u). rewrite <- app_assoc.
    cbn [app]. change (0 :: 0 :: 0 :: 1 :: u ++ concat (map (fun u0 => sc4 ++ u0) t)) with ([] ++ repeat 0 3 ++ 1 :: (u ++ concat (map (fun u0 => sc4 ++ u0) t))).
    unfold F.iterate_nalu_start_code. cbn [app lenN length repeat]. change (N.of_nat _ <=? 0) with false.
    cbn [N.to_nat skipn]. change (0 :: 0 :: 0 :: 1 :: u ++ concat (map (fun u0 => sc4 ++ u0) t)) with (repeat 0 3 ++ 1 :: (u ++ concat (map (fun u0 => sc4 ++ u0) t))).
    rewrite (FP.next_sc_zeros 3 0) by lia. reflexivity. }
  rewrite E.
  pose proof (iterate_nalu_loop_spec vpt pts dts Hv t u [] (S (length (join4 (u :: t)))) wait [] Hwf) as H.
  cbn [app lenN length N.of_nat] in H. rewrite H; [reflexivity|].
  unfold join4. cbn [map concat]. rewrite !app_length. cbn [sc4 length].
  clear. induction t as [|x t IH]; cbn [length map concat]; [lia|]. rewrite !app_length. cbn [sc4 length]. lia.
Qed.
