(* How logic.Group wires Rtmp2MpegtsRemuxer to its TS consumers
   (pkg/logic/group__core_streaming.go: OnPatPmt, OnTsPackets / feedTsPackets,
   OnFragmentOpen; group__in.go: addIn / delIn): the observer of the remuxer is
   the group, i.e. hls.Muxer (C10's model: HlsMuxer) FIRST - whose openFragment
   calls back OnFragmentOpen -> Rtmp2MpegtsRemuxer.FlushAudio, re-entrantly,
   before the frame that opened the fragment is written - and then the
   HTTP-TS subscribers (fresh: PAT/PMT first; then wait for a boundary frame).
   The HTTP-TS GOP cache is off (gop_num = 0).  No proofs in this file.

   updateFragment is C10's [update_fragment] with the observer call inserted
   at the end of openFragment: the frames FlushAudio emits ([pending], at most
   one audio frame) are fed through FeedMpegts right there. *)
From Coq Require Import ZArith.
From Lal Require Import Common.LBytes Group.GroupMsg Mpegts.TsPack Hls.HlsFloat Hls.HlsFs Hls.HlsPlaylist Hls.HlsMuxer
  Remux.RemuxTsTimestamp Remux.RemuxRtmp2Ts Remux.RemuxTsFilter.
Open Scope N_scope.

Record hstate := mk_hstate { h_mux : mux; h_fs : fs; h_ops : list op }.

Definition h_step (h : hstate) (m : mux) (ops : list op) : hstate :=
  mk_hstate m (apply_all (h_fs h) ops) (h_ops h ++ ops).

Definition ev_is_audio (e : tsev) : bool := f_sid (te_frame e) =? sid_audio.
Definition ev_bytes (e : tsev) : bytes := concat (te_packets e).

(* FeedMpegts without a pending FlushAudio (C10's feed) *)
Definition hls_feed_plain (c : cfg) (now : Z) (h : hstate) (e : tsev) : hstate :=
  let f := te_frame e in
  let '(m1, ops) := feed c (h_mux h) (h_fs h) (ev_is_audio e) (Z.of_N (f_pts f)) (Z.of_N (f_dts f))
                         (te_boundary e) now (ev_bytes e) in
  h_step h m1 ops.

(* closeFragment(false); openFragment(ts, discont) - and, inside openFragment,
   observer.OnFragmentOpen(): the pending frames come in now.  The third
   component says whether OnFragmentOpen was called. *)
Definition reopen_obs (c : cfg) (h : hstate) (ts : Z) (doit discont : bool) (now : Z) (pending : list tsev)
  : hstate * list tsev * bool :=
  if doit then
    let '(m1, o1) := close_fragment c (h_mux h) (h_fs h) false in
    let h1 := h_step h m1 o1 in
    let '(m2, o2) := open_fragment c m1 ts discont now in
    let h2 := h_step h1 m2 o2 in
    (fold_left (hls_feed_plain c now) pending h2, [], true)
  else (h, pending, false).

Definition with_mux (h : hstate) (m : mux) : hstate := mk_hstate m (h_fs h) (h_ops h).

Definition update_fragment_obs (c : cfg) (h : hstate) (ts : Z) (boundary : bool) (now : Z) (pending : list tsev)
  : hstate * list tsev * bool :=
  let m := h_mux h in
  if m_opened m then
    let fslot := slot c m (m_nfrags m) in
    let forced := force_split c m ts in
    let '(h1, p1, c1) := if forced then reopen_obs c h ts true true now pending else (h, pending, false) in
    (* after a forced split the duration of the fragment just closed is final (lal fix of C06: the audio handed over
       from inside openFragment may have moved fragTs, and the closed fragment was given the distance as its duration) *)
    let m2 := if forced then h_mux h1 else upd_dur (h_mux h1) fslot ts in
    let h2 := with_mux h1 m2 in
    if f_ltb (fi_dur (get_slot m2 fslot)) (frag_target c) then (h2, p1, c1)
    else let '(h3, p3, c3) := reopen_obs c h2 ts boundary false now p1 in (h3, p3, c1 || c3)
  else reopen_obs c h ts boundary true now pending.

Definition ev_ts (e : tsev) : Z :=
  if ev_is_audio e then Z.of_N (f_pts (te_frame e)) else Z.of_N (f_dts (te_frame e)).

(* FeedMpegts of [e] during which FlushAudio produced [nested] *)
Definition hls_feed_obs (c : cfg) (now : Z) (h : hstate) (e : tsev) (nested : list tsev) : hstate :=
  let '(h1, _, _) := update_fragment_obs c h (ev_ts e) (te_boundary e) now nested in
  if m_opened (h_mux h1) then h_step h1 (h_mux h1) [OWrite (m_cur (h_mux h1)) (ev_bytes e)] else h1.

(* does FeedMpegts of [e] open a fragment (and so call OnFragmentOpen)? *)
Definition hls_opens (c : cfg) (now : Z) (h : hstate) (e : tsev) : bool :=
  snd (update_fragment_obs c h (ev_ts e) (te_boundary e) now []).

(* ---- HTTP-TS subscribers ---- *)
Record tssub := mk_tssub { u_id : N; u_fresh : bool; u_wait : bool; u_out : bytes }.

Definition sub_feed (patpmt : option bytes) (e : tsev) (u : tssub) : tssub :=
  let out0 := if u_fresh u then u_out u ++ (match patpmt with Some b => b | None => [] end) else u_out u in
  if u_wait u then
    if te_boundary e then mk_tssub (u_id u) false false (out0 ++ ev_bytes e)
    else mk_tssub (u_id u) false true out0
  else mk_tssub (u_id u) false false (out0 ++ ev_bytes e).

Definition sub_patpmt (b : bytes) (u : tssub) : tssub :=
  if u_fresh u then u else mk_tssub (u_id u) false (u_wait u) (u_out u ++ b).

(* ---- the group as observer of the remuxer ---- *)
Record gstate := mk_gstate {
  g_hls : option hstate;      (* hlsMuxer (None: hls disabled) *)
  g_subs : list tssub;
  g_patpmt : option bytes;
  g_now : Z }.

Section Cfg.
  Variable c : cfg.

  Definition g_decide (g : gstate) (e : tsev) : bool :=
    match g_hls g with Some h => hls_opens c (g_now g) h e | None => false end.

  Definition g_apply (g : gstate) (e : tsev) (nested : list tsev) : gstate :=
    let hls' := match g_hls g with Some h => Some (hls_feed_obs c (g_now g) h e nested) | None => None end in
    let feed_all subs ev := map (sub_feed (g_patpmt g) ev) subs in
    mk_gstate hls' (feed_all (fold_left feed_all nested (g_subs g)) e) (g_patpmt g) (g_now g).

  Definition g_onpatpmt (g : gstate) (b : bytes) : gstate :=
    mk_gstate (match g_hls g with Some h => Some (with_mux h (with_patpmt (h_mux h) b)) | None => None end)
              (map (sub_patpmt b) (g_subs g)) (Some b) (g_now g).

  Inductive gevent :=
  | GMsg (m : rmsg)
  | GJoinTs (id : N)
  | GNop.                      (* an event that does not concern the TS side (the clock still advances) *)

  (* startHlsIfNeeded: NewMuxer + Start in an empty directory (= HlsMuxer.start_mux c []) *)
  Definition g_init (hls : bool) : gstate :=
    mk_gstate (if hls then Some (mk_hstate (new_mux c) [] [OMkdirAll PDir; OReadFile PLive false]) else None) [] None 0%Z.

  (* the events, hls.Clock showing the event index; then the publisher leaves:
     Rtmp2MpegtsRemuxer.Dispose, hls.Muxer.Dispose.  The remuxer's outputs are
     returned as well (for the theorems; the consumers' view is in the state). *)
  Fixpoint g_run (x : remuxer) (g : gstate) (evs : list gevent) : remuxer * gstate * list tsout :=
    match evs with
    | [] => (x, g, [])
    | e :: t =>
      let '(x1, g1, o1) :=
        match e with
        | GMsg m => feed_rtmp_message gstate g_decide g_apply g_onpatpmt x g m
        | GJoinTs id => (x, mk_gstate (g_hls g) (g_subs g ++ [mk_tssub id true true []]) (g_patpmt g) (g_now g), [])
        | GNop => (x, g, [])
        end in
      let '(x2, g2, o2) := g_run x1 (mk_gstate (g_hls g1) (g_subs g1) (g_patpmt g1) (g_now g1 + 1)%Z) t in
      (x2, g2, o1 ++ o2)
    end.

  Definition g_finish (x : remuxer) (g : gstate) : gstate * list tsout :=
    let '(_, g1, o1) := remuxer_dispose gstate g_decide g_apply x g in
    match g_hls g1 with
    | Some h =>
      let '(m', ops) := close_fragment c (h_mux h) (h_fs h) true in
      (mk_gstate (Some (h_step h m' ops)) (g_subs g1) (g_patpmt g1) (g_now g1), o1)
    | None => (g1, o1)
    end.

  Definition group_run_outs (hls : bool) (evs : list gevent) : gstate * list tsout :=
    let '(x, g, o1) := g_run remuxer_init (g_init hls) evs in
    let '(g', o2) := g_finish x g in (g', o1 ++ o2).

  Definition group_run (hls : bool) (evs : list gevent) : gstate := fst (group_run_outs hls evs).
End Cfg.
