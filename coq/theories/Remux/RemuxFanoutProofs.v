(* C06, join points on BYTES: the label-level theorems of the fan-out model
   (C02: rtsp_gate_run / rtsp_contiguous_run; RemuxFanoutTsProofs for HTTP-TS)
   read through the tables of RemuxFanout.v.  [outs] is what happens at the
   group during one publication, in order; the history the fan-out model runs
   on is [fan_hist outs]; a label stands for the bytes [fo_item outs] gives. *)
From Coq Require Import List Arith Bool Lia NArith ZArith.
From Lal Require Import Common.LBytes Common.Res Group.GroupMsg Group.GroupGopCache Group.GroupFanout
  Group.GroupGopCacheProofs Group.GroupFanoutProofs Group.GroupFanoutRtspProofs
  Mpegts.TsPack Rtp.RtpPacker Remux.RemuxRtmp2Ts Remux.RemuxTsFilter
  Remux.RemuxFanout Remux.RemuxFanoutTsProofs.
From Lal Require Remux.RemuxGroup.
Notation ev_bytes := RemuxGroup.ev_bytes.
Import ListNotations.
Open Scope N_scope.

(* ---- what a stretch of the publication sends to a session that takes everything ---- *)
Definition ts_items (o : list fout) : list fitem :=
  flat_map (fun x => match x with FoTs e => [ITs (ev_bytes e)] | FoPat b => [IPat b] | _ => [] end) o.
Definition pat_items (o : list fout) : list fitem :=
  flat_map (fun x => match x with FoPat b => [IPat b] | _ => [] end) o.
(* the packets of a stretch that the group is handed as parseable packets of a track *)
Definition rtp_items (o : list fout) : list fitem :=
  flat_map (fun x => match x with
                     | FoRtp a p => match rtp_pt (fan_raw a p) with
                                    | Some pt => if rtp_pt_written pt then [IRtp a (rtp_raw p)] else []
                                    | None => []
                                    end
                     | _ => [] end) o.
Definition fo_ts_evs (o : list fout) : list tsev := flat_map (fun x => match x with FoTs e => [e] | _ => [] end) o.

Lemma tab_app {A} (f : fout -> list A) o1 o2 : flat_map f (o1 ++ o2) = flat_map f o1 ++ flat_map f o2.
Proof. apply flat_map_app. Qed.

Lemma nth_error_app_len {A} (l1 l2 : list A) : nth_error (l1 ++ l2) (length l1) = nth_error l2 0.
Proof. rewrite nth_error_app2 by lia. now rewrite Nat.sub_diag. Qed.

(* ---- labels of a stretch, read through the tables of the whole ---- *)
Lemma fo_items_ts_units : forall o2 o1 o3,
  fo_items (o1 ++ o2 ++ o3) (ts_units (length (ts_tab o1)) (length (pat_tab o1)) (fan_hist o2)) = ts_items o2.
Proof.
  induction o2 as [|x o2 IH]; intros o1 o3; [reflexivity|].
  cbn [app].
  assert (Hsh : o1 ++ x :: o2 ++ o3 = (o1 ++ [x]) ++ o2 ++ o3) by (rewrite <- app_assoc; reflexivity).
  specialize (IH (o1 ++ [x]) o3). rewrite <- Hsh in IH. clear Hsh. unfold fan_hist, fo_items in *. cbn [map].
  destruct x as [[|]|m|b|e|raw v|a p|k id|id]; cbn [fo_ev ts_units app]; unfold ts_items; cbn [flat_map app]; fold (ts_items o2);
    try (rewrite <- IH; unfold ts_tab, pat_tab; rewrite !tab_app; cbn [flat_map app]; rewrite ?app_nil_r; reflexivity).
  - (* FoPat *)
    cbn [map]. f_equal.
    + unfold fo_item, pat_tab. rewrite !tab_app. cbn [flat_map app]. rewrite nth_error_app_len. reflexivity.
    + rewrite <- IH. unfold ts_tab, pat_tab. rewrite !tab_app. cbn [flat_map app].
      rewrite app_nil_r, app_length. cbn [length]. now rewrite Nat.add_1_r.
  - (* FoTs *)
    cbn [map]. f_equal.
    + unfold fo_item, ts_tab. rewrite !tab_app. cbn [flat_map app]. rewrite nth_error_app_len. reflexivity.
    + rewrite <- IH. unfold ts_tab, pat_tab. rewrite !tab_app. cbn [flat_map app].
      rewrite app_nil_r, app_length. cbn [length]. now rewrite Nat.add_1_r.
Qed.

Lemma fo_items_pat_units : forall o2 o1 o3,
  fo_items (o1 ++ o2 ++ o3) (pat_units (length (pat_tab o1)) (fan_hist o2)) = pat_items o2.
Proof.
  induction o2 as [|x o2 IH]; intros o1 o3; [reflexivity|].
  cbn [app].
  assert (Hsh : o1 ++ x :: o2 ++ o3 = (o1 ++ [x]) ++ o2 ++ o3) by (rewrite <- app_assoc; reflexivity).
  specialize (IH (o1 ++ [x]) o3). rewrite <- Hsh in IH. clear Hsh. unfold fan_hist, fo_items in *. cbn [map].
  destruct x as [[|]|m|b|e|raw v|a p|k id|id]; cbn [fo_ev pat_units app]; unfold pat_items; cbn [flat_map app]; fold (pat_items o2);
    try (rewrite <- IH; unfold pat_tab; rewrite !tab_app; cbn [flat_map app]; rewrite ?app_nil_r; reflexivity).
  cbn [map]. f_equal.
  - unfold fo_item, pat_tab. rewrite !tab_app. cbn [flat_map app]. rewrite nth_error_app_len. reflexivity.
  - rewrite <- IH. unfold pat_tab. rewrite !tab_app. cbn [flat_map app].
    rewrite app_length. cbn [length]. now rewrite Nat.add_1_r.
Qed.

Lemma fo_items_rtp_units : forall o2 o1 o3,
  fo_items (o1 ++ o2 ++ o3) (rtp_units (length (rtp_tab o1)) (fan_hist o2)) = rtp_items o2.
Proof.
  induction o2 as [|x o2 IH]; intros o1 o3; [reflexivity|].
  cbn [app].
  assert (Hsh : o1 ++ x :: o2 ++ o3 = (o1 ++ [x]) ++ o2 ++ o3) by (rewrite <- app_assoc; reflexivity).
  specialize (IH (o1 ++ [x]) o3). rewrite <- Hsh in IH. clear Hsh. unfold fan_hist, fo_items in *. cbn [map].
  destruct x as [[|]|m|b|e|raw v|a p|k id|id]; cbn [fo_ev rtp_units app]; unfold rtp_items; cbn [flat_map app]; fold (rtp_items o2);
    try (rewrite <- IH; unfold rtp_tab; rewrite !tab_app; cbn [flat_map app]; rewrite ?app_nil_r; reflexivity).
  rewrite map_app. f_equal.
  - unfold rtp_unit. destruct (rtp_pt (fan_raw a p)) as [pt|]; [|reflexivity]. destruct (rtp_pt_written pt); [|reflexivity].
    cbn [map]. unfold fo_item, rtp_tab. rewrite !tab_app. cbn [flat_map app]. rewrite nth_error_app_len. reflexivity.
  - rewrite <- IH. unfold rtp_tab. rewrite !tab_app. cbn [flat_map app].
    rewrite app_length. cbn [length]. now rewrite Nat.add_1_r.
Qed.

(* ---- the counters of the fan-out model are the lengths of the tables ---- *)
Lemma fold_counters cf : forall o s,
  g_next_ts (fold_left (step cf) (fan_hist o) s) = (g_next_ts s + length (ts_tab o))%nat /\
  g_next_pat (fold_left (step cf) (fan_hist o) s) = (g_next_pat s + length (pat_tab o))%nat /\
  g_next_rtp (fold_left (step cf) (fan_hist o) s) = (g_next_rtp s + length (rtp_tab o))%nat.
Proof.
  induction o as [|x o IH]; intro s; [cbn; lia|].
  unfold fan_hist in *. cbn [map fold_left].
  destruct (IH (step cf s (fo_ev x))) as (H1 & H2 & H3). rewrite H1, H2, H3.
  rewrite g_next_ts_step, g_next_pat_step, g_next_rtp_step.
  destruct x as [[|]|m|b|e|raw v|a p|k id|id]; unfold ts_tab, pat_tab, rtp_tab; cbn [fo_ev flat_map app length]; lia.
Qed.

Lemma run_counters cf o :
  g_next_ts (run cf (fan_hist o)) = length (ts_tab o) /\
  g_next_pat (run cf (fan_hist o)) = length (pat_tab o) /\
  g_next_rtp (run cf (fan_hist o)) = length (rtp_tab o).
Proof. unfold run. destruct (fold_counters cf o (g_init cf)) as (H1 & H2 & H3). rewrite H1, H2, H3. cbn. auto. Qed.

(* ---- during a publication (no end of the input in [o]) the PAT/PMT in force is the last one sent ---- *)
Definition no_in_out (o : list fout) : Prop := Forall (fun x => match x with FoIn _ => False | _ => True end) o.

Definition last_pat_label (n : nat) (prev : option label) (o : list fout) : option label :=
  match pat_tab o with [] => prev | _ => Some (LPat (n + length (pat_tab o) - 1)) end.

Lemma fold_patpmt cf : forall o s, no_in_out o ->
  GroupFanout.g_patpmt (fold_left (step cf) (fan_hist o) s) = last_pat_label (g_next_pat s) (GroupFanout.g_patpmt s) o.
Proof.
  induction o as [|x o IH]; intros s Hn; [reflexivity|].
  inversion Hn as [|? ? Hx Ho]; subst. unfold fan_hist in *. cbn [map fold_left]. rewrite (IH _ Ho).
  unfold last_pat_label. rewrite g_next_pat_step.
  destruct x as [st|m|b|e|raw v|a p|k id|id]; cbn [fo_ev pat_tab flat_map app]; try reflexivity; try contradiction.
  - (* publish *) cbn [step]. unfold publish. destruct (Nat.eqb _ 0); [reflexivity|].
    rewrite rtmp_loop_spec.
    destruct (has_kind KRtmp _); [destruct (cf_merge cf =? 0); [|destruct (cf_merge cf <=? _)]|]; reflexivity.
  - (* pat *) cbn [step g_patpmt g_next_pat]. fold (pat_tab o). destruct (pat_tab o) as [|y l]; cbn [length].
    + f_equal. f_equal. lia.
    + f_equal. f_equal. lia.
  - cbn [step]. destruct (existsb _ _); reflexivity.
Qed.

Lemma match_snoc {A B} (l : list A) x (P Q : B) : match l ++ [x] with [] => P | _ :: _ => Q end = Q.
Proof. destruct l; reflexivity. Qed.

(* the item behind the PAT/PMT label in force after [o] (the publication starts with [o]) *)
Lemma patpmt_item cf o o' : no_in_out o ->
  map (fo_item (FoIn true :: o ++ o')) (opt_list (GroupFanout.g_patpmt (run cf (fan_hist (FoIn true :: o)))))
  = match rev (pat_tab o) with [] => [] | b :: _ => [IPat b] end.
Proof.
  intro Hn. unfold run, fan_hist. cbn [map fold_left fo_ev]. fold (fan_hist o).
  rewrite (fold_patpmt cf o _ Hn). unfold last_pat_label.
  assert (H0 : g_next_pat (step cf (GroupFanout.g_init cf) EvInStart) = 0%nat /\ GroupFanout.g_patpmt (step cf (GroupFanout.g_init cf) EvInStart) = None) by (split; reflexivity).
  destruct H0 as [H0 H1]. rewrite H0, H1.
  destruct (rev (pat_tab o)) as [|b r] eqn:Er.
  - assert (E : pat_tab o = []) by (rewrite <- (rev_involutive (pat_tab o)), Er; reflexivity). rewrite E. reflexivity.
  - assert (E : pat_tab o = rev r ++ [b]) by (rewrite <- (rev_involutive (pat_tab o)), Er; reflexivity).
    rewrite E, match_snoc. cbn [opt_list map fo_item]. unfold pat_tab in *. cbn [flat_map app]. rewrite tab_app, E.
    rewrite app_length. cbn [length plus]. replace (length (rev r) + 1 - 1)%nat with (length (rev r)) by lia.
    rewrite <- app_assoc. rewrite nth_error_app_len. reflexivity.
Qed.

(* ====================================================================== *)
(* the HTTP-TS GOP cache during a publication, in terms of the frames *)

Lemma ts_tab_evs o : ts_tab o = map ev_bytes (fo_ts_evs o).
Proof.
  unfold ts_tab, fo_ts_evs. induction o as [|x o IH]; [reflexivity|].
  cbn [flat_map]. rewrite map_app, IH. destruct x; reflexivity.
Qed.

Lemma fo_item_ts outs j e : nth_error (fo_ts_evs outs) j = Some e -> fo_item outs (LTs j) = ITs (ev_bytes e).
Proof. intro H. cbn [fo_item]. rewrite ts_tab_evs, nth_error_map, H. reflexivity. Qed.

(* the GOPs the cache is specified to hold (GroupGopCacheProofs.gops_feed), each entry with its frame *)
Fixpoint pgops (gop max n : nat) (G : list (list (label * tsev))) (o : list fout) : list (list (label * tsev)) :=
  match o with
  | [] => G
  | FoTs e :: t =>
      pgops gop max (S n) (if Nat.ltb 0 gop then gops_feed max G (if te_boundary e then MKey else MOther) (LTs n, e) else G) t
  | _ :: t => pgops gop max n G t
  end.

Lemma gops_feed_map {A B} (f : A -> B) max G c b :
  gops_feed max (map (map f) G) c (f b) = map (map f) (gops_feed max G c b).
Proof.
  destruct c; cbn [gops_feed]; try reflexivity.
  - rewrite map_app. reflexivity.
  - rewrite <- map_rev. destruct (rev G) as [|lastg before]; [reflexivity|]. cbn [map].
    rewrite map_length. destruct (_ || _); [|reflexivity].
    rewrite map_app, <- map_rev. cbn [map]. now rewrite map_app.
Qed.

Lemma gops_feed_forall {A} (P : A -> Prop) max G c b :
  Forall (Forall P) G -> P b -> Forall (Forall P) (gops_feed max G c b).
Proof.
  intros HG Hb. destruct c; cbn [gops_feed]; try exact HG.
  - apply Forall_app. split; [exact HG|]. repeat constructor. exact Hb.
  - destruct (rev G) as [|lastg before] eqn:Hr; [exact HG|].
    assert (HG' : G = rev before ++ [lastg]) by (rewrite <- (rev_involutive G), Hr; reflexivity).
    destruct (_ || _); [|exact HG]. rewrite HG' in HG. apply Forall_app in HG. destruct HG as [H1 H2].
    apply Forall_app. split; [exact H1|]. inversion H2; subst. constructor; [|constructor].
    apply Forall_app. split; [assumption|]. now constructor.
Qed.

(* with no cap on a GOP (SingleGopMaxFrameNum = 0): the cached frames are the frames fed, in order, from the first key on *)
Lemma gops_feed_concat {A} (G : list (list A)) (key : bool) b :
  concat (gops_feed 0 G (if key then MKey else MOther) b) = if key then concat G ++ [b] else match G with [] => [] | _ => concat G ++ [b] end.
Proof.
  destruct key; cbn [gops_feed].
  - rewrite concat_app. cbn [concat]. now rewrite app_nil_r.
  - destruct (rev G) as [|lastg before] eqn:Hr.
    + assert (G = []) by (rewrite <- (rev_involutive G), Hr; reflexivity). subst. reflexivity.
    + assert (HG' : G = rev before ++ [lastg]) by (rewrite <- (rev_involutive G), Hr; reflexivity).
      rewrite Bool.orb_true_r. rewrite HG'. rewrite match_snoc. rewrite !concat_app. cbn [concat]. now rewrite !app_nil_r, app_assoc.
Qed.

Lemma gops_feed_nonempty {A} max (G : list (list A)) c b : G <> [] -> gops_feed max G c b <> [].
Proof.
  intro H. destruct c; cbn [gops_feed]; try exact H.
  - destruct G; [congruence|discriminate].
  - destruct (rev G) as [|lastg before] eqn:Hr; [exact H|]. destruct (_ || _); [|exact H].
    destruct (rev before); discriminate.
Qed.

Definition starts_at_boundary (g : list (label * tsev)) : Prop :=
  exists p rest, g = p :: rest /\ te_boundary (snd p) = true.

Lemma gops_feed_starts max G (key : bool) (b : label * tsev) :
  (key = true -> te_boundary (snd b) = true) ->
  Forall starts_at_boundary G -> Forall starts_at_boundary (gops_feed max G (if key then MKey else MOther) b).
Proof.
  intros Hk HG. destruct key; cbn [gops_feed].
  - apply Forall_app. split; [exact HG|]. constructor; [|constructor]. exists b, []. split; [reflexivity|now apply Hk].
  - destruct (rev G) as [|lastg before] eqn:Hr; [exact HG|].
    assert (HG' : G = rev before ++ [lastg]) by (rewrite <- (rev_involutive G), Hr; reflexivity).
    destruct (_ || _); [|exact HG]. rewrite HG' in HG. apply Forall_app in HG. destruct HG as [H1 H2].
    apply Forall_app. split; [exact H1|]. inversion H2 as [|? ? (p & rest & -> & Hp) _]; subst. constructor; [|constructor].
    exists p, (rest ++ [b]). split; [reflexivity|exact Hp].
Qed.

(* the specification of RemuxFanoutTsProofs (labels), along a publication *)
Lemma trun_pgops cf : forall o t G, no_in_out o -> tp_in t = true -> tp_gops t = map (map fst) G ->
  fold_left (tstep cf) (fan_hist o) t
  = mk_tspec true (tp_n t + length (ts_tab o)) (map (map fst) (pgops (cf_ts_gop cf) (cf_ts_max cf) (tp_n t) G o)).
Proof.
  induction o as [|x o IH]; intros t G Hn Hin HG.
  - cbn. rewrite Nat.add_0_r, <- HG, <- Hin. now destruct t.
  - inversion Hn as [|? ? Hx Ho]; subst. unfold fan_hist in *. cbn [map fold_left].
    destruct x as [st|m|b|e|raw v|a p|k id|id]; try contradiction; cbn [fo_ev tstep pgops];
      try (rewrite (IH t G Ho Hin HG); unfold ts_tab; cbn [flat_map app]; reflexivity).
    rewrite (IH _ (if Nat.ltb 0 (cf_ts_gop cf) then gops_feed (cf_ts_max cf) G (if te_boundary e then MKey else MOther) (LTs (tp_n t), e) else G) Ho).
    + cbn [tp_n]. unfold ts_tab. cbn [flat_map app length]. f_equal. lia.
    + exact Hin.
    + cbn [tp_gops]. rewrite HG. destruct (Nat.ltb 0 (cf_ts_gop cf)); [|reflexivity].
      exact (gops_feed_map fst (cf_ts_max cf) G _ (LTs (tp_n t), e)).
Qed.

(* every cached entry is the frame its label stands for *)
Definition pair_ok (all : list tsev) (p : label * tsev) : Prop :=
  exists j, fst p = LTs j /\ nth_error all j = Some (snd p).

Lemma pgops_ok gop max : forall o o0 G o',
  Forall (Forall (pair_ok (fo_ts_evs (o0 ++ o ++ o')))) G ->
  Forall (Forall (pair_ok (fo_ts_evs (o0 ++ o ++ o')))) (pgops gop max (length (fo_ts_evs o0)) G o).
Proof.
  induction o as [|x o IH]; intros o0 G o' HG; [exact HG|].
  assert (Hsh : o0 ++ (x :: o) ++ o' = (o0 ++ [x]) ++ o ++ o') by (rewrite <- app_assoc; reflexivity).
  assert (Hlen : length (fo_ts_evs (o0 ++ [x])) = (length (fo_ts_evs o0) + match x with FoTs _ => 1 | _ => 0 end)%nat).
  { unfold fo_ts_evs. rewrite tab_app, app_length. destruct x; reflexivity. }
  specialize (IH (o0 ++ [x])). rewrite Hlen in IH. rewrite Hsh in *. clear Hlen Hsh.
  destruct x as [st|m|b|e|raw v|a p|k id|id]; cbn [pgops]; rewrite ?Nat.add_0_r, ?Nat.add_1_r in IH; try (apply IH; exact HG).
  apply IH.
  destruct (Nat.ltb 0 gop); [|exact HG]. apply gops_feed_forall; [exact HG|].
  exists (length (fo_ts_evs o0)). split; [reflexivity|]. cbn [snd].
  unfold fo_ts_evs. rewrite !tab_app. cbn [flat_map app]. rewrite <- app_assoc. rewrite nth_error_app_len. reflexivity.
Qed.

(* the frames a joiner is sent from the cache *)
Definition cache_evs (cf : cfg) (o : list fout) : list tsev :=
  map snd (concat (lastn (cf_ts_gop cf) (pgops (cf_ts_gop cf) (cf_ts_max cf) 0 [] o))).

Lemma Forall_skipn {A} (P : A -> Prop) : forall k l, Forall P l -> Forall P (skipn k l).
Proof. induction k as [|k IH]; intros l H; [exact H|]. destruct l; [constructor|]. inversion H; subst. now apply IH. Qed.

Lemma lastn_map {A B} (f : A -> B) n l : lastn n (map f l) = map f (lastn n l).
Proof. unfold lastn. now rewrite map_length, skipn_map. Qed.

Lemma trun_start cf o : no_in_out o ->
  trun cf (fan_hist (FoIn true :: o))
  = mk_tspec true (length (ts_tab o)) (map (map fst) (pgops (cf_ts_gop cf) (cf_ts_max cf) 0 [] o)).
Proof.
  intro Hn. unfold trun, fan_hist. cbn [map fold_left fo_ev tstep tp_n tp_gops]. fold (fan_hist o).
  now rewrite (trun_pgops cf o (mk_tspec true 0 []) [] Hn eq_refl eq_refl).
Qed.

Theorem ts_cache_items cf o o' : no_in_out o ->
  fo_items (FoIn true :: o ++ o') (gc_all (g_ts_cache (run cf (fan_hist (FoIn true :: o)))))
  = map (fun e => ITs (ev_bytes e)) (cache_evs cf o)
  /\ gc_count (g_ts_cache (run cf (fan_hist (FoIn true :: o))))
     = Nat.min (length (pgops (cf_ts_gop cf) (cf_ts_max cf) 0 [] o)) (cf_ts_gop cf).
Proof.
  intro Hn. destruct (ts_cache_prologue cf (fan_hist (FoIn true :: o))) as (H1 & H2 & _).
  rewrite (trun_start cf o Hn) in H1, H2. cbn [tp_gops] in H1, H2. rewrite !map_length in H2. split; [|exact H2].
  rewrite H1. unfold cache_evs, fo_items. rewrite lastn_map, concat_map, !map_map.
  set (G := pgops (cf_ts_gop cf) (cf_ts_max cf) 0 [] o).
  assert (Hok : Forall (Forall (pair_ok (fo_ts_evs ([FoIn true] ++ o ++ o')))) G).
  { apply (pgops_ok (cf_ts_gop cf) (cf_ts_max cf) o [FoIn true] [] o'). constructor. }
  assert (Hok2 : Forall (Forall (pair_ok (fo_ts_evs (FoIn true :: o ++ o')))) (lastn (cf_ts_gop cf) G)).
  { unfold lastn. apply Forall_skipn. exact Hok. }
  clear Hok. induction (lastn (cf_ts_gop cf) G) as [|g l IH]; [reflexivity|].
  inversion Hok2 as [|? ? Hg Hl]; subst. cbn [map concat]. rewrite map_app, (IH Hl). f_equal.
  clear -Hg. induction g as [|p g IHg]; [reflexivity|]. inversion Hg as [|? ? (j & Hj & Hnth) Hg']; subst.
  cbn [map]. rewrite Hj, (fo_item_ts _ _ _ Hnth), (IHg Hg'). reflexivity.
Qed.

(* ... and (no cap on a GOP) they are the most recent frames of the publication, none missing, starting at a boundary *)
Lemma pgops_suffix gop : forall o n G seen,
  (Nat.ltb 0 gop = true) ->
  (exists pre, seen = pre ++ map snd (concat G) /\ (G = [] \/ True)) -> Forall starts_at_boundary G ->
  (G = [] -> Forall (fun e => te_boundary e = false) seen) ->
  exists pre, seen ++ fo_ts_evs o = pre ++ map snd (concat (pgops gop 0 n G o))
    /\ Forall starts_at_boundary (pgops gop 0 n G o)
    /\ (pgops gop 0 n G o = [] -> Forall (fun e => te_boundary e = false) (seen ++ fo_ts_evs o)).
Proof.
  induction o as [|x o IH]; intros n G seen Hg (pre & Hs & _) Hst Hemp.
  - cbn [pgops fo_ts_evs flat_map]. rewrite app_nil_r. exists pre. auto.
  - destruct x as [st|m|b|e|raw v|a p|k id|id]; cbn [pgops]; unfold fo_ts_evs; cbn [flat_map app]; fold (fo_ts_evs o);
      try (apply IH; [exact Hg|exists pre; auto|exact Hst|exact Hemp]).
    rewrite Hg.
    replace (seen ++ e :: fo_ts_evs o) with ((seen ++ [e]) ++ fo_ts_evs o) by (rewrite <- app_assoc; reflexivity).
    apply IH; [exact Hg| | |].
    + pose proof (gops_feed_concat G (te_boundary e) (LTs n, e)) as Hc.
      destruct (te_boundary e) eqn:Eb.
      * exists pre. split; [|now right]. rewrite Hc, map_app, Hs, <- app_assoc. reflexivity.
      * destruct G as [|g0 G0].
        -- cbn [gops_feed rev]. exists (seen ++ [e]). split; [cbn; now rewrite app_nil_r|now left].
        -- exists pre. split; [|now right]. rewrite Hc, map_app, Hs, <- app_assoc. reflexivity.
    + apply gops_feed_starts; [intro H; exact H|exact Hst].
    + intro HE. destruct (te_boundary e) eqn:Eb.
      * cbn [gops_feed] in HE. destruct G; discriminate.
      * destruct G as [|g0 G0].
        -- apply Forall_app. split; [now apply Hemp|]. constructor; [exact Eb|constructor].
        -- exfalso. revert HE. apply gops_feed_nonempty. discriminate.
Qed.

Theorem cache_evs_suffix cf o : cf_ts_max cf = 0%nat ->
  exists pre, fo_ts_evs o = pre ++ cache_evs cf o
    /\ (cache_evs cf o = [] \/ exists e rest, cache_evs cf o = e :: rest /\ te_boundary e = true)
    /\ ((0 < Nat.min (length (pgops (cf_ts_gop cf) (cf_ts_max cf) 0 [] o)) (cf_ts_gop cf))%nat -> cache_evs cf o <> []).
Proof.
  intro Hmax. unfold cache_evs. rewrite Hmax.
  destruct (Nat.ltb 0 (cf_ts_gop cf)) eqn:Hg.
  2:{ apply Nat.ltb_ge in Hg. replace (cf_ts_gop cf) with 0%nat by lia. unfold lastn. rewrite Nat.sub_0_r, skipn_all. cbn.
      exists (fo_ts_evs o). rewrite app_nil_r. split; [reflexivity|]. split; [now left|]. rewrite Nat.min_0_r. lia. }
  destruct (pgops_suffix (cf_ts_gop cf) o 0 [] [] Hg) as (pre & Hs & Hst & _).
  - exists []. split; [reflexivity|now left].
  - constructor.
  - constructor.
  - cbn [app] in Hs. set (G := pgops (cf_ts_gop cf) 0 0 [] o) in *.
    unfold lastn. set (k := (length G - cf_ts_gop cf)%nat).
    assert (Hst2 : Forall starts_at_boundary (skipn k G)) by (apply Forall_skipn; exact Hst).
    exists (pre ++ map snd (concat (firstn k G))). split; [|split].
    + rewrite Hs, <- app_assoc, <- map_app, <- concat_app, firstn_skipn. reflexivity.
    + destruct (skipn k G) as [|g l]; [now left|]. right. inversion Hst2 as [|? ? (p & rest & -> & Hp) _]; subst.
      cbn [concat app map]. exists (snd p), (map snd (rest ++ concat l)). split; [reflexivity|exact Hp].
    + intro Hpos. apply Nat.ltb_lt in Hg.
      assert (Hlen : (k < length G)%nat) by (unfold k; lia).
      destruct (skipn k G) as [|g l] eqn:Esk.
      * exfalso. pose proof (skipn_length k G) as Hl. rewrite Esk in Hl. cbn [length] in Hl. lia.
      * inversion Hst2 as [|? ? (p & rest & -> & Hp) _]; subst. cbn [concat app map]. discriminate.
Qed.

(* ====================================================================== *)
(* HTTP-TS: a session that joins at ANY point of a publication *)

Lemma fan_hist_app a b : fan_hist (a ++ b) = fan_hist a ++ fan_hist b.
Proof. apply map_app. Qed.

(* the composed history holds no leave and no Dispose: whoever joins stays *)
Lemma attached_fan id k o : k <> KPush -> attached id k (fan_hist o).
Proof.
  intro Hk. induction o as [|x o IH]; [exact I|]. unfold fan_hist in *. cbn [map].
  destruct x as [[|]|m|b|e|raw v|a p|k' id'|id']; cbn [fo_ev attached]; auto.
Qed.

Lemma no_ts_fan o : fo_ts_evs o = [] -> no_ts (fan_hist o).
Proof.
  induction o as [|x o IH]; [intros _; exact I|]. unfold fan_hist, fo_ts_evs in *. cbn [map flat_map].
  destruct x as [[|]|m|b|e|raw v|a p|k' id'|id']; cbn [fo_ev no_ts app]; try exact IH. discriminate.
Qed.

Lemma no_boundary_fan o : Forall (fun e => te_boundary e = false) (fo_ts_evs o) -> no_boundary (fan_hist o).
Proof.
  induction o as [|x o IH]; [intros _; exact I|]. unfold fan_hist, fo_ts_evs in *. cbn [map flat_map].
  destruct x as [[|]|m|b|e|raw v|a p|k' id'|id']; cbn [fo_ev no_boundary app]; try exact IH.
  intro H. inversion H as [|? ? He Ht]; subst. rewrite He. now apply IH.
Qed.

(* the number of cached GOPs a joiner is sent *)
Definition cached_gops (cf : cfg) (o : list fout) : nat :=
  Nat.min (length (pgops (cf_ts_gop cf) (cf_ts_max cf) 0 [] o)) (cf_ts_gop cf).

Definition pat_in_force (o : list fout) : list fitem := match rev (pat_tab o) with [] => [] | b :: _ => [IPat b] end.

Lemma fo_items_app outs a b : fo_items outs (a ++ b) = fo_items outs a ++ fo_items outs b.
Proof. apply map_app. Qed.

Section TsJoin.
  Variable cf : cfg.
  Variables (ob : list fout) (id : N) (o1 : list fout).
  Let body := ob ++ FoJoin KTs id :: o1.
  Hypothesis Hob : no_in_out ob.
  Hypothesis Ho1 : no_in_out o1.
  Hypothesis Hquiet : fo_ts_evs o1 = [].         (* no frame between the join and [e] *)
  Hypothesis Hnew : existsb (fun x => c_id x =? id) (GroupFanout.g_subs (run cf (fan_hist (FoIn true :: ob)))) = false.

  Lemma body_no_in : no_in_out body.
  Proof. unfold body, no_in_out. apply Forall_app. split; [exact Hob|]. constructor; [exact I|exact Ho1]. Qed.

  Lemma pre_hist : fan_hist (FoIn true :: body) = fan_hist (FoIn true :: ob) ++ EvJoin KTs id :: fan_hist o1.
  Proof. unfold body, fan_hist. cbn [map]. rewrite map_app. reflexivity. Qed.

  (* admitted at its first frame: a GOP is cached, or that frame is a boundary *)
  Theorem httpts_join_items e o2 :
    let outs := FoIn true :: body ++ FoTs e :: o2 in
    (0 < cached_gops cf body)%nat \/ te_boundary e = true ->
    exists c', find_sub (run cf (fan_hist outs)) id = Some c' /\ c_kind c' = KTs /\ admitted c' = true /\
      fo_items outs (c_out c') = pat_in_force body ++ map (fun x => ITs (ev_bytes x)) (cache_evs cf body) ++ ts_items (FoTs e :: o2).
  Proof.
    intros outs Hadm.
    pose proof (ts_join_admitted cf (fan_hist (FoIn true :: ob)) id (fan_hist o1) (te_boundary e) (fan_hist o2) Hnew) as H.
    rewrite <- pre_hist in H. cbv zeta in H.
    destruct (ts_cache_items cf body (FoTs e :: o2) body_no_in) as [Hitems Hcount].
    destruct H as (c' & Hf & Hk & Ha & Ho).
    - replace (fan_hist o1 ++ EvTs (te_boundary e) :: fan_hist o2) with (fan_hist (o1 ++ FoTs e :: o2)) by (rewrite fan_hist_app; reflexivity).
      apply attached_fan. discriminate.
    - now apply no_ts_fan.
    - rewrite Hcount. fold (cached_gops cf body). apply Bool.orb_true_iff. destruct Hadm as [Hc|Hb]; [left|right; exact Hb].
      apply Nat.ltb_lt. exact Hc.
    - exists c'. split.
      { replace (fan_hist outs) with (fan_hist (FoIn true :: ob) ++ EvJoin KTs id :: fan_hist o1 ++ EvTs (te_boundary e) :: fan_hist o2); [exact Hf|].
        unfold outs, body, fan_hist. cbn [map]. rewrite !map_app. cbn [map]. rewrite <- app_assoc. cbn [app]. reflexivity. }
      split; [exact Hk|]. split; [exact Ha|].
      rewrite Ho, !fo_items_app. unfold outs. f_equal; [|f_equal].
      + exact (patpmt_item cf body (FoTs e :: o2) body_no_in).
      + exact Hitems.
      + destruct (run_counters cf (FoIn true :: body)) as (C1 & C2 & _). rewrite C1, C2.
        change (EvTs (te_boundary e) :: fan_hist o2) with (fan_hist (FoTs e :: o2)).
        replace (FoIn true :: body ++ FoTs e :: o2) with ((FoIn true :: body) ++ (FoTs e :: o2) ++ []) by (rewrite app_nil_r; reflexivity).
        apply fo_items_ts_units.
  Qed.

  (* nothing cached and the first frame is no boundary: the PAT/PMT blocks, and from the first boundary on everything *)
  Theorem httpts_join_items_waiting e o2 e3 o3 :
    let outs := FoIn true :: body ++ FoTs e :: o2 ++ FoTs e3 :: o3 in
    cached_gops cf body = 0%nat -> te_boundary e = false ->
    Forall (fun x => te_boundary x = false) (fo_ts_evs o2) -> te_boundary e3 = true ->
    exists c', find_sub (run cf (fan_hist outs)) id = Some c' /\ c_kind c' = KTs /\ admitted c' = true /\
      fo_items outs (c_out c') = pat_in_force body ++ pat_items o2 ++ ts_items (FoTs e3 :: o3).
  Proof.
    intros outs Hcnt He Hq2 He3.
    pose proof (ts_join_waiting cf (fan_hist (FoIn true :: ob)) id (fan_hist o1) (fan_hist o2) (te_boundary e3) (fan_hist o3) Hnew) as H.
    rewrite <- pre_hist in H. cbv zeta in H.
    destruct (ts_cache_items cf body (FoTs e :: o2 ++ FoTs e3 :: o3) body_no_in) as [_ Hcount].
    destruct H as (c' & Hf & Hk & Ha & Ho).
    - replace (fan_hist o1 ++ EvTs false :: fan_hist o2 ++ EvTs true :: fan_hist o3) with (fan_hist (o1 ++ FoTs e :: o2 ++ FoTs e3 :: o3))
        by (rewrite !fan_hist_app; unfold fan_hist; cbn [map fo_ev]; rewrite map_app; cbn [map fo_ev]; now rewrite He, He3).
      apply attached_fan. discriminate.
    - now apply no_ts_fan.
    - now apply no_boundary_fan.
    - exact He3.
    - rewrite Hcount. exact Hcnt.
    - exists c'. split.
      { replace (fan_hist outs) with (fan_hist (FoIn true :: ob) ++ EvJoin KTs id :: fan_hist o1 ++ EvTs false :: fan_hist o2 ++ EvTs (te_boundary e3) :: fan_hist o3); [exact Hf|].
        unfold outs, body, fan_hist. cbn [map]. rewrite !map_app. cbn [map]. rewrite <- app_assoc. cbn [app]. rewrite !map_app. cbn [map fo_ev]. now rewrite He. }
      split; [exact Hk|]. split; [exact Ha|].
      rewrite Ho, !fo_items_app. unfold outs. f_equal; [|f_equal].
      + exact (patpmt_item cf body (FoTs e :: o2 ++ FoTs e3 :: o3) body_no_in).
      + destruct (run_counters cf (FoIn true :: body)) as (_ & C2 & _). rewrite C2.
        replace (FoIn true :: body ++ FoTs e :: o2 ++ FoTs e3 :: o3) with (((FoIn true :: body) ++ [FoTs e]) ++ o2 ++ (FoTs e3 :: o3))
          by (rewrite <- app_assoc; reflexivity).
        replace (length (pat_tab (FoIn true :: body))) with (length (pat_tab ((FoIn true :: body) ++ [FoTs e])))
          by (unfold pat_tab; rewrite tab_app; cbn [flat_map app]; now rewrite app_nil_r).
        apply fo_items_pat_units.
      + assert (E2 : fan_hist (FoIn true :: ob) ++ EvJoin KTs id :: fan_hist o1 ++ EvTs false :: fan_hist o2
                     = fan_hist ((FoIn true :: body) ++ FoTs e :: o2)).
        { unfold body, fan_hist. cbn [map]. rewrite !map_app. cbn [map fo_ev]. rewrite He, map_app. cbn [map fo_ev app].
          rewrite <- app_assoc. reflexivity. }
        rewrite E2.
        destruct (run_counters cf ((FoIn true :: body) ++ FoTs e :: o2)) as (C1 & C2 & _). rewrite C1, C2.
        replace (EvTs true :: fan_hist o3) with (fan_hist (FoTs e3 :: o3)) by (unfold fan_hist; cbn [map fo_ev]; now rewrite He3).
        replace (FoIn true :: body ++ FoTs e :: o2 ++ FoTs e3 :: o3) with (((FoIn true :: body) ++ FoTs e :: o2) ++ (FoTs e3 :: o3) ++ [])
          by (rewrite app_nil_r, <- app_assoc; reflexivity).
        apply fo_items_ts_units.
  Qed.
End TsJoin.

(* ====================================================================== *)
(* RTSP: a player that describes, sets up and plays at ANY point of a publication *)

Lemma g_next_sdp_step cf s e :
  g_next_sdp (step cf s e) = match e with EvSdp _ => S (g_next_sdp s) | _ => g_next_sdp s end.
Proof.
  destruct e as [m|k id|id| | |b| |v|pid|raw|]; cbn [step].
  - unfold publish. destruct (Nat.eqb _ 0); [reflexivity|].
    rewrite rtmp_loop_spec.
    destruct (has_kind KRtmp _); [destruct (cf_merge cf =? 0); [|destruct (cf_merge cf <=? _)]|]; reflexivity.
  - destruct (existsb _ _); reflexivity.
  - destruct (partition _ _); reflexivity.
  - destruct (g_in s); reflexivity.
  - destruct (negb (g_in s)); [reflexivity|]. destruct (partition _ _); reflexivity.
  - reflexivity.
  - reflexivity.
  - reflexivity.
  - reflexivity.
  - reflexivity.
  - reflexivity.
Qed.

Definition last_sdp_label (n : nat) (prev : option label) (o : list fout) : option label :=
  match sdp_tab o with [] => prev | _ => Some (LSdp (n + length (sdp_tab o) - 1)) end.

Lemma fold_sdp cf : forall o s, no_in_out o ->
  g_sdp (fold_left (step cf) (fan_hist o) s) = last_sdp_label (g_next_sdp s) (g_sdp s) o.
Proof.
  induction o as [|x o IH]; intros s Hn; [reflexivity|].
  inversion Hn as [|? ? Hx Ho]; subst. unfold fan_hist in *. cbn [map fold_left]. rewrite (IH _ Ho).
  unfold last_sdp_label. rewrite g_next_sdp_step.
  destruct x as [st|m|b|e|raw v|a p|k id|id]; cbn [fo_ev sdp_tab flat_map app]; try reflexivity; try contradiction.
  - cbn [step]. unfold publish. destruct (Nat.eqb _ 0); [reflexivity|].
    rewrite rtmp_loop_spec.
    destruct (has_kind KRtmp _); [destruct (cf_merge cf =? 0); [|destruct (cf_merge cf <=? _)]|]; reflexivity.
  - cbn [step g_sdp g_next_sdp]. fold (sdp_tab o). destruct (sdp_tab o) as [|y l]; cbn [length].
    + f_equal. f_equal. lia.
    + f_equal. f_equal. lia.
  - cbn [step]. destruct (existsb _ _); reflexivity.
Qed.

Definition sdp_in_force (o : list fout) : list fitem := match rev (sdp_tab o) with [] => [] | b :: _ => [ISdp b] end.

Lemma sdp_item cf o o' : no_in_out o ->
  map (fo_item (FoIn true :: o ++ o')) (opt_list (g_sdp (run cf (fan_hist (FoIn true :: o))))) = sdp_in_force o.
Proof.
  intro Hn. unfold run, fan_hist. cbn [map fold_left fo_ev]. fold (fan_hist o).
  rewrite (fold_sdp cf o _ Hn). unfold last_sdp_label, sdp_in_force.
  assert (H0 : g_next_sdp (step cf (GroupFanout.g_init cf) EvInStart) = 0%nat /\ g_sdp (step cf (GroupFanout.g_init cf) EvInStart) = None) by (split; reflexivity).
  destruct H0 as [H0 H1]. rewrite H0, H1.
  destruct (rev (sdp_tab o)) as [|b r] eqn:Er.
  - assert (E : sdp_tab o = []) by (rewrite <- (rev_involutive (sdp_tab o)), Er; reflexivity). rewrite E. reflexivity.
  - assert (E : sdp_tab o = rev r ++ [b]) by (rewrite <- (rev_involutive (sdp_tab o)), Er; reflexivity).
    rewrite E, match_snoc. cbn [opt_list map fo_item]. unfold sdp_tab in *. cbn [flat_map app]. rewrite tab_app, E.
    rewrite app_length. cbn [length plus]. replace (length (rev r) + 1 - 1)%nat with (length (rev r)) by lia.
    rewrite <- app_assoc. rewrite nth_error_app_len. reflexivity.
Qed.

Lemma join_find cf s k id :
  existsb (fun x => c_id x =? id) (GroupFanout.g_subs s) = false ->
  find_sub (step cf s (EvJoin k id)) id = Some (new_consumer s k id).
Proof.
  intro Hn. cbn [step]. rewrite Hn. unfold set_subs, find_sub. cbn [GroupFanout.g_subs].
  assert (Hnone : find (idp id) (GroupFanout.g_subs s) = None).
  { destruct (find (idp id) (GroupFanout.g_subs s)) as [x|] eqn:E; [|reflexivity].
    apply find_some in E. destruct E as [Hin Hp].
    assert (existsb (fun x => c_id x =? id) (GroupFanout.g_subs s) = true) by (apply existsb_exists; exists x; split; [exact Hin|exact Hp]).
    congruence. }
  clear Hn. induction (GroupFanout.g_subs s) as [|x l IH]; cbn [app find].
  - unfold idp, new_consumer. cbn [c_id]. now rewrite N.eqb_refl.
  - cbn [find] in Hnone. destruct (idp id x); [discriminate|]. now apply IH.
Qed.

(* DESCRIBE answered with the SDP in force, SETUP, PLAY: the session plays, and waits for a GOP start iff the group knows a video codec *)
Lemma rtsp_join_play cf s id l :
  existsb (fun x => c_id x =? id) (GroupFanout.g_subs s) = false -> g_sdp s = Some l ->
  find_sub (step cf (step cf s (EvJoin KRtsp id)) (EvPlay id)) id = Some (mk_consumer id KRtsp false (g_video_known s) [l]).
Proof.
  intros Hn Hs. pose proof (join_find cf s KRtsp id Hn) as Hj.
  set (s1 := step cf s (EvJoin KRtsp id)) in *.
  assert (Hvk : g_video_known s1 = g_video_known s) by (unfold s1; cbn [step]; rewrite Hn; reflexivity).
  cbn [step]. unfold set_subs, find_sub in *. cbn [GroupFanout.g_subs].
  rewrite find_map_id by (intro; apply play_step_id). rewrite Hj. cbn [option_map]. f_equal.
  unfold play_step, new_consumer, no_sdp_yet. rewrite Hs, Hvk. cbn [c_id c_kind c_fresh c_out opt_list ckind_eqb negb andb].
  rewrite N.eqb_refl. cbn [andb]. unfold c_set. cbn. now destruct (g_video_known s).
Qed.

Section RtspJoin.
  Variable cf : cfg.
  Variables (ob : list fout) (id : N).
  Hypothesis Hob : no_in_out ob.
  Hypothesis Hnew : existsb (fun x => c_id x =? id) (GroupFanout.g_subs (run cf (fan_hist (FoIn true :: ob)))) = false.
  Let s0 := run cf (fan_hist (FoIn true :: ob)).
  Hypothesis Hsdp : g_sdp s0 <> None.       (* the RTSP remuxer has announced its SDP *)
  Let pre := FoIn true :: ob ++ [FoJoin KRtsp id; FoPlay id].

  Lemma pre_run : exists l, g_sdp s0 = Some l /\
    find_sub (run cf (fan_hist pre)) id = Some (mk_consumer id KRtsp false (g_video_known s0) [l]).
  Proof.
    destruct (g_sdp s0) as [l|] eqn:E; [|congruence]. exists l. split; [reflexivity|].
    unfold pre. replace (fan_hist (FoIn true :: ob ++ [FoJoin KRtsp id; FoPlay id]))
      with (fan_hist (FoIn true :: ob) ++ [EvJoin KRtsp id; EvPlay id]) by (unfold fan_hist; cbn [map]; now rewrite map_app).
    rewrite run_app. cbn [fold_left]. now apply rtsp_join_play.
  Qed.

  Lemma pre_sdp_item l o' : g_sdp s0 = Some l -> [fo_item (pre ++ o') l] = sdp_in_force ob.
  Proof.
    intro E. pose proof (sdp_item cf ob ([FoJoin KRtsp id; FoPlay id] ++ o') Hob) as H. fold s0 in H. rewrite E in H.
    cbn [opt_list map] in H. unfold pre. cbn [app] in *. rewrite <- app_assoc. exact H.
  Qed.

  Lemma pre_rtp_count : g_next_rtp (run cf (fan_hist pre)) = length (rtp_tab pre).
  Proof. now destruct (run_counters cf pre) as (_ & _ & C). Qed.

  (* no wait configured, or no video codec known: everything from PLAY on *)
  Theorem rtsp_join_items_open o1 :
    cf_rtsp_wait cf && g_video_known s0 = false ->
    exists c', find_sub (run cf (fan_hist (pre ++ o1))) id = Some c' /\ c_kind c' = KRtsp /\
      fo_items (pre ++ o1) (c_out c') = sdp_in_force ob ++ rtp_items o1.
  Proof.
    intro Hw. destruct pre_run as (l & El & Hf).
    set (c := mk_consumer id KRtsp false (g_video_known s0) [l]) in *.
    assert (Ha : rtsp_admitted cf c = true).
    { unfold rtsp_admitted, c. cbn [c_fresh c_wait negb andb]. destruct (cf_rtsp_wait cf), (g_video_known s0); cbn in *; congruence. }
    destruct (rtsp_contiguous_run cf (fan_hist pre) (fan_hist o1) id c Hf eq_refl Ha) as (c' & Hf' & Hk' & _ & Ho').
    { apply attached_fan. discriminate. }
    exists c'. split; [now rewrite fan_hist_app|]. split; [exact Hk'|].
    rewrite Ho', fo_items_app. cbn [c_out c]. f_equal.
    - exact (pre_sdp_item l o1 El).
    - rewrite pre_rtp_count. replace (pre ++ o1) with (pre ++ o1 ++ []) by now rewrite app_nil_r. apply fo_items_rtp_units.
  Qed.

  (* OutWaitKeyFrameFlag and a video codec known: nothing during [q] (no packet of it starts a GOP),
     then from the first GOP-start packet on everything *)
  Theorem rtsp_join_items_gate q a p pt o2 :
    cf_rtsp_wait cf = true -> g_video_known s0 = true ->
    quiet cf (run cf (fan_hist pre)) (fan_hist q) ->
    rtp_pt (fan_raw a p) = Some pt -> rtp_boundary_at (run cf (fan_hist (pre ++ q))) (fan_raw a p) = true ->
    let outs := pre ++ q ++ FoRtp a p :: o2 in
    exists c', find_sub (run cf (fan_hist outs)) id = Some c' /\ rtsp_admitted cf c' = true /\
      fo_items outs (c_out c') = sdp_in_force ob ++ rtp_items (FoRtp a p :: o2).
  Proof.
    intros Hw Hvk Hq Hpt Hb outs. destruct pre_run as (l & El & Hf).
    set (c := mk_consumer id KRtsp false (g_video_known s0) [l]) in *.
    rewrite fan_hist_app in Hb.
    destruct (rtsp_gate_run cf (fan_hist pre) (fan_hist q) (fan_raw a p) pt (fan_hist o2) id c Hw Hf eq_refl eq_refl) as (c' & Hf' & Ha' & Ho').
    - unfold c. cbn [c_wait]. exact Hvk.
    - replace (fan_hist q ++ EvRtp (fan_raw a p) :: fan_hist o2) with (fan_hist (q ++ FoRtp a p :: o2)) by (rewrite fan_hist_app; reflexivity).
      apply attached_fan. discriminate.
    - exact Hq.
    - exact Hpt.
    - exact Hb.
    - exists c'. split.
      { unfold outs. rewrite !fan_hist_app. exact Hf'. }
      split; [exact Ha'|].
      rewrite Ho', fo_items_app. cbn [c_out c]. f_equal.
      + exact (pre_sdp_item l (q ++ FoRtp a p :: o2) El).
      + rewrite <- fan_hist_app. destruct (run_counters cf (pre ++ q)) as (_ & _ & C). rewrite C.
        change (EvRtp (fan_raw a p) :: fan_hist o2) with (fan_hist (FoRtp a p :: o2)).
        unfold outs. replace (pre ++ q ++ FoRtp a p :: o2) with ((pre ++ q) ++ (FoRtp a p :: o2) ++ []) by (rewrite app_nil_r, <- app_assoc; reflexivity).
        apply fo_items_rtp_units.
  Qed.
End RtspJoin.
