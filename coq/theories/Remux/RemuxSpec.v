(* Specification vocabulary of C06 (no proofs, nothing of lal's byte
   manipulation): what a frame published over RTMP is, which NAL units a TS
   consumer / an RTSP consumer is entitled to, a demultiplexer for a
   multi-PID transport stream on top of C09's reference demultiplexer, an ADTS
   reader written from ISO 14496-3 1.A.2 in terms of bit strings. *)
From Lal Require Import Common.LBytes Codec.CodecBits Rtp.RtpPacker Mpegts.TsDemux.
Open Scope N_scope.

(* ---- NAL unit classes (H.264 table 7-1, H.265 table 7-1) ---- *)
Definition nal_type (c : vcodec) (u : bytes) : N :=
  match c with Avc => nth 0 u 0 mod 32 | Hevc => (nth 0 u 0 / 2) mod 64 end.

Definition is_aud_type (c : vcodec) (t : N) : bool := match c with Avc => t =? 9 | Hevc => t =? 35 end.
Definition is_param_type (c : vcodec) (t : N) : bool :=
  match c with Avc => (t =? 7) || (t =? 8) | Hevc => (t =? 32) || (t =? 33) || (t =? 34) end.
Definition is_hevc_sei_type (c : vcodec) (t : N) : bool :=
  match c with Avc => false | Hevc => (t =? 39) || (t =? 40) end.
Definition is_key_type (c : vcodec) (t : N) : bool :=
  match c with Avc => t =? 5 | Hevc => (16 <=? t) && (t <=? 23) end.

(* the units of a published frame that a TS consumer must get back: everything
   but access unit delimiters, parameter sets and H.265 SEI *)
Definition ts_payload_unit (c : vcodec) (u : bytes) : bool :=
  let t := nal_type c u in negb (is_aud_type c t || is_param_type c t || is_hevc_sei_type c t).
(* ... and an RTSP consumer: everything but access unit delimiters *)
Definition rtp_payload_unit (c : vcodec) (u : bytes) : bool := negb (is_aud_type c (nal_type c u)).

Definition is_aud_unit (c : vcodec) (u : bytes) : bool := is_aud_type c (nal_type c u).
Definition is_param_unit (c : vcodec) (u : bytes) : bool := is_param_type c (nal_type c u).

(* ---- transport stream with several PIDs ---- *)
Definition pkt_pid (p : bytes) : N := (nth 1 p 0 mod 32) * 256 + nth 2 p 0.

(* the access units of one elementary stream of a transport stream: the
   packets of its PID, in order, through C09's reference demultiplexer *)
Definition demux_pid (pid : N) (pkts : list bytes) : option (list access_unit) :=
  demux_stream (filter (fun p => pkt_pid p =? pid) pkts).

(* ---- ADTS (ISO 14496-3 1.A.2): adts_fixed_header + adts_variable_header as
   bit fields, msb first ---- *)
Record adts_hdr := mk_adts_hdr {
  ah_syncword : N; ah_id : N; ah_layer : N; ah_protection_absent : N;
  ah_profile : N; ah_sfi : N; ah_private : N; ah_chan : N;
  ah_original : N; ah_home : N; ah_cp_bit : N; ah_cp_start : N;
  ah_frame_length : N; ah_fullness : N; ah_blocks : N }.

Definition field (bs : bits) (pos len : nat) : N := bits_val (firstn len (skipn pos bs)).

Definition read_adts_hdr (h : bytes) : adts_hdr :=
  let b := bits_of_bytes h in
  mk_adts_hdr (field b 0 12) (field b 12 1) (field b 13 2) (field b 15 1)
              (field b 16 2) (field b 18 4) (field b 22 1) (field b 23 3)
              (field b 26 1) (field b 27 1) (field b 28 1) (field b 29 1)
              (field b 30 13) (field b 43 11) (field b 54 2).

(* adts_frame()* without CRC, one raw data block each, tiling the buffer *)
Fixpoint split_adts (fuel : nat) (b : bytes) : option (list (adts_hdr * bytes)) :=
  match b with
  | [] => Some []
  | _ =>
    match fuel with
    | O => None
    | S f =>
      if lenN b <? 7 then None else
      let h := read_adts_hdr (firstn 7 b) in
      if negb ((ah_syncword h =? 4095) && (ah_layer h =? 0) && (ah_protection_absent h =? 1) && (ah_blocks h =? 0)) then None
      else if (ah_frame_length h <? 7) || (lenN b <? ah_frame_length h) then None
      else
        match split_adts f (skipn (N.to_nat (ah_frame_length h)) b) with
        | Some r => Some ((h, firstn (N.to_nat (ah_frame_length h) - 7) (skipn 7 b)) :: r)
        | None => None
        end
    end
  end.

(* AudioSpecificConfig (ISO 14496-3 1.6.2.1), the fields in front of the
   GASpecificConfig, no escape codes: 5 bits object type, 4 bits sampling
   frequency index, 4 bits channel configuration *)
Definition asc_object_type (asc : bytes) : N := field (bits_of_bytes asc) 0 5.
Definition asc_sampling_index (asc : bytes) : N := field (bits_of_bytes asc) 5 4.
Definition asc_channel_config (asc : bytes) : N := field (bits_of_bytes asc) 9 4.

(* an ADTS header agrees with an AudioSpecificConfig: MPEG-4 (ID 0), profile =
   object type - 1, same sampling index, same channel configuration *)
Definition adts_matches_asc (h : adts_hdr) (asc : bytes) : Prop :=
  ah_id h = 0 /\ ah_profile h + 1 = asc_object_type asc /\
  ah_sfi h = asc_sampling_index asc /\ ah_chan h = asc_channel_config asc.
