(* lal pkg/remux/rtmp2mpegts_filter__timestamp.go: Rtmp2MpegtsTimestampFilter.
   One base per track (the DTS of the first frame of the track, the sentinel
   math.MaxUint64 = "not set yet"); a later DTS that is not below the base is
   rebased, a DTS BELOW the base is left as it is (only a warning is logged);
   PTS is recomputed as DTS + 90 * CTS in uint64.  No proofs here. *)
From Lal Require Import Common.LBytes.
Open Scope N_scope.

Definition max_u64 : N := 18446744073709551615.   (* math.MaxUint64 *)

Definition sid_audio : N := 192.   (* mpegts.StreamIdAudio *)
Definition sid_video : N := 224.   (* mpegts.StreamIdVideo *)
Definition pid_video : N := 256.   (* mpegts.PidVideo *)
Definition pid_audio : N := 257.   (* mpegts.PidAudio *)

Record tsfilter := mk_tsfilter { tf_abase : N; tf_vbase : N }.

Definition tsfilter_init : tsfilter := mk_tsfilter max_u64 max_u64.

(* one track: the new base and the rebased dts *)
Definition rebase (base dts : N) : N * N :=
  let base' := if base =? max_u64 then dts else base in
  (base', if dts <? base' then dts else dts - base').

(* Do(frame): the filter afterwards, frame.Dts and frame.Pts afterwards.
   A stream id that is neither audio nor video leaves the frame alone. *)
Definition tsfilter_do (f : tsfilter) (sid dts pts cts : N) : tsfilter * N * N :=
  if sid =? sid_audio then
    let (b, d) := rebase (tf_abase f) dts in
    (mk_tsfilter b (tf_vbase f), d, u64 (d + 90 * cts))
  else if sid =? sid_video then
    let (b, d) := rebase (tf_vbase f) dts in
    (mk_tsfilter (tf_abase f) b, d, u64 (d + 90 * cts))
  else (f, dts, pts).
