(* lal pkg/remux/rtmp2mpegts_filter__timestamp.go: Rtmp2MpegtsTimestampFilter.
   One base per track (the DTS of the first frame of the track, the sentinel
   math.MaxUint64 = "not set yet"); every later DTS is rebased: DTS - base, and
   for a DTS BELOW the base (clock restart, 32-bit wrap of the RTMP time stamp)
   2^33 - (base - DTS) mod 2^33, i.e. the same distance on the 33-bit clock of
   MPEG-TS.  PTS is recomputed as DTS + 90 * CTS in uint64.  No proofs here. *)
From Lal Require Import Common.LBytes.
Open Scope N_scope.

Definition max_u64 : N := 18446744073709551615.   (* math.MaxUint64 *)

Definition sid_audio : N := 192.   (* mpegts.StreamIdAudio *)
Definition sid_video : N := 224.   (* mpegts.StreamIdVideo *)
Definition pid_video : N := 256.   (* mpegts.PidVideo *)
Definition pid_audio : N := 257.   (* mpegts.PidAudio *)

Record tsfilter := mk_tsfilter { tf_abase : N; tf_vbase : N }.

Definition tsfilter_init : tsfilter := mk_tsfilter max_u64 max_u64.

Definition ts_clock : N := 8589934592.   (* mpegtsClockModulus = 2^33 *)

(* rebaseDts(dts, base): a dts below the base keeps its distance to the base on
   the 33-bit clock (lal fix "keeps a dts below the first one of its track ...") *)
Definition rebase_dts (dts base : N) : N :=
  if dts <? base then (ts_clock - (base - dts) mod ts_clock) mod ts_clock else dts - base.

(* one track: the new base and the rebased dts *)
Definition rebase (base dts : N) : N * N :=
  let base' := if base =? max_u64 then dts else base in
  (base', rebase_dts dts base').

(* the pinned tree: a dts below the base was left as it was (F-23) *)
Definition rebase_pinned (base dts : N) : N * N :=
  let base' := if base =? max_u64 then dts else base in
  (base', if dts <? base' then dts else dts - base').

(* Do(frame): the filter afterwards, frame.Dts and frame.Pts afterwards.
   A stream id that is neither audio nor video leaves the frame alone. *)
Definition tsfilter_do (f : tsfilter) (sid dts pts cts : N) : tsfilter * N * N :=
  if sid =? sid_audio then
    let (b, d) := rebase (tf_abase f) dts in
    (mk_tsfilter b (tf_vbase f), d, u64 (d + 90 * cts))
  else if sid =? sid_video then
    let (b, d) := rebase (tf_vbase f) dts in
    (mk_tsfilter (tf_abase f) b, d, u64 (d + 90 * cts))
  else (f, dts, pts).
