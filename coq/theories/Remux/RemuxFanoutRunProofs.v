(* C06: the publication of RemuxFanout.v as a run of the two remuxers.
   What the group is handed during [fan_outs] IS the output of
   Rtmp2MpegtsRemuxer (with hls.Muxer of the group as its observer) over the
   published messages, then its Dispose, and the output of Rtmp2RtspRemuxer
   over the same messages: the invariants of RemuxRunProofs / RemuxRunWfProofs
   (per-track chains, well-formed frames) hold of it, and any run of
   consecutive frames of it demultiplexes, per track, to those frames. *)
From Coq Require Import List Arith Bool Lia NArith ZArith.
From Lal Require Import Common.LBytes Common.Res Group.GroupMsg Group.GroupFanout
  Mpegts.TsPack Mpegts.TsPackProofs Mpegts.TsDemux Mpegts.TsStreamProofs Rtp.RtpPacker
  Remux.RemuxSpec Remux.RemuxTsTimestamp Remux.RemuxRtmp2Ts Remux.RemuxTsFilter Remux.RemuxRtmp2Rtp
  Remux.RemuxChainProofs Remux.RemuxDemuxProofs Remux.RemuxWfProofs Remux.RemuxRunProofs Remux.RemuxRunWfProofs
  Remux.RemuxFanout Remux.RemuxFanoutProofs.
From Lal Require Remux.RemuxGroup Hls.HlsMuxer.
Import ListNotations.
Open Scope N_scope.

(* the remuxer's callbacks inside what happens at the group *)
Definition ts_outs (o : list fout) : list tsout :=
  flat_map (fun x => match x with FoPat b => [OutPatPmt b] | FoTs e => [OutTs e] | _ => [] end) o.
Definition fo_rtps (o : list fout) : list (bool * rtp_packet) :=
  flat_map (fun x => match x with FoRtp a p => [(a, p)] | _ => [] end) o.
Definition rout_rtps (l : list rout) : list (bool * rtp_packet) :=
  flat_map (fun x => match x with RRtp a p => [(a, p)] | _ => [] end) l.

(* the messages that reach the remuxers (broadcastByRtmpMsg returns early on an empty payload) *)
Definition fev_msgs (evs : list fevent) : list rmsg :=
  flat_map (fun e => match e with FMsg m | FMeta _ _ m => if lenN (rm_payload m) =? 0 then [] else [m] | _ => [] end) evs.
Definition fev_rins (evs : list fevent) : list rin :=
  flat_map (fun e => match e with
                     | FMsg m => if lenN (rm_payload m) =? 0 then [] else [RMsg m]
                     | FMeta a r m => if lenN (rm_payload m) =? 0 then [] else [RMeta a r]
                     | _ => [] end) evs.

Lemma ts_outs_app a b : ts_outs (a ++ b) = ts_outs a ++ ts_outs b.
Proof. apply flat_map_app. Qed.
Lemma ts_outs_of_tsout l : ts_outs (map of_tsout l) = l.
Proof. induction l as [|x l IH]; [reflexivity|]. cbn [map]. destruct x; cbn [of_tsout ts_outs flat_map app]; fold (ts_outs (map of_tsout l)); now rewrite IH. Qed.
Lemma fo_rtps_app a b : fo_rtps (a ++ b) = fo_rtps a ++ fo_rtps b.
Proof. apply flat_map_app. Qed.
Lemma fo_rtps_of_tsout l : fo_rtps (map of_tsout l) = [].
Proof. induction l as [|x l IH]; [reflexivity|]. cbn [map]. destruct x; cbn [of_tsout fo_rtps flat_map app]; exact IH. Qed.
Lemma ts_events_outs o : ts_events (ts_outs o) = fo_ts_evs o.
Proof.
  induction o as [|x o IH]; [reflexivity|]. unfold ts_outs, fo_ts_evs in *. cbn [flat_map]. rewrite ts_events_app, IH.
  destruct x; reflexivity.
Qed.

Section Run.
  Variable b64_enc hex_enc : bytes -> bytes.
  Variable tool : bytes.
  Variable hc : HlsMuxer.cfg.
  Variable rtsp : bool.

  Notation frun := (f_run b64_enc hex_enc tool hc rtsp).
  Notation fstep := (f_step b64_enc hex_enc tool hc rtsp).

  Lemma routs_ts r1 l : ts_outs (flat_map (of_rout r1) l) = [] /\ no_in_out (flat_map (of_rout r1) l)
    /\ fo_rtps (flat_map (of_rout r1) l) = rout_rtps l.
  Proof.
    induction l as [|x l (I1 & I2 & I3)]; [repeat split; constructor|]. cbn [flat_map]. rewrite ts_outs_app, fo_rtps_app, I1, I3.
    destruct x as [[raw|]|a p]; cbn [of_rout ts_outs fo_rtps rout_rtps flat_map app]; (split; [reflexivity|split; [|reflexivity]]);
      unfold no_in_out in *; cbn [app]; try exact I2; constructor; try exact I; exact I2.
  Qed.

  Lemma attach_spec s s' o : attach s = (s', o) ->
    f_x s' = f_x s /\ f_r s' = f_r s /\ ts_outs o = [] /\ fo_rtps o = [] /\ no_in_out o.
  Proof.
    unfold attach. destruct (f_sdp s); intro H; injection H as <- <-; [|repeat split; constructor].
    cbn [f_x f_r]. split; [reflexivity|]. split; [reflexivity|].
    induction (f_pend s) as [|i l (I1 & I2 & I3)]; [repeat split; constructor|]. cbn [flat_map app ts_outs fo_rtps].
    split; [exact I1|]. split; [exact I2|]. unfold no_in_out in *. constructor; [exact I|]. constructor; [exact I|exact I3].
  Qed.

  Lemma map_of_tsout_no_in l : no_in_out (map of_tsout l).
  Proof. unfold no_in_out. apply Forall_map. apply Forall_forall. intros x _. destruct x; exact I. Qed.

  (* one event: at most one message goes through both remuxers *)
  Lemma f_step_spec s e s' o : fstep s e = (s', o) ->
    no_in_out o /\
    match (match e with FMsg m | FMeta _ _ m => if lenN (rm_payload m) =? 0 then None else Some m | _ => None end) with
    | None => f_x s' = f_x s /\ ts_outs o = [] /\ f_r s' = f_r s /\ fo_rtps o = []
    | Some m =>
        (exists g g1, feed_rtmp_message RemuxGroup.gstate (RemuxGroup.g_decide hc) (RemuxGroup.g_apply hc) RemuxGroup.g_onpatpmt (f_x s) g m
                      = (f_x s', g1, ts_outs o)) /\
        (if rtsp then exists routs, feed_rtmp_msg b64_enc hex_enc tool true (f_r s) (match e with FMeta a r _ => RMeta a r | _ => RMsg m end) = (f_r s', routs)
                                    /\ fo_rtps o = rout_rtps routs
         else f_r s' = f_r s /\ fo_rtps o = [])
    end.
  Proof.
    unfold f_step.
    assert (Hmsg : forall m ri s1 o1, f_msg b64_enc hex_enc tool hc rtsp s m ri = (s1, o1) ->
      no_in_out o1 /\
      if lenN (rm_payload m) =? 0 then f_x s1 = f_x s /\ ts_outs o1 = [] /\ f_r s1 = f_r s /\ fo_rtps o1 = []
      else (exists g g1, feed_rtmp_message RemuxGroup.gstate (RemuxGroup.g_decide hc) (RemuxGroup.g_apply hc) RemuxGroup.g_onpatpmt (f_x s) g m
                      = (f_x s1, g1, ts_outs o1)) /\
           (if rtsp then exists routs, feed_rtmp_msg b64_enc hex_enc tool true (f_r s) ri = (f_r s1, routs) /\ fo_rtps o1 = rout_rtps routs
            else f_r s1 = f_r s /\ fo_rtps o1 = [])).
    { intros m ri s1 o1. unfold f_msg. destruct (lenN (rm_payload m) =? 0).
      - cbn [RemuxGroup.g_run]. intro H. injection H as <- <-. cbn [f_x f_r]. split; [repeat constructor|]. repeat split; reflexivity.
      - cbn [RemuxGroup.g_run].
        destruct (feed_rtmp_message RemuxGroup.gstate (RemuxGroup.g_decide hc) (RemuxGroup.g_apply hc) RemuxGroup.g_onpatpmt (f_x s) (f_g s) m)
          as [[x1 g1] touts] eqn:Ef.
        destruct (if rtsp then feed_rtmp_msg b64_enc hex_enc tool true (f_r s) ri else (f_r s, [])) as [r1 routs] eqn:Er.
        intro H. injection H as <- <-. cbn [f_x f_r]. rewrite app_nil_r.
        destruct (routs_ts r1 routs) as (R1 & R2 & R3).
        split.
        { unfold no_in_out in *. apply Forall_app. split; [apply map_of_tsout_no_in|]. apply Forall_app. split; [exact R2|repeat constructor]. }
        rewrite !ts_outs_app, ts_outs_of_tsout, R1. cbn [ts_outs flat_map app]. rewrite app_nil_r.
        split; [exists (f_g s), g1; exact Ef|].
        rewrite !fo_rtps_app, fo_rtps_of_tsout, R3. cbn [fo_rtps flat_map app]. rewrite app_nil_r.
        destruct rtsp; [exists routs; split; [exact Er|reflexivity]|]. injection Er as <- <-. split; reflexivity. }
    destruct e as [m|a r m|jid|jid].
    - destruct (f_msg _ _ _ _ _ s m (RMsg m)) as [s1 o1] eqn:E1. destruct (attach s1) as [s2 o2] eqn:E2.
      intro H. injection H as <- <-. destruct (Hmsg _ _ _ _ E1) as [N1 M1]. destruct (attach_spec _ _ _ E2) as (A1 & A2 & A3 & A4 & A5).
      split; [unfold no_in_out in *; apply Forall_app; now split|].
      rewrite ts_outs_app, fo_rtps_app, A1, A2, A3, A4, !app_nil_r. destruct (lenN (rm_payload m) =? 0); exact M1.
    - destruct (f_msg _ _ _ _ _ s m (RMeta a r)) as [s1 o1] eqn:E1. destruct (attach s1) as [s2 o2] eqn:E2.
      intro H. injection H as <- <-. destruct (Hmsg _ _ _ _ E1) as [N1 M1]. destruct (attach_spec _ _ _ E2) as (A1 & A2 & A3 & A4 & A5).
      split; [unfold no_in_out in *; apply Forall_app; now split|].
      rewrite ts_outs_app, fo_rtps_app, A1, A2, A3, A4, !app_nil_r. destruct (lenN (rm_payload m) =? 0); exact M1.
    - cbn [RemuxGroup.g_run]. destruct (attach _) as [s2 o2] eqn:E2.
      intro H. injection H as <- <-. destruct (attach_spec _ _ _ E2) as (A1 & A2 & A3 & A4 & A5). cbn [f_x f_r] in A1, A2.
      split; [unfold no_in_out in *; constructor; [exact I|exact A5]|].
      cbn [app ts_outs fo_rtps flat_map]. fold (ts_outs o2). fold (fo_rtps o2). rewrite A1, A2, A3, A4. repeat split; reflexivity.
    - cbn [RemuxGroup.g_run]. destruct (attach _) as [s2 o2] eqn:E2.
      intro H. injection H as <- <-. destruct (attach_spec _ _ _ E2) as (A1 & A2 & A3 & A4 & A5). cbn [f_x f_r] in A1, A2.
      split; [exact A5|]. cbn [app]. rewrite A1, A2, A3, A4. repeat split; reflexivity.
  Qed.

  (* the whole sequence of events *)
  Lemma f_run_spec : forall evs s s' o outs0 acts0, frun s evs = (s', o) ->
    run_inv (f_x s) outs0 acts0 -> wf_inv (f_x s) outs0 -> Forall msg_ok (fev_msgs evs) ->
    no_in_out o /\
    run_inv (f_x s') (outs0 ++ ts_outs o) (acts0 ++ map AMsg (fev_msgs evs)) /\
    wf_inv (f_x s') (outs0 ++ ts_outs o) /\
    (rtsp = true -> exists routs, feed_all_msgs b64_enc hex_enc tool true (f_r s) (fev_rins evs) = (f_r s', routs)
                                  /\ fo_rtps o = rout_rtps routs).
  Proof.
    induction evs as [|e evs IH]; intros s s' o outs0 acts0 H Hi Hw Hm.
    - cbn [f_run] in H. injection H as <- <-. cbn [ts_outs flat_map fev_msgs fev_rins map feed_all_msgs]. rewrite !app_nil_r.
      split; [constructor|]. split; [exact Hi|]. split; [exact Hw|]. intros _. exists []. split; reflexivity.
    - cbn [f_run] in H. destruct (fstep s e) as [s1 o1] eqn:E1. destruct (frun s1 evs) as [s2 o2] eqn:E2.
      injection H as <- <-. destruct (f_step_spec _ _ _ _ E1) as [N1 M1].
      unfold fev_msgs, fev_rins in *. cbn [flat_map] in *. fold (fev_msgs evs) in *. fold (fev_rins evs) in *.
      set (mm := match e with FMsg m | FMeta _ _ m => if lenN (rm_payload m) =? 0 then None else Some m | _ => None end) in *.
      assert (Hmm : (match e with FMsg m | FMeta _ _ m => if lenN (rm_payload m) =? 0 then [] else [m] | _ => [] end)
                    = match mm with Some m => [m] | None => [] end).
      { unfold mm. destruct e as [m|a r m|j|j]; try reflexivity; destruct (lenN (rm_payload m) =? 0); reflexivity. }
      rewrite Hmm in *. clear Hmm.
      destruct mm as [m|] eqn:Emm.
      + destruct M1 as [(g & g1 & Ef) Hr].
        apply Forall_app in Hm. destruct Hm as [Hm1 Hm2]. inversion Hm1 as [|? ? Hmok _]; subst.
        pose proof (step_inv _ _ _ _ (f_x s) g outs0 acts0 (AMsg m) _ _ _ Hi Ef) as Hi1.
        pose proof (step_wf _ _ _ _ (f_x s) g outs0 (AMsg m) _ _ _ Hw Hmok Ef) as Hw1.
        destruct (IH s1 s2 o2 _ _ E2 Hi1 Hw1 Hm2) as (N2 & I2 & W2 & R2).
        split; [unfold no_in_out in *; apply Forall_app; now split|].
        rewrite ts_outs_app, map_app, !app_assoc. cbn [map]. split; [exact I2|]. split; [exact W2|].
        intro Hrt. rewrite Hrt in Hr. destruct Hr as (routs1 & Hf1 & Hp1). destruct (R2 Hrt) as (routs2 & Hf2 & Hp2).
        exists (routs1 ++ routs2). rewrite fo_rtps_app, Hp1, Hp2. unfold rout_rtps. rewrite flat_map_app. split; [|reflexivity].
        assert (Hri : (match e with
                       | FMsg m0 => if lenN (rm_payload m0) =? 0 then [] else [RMsg m0]
                       | FMeta a r m0 => if lenN (rm_payload m0) =? 0 then [] else [RMeta a r]
                       | _ => [] end) = [match e with FMeta a r _ => RMeta a r | _ => RMsg m end]).
        { unfold mm in Emm. clear -Emm. destruct e as [m0|a r m0|j|j]; try discriminate; destruct (lenN (rm_payload m0) =? 0); try discriminate; congruence. }
        rewrite Hri. cbn [app feed_all_msgs]. rewrite Hf1, Hf2. reflexivity.
      + destruct M1 as (X1 & T1 & Rr & P1). cbn [app map] in *. rewrite <- X1 in Hi, Hw.
        destruct (IH s1 s2 o2 _ _ E2 Hi Hw Hm) as (N2 & I2 & W2 & R2).
        split; [unfold no_in_out in *; apply Forall_app; now split|].
        rewrite ts_outs_app, T1. cbn [app]. split; [exact I2|]. split; [exact W2|].
        intro Hrt. destruct (R2 Hrt) as (routs2 & Hf2 & Hp2). exists routs2. rewrite fo_rtps_app, P1. cbn [app]. split; [|exact Hp2].
        assert (Hri : (match e with
                       | FMsg m0 => if lenN (rm_payload m0) =? 0 then [] else [RMsg m0]
                       | FMeta a r m0 => if lenN (rm_payload m0) =? 0 then [] else [RMeta a r]
                       | _ => [] end) = []).
        { unfold mm in Emm. clear -Emm. destruct e as [m0|a r m0|j|j]; try reflexivity; destruct (lenN (rm_payload m0) =? 0); try reflexivity; discriminate. }
        rewrite Hri, <- Rr. exact Hf2.
  Qed.

  (* the publication as a whole *)
  Theorem fan_outs_run hls evs g' outs :
    fan_outs b64_enc hex_enc tool hc rtsp hls evs = (g', outs) -> Forall msg_ok (fev_msgs evs) ->
    exists mid x', outs = FoIn true :: mid ++ [FoIn false] /\ no_in_out mid /\
      run_inv x' (ts_outs mid) (map AMsg (fev_msgs evs) ++ [ADispose]) /\
      Forall ev_wf (fo_ts_evs mid) /\
      (rtsp = true -> fo_rtps mid = rout_rtps (run_rtsp b64_enc hex_enc tool (fev_rins evs))).
  Proof.
    unfold fan_outs. intros H Hm.
    destruct (frun (f_init hc hls) evs) as [s o] eqn:E.
    destruct (f_run_spec evs _ _ _ [] [] E run_inv_init) as (N1 & I1 & W1 & R1).
    { split; [exact st_wf_init|split; constructor]. }
    { exact Hm. }
    cbn [app] in I1, W1.
    unfold RemuxGroup.g_finish in H.
    destruct (remuxer_dispose RemuxGroup.gstate (RemuxGroup.g_decide hc) (RemuxGroup.g_apply hc) (f_x s) (f_g s)) as [[x2 g1] o2] eqn:Ed.
    pose proof (step_inv _ _ _ RemuxGroup.g_onpatpmt (f_x s) (f_g s) _ _ ADispose _ _ _ I1 Ed) as I2.
    pose proof (step_wf _ _ _ RemuxGroup.g_onpatpmt (f_x s) (f_g s) _ ADispose _ _ _ W1 I Ed) as W2.
    assert (Hout : outs = FoIn true :: (o ++ map of_tsout o2) ++ [FoIn false]).
    { destruct (RemuxGroup.g_hls g1); [destruct (HlsMuxer.close_fragment _ _ _ _)|]; injection H as _ <-; now rewrite <- app_assoc. }
    exists (o ++ map of_tsout o2), x2. split; [exact Hout|].
    split; [unfold no_in_out in *; apply Forall_app; split; [exact N1|apply map_of_tsout_no_in]|].
    rewrite ts_outs_app, ts_outs_of_tsout. split; [exact I2|]. split.
    - destruct W2 as (_ & W2 & _). rewrite <- ts_events_outs, ts_outs_app, ts_outs_of_tsout. exact W2.
    - intro Hrt. destruct (R1 Hrt) as (routs & Hf & Hp). rewrite fo_rtps_app, fo_rtps_of_tsout, app_nil_r, Hp.
      unfold run_rtsp, run_rtsp_gen. cbn [f_init f_r] in Hf. now rewrite Hf.
  Qed.
End Run.

(* ---- any run of consecutive frames of a publication demultiplexes to those frames, per track ---- *)
Lemma chain_app : forall l1 l2 base cc,
  chain base cc (l1 ++ l2) -> chain base cc l1 /\ chain (fst (chain_end base cc l1)) (snd (chain_end base cc l1)) l2.
Proof.
  induction l1 as [|e l1 IH]; intros l2 base cc H; [split; [exact I|exact H]|].
  cbn [app chain chain_end] in *. destruct H as (H1 & H2 & H3 & H4 & H5). destruct (IH _ _ _ H5) as [A B]. repeat split; assumption.
Qed.

Lemma chain_end_cc l : forall base cc, cc < 256 -> chain base cc l -> snd (chain_end base cc l) < 256.
Proof.
  intros base cc Hcc Hch. pose proof (chain_pack_seq l base cc Hch) as Hp.
  destruct (pack_seq_cc (map te_frame l) cc Hcc) as [_ Hs]. rewrite Hp in Hs. cbn [snd] in Hs. rewrite Hs.
  apply N.mod_lt. discriminate.
Qed.

Theorem suffix_demux s all pre L (audio : bool) :
  chained s all -> Forall ev_wf all -> all = pre ++ L ->
  exists cc, cc < 256 /\
    demux_pid (if audio then pid_audio else pid_video) (ev_packets L) = Some (expected_units cc (map te_frame (track_evs audio L))).
Proof.
  intros Hc Hwf ->.
  pose proof (chained_track _ _ audio Hc) as Hch.
  destruct Hc as ((Ha & _) & (Hv & _) & Hids).
  unfold track_evs in Hch. rewrite filter_app in Hch. destruct (chain_app _ _ _ _ Hch) as [Hc1 Hc2].
  fold (track_evs audio pre) in *. fold (track_evs audio L) in *.
  set (ce := chain_end max_u64 0 (track_evs audio pre)) in *.
  exists (snd ce). split; [apply chain_end_cc; [reflexivity|exact Hc1]|].
  apply Forall_app in Hwf. destruct Hwf as [_ HwL]. apply Forall_app in Hids. destruct Hids as [_ HidL].
  unfold demux_pid. rewrite filter_pid_packets.
  - assert (Ef : filter (fun e => f_pid (te_frame e) =? (if audio then pid_audio else pid_video)) L = track_evs audio L).
    { unfold track_evs. apply filter_ext_in. intros e He. rewrite Forall_forall in HidL.
      destruct audio; unfold is_audio_ev, is_video_ev, ev_sid;
        destruct (HidL e He) as [(Hs & Hp & _)|(Hs & Hp)]; rewrite Hs, Hp; reflexivity. }
    rewrite Ef. apply (chain_demux _ (fst ce) (snd ce)); [apply chain_end_cc; [reflexivity|exact Hc1]|exact Hc2|].
    unfold track_evs. rewrite Forall_forall in HwL |- *. intros e He. apply filter_In in He. apply HwL, He.
  - rewrite Forall_forall in HwL |- *. intros e He. split.
    + rewrite Forall_forall in HidL.
      assert (Hin : In e (track_evs true (pre ++ L)) \/ In e (track_evs false (pre ++ L))).
      { unfold track_evs, is_audio_ev, is_video_ev, ev_sid.
        destruct (HidL e He) as [(Hs & _)|(Hs & _)]; [left|right]; apply filter_In; (split; [apply in_or_app; right; exact He|now rewrite Hs]). }
      assert (Hk : forall l b cc, chain b cc l -> In e l -> pack (te_frame e) = (te_packets e, te_cc e)).
      { induction l as [|x t IH]; intros b cc Hcl Hi; [destruct Hi|].
        cbn [chain] in Hcl. destruct Hcl as (_ & Hp & _ & _ & Ht). destruct Hi as [<-|Hi]; [exact Hp|exact (IH _ _ Ht Hi)]. }
      destruct Hin as [Hin|Hin]; [exact (Hk _ _ _ Ha Hin)|exact (Hk _ _ _ Hv Hin)].
    + destruct (HwL e He) as (_ & _ & Hp & _). exact Hp.
Qed.
