(* C06, one video message: the frame feedVideo emits for it. *)
From Coq Require Import Lia ZifyN ZifyNat ZifyBool.
From Lal Require Import Common.LBytes Common.LBytesProofs Common.Res Group.GroupMsg Codec.CodecBits Codec.CodecAac
  Codec.CodecAvcSeqHeader Codec.CodecHevcSeqHeader Codec.CodecNalFraming Codec.CodecNalFramingProofs Rtp.RtpPacker
  Mpegts.TsPack Remux.RemuxTsTimestamp Remux.RemuxRtmp2Ts Remux.RemuxTsFilter Remux.RemuxSpec
  Remux.RemuxStepProofs Remux.RemuxVideoProofs.
Open Scope N_scope.

Lemma on_frame_pure_main d s f cts s2 evs2 ev :
  on_frame_pure d s f cts = (s2, evs2, ev) ->
  te_dts0 ev = f_dts f /\ te_cts ev = cts /\ te_nested ev = false
  /\ f_raw (te_frame ev) = f_raw f /\ f_key (te_frame ev) = f_key f /\ f_pid (te_frame ev) = f_pid f
  /\ f_sid (te_frame ev) = f_sid f /\ f_cc (te_frame ev) = f_cc f
  /\ pack (te_frame ev) = (te_packets ev, te_cc ev)
  /\ (f_dts (te_frame ev), f_pts (te_frame ev))
     = (snd (fst (tsfilter_do (r_tsf s) (f_sid f) (f_dts f) (f_pts f) cts)),
        snd (tsfilter_do (r_tsf s) (f_sid f) (f_dts f) (f_pts f) cts))
  /\ In ev evs2.
Proof.
  unfold on_frame_pure, on_frame_core.
  destruct (tsfilter_do _ _ _ _ _) as [[tf dd] pp]. destruct (pack _) as [pk cc'] eqn:Ep.
  set (ev0 := mk_tsev _ _ _ _ _ _ _).
  assert (H0 : te_dts0 ev0 = f_dts f /\ te_cts ev0 = cts /\ te_nested ev0 = false
          /\ f_raw (te_frame ev0) = f_raw f /\ f_key (te_frame ev0) = f_key f /\ f_pid (te_frame ev0) = f_pid f
          /\ f_sid (te_frame ev0) = f_sid f /\ f_cc (te_frame ev0) = f_cc f
          /\ pack (te_frame ev0) = (te_packets ev0, te_cc ev0)
          /\ (f_dts (te_frame ev0), f_pts (te_frame ev0)) = (dd, pp)).
  { subst ev0. cbn. repeat split; try reflexivity. exact Ep. }
  destruct d.
  - destruct (flushed true _) as [s2' nested]. intros H. injection H as <- <- <-.
    repeat split; try apply H0. apply in_or_app. right. now left.
  - intros H. injection H as <- <- <-. repeat split; try apply H0. now left.
Qed.

Lemma flushed_keeps_spspps n s s' evs : flushed n s = (s', evs) -> r_spspps s' = r_spspps s.
Proof.
  unfold flushed. destruct (audio_cache_empty s); [intros H; now injection H as <- _|].
  unfold on_frame_core. destruct (tsfilter_do _ _ _ _ _) as [[tf dd] pp]. destruct (pack _) as [pk cc'].
  intros H. injection H as <- _. reflexivity.
Qed.

Lemma on_frame_pure_keeps_spspps d s f cts s2 evs2 ev :
  on_frame_pure d s f cts = (s2, evs2, ev) -> r_spspps s2 = r_spspps s.
Proof.
  unfold on_frame_pure. destruct (on_frame_core false s f cts) as [s1 ev0] eqn:Ec.
  assert (H1 : r_spspps s1 = r_spspps s).
  { revert Ec. unfold on_frame_core. destruct (tsfilter_do _ _ _ _ _) as [[tf dd] pp]. destruct (pack _) as [pk cc'].
    intros H. injection H as <- _. reflexivity. }
  destruct d.
  - destruct (flushed true s1) as [s2' nested] eqn:Ef. intros H. injection H as <- _ _.
    now rewrite (flushed_keeps_spspps _ _ _ _ Ef).
  - intros H. injection H as <- _ _. exact H1.
Qed.

(* The message is a NAL-unit message of codec c whose AVCC body splits into
   [nals]; the parameter-set cache is the Annex-B join of [cl]; the plan of
   the units is [plan] (non-empty).  Then the message yields exactly one video
   frame: Annex-B buffer = the rendering of the plan, DTS = 90 * time stamp,
   the message's composition offset and key flag, and the cache afterwards is
   the join of [cl']. *)
Lemma feed_video_frame d s m c nals cl cl' plan s' evs :
  (lenN (rm_payload m) <=? 5) = false ->
  video_codec_id m = (match c with Avc => codec_id_avc | Hevc => codec_id_hevc end) ->
  is_avc_key_seq_header m = false -> is_hevc_key_seq_header m = false -> enhanced_too_short m = false ->
  iterate_nalu_avcc (if (video_codec_id m =? codec_id_hevc) && is_enhanced_hevc_nalu m
                     then skipn (enhanced_nalu_index m) (rm_payload m) else skipn 5 (rm_payload m)) = (nals, None) ->
  r_spspps s = omap annexb_join4 cl ->
  plan_loop c nals cl [] [] [] false false [] = (cl', Some plan) -> plan <> [] ->
  feed_video_pure d s m = (s', evs) ->
  r_spspps s' = omap annexb_join4 cl'
  /\ exists ev, In ev evs /\ te_nested ev = false
       /\ f_raw (te_frame ev) = join_annexb plan
       /\ te_dts0 ev = u64 (rm_ts m * 90) /\ te_cts ev = video_cts m
       /\ f_key (te_frame ev) = is_video_key_nalu m
       /\ f_pid (te_frame ev) = pid_video /\ f_sid (te_frame ev) = sid_video
       /\ pack (te_frame ev) = (te_packets ev, te_cc ev).
Proof.
  intros Hlen Hcid Ha Hh Hshort Hsplit Hcache Hplan Hne. unfold feed_video_pure.
  assert (Hc : (if video_codec_id m =? codec_id_hevc then Hevc else Avc) = c).
  { rewrite Hcid. destruct c; reflexivity. }
  assert (Hok : negb ((video_codec_id m =? codec_id_avc) || (video_codec_id m =? codec_id_hevc)) = false).
  { rewrite Hcid. destruct c; reflexivity. }
  rewrite Hlen. cbv zeta. rewrite Hok, Ha, Hh, Hshort.
  match goal with |- context [iterate_nalu_avcc ?b] =>
    replace (iterate_nalu_avcc b) with (nals, @None N) by (symmetry; exact Hsplit) end.
  rewrite Hc, Hcache.
  pose proof (video_loop_plan c nals cl [] [] [] false false []) as Hv. cbn [join_annexb] in Hv.
  rewrite Hv by (congruence || discriminate). rewrite Hplan. cbn [fst snd omap].
  destruct (join_annexb plan) as [|b out] eqn:Ej.
  { exfalso. pose proof (join_annexb_nonempty plan Hne) as Hn. rewrite Ej in Hn. discriminate. }
  set (s0 := set_spspps s (omap annexb_join4 cl')).
  destruct (if negb (audio_cache_empty s0) && (r_afirst s0 + max_audio_delay_by_video <? u64 (rm_ts m * 90))
            then flushed false s0 else (s0, [])) as [s1 evs1] eqn:Ef.
  assert (Hsp1 : r_spspps s1 = omap annexb_join4 cl').
  { destruct (negb (audio_cache_empty s0) && (r_afirst s0 + max_audio_delay_by_video <? u64 (rm_ts m * 90))).
    - now rewrite (flushed_keeps_spspps _ _ _ _ Ef).
    - now injection Ef as <- _. }
  set (f := mk_frame _ _ _ _ _ _ _).
  destruct (on_frame_pure d s1 f (video_cts m)) as [[s2 evs2] ev] eqn:Eo.
  intros H. injection H as <- <-.
  destruct (on_frame_pure_main d s1 f (video_cts m) s2 evs2 ev Eo) as (H1 & H2 & H3 & H4 & H5 & H6 & H7 & _ & H9 & _ & H11).
  split.
  - cbn [set_vcc r_spspps]. now rewrite (on_frame_pure_keeps_spspps _ _ _ _ _ _ _ Eo).
  - exists ev. repeat split; try assumption.
    + apply in_or_app. now right.
Qed.
