(* C06, audio: the ADTS header PackAdtsHeader writes, read back by the
   bit-level ADTS reader of RemuxSpec (ISO 14496-3 1.A.2), and a PES payload
   made of such frames split again into the frames. *)
From Coq Require Import Lia ZifyN ZifyNat ZifyBool.
From Lal Require Import Common.LBytes Common.LBytesProofs Common.Res Codec.CodecBits Codec.CodecAac
  Codec.CodecAacProofs Rtp.RtpPacker Mpegts.TsDemux Remux.RemuxSpec.
Open Scope N_scope.
Ltac Zify.zify_post_hook ::= Z.div_mod_to_equations.

Lemma field_mid a m r pos len : length a = pos -> length m = len ->
  field (a ++ m ++ r) pos len = bits_val m.
Proof.
  intros <- <-. unfold field. rewrite skipn_app, skipn_all, Nat.sub_diag. cbn [skipn app].
  rewrite firstn_app, firstn_all, Nat.sub_diag. cbn [firstn]. now rewrite app_nil_r.
Qed.

Lemma bits_of_adts_pack c n : bits_of_bytes (adts_pack c n) = adts_bits c n.
Proof. unfold adts_pack. apply (bits_bytes_roundtrip 7). apply adts_bits_length. Qed.

(* the header fields, read from the bytes PackAdtsHeader produced *)
Lemma read_adts_pack c n rest :
  read_adts_hdr (firstn 7 (adts_pack c n ++ rest))
  = mk_adts_hdr 4095 0 0 1 (((asc_aot c + 255) mod 256) mod 4) (asc_sfi c mod 16) 0 (asc_chan c mod 8)
                0 0 0 0 (((n + 7) mod 65536) mod 8192) 2047 0.
Proof.
  rewrite firstn_app, adts_pack_length, Nat.sub_diag. change (firstn 0 rest) with (@nil N). rewrite app_nil_r.
  rewrite firstn_all2 by (rewrite adts_pack_length; lia).
  unfold read_adts_hdr. rewrite bits_of_adts_pack. unfold adts_bits.
  set (l1 := bits_of_val 12 4095). set (l2 := bits_of_val 4 1).
  set (l3 := bits_of_val 2 ((asc_aot c + 255) mod 256)). set (l4 := bits_of_val 4 (asc_sfi c)).
  set (l5 := bits_of_val 1 0). set (l6 := bits_of_val 3 (asc_chan c)). set (l7 := bits_of_val 4 0).
  set (l8 := bits_of_val 13 ((n + 7) mod 65536)). set (l9 := bits_of_val 11 2047). set (l10 := bits_of_val 2 0).
  assert (L1 : length l1 = 12%nat) by apply bits_of_val_length.
  assert (L2 : length l2 = 4%nat) by apply bits_of_val_length.
  assert (L3 : length l3 = 2%nat) by apply bits_of_val_length.
  assert (L4 : length l4 = 4%nat) by apply bits_of_val_length.
  assert (L5 : length l5 = 1%nat) by apply bits_of_val_length.
  assert (L6 : length l6 = 3%nat) by apply bits_of_val_length.
  assert (L7 : length l7 = 4%nat) by apply bits_of_val_length.
  assert (L8 : length l8 = 13%nat) by apply bits_of_val_length.
  assert (L9 : length l9 = 11%nat) by apply bits_of_val_length.
  assert (L10 : length l10 = 2%nat) by apply bits_of_val_length.
  set (all := l1 ++ l2 ++ l3 ++ l4 ++ l5 ++ l6 ++ l7 ++ l8 ++ l9 ++ l10).
  (* the constant fields 4 = [id; layer(2); protection_absent] and 4 zero bits are concrete *)
  assert (E2 : l2 = [false; false; false; true]) by reflexivity.
  assert (E7 : l7 = [false; false; false; false]) by reflexivity.
  assert (F : forall a m r pos len, all = a ++ m ++ r -> length a = pos -> length m = len -> field all pos len = bits_val m).
  { intros a m r pos len -> Ha Hm. now apply field_mid. }
  f_equal.
  - rewrite <- (bits_val_of_val 2). apply (F (l1 ++ l2) l3 (l4 ++ l5 ++ l6 ++ l7 ++ l8 ++ l9 ++ l10));
      [subst all; now rewrite <- !app_assoc|rewrite app_length, L1, L2; reflexivity|exact L3].
  - rewrite <- (bits_val_of_val 4). apply (F (l1 ++ l2 ++ l3) l4 (l5 ++ l6 ++ l7 ++ l8 ++ l9 ++ l10));
      [subst all; now rewrite <- !app_assoc|rewrite !app_length, L1, L2, L3; reflexivity|exact L4].
  - rewrite <- (bits_val_of_val 3). apply (F (l1 ++ l2 ++ l3 ++ l4 ++ l5) l6 (l7 ++ l8 ++ l9 ++ l10));
      [subst all; now rewrite <- !app_assoc|rewrite !app_length, L1, L2, L3, L4, L5; reflexivity|exact L6].
  - rewrite <- (bits_val_of_val 13). apply (F (l1 ++ l2 ++ l3 ++ l4 ++ l5 ++ l6 ++ l7) l8 (l9 ++ l10));
      [subst all; now rewrite <- !app_assoc|rewrite !app_length, L1, L2, L3, L4, L5, L6, L7; reflexivity|exact L8].
Qed.

(* ---- AudioSpecificConfig: lal's AscContext reads the fields of ISO 14496-3 1.6.2.1 ---- *)
Lemma asc_unpack_fields asc c : asc_unpack asc = Ok c ->
  asc_aot c = asc_object_type asc /\ asc_sfi c = asc_sampling_index asc /\ asc_chan c = asc_channel_config asc.
Proof.
  unfold asc_unpack. destruct (lenN asc <? 2) eqn:E; [discriminate|]. intros H. injection H as <-.
  destruct asc as [|b0 [|b1 rest]]; [cbn in E; discriminate|cbn in E; discriminate|].
  unfold asc_object_type, asc_sampling_index, asc_channel_config, field, asc_read, br_new.
  cbn [bits_of_bytes bits_of_byte app]. unfold rd_ign, read_bits. cbn [br_err br_rem bits_split skipn firstn asc_aot asc_sfi asc_chan fst snd].
  repeat split; apply N.mod_small.
  - pose proof (bits_val_bound [N.testbit b0 7; N.testbit b0 6; N.testbit b0 5; N.testbit b0 4; N.testbit b0 3]) as H.
    unfold lenN in H. cbn [length] in H. cbn in H |- *. lia.
  - pose proof (bits_val_bound [N.testbit b0 2; N.testbit b0 1; N.testbit b0 0; N.testbit b1 7]) as H.
    unfold lenN in H. cbn [length] in H. cbn in H |- *. lia.
  - pose proof (bits_val_bound [N.testbit b1 6; N.testbit b1 5; N.testbit b1 4; N.testbit b1 3]) as H.
    unfold lenN in H. cbn [length] in H. cbn in H |- *. lia.
Qed.

Lemma asc_unpack_bounds asc c : asc_unpack asc = Ok c -> asc_aot c < 32 /\ asc_sfi c < 16 /\ asc_chan c < 16.
Proof.
  unfold asc_unpack. destruct (lenN asc <? 2); [discriminate|]. intros H. injection H as <-.
  unfold asc_read.
  destruct (rd_ign 8 5 (br_new asc)) as [a s1] eqn:E1.
  destruct (rd_ign 8 4 s1) as [b s2] eqn:E2.
  destruct (rd_ign 8 4 s2) as [d s3] eqn:E3. cbn [asc_aot asc_sfi asc_chan].
  pose proof (rd_ign_bound 8 5 (br_new asc)) as H1. rewrite E1 in H1.
  pose proof (rd_ign_bound 8 4 s1) as H2. rewrite E2 in H2.
  pose proof (rd_ign_bound 8 4 s2) as H3. rewrite E3 in H3. cbn in H1, H2, H3. lia.
Qed.

(* ---- one ADTS frame and a buffer of ADTS frames ---- *)
Definition adts_frame (cf : asc_ctx * bytes) : bytes := adts_pack (fst cf) (lenN (snd cf)) ++ snd cf.

Definition adts_hdr_of (c : asc_ctx) (n : N) : adts_hdr :=
  mk_adts_hdr 4095 0 0 1 (((asc_aot c + 255) mod 256) mod 4) (asc_sfi c mod 16) 0 (asc_chan c mod 8)
              0 0 0 0 (((n + 7) mod 65536) mod 8192) 2047 0.

Definition frame_fits (cf : asc_ctx * bytes) : Prop := lenN (snd cf) + 7 < 8192.

Lemma adts_frame_length cf : lenN (adts_frame cf) = lenN (snd cf) + 7.
Proof. unfold adts_frame, lenN. rewrite app_length, adts_pack_length. lia. Qed.

Lemma adts_frame_nonempty cf : adts_frame cf <> [].
Proof. intros H. pose proof (adts_frame_length cf) as L. rewrite H in L. cbn in L. lia. Qed.

(* the bit-level ADTS reader splits the concatenation of frames into the frames;
   every header says: syncword, MPEG-4, layer 0, no CRC, the profile / sampling
   index / channel configuration of the context, frame length = 7 + len, one
   raw data block *)
Lemma split_adts_frames : forall fs fuel, Forall frame_fits fs -> (length fs <= fuel)%nat ->
  split_adts fuel (concat (map adts_frame fs))
  = Some (map (fun cf => (adts_hdr_of (fst cf) (lenN (snd cf)), snd cf)) fs).
Proof.
  induction fs as [|cf t IH]; intros fuel Hf Hfuel.
  - destruct fuel; reflexivity.
  - inversion Hf as [|? ? Hcf Ht]; subst. destruct fuel as [|fuel]; [cbn in Hfuel; lia|].
    cbn [map concat]. set (b := adts_frame cf ++ concat (map adts_frame t)).
    assert (Hb : b = adts_pack (fst cf) (lenN (snd cf)) ++ (snd cf ++ concat (map adts_frame t)))
      by (subst b; unfold adts_frame; now rewrite <- app_assoc).
    assert (Hlen : lenN b = lenN (snd cf) + 7 + lenN (concat (map adts_frame t))).
    { subst b. unfold lenN at 1. rewrite app_length. fold (lenN (adts_frame cf)). 
      pose proof (adts_frame_length cf). unfold lenN in *. lia. }
    unfold frame_fits in Hcf.
    cbn [split_adts]. destruct b as [|x b'] eqn:Eb; [exfalso; cbn in Hlen; lia|]. rewrite <- Eb in *. clear Eb x b'.
    replace (lenN b <? 7) with false by lia.
    assert (Hh : read_adts_hdr (firstn 7 b) = adts_hdr_of (fst cf) (lenN (snd cf))).
    { rewrite Hb. apply read_adts_pack. }
    rewrite !Hh.
    assert (Hfl : ah_frame_length (adts_hdr_of (fst cf) (lenN (snd cf))) = lenN (snd cf) + 7).
    { unfold adts_hdr_of. cbn [ah_frame_length]. rewrite !N.mod_small; lia. }
    rewrite !Hfl.
    change (ah_syncword (adts_hdr_of (fst cf) (lenN (snd cf)))) with 4095.
    change (ah_layer (adts_hdr_of (fst cf) (lenN (snd cf)))) with 0.
    change (ah_protection_absent (adts_hdr_of (fst cf) (lenN (snd cf)))) with 1.
    change (ah_blocks (adts_hdr_of (fst cf) (lenN (snd cf)))) with 0.
    cbn [N.eqb Pos.eqb andb negb].
    replace ((lenN (snd cf) + 7 <? 7) || (lenN b <? lenN (snd cf) + 7)) with false by lia.
    assert (Hskip : skipn (N.to_nat (lenN (snd cf) + 7)) b = concat (map adts_frame t)).
    { subst b. replace (N.to_nat (lenN (snd cf) + 7)) with (length (adts_frame cf))
        by (pose proof (adts_frame_length cf); unfold lenN in *; lia).
      rewrite skipn_app, skipn_all, Nat.sub_diag. reflexivity. }
    rewrite Hskip, (IH fuel Ht) by (cbn in Hfuel; lia).
    f_equal. f_equal. f_equal.
    rewrite Hb. rewrite skipn_app, adts_pack_length, Nat.sub_diag.
      rewrite skipn_all2 by (rewrite adts_pack_length; lia). cbn [skipn app].
      replace (N.to_nat (lenN (snd cf) + 7) - 7)%nat with (length (snd cf)) by (unfold lenN; lia).
      rewrite firstn_app, firstn_all, Nat.sub_diag. change (firstn 0 (concat (map adts_frame t))) with (@nil N). now rewrite app_nil_r.
Qed.

(* a header written from a context that came from an AudioSpecificConfig agrees with it *)
Lemma adts_hdr_matches asc c n : asc_unpack asc = Ok c -> 1 <= asc_aot c <= 4 -> asc_chan c < 8 ->
  adts_matches_asc (adts_hdr_of c n) asc.
Proof.
  intros Hu Ha Hc. destruct (asc_unpack_fields asc c Hu) as (E1 & E2 & E3).
  destruct (asc_unpack_bounds asc c Hu) as (B1 & B2 & B3).
  unfold adts_matches_asc, adts_hdr_of. cbn [ah_id ah_profile ah_sfi ah_chan].
  rewrite <- E1, <- E2, <- E3. repeat split; lia.
Qed.
