(* C07: an audio and a video RTP track through the RTSP in-session model with the
   interleave queue (rtsp.AvPacketQueue) between the unpack containers and the
   remuxer: any interleaving of the two tracks' packets. *)
From Coq Require Import Lia ZifyN ZifyNat ZifyBool.
From Lal Require Import Common.LBytes Common.LBytesProofs Common.Res.
From Lal Require Import Remux.RemuxAv2Rtmp Remux.RemuxAvQueue Remux.RemuxRtspIngest Remux.RemuxUnpackSimProofs
  Remux.RemuxRtspSessProofs Remux.RemuxAvQueueProofs Remux.RemuxAv2RtmpProofs.
From Lal Require Net.NetChk Net.NetRtpHeader Net.NetRtcp Net.NetUnpack Net.NetInSess Rtp.RtpUnpacker Rtp.RtpReorder.
Open Scope N_scope.

Module S := NetInSess.
Module H := NetRtpHeader.

(* ---------------------------------------------------------------- queue and remuxer over lists *)
Lemma aq_run_app rot : forall a b s,
  aq_run rot s (a ++ b) = let (s1, o1) := aq_run rot s a in let (s2, o2) := aq_run rot s1 b in (s2, o1 ++ o2).
Proof.
  induction a as [|p t IH]; intros b s; cbn [app aq_run].
  - destruct (aq_run rot s b); reflexivity.
  - destruct (aq_feed rot s p) as [s1 o]. rewrite IH. destruct (aq_run rot s1 t) as [s2 o2]. destruct (aq_run rot s2 b) as [s3 o3]. reflexivity.
Qed.

(* with the queue: the AvPackets of one rtp packet go through Feed one by one, what comes out goes to the remuxer *)
Lemma deliver_some fx rot : forall avs q r seq,
  deliver_evs fx rot (Some q) r (S.EvRtp seq :: map S.EvAv avs) =
  let (q1, outs) := aq_run rot q avs in
  let* (r1, ms) := feed_all_av fx r (concat outs) in Ok (Some q1, r1, ms).
Proof.
  intros avs q r seq. cbn [deliver_evs]. revert q r. induction avs as [|a t IH]; intros q r; cbn [map deliver_evs aq_run concat feed_all_av bind]; [reflexivity|].
  unfold deliver. destruct (aq_feed rot q a) as [q1 o1].
  destruct (aq_run rot q1 t) as [q2 o2] eqn:Er. cbn [concat]. rewrite feed_all_av_app.
  destruct (feed_all_av fx r o1) as [[r1 m1]| |]; cbn [bind]; try reflexivity.
  rewrite IH, Er. destruct (feed_all_av fx r1 (concat o2)) as [[r2 m2]| |]; reflexivity.
Qed.

(* ---------------------------------------------------------------- the two tracks *)
Section TwoTracks.
Variables (fx rot : bool) (cfg : S.sess_cfg) (ua uv : U13.unpacker) (apt vpt assrc vssrc : N).
Hypothesis Hca : clock_pos (U13.uk_clock ua).
Hypothesis Hcv : clock_pos (U13.uk_clock uv).
(* header variants of the two tracks' packets (padding only where the unpacker cannot reach it: not on AAC) *)
Variables VA VV : N * N * bytes -> hvar.
Hypothesis HVA : forall a, hv_ok (VA a).
Hypothesis HVV : forall a, hv_ok (VV a).
Hypothesis HPA : forall a, pad_free (tf_of (U13.uk_kind ua)) (VA a).
Hypothesis HPV : forall a, pad_free (tf_of (U13.uk_kind uv)) (VV a).
Hypothesis Hua : S.sc_aunp cfg = Some ua.
Hypothesis Huv : S.sc_vunp cfg = Some uv.
Hypothesis Hapt : S.sc_apt cfg = Z.of_N apt.
Hypothesis Hvpt : S.sc_vpt cfg = Z.of_N vpt.
Hypothesis Hdiff : apt <> vpt.
Hypothesis Hach : S.sc_artp cfg = 0.
Hypothesis Hvch : S.sc_vrtp cfg = 2.
Hypothesis Hpa : apt < 128.
Hypothesis Hpv : vpt < 128.
Hypothesis Hsa : assrc < 4294967296.
Hypothesis Hsv : vssrc < 4294967296.
(* the AvPacket types the two unpackers stamp *)
Hypothesis Hisv : is_video_pt (U13.uk_pt uv) = true.
Hypothesis Hisa : is_video_pt (U13.uk_pt ua) = false.

(* a packet on the wire: (true, a) = the video track's arrival a on channel 2, (false, a) = audio on channel 0 *)
Definition enc (x : bool * (N * N * bytes)) : N * bytes :=
  if fst x then (2, raw_of VV vpt vssrc (snd x)) else (0, raw_of VA apt assrc (snd x)).
Definition sel (v : bool) (l : list (bool * (N * N * bytes))) : list (N * N * bytes) :=
  map snd (filter (fun x => Bool.eqb (fst x) v) l).

Lemma vs_video_outs o : vs (map (to_av (U13.uk_pt uv)) o) = map (to_av (U13.uk_pt uv)) o /\ as_ (map (to_av (U13.uk_pt uv)) o) = [].
Proof. apply vs_all. apply Forall_map. apply Forall_forall. intros x _. exact Hisv. Qed.
Lemma as_audio_outs o : as_ (map (to_av (U13.uk_pt ua)) o) = map (to_av (U13.uk_pt ua)) o /\ vs (map (to_av (U13.uk_pt ua)) o) = [].
Proof. apply as_all. apply Forall_map. apply Forall_forall. intros x _. exact Hisa. Qed.

Theorem two_track_run : forall pkts s ca cv q r groups,
  crel (tf_of (U13.uk_kind ua)) (S.ss_acont s) ca -> crel (tf_of (U13.uk_kind uv)) (S.ss_vcont s) cv -> Forall (fun x => arr_ok (snd x)) pkts ->
  rtsp_run fx rot cfg s (Some q) r (map enc pkts) = Ok groups ->
  exists avs sa oa sv ov q' outs r',
    C12.feed_all (pr_of (U13.uk_kind ua)) (Z.to_N (U13.uk_clock ua)) S.unpacker_max_size ca (sel false pkts) = Ok (sa, oa) /\
    C12.feed_all (pr_of (U13.uk_kind uv)) (Z.to_N (U13.uk_clock uv)) S.unpacker_max_size cv (sel true pkts) = Ok (sv, ov) /\
    as_ avs = map (to_av (U13.uk_pt ua)) oa /\ vs avs = map (to_av (U13.uk_pt uv)) ov /\
    aq_run rot q avs = (q', outs) /\
    feed_all_av fx r (concat outs) = Ok (r', concat groups).
Proof.
  induction pkts as [|[isv a] t IH]; intros s ca cv q r groups Hra Hrv Hok E; cbn [map rtsp_run] in E.
  - injection E as <-. exists [], ca, [], cv, [], q, [], r. repeat split.
  - apply Forall_cons_iff in Hok as [Hak Hokt]. cbn [snd] in Hak. unfold enc at 1 in E. cbn [fst snd] in E.
    destruct isv.
    + (* a video packet *)
      destruct (handle_video VV cfg s uv 2 vpt vssrc a Huv Hvpt) as (h & Hseq & Hts & Hbody & Eh); try assumption; try apply HVV.
      { rewrite Hapt. intros Hc. apply Hdiff. lia. } { right. symmetry. exact Hvch. }
      rewrite Eh in E. clear Eh. pose proof Hak as (_ & _ & _ & Hbytes & Hlen).
      assert (Htail : tf_of (U13.uk_kind uv) = true -> pad_bytes (hv_pad (VV a)) = []) by (intros Et; rewrite (HPV a Et); reflexivity).
      pose proof (feed_sim uv Hcv S.unpacker_max_size (S.ss_vcont s) cv h (raw_of VV vpt vssrc a) (snd a) _ Hrv Hbody Htail Hbytes Hlen) as Hf.
      destruct (U13.cont_feed true uv S.unpacker_max_size (S.ss_vcont s) h (raw_of VV vpt vssrc a)) as [[c' avs1]| |]; cbn [bind] in E; try discriminate.
      destruct Hf as (st1 & o1 & Ef & Hr1 & ->). rewrite Hseq, Hts in Ef.
      rewrite deliver_some in E. destruct (aq_run rot q (map (to_av (U13.uk_pt uv)) o1)) as [q1 outs1] eqn:Eq.
      destruct (feed_all_av fx r (concat outs1)) as [[r1 m1]| |] eqn:Em; cbn [bind] in E; try discriminate.
      destruct (rtsp_run fx rot cfg _ (Some q1) r1 _) as [more| |] eqn:Er; cbn [bind] in E; try discriminate.
      injection E as <-.
      destruct (IH (set_vcont s (H.rh_ssrc h) (H.rh_seq h) c') ca st1 q1 r1 more Hra Hr1 Hokt Er)
        as (avs & sa & oa & sv & ov & q' & outs & r' & Ea & Ev & Has & Hvs & Eq2 & Em2).
      exists (map (to_av (U13.uk_pt uv)) o1 ++ avs), sa, oa, sv, (o1 ++ ov), q', (outs1 ++ outs), r'.
      destruct (vs_video_outs o1) as [V1 V2].
      split; [exact Ea|]. split.
      { unfold sel. cbn [filter fst Bool.eqb map snd]. fold (sel true t). destruct a as [[sq ts] body]. cbn [C12.feed_all fst snd] in *.
        rewrite Ef. cbn [bind]. rewrite Ev. reflexivity. }
      split; [rewrite as_app, V2; exact Has|]. split; [rewrite vs_app, V1, Hvs, map_app; reflexivity|].
      split; [rewrite aq_run_app, Eq, Eq2; reflexivity|].
      rewrite concat_app, feed_all_av_app, Em. cbn [bind]. rewrite Em2. reflexivity.
    + (* an audio packet *)
      destruct (handle_audio VA cfg s ua 0 apt assrc a Hua Hapt) as (h & Hseq & Hts & Hbody & Eh); try assumption; try apply HVA.
      { left. symmetry. exact Hach. }
      rewrite Eh in E. clear Eh. pose proof Hak as (_ & _ & _ & Hbytes & Hlen).
      assert (Htail : tf_of (U13.uk_kind ua) = true -> pad_bytes (hv_pad (VA a)) = []) by (intros Et; rewrite (HPA a Et); reflexivity).
      pose proof (feed_sim ua Hca S.unpacker_max_size (S.ss_acont s) ca h (raw_of VA apt assrc a) (snd a) _ Hra Hbody Htail Hbytes Hlen) as Hf.
      destruct (U13.cont_feed true ua S.unpacker_max_size (S.ss_acont s) h (raw_of VA apt assrc a)) as [[c' avs1]| |]; cbn [bind] in E; try discriminate.
      destruct Hf as (st1 & o1 & Ef & Hr1 & ->). rewrite Hseq, Hts in Ef.
      rewrite deliver_some in E. destruct (aq_run rot q (map (to_av (U13.uk_pt ua)) o1)) as [q1 outs1] eqn:Eq.
      destruct (feed_all_av fx r (concat outs1)) as [[r1 m1]| |] eqn:Em; cbn [bind] in E; try discriminate.
      destruct (rtsp_run fx rot cfg _ (Some q1) r1 _) as [more| |] eqn:Er; cbn [bind] in E; try discriminate.
      injection E as <-.
      destruct (IH (set_acont s (H.rh_ssrc h) (H.rh_seq h) c') st1 cv q1 r1 more Hr1 Hrv Hokt Er)
        as (avs & sa & oa & sv & ov & q' & outs & r' & Ea & Ev & Has & Hvs & Eq2 & Em2).
      exists (map (to_av (U13.uk_pt ua)) o1 ++ avs), sa, (o1 ++ oa), sv, ov, q', (outs1 ++ outs), r'.
      destruct (as_audio_outs o1) as [A1 A2].
      split.
      { unfold sel. cbn [filter fst Bool.eqb map snd]. fold (sel false t). destruct a as [[sq ts] body]. cbn [C12.feed_all fst snd] in *.
        rewrite Ef. cbn [bind]. rewrite Ea. reflexivity. }
      split; [exact Ev|]. split; [rewrite as_app, A1, Has, map_app; reflexivity|]. split; [rewrite vs_app, A2; exact Hvs|].
      split; [rewrite aq_run_app, Eq, Eq2; reflexivity|].
      rewrite concat_app, feed_all_av_app, Em. cbn [bind]. rewrite Em2. reflexivity.
Qed.
End TwoTracks.

(* ---------------------------------------------------------------- the remuxer on a mixed audio / video packet list *)
From Lal Require Import Codec.CodecNalFraming Codec.CodecNalFramingProofs Codec.CodecAac.
From Lal Require Remux.RemuxRtspIngestProofs.

Lemma emit_no_video st pl ts st' ms : emit st true pl ts = (st', ms) ->
  read_video_nals (av_msgs ms) = [] /\ rs_vfmt st' = rs_vfmt st.
Proof.
  intros E. destruct (emit_spec _ _ _ _ _ _ E) as (Hm & (Hv & _) & _). rewrite Hm. split; [reflexivity|exact Hv].
Qed.

Lemma feed_audio_no_video fx st (p : avpkt) st' ms : is_video_pt (av_pt p) = false ->
  feed_av_packet fx st p = Ok (st', ms) -> read_video_nals (av_msgs ms) = [] /\ rs_vfmt st' = rs_vfmt st.
Proof.
  intros Hv E. unfold is_video_pt in Hv. apply orb_false_iff in Hv as [H1 H2]. unfold feed_av_packet in E. rewrite H1, H2 in E.
  destruct (av_pt p =? pt_aac)%Z.
  { unfold feed_aac in E. destruct (rs_afmt st =? afmt_raw).
    { injection E as E. apply (emit_no_video _ _ _ _ _ E). }
    destruct (rs_afmt st =? afmt_adts); [|injection E as <- <-; split; reflexivity].
    assert (Hfirst : forall X : res (rstate * list rmsg),
              X = (if rs_adts st then Ok (st, [])
                   else match aac_seqh_of_adts (av_payload p) with
                        | Panic s => Panic s
                        | Err _ => let (s1, m) := emit st true [] (av_ts p) in Ok (set_adts s1, m)
                        | Ok h => let (s1, m) := emit st true h (av_ts p) in Ok (set_adts s1, m)
                        end) ->
              match X with Ok (s1, m1) => read_video_nals (av_msgs m1) = [] /\ rs_vfmt s1 = rs_vfmt st | _ => True end).
    { intros X ->. destruct (rs_adts st); [split; reflexivity|].
      destruct (aac_seqh_of_adts (av_payload p)) as [h|e|s]; [| |exact I].
      - destruct (emit st true h (av_ts p)) as [s1 m] eqn:Ee. destruct (emit_no_video _ _ _ _ _ Ee) as [A B]. split; [exact A|exact B].
      - destruct (emit st true [] (av_ts p)) as [s1 m] eqn:Ee. destruct (emit_no_video _ _ _ _ _ Ee) as [A B]. split; [exact A|exact B]. }
    specialize (Hfirst _ eq_refl).
    match type of E with bind ?X _ = _ => destruct X as [[s1 m1]| |] end; cbn [bind] in E; try discriminate.
    destruct Hfirst as [A B].
    destruct (if fx then lenN (av_payload p) <=? 7 else lenN (av_payload p) <? 12).
    { injection E as <- <-. split; assumption. }
    destruct (emit s1 true _ (av_ts p)) as [s2 m2] eqn:E2. injection E as <- <-.
    destruct (emit_no_video _ _ _ _ _ E2) as [A2 B2]. rewrite av_msgs_app, read_video_nals_app, A, A2. split; [reflexivity|congruence]. }
  destruct (av_pt p =? pt_g711a)%Z; [injection E as E; apply (emit_no_video _ _ _ _ _ E)|].
  destruct (av_pt p =? pt_g711u)%Z; [injection E as E; apply (emit_no_video _ _ _ _ _ E)|].
  destruct (av_pt p =? pt_opus)%Z; [injection E as E; apply (emit_no_video _ _ _ _ _ E)|].
  injection E as <- <-. split; reflexivity.
Qed.

(* the units a consumer reads from the messages of one AvPacket *)
Definition vnals (hevc : bool) (p : avpkt) : list bytes :=
  if isv p then filter (keep_nal hevc) (fst (iterate_nalu_avcc (av_payload p))) else [].

Definition vpkt_wf (hevc : bool) (p : avpkt) : Prop :=
  isv p = true -> av_pt p = (if hevc then pt_hevc else pt_avc) /\
                  exists nals, iterate_nalu_avcc (av_payload p) = (nals, None) /\ Forall avcc_ok nals.

Theorem mixed_track_nals hevc : forall l st st' msgs, rs_vfmt st = vfmt_avcc -> Forall (vpkt_wf hevc) l ->
  feed_all_av true st l = Ok (st', msgs) ->
  read_video_nals (av_msgs msgs) = concat (map (vnals hevc) l).
Proof.
  induction l as [|p t IH]; intros st st' msgs Hf Hl E; cbn [feed_all_av] in E.
  - injection E as <- <-. reflexivity.
  - apply Forall_cons_iff in Hl as [Hp Ht].
    destruct (feed_av_packet true st p) as [[st1 ms]| |] eqn:Ep; cbn [bind] in E; try discriminate.
    destruct (feed_all_av true st1 t) as [[st2 more]| |] eqn:Er; cbn [bind] in E; try discriminate.
    injection E as <- <-. rewrite av_msgs_app, read_video_nals_app. cbn [map concat]. unfold vnals at 1.
    destruct (isv p) eqn:Ev.
    + destruct (Hp Ev) as (Hpt & nals & Hfr & Hok). rewrite (feed_av_packet_video hevc st p Hpt) in Ep.
      assert (Hfa : framed_as st (av_payload p) nals) by (unfold framed_as; rewrite Hf; exact Hfr).
      destruct (feed_video_frames hevc st (av_ts p) (av_payload p) nals st1 ms Hfa (avcc_ok_nonempty _ Hok) Ep) as (hdrs & Hm & Hh & Hv1).
      rewrite Hm, read_video_nals_app, (read_seq_hdrs _ _ _ _ Hh), (read_frame_msg hevc (av_ts p) nals Hok), Hfr. cbn [app fst]. f_equal.
      apply (IH st1 st2 more); [congruence|exact Ht|exact Er].
    + destruct (feed_audio_no_video true st p st1 ms Ev Ep) as [A B]. rewrite A. cbn [app].
      apply (IH st1 st2 more); [congruence|exact Ht|exact Er].
Qed.

(* only the video packets matter, and of them only type and payload *)
Lemma vnals_vs hevc : forall l, concat (map (vnals hevc) l) = concat (map (vnals hevc) (vs l)).
Proof.
  induction l as [|p t IH]; [reflexivity|]. cbn [map concat]. destruct (isv p) eqn:Ev.
  - destruct (vs_cons_t p t Ev) as [-> _]. cbn [map concat]. rewrite IH. reflexivity.
  - destruct (vs_cons_f p t Ev) as [-> _]. unfold vnals at 1. rewrite Ev. exact IH.
Qed.

Lemma same_track_payloads : forall l1 l2, map av_pt l1 = map av_pt l2 -> map av_payload l1 = map av_payload l2 ->
  map av_payload (vs l1) = map av_payload (vs l2).
Proof.
  induction l1 as [|p t IH]; intros [|q u] H1 H2; try discriminate; [reflexivity|].
  cbn [map] in H1, H2. injection H1 as Hp H1. injection H2 as Hq H2.
  assert (Ev : isv p = isv q) by (unfold isv; rewrite Hp; reflexivity).
  destruct (isv q) eqn:Eq.
  - destruct (vs_cons_t p t Ev) as [-> _]. destruct (vs_cons_t q u Eq) as [-> _]. cbn [map]. rewrite Hq, (IH u H1 H2). reflexivity.
  - destruct (vs_cons_f p t Ev) as [-> _]. destruct (vs_cons_f q u Eq) as [-> _]. exact (IH u H1 H2).
Qed.

Lemma vnals_payload hevc : forall l, Forall (fun p => isv p = true) l ->
  concat (map (vnals hevc) l) = concat (map (fun pl => filter (keep_nal hevc) (fst (iterate_nalu_avcc pl))) (map av_payload l)).
Proof.
  induction 1 as [|p t Hp _ IH]; [reflexivity|]. cbn [map concat]. unfold vnals at 1. rewrite Hp, IH. reflexivity.
Qed.

Lemma same_track_pts : forall l1 l2, map av_pt l1 = map av_pt l2 -> map av_pt (vs l1) = map av_pt (vs l2).
Proof.
  induction l1 as [|p t IH]; intros [|q u] H1; try discriminate; [reflexivity|].
  cbn [map] in H1. injection H1 as Hp H1.
  assert (Ev : isv p = isv q) by (unfold isv; rewrite Hp; reflexivity).
  destruct (isv q) eqn:Eq.
  - destruct (vs_cons_t p t Ev) as [-> _]. destruct (vs_cons_t q u Eq) as [-> _]. cbn [map]. rewrite Hp, (IH u H1). reflexivity.
  - destruct (vs_cons_f p t Ev) as [-> _]. destruct (vs_cons_f q u Eq) as [-> _]. exact (IH u H1).
Qed.

Lemma firstn_In {A} (x : A) : forall n l, In x (firstn n l) -> In x l.
Proof. induction n as [|n IH]; intros [|y t] H; cbn [firstn] in H; try contradiction. destruct H as [->|H]; [left; reflexivity|right; apply IH; exact H]. Qed.

Lemma prefix_firstn {A} (W Q L : list A) : W ++ Q = L -> W = firstn (length W) L.
Proof. intros <-. rewrite firstn_app, firstn_all, Nat.sub_diag. cbn [firstn]. rewrite app_nil_r. reflexivity. Qed.

(* two tracks, interleave queue, remuxer: the NAL units a consumer reads are a prefix of the video
   track's units (AUD / parameter sets removed), and fewer than 128 AvPackets are still queued *)
Theorem two_tracks_video_nals rot cfg ua uv VA VV apt vpt assrc vssrc (hevc : bool)
        pkts s ca cv r groups sv (tsf : N * bytes -> N) (nals : list (N * bytes)) :
  clock_pos (U13.uk_clock ua) -> clock_pos (U13.uk_clock uv) ->
  (forall a, hv_ok (VA a)) -> (forall a, hv_ok (VV a)) -> (forall a, pad_free (tf_of (U13.uk_kind ua)) (VA a)) -> (forall a, pad_free (tf_of (U13.uk_kind uv)) (VV a)) ->
  S.sc_aunp cfg = Some ua -> S.sc_vunp cfg = Some uv -> S.sc_apt cfg = Z.of_N apt -> S.sc_vpt cfg = Z.of_N vpt ->
  apt <> vpt -> S.sc_artp cfg = 0 -> S.sc_vrtp cfg = 2 -> apt < 128 -> vpt < 128 -> assrc < 4294967296 -> vssrc < 4294967296 ->
  U13.uk_pt uv = (if hevc then pt_hevc else pt_avc) -> is_video_pt (U13.uk_pt ua) = false ->
  rs_vfmt r = vfmt_avcc -> crel (tf_of (U13.uk_kind ua)) (S.ss_acont s) ca -> crel (tf_of (U13.uk_kind uv)) (S.ss_vcont s) cv -> Forall (fun x => arr_ok (snd x)) pkts ->
  rtsp_run true rot cfg s (Some aq_init) r (map (enc apt vpt assrc vssrc VA VV) pkts) = Ok groups ->
  C12.feed_all (pr_of (U13.uk_kind uv)) (Z.to_N (U13.uk_clock uv)) S.unpacker_max_size cv (sel true pkts)
    = Ok (sv, map (fun tn => (tsf tn, RtpUnpacker.avcc (snd tn))) nals) ->
  Forall (fun tn => avcc_ok (snd tn)) nals ->
  exists k, (k <= length nals)%nat /\ (length nals - k < 128)%nat /\
            read_video_nals (av_msgs (concat groups)) = filter (keep_nal hevc) (map snd (firstn k nals)).
Proof.
  intros Hca Hcv HVA HVV HPA HPV Hua Huv Hapt Hvpt Hdiff Hach Hvch Hpa Hpv Hsa Hsv Hptv Hisa Hf Hra Hrv Hok E Ec12 Hnals.
  assert (Hisv : is_video_pt (U13.uk_pt uv) = true) by (rewrite Hptv; destruct hevc; reflexivity).
  destruct (two_track_run true rot cfg ua uv apt vpt assrc vssrc Hca Hcv VA VV HVA HVV HPA HPV Hua Huv Hapt Hvpt Hdiff Hach Hvch Hpa Hpv Hsa Hsv Hisv Hisa
              pkts s ca cv aq_init r groups Hra Hrv Hok E)
    as (avs & sa & oa & sv' & ov & q' & outs & r' & _ & Ev & _ & Hvs & Eq & Em).
  rewrite Ec12 in Ev. injection Ev as _ <-.
  destruct (queue_merge rot avs q' outs Eq) as (P1 & P2 & M1 & _ & L1 & _).
  set (adj := adjusted rot aq_init avs) in *. set (W := vs (concat outs)) in *.
  pose proof (prefix_firstn _ _ _ M1) as HW.
  assert (Hpl : map av_payload (vs adj) = map RtpUnpacker.avcc (map snd nals)).
  { rewrite (same_track_payloads _ _ P1 P2), Hvs, !map_map. reflexivity. }
  assert (Hpt : map av_pt (vs adj) = map (fun _ => U13.uk_pt uv) nals).
  { rewrite (same_track_pts _ _ P1), Hvs, !map_map. reflexivity. }
  assert (Hlen : length (vs adj) = length nals) by (rewrite <- (map_length av_payload), Hpl, !map_length; reflexivity).
  assert (Hk : (length W + length (q_v q') = length nals)%nat) by (rewrite <- Hlen, <- M1, app_length; reflexivity).
  exists (length W). split; [lia|]. split; [unfold max_queue_size in L1; lia|].
  assert (HWpl : map av_payload W = map RtpUnpacker.avcc (map snd (firstn (length W) nals))).
  { rewrite HW at 1. rewrite <- firstn_map, Hpl, firstn_map, <- !firstn_map. reflexivity. }
  assert (HWpt : Forall (fun p => av_pt p = U13.uk_pt uv) W).
  { rewrite HW. apply Forall_forall. intros p Hin. apply (in_map av_pt) in Hin. rewrite <- firstn_map, Hpt in Hin.
    apply firstn_In in Hin. apply in_map_iff in Hin as (y & <- & _). reflexivity. }
  (* every video packet the remuxer saw is one NAL unit in AVCC form *)
  assert (Hwf : Forall (vpkt_wf hevc) (concat outs)).
  { apply Forall_forall. intros p Hin Hv.
    assert (HinW : In p W) by (subst W; apply filter_In; split; assumption).
    split; [rewrite <- Hptv; apply (proj1 (Forall_forall _ _) HWpt _ HinW)|].
    apply (in_map av_payload) in HinW. rewrite HWpl in HinW. apply in_map_iff in HinW as (nal & Enal & Hnal).
    apply in_map_iff in Hnal as (tn & <- & Htn). apply firstn_In in Htn.
    assert (Hok1 : avcc_ok (snd tn)) by (apply (proj1 (Forall_forall _ _) Hnals tn); exact Htn).
    exists [snd tn]. rewrite <- Enal. split; [apply RemuxRtspIngestProofs.avcc_single; exact Hok1|constructor; [exact Hok1|constructor]]. }
  rewrite (mixed_track_nals hevc (concat outs) r r' (concat groups) Hf Hwf Em).
  rewrite vnals_vs. fold W. rewrite vnals_payload by (subst W; apply Forall_forall; intros p Hp; apply filter_In in Hp; apply Hp).
  rewrite HWpl. set (F := firstn (length W) nals).
  assert (HF : Forall (fun tn => avcc_ok (snd tn)) F).
  { subst F. apply Forall_forall. intros tn Hin. apply (proj1 (Forall_forall _ _) Hnals). eapply firstn_In. exact Hin. }
  clear -HF. induction F as [|tn t IH]; [reflexivity|]. apply Forall_cons_iff in HF as [H1 H2].
  cbn [map concat]. rewrite (RemuxRtspIngestProofs.avcc_single _ H1). cbn [fst filter]. rewrite (IH H2).
  destruct (keep_nal hevc (snd tn)); reflexivity.
Qed.
