(* C06: the video walk (RemuxVideoWalkProofs) over whole runs of the remuxer
   behind its probe filter, ANY observer, any mix of FeedRtmpMessage /
   FlushAudio / Dispose: the video frames emitted so far are the walk over the
   messages handed to the core so far ([popped]: all of them once the probe
   filter has drained, in publish order). *)
From Coq Require Import Lia.
From Lal Require Import Common.LBytes Common.Res Group.GroupMsg Mpegts.TsPack Mpegts.TsPsi
  Remux.RemuxTsTimestamp Remux.RemuxRtmp2Ts Remux.RemuxTsFilter
  Remux.RemuxStepProofs Remux.RemuxChainProofs Remux.RemuxVideoWalkProofs Remux.RemuxRunProofs.
Open Scope N_scope.

Definition vrun_inv (x : remuxer) (outs : list tsout) (acts : list action) : Prop :=
  vwalked (x_core x) (ts_events outs) (popped x acts).

Lemma vrun_inv_init : vrun_inv remuxer_init [] [].
Proof. exact vwalked_init. Qed.

Section AnyObserver.
  Variable O : Type.
  Variable obs_decide : O -> tsev -> bool.
  Variable obs_apply : O -> tsev -> list tsev -> O.
  Variable obs_patpmt : O -> bytes -> O.

  Lemma step_vinv x o outs acts a x' o' outs' :
    run_inv x outs acts -> vrun_inv x outs acts ->
    (match a with
     | AMsg m => feed_rtmp_message O obs_decide obs_apply obs_patpmt x o m
     | AFlush => remuxer_flush O obs_decide obs_apply x o
     | ADispose => remuxer_dispose O obs_decide obs_apply x o
     end) = (x', o', outs') ->
    vrun_inv x' (outs ++ outs') (acts ++ [a]).
  Proof.
    intros (Hc & _ & Hf) Hv E.
    assert (Hflush : remuxer_flush O obs_decide obs_apply x o = (x', o', outs') ->
                     msgs_of (acts ++ [a]) = msgs_of acts -> vrun_inv x' (outs ++ outs') (acts ++ [a])).
    { clear E. unfold remuxer_flush. intros E Hm.
      pose proof (flush_audio_is_flushed O obs_decide obs_apply (x_core x) o) as Hp.
      destruct (flush_audio O obs_decide obs_apply (x_core x) o) as [[s1 o1] evs] eqn:Ef.
      injection E as <- <- <-. unfold vrun_inv, popped in *. cbn [x_core x_filter]. rewrite ts_events_app, ts_events_map, Hm.
      destruct (flushed_chained_all false (x_core x) (ts_events outs) s1 evs Hc Hp) as (_ & Hai & _ & Hsp & _).
      now apply (vwalked_audio (x_core x)). }
    destruct a as [m| |].
    - unfold feed_rtmp_message in E.
      assert (Hm : msgs_of (acts ++ [AMsg m]) = msgs_of acts ++ [m]) by (rewrite msgs_of_app; reflexivity).
      destruct (fq_done (x_filter x)) eqn:Ed.
      + destruct (late_track_spec (x_filter x) m) as (Ld & _ & _).
        destruct (late_track (x_filter x) m) as [f' pp]. cbn [fst snd] in Ld. rewrite Ed in Ld.
        set (o0 := match pp with Some b => obs_patpmt o b | None => o end) in *.
        destruct (on_pop_is_pure O obs_decide obs_apply (x_core x) o0 m) as [d Hd].
        destruct (on_pop O obs_decide obs_apply (x_core x) o0 m) as [[s1 o1] evs] eqn:Eo.
        injection E as <- <- <-. unfold vrun_inv, popped in *. cbn [x_core x_filter]. rewrite Ld, Hm. rewrite Ed in Hv.
        assert (Hev : ts_events (outs ++ match pp with Some b => [OutPatPmt b] | None => [] end ++ map OutTs evs) = ts_events outs ++ evs).
        { rewrite !ts_events_app, ts_events_map. destruct pp; cbn; reflexivity. }
        rewrite Hev. eapply on_pop_vwalked; eassumption.
      + destruct Hf as (-> & Hdata & Hinit).
        set (a1 := if rm_type m =? type_audio then Z.of_N (pb m 0 / 16) else fq_acodec (x_filter x)) in *.
        set (v1 := if rm_type m =? type_video then Z.of_N (video_codec_id m) else fq_vcodec (x_filter x)) in *.
        set (f1 := mk_tsfilt (fq_data (x_filter x) ++ [m]) a1 v1 false (fq_version (x_filter x))) in *.
        assert (Hdrain : drain O obs_decide obs_apply obs_patpmt x o f1 = (x', o', outs') ->
                         vrun_inv x' ([] ++ outs') (acts ++ [AMsg m])).
        { unfold drain. cbn [fq_vcodec fq_acodec fq_data f1].
          set (pp := pack_pat ++ pack_pmt v1 a1).
          destruct (pop_all_is_pure O obs_decide obs_apply (fq_data (x_filter x) ++ [m]) (x_core x) (obs_patpmt o pp)) as [ds Hds].
          destruct (pop_all O obs_decide obs_apply (x_core x) (obs_patpmt o pp) (fq_data (x_filter x) ++ [m])) as [[s1 o1] evs] eqn:Ep.
          intros E'. injection E' as <- <- <-. unfold vrun_inv, popped. cbn [app x_core x_filter fq_done ts_events flat_map]. fold (ts_events (map OutTs evs)).
          rewrite ts_events_map, Hm, <- Hdata. rewrite Hinit in Hds.
          exact (pop_all_vwalked _ _ _ [] [] _ _ chained_init vwalked_init Hds). }
        destruct (negb (v1 =? -1)%Z && negb (a1 =? -1)%Z); [exact (Hdrain E)|].
        destruct (Nat.leb filter_max_msgs (length (fq_data f1))); [exact (Hdrain E)|].
        injection E as <- <- <-. unfold vrun_inv, popped. cbn [app x_core x_filter fq_done fq_data f1 ts_events flat_map].
        rewrite Hinit. exact vwalked_init.
    - apply Hflush; [exact E|]. rewrite msgs_of_app. cbn. now rewrite app_nil_r.
    - apply Hflush; [exact E|]. rewrite msgs_of_app. cbn. now rewrite app_nil_r.
  Qed.

  Lemma run_vinv_all : forall acts x o outs0 acts0 x' o' outs,
    run_inv x outs0 acts0 -> vrun_inv x outs0 acts0 ->
    run_actions O obs_decide obs_apply obs_patpmt x o acts = (x', o', outs) ->
    vrun_inv x' (outs0 ++ outs) (acts0 ++ acts).
  Proof.
    induction acts as [|a t IH]; intros x o outs0 acts0 x' o' outs Hi Hv; cbn [run_actions].
    - intros H. injection H as <- <- <-. now rewrite !app_nil_r.
    - destruct (match a with
                | AMsg m => feed_rtmp_message O obs_decide obs_apply obs_patpmt x o m
                | AFlush => remuxer_flush O obs_decide obs_apply x o
                | ADispose => remuxer_dispose O obs_decide obs_apply x o
                end) as [[x1 o1] e1] eqn:E1.
      destruct (run_actions O obs_decide obs_apply obs_patpmt x1 o1 t) as [[x2 o2] e2] eqn:E2.
      intros H. injection H as <- <- <-.
      rewrite app_assoc. replace (acts0 ++ a :: t) with ((acts0 ++ [a]) ++ t) by now rewrite <- app_assoc.
      eapply IH; [| |exact E2].
      + eapply step_inv; eassumption.
      + eapply step_vinv; eassumption.
  Qed.

  (* from a fresh remuxer: the video frames of the run, in order, are the walk over the messages handed to the core *)
  Theorem run_video_walk acts o x' o' outs :
    run_actions O obs_decide obs_apply obs_patpmt remuxer_init o acts = (x', o', outs) ->
    map vview_of (video_evs (ts_events outs)) = snd (video_walk (popped x' acts)).
  Proof.
    intros H. exact (proj2 (run_vinv_all acts remuxer_init o [] [] x' o' outs run_inv_init vrun_inv_init H)).
  Qed.
End AnyObserver.
