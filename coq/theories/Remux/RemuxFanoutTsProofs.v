(* HTTP-TS subscribers of the fan-out model (Group/GroupFanout.v), lifted from
   one visit (C02: ts_fresh_visit) to histories, in the style of the RTSP
   theorems of Group/GroupFanoutRtspProofs.v: what a session has received is
   PAT/PMT, the cached GOPs, then - from the first boundary on when it has to
   wait - one label per TS blob and per PAT/PMT block, nothing skipped, nothing
   doubled; and what the GOP cache holds is a function of the history. *)
From Coq Require Import List Arith Bool Lia NArith.
From Lal Require Import Common.LBytes Group.GroupMsg Group.GroupGopCache Group.GroupFanout
  Group.GroupGopCacheProofs Group.GroupFanoutProofs Group.GroupFanoutAdmitProofs Group.GroupFanoutRtspProofs.
Import ListNotations.
Open Scope N_scope.

(* ---- nothing but EvTs / EvPatPmt touches an HTTP-TS session ---- *)
Lemma fin_ts cache key hdr lc pend x c : c_kind c = KTs -> fin cache key hdr lc pend x c = c.
Proof. intro H. unfold fin, is_rtmp. now rewrite H. Qed.
Lemma write1_ts l c : c_kind c = KTs -> (if ckind_eqb (c_kind c) KRtmp && admitted c then c_append c l else c) = c.
Proof. intro H. now rewrite H. Qed.
Lemma push_step_ts cache lw c : c_kind c = KTs -> push_step cache lw c = c.
Proof. intro H. unfold push_step. now rewrite H. Qed.
Lemma flv_step_ts cache key hdr lt c : c_kind c = KTs -> flv_step cache key hdr lt c = c.
Proof. intro H. unfold flv_step. now rewrite H. Qed.

Lemma publish_subs_ts cf s m : Nat.eqb (length (rm_payload m)) 0 = false ->
  exists F : consumer -> consumer,
    g_subs (publish cf s m) = map F (g_subs s) /\
    (forall c, c_id (F c) = c_id c) /\ (forall c, c_kind c = KTs -> F c = c).
Proof.
  intro Hne. unfold publish. rewrite Hne. rewrite rtmp_loop_spec.
  set (cache := g_rtmp_cache s). set (key := is_video_key_nalu m). set (hdr := is_hdr_msg m). set (lc := LC (g_next s)).
  set (x := if anytrig cache key hdr lc (g_subs s) then g_merge s else []).
  set (F1 := fin cache key hdr lc [] x).
  set (P := push_step cache (lcw m (g_next s))). set (V := flv_step (g_flv_cache s) key hdr (LT (g_next s))).
  assert (HW : forall l, exists F, (forall subs, map V (map P (write_rtmp_admitted l (map F1 subs))) = map F subs) /\
            (forall c, c_id (F c) = c_id c) /\ (forall c, c_kind c = KTs -> F c = c)).
  { intro l.
    exists (fun c => V (P ((fun c => if ckind_eqb (c_kind c) KRtmp && admitted c then c_append c l else c) (F1 c)))).
    split; [intro subs; unfold write_rtmp_admitted; now rewrite !map_map|]. split.
    - intro c. unfold V, P, F1. now rewrite flv_step_id, push_step_id, write1_id, fin_id.
    - intros c Hk. unfold V, P, F1. rewrite (fin_ts _ _ _ _ _ _ c Hk), (write1_ts _ c Hk), (push_step_ts _ _ c Hk).
      now apply flv_step_ts. }
  assert (H0 : exists F, (forall subs, map V (map P (map F1 subs)) = map F subs) /\
            (forall c, c_id (F c) = c_id c) /\ (forall c, c_kind c = KTs -> F c = c)).
  { exists (fun c => V (P (F1 c))). split; [intro subs; now rewrite !map_map|]. split.
    - intro c. unfold V, P, F1. now rewrite flv_step_id, push_step_id, fin_id.
    - intros c Hk. unfold V, P, F1. rewrite (fin_ts _ _ _ _ _ _ c Hk), (push_step_ts _ _ c Hk). now apply flv_step_ts. }
  destruct (has_kind KRtmp _); [destruct (cf_merge cf =? 0); [|destruct (cf_merge cf <=? _)]|]; cbn [g_subs].
  - destruct (HW [LC (g_next s)]) as (F & E & A & C). exists F. rewrite E. auto.
  - match goal with |- context [write_rtmp_admitted ?l _] => destruct (HW l) as (F & E & A & C) end.
    exists F. rewrite E. auto.
  - destruct H0 as (F & E & A & C). exists F. rewrite E. auto.
  - destruct H0 as (F & E & A & C). exists F. rewrite E. auto.
Qed.

(* what an event does to an HTTP-TS session *)
Definition ts_after (s : gstate) (e : ev) (c : consumer) : consumer :=
  match e with
  | EvTs b => ts_step (g_ts_cache s) (g_patpmt s) b (LTs (g_next_ts s)) c
  | EvPatPmt => if negb (c_fresh c) then c_append c [LPat (g_next_pat s)] else c
  | _ => c
  end.

Theorem ts_sub_step cf s e id c :
  find_sub s id = Some c -> c_kind c = KTs -> stays e c ->
  find_sub (step cf s e) id = Some (ts_after s e c).
Proof.
  intros Hfind Hk Hstay. unfold find_sub in *.
  assert (Hnr : c_kind c <> KRtsp) by (rewrite Hk; discriminate).
  destruct e as [m|k jid|lid| | |b| |v|pid|raw|]; cbn [step ts_after].
  - destruct (Nat.eqb (length (rm_payload m)) 0) eqn:Hne.
    + unfold publish. rewrite Hne. exact Hfind.
    + destruct (publish_subs_ts cf s m Hne) as (F & E & A & C). rewrite E.
      rewrite find_map_id by exact A. rewrite Hfind. cbn [option_map]. now rewrite (C c Hk).
  - destruct (existsb _ _); [exact Hfind|]. unfold set_subs. cbn [g_subs]. now apply find_app_some.
  - cbn [stays] in Hstay.
    destruct (partition (fun x => c_id x =? lid) (g_subs s)) as [gone stay] eqn:Hp. cbn [g_subs].
    change stay with (snd (gone, stay)). rewrite <- Hp. apply find_partition_snd; [exact Hfind|].
    apply N.eqb_neq. exact Hstay.
  - destruct (g_in s); exact Hfind.
  - destruct (negb (g_in s)); [exact Hfind|].
    destruct (partition (fun x => ckind_eqb (c_kind x) KPush) (g_subs s)) as [pushes stay] eqn:Hp. cbn [g_subs].
    change stay with (snd (pushes, stay)). rewrite <- Hp. apply find_partition_snd; [exact Hfind|]. now rewrite Hk.
  - unfold feed_ts. cbn [g_subs]. rewrite find_map_id by (intro; apply ts_step_id). now rewrite Hfind.
  - cbn [g_subs].
    assert (Hid1 : forall x : consumer, c_id (if ckind_eqb (c_kind x) KTs && negb (c_fresh x) then c_append x [LPat (g_next_pat s)] else x) = c_id x)
      by (intro x; destruct (ckind_eqb (c_kind x) KTs && negb (c_fresh x)); reflexivity).
    rewrite (find_map_id _ id (g_subs s) Hid1). rewrite Hfind. cbn [option_map]. now rewrite Hk.
  - cbn [g_subs]. rewrite find_map_id by (intro; apply sdp_step_id). rewrite Hfind. cbn [option_map].
    now rewrite (sdp_step_other _ c Hnr).
  - unfold set_subs. cbn [g_subs]. rewrite find_map_id by (intro; apply play_step_id). rewrite Hfind. cbn [option_map].
    now rewrite (play_step_other _ _ c Hnr).
  - unfold feed_rtp, feed_rtp_gen. cbn [g_subs]. destruct (rtp_pt raw) as [pt|]; [|exact Hfind].
    rewrite find_map_id by (intro; apply rtsp_step_id). rewrite Hfind. cbn [option_map].
    now rewrite (rtsp_step_other _ _ _ _ c Hnr).
  - destruct Hstay.
Qed.

(* ---- the counters ---- *)
Lemma g_next_ts_step cf s e :
  g_next_ts (step cf s e) = match e with EvTs _ => S (g_next_ts s) | _ => g_next_ts s end.
Proof.
  destruct e as [m|k id|id| | |b| |v|pid|raw|]; cbn [step].
  - unfold publish. destruct (Nat.eqb _ 0); [reflexivity|].
    rewrite rtmp_loop_spec.
    destruct (has_kind KRtmp _); [destruct (cf_merge cf =? 0); [|destruct (cf_merge cf <=? _)]|]; reflexivity.
  - destruct (existsb _ _); reflexivity.
  - destruct (partition _ _); reflexivity.
  - destruct (g_in s); reflexivity.
  - destruct (negb (g_in s)); [reflexivity|]. destruct (partition _ _); reflexivity.
  - reflexivity.
  - reflexivity.
  - reflexivity.
  - reflexivity.
  - reflexivity.
  - reflexivity.
Qed.

Lemma g_next_pat_step cf s e :
  g_next_pat (step cf s e) = match e with EvPatPmt => S (g_next_pat s) | _ => g_next_pat s end.
Proof.
  destruct e as [m|k id|id| | |b| |v|pid|raw|]; cbn [step].
  - unfold publish. destruct (Nat.eqb _ 0); [reflexivity|].
    rewrite rtmp_loop_spec.
    destruct (has_kind KRtmp _); [destruct (cf_merge cf =? 0); [|destruct (cf_merge cf <=? _)]|]; reflexivity.
  - destruct (existsb _ _); reflexivity.
  - destruct (partition _ _); reflexivity.
  - destruct (g_in s); reflexivity.
  - destruct (negb (g_in s)); [reflexivity|]. destruct (partition _ _); reflexivity.
  - reflexivity.
  - reflexivity.
  - reflexivity.
  - reflexivity.
  - reflexivity.
  - reflexivity.
Qed.

(* ---- histories ---- *)
(* one label per TS blob and per PAT/PMT block of the history *)
Fixpoint ts_units (nt np : nat) (h : list ev) : list label :=
  match h with
  | [] => []
  | EvTs _ :: t => LTs nt :: ts_units (S nt) np t
  | EvPatPmt :: t => LPat np :: ts_units nt (S np) t
  | _ :: t => ts_units nt np t
  end.

(* the PAT/PMT blocks alone *)
Fixpoint pat_units (np : nat) (h : list ev) : list label :=
  match h with
  | [] => []
  | EvPatPmt :: t => LPat np :: pat_units (S np) t
  | _ :: t => pat_units np t
  end.

(* no TS blob at all / none that is a boundary *)
Fixpoint no_ts (h : list ev) : Prop :=
  match h with [] => True | EvTs _ :: _ => False | _ :: t => no_ts t end.
Fixpoint no_boundary (h : list ev) : Prop :=
  match h with [] => True | EvTs true :: _ => False | _ :: t => no_boundary t end.

Lemma attached_app id k h1 h2 : attached id k (h1 ++ h2) -> attached id k h1 /\ attached id k h2.
Proof.
  induction h1 as [|e h1 IH]; [intro H; split; [exact I|exact H]|].
  destruct e; cbn [app attached]; try contradiction; try exact IH;
    intros [H1 H2]; destruct (IH H2) as [A B]; (split; [split|]; assumption).
Qed.

(* an admitted session: everything, in order *)
Theorem ts_history_admitted cf : forall h s id c,
  find_sub s id = Some c -> c_kind c = KTs -> admitted c = true -> attached id KTs h ->
  exists c', find_sub (fold_left (step cf) h s) id = Some c' /\ c_kind c' = KTs /\ admitted c' = true /\
             c_out c' = c_out c ++ ts_units (g_next_ts s) (g_next_pat s) h.
Proof.
  induction h as [|e h IH]; intros s id c Hfind Hk Ha Hatt.
  - exists c. cbn. repeat split; try assumption. now rewrite app_nil_r.
  - cbn [fold_left].
    assert (Hid : c_id c = id) by (unfold find_sub in Hfind; now apply find_idp_in in Hfind).
    destruct (stays_of_attached id KTs e h c Hid Hk ltac:(discriminate) Hatt) as [Hstay Hatt'].
    destruct (admitted_flags c Ha) as [Hf Hw].
    pose proof (ts_sub_step cf s e id c Hfind Hk Hstay) as Hf1.
    assert (K : c_kind (ts_after s e c) = KTs /\ admitted (ts_after s e c) = true /\
                c_out (ts_after s e c) = c_out c ++ match e with EvTs _ => [LTs (g_next_ts s)] | EvPatPmt => [LPat (g_next_pat s)] | _ => [] end).
    { destruct e; cbn [ts_after]; try (rewrite app_nil_r; auto).
      - unfold ts_step. rewrite Hk, Hf, Hw. cbn [ckind_eqb negb]. auto.
      - rewrite Hf. cbn [negb]. auto. }
    destruct K as (K1 & K2 & K3).
    destruct (IH (step cf s e) id _ Hf1 K1 K2 Hatt') as (c2 & Hf2 & Hk2 & Ha2 & Ho2).
    exists c2. split; [exact Hf2|]. split; [exact Hk2|]. split; [exact Ha2|].
    rewrite Ho2, K3, <- app_assoc. f_equal. rewrite g_next_ts_step, g_next_pat_step.
    destruct e; cbn [ts_units app]; reflexivity.
Qed.

(* a session past its prologue that waits for a boundary: the PAT/PMT blocks only *)
Theorem ts_history_waiting cf : forall h s id c,
  find_sub s id = Some c -> c_kind c = KTs -> c_fresh c = false -> c_wait c = true ->
  attached id KTs h -> no_boundary h ->
  exists c', find_sub (fold_left (step cf) h s) id = Some c' /\ c_kind c' = KTs /\ c_fresh c' = false /\ c_wait c' = true /\
             c_out c' = c_out c ++ pat_units (g_next_pat s) h.
Proof.
  induction h as [|e h IH]; intros s id c Hfind Hk Hf Hw Hatt Hq.
  - exists c. cbn. repeat split; try assumption. now rewrite app_nil_r.
  - cbn [fold_left].
    assert (Hid : c_id c = id) by (unfold find_sub in Hfind; now apply find_idp_in in Hfind).
    destruct (stays_of_attached id KTs e h c Hid Hk ltac:(discriminate) Hatt) as [Hstay Hatt'].
    pose proof (ts_sub_step cf s e id c Hfind Hk Hstay) as Hf1.
    assert (K : c_kind (ts_after s e c) = KTs /\ c_fresh (ts_after s e c) = false /\ c_wait (ts_after s e c) = true /\
                c_out (ts_after s e c) = c_out c ++ match e with EvPatPmt => [LPat (g_next_pat s)] | _ => [] end /\ no_boundary h).
    { destruct e; cbn [ts_after no_boundary] in *; try (rewrite app_nil_r; auto).
      - destruct boundary; [contradiction|]. unfold ts_step. rewrite Hk, Hf, Hw. cbn [ckind_eqb negb]. auto.
      - rewrite Hf. cbn [negb]. auto. }
    destruct K as (K1 & K2 & K3 & K4 & K5).
    destruct (IH (step cf s e) id _ Hf1 K1 K2 K3 Hatt' K5) as (c2 & Hf2 & Hk2 & Hfr2 & Hw2 & Ho2).
    exists c2. split; [exact Hf2|]. split; [exact Hk2|]. split; [exact Hfr2|]. split; [exact Hw2|].
    rewrite Ho2, K4, <- app_assoc. f_equal. rewrite g_next_pat_step.
    destruct e; cbn [pat_units app]; reflexivity.
Qed.

(* a session that has just joined is touched by nothing until the first TS blob *)
Theorem ts_history_fresh cf : forall h s id c,
  find_sub s id = Some c -> c_kind c = KTs -> c_fresh c = true -> attached id KTs h -> no_ts h ->
  find_sub (fold_left (step cf) h s) id = Some c.
Proof.
  induction h as [|e h IH]; intros s id c Hfind Hk Hf Hatt Hq; [exact Hfind|].
  cbn [fold_left].
  assert (Hid : c_id c = id) by (unfold find_sub in Hfind; now apply find_idp_in in Hfind).
  destruct (stays_of_attached id KTs e h c Hid Hk ltac:(discriminate) Hatt) as [Hstay Hatt'].
  pose proof (ts_sub_step cf s e id c Hfind Hk Hstay) as Hf1.
  assert (K : ts_after s e c = c /\ no_ts h).
  { destruct e; cbn [ts_after no_ts] in *; try (split; [reflexivity|exact Hq]); [contradiction|].
    rewrite Hf. cbn [negb]. split; [reflexivity|exact Hq]. }
  destruct K as [K1 K2]. rewrite K1 in Hf1. now apply IH.
Qed.

(* joining: a new HTTP-TS session is fresh, waits, has received nothing *)
Lemma ts_join cf s id :
  existsb (fun x => c_id x =? id) (g_subs s) = false ->
  find_sub (step cf s (EvJoin KTs id)) id = Some (mk_consumer id KTs true true []).
Proof.
  intro Hn. cbn [step]. rewrite Hn. unfold set_subs, find_sub. cbn [g_subs].
  assert (Hnone : find (idp id) (g_subs s) = None).
  { destruct (find (idp id) (g_subs s)) as [x|] eqn:E; [|reflexivity].
    apply find_some in E. destruct E as [Hin Hp].
    assert (existsb (fun x => c_id x =? id) (g_subs s) = true) by (apply existsb_exists; exists x; split; [exact Hin|exact Hp]).
    congruence. }
  clear Hn. induction (g_subs s) as [|x l IH]; cbn [app find].
  - unfold idp, new_consumer. cbn [c_id]. now rewrite N.eqb_refl.
  - cbn [find] in Hnone. destruct (idp id x); [discriminate|]. now apply IH.
Qed.

(* ---- the whole life of an HTTP-TS session, from its join on ---- *)
(* After the join nothing reaches the session until the first TS blob (h1).
   At that blob it is sent the PAT/PMT in force and the cached GOPs; when a GOP
   was cached or the blob is a boundary it is admitted there and then, and
   everything that follows reaches it in order. *)
Theorem ts_join_admitted cf h0 id h1 b h2 :
  existsb (fun x => c_id x =? id) (g_subs (run cf h0)) = false ->
  attached id KTs (h1 ++ EvTs b :: h2) -> no_ts h1 ->
  let s1 := run cf (h0 ++ EvJoin KTs id :: h1) in
  (Nat.ltb 0 (gc_count (g_ts_cache s1)) || b = true) ->
  exists c', find_sub (run cf (h0 ++ EvJoin KTs id :: h1 ++ EvTs b :: h2)) id = Some c' /\ c_kind c' = KTs /\ admitted c' = true /\
    c_out c' = opt_list (g_patpmt s1) ++ gc_all (g_ts_cache s1) ++ ts_units (g_next_ts s1) (g_next_pat s1) (EvTs b :: h2).
Proof.
  intros Hn Hatt Hq s1 Hadm.
  destruct (attached_app _ _ _ _ Hatt) as [Hatt1 Hatt2].
  set (c0 := mk_consumer id KTs true true []).
  assert (H1 : find_sub s1 id = Some c0).
  { subst s1. rewrite run_app. cbn [fold_left]. apply ts_history_fresh; try reflexivity; try assumption.
    now apply ts_join. }
  pose proof (ts_sub_step cf s1 (EvTs b) id c0 H1 eq_refl I) as H2. cbn [ts_after] in H2.
  destruct (ts_fresh_visit (g_ts_cache s1) (g_patpmt s1) b (LTs (g_next_ts s1)) c0 eq_refl eq_refl) as (K1 & K2 & K3).
  set (c1 := ts_step (g_ts_cache s1) (g_patpmt s1) b (LTs (g_next_ts s1)) c0) in *.
  assert (Hw1 : c_wait c1 = false).
  { rewrite K2. cbn [c_wait c0]. destruct (Nat.ltb 0 (gc_count (g_ts_cache s1))); [reflexivity|].
    cbn [orb] in Hadm. rewrite Hadm. reflexivity. }
  assert (Ha1 : admitted c1 = true) by (unfold admitted; now rewrite K1, Hw1).
  assert (Hk1 : c_kind c1 = KTs) by (unfold c1; now rewrite ts_step_kind).
  cbn [attached] in Hatt2.
  destruct (ts_history_admitted cf h2 (step cf s1 (EvTs b)) id c1 H2 Hk1 Ha1 Hatt2) as (c2 & Hf2 & Hk2 & Ha2 & Ho2).
  exists c2. split.
  { replace (h0 ++ EvJoin KTs id :: h1 ++ EvTs b :: h2) with ((h0 ++ EvJoin KTs id :: h1) ++ EvTs b :: h2)
      by (rewrite <- app_assoc; reflexivity).
    rewrite run_app. cbn [fold_left]. exact Hf2. }
  split; [exact Hk2|]. split; [exact Ha2|].
  rewrite Ho2, K3. cbn [c_out c0 app]. rewrite Hw1 in K2.
  replace (if (if Nat.ltb 0 (gc_count (g_ts_cache s1)) then false else c_wait c0) && negb b then [] else [LTs (g_next_ts s1)])
    with [LTs (g_next_ts s1)].
  2:{ rewrite <- K2. reflexivity. }
  rewrite g_next_ts_step, g_next_pat_step. cbn [ts_units]. rewrite <- !app_assoc. reflexivity.
Qed.

(* ... and when nothing is cached and the blob is no boundary, it is sent the
   PAT/PMT in force, then the PAT/PMT blocks that follow, and from the first
   boundary on everything *)
Theorem ts_join_waiting cf h0 id h1 h2 b3 h3 :
  existsb (fun x => c_id x =? id) (g_subs (run cf h0)) = false ->
  attached id KTs (h1 ++ EvTs false :: h2 ++ EvTs true :: h3) -> no_ts h1 -> no_boundary h2 -> b3 = true ->
  let s1 := run cf (h0 ++ EvJoin KTs id :: h1) in
  let s2 := run cf (h0 ++ EvJoin KTs id :: h1 ++ EvTs false :: h2) in
  gc_count (g_ts_cache s1) = 0%nat ->
  exists c', find_sub (run cf (h0 ++ EvJoin KTs id :: h1 ++ EvTs false :: h2 ++ EvTs b3 :: h3)) id = Some c' /\ c_kind c' = KTs /\
    admitted c' = true /\
    c_out c' = opt_list (g_patpmt s1) ++ pat_units (g_next_pat s1) h2
               ++ ts_units (g_next_ts s2) (g_next_pat s2) (EvTs true :: h3).
Proof.
  intros Hn Hatt Hq1 Hq2 -> s1 s2 Hcnt.
  destruct (attached_app _ _ _ _ Hatt) as [Hatt1 Hatt2]. cbn [attached] in Hatt2.
  destruct (attached_app _ _ _ _ Hatt2) as [Hatt2a Hatt3]. cbn [attached] in Hatt3.
  set (c0 := mk_consumer id KTs true true []).
  assert (H1 : find_sub s1 id = Some c0).
  { subst s1. rewrite run_app. cbn [fold_left]. apply ts_history_fresh; try reflexivity; try assumption.
    now apply ts_join. }
  pose proof (ts_sub_step cf s1 (EvTs false) id c0 H1 eq_refl I) as H2. cbn [ts_after] in H2.
  destruct (ts_fresh_visit (g_ts_cache s1) (g_patpmt s1) false (LTs (g_next_ts s1)) c0 eq_refl eq_refl) as (K1 & K2 & K3).
  set (c1 := ts_step (g_ts_cache s1) (g_patpmt s1) false (LTs (g_next_ts s1)) c0) in *.
  assert (Hgc : gc_all (g_ts_cache s1) = []).
  { unfold gc_all. rewrite Hcnt. reflexivity. }
  rewrite Hcnt in K2, K3. cbn [Nat.ltb Nat.leb c_wait c0 andb negb c_out app] in K2, K3. rewrite Hgc, !app_nil_r in K3.
  assert (Hk1 : c_kind c1 = KTs) by (unfold c1; now rewrite ts_step_kind).
  destruct (ts_history_waiting cf h2 (step cf s1 (EvTs false)) id c1 H2 Hk1 K1 K2 Hatt2a Hq2) as (c2 & Hf2 & Hk2 & Hfr2 & Hw2 & Ho2).
  assert (Hs2 : s2 = fold_left (step cf) h2 (step cf s1 (EvTs false))).
  { subst s2 s1. replace (h0 ++ EvJoin KTs id :: h1 ++ EvTs false :: h2) with ((h0 ++ EvJoin KTs id :: h1) ++ EvTs false :: h2)
      by (rewrite <- app_assoc; reflexivity).
    rewrite run_app. reflexivity. }
  rewrite <- Hs2 in Hf2.
  pose proof (ts_sub_step cf s2 (EvTs true) id c2 Hf2 Hk2 I) as H3. cbn [ts_after] in H3.
  set (c3 := ts_step (g_ts_cache s2) (g_patpmt s2) true (LTs (g_next_ts s2)) c2) in *.
  assert (K3' : c_kind c3 = KTs /\ admitted c3 = true /\ c_out c3 = c_out c2 ++ [LTs (g_next_ts s2)]).
  { unfold c3, ts_step. rewrite Hk2, Hfr2, Hw2. cbn [ckind_eqb negb]. unfold admitted. cbn. rewrite Hfr2. auto. }
  destruct K3' as (Hk3 & Ha3 & Ho3).
  destruct (ts_history_admitted cf h3 (step cf s2 (EvTs true)) id c3 H3 Hk3 Ha3 Hatt3) as (c4 & Hf4 & Hk4 & Ha4 & Ho4).
  exists c4. split.
  { replace (h0 ++ EvJoin KTs id :: h1 ++ EvTs false :: h2 ++ EvTs true :: h3)
      with ((h0 ++ EvJoin KTs id :: h1 ++ EvTs false :: h2) ++ EvTs true :: h3)
      by (rewrite <- !app_assoc; cbn [app]; rewrite <- !app_assoc; reflexivity).
    rewrite run_app. cbn [fold_left]. exact Hf4. }
  split; [exact Hk4|]. split; [exact Ha4|].
  rewrite Ho4, Ho3, Ho2, K3. rewrite g_next_ts_step, !g_next_pat_step. cbn [ts_units].
  rewrite <- !app_assoc. reflexivity.
Qed.

(* ---- what the HTTP-TS GOP cache holds, as a function of the history ---- *)
Record tspec := mk_tspec { tp_in : bool; tp_n : nat; tp_gops : list (list label) }.

Definition tstep (cf : cfg) (t : tspec) (e : ev) : tspec :=
  match e with
  | EvTs b => mk_tspec (tp_in t) (S (tp_n t))
               (if Nat.ltb 0 (cf_ts_gop cf) then gops_feed (cf_ts_max cf) (tp_gops t) (if b then MKey else MOther) (LTs (tp_n t))
                else tp_gops t)
  | EvInStart => mk_tspec true (tp_n t) (tp_gops t)
  | EvInStop => if tp_in t then mk_tspec false (tp_n t) [] else t
  | EvDispose => mk_tspec false (tp_n t) []
  | _ => t
  end.

Definition trun (cf : cfg) (h : list ev) : tspec := fold_left (tstep cf) h (mk_tspec false 0 []).

Definition ts_cache_rel (cf : cfg) (s : gstate) (t : tspec) : Prop :=
  g_in s = tp_in t /\ g_next_ts s = tp_n t /\ ring_inv label (g_ts_cache s) (tp_gops t) /\
  gc_size (g_ts_cache s) = S (cf_ts_gop cf) /\ gc_max (g_ts_cache s) = cf_ts_max cf.

Lemma feed_size_max (g : gop_cache label) c b p :
  gc_size (fst (gc_feed g c b p)) = gc_size g /\ gc_max (fst (gc_feed g c b p)) = gc_max g.
Proof.
  destruct c; cbn [gc_feed fst]; try (split; reflexivity).
  - destruct (Nat.ltb 1 (gc_size g)); split; reflexivity.
  - unfold gc_feed_last_gop. destruct (Nat.ltb 1 (gc_size g)); [|split; reflexivity].
    destruct (gc_is_empty g); [split; reflexivity|]. destruct (_ || _); split; reflexivity.
Qed.

Ltac split5 := split; [|split; [|split; [|split]]].

Lemma ts_cache_rel_step cf s t e : ts_cache_rel cf s t -> ts_cache_rel cf (step cf s e) (tstep cf t e).
Proof.
  intros (Hin & Hn & Hr & Hsz & Hmx).
  destruct e as [m|k id|id| | |b| |v|pid|raw|]; cbn [step tstep].
  - unfold publish. destruct (Nat.eqb _ 0); [split5; assumption|].
    rewrite rtmp_loop_spec.
    destruct (has_kind KRtmp _); [destruct (cf_merge cf =? 0); [|destruct (cf_merge cf <=? _)]|]; split5; assumption.
  - destruct (existsb _ _); split5; assumption.
  - destruct (partition _ _); split5; assumption.
  - destruct (g_in s) eqn:E.
    + split5; try assumption; cbn [tp_in]; try now rewrite <- Hin.
    + split5; try assumption; try reflexivity.
  - rewrite <- Hin. destruct (g_in s) eqn:E; cbn [negb]; [|split5; try assumption; now rewrite <- Hin].
    destruct (partition _ _). split5; try assumption; try reflexivity. cbn [g_ts_cache tp_gops]. eapply ring_inv_clear; eassumption.
  - unfold feed_ts, ts_cache_rel. cbn [g_in g_next_ts g_ts_cache tp_in tp_n tp_gops].
    destruct (feed_size_max (g_ts_cache s) (if b then MKey else MOther) (LTs (g_next_ts s)) []) as [F1 F2].
    split; [exact Hin|]. split; [now rewrite Hn|]. split; [|split; [now rewrite F1|now rewrite F2]].
    pose proof (ring_inv_feed label (g_ts_cache s) (tp_gops t) (if b then MKey else MOther) (LTs (g_next_ts s)) [] Hr) as Hf.
    unfold gops_after in Hf. rewrite Hsz, Hmx in Hf.
    replace (Nat.ltb 1 (S (cf_ts_gop cf))) with (Nat.ltb 0 (cf_ts_gop cf)) in Hf by (destruct (cf_ts_gop cf); reflexivity).
    rewrite <- Hn. destruct b; exact Hf.
  - split5; assumption.
  - split5; assumption.
  - unfold set_subs. split5; assumption.
  - unfold feed_rtp, feed_rtp_gen. split5; assumption.
  - split5; try assumption; try reflexivity. cbn [g_ts_cache tp_gops]. eapply ring_inv_clear; eassumption.
Qed.

Theorem ts_cache_follows_history cf h : ts_cache_rel cf (run cf h) (trun cf h).
Proof.
  unfold run, trun.
  assert (H0 : ts_cache_rel cf (g_init cf) (mk_tspec false 0 [])).
  { split5; try reflexivity. apply ring_inv_new. }
  revert H0. generalize (g_init cf) (mk_tspec false 0 []). induction h as [|e h IH]; intros s t H; [exact H|].
  cbn [fold_left]. apply IH. now apply ts_cache_rel_step.
Qed.

(* what a joiner is sent from the cache: the most recent min(gop_num, #GOPs)
   GOPs of the current input, oldest first; it is admitted at once iff there is one *)
Theorem ts_cache_prologue cf h :
  gc_all (g_ts_cache (run cf h)) = concat (lastn (cf_ts_gop cf) (tp_gops (trun cf h))) /\
  gc_count (g_ts_cache (run cf h)) = Nat.min (length (tp_gops (trun cf h))) (cf_ts_gop cf) /\
  g_next_ts (run cf h) = tp_n (trun cf h).
Proof.
  destruct (ts_cache_follows_history cf h) as (_ & Hn & Hr & Hsz & _).
  split; [|split; [|exact Hn]].
  - rewrite (gc_all_spec label _ _ Hr), Hsz. now rewrite Nat.sub_1_r.
  - destruct Hr as [_ _ _ _ Hc _]. rewrite Hc, Hsz. now rewrite Nat.sub_1_r.
Qed.
