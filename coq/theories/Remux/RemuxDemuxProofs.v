(* C06, stream level (4): the transport stream the remuxer emits (all packets
   of all frames, audio and video interleaved in any way), split by PID and
   given to C09's reference demultiplexer, yields one access unit per emitted
   frame of the track, in order, with continuous counters. *)
From Coq Require Import Lia ZifyN ZifyNat ZifyBool.
From Lal Require Import Common.LBytes Common.LBytesProofs Common.Res Mpegts.TsPack Mpegts.TsDemux Mpegts.TsPackProofs
  Mpegts.TsStreamProofs Remux.RemuxTsTimestamp Remux.RemuxRtmp2Ts Remux.RemuxSpec Remux.RemuxStepProofs
  Remux.RemuxChainProofs.
Open Scope N_scope.
Ltac Zify.zify_post_hook ::= Z.div_mod_to_equations.

Lemma pkt_pid_header pusi pid afc cc r : pid < 8192 -> pkt_pid (ts_header pusi pid afc cc ++ r) = pid.
Proof. intros H. unfold pkt_pid, ts_header. cbn [app nth]. destruct pusi; lia. Qed.

Lemma pack_rest_pid fuel : forall n pid cc raw, pid < 8192 ->
  Forall (fun p => pkt_pid p = pid) (pack_rest fuel n pid cc raw).
Proof.
  induction fuel as [|fuel IH]; intros n pid cc raw Hp; [constructor|].
  cbn [pack_rest]. destruct n as [|n]; [constructor|].
  destruct (Nat.leb 184 (S n)).
  - constructor; [now apply pkt_pid_header|now apply IH].
  - constructor; [now apply pkt_pid_header|constructor].
Qed.

Lemma pack_first_pid f n : f_pid f < 8192 -> pkt_pid (fst (pack_first_q fixed_tree f n)) = f_pid f.
Proof.
  intros Hp. unfold pack_first_q. cbn [q_f04 fixed_tree].
  destruct (f_key f); match goal with |- context [Nat.leb ?a ?b] => destruct (Nat.leb a b) end;
    cbn [fst]; now apply pkt_pid_header.
Qed.

Lemma pack_pid f : f_pid f < 8192 -> Forall (fun p => pkt_pid p = f_pid f) (fst (pack f)).
Proof.
  intros Hp. unfold pack, pack_q. destruct (length (f_raw f)) as [|n] eqn:En; [constructor|].
  pose proof (pack_first_pid f (S n) Hp) as H0.
  destruct (pack_first_q fixed_tree f (S n)) as [p0 used]. cbn [fst] in *.
  constructor; [exact H0|now apply pack_rest_pid].
Qed.

Definition ev_packets (evs : list tsev) : list bytes := concat (map te_packets evs).

Lemma filter_pid_packets pid : forall evs,
  Forall (fun e => pack (te_frame e) = (te_packets e, te_cc e) /\ f_pid (te_frame e) < 8192) evs ->
  filter (fun p => pkt_pid p =? pid) (ev_packets evs)
  = ev_packets (filter (fun e => f_pid (te_frame e) =? pid) evs).
Proof.
  induction 1 as [|e t [Hp Hlt] _ IH]; [reflexivity|].
  unfold ev_packets in *. cbn [map concat filter]. rewrite filter_app, IH.
  pose proof (pack_pid (te_frame e) Hlt) as Hpid. rewrite Hp in Hpid. cbn [fst] in Hpid.
  destruct (f_pid (te_frame e) =? pid) eqn:E.
  - apply N.eqb_eq in E. cbn [map concat]. f_equal.
    clear -Hpid E. induction Hpid as [|p l Hp _ IHl]; [reflexivity|]. cbn [filter].
    rewrite Hp, E, N.eqb_refl. now f_equal.
  - replace (filter (fun p => pkt_pid p =? pid) (te_packets e)) with (@nil bytes); [reflexivity|].
    clear -Hpid E. induction Hpid as [|p l Hp _ IHl]; [reflexivity|]. cbn [filter]. now rewrite Hp, E.
Qed.

(* a chain of one track, its frames well-formed: C09's stream theorem applies *)
Lemma chain_demux : forall l base cc, cc < 256 ->
  chain base cc l -> Forall (fun e => frame_wf_nocc (te_frame e)) l ->
  demux_stream (ev_packets l) = Some (expected_units cc (map te_frame l)).
Proof.
  intros l base cc Hcc Hch Hwf. unfold ev_packets.
  pose proof (chain_pack_seq l base cc Hch) as Hps.
  replace (map te_packets l) with (fst (pack_seq cc (map te_frame l))) by now rewrite Hps.
  apply pack_seq_stream_lossless; [assumption|]. now apply Forall_map.
Qed.
