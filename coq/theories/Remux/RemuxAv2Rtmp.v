(* C07: remux.AvPacket2RtmpRemuxer (pkg/remux/avpacket2rtmp.go):
   InitWithAvConfig, FeedAvPacket, emitRtmpAvMsg, setSps/Pps/Vps,
   clearVideoSeqHeader.  The NAL splitting (avc.SplitNaluAvcc /
   SplitNaluAnnexb), the sequence header builders and the AAC helpers are the
   C19 models.  [fx = false] is the tree before the two C07 fix commits
   (key-frame flag taken from the LAST kept NAL unit of the access unit; ADTS
   frames with fewer than 5 payload bytes dropped), [fx = true] the working
   tree.  No proofs here. *)
From Lal Require Export Common.LBytes Common.Res Codec.CodecNalFraming Codec.CodecAvcSeqHeader
  Codec.CodecHevcSeqHeader Codec.CodecAac.
From Lal Require Net.NetChk Net.NetUnpack.
Open Scope N_scope.

(* base.AvPacket without Pts (the remuxer never reads it): the record the
   unpacker models emit *)
Notation avpkt := NetUnpack.avpkt.
Notation mk_av := NetUnpack.mk_av.
Notation av_pt := NetUnpack.av_pt.
Notation av_ts := NetUnpack.av_ts.
Notation av_payload := NetUnpack.av_payload.

(* base.AvPacketPt *)
Definition pt_unknown : Z := (-1)%Z.
Definition pt_g711u : Z := 0%Z.
Definition pt_g711a : Z := 8%Z.
Definition pt_avc : Z := 96%Z.
Definition pt_aac : Z := 97%Z.
Definition pt_hevc : Z := 98%Z.
Definition pt_opus : Z := 101%Z.

Definition is_video_pt (pt : Z) : bool := ((pt =? pt_avc) || (pt =? pt_hevc))%Z.
Definition is_audio_pt (pt : Z) : bool :=
  ((pt =? pt_aac) || (pt =? pt_g711a) || (pt =? pt_g711u) || (pt =? pt_opus))%Z.

(* base.AvPacketStreamOption *)
Definition vfmt_avcc : N := 1.
Definition vfmt_annexb : N := 2.
Definition afmt_raw : N := 1.
Definition afmt_adts : N := 2.

(* what onRtmpMsg receives.  The header is determined by the kind: metadata =
   csid 5, type 18, stream id 1, timestamp 0, payload BuildMetadata(-1, -1, a, v);
   audio = csid 6, type 8; video = csid 7, type 9; MsgLen = len payload;
   TimestampAbs = uint32(int64 timestamp) *)
Inductive rmsg :=
| RMeta (acodec vcodec : Z)
| RAv (audio : bool) (ts : N) (payload : bytes).

Record rstate := mk_rs {
  rs_vfmt : N; rs_afmt : N; rs_meta : bool; rs_atype : Z; rs_vtype : Z;
  rs_vps : bytes; rs_sps : bytes; rs_pps : bytes; rs_adts : bool }.

(* NewAvPacket2RtmpRemuxer: DefaultApsOption = raw AAC, AVCC *)
Definition rs_new : rstate := mk_rs vfmt_avcc afmt_raw false pt_unknown pt_unknown [] [] [] false.
(* WithOption *)
Definition rs_with_option (st : rstate) (vfmt afmt : N) : rstate :=
  mk_rs vfmt afmt (rs_meta st) (rs_atype st) (rs_vtype st) (rs_vps st) (rs_sps st) (rs_pps st) (rs_adts st).

Definition set_meta (st : rstate) : rstate :=
  mk_rs (rs_vfmt st) (rs_afmt st) true (rs_atype st) (rs_vtype st) (rs_vps st) (rs_sps st) (rs_pps st) (rs_adts st).
Definition set_types (st : rstate) (a v : Z) : rstate :=
  mk_rs (rs_vfmt st) (rs_afmt st) (rs_meta st) a v (rs_vps st) (rs_sps st) (rs_pps st) (rs_adts st).
Definition set_params (st : rstate) (vps sps pps : bytes) : rstate :=
  mk_rs (rs_vfmt st) (rs_afmt st) (rs_meta st) (rs_atype st) (rs_vtype st) vps sps pps (rs_adts st).
Definition set_adts (st : rstate) : rstate :=
  mk_rs (rs_vfmt st) (rs_afmt st) (rs_meta st) (rs_atype st) (rs_vtype st) (rs_vps st) (rs_sps st) (rs_pps st) true.

(* uint32(timestamp) of an int64 *)
Definition ts32 (ts : Z) : N := NetChk.w32 ts.

(* emitRtmpAvMsg: the first message of all is preceded by the metadata *)
Definition meta_of (st : rstate) : rmsg :=
  RMeta (if (rs_atype st =? pt_aac)%Z then 10%Z else (-1)%Z)
        (if (rs_vtype st =? pt_avc)%Z then 7%Z else if (rs_vtype st =? pt_hevc)%Z then 12%Z else (-1)%Z).

Definition emit (st : rstate) (audio : bool) (payload : bytes) (ts : Z) : rstate * list rmsg :=
  let m := RAv audio (ts32 ts) payload in
  if rs_meta st then (st, [m]) else (set_meta st, [meta_of st; m]).

(* ---------------------------------------------------------------- video *)
Definition site_nal0 : N := 70.     (* nal[0] of an empty nal (never: the splitters hand out no empty unit) *)

Definition avc_nal_type (b0 : N) : N := b0 mod 32.           (* avc.ParseNaluType: v & 0x1f *)
Definition hevc_nal_type (b0 : N) : N := (b0 mod 128) / 2.   (* hevc.ParseNaluType: (v & 0x7e) >> 1 *)
Definition hevc_is_irap (t : N) : bool := (16 <=? t) && (t <=? 23).

Definition flag_key (hevc : bool) : N := if hevc then 28 else 23.      (* 0x1c / 0x17 *)
Definition flag_inter (hevc : bool) : N := if hevc then 44 else 39.    (* 0x2c / 0x27 *)

(* bele.BePutUint32(payload[pos:], uint32(len(nal))) ; copy *)
Definition len_nal (nal : bytes) : bytes := be_put 4 (u32 (lenN nal)) ++ nal.

(* accumulator of the for loop over the NAL units of one AvPacket:
   messages emitted so far, the bytes behind the 5-byte tag header, whether the
   last / any kept unit was a key slice *)
Record vacc := mk_vacc { va_st : rstate; va_msgs : list rmsg; va_body : bytes; va_last : bool; va_any : bool }.

Definition try_seq_header (hevc : bool) (a : vacc) (ts : Z) : res vacc :=
  let st := va_st a in
  let ready := if hevc then negb (lenN (rs_vps st) =? 0) && negb (lenN (rs_sps st) =? 0) && negb (lenN (rs_pps st) =? 0)
               else negb (lenN (rs_sps st) =? 0) && negb (lenN (rs_pps st) =? 0) in
  if negb ready then Ok a else
  match (if hevc then hevc_build_seq_header (rs_vps st) (rs_sps st) (rs_pps st)
         else avc_build_seq_header (rs_sps st) (rs_pps st)) with
  | Panic s => Panic s
  | Err _ => Ok a                                     (* log + continue, nothing cleared *)
  | Ok h =>
      let (st1, ms) := emit st false h ts in
      Ok (mk_vacc (set_params st1 [] [] []) (va_msgs a ++ ms) (va_body a) (va_last a) (va_any a))
  end.

Definition video_step (hevc : bool) (ts : Z) (a : vacc) (nal : bytes) : res vacc :=
  match nal with
  | [] => Panic site_nal0
  | b0 :: _ =>
      let st := va_st a in
      if hevc then
        let t := hevc_nal_type b0 in
        if t =? 35 then Ok a
        else if (t =? 32) || (t =? 33) || (t =? 34) then
          let st1 := if t =? 32 then set_params st nal (rs_sps st) (rs_pps st)
                     else if t =? 33 then set_params st (rs_vps st) nal (rs_pps st)
                     else set_params st (rs_vps st) (rs_sps st) nal in
          try_seq_header true (mk_vacc st1 (va_msgs a) (va_body a) (va_last a) (va_any a)) ts
        else
          let k := hevc_is_irap t in
          Ok (mk_vacc st (va_msgs a) (va_body a ++ len_nal nal) k (va_any a || k))
      else
        let t := avc_nal_type b0 in
        if t =? 9 then Ok a
        else if (t =? 7) || (t =? 8) then
          let st1 := if t =? 7 then set_params st (rs_vps st) nal (rs_pps st)
                     else set_params st (rs_vps st) (rs_sps st) nal in
          try_seq_header false (mk_vacc st1 (va_msgs a) (va_body a) (va_last a) (va_any a)) ts
        else
          let k := t =? 5 in
          Ok (mk_vacc st (va_msgs a) (va_body a ++ len_nal nal) k (va_any a || k))
  end.

Fixpoint video_loop (hevc : bool) (ts : Z) (nals : list bytes) (a : vacc) : res vacc :=
  match nals with
  | [] => Ok a
  | nal :: t => let* a1 := video_step hevc ts a nal in video_loop hevc ts t a1
  end.

Definition feed_video (fx hevc : bool) (st : rstate) (ts : Z) (payload : bytes) : res (rstate * list rmsg) :=
  let (nals, err) := if rs_vfmt st =? vfmt_avcc then iterate_nalu_avcc payload else iterate_nalu_annexb payload in
  match err with
  | Some _ => Ok (st, [])
  | None =>
      let* a := video_loop hevc ts nals (mk_vacc st [] [] false false) in
      match va_body a with
      | [] => Ok (va_st a, va_msgs a)
      | body =>
          let key := if fx then va_any a else va_last a in
          let (st1, ms) := emit (va_st a) false ((if key then flag_key hevc else flag_inter hevc) :: 1 :: 0 :: 0 :: 0 :: body) ts in
          Ok (st1, va_msgs a ++ ms)
      end
  end.

(* ---------------------------------------------------------------- audio *)
Definition feed_aac (fx : bool) (st : rstate) (ts : Z) (payload : bytes) : res (rstate * list rmsg) :=
  if rs_afmt st =? afmt_raw then Ok (emit st true (175 :: 1 :: payload) ts)
  else if rs_afmt st =? afmt_adts then
    let* (st1, ms1) :=
      (if rs_adts st then Ok (st, [])
       else match aac_seqh_of_adts payload with
            | Panic s => Panic s
            | Err _ => let (s1, m) := emit st true [] ts in Ok (set_adts s1, m)    (* logged, nil payload emitted *)
            | Ok h => let (s1, m) := emit st true h ts in Ok (set_adts s1, m)
            end) in
    (* pinned: length := len - 5; if length < 7 return.   fixed: if len <= 7 return *)
    if (if fx then lenN payload <=? 7 else lenN payload <? 12) then Ok (st1, ms1)
    else let (st2, ms2) := emit st1 true (175 :: 1 :: skipn 7 payload) ts in Ok (st2, ms1 ++ ms2)
  else Ok (st, []).

(* FeedAvPacket *)
Definition feed_av_packet (fx : bool) (st : rstate) (p : avpkt) : res (rstate * list rmsg) :=
  let pt := av_pt p in
  if (pt =? pt_avc)%Z then feed_video fx false st (av_ts p) (av_payload p)
  else if (pt =? pt_hevc)%Z then feed_video fx true st (av_ts p) (av_payload p)
  else if (pt =? pt_aac)%Z then feed_aac fx st (av_ts p) (av_payload p)
  else if (pt =? pt_g711a)%Z then Ok (emit st true (114 :: av_payload p) (av_ts p))      (* 0x72 *)
  else if (pt =? pt_g711u)%Z then Ok (emit st true (130 :: av_payload p) (av_ts p))      (* 0x82 *)
  else if (pt =? pt_opus)%Z then Ok (emit st true (223 :: av_payload p) (av_ts p))       (* 0xdf *)
  else Ok (st, []).

(* InitWithAvConfig(asc, vps, sps, pps); None = nil *)
Definition opt_bytes (o : option bytes) : bytes := match o with Some b => b | None => [] end.
Definition is_some {A} (o : option A) : bool := match o with Some _ => true | None => false end.

Definition init_with_av_config (st : rstate) (asc vps sps pps : option bytes) : res (rstate * list rmsg) :=
  let at_ := if is_some asc then pt_aac else rs_atype st in
  let vt := if is_some sps && is_some pps then (if is_some vps then pt_hevc else pt_avc) else rs_vtype st in
  let st1 := set_types st at_ vt in
  if (at_ =? pt_unknown)%Z && (vt =? pt_unknown)%Z then Ok (st1, []) else
  match (if (at_ =? pt_unknown)%Z then Ok [] else aac_seqh_of_asc (opt_bytes asc)) with
  | Panic s => Panic s
  | Err _ => Ok (st1, [])
  | Ok ash =>
      match (if (vt =? pt_unknown)%Z then Ok []
             else if (vt =? pt_hevc)%Z then hevc_build_seq_header (opt_bytes vps) (opt_bytes sps) (opt_bytes pps)
             else avc_build_seq_header (opt_bytes sps) (opt_bytes pps)) with
      | Panic s => Panic s
      | Err _ => Ok (st1, [])
      | Ok vsh =>
          let (st2, ms1) := if (at_ =? pt_unknown)%Z then (st1, []) else emit st1 true ash 0 in
          let (st3, ms2) := if (vt =? pt_unknown)%Z then (st2, []) else emit st2 false vsh 0 in
          Ok (st3, ms1 ++ ms2)
      end
  end.

(* a whole sequence of packets through one remuxer *)
Fixpoint feed_all_av (fx : bool) (st : rstate) (l : list avpkt) : res (rstate * list rmsg) :=
  match l with
  | [] => Ok (st, [])
  | p :: t =>
      let* (st1, ms) := feed_av_packet fx st p in
      let* (st2, more) := feed_all_av fx st1 t in
      Ok (st2, ms ++ more)
  end.

(* ---------------------------------------------------------------- customize pub
   logic.CustomizePubSessionContext: WithOption / FeedAudioSpecificConfig /
   FeedAvPacket / FeedRtmpMsg / Dispose in front of the same remuxer *)
Inductive cop :=
| COption (vfmt afmt : N)
| CAsc (asc : option bytes)
| CPacket (p : avpkt)
| CRtmp (m : rmsg)
| CDispose.

Record cstate := mk_cs { cs_disposed : bool; cs_r : rstate }.
Definition cs_new : cstate := mk_cs false rs_new.

(* result: messages handed to the group, and whether the call returned ErrDisposedInStream *)
Definition customize_step (fx : bool) (c : cstate) (o : cop) : res (cstate * list rmsg * bool) :=
  match o with
  | COption v a => Ok (mk_cs (cs_disposed c) (rs_with_option (cs_r c) v a), [], false)
  | CDispose => Ok (mk_cs true (cs_r c), [], false)
  | CAsc asc =>
      if cs_disposed c then Ok (c, [], true) else
      let* (r, ms) := init_with_av_config (cs_r c) asc None None None in Ok (mk_cs false r, ms, false)
  | CPacket p =>
      if cs_disposed c then Ok (c, [], true) else
      let* (r, ms) := feed_av_packet fx (cs_r c) p in Ok (mk_cs false r, ms, false)
  | CRtmp m =>
      if cs_disposed c then Ok (c, [], true) else Ok (c, [m], false)
  end.

Fixpoint customize_run (fx : bool) (c : cstate) (ops : list cop) : res (list (list rmsg * bool)) :=
  match ops with
  | [] => Ok []
  | o :: t =>
      let* (cm, e) := customize_step fx c o in
      let (c1, ms) := cm in
      let* more := customize_run fx c1 t in
      Ok ((ms, e) :: more)
  end.
