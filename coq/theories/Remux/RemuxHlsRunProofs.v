(* C06 / C10 over whole runs of the group (RemuxGroup.g_run): the file system
   operations hls.Muxer makes under the group's wiring form a C10 [chain] from
   Muxer.Start on, for every sequence of events - so every prefix of them
   leaves the directory in a state C10's invariant describes (live play list
   parses, lists only finished segments that begin with PAT/PMT, durations
   within the target: [live_ok]).
   Needs of the remuxer's output only what RemuxRunProofs / RemuxRunWfProofs
   give: PAT/PMT blocks are PAT + PMT packets, every frame is whole packets. *)
From Coq Require Import ZArith NArith Bool List Lia.
From Lal Require Import Common.LBytes Group.GroupMsg Mpegts.TsPack Mpegts.TsPsi Mpegts.TsPsiProofs Mpegts.TsPackProofs Mpegts.TsStreamProofs
  Hls.HlsFloat Hls.HlsFs Hls.HlsFsProofs Hls.HlsPlaylist Hls.HlsMuxer
  Hls.HlsConsistent Hls.HlsParse Hls.HlsParseProofs Hls.HlsInv Hls.HlsInvProofs Hls.HlsLiveProofs Hls.HlsRunProofs Hls.HlsTraceProofs
  Remux.RemuxRtmp2Ts Remux.RemuxTsFilter Remux.RemuxGroup Remux.RemuxObsProofs Remux.RemuxHlsObsProofs
  Remux.RemuxWfProofs Remux.RemuxRunProofs Remux.RemuxRunWfProofs.
From Lal Require Remux.RemuxChainProofs.
Import ListNotations.
Open Scope N_scope.

(* ---- every frame of a run is a whole number of TS packets ---- *)
Lemma concat_188 (l : list bytes) : Forall (fun p => length p = 188%nat) l -> (length (concat l) mod 188 = 0)%nat.
Proof.
  induction 1 as [|p t Hp _ IH]; [reflexivity|]. cbn [concat]. rewrite app_length, Hp.
  replace (188 + length (concat t))%nat with (length (concat t) + 1 * 188)%nat by lia.
  rewrite Nat.mod_add by lia. exact IH.
Qed.

Lemma chain_whole : forall l base cc, cc < 256 -> RemuxChainProofs.chain base cc l -> Forall ev_wf l -> Forall ev_whole l.
Proof.
  induction l as [|e t IH]; intros base cc Hcc Hch Hwf; [constructor|].
  cbn [RemuxChainProofs.chain] in Hch. destruct Hch as (Hc1 & Hp & _ & _ & Ht). apply Forall_cons_iff in Hwf. destruct Hwf as [He Hwt].
  assert (Hfw : frame_wf (te_frame e)).
  { destruct He as (H1 & H2 & H3 & H4 & H5 & H6 & H7). unfold frame_wf. rewrite Hc1. repeat split; assumption. }
  constructor.
  - unfold ev_whole, whole_pkts, ev_bytes. apply concat_188.
    pose proof (pack_all_188 (te_frame e) Hfw) as Hall. rewrite Hp in Hall. cbn [fst] in Hall.
    eapply Forall_impl; [|exact Hall]. intros p [Hl _]. exact Hl.
  - eapply (IH _ (te_cc e)); [|exact Ht|exact Hwt].
    assert (Hcc' : f_cc (te_frame e) < 256) by (rewrite Hc1; exact Hcc).
    destruct (pack_cc (te_frame e) Hcc') as [_ Hs]. rewrite Hp in Hs. cbn [snd] in Hs. rewrite Hs. apply N.mod_lt. discriminate.
Qed.

Lemma chained_whole s evs : RemuxChainProofs.chained s evs -> Forall ev_wf evs -> Forall ev_whole evs.
Proof.
  intros ((Ha & _) & (Hv & _) & Hids) Hwf.
  pose proof (chain_whole _ _ 0 eq_refl Ha) as Wa. pose proof (chain_whole _ _ 0 eq_refl Hv) as Wv.
  assert (Wa' : Forall ev_whole (filter RemuxChainProofs.is_audio_ev evs)).
  { apply Wa. rewrite Forall_forall in Hwf |- *. intros e He. apply filter_In in He. apply Hwf, He. }
  assert (Wv' : Forall ev_whole (filter RemuxChainProofs.is_video_ev evs)).
  { apply Wv. rewrite Forall_forall in Hwf |- *. intros e He. apply filter_In in He. apply Hwf, He. }
  rewrite Forall_forall in *. intros e He.
  destruct (Hids e He) as [(Hs & _)|(Hs & _)].
  - apply Wa'. apply filter_In. split; [exact He|]. unfold RemuxChainProofs.is_audio_ev, RemuxChainProofs.ev_sid. now rewrite Hs.
  - apply Wv'. apply filter_In. split; [exact He|]. unfold RemuxChainProofs.is_video_ev, RemuxChainProofs.ev_sid. now rewrite Hs.
Qed.

(* ---- callbacks ---- *)
Definition out_ok (o : tsout) : Prop :=
  match o with OutPatPmt b => good_pp b | OutTs e => ev_whole e end.

Fixpoint cbs_ok (started : bool) (cbs : list cb) : Prop :=
  match cbs with
  | [] => True
  | CbPatPmt b :: t => good_pp b /\ cbs_ok true t
  | CbTs e n :: t => started = true /\ ev_whole e /\ Forall ev_whole n /\ cbs_ok started t
  end.

Fixpoint started_after (started : bool) (cbs : list cb) : bool :=
  match cbs with [] => started | CbPatPmt _ :: t => started_after true t | CbTs _ _ :: t => started_after started t end.

Lemma cbs_ok_of_outs : forall cbs started,
  Forall out_ok (cb_outs cbs) -> (started = false -> match cbs with CbTs _ _ :: _ => False | _ => True end) ->
  cbs_ok started cbs.
Proof.
  induction cbs as [|[e n|b] t IH]; intros started Ho Hs; [exact I| |].
  - unfold cb_outs in Ho. cbn [flat_map] in Ho. fold (cb_outs t) in Ho. apply Forall_app in Ho. destruct Ho as [H1 H2].
    rewrite map_app in H1. apply Forall_app in H1. destruct H1 as [Hn He]. cbn [map] in He. inversion He; subst.
    assert (Hst : started = true) by (destruct started; [reflexivity|exfalso; now apply Hs]).
    cbn [cbs_ok]. split; [exact Hst|]. split; [assumption|]. split.
    + rewrite Forall_map in Hn. exact Hn.
    + apply IH; [exact H2|]. intro E. congruence.
  - unfold cb_outs in Ho. cbn [flat_map app] in Ho. fold (cb_outs t) in Ho. inversion Ho; subst.
    cbn [cbs_ok]. split; [assumption|]. apply IH; [assumption|discriminate].
Qed.

(* ---- C10's trace theorems, of ANY operation sequence that is a chain from Muxer.Start in an empty directory
   (their proofs in Hls/HlsTraceProofs.v go through the chain and nothing else) ---- *)
Section FromChain.
  Open Scope Z_scope.
  Variables (c : cfg) (ops : list op) (m' : mux).
  Hypothesis Hc : cfg_ok c.
  Hypothesis Hch : HlsInv.chain c (new_mux c) [] ops m'.
  Definition st_at (k : nat) : fs := apply_all [] (firstn k ops).

  Theorem chain_live_ok k : live_ok c (st_at k).
  Proof. destruct (chain_point c _ _ _ _ k Hch (inv_new c Hc)) as (mk & HI). eapply inv_live_ok. exact HI. Qed.

  Theorem chain_parsed k f t :
    fs_lookup PLive (st_at k) = Some f -> parse_live (fdata f) = Some t ->
    forall ts, In ts (t_segs t) ->
      (t_ms ts + 500) / 1000 <= t_target t /\
      exists sg, t_uri ts = seg_name (c_stream c) sg /\ seg_file_ok (st_at k) sg.
  Proof.
    intros Hf Hp ts Hts. destruct (chain_live_ok k f Hf) as (pl & E & P & HT & HS).
    rewrite P in Hp. injection Hp as <-. cbn [t_segs abs_pl] in Hts.
    apply in_map_iff in Hts. destruct Hts as (sg & <- & Hsg).
    rewrite Forall_forall in HT, HS. split; [cbn; apply (HT sg Hsg)|]. exists sg. split; [reflexivity|now apply HS].
  Qed.

  Theorem chain_media_sequence j k fj fk tj tk :
    (j <= k)%nat -> no_removeall (skipn j (firstn k ops)) ->
    fs_lookup PLive (st_at j) = Some fj -> fs_lookup PLive (st_at k) = Some fk ->
    parse_live (fdata fj) = Some tj -> parse_live (fdata fk) = Some tk -> t_seq tj <= t_seq tk.
  Proof.
    intros Hjk HN Hfj Hfk Pj Pk.
    destruct (chain_two_points c _ _ _ _ j k Hch (inv_new c Hc) Hjk HN) as (mj & mk & HIj & HIk & (_ & Hle & _) & _).
    rewrite (inv_parse_shown c mj _ fj tj HIj Hfj Pj), (inv_parse_shown c mk _ fk tk HIk Hfk Pk). exact Hle.
  Qed.
End FromChain.

Section Cfg.
  Variable c : cfg.
  Hypothesis Hc : cfg_ok c.

  (* hls.Muxer just started in an empty directory *)
  Definition h_start : hstate := mk_hstate (new_mux c) [] [OMkdirAll PDir; OReadFile PLive false].

  (* from the start on: a chain of operations; the invariant now; PAT/PMT known once the remuxer has sent one *)
  Definition ggood (started : bool) (g : gstate) : Prop :=
    match g_hls g with
    | Some h => HlsInv.chain c (new_mux c) [] (h_ops h) (h_mux h) /\ h_fs h = apply_all [] (h_ops h)
                /\ Inv c (h_mux h) (h_fs h) /\ (started = true -> good_pp (m_patpmt (h_mux h)))
    | None => True
    end.

  Lemma ggood_ext started g h h' started' :
    g_hls g = Some h -> ggood started g -> hext c h h' -> Inv c (h_mux h') (h_fs h') ->
    (started' = true -> good_pp (m_patpmt (h_mux h'))) ->
    forall g', g_hls g' = Some h' -> ggood started' g'.
  Proof.
    intros Hh Hg (ops & E1 & E2 & C1) HI Hp g' Hh'. unfold ggood in *. rewrite Hh in Hg. rewrite Hh'.
    destruct Hg as (C0 & F0 & _ & _). rewrite E1. split; [|split; [|split; [exact HI|exact Hp]]].
    - eapply chain_app; [exact C0|]. rewrite <- F0. exact C1.
    - rewrite E2, F0. now rewrite apply_all_app.
  Qed.

  Lemma replay_ggood : forall cbs g started,
    ggood started g -> cbs_ok started cbs ->
    ggood (started_after started cbs) (replay gstate (g_apply c) g_onpatpmt g cbs).
  Proof.
    induction cbs as [|[e n|b] t IH]; intros g started Hg Hok; cbn [replay started_after cbs_ok] in *; [exact Hg| |].
    - destruct Hok as (-> & He & Hn & Hok). apply IH; [|exact Hok].
      destruct (g_hls g) as [h|] eqn:Hh; [|unfold ggood, g_apply; rewrite Hh; exact I].
      pose proof Hg as Hg0. unfold ggood in Hg. rewrite Hh in Hg. destruct Hg as (_ & _ & HI & Hp).
      destruct (feed_obs_ok c (g_now g) h e n (conj HI (Hp eq_refl)) He Hn) as [X [HI' Hp']].
      eapply (ggood_ext true g h _ true Hh Hg0 X HI'); [intros _; exact Hp'|].
      unfold g_apply. rewrite Hh. reflexivity.
    - destruct Hok as (Hb & Hok). apply IH; [|exact Hok].
      destruct (g_hls g) as [h|] eqn:Hh; [|unfold ggood, g_onpatpmt; rewrite Hh; exact I].
      pose proof Hg as Hg0. unfold ggood in Hg. rewrite Hh in Hg. destruct Hg as (_ & _ & HI & _).
      destruct (patpmt_ok c h b HI Hb) as [X [HI' Hp']].
      eapply (ggood_ext started g h _ true Hh Hg0 X HI'); [intros _; exact Hp'|].
      unfold g_onpatpmt. rewrite Hh. reflexivity.
  Qed.

  Lemma ggood_clock started g n : ggood started g -> ggood started (mk_gstate (g_hls g) (g_subs g) (g_patpmt g) n).
  Proof. exact (fun H => H). Qed.

  (* what the remuxer's invariants say of the outputs of one step *)
  Lemma outs_ok_of_inv x outs acts : run_inv x outs acts -> wf_inv x outs -> Forall out_ok outs.
  Proof.
    intros (Hch & _ & Hf) (_ & Hwf & _).
    pose proof (chained_whole _ _ Hch Hwf) as Hw.
    destruct (fq_done (x_filter x)); [|destruct Hf as (-> & _); constructor].
    destruct Hf as (v & a & rest & -> & Hr).
    constructor; [exact (good_pp_remuxer v a 0)|].
    cbn [ts_events flat_map app] in Hw. fold (ts_events rest) in Hw.
    clear -Hr Hw. induction rest as [|o t IH]; [constructor|]. inversion Hr as [|? ? Ho Ht]; subst.
    destruct o as [b|e]; cbn [ts_events flat_map app] in Hw; fold (ts_events t) in Hw.
    - constructor; [|now apply IH]. destruct Ho as (v & a & k & ->). apply good_pp_remuxer.
    - inversion Hw; subst. constructor; [assumption|now apply IH].
  Qed.

  Definition gmsgs (evs : list gevent) : list rmsg := flat_map (fun e => match e with GMsg m => [m] | _ => [] end) evs.

  Theorem g_run_ggood : forall evs x g x' g' outs outs0 acts0,
    g_run c x g evs = (x', g', outs) ->
    run_inv x outs0 acts0 -> wf_inv x outs0 -> Forall msg_ok (gmsgs evs) ->
    ggood (fq_done (x_filter x)) g ->
    run_inv x' (outs0 ++ outs) (acts0 ++ map AMsg (gmsgs evs)) /\ wf_inv x' (outs0 ++ outs)
    /\ ggood (fq_done (x_filter x')) g'.
  Proof.
    induction evs as [|e t IH]; intros x g x' g' outs outs0 acts0 H Hi Hw Hm Hg; cbn [g_run] in H.
    - injection H as <- <- <-. cbn [gmsgs flat_map map]. rewrite !app_nil_r. auto.
    - destruct (match e with
                | GMsg m => feed_rtmp_message gstate (g_decide c) (g_apply c) g_onpatpmt x g m
                | GJoinTs id => (x, mk_gstate (g_hls g) (g_subs g ++ [mk_tssub id true true []]) (g_patpmt g) (g_now g), [])
                | GNop => (x, g, [])
                end) as [[x1 g1] o1] eqn:E1.
      destruct (g_run c x1 (mk_gstate (g_hls g1) (g_subs g1) (g_patpmt g1) (g_now g1 + 1)%Z) t) as [[x2 g2] o2] eqn:E2.
      injection H as <- <- <-.
      unfold gmsgs in *. cbn [flat_map] in *. fold (gmsgs t) in *.
      destruct e as [m|id|].
      + cbn [app] in Hm. inversion Hm as [|? ? Hmok Hmt]; subst.
        pose proof (step_inv _ _ _ _ x g outs0 acts0 (AMsg m) _ _ _ Hi E1) as Hi1.
        pose proof (step_wf _ _ _ _ x g outs0 (AMsg m) _ _ _ Hw Hmok E1) as Hw1.
        destruct (feed_rtmp_message_traced _ _ _ _ _ _ _ _ _ _ E1) as (cbs & -> & V & -> & F).
        assert (Hok : cbs_ok (fq_done (x_filter x)) cbs /\ started_after (fq_done (x_filter x)) cbs = fq_done (x_filter x1)).
        { pose proof (outs_ok_of_inv _ _ _ Hi1 Hw1) as Hall. apply Forall_app in Hall. destruct Hall as [_ Hall].
          destruct Hi as (_ & _ & Hf0). destruct Hi1 as (_ & _ & Hf1).
          destruct (fq_done (x_filter x)) eqn:Ed.
          - (* already started: the filter stays done *)
            split; [apply cbs_ok_of_outs; [exact Hall|discriminate]|].
            assert (Ed1 : fq_done (x_filter x1) = true).
            { destruct (fq_done (x_filter x1)); [reflexivity|]. destruct Hf0 as (v & a & rest & -> & _). destruct Hf1 as (Hn & _). discriminate. }
            rewrite Ed1. clear. induction cbs as [|[? ?|?] ? IHc]; cbn [started_after]; auto.
          - destruct Hf0 as (-> & _). cbn [app] in Hf1.
            destruct (fq_done (x_filter x1)) eqn:Ed1.
            + destruct Hf1 as (v & a & rest & Hout & _).
              destruct cbs as [|[e n|b] cbs']; [discriminate| |].
              * exfalso. unfold cb_outs in Hout. cbn [flat_map] in Hout. destruct n; cbn in Hout; discriminate.
              * split; [apply cbs_ok_of_outs; [exact Hall|intros _; exact I]|]. cbn [started_after].
                clear. induction cbs' as [|[? ?|?] ? IHc]; cbn [started_after]; auto.
            + destruct Hf1 as (Hout & _). destruct cbs as [|[e n|b] cbs']; [split; [exact I|reflexivity]| |].
              * exfalso. unfold cb_outs in Hout. cbn [flat_map] in Hout. destruct n; cbn in Hout; discriminate.
              * exfalso. unfold cb_outs in Hout. cbn [flat_map] in Hout. discriminate. }
        destruct Hok as [Hok Hst].
        pose proof (replay_ggood cbs g _ Hg Hok) as Hg1. rewrite Hst in Hg1.
        destruct (IH _ _ _ _ _ _ _ E2 Hi1 Hw1 Hmt (ggood_clock _ _ _ Hg1)) as (I2 & W2 & G2).
        rewrite app_assoc. cbn [map app]. replace (acts0 ++ AMsg m :: map AMsg (gmsgs t)) with ((acts0 ++ [AMsg m]) ++ map AMsg (gmsgs t))
          by (rewrite <- app_assoc; reflexivity).
        auto.
      + injection E1 as <- <- <-. cbn [app] in *.
        apply (IH _ _ _ _ _ _ _ E2 Hi Hw Hm). exact Hg.
      + injection E1 as <- <- <-. cbn [app] in *.
        apply (IH _ _ _ _ _ _ _ E2 Hi Hw Hm). exact Hg.
  Qed.

  Lemma ggood_init : ggood false (g_init c true).
  Proof.
    unfold ggood, g_init. cbn [g_hls h_ops h_mux h_fs].
    pose proof (inv_new c Hc) as HI.
    assert (Hs : start_mux c [] = (new_mux c, [OMkdirAll PDir; OReadFile PLive false])) by reflexivity.
    assert (Hn : (nclosed (new_mux c) <= max_int32)%Z) by (unfold nclosed, new_mux, max_int32; cbn; lia).
    destruct (start_ok c (new_mux c) [] _ _ Hc HI Hn Hs) as (A & B & _).
    split; [exact A|]. split; [reflexivity|]. split; [exact HI|discriminate].
  Qed.

  (* THE GROUP, HLS enabled, any events: the operations of hls.Muxer are a chain from Muxer.Start on *)
  Theorem group_hls_chain evs x g outs :
    g_run c remuxer_init (g_init c true) evs = (x, g, outs) -> Forall msg_ok (gmsgs evs) ->
    exists h, g_hls g = Some h /\ HlsInv.chain c (new_mux c) [] (h_ops h) (h_mux h).
  Proof.
    intros H Hm.
    destruct (g_run_ggood evs _ _ _ _ _ [] [] H run_inv_init) as (_ & _ & G).
    { split; [exact st_wf_init|split; constructor]. }
    { exact Hm. }
    { exact ggood_init. }
    assert (Hh : exists h, g_hls g = Some h).
    { clear -H. revert H. generalize remuxer_init. assert (Hi : exists h, g_hls (g_init c true) = Some h) by (eexists; reflexivity).
      revert Hi. generalize (g_init c true). revert x g outs. induction evs as [|e t IH]; intros x g outs g0 Hi x0 H; cbn [g_run] in H.
      - injection H as _ <- _. exact Hi.
      - destruct (match e with GMsg m => _ | GJoinTs id => _ | GNop => _ end) as [[x1 g1] o1] eqn:E1.
        destruct (g_run c x1 _ t) as [[x2 g2] o2] eqn:E2. injection H as _ <- _.
        eapply IH; [|exact E2]. cbn [g_hls].
        destruct e as [m|id|]; [|injection E1 as _ <- _; exact Hi|injection E1 as _ <- _; exact Hi].
        destruct (feed_rtmp_message_traced _ _ _ _ _ _ _ _ _ _ E1) as (cbs & -> & _).
        clear -Hi. revert g0 Hi. induction cbs as [|[e n|b] t IH]; intros g0 Hi; cbn [replay]; [exact Hi| |]; apply IH; destruct Hi as [h Hh].
        + unfold g_apply. rewrite Hh. eexists. reflexivity.
        + unfold g_onpatpmt. rewrite Hh. eexists. reflexivity. }
    destruct Hh as [h Hh]. exists h. split; [exact Hh|].
    unfold ggood in G. rewrite Hh in G. destruct G as (Ch & _ & _ & _). exact Ch.
  Qed.
End Cfg.
