(* C06, video: the Annex-B buffer feedVideo builds, read back by the Annex-B
   splitter, is a PLAN of NAL units: the access unit delimiter, then the
   published units that are not AUD / parameter sets (/ H.265 SEI), in order,
   with the cached parameter sets in front of key units. *)
From Coq Require Import Lia ZifyN ZifyNat ZifyBool.
From Lal Require Import Common.LBytes Common.LBytesProofs Common.Res Group.GroupMsg Codec.CodecBits
  Codec.CodecAvcSeqHeader Codec.CodecHevcSeqHeader Codec.CodecNalFraming Codec.CodecNalFramingProofs
  Rtp.RtpPacker Mpegts.TsPack Remux.RemuxTsTimestamp Remux.RemuxRtmp2Ts Remux.RemuxSpec.
Open Scope N_scope.
Ltac Zify.zify_post_hook ::= Z.div_mod_to_equations.

(* ---- the plan: the same loop on lists of (zero bytes of the start code, unit) ---- *)
Definition aud_unit (c : vcodec) : nat * bytes :=
  match c with Avc => (3%nat, [9; 240]) | Hevc => (3%nat, [70; 1; 16]) end.
Definition sc4_units (ps : list bytes) : list (nat * bytes) := map (fun u => (3%nat, u)) ps.

Fixpoint plan_loop (c : vcodec) (nals : list bytes) (cache : option (list bytes)) (vps sps pps : bytes)
         (aud_sent sps_sent : bool) (pre : list (nat * bytes)) : option (list bytes) * option (list (nat * bytes)) :=
  match nals with
  | [] => (cache, Some pre)
  | nal :: t =>
    let ty := nal_type_of c nal in
    match c with
    | Avc =>
      if ty =? 9 then plan_loop c t cache vps sps pps aud_sent sps_sent pre
      else if ty =? 7 then plan_loop c t cache vps nal pps aud_sent sps_sent pre
      else if ty =? 8 then
        let cache' := if nonempty sps && nonempty nal then Some [sps; nal] else cache in
        plan_loop c t cache' vps sps nal aud_sent sps_sent pre
      else
        let pre1 := if aud_sent then pre else pre ++ [aud_unit c] in
        if (ty =? 5) && negb sps_sent then
          match cache with
          | None => (cache, None)
          | Some ps => plan_loop c t cache vps sps pps true true (pre1 ++ sc4_units ps ++ [(2%nat, nal)])
          end
        else
          let sent' := if ty =? 5 then true else if ty =? 1 then false else sps_sent in
          plan_loop c t cache vps sps pps true sent' (pre1 ++ [(2%nat, nal)])
    | Hevc =>
      if (ty =? 39) || (ty =? 40) then plan_loop c t cache vps sps pps aud_sent sps_sent pre
      else if ty =? 35 then plan_loop c t cache vps sps pps aud_sent sps_sent pre
      else if ty =? 32 then plan_loop c t cache nal sps pps aud_sent sps_sent pre
      else if ty =? 33 then plan_loop c t cache vps nal pps aud_sent sps_sent pre
      else if ty =? 34 then
        let cache' := if nonempty vps && nonempty sps && nonempty nal then Some [vps; sps; nal] else cache in
        plan_loop c t cache' vps sps nal aud_sent sps_sent pre
      else
        let pre1 := if aud_sent then pre else pre ++ [aud_unit c] in
        let irap := (16 <=? ty) && (ty <=? 23) in
        if irap && negb sps_sent then
          match cache with
          | None => (cache, None)
          | Some ps => plan_loop c t cache vps sps pps true true (pre1 ++ sc4_units ps ++ [(2%nat, nal)])
          end
        else plan_loop c t cache vps sps pps true irap (pre1 ++ [(2%nat, nal)])
    end
  end.

Lemma join_annexb_app a : forall b, join_annexb (a ++ b) = join_annexb a ++ join_annexb b.
Proof.
  induction a as [|[k u] t IH]; intro b; [reflexivity|].
  cbn [app join_annexb]. rewrite IH. rewrite <- !app_assoc. cbn [app]. now rewrite <- app_assoc.
Qed.

Lemma join_annexb_nonempty l : l <> [] -> nonempty (join_annexb l) = true.
Proof.
  destruct l as [|[k u] t]; [congruence|]. intros _. cbn [join_annexb].
  destruct k; reflexivity.
Qed.

Lemma join_sc4 ps : annexb_join4 ps = join_annexb (sc4_units ps).
Proof. apply annexb_join4_is_join. Qed.

Lemma aud_bytes c : (match c with Avc => avc_aud_nalu | Hevc => hevc_aud_nalu end) = join_annexb [aud_unit c].
Proof. destruct c; reflexivity. Qed.

Lemma sc3_unit nal : start_code3 ++ nal = join_annexb [(2%nat, nal)].
Proof. cbn. now rewrite app_nil_r. Qed.

Definition omap {A B} (f : A -> B) (o : option A) : option B := match o with Some a => Some (f a) | None => None end.

(* the byte-level loop computes the rendering of the plan *)
Lemma video_loop_plan c : forall nals cache vps sps pps aud_sent sent pre,
  (aud_sent = true -> pre <> []) -> (aud_sent = false -> pre = []) ->
  video_loop c nals (omap annexb_join4 cache) vps sps pps aud_sent sent (join_annexb pre)
  = (omap annexb_join4 (fst (plan_loop c nals cache vps sps pps aud_sent sent pre)),
     omap join_annexb (snd (plan_loop c nals cache vps sps pps aud_sent sent pre))).
Proof.
  induction nals as [|nal t IH]; intros cache vps sps pps aud_sent sent pre Ha Hb; [reflexivity|].
  assert (Hpre1 : (if aud_sent then join_annexb pre else join_annexb pre ++ join_annexb [aud_unit c])
                  = join_annexb (if aud_sent then pre else pre ++ [aud_unit c])).
  { destruct aud_sent; [reflexivity|]. now rewrite join_annexb_app. }
  assert (Hne : (if aud_sent then pre else pre ++ [aud_unit c]) <> []).
  { destruct aud_sent; [now apply Ha|]. destruct pre; discriminate. }
  destruct c; cbn [video_loop plan_loop].
  - destruct (nal_type_of Avc nal =? 9); [now apply IH|].
    destruct (nal_type_of Avc nal =? 7); [now apply IH|].
    destruct (nal_type_of Avc nal =? 8).
    { replace (if nonempty sps && nonempty nal then Some (start_code4 ++ sps ++ start_code4 ++ nal) else omap annexb_join4 cache)
        with (omap annexb_join4 (if nonempty sps && nonempty nal then Some [sps; nal] else cache)).
      - now apply IH.
      - destruct (nonempty sps && nonempty nal); [|reflexivity]. cbn. now rewrite app_nil_r. }
    rewrite (aud_bytes Avc), Hpre1.
    set (pre1 := if aud_sent then pre else pre ++ [aud_unit Avc]) in *.
    destruct ((nal_type_of Avc nal =? 5) && negb sent).
    + destruct cache as [ps|]; cbn [omap]; [|reflexivity].
      assert (E : join_annexb pre1 ++ annexb_join4 ps = join_annexb (pre1 ++ sc4_units ps))
        by (rewrite join_annexb_app, join_sc4; reflexivity).
      rewrite E.
      rewrite join_annexb_nonempty by (destruct pre1; [congruence|discriminate]).
      rewrite sc3_unit, <- join_annexb_app, <- app_assoc.
      apply (IH (Some ps)); [destruct pre1; [congruence|discriminate]|discriminate].
    + rewrite join_annexb_nonempty by assumption.
      rewrite sc3_unit, <- join_annexb_app.
      apply IH; [destruct pre1; [congruence|discriminate]|discriminate].
  - destruct ((nal_type_of Hevc nal =? 39) || (nal_type_of Hevc nal =? 40)); [now apply IH|].
    destruct (nal_type_of Hevc nal =? 35); [now apply IH|].
    destruct (nal_type_of Hevc nal =? 32); [now apply IH|].
    destruct (nal_type_of Hevc nal =? 33); [now apply IH|].
    destruct (nal_type_of Hevc nal =? 34).
    { replace (if nonempty vps && nonempty sps && nonempty nal
               then Some (start_code4 ++ vps ++ start_code4 ++ sps ++ start_code4 ++ nal) else omap annexb_join4 cache)
        with (omap annexb_join4 (if nonempty vps && nonempty sps && nonempty nal then Some [vps; sps; nal] else cache)).
      - now apply IH.
      - destruct (nonempty vps && nonempty sps && nonempty nal); [|reflexivity]. cbn. now rewrite app_nil_r. }
    rewrite (aud_bytes Hevc), Hpre1.
    set (pre1 := if aud_sent then pre else pre ++ [aud_unit Hevc]) in *.
    destruct ((16 <=? nal_type_of Hevc nal) && (nal_type_of Hevc nal <=? 23) && negb sent).
    + destruct cache as [ps|]; cbn [omap]; [|reflexivity].
      assert (E : join_annexb pre1 ++ annexb_join4 ps = join_annexb (pre1 ++ sc4_units ps))
        by (rewrite join_annexb_app, join_sc4; reflexivity).
      rewrite E.
      rewrite join_annexb_nonempty by (destruct pre1; [congruence|discriminate]).
      rewrite sc3_unit, <- join_annexb_app, <- app_assoc.
      apply (IH (Some ps)); [destruct pre1; [congruence|discriminate]|discriminate].
    + rewrite join_annexb_nonempty by assumption.
      rewrite sc3_unit, <- join_annexb_app.
      apply IH; [destruct pre1; [congruence|discriminate]|discriminate].
Qed.

(* ---- what the plan contains (list level) ---- *)
Lemma avc_type_is_mod b : avc_nal_type b = b mod 32.
Proof. unfold avc_nal_type. change 31 with (N.ones 5). now rewrite N.land_ones. Qed.
Lemma hevc_type_is_mod b : hevc_nal_type b = (b / 2) mod 64.
Proof. unfold hevc_nal_type. change 63 with (N.ones 6). now rewrite N.land_ones. Qed.
Lemma nal_type_of_spec c u : nal_type_of c u = nal_type c u.
Proof. destruct c; cbn [nal_type_of nal_type]; [apply avc_type_is_mod|apply hevc_type_is_mod]. Qed.

Definition cache_ok (c : vcodec) (cache : option (list bytes)) : Prop :=
  match cache with Some ps => Forall (fun u => is_param_unit c u = true) ps | None => True end.
Definition held_ok (c : vcodec) (x : bytes) : Prop := x = [] \/ is_param_unit c x = true.

Lemma aud_not_payload c : ts_payload_unit c (snd (aud_unit c)) = false.
Proof. destruct c; reflexivity. Qed.
Lemma param_not_payload c u : is_param_unit c u = true -> ts_payload_unit c u = false.
Proof.
  unfold is_param_unit, ts_payload_unit. intros H. rewrite H. now rewrite orb_true_r.
Qed.
Lemma params_not_payload c ps : Forall (fun u => is_param_unit c u = true) ps ->
  filter (ts_payload_unit c) ps = [].
Proof.
  induction 1 as [|u t Hu _ IH]; [reflexivity|]. cbn [filter]. now rewrite (param_not_payload c u Hu).
Qed.

Lemma map_snd_sc4 ps : map snd (sc4_units ps) = ps.
Proof. unfold sc4_units. rewrite map_map. cbn. apply map_id. Qed.

(* one published unit: dropped by the loop iff it is not a payload unit *)
Lemma avc_dropped_iff u :
  ((nal_type Avc u =? 9) || (nal_type Avc u =? 7) || (nal_type Avc u =? 8)) = negb (ts_payload_unit Avc u).
Proof.
  unfold ts_payload_unit, is_aud_type, is_param_type, is_hevc_sei_type. rewrite negb_involutive.
  now rewrite orb_false_r, orb_assoc.
Qed.
Lemma hevc_dropped_iff u :
  ((nal_type Hevc u =? 39) || (nal_type Hevc u =? 40) || (nal_type Hevc u =? 35) || (nal_type Hevc u =? 32)
   || (nal_type Hevc u =? 33) || (nal_type Hevc u =? 34)) = negb (ts_payload_unit Hevc u).
Proof.
  unfold ts_payload_unit, is_aud_type, is_param_type, is_hevc_sei_type. rewrite negb_involutive.
  set (t := nal_type Hevc u).
  destruct (t =? 39), (t =? 40), (t =? 35), (t =? 32), (t =? 33), (t =? 34); reflexivity.
Qed.

(* the payload units of the plan are the payload units published, in order,
   each once; the cache stays a list of parameter sets *)
Lemma plan_payload c : forall nals cache vps sps pps aud_sent sent pre cache' plan,
  cache_ok c cache -> held_ok c vps -> held_ok c sps -> held_ok c pps ->
  plan_loop c nals cache vps sps pps aud_sent sent pre = (cache', Some plan) ->
  filter (ts_payload_unit c) (map snd plan)
  = filter (ts_payload_unit c) (map snd pre) ++ filter (ts_payload_unit c) nals
  /\ cache_ok c cache'.
Proof.
  induction nals as [|nal t IH]; intros cache vps sps pps aud_sent sent pre cache' plan Hc Hv Hs Hp E.
  - cbn in E. injection E as <- <-. now rewrite app_nil_r.
  - cbn [plan_loop] in E. rewrite nal_type_of_spec in E.
    assert (Hpre1 : filter (ts_payload_unit c) (map snd (if aud_sent then pre else pre ++ [aud_unit c]))
                    = filter (ts_payload_unit c) (map snd pre)).
    { destruct aud_sent; [reflexivity|]. rewrite map_app, filter_app. cbn [map filter].
      now rewrite aud_not_payload, app_nil_r. }
    destruct c.
    + pose proof (avc_dropped_iff nal) as Hd. cbn [filter].
      destruct (nal_type Avc nal =? 9) eqn:E9.
      { cbn in Hd. destruct (ts_payload_unit Avc nal); [discriminate|]. exact (IH _ _ _ _ _ _ _ _ _ Hc Hv Hs Hp E). }
      destruct (nal_type Avc nal =? 7) eqn:E7.
      { cbn in Hd. destruct (ts_payload_unit Avc nal); [discriminate|].
        refine (IH _ _ _ _ _ _ _ _ _ Hc Hv _ Hp E).
        right. unfold is_param_unit, is_param_type. now rewrite E7. }
      destruct (nal_type Avc nal =? 8) eqn:E8.
      { cbn in Hd. destruct (ts_payload_unit Avc nal); [discriminate|].
        assert (Hn : is_param_unit Avc nal = true) by (unfold is_param_unit, is_param_type; now rewrite E8, orb_true_r).
        refine (IH _ _ _ _ _ _ _ _ _ _ Hv Hs (or_intror Hn) E).
        destruct (nonempty sps && nonempty nal) eqn:En; [|assumption].
        cbn [cache_ok]. constructor; [|constructor; [exact Hn|constructor]].
        destruct Hs as [->|Hs]; [discriminate|exact Hs]. }
      cbn in Hd. destruct (ts_payload_unit Avc nal); [|discriminate].
      destruct ((nal_type Avc nal =? 5) && negb sent).
      * destruct cache as [ps|]; [|discriminate].
        destruct (IH _ _ _ _ _ _ _ _ _ Hc Hv Hs Hp E) as [IH1 IH2]. split; [|exact IH2].
        rewrite IH1. rewrite !map_app, !filter_app, map_snd_sc4, Hpre1, (params_not_payload Avc ps Hc).
        cbn [map filter snd app]. destruct (ts_payload_unit Avc nal) eqn:Ek; [|].
        -- now rewrite <- app_assoc.
        -- exfalso. clear -Hd Ek E9 E7 E8. unfold ts_payload_unit, is_aud_type, is_param_type, is_hevc_sei_type in Ek.
           rewrite E9, E7, E8 in Ek. discriminate.
      * destruct (IH _ _ _ _ _ _ _ _ _ Hc Hv Hs Hp E) as [IH1 IH2]. split; [|exact IH2].
        rewrite IH1. rewrite !map_app, !filter_app, Hpre1. cbn [map filter snd app].
        assert (Ek : ts_payload_unit Avc nal = true).
        { unfold ts_payload_unit, is_aud_type, is_param_type, is_hevc_sei_type. now rewrite E9, E7, E8. }
        rewrite Ek. now rewrite <- app_assoc.
    + pose proof (hevc_dropped_iff nal) as Hd. cbn [filter].
      destruct ((nal_type Hevc nal =? 39) || (nal_type Hevc nal =? 40)) eqn:E39.
      { cbn in Hd. destruct (ts_payload_unit Hevc nal); [discriminate|]. exact (IH _ _ _ _ _ _ _ _ _ Hc Hv Hs Hp E). }
      apply orb_false_iff in E39. destruct E39 as [E39 E40].
      destruct (nal_type Hevc nal =? 35) eqn:E35.
      { cbn in Hd. destruct (ts_payload_unit Hevc nal); [discriminate|]. exact (IH _ _ _ _ _ _ _ _ _ Hc Hv Hs Hp E). }
      destruct (nal_type Hevc nal =? 32) eqn:E32.
      { cbn in Hd. destruct (ts_payload_unit Hevc nal); [discriminate|].
        refine (IH _ _ _ _ _ _ _ _ _ Hc _ Hs Hp E).
        right. unfold is_param_unit, is_param_type. now rewrite E32. }
      destruct (nal_type Hevc nal =? 33) eqn:E33.
      { cbn in Hd. destruct (ts_payload_unit Hevc nal); [discriminate|].
        refine (IH _ _ _ _ _ _ _ _ _ Hc Hv _ Hp E).
        right. unfold is_param_unit, is_param_type. now rewrite E33, orb_true_r. }
      destruct (nal_type Hevc nal =? 34) eqn:E34.
      { cbn in Hd. destruct (ts_payload_unit Hevc nal); [discriminate|].
        assert (Hn : is_param_unit Hevc nal = true) by (unfold is_param_unit, is_param_type; now rewrite E34, !orb_true_r).
        refine (IH _ _ _ _ _ _ _ _ _ _ Hv Hs (or_intror Hn) E).
        destruct (nonempty vps && nonempty sps && nonempty nal) eqn:En; [|assumption].
        apply andb_true_iff in En. destruct En as [En _]. apply andb_true_iff in En. destruct En as [Ev Es].
        cbn [cache_ok]. constructor; [|constructor; [|constructor; [exact Hn|constructor]]].
        - destruct Hv as [->|Hv]; [discriminate|exact Hv].
        - destruct Hs as [->|Hs]; [discriminate|exact Hs]. }
      cbn in Hd.
      assert (Ek : ts_payload_unit Hevc nal = true).
      { unfold ts_payload_unit, is_aud_type, is_param_type, is_hevc_sei_type. now rewrite E39, E40, E35, E32, E33, E34. }
      rewrite Ek.
      destruct ((16 <=? nal_type Hevc nal) && (nal_type Hevc nal <=? 23) && negb sent).
      * destruct cache as [ps|]; [|discriminate].
        destruct (IH _ _ _ _ _ _ _ _ _ Hc Hv Hs Hp E) as [IH1 IH2]. split; [|exact IH2].
        rewrite IH1. rewrite !map_app, !filter_app, map_snd_sc4, Hpre1, (params_not_payload Hevc ps Hc).
        cbn [map filter snd app]. rewrite Ek. now rewrite <- app_assoc.
      * destruct (IH _ _ _ _ _ _ _ _ _ Hc Hv Hs Hp E) as [IH1 IH2]. split; [|exact IH2].
        rewrite IH1. rewrite !map_app, !filter_app, Hpre1. cbn [map filter snd app].
        rewrite Ek. now rewrite <- app_assoc.
Qed.

(* the plan is empty or: the access unit delimiter (4-byte start code), then
   cached parameter sets (4-byte start codes) and published payload units
   (3-byte start codes); stated for an arbitrary property P of units that the
   published payload / parameter units and the cached units have *)
Definition punit (P : bytes -> Prop) (x : nat * bytes) : Prop := (fst x = 2%nat \/ fst x = 3%nat) /\ P (snd x).
Definition cache_has (P : bytes -> Prop) (cache : option (list bytes)) : Prop :=
  match cache with Some ps => Forall P ps | None => True end.
Definition held_has (P : bytes -> Prop) (x : bytes) : Prop := x = [] \/ P x.
Definition pre_inv (P : bytes -> Prop) (c : vcodec) (aud_sent : bool) (pre : list (nat * bytes)) : Prop :=
  if aud_sent then exists r, pre = aud_unit c :: r /\ Forall (punit P) r else pre = [].

Lemma plan_shape (P : bytes -> Prop) c : forall nals cache vps sps pps aud_sent sent pre cache' plan,
  (forall u, In u nals -> ts_payload_unit c u = true \/ is_param_unit c u = true -> P u) ->
  cache_has P cache -> held_has P vps -> held_has P sps -> held_has P pps ->
  pre_inv P c aud_sent pre ->
  plan_loop c nals cache vps sps pps aud_sent sent pre = (cache', Some plan) ->
  (plan = [] \/ exists r, plan = aud_unit c :: r /\ Forall (punit P) r) /\ cache_has P cache'.
Proof.
  induction nals as [|nal t IH]; intros cache vps sps pps aud_sent sent pre cache' plan Hn Hc Hv Hs Hp Hpre E.
  - cbn in E. injection E as <- <-. split; [|assumption]. destruct aud_sent; [now right|now left].
  - cbn [plan_loop] in E. rewrite nal_type_of_spec in E.
    assert (Hn' : forall u, In u t -> ts_payload_unit c u = true \/ is_param_unit c u = true -> P u)
      by (intros u Hu; apply Hn; now right).
    assert (Hpre1 : forall x, Forall (punit P) x -> pre_inv P c true ((if aud_sent then pre else pre ++ [aud_unit c]) ++ x)).
    { intros x Hx. destruct aud_sent; cbn [pre_inv] in *.
      - destruct Hpre as (r & -> & Hr). exists (r ++ x). split; [reflexivity|]. apply Forall_app. now split.
      - subst pre. exists x. now split. }
    assert (Hsc4 : forall ps, Forall P ps -> Forall (punit P) (sc4_units ps)).
    { intros ps Hps. unfold sc4_units. apply Forall_map. eapply Forall_impl; [|exact Hps].
      intros u Hu. split; [now right|assumption]. }
    destruct c.
    + destruct (nal_type Avc nal =? 9) eqn:E9; [exact (IH _ _ _ _ _ _ _ _ _ Hn' Hc Hv Hs Hp Hpre E)|].
      destruct (nal_type Avc nal =? 7) eqn:E7.
      { refine (IH _ _ _ _ _ _ _ _ _ Hn' Hc Hv _ Hp Hpre E). right. apply Hn; [now left|].
        right. unfold is_param_unit, is_param_type. now rewrite E7. }
      destruct (nal_type Avc nal =? 8) eqn:E8.
      { assert (Pn : P nal).
        { apply Hn; [now left|]. right. unfold is_param_unit, is_param_type. now rewrite E8, orb_true_r. }
        refine (IH _ _ _ _ _ _ _ _ _ Hn' _ Hv Hs (or_intror Pn) Hpre E).
        destruct (nonempty sps && nonempty nal) eqn:En; [|assumption].
        cbn [cache_has]. constructor; [|constructor; [exact Pn|constructor]].
        destruct Hs as [->|Hs]; [discriminate|exact Hs]. }
      assert (Pn : P nal).
      { apply Hn; [now left|]. left. unfold ts_payload_unit, is_aud_type, is_param_type, is_hevc_sei_type.
        now rewrite E9, E7, E8. }
      assert (Hnal : Forall (punit P) [(2%nat, nal)]).
      { constructor; [|constructor]. split; [now left|assumption]. }
      destruct ((nal_type Avc nal =? 5) && negb sent).
      * destruct cache as [ps|]; [|discriminate].
        refine (IH _ _ _ _ _ _ _ _ _ Hn' Hc Hv Hs Hp _ E).
        apply Hpre1. apply Forall_app. split; [now apply Hsc4|assumption].
      * refine (IH _ _ _ _ _ _ _ _ _ Hn' Hc Hv Hs Hp _ E). now apply Hpre1.
    + destruct ((nal_type Hevc nal =? 39) || (nal_type Hevc nal =? 40)) eqn:E39;
        [exact (IH _ _ _ _ _ _ _ _ _ Hn' Hc Hv Hs Hp Hpre E)|].
      apply orb_false_iff in E39. destruct E39 as [E39 E40].
      destruct (nal_type Hevc nal =? 35) eqn:E35; [exact (IH _ _ _ _ _ _ _ _ _ Hn' Hc Hv Hs Hp Hpre E)|].
      destruct (nal_type Hevc nal =? 32) eqn:E32.
      { refine (IH _ _ _ _ _ _ _ _ _ Hn' Hc _ Hs Hp Hpre E). right. apply Hn; [now left|].
        right. unfold is_param_unit, is_param_type. now rewrite E32. }
      destruct (nal_type Hevc nal =? 33) eqn:E33.
      { refine (IH _ _ _ _ _ _ _ _ _ Hn' Hc Hv _ Hp Hpre E). right. apply Hn; [now left|].
        right. unfold is_param_unit, is_param_type. now rewrite E33, orb_true_r. }
      destruct (nal_type Hevc nal =? 34) eqn:E34.
      { assert (Pn : P nal).
        { apply Hn; [now left|]. right. unfold is_param_unit, is_param_type. now rewrite E34, !orb_true_r. }
        refine (IH _ _ _ _ _ _ _ _ _ Hn' _ Hv Hs (or_intror Pn) Hpre E).
        destruct (nonempty vps && nonempty sps && nonempty nal) eqn:En; [|assumption].
        apply andb_true_iff in En. destruct En as [En _]. apply andb_true_iff in En. destruct En as [Ev Es].
        cbn [cache_has]. constructor; [|constructor; [|constructor; [exact Pn|constructor]]].
        - destruct Hv as [->|Hv]; [discriminate|exact Hv].
        - destruct Hs as [->|Hs]; [discriminate|exact Hs]. }
      assert (Pn : P nal).
      { apply Hn; [now left|]. left. unfold ts_payload_unit, is_aud_type, is_param_type, is_hevc_sei_type.
        now rewrite E39, E40, E35, E32, E33, E34. }
      assert (Hnal : Forall (punit P) [(2%nat, nal)]).
      { constructor; [|constructor]. split; [now left|assumption]. }
      destruct ((16 <=? nal_type Hevc nal) && (nal_type Hevc nal <=? 23) && negb sent).
      * destruct cache as [ps|]; [|discriminate].
        refine (IH _ _ _ _ _ _ _ _ _ Hn' Hc Hv Hs Hp _ E).
        apply Hpre1. apply Forall_app. split; [now apply Hsc4|assumption].
      * refine (IH _ _ _ _ _ _ _ _ _ Hn' Hc Hv Hs Hp _ E). now apply Hpre1.
Qed.

(* ---- the plan of a message without in-band parameter sets, in closed form:
   the cached parameter sets [ps] go in front of a key unit unless the unit
   before it (H.264: the last slice / IDR unit before it) was a key unit too ---- *)
Definition next_sent (c : vcodec) (ty : N) (sent : bool) : bool :=
  match c with
  | Avc => if ty =? 5 then true else if ty =? 1 then false else sent
  | Hevc => is_key_type c ty
  end.

Fixpoint ins_params (c : vcodec) (ps : list bytes) (sent : bool) (l : list bytes) : list (nat * bytes) :=
  match l with
  | [] => []
  | u :: t =>
    let ty := nal_type c u in
    if is_key_type c ty && negb sent then sc4_units ps ++ (2%nat, u) :: ins_params c ps true t
    else (2%nat, u) :: ins_params c ps (next_sent c ty sent) t
  end.

Lemma plan_no_inband c ps : forall nals vps sps pps aud_sent sent pre,
  Forall (fun u => is_param_unit c u = false) nals ->
  plan_loop c nals (Some ps) vps sps pps aud_sent sent pre
  = (Some ps,
     Some (match filter (ts_payload_unit c) nals with
           | [] => pre
           | l => (if aud_sent then pre else pre ++ [aud_unit c]) ++ ins_params c ps sent l
           end)).
Proof.
  induction nals as [|nal t IH]; intros vps sps pps aud_sent sent pre Hnp; [reflexivity|].
  inversion Hnp as [|? ? Hn Ht]; subst.
  cbn [plan_loop filter]. rewrite nal_type_of_spec.
  unfold is_param_unit, is_param_type in Hn.
  destruct c.
  - apply orb_false_iff in Hn. destruct Hn as [E7 E8]. rewrite E7, E8.
    destruct (nal_type Avc nal =? 9) eqn:E9.
    { replace (ts_payload_unit Avc nal) with false
        by (unfold ts_payload_unit, is_aud_type; now rewrite E9). now apply IH. }
    replace (ts_payload_unit Avc nal) with true
      by (unfold ts_payload_unit, is_aud_type, is_param_type, is_hevc_sei_type; now rewrite E9, E7, E8).
    cbn [ins_params is_key_type].
    destruct ((nal_type Avc nal =? 5) && negb sent) eqn:Ek.
    + rewrite IH by assumption. f_equal. f_equal.
      destruct (filter (ts_payload_unit Avc) t); [reflexivity|]. rewrite <- !app_assoc. reflexivity.
    + rewrite IH by assumption. f_equal. f_equal. cbn [next_sent].
      destruct (filter (ts_payload_unit Avc) t); [reflexivity|]. rewrite <- !app_assoc. reflexivity.
  - apply orb_false_iff in Hn. destruct Hn as [Hn E34]. apply orb_false_iff in Hn. destruct Hn as [E32 E33].
    rewrite E32, E33, E34.
    destruct ((nal_type Hevc nal =? 39) || (nal_type Hevc nal =? 40)) eqn:E39.
    { replace (ts_payload_unit Hevc nal) with false.
      - now apply IH.
      - unfold ts_payload_unit, is_hevc_sei_type. rewrite E39. now rewrite !orb_true_r. }
    destruct (nal_type Hevc nal =? 35) eqn:E35.
    { replace (ts_payload_unit Hevc nal) with false
        by (unfold ts_payload_unit, is_aud_type; now rewrite E35). now apply IH. }
    replace (ts_payload_unit Hevc nal) with true
      by (unfold ts_payload_unit, is_aud_type, is_param_type, is_hevc_sei_type; now rewrite E39, E35, E32, E33, E34).
    cbn [ins_params is_key_type].
    destruct ((16 <=? nal_type Hevc nal) && (nal_type Hevc nal <=? 23) && negb sent) eqn:Ek.
    + rewrite IH by assumption. f_equal. f_equal.
      destruct (filter (ts_payload_unit Hevc) t); [reflexivity|]. rewrite <- !app_assoc. reflexivity.
    + rewrite IH by assumption. f_equal. f_equal. cbn [next_sent is_key_type].
      destruct (filter (ts_payload_unit Hevc) t); [reflexivity|]. rewrite <- !app_assoc. reflexivity.
Qed.

(* ---- the frame-level statement ---- *)
Lemma aud_unit_wf c : nal_wf (snd (aud_unit c)).
Proof.
  destruct c; (split; [apply has_sc_false_no_sc; reflexivity|cbn; discriminate]).
Qed.

Lemma punit_sc_ok x : punit nal_wf x -> sc_ok x.
Proof. intros [[Hk|Hk] Hw]; (split; [lia|assumption]). Qed.

Lemma aud_unit_sc_ok c : sc_ok (aud_unit c).
Proof. split; [destruct c; cbn; lia|apply aud_unit_wf]. Qed.

(* The Annex-B buffer feedVideo hands to mpegts.Frame, read by the Annex-B
   splitter, is: the access unit delimiter, then units each of which is a
   published payload unit or a parameter set; without parameter sets it is
   exactly the published unit list without AUD / parameter sets / (H.265) SEI -
   same units, same order, each once. *)
Theorem video_nals c nals cl cl' plan :
  Forall nal_wf nals -> cache_has nal_wf cl -> cache_ok c cl ->
  plan_loop c nals cl [] [] [] false false [] = (cl', Some plan) -> plan <> [] ->
  video_loop c nals (omap annexb_join4 cl) [] [] [] false false []
    = (omap annexb_join4 cl', Some (join_annexb plan))
  /\ iterate_nalu_annexb (join_annexb plan) = (map snd plan, None)
  /\ exists r, map snd plan = snd (aud_unit c) :: r
       /\ filter (ts_payload_unit c) r = filter (ts_payload_unit c) nals
       /\ Forall (fun u => ts_payload_unit c u = true \/ is_param_unit c u = true) r
       /\ cache_has nal_wf cl' /\ cache_ok c cl'.
Proof.
  intros Hw Hcw Hcp E Hne.
  split.
  { pose proof (video_loop_plan c nals cl [] [] [] false false []) as H. cbn [join_annexb] in H.
    rewrite H by (congruence || discriminate). now rewrite E. }
  destruct (plan_shape nal_wf c nals cl [] [] [] false false [] cl' plan) as [[->|(r & -> & Hr)] Hcw'];
    try assumption; try (now left); try reflexivity; [|congruence|].
  { intros u Hu _. rewrite Forall_forall in Hw. now apply Hw. }
  split.
  { rewrite <- (app_nil_r (join_annexb (aud_unit c :: r))). apply (iterate_annexb_join _ 0 Hne).
    constructor; [apply aud_unit_sc_ok|]. eapply Forall_impl; [|exact Hr]. apply punit_sc_ok. }
  exists (map snd r). split; [reflexivity|].
  destruct (plan_payload c nals cl [] [] [] false false [] cl' (aud_unit c :: r)) as [Hp Hc'];
    try assumption; try (now left).
  cbn [map filter] in Hp. rewrite aud_not_payload in Hp. cbn [app] in Hp. split; [exact Hp|].
  split; [|split; assumption].
  destruct (plan_shape (fun u => ts_payload_unit c u = true \/ is_param_unit c u = true)
                       c nals cl [] [] [] false false [] cl' (aud_unit c :: r)) as [[Hk|(r' & Hk & Hr')] _];
    try assumption; try (now left); try reflexivity; [| |discriminate|].
  - intros u _ H. exact H.
  - destruct cl as [ps|]; [|exact I]. cbn in *. eapply Forall_impl; [|exact Hcp]. intros u Hu. now right.
  - injection Hk as <-. apply Forall_map. eapply Forall_impl; [|exact Hr']. intros x [_ H]. exact H.
Qed.
