(* C07: what an RTMP consumer reads from the messages of
   AvPacket2RtmpRemuxer.FeedAvPacket (working tree = fx true). *)
From Coq Require Import Lia ZifyN ZifyNat ZifyBool.
From Lal Require Import Common.LBytes Common.LBytesProofs Common.Res Codec.CodecNalFraming Codec.CodecNalFramingProofs
  Codec.CodecAvcSeqHeader Codec.CodecHevcSeqHeader Codec.CodecAac Remux.RemuxAv2Rtmp.
Open Scope N_scope.

(* ---------------------------------------------------------------- reading side *)
Definition is_meta (m : rmsg) : bool := match m with RMeta _ _ => true | _ => false end.
(* the audio / video messages (the metadata message is inserted once, in front of the first of them) *)
Definition av_msgs (l : list rmsg) : list rmsg := filter (fun m => negb (is_meta m)) l.

Lemma av_msgs_app a b : av_msgs (a ++ b) = av_msgs a ++ av_msgs b. Proof. apply filter_app. Qed.

Definition nal_b0 (nal : bytes) : N := hd 0 nal.
Definition is_aud_nal (hevc : bool) (nal : bytes) : bool :=
  if hevc then hevc_nal_type (nal_b0 nal) =? 35 else avc_nal_type (nal_b0 nal) =? 9.
Definition is_param_nal (hevc : bool) (nal : bytes) : bool :=
  if hevc then let t := hevc_nal_type (nal_b0 nal) in (t =? 32) || (t =? 33) || (t =? 34)
  else let t := avc_nal_type (nal_b0 nal) in (t =? 7) || (t =? 8).
(* the units a consumer must receive: everything but access unit delimiters and parameter sets *)
Definition keep_nal (hevc : bool) (nal : bytes) : bool := negb (is_aud_nal hevc nal) && negb (is_param_nal hevc nal).
(* IDR (AVC type 5) / IRAP (HEVC types 16..23) slice *)
Definition key_nal (hevc : bool) (nal : bytes) : bool :=
  if hevc then hevc_is_irap (hevc_nal_type (nal_b0 nal)) else avc_nal_type (nal_b0 nal) =? 5.

(* the one message that carries the kept units of an access unit *)
Definition frame_msg (hevc : bool) (ts : Z) (nals : list bytes) : list rmsg :=
  match filter (keep_nal hevc) nals with
  | [] => []
  | kept => [RAv false (ts32 ts)
               ((if existsb (key_nal hevc) kept then flag_key hevc else flag_inter hevc) :: 1 :: 0 :: 0 :: 0
                :: concat (map len_nal kept))]
  end.

(* a sequence header message: built by the C19 functions from parameter sets taken from [cands] *)
Definition seq_hdr_msg (hevc : bool) (ts : Z) (cands : list bytes) (m : rmsg) : Prop :=
  exists h vps sps pps,
    m = RAv false (ts32 ts) h /\ In sps cands /\ In pps cands /\ (hevc = true -> In vps cands) /\
    (if hevc then hevc_build_seq_header vps sps pps else avc_build_seq_header sps pps) = Ok h.

(* ---------------------------------------------------------------- emit *)
Definition same_but_meta (st st' : rstate) : Prop :=
  rs_vfmt st' = rs_vfmt st /\ rs_afmt st' = rs_afmt st /\ rs_atype st' = rs_atype st /\ rs_vtype st' = rs_vtype st /\
  rs_vps st' = rs_vps st /\ rs_sps st' = rs_sps st /\ rs_pps st' = rs_pps st /\ rs_adts st' = rs_adts st.

Lemma same_but_meta_refl st : same_but_meta st st. Proof. repeat split. Qed.

Lemma emit_spec st a p ts st' ms : emit st a p ts = (st', ms) ->
  av_msgs ms = [RAv a (ts32 ts) p] /\ same_but_meta st st' /\ rs_meta st' = true.
Proof.
  unfold emit. destruct (rs_meta st) eqn:Em; intros E; inversion E; subst; clear E.
  - split; [reflexivity|]. split; [apply same_but_meta_refl|exact Em].
  - split; [reflexivity|]. split; [repeat split|reflexivity].
Qed.

(* ---------------------------------------------------------------- the loop over the NAL units *)
Definition cands_of (st : rstate) (nals : list bytes) : list bytes := rs_vps st :: rs_sps st :: rs_pps st :: nals.

Lemma try_seq_header_spec hevc a ts a' cands :
  In (rs_vps (va_st a)) cands -> In (rs_sps (va_st a)) cands -> In (rs_pps (va_st a)) cands ->
  try_seq_header hevc a ts = Ok a' ->
  va_body a' = va_body a /\ va_last a' = va_last a /\ va_any a' = va_any a /\
  (exists hdrs, av_msgs (va_msgs a') = av_msgs (va_msgs a) ++ hdrs /\ Forall (seq_hdr_msg hevc ts cands) hdrs) /\
  In (rs_vps (va_st a')) ([] :: cands) /\ In (rs_sps (va_st a')) ([] :: cands) /\ In (rs_pps (va_st a')) ([] :: cands) /\
  rs_vfmt (va_st a') = rs_vfmt (va_st a).
Proof.
  intros Iv Is Ip. unfold try_seq_header.
  set (ready := if hevc then _ else _).
  destruct (negb ready).
  { intros [= <-]. split; [reflexivity|]. split; [reflexivity|]. split; [reflexivity|].
    split; [exists []; rewrite app_nil_r; split; [reflexivity|constructor]|].
    split; [right; assumption|]. split; [right; assumption|]. split; [right; assumption|reflexivity]. }
  set (B := if hevc then _ else _).
  destruct B as [h|e|s] eqn:EB; [| |discriminate].
  - destruct (emit (va_st a) false h ts) as [st1 ms] eqn:Ee. intros [= <-].
    destruct (emit_spec _ _ _ _ _ _ Ee) as (Hm & Hs & _). cbn [va_body va_last va_any va_msgs va_st].
    repeat split; auto.
    + exists [RAv false (ts32 ts) h]. rewrite av_msgs_app, Hm. split; [reflexivity|]. constructor; [|constructor].
      exists h, (rs_vps (va_st a)), (rs_sps (va_st a)), (rs_pps (va_st a)). subst B. repeat split; auto.
    + left; reflexivity.
    + left; reflexivity.
    + left; reflexivity.
    + destruct Hs as (H & _). exact H.
  - intros [= <-]. split; [reflexivity|]. split; [reflexivity|]. split; [reflexivity|].
    split; [exists []; rewrite app_nil_r; split; [reflexivity|constructor]|].
    split; [right; assumption|]. split; [right; assumption|]. split; [right; assumption|reflexivity].
Qed.

(* the part of the state the loop threads: buffered parameter sets come from the candidates *)
Definition params_in (st : rstate) (cands : list bytes) : Prop :=
  In (rs_vps st) ([] :: cands) /\ In (rs_sps st) ([] :: cands) /\ In (rs_pps st) ([] :: cands).

Lemma video_step_spec hevc ts a nal a' cands : nal <> [] -> In nal cands -> params_in (va_st a) cands ->
  video_step hevc ts a nal = Ok a' ->
  va_body a' = va_body a ++ (if keep_nal hevc nal then len_nal nal else []) /\
  va_any a' = va_any a || (keep_nal hevc nal && key_nal hevc nal) /\
  (exists hdrs, av_msgs (va_msgs a') = av_msgs (va_msgs a) ++ hdrs /\ Forall (seq_hdr_msg hevc ts ([] :: cands)) hdrs) /\
  params_in (va_st a') cands /\ rs_vfmt (va_st a') = rs_vfmt (va_st a).
Proof.
  intros Hne Hin (Pv & Ps & Pp). destruct nal as [|b0 t]; [congruence|]. clear Hne.
  unfold video_step, keep_nal, is_aud_nal, is_param_nal, key_nal, nal_b0. cbn [hd].
  assert (Hnil : exists hdrs : list rmsg,
             av_msgs (va_msgs a) = av_msgs (va_msgs a) ++ hdrs /\ Forall (seq_hdr_msg hevc ts ([] :: cands)) hdrs).
  { exists []. rewrite app_nil_r. split; [reflexivity|constructor]. }
  assert (Hpin : params_in (va_st a) cands) by (repeat split; assumption).
  assert (Hnal : In (b0 :: t) ([] :: cands)) by (right; exact Hin).
  assert (Hfin :
            va_body a' = va_body a -> va_any a' = va_any a ->
            (exists hdrs, av_msgs (va_msgs a') = av_msgs (va_msgs a) ++ hdrs /\ Forall (seq_hdr_msg hevc ts ([] :: cands)) hdrs) ->
            In (rs_vps (va_st a')) ([] :: [] :: cands) -> In (rs_sps (va_st a')) ([] :: [] :: cands) ->
            In (rs_pps (va_st a')) ([] :: [] :: cands) -> rs_vfmt (va_st a') = rs_vfmt (va_st a) ->
            va_body a' = (va_body a ++ []) /\ va_any a' = va_any a || false /\
            (exists hdrs, av_msgs (va_msgs a') = av_msgs (va_msgs a) ++ hdrs /\ Forall (seq_hdr_msg hevc ts ([] :: cands)) hdrs) /\
            params_in (va_st a') cands /\ rs_vfmt (va_st a') = rs_vfmt (va_st a)).
  { intros H1 H3 H4 H5 H6 H7 H8. rewrite app_nil_r, orb_false_r. repeat split; auto.
    - destruct H5 as [<-|H5]; [left; reflexivity|exact H5].
    - destruct H6 as [<-|H6]; [left; reflexivity|exact H6].
    - destruct H7 as [<-|H7]; [left; reflexivity|exact H7]. }
  destruct hevc.
  - set (ty := hevc_nal_type b0).
    destruct (ty =? 35) eqn:E35.
    { intros [= <-]. cbn [negb andb]. rewrite app_nil_r, orb_false_r. repeat split; auto; apply Hpin. }
    destruct ((ty =? 32) || (ty =? 33) || (ty =? 34)) eqn:Ep.
    + cbn [negb andb]. intros E.
      eapply try_seq_header_spec with (cands := [] :: cands) in E; cbn [va_st va_body va_any va_msgs va_last].
      * destruct E as (H1 & H2 & H3 & H4 & H5 & H6 & H7 & H8). cbn [va_st va_body va_any va_msgs va_last] in *.
        apply Hfin; auto.
        rewrite H8. destruct (ty =? 32); [reflexivity|]. destruct (ty =? 33); reflexivity.
      * destruct (ty =? 32); [cbn [rs_vps set_params]; exact Hnal|]. destruct (ty =? 33); cbn [rs_vps set_params]; exact Pv.
      * destruct (ty =? 32); [cbn [rs_sps set_params]; exact Ps|]. destruct (ty =? 33); cbn [rs_sps set_params]; [exact Hnal|exact Ps].
      * destruct (ty =? 32); [cbn [rs_pps set_params]; exact Pp|]. destruct (ty =? 33); cbn [rs_pps set_params]; [exact Pp|exact Hnal].
    + intros [= <-]. cbn [negb andb va_body va_any va_msgs va_st]. repeat split; auto; apply Hpin.
  - set (ty := avc_nal_type b0).
    destruct (ty =? 9) eqn:E9.
    { intros [= <-]. cbn [negb andb]. rewrite app_nil_r, orb_false_r. repeat split; auto; apply Hpin. }
    destruct ((ty =? 7) || (ty =? 8)) eqn:Ep.
    + cbn [negb andb]. intros E.
      eapply try_seq_header_spec with (cands := [] :: cands) in E; cbn [va_st va_body va_any va_msgs va_last].
      * destruct E as (H1 & H2 & H3 & H4 & H5 & H6 & H7 & H8). cbn [va_st va_body va_any va_msgs va_last] in *.
        apply Hfin; auto.
        rewrite H8. destruct (ty =? 7); reflexivity.
      * destruct (ty =? 7); cbn [rs_vps set_params]; exact Pv.
      * destruct (ty =? 7); cbn [rs_sps set_params]; [exact Hnal|exact Ps].
      * destruct (ty =? 7); cbn [rs_pps set_params]; [exact Pp|exact Hnal].
    + intros [= <-]. cbn [negb andb va_body va_any va_msgs va_st]. repeat split; auto; apply Hpin.
Qed.

Lemma seq_hdr_msg_mono hevc ts c1 c2 m : incl c1 c2 -> seq_hdr_msg hevc ts c1 m -> seq_hdr_msg hevc ts c2 m.
Proof.
  intros Hi (h & vps & sps & pps & E & I1 & I2 & I3 & B). exists h, vps, sps, pps. repeat split; auto.
Qed.

Lemma video_loop_spec hevc ts cands : forall nals a a', Forall (fun n => n <> []) nals -> incl nals cands ->
  params_in (va_st a) cands -> video_loop hevc ts nals a = Ok a' ->
  va_body a' = va_body a ++ concat (map len_nal (filter (keep_nal hevc) nals)) /\
  va_any a' = va_any a || existsb (key_nal hevc) (filter (keep_nal hevc) nals) /\
  (exists hdrs, av_msgs (va_msgs a') = av_msgs (va_msgs a) ++ hdrs /\ Forall (seq_hdr_msg hevc ts ([] :: cands)) hdrs) /\
  rs_vfmt (va_st a') = rs_vfmt (va_st a).
Proof.
  induction nals as [|nal t IH]; intros a a' Hne Hin Hp E; cbn [video_loop] in E.
  - inversion E; subst. cbn [filter map concat existsb]. rewrite app_nil_r, orb_false_r.
    repeat split; auto. exists []. rewrite app_nil_r. split; [reflexivity|constructor].
  - destruct (video_step hevc ts a nal) as [a1| |] eqn:Es; cbn [bind] in E; try discriminate.
    inversion Hne as [|? ? Hn Hnt]; subst.
    destruct (video_step_spec hevc ts a nal a1 cands Hn (Hin nal (or_introl eq_refl)) Hp Es) as (B1 & A1 & (h1 & M1 & F1) & P1 & V1).
    destruct (IH a1 a' Hnt (fun x Hx => Hin x (or_intror Hx)) P1 E) as (B2 & A2 & (h2 & M2 & F2) & V2).
    cbn [filter]. destruct (keep_nal hevc nal) eqn:Ek; cbn [andb] in A1.
    + cbn [map concat existsb]. rewrite B2, B1, A2, A1, <- app_assoc, orb_assoc.
      repeat split; auto; [|congruence].
      exists (h1 ++ h2). rewrite M2, M1, <- app_assoc. split; [reflexivity|]. apply Forall_app. split; assumption.
    + rewrite B2, B1, A2, A1, app_nil_r, orb_false_r.
      repeat split; auto; [|congruence].
      exists (h1 ++ h2). rewrite M2, M1, <- app_assoc. split; [reflexivity|]. apply Forall_app. split; assumption.
Qed.

(* ---------------------------------------------------------------- FeedAvPacket on a video packet *)
(* the framing the remuxer was told to expect splits the payload into [nals] *)
Definition framed_as (st : rstate) (payload : bytes) (nals : list bytes) : Prop :=
  (if rs_vfmt st =? vfmt_avcc then iterate_nalu_avcc payload else iterate_nalu_annexb payload) = (nals, None).

Theorem feed_video_frames hevc st ts payload nals st' msgs :
  framed_as st payload nals -> Forall (fun n => n <> []) nals ->
  feed_video true hevc st ts payload = Ok (st', msgs) ->
  exists hdrs, av_msgs msgs = hdrs ++ frame_msg hevc ts nals /\
               Forall (seq_hdr_msg hevc ts ([] :: cands_of st nals)) hdrs /\
               rs_vfmt st' = rs_vfmt st.
Proof.
  intros Hf Hne E. unfold feed_video in E. unfold framed_as in Hf. rewrite Hf in E.
  set (a0 := mk_vacc st [] [] false false) in E.
  destruct (video_loop hevc ts nals a0) as [a| |] eqn:El; cbn [bind] in E; try discriminate.
  destruct (video_loop_spec hevc ts (cands_of st nals) nals a0 a Hne) as (B & A & (hdrs & M & F) & V); auto.
  { intros x Hx. right; right; right. exact Hx. }
  { subst a0. cbn [va_st]. unfold params_in, cands_of. repeat split; right; cbn; auto. }
  subst a0. cbn [va_body va_any va_msgs va_st app orb] in *. cbn [av_msgs filter app] in M.
  unfold frame_msg.
  destruct (filter (keep_nal hevc) nals) as [|k0 kt] eqn:Ek.
  - cbn [map concat] in B. rewrite B in E. injection E as <- <-. exists hdrs. rewrite app_nil_r. repeat split; assumption.
  - assert (Hb : va_body a <> []).
    { rewrite B. cbn [map concat]. unfold len_nal. cbn. discriminate. }
    destruct (va_body a) as [|x xs] eqn:Eb; [congruence|].
    destruct (emit (va_st a) false _ ts) as [st1 ms] eqn:Ee. injection E as <- <-.
    destruct (emit_spec _ _ _ _ _ _ Ee) as (Hm & Hs & _).
    exists hdrs. rewrite av_msgs_app, M, Hm. rewrite <- B, <- A. repeat split; auto.
    destruct Hs as (H & _). congruence.
Qed.

(* ---------------------------------------------------------------- what a consumer reads back *)
Lemma len_nal_avcc nal : lenN nal < 4294967296 -> len_nal nal = avcc_unit nal.
Proof. intros H. unfold len_nal, avcc_unit, u32. rewrite N.mod_small by exact H. reflexivity. Qed.

Lemma concat_len_nal kept : Forall avcc_ok kept -> concat (map len_nal kept) = join_nalu_avcc kept.
Proof.
  unfold join_nalu_avcc. induction 1 as [|u t [_ Hu] _ IH]; [reflexivity|].
  cbn [map concat]. rewrite IH, len_nal_avcc by exact Hu. reflexivity.
Qed.

(* the frame message: 5-byte tag header, then the kept units, length-prefixed; lal's own
   AVCC reader (and, by c19_framing_avcc, any ISO 14496-15 reader) returns exactly them *)
Theorem frame_msg_reads_back hevc ts nals : Forall avcc_ok nals ->
  match frame_msg hevc ts nals with
  | [] => filter (keep_nal hevc) nals = []
  | [RAv false t (f :: pt :: c0 :: c1 :: c2 :: body)] =>
      t = ts32 ts /\ pt = 1 /\ c0 = 0 /\ c1 = 0 /\ c2 = 0 /\
      f = (if existsb (key_nal hevc) (filter (keep_nal hevc) nals) then flag_key hevc else flag_inter hevc) /\
      iterate_nalu_avcc body = (filter (keep_nal hevc) nals, None)
  | _ => False
  end.
Proof.
  intros Hok. unfold frame_msg.
  assert (Hk : Forall avcc_ok (filter (keep_nal hevc) nals)).
  { apply Forall_forall. intros x Hx. apply filter_In in Hx. destruct Hx as [Hx _]. eapply Forall_forall in Hok; eauto. }
  destruct (filter (keep_nal hevc) nals) as [|k0 kt] eqn:Ek; [reflexivity|].
  repeat split; auto. rewrite concat_len_nal by exact Hk. apply iterate_avcc_join; [discriminate|exact Hk].
Qed.

(* a sequence header message is not a frame message: AVCPacketType / HEVC packet type 0 *)
Lemma seq_hdr_msg_shape hevc ts cands m : seq_hdr_msg hevc ts cands m ->
  exists rest, m = RAv false (ts32 ts) (flag_key hevc :: 0 :: 0 :: 0 :: 0 :: rest).
Proof.
  intros (h & vps & sps & pps & -> & _ & _ & _ & B). destruct hevc.
  - unfold hevc_build_seq_header in B.
    destruct (CodecSpsHevc.hevc_parse_vps vps CodecSpsHevc.hevc_new_context) as [c1| |]; cbn [bind] in B; try discriminate.
    destruct (CodecSpsHevc.hevc_parse_sps sps c1) as [c| |]; cbn [bind] in B; try discriminate.
    inversion B. eexists. reflexivity.
  - unfold avc_build_seq_header in B. destruct (CodecSpsAvc.parse_sps_avc sps) as [c| |]; cbn [bind] in B; try discriminate.
    inversion B. eexists. reflexivity.
Qed.

(* ---------------------------------------------------------------- a whole video track *)
(* a consumer reading the video messages: NALU messages (packet type 1) carry
   length-prefixed units behind the 5-byte tag header, sequence headers (packet type 0) none *)
Definition read_video_msg (m : rmsg) : list bytes :=
  match m with
  | RAv false _ (_ :: 1 :: _ :: _ :: _ :: body) => fst (iterate_nalu_avcc body)
  | _ => []
  end.
Definition read_video_nals (ms : list rmsg) : list bytes := concat (map read_video_msg ms).

Lemma read_video_nals_app a b : read_video_nals (a ++ b) = read_video_nals a ++ read_video_nals b.
Proof. unfold read_video_nals. rewrite map_app, concat_app. reflexivity. Qed.

Lemma read_seq_hdrs hevc ts cands hdrs : Forall (seq_hdr_msg hevc ts cands) hdrs -> read_video_nals hdrs = [].
Proof.
  induction 1 as [|m t Hm _ IH]; [reflexivity|].
  destruct (seq_hdr_msg_shape _ _ _ _ Hm) as [rest ->]. unfold read_video_nals in *. cbn [map concat read_video_msg app]. exact IH.
Qed.

Lemma read_frame_msg hevc ts nals : Forall avcc_ok nals ->
  read_video_nals (frame_msg hevc ts nals) = filter (keep_nal hevc) nals.
Proof.
  intros Hok. unfold frame_msg.
  assert (Hk : Forall avcc_ok (filter (keep_nal hevc) nals)).
  { apply Forall_forall. intros x Hx. apply filter_In in Hx. destruct Hx as [Hx _]. eapply Forall_forall in Hok; eauto. }
  destruct (filter (keep_nal hevc) nals) as [|k0 kt] eqn:Ek; [reflexivity|].
  rewrite concat_len_nal by exact Hk.
  unfold read_video_nals. cbn [map concat read_video_msg].
  rewrite iterate_avcc_join; [cbn [fst]; apply app_nil_r|discriminate|exact Hk].
Qed.

(* one video packet: its payload, the units it is framed from *)
Definition vpkt_ok (vfmt : N) (hevc : bool) (x : avpkt * list bytes) : Prop :=
  av_pt (fst x) = (if hevc then pt_hevc else pt_avc) /\
  (if vfmt =? vfmt_avcc then iterate_nalu_avcc (av_payload (fst x)) else iterate_nalu_annexb (av_payload (fst x))) = (snd x, None) /\
  Forall avcc_ok (snd x).

Lemma avcc_ok_nonempty l : Forall avcc_ok l -> Forall (fun n : bytes => n <> []) l.
Proof. apply Forall_impl. intros a [H _]. exact H. Qed.

Lemma feed_av_packet_video (hevc : bool) st (p : avpkt) :
  av_pt p = (if hevc then pt_hevc else pt_avc) -> feed_av_packet true st p = feed_video true hevc st (av_ts p) (av_payload p).
Proof. intros H. unfold feed_av_packet. rewrite H. destruct hevc; reflexivity. Qed.

Theorem video_track_nals hevc : forall (l : list (avpkt * list bytes)) st st' msgs,
  Forall (vpkt_ok (rs_vfmt st) hevc) l ->
  feed_all_av true st (map fst l) = Ok (st', msgs) ->
  read_video_nals (av_msgs msgs) = concat (map (fun x => filter (keep_nal hevc) (snd x)) l).
Proof.
  induction l as [|[p nals] t IH]; intros st st' msgs Hl E; cbn [map feed_all_av] in E.
  - inversion E; subst. reflexivity.
  - inversion Hl as [|? ? (Hpt & Hfr & Hok) Ht]; subst. cbn [fst snd] in *.
    rewrite (feed_av_packet_video hevc st p Hpt) in E.
    destruct (feed_video true hevc st (av_ts p) (av_payload p)) as [[st1 ms]| |] eqn:Ef; cbn [bind] in E; try discriminate.
    destruct (feed_all_av true st1 (map fst t)) as [[st2 more]| |] eqn:Er; cbn [bind] in E; try discriminate.
    injection E as <- <-.
    destruct (feed_video_frames hevc st (av_ts p) (av_payload p) nals st1 ms Hfr (avcc_ok_nonempty _ Hok) Ef) as (hdrs & Hm & Hh & Hv).
    rewrite av_msgs_app, read_video_nals_app, Hm, read_video_nals_app.
    rewrite (read_seq_hdrs _ _ _ _ Hh), (read_frame_msg hevc (av_ts p) nals Hok). cbn [app map concat snd]. f_equal.
    apply (IH st1 st2 more); [rewrite Hv; exact Ht|exact Er].
Qed.

(* key frames are marked as such, inter frames are not: the flag of every frame message *)
Theorem frame_msg_flag hevc ts nals m : In m (frame_msg hevc ts nals) ->
  exists t rest, m = RAv false t ((if existsb (key_nal hevc) (filter (keep_nal hevc) nals) then flag_key hevc else flag_inter hevc) :: 1 :: rest).
Proof.
  unfold frame_msg. destruct (filter (keep_nal hevc) nals) as [|k0 kt]; [contradiction|].
  intros [<-|[]]. eexists _, _. reflexivity.
Qed.

(* ---------------------------------------------------------------- audio *)
Lemma feed_av_packet_aac fx st (p : avpkt) : av_pt p = pt_aac -> feed_av_packet fx st p = feed_aac fx st (av_ts p) (av_payload p).
Proof. intros H. unfold feed_av_packet. rewrite H. reflexivity. Qed.
Lemma feed_av_packet_g711a fx st (p : avpkt) : av_pt p = pt_g711a -> feed_av_packet fx st p = Ok (emit st true (114 :: av_payload p) (av_ts p)).
Proof. intros H. unfold feed_av_packet. rewrite H. reflexivity. Qed.
Lemma feed_av_packet_g711u fx st (p : avpkt) : av_pt p = pt_g711u -> feed_av_packet fx st p = Ok (emit st true (130 :: av_payload p) (av_ts p)).
Proof. intros H. unfold feed_av_packet. rewrite H. reflexivity. Qed.
Lemma feed_av_packet_opus fx st (p : avpkt) : av_pt p = pt_opus -> feed_av_packet fx st p = Ok (emit st true (223 :: av_payload p) (av_ts p)).
Proof. intros H. unfold feed_av_packet. rewrite H. reflexivity. Qed.

Lemma emit_ok_spec st a pl ts st' msgs : Ok (emit st a pl ts) = Ok (st', msgs) -> av_msgs msgs = [RAv a (ts32 ts) pl].
Proof. intros E. injection E as E. apply (emit_spec _ _ _ _ _ _ E). Qed.

Theorem feed_audio_raw st (p : avpkt) st' msgs :
  feed_av_packet true st p = Ok (st', msgs) ->
  (av_pt p = pt_aac -> rs_afmt st = afmt_raw -> av_msgs msgs = [RAv true (ts32 (av_ts p)) (175 :: 1 :: av_payload p)]) /\
  (av_pt p = pt_g711a -> av_msgs msgs = [RAv true (ts32 (av_ts p)) (114 :: av_payload p)]) /\
  (av_pt p = pt_g711u -> av_msgs msgs = [RAv true (ts32 (av_ts p)) (130 :: av_payload p)]) /\
  (av_pt p = pt_opus -> av_msgs msgs = [RAv true (ts32 (av_ts p)) (223 :: av_payload p)]).
Proof.
  intros E. repeat split; intros Hpt.
  - intros Hf. rewrite (feed_av_packet_aac _ _ _ Hpt) in E. unfold feed_aac in E. rewrite Hf in E.
    change (afmt_raw =? afmt_raw) with true in E. cbv iota in E. apply (emit_ok_spec _ _ _ _ _ _ E).
  - rewrite (feed_av_packet_g711a _ _ _ Hpt) in E. apply (emit_ok_spec _ _ _ _ _ _ E).
  - rewrite (feed_av_packet_g711u _ _ _ Hpt) in E. apply (emit_ok_spec _ _ _ _ _ _ E).
  - rewrite (feed_av_packet_opus _ _ _ Hpt) in E. apply (emit_ok_spec _ _ _ _ _ _ E).
Qed.

(* ADTS AAC: the first frame is preceded by the sequence header made from its ADTS header,
   every frame with at least one byte behind the 7-byte header comes out without the header *)
Theorem feed_audio_adts st (p : avpkt) st' msgs : av_pt p = pt_aac -> rs_afmt st = afmt_adts -> 7 < lenN (av_payload p) ->
  feed_av_packet true st p = Ok (st', msgs) ->
  rs_adts st' = true /\ rs_afmt st' = afmt_adts /\
  (rs_adts st = true -> av_msgs msgs = [RAv true (ts32 (av_ts p)) (175 :: 1 :: skipn 7 (av_payload p))]) /\
  (rs_adts st = false -> forall h, aac_seqh_of_adts (av_payload p) = Ok h ->
     av_msgs msgs = [RAv true (ts32 (av_ts p)) h; RAv true (ts32 (av_ts p)) (175 :: 1 :: skipn 7 (av_payload p))]).
Proof.
  intros Hpt Hf Hlen E. rewrite (feed_av_packet_aac _ _ _ Hpt) in E. unfold feed_aac in E. rewrite Hf in E.
  change (afmt_adts =? afmt_raw) with false in E. change (afmt_adts =? afmt_adts) with true in E. cbv iota in E.
  assert (lenN (av_payload p) <=? 7 = false) as El by (apply N.leb_gt; exact Hlen).
  rewrite El in E.
  destruct (rs_adts st) eqn:Ea.
  - cbn [bind] in E.
    destruct (emit st true (175 :: 1 :: skipn 7 (av_payload p)) (av_ts p)) as [s2 m2] eqn:E2. injection E as <- <-.
    destruct (emit_spec _ _ _ _ _ _ E2) as (M2 & (_ & S2 & _ & _ & _ & _ & _ & S8) & _).
    split; [congruence|]. split; [congruence|]. split; [intros _; exact M2|discriminate].
  - destruct (aac_seqh_of_adts (av_payload p)) as [h|e|s] eqn:Eh; try discriminate.
    + destruct (emit st true h (av_ts p)) as [s1 m1] eqn:E1. cbn [bind] in E.
      destruct (emit (set_adts s1) true (175 :: 1 :: skipn 7 (av_payload p)) (av_ts p)) as [s2 m2] eqn:E2. injection E as <- <-.
      destruct (emit_spec _ _ _ _ _ _ E1) as (M1 & (_ & T2 & _) & _).
      destruct (emit_spec _ _ _ _ _ _ E2) as (M2 & (_ & S2 & _ & _ & _ & _ & _ & S8) & _).
      cbn [rs_adts rs_afmt set_adts] in *.
      split; [exact S8|]. split; [congruence|]. split; [discriminate|].
      intros _ h' [= <-]. rewrite av_msgs_app, M1, M2. reflexivity.
    + destruct (emit st true [] (av_ts p)) as [s1 m1] eqn:E1. cbn [bind] in E.
      destruct (emit (set_adts s1) true (175 :: 1 :: skipn 7 (av_payload p)) (av_ts p)) as [s2 m2] eqn:E2. injection E as <- <-.
      destruct (emit_spec _ _ _ _ _ _ E1) as (M1 & (_ & T2 & _) & _).
      destruct (emit_spec _ _ _ _ _ _ E2) as (M2 & (_ & S2 & _ & _ & _ & _ & _ & S8) & _).
      cbn [rs_adts rs_afmt set_adts] in *.
      split; [exact S8|]. split; [congruence|]. split; [discriminate|].
      intros _ h' [=].
Qed.

(* ---------------------------------------------------------------- the tree before the C07 fixes *)
Definition idr_then_sei : bytes := [0; 0; 0; 2; 101; 136; 0; 0; 0; 2; 6; 5].   (* AVCC: IDR slice 65 88, SEI 06 05 *)

Lemma keyflag_pinned_refuted :
  frame_msg false 0 [[101; 136]; [6; 5]] = [RAv false 0 (23 :: 1 :: 0 :: 0 :: 0 :: idr_then_sei)] /\
  feed_av_packet true (set_meta rs_new) (mk_av pt_avc 0 idr_then_sei) = Ok (set_meta rs_new, [RAv false 0 (23 :: 1 :: 0 :: 0 :: 0 :: idr_then_sei)]) /\
  feed_av_packet false (set_meta rs_new) (mk_av pt_avc 0 idr_then_sei) = Ok (set_meta rs_new, [RAv false 0 (39 :: 1 :: 0 :: 0 :: 0 :: idr_then_sei)]).
Proof. vm_compute. repeat split. Qed.

Definition adts_4 : bytes := [255; 241; 80; 128; 1; 127; 252; 1; 2; 3; 4].     (* LC 44.1 kHz stereo, 4 raw bytes *)

Lemma adts_small_pinned_refuted :
  feed_av_packet true (set_adts (set_meta (rs_with_option rs_new vfmt_avcc afmt_adts))) (mk_av pt_aac 23 adts_4)
    = Ok (set_adts (set_meta (rs_with_option rs_new vfmt_avcc afmt_adts)), [RAv true 23 [175; 1; 1; 2; 3; 4]]) /\
  feed_av_packet false (set_adts (set_meta (rs_with_option rs_new vfmt_avcc afmt_adts))) (mk_av pt_aac 23 adts_4)
    = Ok (set_adts (set_meta (rs_with_option rs_new vfmt_avcc afmt_adts)), []).
Proof. vm_compute. split; reflexivity. Qed.

(* ---------------------------------------------------------------- customize pub *)
Theorem customize_is_remuxer c o : cs_disposed c = false ->
  customize_step true c o =
  match o with
  | COption v a => Ok (mk_cs false (rs_with_option (cs_r c) v a), [], false)
  | CAsc asc => let* (r, ms) := init_with_av_config (cs_r c) asc None None None in Ok (mk_cs false r, ms, false)
  | CPacket p => let* (r, ms) := feed_av_packet true (cs_r c) p in Ok (mk_cs false r, ms, false)
  | CRtmp m => Ok (c, [m], false)
  | CDispose => Ok (mk_cs true (cs_r c), [], false)
  end.
Proof. intros H. destruct o; cbn [customize_step]; rewrite ?H; reflexivity. Qed.

Theorem customize_disposed c o : cs_disposed c = true ->
  match o with
  | COption _ _ | CDispose => True
  | _ => customize_step true c o = Ok (c, [], true)
  end.
Proof. intros H. destruct o; cbn [customize_step]; rewrite ?H; auto. Qed.
