(* lal pkg/remux/rtmp2rtsp.go: Rtmp2RtspRemuxer.  The first messages are
   analysed (sequence headers -> parameter sets, at most 16 other messages
   cached), then sdp.Pack (C19: CodecSdp.sdp_pack_text; base64 / hex encoders
   are parameters) is called once, the cached messages are packetised and from
   then on every message is: later sequence headers are DROPPED.  Packetising
   is rtprtcp.RtpPacker (C12: RtpPacker) in AVCC mode for video
   (C19: iterate_nalu_avcc), one AU-header packet per AAC frame, raw for
   G.711 / Opus.

   Metadata messages are given pre-parsed (audiocodecid as uint8, audiosamplerate
   as int): AMF0 decoding is C18's.  The random first sequence numbers and
   SSRCs of the two packers are 0 here; the harness prints sequence numbers
   relative to the first packet of each packer and drops the SSRC.
   No proofs in this file. *)
From Lal Require Import Common.LBytes Common.Res Group.GroupMsg Codec.CodecBits Codec.CodecAac
  Codec.CodecAvcSeqHeader Codec.CodecHevcSeqHeader Codec.CodecNalFraming Codec.CodecSdpText Codec.CodecSdp
  Rtp.RtpSeqArith Rtp.RtpPacker Remux.RemuxRtmp2Ts.
Open Scope N_scope.

Definition max_analyze_msgs : nat := 16.        (* maxAnalyzeAvMsgSize *)
Definition rtp_max_payload : N := 1200.         (* defaultRtpPackerOption.MaxPayloadSize *)
Definition pcm_default_rate : Z := 8000%Z.
Definition opus_default_rate : Z := 48000%Z.
Definition sound_g711a : N := 7.
Definition sound_g711u : N := 8.

Inductive rin :=
| RMeta (acodec : option N) (rate : option Z)   (* metadata: Find("audiocodecid") as uint8, Find("audiosamplerate") as int *)
| RMsg (m : rmsg).

Inductive akind := KPcm | KOpus | KAac.

Record r2r := mk_r2r {
  q_done : bool;
  q_cache : list rmsg;
  q_vps : option bytes; q_sps : option bytes; q_pps : option bytes; q_asc : option bytes;
  q_apt : Z; q_vpt : Z; q_arate : Z;
  q_apacker : option (akind * Z * N);      (* payload packer, clock rate, next seq *)
  q_vpacker : option (vcodec * N) }.

Definition r2r_init : r2r :=
  mk_r2r false [] None None None None pt_unknown pt_unknown (-1)%Z None None.

Inductive rout :=
| RSdp (raw : option bytes)                 (* onSdp; None: sdp.Pack refused, the zero context is handed out *)
| RRtp (audio : bool) (p : rtp_packet).

Definition nil_if_empty (b : bytes) : option bytes := match b with [] => None | _ => Some b end.
Definition is_some {A} (o : option A) : bool := match o with Some _ => true | None => false end.

Section Codecs.
  Variable b64_enc hex_enc : bytes -> bytes.
  Variable tool : bytes.                         (* base.LalPackSdp *)
  (* true: the tree after the rtmp2rtsp "fix:" commits of C06 - the Opus
     packer runs at the 48000 Hz the sdp announces; an AVC sequence header with
     several SPS / PPS is accepted (first SPS, first PPS); metadata is ignored
     once the analysis is done - false: the pinned
     tree (Opus packer at the metadata's audiosamplerate; such a header
     refused, so no video for RTSP consumers) *)
  Variable rtsp_fixed : bool.

  Definition u8z (z : Z) : N := Z.to_N (z mod 256).

  (* getAudioPacker *)
  Definition get_audio_packer (s : r2r) : r2r * option (akind * Z * N) :=
    match q_apacker s with
    | Some p => (s, Some p)
    | None =>
      let mk p := (mk_r2r (q_done s) (q_cache s) (q_vps s) (q_sps s) (q_pps s) (q_asc s) (q_apt s) (q_vpt s)
                          (q_arate s) (Some p) (q_vpacker s), Some p) in
      if (q_apt s =? pt_g711a)%Z || (q_apt s =? pt_g711u)%Z then mk (KPcm, q_arate s, 0)
      else if (q_apt s =? pt_opus)%Z then mk (KOpus, if rtsp_fixed then opus_default_rate else q_arate s, 0)
      else if (q_apt s =? pt_aac)%Z then
        match q_asc s with
        | None => (s, None)
        | Some asc =>
          match asc_unpack asc with
          | Ok c => mk (KAac, match asc_sampling_frequency c with Ok f => Z.of_N f | _ => (-1)%Z end, 0)
          | _ => (s, None)
          end
        end
      else (s, None)
    end.

  Definition set_apacker (s : r2r) (p : option (akind * Z * N)) : r2r :=
    mk_r2r (q_done s) (q_cache s) (q_vps s) (q_sps s) (q_pps s) (q_asc s) (q_apt s) (q_vpt s) (q_arate s) p (q_vpacker s).
  Definition set_vpacker (s : r2r) (p : option (vcodec * N)) : r2r :=
    mk_r2r (q_done s) (q_cache s) (q_vps s) (q_sps s) (q_pps s) (q_asc s) (q_apt s) (q_vpt s) (q_arate s) (q_apacker s) p.

  (* getVideoPacker *)
  Definition get_video_packer (s : r2r) : r2r * option (vcodec * N) :=
    match q_sps s with
    | None => (s, None)
    | Some _ =>
      match q_vpacker s with
      | Some p => (s, Some p)
      | None => let p := (if (q_vpt s =? pt_avc)%Z then Avc else Hevc, 0) in (set_vpacker s (Some p), Some p)
      end
    end.

  (* remux *)
  Definition remux (s : r2r) (m : rmsg) : r2r * list rout :=
    if rm_type m =? type_audio then
      match get_audio_packer s with
      | (s1, None) => (s1, [])
      | (s1, Some (k, rate, seq)) =>
        let c := audio_codec_id m in
        let body := if (c =? sound_g711a) || (c =? sound_g711u) || (c =? sound_opus)
                    then skipn 1 (rm_payload m) else skipn 2 (rm_payload m) in
        let pls := match k with KAac => pack_aac body rtp_max_payload | _ => pack_raw body rtp_max_payload end in
        let (pk, seq') := rtp_pack (u8z (q_apt s1)) (Z.to_N rate) 0 seq (rm_ts m) pls in
        (set_apacker s1 (Some (k, rate, seq')), map (RRtp true) pk)
      end
    else if rm_type m =? type_video then
      match get_video_packer s with
      | (s1, None) => (s1, [])
      | (s1, Some (c, seq)) =>
        if enhanced_too_short m then (s1, []) else
        let body := if (video_codec_id m =? codec_id_hevc) && is_enhanced_hevc_nalu m
                    then skipn (enhanced_nalu_index m) (rm_payload m) else skipn 5 (rm_payload m) in
        let pls := match iterate_nalu_avcc body with
                   | (nals, None) => match pack_video_frame true c nals rtp_max_payload with Ok l => l | _ => [] end
                   | (_, Some _) => []
                   end in
        let (pk, seq') := rtp_pack (u8z (q_vpt s1)) 90000 0 seq (rm_ts m) pls in
        (set_vpacker s1 (Some (c, seq')), map (RRtp false) pk)
      end
    else (s, []).

  Fixpoint remux_all (s : r2r) (ms : list rmsg) : r2r * list rout :=
    match ms with
    | [] => (s, [])
    | m :: t => let (s1, o1) := remux s m in let (s2, o2) := remux_all s1 t in (s2, o1 ++ o2)
    end.

  (* isAnalyzeEnough *)
  Definition analyze_enough (s : r2r) : bool :=
    (is_some (q_sps s) && is_some (q_pps s) && (is_some (q_asc s) || negb (q_apt s =? pt_unknown)%Z))
    || Nat.leb max_analyze_msgs (length (q_cache s)).

  (* doAnalyze *)
  Definition do_analyze (s : r2r) : r2r * list rout :=
    if negb (analyze_enough s) then (s, [])
    else
      let vpt := if is_some (q_sps s) && is_some (q_pps s)
                 then (if is_some (q_vps s) then pt_hevc else pt_avc) else q_vpt s in
      let with_v (asc : option bytes) (apt arate : Z) :=
        mk_r2r (q_done s) (q_cache s) (q_vps s) (q_sps s) (q_pps s) asc apt vpt arate (q_apacker s) (q_vpacker s) in
      (* the AAC branch may give up (asc := nil; return) *)
      let step :=
        match q_asc s with
        | None => inr (q_apt s, q_arate s)
        | Some asc =>
          match asc_unpack asc with
          | Ok c =>
            match asc_sampling_frequency c with
            | Ok f => inr (pt_aac, Z.of_N f)
            | _ => inl (with_v None pt_aac (-1)%Z)
            end
          | _ => inl (with_v None pt_aac (q_arate s))
          end
        end in
      match step with
      | inl s' => (s', [])
      | inr (apt, arate0) =>
        let arate := if (arate0 <=? 0)%Z then
                       (if (apt =? pt_g711u)%Z || (apt =? pt_g711a)%Z then pcm_default_rate
                        else if (apt =? pt_opus)%Z then opus_default_rate else arate0)
                     else arate0 in
        let s1 := with_v (q_asc s) apt arate in
        let sdp := sdp_pack_text b64_enc hex_enc tool
                     {| vi_pt := vpt; vi_vps := q_vps s; vi_sps := q_sps s; vi_pps := q_pps s |}
                     {| ai_pt := apt; ai_rate := arate; ai_asc := q_asc s |} in
        let (s2, outs) := remux_all s1 (q_cache s1) in
        (mk_r2r true [] (q_vps s2) (q_sps s2) (q_pps s2) (q_asc s2) (q_apt s2) (q_vpt s2) (q_arate s2)
                (q_apacker s2) (q_vpacker s2),
         RSdp sdp :: outs)
      end.

  Definition set_params (s : r2r) (vps sps pps : option bytes) : r2r :=
    mk_r2r (q_done s) (q_cache s) vps sps pps (q_asc s) (q_apt s) (q_vpt s) (q_arate s) (q_apacker s) (q_vpacker s).
  Definition set_asc_bytes (s : r2r) (asc : option bytes) : r2r :=
    mk_r2r (q_done s) (q_cache s) (q_vps s) (q_sps s) (q_pps s) asc (q_apt s) (q_vpt s) (q_arate s) (q_apacker s) (q_vpacker s).
  Definition set_audio_guess (s : r2r) (apt arate : Z) : r2r :=
    mk_r2r (q_done s) (q_cache s) (q_vps s) (q_sps s) (q_pps s) (q_asc s) apt (q_vpt s) arate (q_apacker s) (q_vpacker s).
  Definition push_cache (s : r2r) (m : rmsg) : r2r :=
    mk_r2r (q_done s) (q_cache s ++ [m]) (q_vps s) (q_sps s) (q_pps s) (q_asc s) (q_apt s) (q_vpt s) (q_arate s)
           (q_apacker s) (q_vpacker s).

  (* FeedRtmpMsg *)
  Definition feed_rtmp_msg (s : r2r) (i : rin) : r2r * list rout :=
    match i with
    | RMeta acodec rate =>
      (* metadata only guides the analysis: once the SDP has been handed out it no longer changes what the audio
         packer is created with (lal fix of C06; the pinned tree took it at any time) *)
      if rtsp_fixed && q_done s then (s, []) else
      let apt := match acodec with
                 | Some c => if c =? sound_g711u then pt_g711u else if c =? sound_g711a then pt_g711a
                             else if c =? sound_opus then pt_opus else q_apt s
                 | None => q_apt s
                 end in
      let arate := match rate with Some r => r | None => q_arate s end in
      (set_audio_guess s apt arate, [])
    | RMsg m =>
      let early :=
        if rm_type m =? type_audio then lenN (rm_payload m) <=? 2
        else if rm_type m =? type_video then lenN (rm_payload m) <=? 5
        else false in
      if early then (s, [])
      else
        let s0 :=
          if (rm_type m =? type_audio) && (q_apt s =? pt_unknown)%Z then
            let c := audio_codec_id m in
            let dflt d := if (q_arate s <? 0)%Z then d else q_arate s in
            if c =? sound_g711u then set_audio_guess s pt_g711u (dflt pcm_default_rate)
            else if c =? sound_g711a then set_audio_guess s pt_g711a (dflt pcm_default_rate)
            else if c =? sound_opus then set_audio_guess s pt_opus (dflt opus_default_rate)
            else s
          else s in
        if negb (q_done s0) then
          if is_avc_key_seq_header m then
            match avc_parse_seq_header (rm_payload m) with
            | Ok (sps, pps) => do_analyze (set_params s0 (q_vps s0) (nil_if_empty sps) (nil_if_empty pps))
            | _ =>
              (* ParseSpsPpsListFromSeqHeader: the first SPS and the first PPS *)
              match (if rtsp_fixed then avc_parse_seq_header_list (rm_payload m) else Err 0) with
              | Ok (sps :: _, pps :: _) => do_analyze (set_params s0 (q_vps s0) (nil_if_empty sps) (nil_if_empty pps))
              | _ => do_analyze (set_params s0 (q_vps s0) None None)
              end
            end
          else if is_hevc_key_seq_header m then
            if is_ext_header m then
              match hevc_parse_enhanced_seq_header (rm_payload m) with
              | Ok (v, sp, q) => do_analyze (set_params s0 (Some v) (Some sp) (Some q))
              | _ => do_analyze (set_params s0 None None None)
              end
            else
              match hevc_parse_seq_header (rm_payload m) with
              | Ok (v, sp, q) => do_analyze (set_params s0 (nil_if_empty v) (nil_if_empty sp) (nil_if_empty q))
              | _ => do_analyze (set_params s0 None None None)
              end
          else if is_aac_seq_header m then do_analyze (set_asc_bytes s0 (Some (skipn 2 (rm_payload m))))
          else do_analyze (push_cache s0 m)
        else if is_avc_key_seq_header m || is_hevc_key_seq_header m || is_aac_seq_header m then (s0, [])
        else remux s0 m
    end.

  Fixpoint feed_all_msgs (s : r2r) (l : list rin) : r2r * list rout :=
    match l with
    | [] => (s, [])
    | i :: t => let (s1, o1) := feed_rtmp_msg s i in let (s2, o2) := feed_all_msgs s1 t in (s2, o1 ++ o2)
    end.

  Definition run_rtsp_gen (l : list rin) : list rout := snd (feed_all_msgs r2r_init l).
End Codecs.

(* the current tree / the pinned tree *)
Definition run_rtsp (b64_enc hex_enc : bytes -> bytes) (tool : bytes) := run_rtsp_gen b64_enc hex_enc tool true.
Definition run_rtsp_pinned (b64_enc hex_enc : bytes -> bytes) (tool : bytes) := run_rtsp_gen b64_enc hex_enc tool false.
