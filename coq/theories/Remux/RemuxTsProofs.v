(* C07: RTP timestamp -> milliseconds.  The unpackers compute
   uint64(ts) * 1000 / uint64(clockRate) (after lal 186fc1c): the floor of the
   exact value, for every clock rate.  Before: ts / uint32(clockRate/1000),
   exact only when the clock rate is a multiple of 1000. *)
From Coq Require Import Lia ZifyN ZifyNat ZifyBool.
From Lal Require Import Common.LBytes Common.Res.
From Lal Require Rtp.RtpUnpacker Rtp.RtpFrames Net.NetChk Net.NetUnpack.
Open Scope N_scope.
Ltac Zify.zify_post_hook ::= Z.div_mod_to_equations.

Notation rtp_ms := RtpUnpacker.rtp_ms.

(* the conversion of the pinned tree *)
Definition rtp_ms_pinned (rate ts : N) : N := ts / (rate / 1000).

(* floor of the exact value: ms <= ts*1000/rate < ms + 1 *)
Lemma rtp_ms_floor rate ts : 0 < rate ->
  rtp_ms rate ts * rate <= ts * 1000 /\ ts * 1000 < (rtp_ms rate ts + 1) * rate.
Proof. intros H. unfold RtpUnpacker.rtp_ms. nia. Qed.

Lemma rtp_ms_mono rate a b : 0 < rate -> a <= b -> rtp_ms rate a <= rtp_ms rate b.
Proof. intros H Hab. unfold RtpUnpacker.rtp_ms. apply N.div_le_mono; lia. Qed.

(* after re-basing to the first frame of a track (AvPacketQueue): still within one
   millisecond of the exact distance, however long the stream runs *)
Lemma rtp_ms_delta rate t0 t : 0 < rate -> t0 <= t ->
  (rtp_ms rate t - rtp_ms rate t0) * rate < (t - t0) * 1000 + rate /\
  (t - t0) * 1000 < (rtp_ms rate t - rtp_ms rate t0 + 1) * rate.
Proof.
  intros H Ht. pose proof (rtp_ms_floor rate t H) as [A1 A2]. pose proof (rtp_ms_floor rate t0 H) as [B1 B2].
  pose proof (rtp_ms_mono rate t0 t H Ht). nia.
Qed.

(* both model copies of the conversion are this function *)
Lemma out_ts_is_rtp_ms site rate ts : rate <> 0 -> RtpUnpacker.out_ts site rate ts = Ok (rtp_ms rate ts).
Proof. intros H. unfold RtpUnpacker.out_ts. apply N.eqb_neq in H. rewrite H. reflexivity. Qed.

Lemma ts_ms_is_rtp_ms site clock ts : (0 < clock < 9223372036854775808)%Z ->
  NetUnpack.ts_ms true site clock ts = Ok (Z.of_N (rtp_ms (Z.to_N clock) ts)).
Proof.
  intros H. unfold NetUnpack.ts_ms, NetUnpack.w64.
  rewrite Z.mod_small by lia.
  destruct (Z.to_N clock =? 0) eqn:E; [apply N.eqb_eq in E; lia|reflexivity].
Qed.

(* the pinned conversion at 44.1 kHz: 100 ms too many every 44 seconds, without bound *)
Lemma pinned_drift_44100 k : rtp_ms_pinned 44100 (1940400 * k) = rtp_ms 44100 (1940400 * k) + 100 * k.
Proof.
  unfold rtp_ms_pinned, RtpUnpacker.rtp_ms. change (44100 / 1000) with 44.
  replace (1940400 * k) with (44100 * k * 44) at 1 by lia. rewrite N.div_mul by lia.
  replace (1940400 * k * 1000) with (44000 * k * 44100) by lia. rewrite N.div_mul by lia. lia.
Qed.

(* one hour of 44.1 kHz audio (still far below the 2^32 wrap): more than 8 seconds of drift *)
Lemma pinned_drift_one_hour :
  158760000 < 4294967296 /\ rtp_ms 44100 158760000 = 3600000 /\ rtp_ms_pinned 44100 158760000 = 3608181.
Proof. vm_compute. repeat split. Qed.

(* where the two agree: clock rates that are multiples of 1000 *)
Lemma pinned_exact_for_khz k ts : 0 < k -> rtp_ms_pinned (1000 * k) ts = rtp_ms (1000 * k) ts.
Proof.
  intros H. unfold rtp_ms_pinned, RtpUnpacker.rtp_ms.
  replace (1000 * k / 1000) with k by (rewrite N.mul_comm, N.div_mul; lia).
  rewrite (N.mul_comm 1000 k). rewrite N.div_mul_cancel_r by lia. reflexivity.
Qed.

Lemma ts_models_agree site rate ts : 0 < rate -> rate < 9223372036854775808 ->
  RtpUnpacker.out_ts site rate ts = Ok (rtp_ms rate ts) /\
  NetUnpack.ts_ms true site (Z.of_N rate) ts = Ok (Z.of_N (rtp_ms rate ts)).
Proof.
  intros H1 H2. split; [apply out_ts_is_rtp_ms; lia|].
  rewrite ts_ms_is_rtp_ms by lia. rewrite N2Z.id. reflexivity.
Qed.
