(* lal pkg/remux/rtmp2mpegts_filter_.go (rtmp2MpegtsFilter: queues the first
   messages until both codecs are known or 16 messages are queued, then emits
   PAT + PMT and drains) and the public face of Rtmp2MpegtsRemuxer
   (FeedRtmpMessage / FlushAudio / Dispose) on top of RemuxRtmp2Ts.
   PAT / PMT are the C09 models (TsPsi).  No proofs in this file. *)
From Lal Require Import Common.LBytes Common.Res Group.GroupMsg Rtp.RtpPacker Mpegts.TsPack Mpegts.TsPsi
  Remux.RemuxTsTimestamp Remux.RemuxRtmp2Ts.
Open Scope N_scope.

Definition filter_max_msgs : nat := 16.   (* calcFragmentHeaderQueueSize *)

Record tsfilt := mk_tsfilt {
  fq_data : list rmsg;
  fq_acodec : Z;        (* audioCodecId, -1 = unknown *)
  fq_vcodec : Z;        (* videoCodecId, -1 = unknown *)
  fq_done : bool;
  fq_version : N }.     (* pmtVersion: version_number of the PMT sent last *)

Definition tsfilt_init : tsfilt := mk_tsfilt [] (-1) (-1) false 0.

(* announceLateTrack (lal fix of C06-ts-late-track-not-in-pmt): after the probe,
   the first message of a track whose codec id is still unknown sets it; when
   it is one PackPmt announces (AVC / HEVC, AAC / Opus) a new version of the
   PMT goes out in front of the message.  Result: the filter and the PAT/PMT
   block to send, if any. *)
Definition late_track (f : tsfilt) (m : rmsg) : tsfilt * option bytes :=
  let announce f' :=
    let ver := u8 (fq_version f' + 1) in
    (mk_tsfilt (fq_data f') (fq_acodec f') (fq_vcodec f') (fq_done f') ver,
     Some (pack_pat ++ pack_pmt_ver (fq_vcodec f') (fq_acodec f') ver)) in
  if rm_type m =? type_audio then
    if negb (fq_acodec f =? -1)%Z || (lenN (rm_payload m) =? 0) then (f, None)
    else
      let a := Z.of_N (pb m 0 / 16) in
      let f' := mk_tsfilt (fq_data f) a (fq_vcodec f) (fq_done f) (fq_version f) in
      if (a =? 10)%Z || (a =? 13)%Z then announce f' else (f', None)
  else if rm_type m =? type_video then
    if negb (fq_vcodec f =? -1)%Z then (f, None)
    else
      let v := Z.of_N (video_codec_id m) in
      let f' := mk_tsfilt (fq_data f) (fq_acodec f) v (fq_done f) (fq_version f) in
      if (v =? 7)%Z || (v =? 12)%Z then announce f' else (f', None)
  else (f, None).

Record remuxer := mk_remuxer { x_filter : tsfilt; x_core : r2t }.
Definition remuxer_init : remuxer := mk_remuxer tsfilt_init r2t_init.

(* what the observer of the remuxer sees, in the order the callbacks complete *)
Inductive tsout :=
| OutPatPmt (b : bytes)
| OutTs (e : tsev).

Section Observer.
  Variable O : Type.
  Variable obs_decide : O -> tsev -> bool.
  Variable obs_apply : O -> tsev -> list tsev -> O.
  Variable obs_patpmt : O -> bytes -> O.

  Fixpoint pop_all (s : r2t) (o : O) (ms : list rmsg) : r2t * O * list tsev :=
    match ms with
    | [] => (s, o, [])
    | m :: t =>
      let '(s1, o1, e1) := on_pop O obs_decide obs_apply s o m in
      let '(s2, o2, e2) := pop_all s1 o1 t in
      (s2, o2, e1 ++ e2)
    end.

  (* drain *)
  Definition drain (x : remuxer) (o : O) (f : tsfilt) : remuxer * O * list tsout :=
    let patpmt := pack_pat ++ pack_pmt (fq_vcodec f) (fq_acodec f) in
    let o0 := obs_patpmt o patpmt in
    let '(s1, o1, evs) := pop_all (x_core x) o0 (fq_data f) in
    (mk_remuxer (mk_tsfilt [] (fq_acodec f) (fq_vcodec f) true (fq_version f)) s1, o1, OutPatPmt patpmt :: map OutTs evs).

  (* FeedRtmpMessage = filter.Push *)
  Definition feed_rtmp_message (x : remuxer) (o : O) (m : rmsg) : remuxer * O * list tsout :=
    let f := x_filter x in
    if fq_done f then
      let (f', pp) := late_track f m in
      let o0 := match pp with Some b => obs_patpmt o b | None => o end in
      let '(s1, o1, evs) := on_pop O obs_decide obs_apply (x_core x) o0 m in
      (mk_remuxer f' s1, o1, (match pp with Some b => [OutPatPmt b] | None => [] end) ++ map OutTs evs)
    else
      let a := if rm_type m =? type_audio then Z.of_N (pb m 0 / 16) else fq_acodec f in
      let v := if rm_type m =? type_video then Z.of_N (video_codec_id m) else fq_vcodec f in
      let f1 := mk_tsfilt (fq_data f ++ [m]) a v false (fq_version f) in
      if negb (v =? -1)%Z && negb (a =? -1)%Z then drain x o f1
      else if Nat.leb filter_max_msgs (length (fq_data f1)) then drain x o f1
      else (mk_remuxer f1 (x_core x), o, []).

  (* FlushAudio called by the owner between two messages (Group.OnFragmentOpen
     is only ever called from inside a callback; this entry exists for the
     scripted harness and for Dispose) *)
  Definition remuxer_flush (x : remuxer) (o : O) : remuxer * O * list tsout :=
    let '(s1, o1, evs) := flush_audio O obs_decide obs_apply (x_core x) o in
    (mk_remuxer (x_filter x) s1, o1, map OutTs evs).

  (* Dispose *)
  Definition remuxer_dispose := remuxer_flush.

  Inductive action :=
  | AMsg (m : rmsg)
  | AFlush
  | ADispose.

  Fixpoint run_actions (x : remuxer) (o : O) (acts : list action) : remuxer * O * list tsout :=
    match acts with
    | [] => (x, o, [])
    | a :: t =>
      let '(x1, o1, e1) :=
        match a with
        | AMsg m => feed_rtmp_message x o m
        | AFlush => remuxer_flush x o
        | ADispose => remuxer_dispose x o
        end in
      let '(x2, o2, e2) := run_actions x1 o1 t in
      (x2, o2, e1 ++ e2)
    end.
End Observer.

(* ---- the scripted observer: one decision bit per top-level OnTsPackets
   callback, "false" once the script is exhausted ---- *)
Definition script_decide (o : list bool) (_ : tsev) : bool := match o with b :: _ => b | [] => false end.
Definition script_apply (o : list bool) (_ : tsev) (_ : list tsev) : list bool := tl o.
Definition script_patpmt (o : list bool) (_ : bytes) : list bool := o.

Definition run_scripted (script : list bool) (acts : list action) : list tsout :=
  snd (run_actions (list bool) script_decide script_apply script_patpmt remuxer_init script acts).
