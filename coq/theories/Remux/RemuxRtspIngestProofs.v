(* C07: composition for one RTSP video track.  The RTP packets of a NAL unit
   stream, in ANY arrival order the reorder container admits (C12), come out
   of the remuxer as RTMP messages that carry exactly the NAL units a
   consumer must receive.  The container is the C12 model (Rtp/RtpReorder.v);
   the in-session around it (RTP header parsing, payload type dispatch) is the
   C13 model, tied to the same Go code by its own correspondence runs. *)
From Coq Require Import Lia ZifyN ZifyNat ZifyBool.
From Lal Require Import Common.LBytes Common.Res Codec.CodecNalFraming Codec.CodecNalFramingProofs
  Remux.RemuxAv2Rtmp Remux.RemuxAv2RtmpProofs.
From Lal Require Rtp.RtpPacker Rtp.RtpUnpacker Rtp.RtpReorder Rtp.RtpFrames Rtp.RtpReorderAbs Rtp.RtpStreamProofs
  Rtp.RtpRoundtripProofs Properties.C12.
Open Scope N_scope.

Definition pt_of_codec (c : RtpPacker.vcodec) : Z := match c with RtpPacker.Avc => pt_avc | RtpPacker.Hevc => pt_hevc end.
Definition hevc_of_codec (c : RtpPacker.vcodec) : bool := match c with RtpPacker.Avc => false | RtpPacker.Hevc => true end.

(* base.AvPacket of an emitted (timestamp, payload) *)
Definition av_of_out (pt : Z) (o : RtpUnpacker.avout) : avpkt := mk_av pt (Z.of_N (fst o)) (snd o).

Lemma avcc_single nal : avcc_ok nal -> iterate_nalu_avcc (RtpUnpacker.avcc nal) = ([nal], None).
Proof.
  intros H. replace (RtpUnpacker.avcc nal) with (join_nalu_avcc [nal]).
  - apply iterate_avcc_join; [discriminate|]. constructor; [exact H|constructor].
  - unfold join_nalu_avcc, RtpUnpacker.avcc, avcc_unit, u32. cbn [map concat]. rewrite app_nil_r.
    destruct H as [_ H]. rewrite N.mod_small by exact H. reflexivity.
Qed.

Theorem rtsp_video_track c maxp rate w d (nals : list (N * bytes)) sched st st' msgs :
  RtpPacker.fu_hdr_size c < maxp -> RtpFrames.rate_ok rate -> d < 65536 ->
  Forall (fun tn => RtpRoundtripProofs.nal_ok c (snd tn)) nals ->
  Forall (fun tn => lenN (snd tn) < 4294967296) nals ->
  let s := RtpRoundtripProofs.unit_stream (RtpFrames.proto_of_codec c) (RtpSeqArith.seq_succ d)
             (map (RtpRoundtripProofs.video_unit c maxp rate) nals) in
  RtpReorderAbs.sched_ok w (RtpStreamProofs.init_astate s) sched ->
  (forall i, (i < length (RtpStreamProofs.pkts s))%nat -> In i sched) ->
  rs_vfmt st = vfmt_avcc ->
  exists cs outs,
    RtpReorder.feed_all (RtpFrames.proto_of_codec c) rate w (RtpStreamProofs.primed d)
      (map (fun i => RtpStreamProofs.upkt_arrival (RtpStreamProofs.pkt_at s i)) sched) = Ok (cs, outs) /\
    outs = map (fun tn => (RtpUnpacker.rtp_ms rate (fst tn), RtpUnpacker.avcc (snd tn))) nals /\
    (feed_all_av true st (map (av_of_out (pt_of_codec c)) outs) = Ok (st', msgs) ->
     read_video_nals (av_msgs msgs) = filter (keep_nal (hevc_of_codec c)) (map snd nals)).
Proof.
  intros Hh Hr Hd Hn Hl s Hok Hall Hv.
  eexists _, _. split; [apply (C12.c12_reorder_video c maxp rate w d nals sched Hh Hr Hd Hn Hok Hall)|].
  split; [reflexivity|]. intros E.
  set (l := map (fun tn : N * bytes => (av_of_out (pt_of_codec c) (RtpUnpacker.rtp_ms rate (fst tn), RtpUnpacker.avcc (snd tn)), [snd tn])) nals).
  assert (Hmap : map (av_of_out (pt_of_codec c)) (map (fun tn => (RtpUnpacker.rtp_ms rate (fst tn), RtpUnpacker.avcc (snd tn))) nals) = map fst l).
  { subst l. rewrite !map_map. reflexivity. }
  rewrite Hmap in E.
  rewrite (video_track_nals (hevc_of_codec c) l st st' msgs); [|subst l|exact E].
  - subst l. rewrite map_map.
    rewrite (map_ext _ (fun x : N * bytes => filter (keep_nal (hevc_of_codec c)) [snd x])) by reflexivity.
    clear. induction nals as [|tn t IH]; [reflexivity|].
    cbn [map concat]. rewrite IH. cbn [filter app].
    destruct (keep_nal (hevc_of_codec c) (snd tn)); reflexivity.
  - rewrite Hv. apply Forall_map. apply Forall_forall. intros tn Hin.
    assert (Ha : avcc_ok (snd tn)).
    { split; [|eapply Forall_forall in Hl; eauto]. eapply Forall_forall in Hn; eauto. destruct Hn as [Hn _]. exact Hn. }
    unfold vpkt_ok. cbn [fst snd av_of_out]. split; [destruct c; reflexivity|]. split.
    + change (vfmt_avcc =? vfmt_avcc) with true. cbv iota. apply avcc_single. exact Ha.
    + constructor; [exact Ha|constructor].
Qed.

(* two admissible arrival orders of the same packets give the same container result *)
Theorem reorder_same c maxp rate w d (nals : list (N * bytes)) sched1 sched2 :
  RtpPacker.fu_hdr_size c < maxp -> RtpFrames.rate_ok rate -> d < 65536 ->
  Forall (fun tn => RtpRoundtripProofs.nal_ok c (snd tn)) nals ->
  let s := RtpRoundtripProofs.unit_stream (RtpFrames.proto_of_codec c) (RtpSeqArith.seq_succ d)
             (map (RtpRoundtripProofs.video_unit c maxp rate) nals) in
  let run sched := RtpReorder.feed_all (RtpFrames.proto_of_codec c) rate w (RtpStreamProofs.primed d)
                     (map (fun i => RtpStreamProofs.upkt_arrival (RtpStreamProofs.pkt_at s i)) sched) in
  RtpReorderAbs.sched_ok w (RtpStreamProofs.init_astate s) sched1 -> (forall i, (i < length (RtpStreamProofs.pkts s))%nat -> In i sched1) ->
  RtpReorderAbs.sched_ok w (RtpStreamProofs.init_astate s) sched2 -> (forall i, (i < length (RtpStreamProofs.pkts s))%nat -> In i sched2) ->
  run sched1 = run sched2.
Proof.
  intros Hh Hr Hd Hn s run O1 A1 O2 A2. subst run. cbv beta.
  pose proof (C12.c12_reorder_video c maxp rate w d nals sched1 Hh Hr Hd Hn O1 A1) as E1.
  pose proof (C12.c12_reorder_video c maxp rate w d nals sched2 Hh Hr Hd Hn O2 A2) as E2.
  cbv zeta in E1, E2. subst s. rewrite E1, E2. reflexivity.
Qed.
