(* C07: RTSP ingest.  rtsp.PubSession / BaseInSession (the C13 model
   Net/NetInSess.v, fixed tree: RTP header parsing, depacketisers, reorder
   container) -> onAvPacketUnpacked -> AvPacketQueue when both tracks are
   unpackable and BaseInSessionTimestampFilterFlag is set, else directly ->
   observer.OnAvPacket = AvPacket2RtmpRemuxer.FeedAvPacket; OnSdp =
   InitWithAvConfig(asc, vps, sps, pps of the SDP).  No proofs here. *)
From Lal Require Export Common.LBytes Common.Res Remux.RemuxAv2Rtmp Remux.RemuxAvQueue.
From Lal Require Net.NetInSess.
Open Scope N_scope.

(* onAvPacketUnpacked *)
Definition deliver (fx rot : bool) (q : option aq) (r : rstate) (a : avpkt) : res (option aq * rstate * list rmsg) :=
  match q with
  | None => let* (r1, ms) := feed_av_packet fx r a in Ok (None, r1, ms)
  | Some s =>
      let (s1, outs) := aq_feed rot s a in
      let* (r1, ms) := feed_all_av fx r outs in
      Ok (Some s1, r1, ms)
  end.

Fixpoint deliver_evs (fx rot : bool) (q : option aq) (r : rstate) (evs : list NetInSess.ev)
  : res (option aq * rstate * list rmsg) :=
  match evs with
  | [] => Ok (q, r, [])
  | NetInSess.EvAv a :: t =>
      let* (qr, ms) := deliver fx rot q r a in
      let (q1, r1) := qr in
      let* (qr2, more) := deliver_evs fx rot q1 r1 t in
      Ok (qr2, ms ++ more)
  | _ :: t => deliver_evs fx rot q r t
  end.

Fixpoint rtsp_run (fx rot : bool) (cfg : NetInSess.sess_cfg) (s : NetInSess.sess) (q : option aq) (r : rstate)
         (pkts : list (N * bytes)) : res (list (list rmsg)) :=
  match pkts with
  | [] => Ok []
  | (ch, b) :: t =>
      let* (s1, evs) := NetInSess.handle_interleaved true cfg s ch b in
      let* (qr, ms) := deliver_evs fx rot q r evs in
      let (q1, r1) := qr in
      let* more := rtsp_run fx rot cfg s1 q1 r1 t in
      Ok (ms :: more)
  end.

(* sdp.LogicContext.IsAudioUnpackable / IsVideoUnpackable for the codec tokens of the harness *)
Definition audio_unpackable (ac : N) (asc : option bytes) : bool :=
  ((ac =? NetInSess.c_aac) && is_some asc) || (ac =? NetInSess.c_pcma) || (ac =? NetInSess.c_pcmu) || (ac =? NetInSess.c_opus).
Definition video_unpackable (vc : N) : bool := (vc =? NetInSess.c_h264) || (vc =? NetInSess.c_h265).

(* first element: what OnSdp produced; then one element per interleaved packet *)
Definition rtsp_ingest (fx filter rot : bool) (ac : N) (aclock apt : Z) (asc : option bytes)
           (vc : N) (vclock vpt : Z) (vps sps pps : option bytes) (pkts : list (N * bytes)) : res (list (list rmsg)) :=
  let ac' := if (ac =? NetInSess.c_aac) && negb (is_some asc) then NetInSess.c_aacnoasc else ac in
  let cfg := NetInSess.sess_cfg_of true ac' aclock apt vc vclock vpt in
  let q := if filter && audio_unpackable ac asc && video_unpackable vc then Some aq_init else None in
  let* (r0, ms0) := init_with_av_config rs_new asc vps sps pps in
  let* more := rtsp_run fx rot cfg NetInSess.sess_init q r0 pkts in
  Ok (ms0 :: more).
