(* C07: one RTP track through the RTSP in-session model the harness exercises
   (Net/NetInSess.v handle_interleaved: header parsing, payload-type dispatch,
   unpack container) and the remuxer behind it (Remux/RemuxRtspIngest.v), related
   to the C12 container on which the reorder theorems are proved. *)
From Coq Require Import Lia ZifyN ZifyNat ZifyBool.
From Lal Require Import Common.LBytes Common.LBytesProofs Common.Res.
From Lal Require Import Remux.RemuxAv2Rtmp Remux.RemuxAvQueue Remux.RemuxRtspIngest Remux.RemuxUnpackSimProofs.
From Lal Require Net.NetChk Net.NetChkProofs Net.NetRtpHeader Net.NetRtcp Net.NetUnpack Net.NetInSess.
From Lal Require Rtp.RtpUnpacker Rtp.RtpReorder Remux.RemuxPsPesProofs.
Open Scope N_scope.
Ltac Zify.zify_post_hook ::= Z.div_mod_to_equations.

Module S := NetInSess.
Module H := NetRtpHeader.

(* ---------------------------------------------------------------- reference RTP writer (RFC 3550 5.1, every header variant) *)
(* marker bit, CSRC list (0 .. 15 identifiers), header extension (profile, data of 4*n bytes),
   padding (fill octets followed by the count of padding octets, the count included) *)
Record hvar := mk_hvar { hv_mark : N; hv_csrc : list N; hv_ext : option (N * bytes); hv_pad : option bytes }.
Definition hv_plain : hvar := mk_hvar 0 [] None None.

Definition ext_bytes (e : option (N * bytes)) : bytes :=
  match e with None => [] | Some (prof, d) => be_put 2 prof ++ be_put 2 (lenN d / 4) ++ d end.
Definition pad_bytes (p : option bytes) : bytes :=
  match p with None => [] | Some fill => fill ++ [lenN fill + 1] end.
Definition flag {A} (o : option A) : N := match o with None => 0 | Some _ => 1 end.

Definition hv_ok (v : hvar) : Prop :=
  hv_mark v < 2 /\ (length (hv_csrc v) <= 15)%nat /\ Forall (fun c => c < 4294967296) (hv_csrc v) /\
  match hv_ext v with None => True | Some (prof, d) => prof < 65536 /\ lenN d mod 4 = 0 /\ lenN d < 262144 end /\
  match hv_pad v with None => True | Some fill => lenN fill < 255 end.

Definition rtp_pre (v : hvar) (pt seq ts ssrc : N) : bytes :=
  (128 + 32 * flag (hv_pad v) + 16 * flag (hv_ext v) + lenN (hv_csrc v)) :: (hv_mark v * 128 + pt)
  :: be_put 2 seq ++ be_put 4 ts ++ be_put 4 ssrc ++ (concat (map (be_put 4) (hv_csrc v)) ++ ext_bytes (hv_ext v)).

Definition rtp_raw (v : hvar) (pt seq ts ssrc : N) (body : bytes) : bytes :=
  rtp_pre v pt seq ts ssrc ++ body ++ pad_bytes (hv_pad v).

(* one arrival of the C12 container (seq, ts, payload) as a packet on the wire; [V] chooses the header variant *)
Definition raw_of (V : N * N * bytes -> hvar) (pt ssrc : N) (a : N * N * bytes) : bytes :=
  rtp_raw (V a) pt (fst (fst a)) (snd (fst a)) ssrc (snd a).

Definition arr_ok (a : N * N * bytes) : Prop :=
  fst (fst a) < 65536 /\ snd (fst a) < 4294967296 /\ snd a <> [] /\ bytes_ok (snd a) /\ lenN (snd a) < 65536.

Lemma lenN_app {A} (a b : list A) : lenN (a ++ b) = lenN a + lenN b.
Proof. unfold lenN. rewrite app_length. lia. Qed.

Lemma lenN_be_put n v : lenN (be_put n v) = N.of_nat n.
Proof. unfold lenN. rewrite be_put_length. reflexivity. Qed.

Lemma lenN_csrc cs : lenN (concat (map (be_put 4) cs)) = 4 * lenN cs.
Proof.
  induction cs as [|c t IH]; [reflexivity|]. cbn [map concat]. rewrite lenN_app, IH, NetChkProofs.lenN_cons, lenN_be_put. lia.
Qed.

Definition ext_len (e : option (N * bytes)) : N := match e with None => 0 | Some (_, d) => 4 + lenN d end.
Lemma lenN_ext e : lenN (ext_bytes e) = ext_len e.
Proof.
  destruct e as [[prof d]|]; [|reflexivity]. cbn [ext_bytes ext_len]. rewrite !lenN_app, !lenN_be_put. lia.
Qed.

Definition pre_len (v : hvar) : N := 12 + 4 * lenN (hv_csrc v) + ext_len (hv_ext v).
Lemma lenN_pre v pt seq ts ssrc : lenN (rtp_pre v pt seq ts ssrc) = pre_len v.
Proof.
  unfold rtp_pre, pre_len. cbn [be_put app]. rewrite !NetChkProofs.lenN_cons, lenN_app, lenN_csrc, lenN_ext. lia.
Qed.

Definition pad_len (p : option bytes) : N := match p with None => 0 | Some fill => lenN fill + 1 end.
Lemma lenN_pad p : lenN (pad_bytes p) = pad_len p.
Proof. destruct p as [fill|]; [|reflexivity]. cbn [pad_bytes pad_len]. rewrite lenN_app. reflexivity. Qed.

Lemma lenN_raw v pt seq ts ssrc body : lenN (rtp_raw v pt seq ts ssrc body) = pre_len v + lenN body + pad_len (hv_pad v).
Proof. unfold rtp_raw. rewrite !lenN_app, lenN_pre, lenN_pad. lia. Qed.

Lemma bbe_at n b off : off + n <= lenN b ->
  H.bbe n b off = Ok (be_get (firstn (N.to_nat n) (skipn (N.to_nat off) b))).
Proof.
  intros Hl. unfold H.bbe, NetChk.be_at.
  assert (lenN b <? off = false) as -> by (apply N.ltb_ge; lia).
  assert (lenN b <? off + n = false) as -> by (apply N.ltb_ge; lia). reflexivity.
Qed.

(* a big-endian field of [n] bytes behind [pre] *)
Lemma bbe_mid n v pre rest : v < 256 ^ N.of_nat n -> H.bbe (N.of_nat n) (pre ++ be_put n v ++ rest) (lenN pre) = Ok v.
Proof.
  intros Hv. rewrite bbe_at.
  - unfold lenN. rewrite !Nat2N.id, skipn_app, skipn_all, Nat.sub_diag. cbn [app skipn].
    rewrite <- (be_put_length n v) at 1. rewrite firstn_app, firstn_all, Nat.sub_diag. cbn [firstn]. rewrite app_nil_r.
    rewrite be_get_put_small by exact Hv. reflexivity.
  - rewrite !lenN_app, lenN_be_put. lia.
Qed.

Lemma parse_csrc_ok : forall cs pre rest acc, Forall (fun c => c < 4294967296) cs ->
  H.parse_csrc (length cs) (pre ++ concat (map (be_put 4) cs) ++ rest) (lenN pre) acc = Ok (rev acc ++ cs, lenN pre + 4 * lenN cs).
Proof.
  induction cs as [|c t IH]; intros pre rest acc Hc; cbn [length H.parse_csrc map concat].
  - rewrite app_nil_r. replace (lenN pre + 4 * lenN (@nil N)) with (lenN pre) by (unfold lenN; cbn [length]; lia). reflexivity.
  - inversion Hc as [|? ? Hc1 Hc2]; subst. rewrite <- app_assoc.
    assert (lenN (pre ++ be_put 4 c ++ concat (map (be_put 4) t) ++ rest) <? lenN pre + 4 = false) as ->.
    { apply N.ltb_ge. rewrite !lenN_app, lenN_be_put. lia. }
    change 4 with (N.of_nat 4) at 1. rewrite bbe_mid by (cbn; lia). cbn [bind].
    specialize (IH (pre ++ be_put 4 c) rest (c :: acc) Hc2). rewrite <- app_assoc in IH.
    rewrite lenN_app, lenN_be_put in IH. change (N.of_nat 4) with 4 in IH. rewrite IH.
    cbn [rev]. rewrite <- app_assoc. cbn [app]. f_equal. f_equal. rewrite NetChkProofs.lenN_cons. lia.
Qed.

Lemma mid_split {A} (pre body post : list A) :
  firstn (length body) (skipn (length pre) (pre ++ body ++ post)) = body /\
  skipn (length pre + length body) (pre ++ body ++ post) = post.
Proof.
  split.
  - rewrite skipn_app, skipn_all, Nat.sub_diag. cbn [app skipn]. rewrite firstn_app, firstn_all, Nat.sub_diag. cbn [firstn]. apply app_nil_r.
  - rewrite app_assoc, <- app_length, skipn_app, skipn_all, Nat.sub_diag. reflexivity.
Qed.

Lemma nth_error_last {A} (l : list A) x : nth_error (l ++ [x]) (length l) = Some x.
Proof. rewrite nth_error_app2 by lia. rewrite Nat.sub_diag. reflexivity. Qed.

Lemma parse_raw v pt seq ts ssrc body :
  hv_ok v -> pt < 128 -> seq < 65536 -> ts < 4294967296 -> ssrc < 4294967296 -> body <> [] ->
  exists h, H.parse_rtp_header true (rtp_raw v pt seq ts ssrc body) = Ok h /\
            H.rh_seq h = seq /\ H.rh_ts h = ts /\ H.rh_pt h = pt /\
            H.rtp_body (rtp_raw v pt seq ts ssrc body) h = Ok (body, pad_bytes (hv_pad v)).
Proof.
  intros (Hm & Hcc & Hcs & Hext & Hpad) Hpt Hseq Hts Hss Hbody. set (raw := rtp_raw v pt seq ts ssrc body).
  assert (Hlen : lenN raw = pre_len v + lenN body + pad_len (hv_pad v)) by apply lenN_raw.
  assert (Hb1 : 1 <= lenN body) by (destruct body; [congruence|rewrite NetChkProofs.lenN_cons; lia]).
  assert (Hcc' : lenN (hv_csrc v) <= 15) by (unfold lenN; lia).
  set (b0 := 128 + 32 * flag (hv_pad v) + 16 * flag (hv_ext v) + lenN (hv_csrc v)).
  assert (Hf1 : flag (hv_pad v) < 2) by (destruct (hv_pad v); cbn; lia).
  assert (Hf2 : flag (hv_ext v) < 2) by (destruct (hv_ext v); cbn; lia).
  assert (B1 : b0 mod 16 = lenN (hv_csrc v)) by (subst b0; lia).
  assert (B2 : (b0 / 16) mod 2 = flag (hv_ext v)) by (subst b0; lia).
  assert (B3 : (b0 / 32) mod 2 = flag (hv_pad v)) by (subst b0; lia).
  unfold H.parse_rtp_header. cbv zeta.
  assert (lenN raw <? 12 = false) as -> by (apply N.ltb_ge; unfold pre_len in Hlen; lia).
  unfold H.bidx. rewrite (RemuxPsPesProofs.idx_nth _ raw 0 b0) by reflexivity. cbn [bind].
  rewrite (RemuxPsPesProofs.idx_nth _ raw 1 (hv_mark v * 128 + pt)) by reflexivity. cbn [bind].
  assert (Hp12 : 12 <= lenN raw) by (unfold pre_len in Hlen; lia).
  rewrite (bbe_at 2 raw 2) by lia. rewrite (bbe_at 4 raw 4) by lia. rewrite (bbe_at 4 raw 8) by lia. cbn [bind].
  rewrite B1, B2, B3.
  (* the CSRC list *)
  set (hdr12 := b0 :: (hv_mark v * 128 + pt) :: be_put 2 seq ++ be_put 4 ts ++ be_put 4 ssrc).
  assert (Eraw : raw = hdr12 ++ concat (map (be_put 4) (hv_csrc v)) ++ (ext_bytes (hv_ext v) ++ body ++ pad_bytes (hv_pad v))).
  { subst raw hdr12. unfold rtp_raw, rtp_pre. fold b0. cbn [be_put app]. rewrite <- !app_assoc. reflexivity. }
  assert (Eh12 : lenN hdr12 = 12) by reflexivity.
  assert (Ecs : N.to_nat (lenN (hv_csrc v)) = length (hv_csrc v)) by (unfold lenN; lia).
  rewrite Ecs. pose proof (parse_csrc_ok (hv_csrc v) hdr12 (ext_bytes (hv_ext v) ++ body ++ pad_bytes (hv_pad v)) [] Hcs) as Pc.
  rewrite <- Eraw, Eh12 in Pc. rewrite Pc. cbn [bind rev app].
  set (off1 := 12 + 4 * lenN (hv_csrc v)).
  (* the extension *)
  assert (Pe : exists prof exts,
    (if flag (hv_ext v) =? 0 then Ok (0, [], off1)
     else if lenN raw <? off1 + 4 then Err NetChk.e_short
     else let* prof := H.bbe 2 raw off1 in let* el := H.bbe 2 raw (off1 + 2) in
          let off := off1 + 4 in let n := 4 * el in
          if lenN raw <? off + n then Err NetChk.e_short
          else let* e := NetChk.slice NetChk.s_rtphdr_slice raw off (off + n) in Ok (prof, e, off + n))
    = Ok (prof, exts, pre_len v)).
  { destruct (hv_ext v) as [[prof d]|] eqn:Ee; cbn [flag].
    - change (1 =? 0) with false. cbv iota. destruct Hext as (Hprof & Hd4 & Hdl).
      cbn [ext_len] in *. unfold pre_len in Hlen. rewrite Ee in Hlen. cbn [ext_len] in Hlen.
      assert (lenN raw <? off1 + 4 = false) as -> by (apply N.ltb_ge; subst off1; lia).
      set (pre1 := hdr12 ++ concat (map (be_put 4) (hv_csrc v))).
      assert (Lp1 : lenN pre1 = off1) by (subst pre1 off1; rewrite lenN_app, lenN_csrc, Eh12; reflexivity).
      assert (Eraw1 : raw = pre1 ++ be_put 2 prof ++ (be_put 2 (lenN d / 4) ++ d ++ body ++ pad_bytes (hv_pad v))).
      { rewrite Eraw. subst pre1. cbn [ext_bytes]. rewrite <- !app_assoc. reflexivity. }
      assert (P1 : H.bbe 2 raw off1 = Ok prof).
      { rewrite Eraw1, <- Lp1. change 2 with (N.of_nat 2) at 1. apply bbe_mid. cbn. lia. }
      rewrite P1. cbn [bind].
      assert (Eraw2 : raw = (pre1 ++ be_put 2 prof) ++ be_put 2 (lenN d / 4) ++ (d ++ body ++ pad_bytes (hv_pad v))).
      { rewrite Eraw1, <- !app_assoc. reflexivity. }
      assert (Lp2 : lenN (pre1 ++ be_put 2 prof) = off1 + 2) by (rewrite lenN_app, Lp1; reflexivity).
      assert (P2 : H.bbe 2 raw (off1 + 2) = Ok (lenN d / 4)).
      { rewrite Eraw2, <- Lp2. change 2 with (N.of_nat 2) at 1. apply bbe_mid. cbn. lia. }
      rewrite P2. cbn [bind]. cbv zeta.
      assert (E4 : 4 * (lenN d / 4) = lenN d) by lia. rewrite E4.
      assert (lenN raw <? off1 + 4 + lenN d = false) as -> by (apply N.ltb_ge; subst off1; lia).
      rewrite NetChkProofs.slice_ok by (subst off1; lia). cbn [bind]. eexists _, _. f_equal. f_equal. unfold pre_len. rewrite Ee. cbn [ext_len]. subst off1. lia.
    - change (0 =? 0) with true. cbv iota. eexists _, _. f_equal. f_equal. unfold pre_len. rewrite Ee. cbn [ext_len]. subst off1. lia. }
  destruct Pe as (prof & exts & Pe).
  match goal with |- context [if flag (hv_ext v) =? 0 then ?A else ?B] =>
    assert (EX : (if flag (hv_ext v) =? 0 then A else B) = Ok (prof, exts, pre_len v)) by exact Pe; rewrite EX; clear EX end.
  cbn [bind].
  assert (lenN raw <=? pre_len v = false) as -> by (apply N.leb_gt; lia).
  (* the padding count *)
  assert (Ppad : (if flag (hv_pad v) =? 1 then NetChk.idx NetChk.s_rtphdr_index raw (lenN raw - 1) else Ok 0) = Ok (pad_len (hv_pad v))).
  { destruct (hv_pad v) as [fill|] eqn:Ep; cbn [flag pad_len]; [|reflexivity]. change (1 =? 1) with true. cbv iota.
    apply RemuxPsPesProofs.idx_nth.
    assert (Er : raw = (rtp_pre v pt seq ts ssrc ++ body ++ fill) ++ [lenN fill + 1]).
    { subst raw. unfold rtp_raw. rewrite Ep. cbn [pad_bytes]. rewrite <- !app_assoc. reflexivity. }
    remember (rtp_pre v pt seq ts ssrc ++ body ++ fill) as A eqn:EA.
    assert (EL : N.to_nat (lenN raw - 1) = length A).
    { rewrite Er, lenN_app. unfold lenN. cbn [length]. lia. }
    rewrite EL, Er. apply nth_error_last. }
  rewrite Ppad. cbn [bind].
  assert (Hguard : (flag (hv_pad v) =? 1) && (lenN raw <=? pre_len v + pad_len (hv_pad v)) = false).
  { apply andb_false_iff. right. apply N.leb_gt. lia. }
  cbn [andb]. rewrite Hguard.
  eexists. split; [reflexivity|]. cbn [H.rh_seq H.rh_ts H.rh_pt].
  assert (E2 : firstn (N.to_nat 2) (skipn (N.to_nat 2) raw) = be_put 2 seq) by reflexivity.
  assert (E4 : firstn (N.to_nat 4) (skipn (N.to_nat 4) raw) = be_put 4 ts) by reflexivity.
  rewrite E2, E4. rewrite !be_get_put_small by (cbn; lia).
  split; [reflexivity|]. split; [reflexivity|]. split; [lia|].
  unfold H.rtp_body. cbn [H.rh_payload_offset H.rh_padding H.rh_padding_len].
  assert (pre_len v =? 0 = false) as -> by (apply N.eqb_neq; unfold pre_len; lia).
  assert (Lpre : N.to_nat (pre_len v) = length (rtp_pre v pt seq ts ssrc)) by (rewrite <- (lenN_pre v pt seq ts ssrc); unfold lenN; lia).
  destruct (hv_pad v) as [fill|] eqn:Ep; cbn [flag pad_len pad_bytes] in *.
  - change (1 =? 1) with true. cbv iota.
    assert (pre_len v + (lenN fill + 1) <=? lenN raw = true) as -> by (apply N.leb_le; lia).
    assert (Lb : N.to_nat (lenN raw - (lenN fill + 1) - pre_len v) = length body) by (rewrite Hlen; unfold lenN; lia).
    assert (Lc : N.to_nat (lenN raw - (lenN fill + 1)) = (length (rtp_pre v pt seq ts ssrc) + length body)%nat) by (rewrite Hlen, <- Lpre; unfold lenN; lia).
    rewrite Lb, Lc, Lpre. subst raw. unfold rtp_raw. rewrite Ep. cbn [pad_bytes].
    destruct (mid_split (rtp_pre v pt seq ts ssrc) body (fill ++ [lenN fill + 1])) as [M1 M2]. rewrite M1, M2. reflexivity.
  - change (0 =? 1) with false. cbv iota.
    assert (pre_len v <=? lenN raw = true) as -> by (apply N.leb_le; lia).
    rewrite Lpre. subst raw. unfold rtp_raw. rewrite Ep. cbn [pad_bytes]. rewrite app_nil_r.
    rewrite skipn_app, skipn_all, Nat.sub_diag. reflexivity.
Qed.

(* ---------------------------------------------------------------- one packet through handleRtpPacket *)
Definition set_vcont (s : S.sess) (ssrc : N) (seq : N) (c : U13.ucont) : S.sess :=
  S.mk_sess (S.ss_assrc s) ssrc (S.ss_arr s) (NetRtcp.rrp_feed (S.ss_vrr s) seq) (S.ss_acont s) c.
Definition set_acont (s : S.sess) (ssrc : N) (seq : N) (c : U13.ucont) : S.sess :=
  S.mk_sess ssrc (S.ss_vssrc s) (NetRtcp.rrp_feed (S.ss_arr s) seq) (S.ss_vrr s) c (S.ss_vcont s).

Lemma idx1_raw v pt seq ts ssrc body :
  NetChk.idx NetChk.s_rtphdr_index (rtp_raw v pt seq ts ssrc body) 1 = Ok (hv_mark v * 128 + pt).
Proof. apply RemuxPsPesProofs.idx_nth. reflexivity. Qed.

Lemma raw_ge12 v pt seq ts ssrc body : lenN (rtp_raw v pt seq ts ssrc body) <? 12 = false.
Proof. apply N.ltb_ge. rewrite lenN_raw. unfold pre_len. lia. Qed.

(* a packet of the video track *)
Lemma handle_video V cfg s u ch pt ssrc a :
  S.sc_vunp cfg = Some u -> S.sc_vpt cfg = Z.of_N pt -> S.sc_apt cfg <> Z.of_N pt ->
  (ch = S.sc_artp cfg \/ ch = S.sc_vrtp cfg) -> pt < 128 -> ssrc < 4294967296 -> arr_ok a -> hv_ok (V a) ->
  exists h, H.rh_seq h = fst (fst a) /\ H.rh_ts h = snd (fst a) /\
    H.rtp_body (raw_of V pt ssrc a) h = Ok (snd a, pad_bytes (hv_pad (V a))) /\
    S.handle_interleaved true cfg s ch (raw_of V pt ssrc a) =
    let* (c, avs) := U13.cont_feed true u S.unpacker_max_size (S.ss_vcont s) h (raw_of V pt ssrc a) in
    Ok (set_vcont s (H.rh_ssrc h) (H.rh_seq h) c, S.EvRtp (H.rh_seq h) :: map S.EvAv avs).
Proof.
  intros Hu Hv Ha Hch Hpt Hss (Hseq & Hts & Hne & _ & Hlen) Hvar. pose proof Hvar as (Hmk & _). unfold raw_of.
  destruct a as [[seq ts] body]. cbn [fst snd] in *. set (v := V (seq, ts, body)) in *.
  destruct (parse_raw v pt seq ts ssrc body) as (h & Ep & E1 & E2 & E3 & E4); try assumption.
  exists h. split; [exact E1|]. split; [exact E2|]. split; [exact E4|].
  unfold S.handle_interleaved.
  assert ((ch =? S.sc_artp cfg) || (ch =? S.sc_vrtp cfg) = true) as ->.
  { apply orb_true_iff. destruct Hch as [->| ->]; [left|right]; apply N.eqb_refl. }
  unfold S.handle_rtp. rewrite raw_ge12, idx1_raw. cbn [bind]. replace ((hv_mark v * 128 + pt) mod 128) with pt by lia.
  assert ((S.sc_apt cfg =? Z.of_N pt)%Z = false) as -> by (apply Z.eqb_neq; exact Ha).
  assert ((S.sc_vpt cfg =? Z.of_N pt)%Z = true) as -> by (apply Z.eqb_eq; exact Hv).
  cbn [orb negb]. rewrite Ep, Hu. cbn [S.feed_opt]. reflexivity.
Qed.

(* a packet of the audio track *)
Lemma handle_audio V cfg s u ch pt ssrc a :
  S.sc_aunp cfg = Some u -> S.sc_apt cfg = Z.of_N pt ->
  (ch = S.sc_artp cfg \/ ch = S.sc_vrtp cfg) -> pt < 128 -> ssrc < 4294967296 -> arr_ok a -> hv_ok (V a) ->
  exists h, H.rh_seq h = fst (fst a) /\ H.rh_ts h = snd (fst a) /\
    H.rtp_body (raw_of V pt ssrc a) h = Ok (snd a, pad_bytes (hv_pad (V a))) /\
    S.handle_interleaved true cfg s ch (raw_of V pt ssrc a) =
    let* (c, avs) := U13.cont_feed true u S.unpacker_max_size (S.ss_acont s) h (raw_of V pt ssrc a) in
    Ok (set_acont s (H.rh_ssrc h) (H.rh_seq h) c, S.EvRtp (H.rh_seq h) :: map S.EvAv avs).
Proof.
  intros Hu Ha Hch Hpt Hss (Hseq & Hts & Hne & _ & Hlen) Hvar. pose proof Hvar as (Hmk & _). unfold raw_of.
  destruct a as [[seq ts] body]. cbn [fst snd] in *. set (v := V (seq, ts, body)) in *.
  destruct (parse_raw v pt seq ts ssrc body) as (h & Ep & E1 & E2 & E3 & E4); try assumption.
  exists h. split; [exact E1|]. split; [exact E2|]. split; [exact E4|].
  unfold S.handle_interleaved.
  assert ((ch =? S.sc_artp cfg) || (ch =? S.sc_vrtp cfg) = true) as ->.
  { apply orb_true_iff. destruct Hch as [->| ->]; [left|right]; apply N.eqb_refl. }
  unfold S.handle_rtp. rewrite raw_ge12, idx1_raw. cbn [bind]. replace ((hv_mark v * 128 + pt) mod 128) with pt by lia.
  assert ((S.sc_apt cfg =? Z.of_N pt)%Z = true) as -> by (apply Z.eqb_eq; exact Ha).
  cbn [orb negb]. rewrite Ep, Hu. cbn [S.feed_opt]. reflexivity.
Qed.

(* the AAC unpacker's slice expressions can reach the padding octets: its packets come without padding *)
Definition pad_free (tf : bool) (v : hvar) : Prop := tf = true -> hv_pad v = None.

(* ---------------------------------------------------------------- remuxer over lists *)
Lemma feed_all_av_app fx : forall a b r,
  feed_all_av fx r (a ++ b) =
  let* (r1, m1) := feed_all_av fx r a in let* (r2, m2) := feed_all_av fx r1 b in Ok (r2, m1 ++ m2).
Proof.
  induction a as [|p t IH]; intros b r; cbn [app feed_all_av bind].
  - destruct (feed_all_av fx r b) as [[r2 m2]| |]; reflexivity.
  - destruct (feed_av_packet fx r p) as [[r1 m1]| |]; cbn [bind]; try reflexivity.
    rewrite IH. destruct (feed_all_av fx r1 t) as [[r2 m2]| |]; cbn [bind]; try reflexivity.
    destruct (feed_all_av fx r2 b) as [[r3 m3]| |]; cbn [bind]; try reflexivity. rewrite app_assoc. reflexivity.
Qed.

(* without the interleave queue every AvPacket goes straight to the remuxer *)
Lemma deliver_none fx rot : forall avs r seq,
  deliver_evs fx rot None r (S.EvRtp seq :: map S.EvAv avs) =
  let* (r1, ms) := feed_all_av fx r avs in Ok (None, r1, ms).
Proof.
  intros avs r seq. cbn [deliver_evs]. revert r. induction avs as [|a t IH]; intros r; cbn [map deliver_evs feed_all_av bind]; [reflexivity|].
  unfold deliver. destruct (feed_av_packet fx r a) as [[r1 m1]| |]; cbn [bind]; try reflexivity.
  rewrite IH. destruct (feed_all_av fx r1 t) as [[r2 m2]| |]; reflexivity.
Qed.

(* ---------------------------------------------------------------- a single track, no interleave queue *)
Section SingleVideo.
Variables (fx rot : bool) (cfg : S.sess_cfg) (u : U13.unpacker) (ch pt ssrc : N) (V : N * N * bytes -> hvar).
Hypothesis HV : forall a, hv_ok (V a).
Hypothesis HP : forall a, pad_free (tf_of (U13.uk_kind u)) (V a).
Hypothesis Hclock : clock_pos (U13.uk_clock u).
Hypothesis Hu : S.sc_vunp cfg = Some u.
Hypothesis Hv : S.sc_vpt cfg = Z.of_N pt.
Hypothesis Ha : S.sc_apt cfg <> Z.of_N pt.
Hypothesis Hch : ch = S.sc_artp cfg \/ ch = S.sc_vrtp cfg.
Hypothesis Hpt : pt < 128.
Hypothesis Hss : ssrc < 4294967296.

Lemma video_run : forall arrivals s c12 r groups, crel (tf_of (U13.uk_kind u)) (S.ss_vcont s) c12 -> Forall arr_ok arrivals ->
  rtsp_run fx rot cfg s None r (map (fun a => (ch, raw_of V pt ssrc a)) arrivals) = Ok groups ->
  exists st12 outs r',
    C12.feed_all (pr_of (U13.uk_kind u)) (Z.to_N (U13.uk_clock u)) S.unpacker_max_size c12 arrivals = Ok (st12, outs) /\
    feed_all_av fx r (map (to_av (U13.uk_pt u)) outs) = Ok (r', concat groups).
Proof.
  induction arrivals as [|a t IH]; intros s c12 r groups Hr Hok E; cbn [map rtsp_run] in E.
  - injection E as <-. exists c12, [], r. split; reflexivity.
  - apply Forall_cons_iff in Hok as [Hak Hokt].
    destruct (handle_video V cfg s u ch pt ssrc a Hu Hv Ha Hch Hpt Hss Hak (HV a)) as (h & Hseq & Hts & Hbody & Eh). rewrite Eh in E. clear Eh.
    pose proof Hak as (_ & _ & _ & Hbytes & Hlen).
    assert (Htail : tf_of (U13.uk_kind u) = true -> pad_bytes (hv_pad (V a)) = []) by (intros Et; rewrite (HP a Et); reflexivity).
    pose proof (feed_sim u Hclock S.unpacker_max_size (S.ss_vcont s) c12 h (raw_of V pt ssrc a) (snd a) _ Hr Hbody Htail Hbytes Hlen) as Hf.
    destruct (U13.cont_feed true u S.unpacker_max_size (S.ss_vcont s) h (raw_of V pt ssrc a)) as [[c' avs]| |]; cbn [bind] in E; try discriminate.
    destruct Hf as (st1 & o1 & Ef & Hr1 & ->). rewrite Hseq, Hts in Ef.
    rewrite deliver_none in E.
    destruct (feed_all_av fx r (map (to_av (U13.uk_pt u)) o1)) as [[r1 m1]| |] eqn:Em; cbn [bind] in E; try discriminate.
    destruct (rtsp_run fx rot cfg _ None r1 _) as [more| |] eqn:Er; cbn [bind] in E; try discriminate.
    injection E as <-.
    destruct (IH (set_vcont s (H.rh_ssrc h) (H.rh_seq h) c') st1 r1 more Hr1 Hokt Er) as (st12 & outs & r' & Ef2 & Em2).
    exists st12, (o1 ++ outs), r'. split.
    + destruct a as [[seq ts] body]. cbn [C12.feed_all fst snd] in *. rewrite Ef. cbn [bind]. rewrite Ef2. reflexivity.
    + rewrite map_app, feed_all_av_app, Em. cbn [bind]. rewrite Em2. reflexivity.
Qed.
End SingleVideo.

Section SingleAudio.
Variables (fx rot : bool) (cfg : S.sess_cfg) (u : U13.unpacker) (ch pt ssrc : N) (V : N * N * bytes -> hvar).
Hypothesis HV : forall a, hv_ok (V a).
Hypothesis HP : forall a, pad_free (tf_of (U13.uk_kind u)) (V a).
Hypothesis Hclock : clock_pos (U13.uk_clock u).
Hypothesis Hu : S.sc_aunp cfg = Some u.
Hypothesis Ha : S.sc_apt cfg = Z.of_N pt.
Hypothesis Hch : ch = S.sc_artp cfg \/ ch = S.sc_vrtp cfg.
Hypothesis Hpt : pt < 128.
Hypothesis Hss : ssrc < 4294967296.

Lemma audio_run : forall arrivals s c12 r groups, crel (tf_of (U13.uk_kind u)) (S.ss_acont s) c12 -> Forall arr_ok arrivals ->
  rtsp_run fx rot cfg s None r (map (fun a => (ch, raw_of V pt ssrc a)) arrivals) = Ok groups ->
  exists st12 outs r',
    C12.feed_all (pr_of (U13.uk_kind u)) (Z.to_N (U13.uk_clock u)) S.unpacker_max_size c12 arrivals = Ok (st12, outs) /\
    feed_all_av fx r (map (to_av (U13.uk_pt u)) outs) = Ok (r', concat groups).
Proof.
  induction arrivals as [|a t IH]; intros s c12 r groups Hr Hok E; cbn [map rtsp_run] in E.
  - injection E as <-. exists c12, [], r. split; reflexivity.
  - apply Forall_cons_iff in Hok as [Hak Hokt].
    destruct (handle_audio V cfg s u ch pt ssrc a Hu Ha Hch Hpt Hss Hak (HV a)) as (h & Hseq & Hts & Hbody & Eh). rewrite Eh in E. clear Eh.
    pose proof Hak as (_ & _ & _ & Hbytes & Hlen).
    assert (Htail : tf_of (U13.uk_kind u) = true -> pad_bytes (hv_pad (V a)) = []) by (intros Et; rewrite (HP a Et); reflexivity).
    pose proof (feed_sim u Hclock S.unpacker_max_size (S.ss_acont s) c12 h (raw_of V pt ssrc a) (snd a) _ Hr Hbody Htail Hbytes Hlen) as Hf.
    destruct (U13.cont_feed true u S.unpacker_max_size (S.ss_acont s) h (raw_of V pt ssrc a)) as [[c' avs]| |]; cbn [bind] in E; try discriminate.
    destruct Hf as (st1 & o1 & Ef & Hr1 & ->). rewrite Hseq, Hts in Ef.
    rewrite deliver_none in E.
    destruct (feed_all_av fx r (map (to_av (U13.uk_pt u)) o1)) as [[r1 m1]| |] eqn:Em; cbn [bind] in E; try discriminate.
    destruct (rtsp_run fx rot cfg _ None r1 _) as [more| |] eqn:Er; cbn [bind] in E; try discriminate.
    injection E as <-.
    destruct (IH (set_acont s (H.rh_ssrc h) (H.rh_seq h) c') st1 r1 more Hr1 Hokt Er) as (st12 & outs & r' & Ef2 & Em2).
    exists st12, (o1 ++ outs), r'. split.
    + destruct a as [[seq ts] body]. cbn [C12.feed_all fst snd] in *. rewrite Ef. cbn [bind]. rewrite Ef2. reflexivity.
    + rewrite map_app, feed_all_av_app, Em. cbn [bind]. rewrite Em2. reflexivity.
Qed.
End SingleAudio.

(* ---------------------------------------------------------------- a video-only RTSP publisher, session as created *)
From Lal Require Rtp.RtpPacker Rtp.RtpFrames Rtp.RtpReorderAbs Rtp.RtpStreamProofs Rtp.RtpRoundtripProofs Rtp.RtpFreshProofs.
From Lal Require Properties.C12 Codec.CodecNalFraming Codec.CodecNalFramingProofs Remux.RemuxAv2RtmpProofs Remux.RemuxRtspIngestProofs.

Lemma int64_of_id z : (0 <= z < 9223372036854775808)%Z -> S.int64_of z = z.
Proof. intros H. unfold S.int64_of. lia. Qed.

Lemma mk_unpacker_video k pt vclock : (1000 <= vclock < 4294967296000)%Z ->
  S.mk_unpacker true k pt vclock = Some (U13.mk_unp k pt vclock).
Proof.
  intros H. unfold S.mk_unpacker. rewrite int64_of_id by lia. cbn [andb].
  assert (NetChk.w32 (Z.quot vclock 1000) =? 0 = false) as ->; [|reflexivity].
  apply N.eqb_neq. unfold NetChk.w32. rewrite Z.quot_div_nonneg by lia. rewrite Z.mod_small by lia. lia.
Qed.

Definition vkind (hevc : bool) : U13.ukind := if hevc then U13.UHevc else U13.UAvc.
Definition vcodec_tok (hevc : bool) : N := if hevc then S.c_h265 else S.c_h264.
Definition vpt_of (hevc : bool) : Z := if hevc then pt_hevc else pt_avc.

(* the in-session model on the packets of one video track = the C12 container on the same arrivals, then the remuxer *)
Theorem rtsp_video_ingest V fx filter rot (hevc : bool) vclock vpt ssrc arrivals groups : (forall a, hv_ok (V a)) ->
  (1000 <= vclock < 4294967296000)%Z -> 0 < vpt < 128 -> ssrc < 4294967296 -> Forall arr_ok arrivals ->
  rtsp_ingest fx filter rot S.c_none 0 0 None (vcodec_tok hevc) vclock (Z.of_N vpt) None None None
              (map (fun a => (2, raw_of V vpt ssrc a)) arrivals) = Ok groups ->
  exists st12 outs r',
    C12.feed_all (pr_of (vkind hevc)) (Z.to_N vclock) 1024 C12.c_init arrivals = Ok (st12, outs) /\
    feed_all_av fx rs_new (map (to_av (vpt_of hevc)) outs) = Ok (r', concat groups).
Proof.
  intros HV Hclk Hvpt Hss Hok E. unfold rtsp_ingest in E.
  assert (Eaud : audio_unpackable S.c_none None = false) by reflexivity.
  rewrite Eaud, andb_false_r in E. cbn [andb] in E.
  change (init_with_av_config rs_new None None None None) with (@Ok (rstate * list rmsg) (rs_new, [])) in E. cbn [bind] in E.
  set (cfg := S.sess_cfg_of true _ 0 0 (vcodec_tok hevc) vclock (Z.of_N vpt)) in E.
  set (u := U13.mk_unp (vkind hevc) (vpt_of hevc) vclock).
  assert (Hu : S.sc_vunp cfg = Some u).
  { subst cfg u. unfold S.sess_cfg_of. destruct hevc; cbn [vcodec_tok vkind vpt_of];
      change (S.c_none =? S.c_none) with true; cbv iota; cbn [S.sc_vunp];
      [change (S.c_h265 =? S.c_none) with false; change (S.c_h265 =? S.c_h264) with false; change (S.c_h265 =? S.c_h265) with true
      |change (S.c_h264 =? S.c_none) with false; change (S.c_h264 =? S.c_h264) with true];
      cbv iota; cbn [S.sc_vunp]; apply mk_unpacker_video; exact Hclk. }
  assert (Hcfg : S.sc_vpt cfg = Z.of_N vpt /\ S.sc_apt cfg = 0%Z /\ S.sc_vrtp cfg = 2).
  { subst cfg. unfold S.sess_cfg_of. destruct hevc; cbn [vcodec_tok]; vm_compute; repeat split. }
  destruct Hcfg as (Hv & Ha & Hch).
  destruct (rtsp_run fx rot cfg S.sess_init None rs_new _) as [more| |] eqn:Er; cbn [bind] in E; try discriminate.
  injection E as <-.
  destruct (video_run fx rot cfg u 2 vpt ssrc V) with (arrivals := arrivals) (s := S.sess_init) (c12 := C12.c_init) (r := rs_new) (groups := more)
    as (st12 & outs & r' & Ef & Em); try assumption.
  - intros a Et. subst u. destruct hevc; discriminate Et.
  - subst u. cbn [U13.uk_clock]. unfold clock_pos. lia.
  - rewrite Ha. lia.
  - right. symmetry. exact Hch.
  - lia.
  - apply crel_init.
  - exists st12, outs, r'. split; [exact Ef|exact Em].
Qed.

(* the remuxer on the AvPackets of single NAL units (AVCC framing): the messages read back as the kept units *)
Lemma remux_reads_back (hevc : bool) rate (nals : list (N * bytes)) st st' msgs :
  Forall (fun tn => snd tn <> [] /\ lenN (snd tn) < 4294967296) nals -> rs_vfmt st = vfmt_avcc ->
  feed_all_av true st (map (to_av (vpt_of hevc)) (map (fun tn => (RtpUnpacker.rtp_ms rate (fst tn), RtpUnpacker.avcc (snd tn))) nals)) = Ok (st', msgs) ->
  RemuxAv2RtmpProofs.read_video_nals (RemuxAv2RtmpProofs.av_msgs msgs) = filter (RemuxAv2RtmpProofs.keep_nal hevc) (map snd nals).
Proof.
  intros Hn Hv E.
  set (l := map (fun tn : N * bytes => (to_av (vpt_of hevc) (RtpUnpacker.rtp_ms rate (fst tn), RtpUnpacker.avcc (snd tn)), [snd tn])) nals).
  assert (Hmap : map (to_av (vpt_of hevc)) (map (fun tn => (RtpUnpacker.rtp_ms rate (fst tn), RtpUnpacker.avcc (snd tn))) nals) = map fst l)
    by (subst l; rewrite !map_map; reflexivity).
  rewrite Hmap in E.
  rewrite (RemuxAv2RtmpProofs.video_track_nals hevc l st st' msgs); [|subst l|exact E].
  - subst l. rewrite map_map.
    rewrite (map_ext _ (fun x : N * bytes => filter (RemuxAv2RtmpProofs.keep_nal hevc) [snd x])) by reflexivity.
    clear. induction nals as [|tn t IH]; [reflexivity|]. cbn [map concat]. rewrite IH. cbn [filter app].
    destruct (RemuxAv2RtmpProofs.keep_nal hevc (snd tn)); reflexivity.
  - rewrite Hv. apply Forall_map. eapply Forall_impl; [|exact Hn]. intros tn [H1 H2].
    assert (Ha : CodecNalFramingProofs.avcc_ok (snd tn)) by (split; assumption).
    unfold RemuxAv2RtmpProofs.vpkt_ok. cbn [fst snd to_av NetUnpack.av_pt NetUnpack.av_payload].
    split; [destruct hevc; reflexivity|]. split.
    + change (vfmt_avcc =? vfmt_avcc) with true. cbv iota. apply RemuxRtspIngestProofs.avcc_single. exact Ha.
    + constructor; [exact Ha|constructor].
Qed.

Theorem rtsp_video_end_to_end V flt rot (hevc : bool) maxp vclock vpt ssrc s0 ts0 n0 pls0 (rest : list (N * bytes)) sched groups :
  (forall a, hv_ok (V a)) ->
  let c := codec_of hevc in
  let pr := RtpFrames.proto_of_codec c in
  let rate := Z.to_N vclock in
  RtpPacker.fu_hdr_size c < maxp -> (1000 <= vclock < 4294967296000)%Z -> 0 < vpt < 128 -> ssrc < 4294967296 ->
  RtpRoundtripProofs.nal_ok c n0 -> Forall (fun tn => RtpRoundtripProofs.nal_ok c (snd tn)) rest ->
  lenN n0 < 4294967296 -> Forall (fun tn => lenN (snd tn) < 4294967296) rest ->
  s0 < 65536 -> RtpPacker.pack_nal true c n0 maxp = Ok pls0 -> (length pls0 <= 1024)%nat ->
  let d := RtpSeqArith.seq_add s0 (lenN pls0 - 1) in
  let s := RtpRoundtripProofs.unit_stream pr (RtpSeqArith.seq_succ d) (map (RtpRoundtripProofs.video_unit c maxp rate) rest) in
  RtpReorderAbs.sched_ok 1024 (RtpStreamProofs.init_astate s) sched ->
  (forall i, (i < length (RtpStreamProofs.pkts s))%nat -> In i sched) ->
  let arrivals := map RtpStreamProofs.upkt_arrival (RtpFrames.mk_upkts pr s0 ts0 pls0)
                  ++ map (fun i => RtpStreamProofs.upkt_arrival (RtpStreamProofs.pkt_at s i)) sched in
  Forall arr_ok arrivals ->
  rtsp_ingest true flt rot S.c_none 0 0 None (vcodec_tok hevc) vclock (Z.of_N vpt) None None None
              (map (fun a => (2, raw_of V vpt ssrc a)) arrivals) = Ok groups ->
  RemuxAv2RtmpProofs.read_video_nals (RemuxAv2RtmpProofs.av_msgs (concat groups))
  = filter (RemuxAv2RtmpProofs.keep_nal hevc) (n0 :: map snd rest).
Proof.
  intros HV c pr rate Hh Hclk Hvpt Hss Hn0 Hrest Hl0 Hlrest Hs0 Hpack Hlen d s Hsched Hall arrivals Harr E.
  destruct (rtsp_video_ingest V true flt rot hevc vclock vpt ssrc arrivals groups HV Hclk Hvpt Hss Harr E) as (st12 & outs & r' & Ef & Em).
  assert (Hrate : RtpFrames.rate_ok rate) by (subst rate; unfold RtpFrames.rate_ok; lia).
  assert (Epr : pr_of (vkind hevc) = pr) by (subst pr c; destruct hevc; reflexivity).
  rewrite Epr in Ef. fold rate in Ef. subst pr.
  assert (Hd : d < 65536) by (subst d; unfold RtpSeqArith.seq_add, RtpSeqArith.seq_mod; apply N.mod_upper_bound; lia).
  (* what the C12 theorems say the container returns *)
  subst arrivals. rewrite RtpFreshProofs.feed_all_app in Ef.
  rewrite (C12.c12_pack_unpack_container c n0 maxp rate 1024 s0 ts0 pls0 Hh Hn0 Hrate Hs0 Hpack) in Ef by lia.
  fold d in Ef. change (RtpReorder.mk_cstate [] 0 true d) with (RtpStreamProofs.primed d) in Ef.
  pose proof (C12.c12_reorder_video c maxp rate 1024 d rest sched Hh Hrate Hd Hrest Hsched Hall) as Ereo.
  cbv zeta in Ereo. fold s in Ereo. rewrite Ereo in Ef. injection Ef as _ <-.
  change ((RtpUnpacker.rtp_ms rate ts0, RtpUnpacker.avcc n0) :: map (fun tn => (RtpUnpacker.rtp_ms rate (fst tn), RtpUnpacker.avcc (snd tn))) rest)
    with (map (fun tn : N * bytes => (RtpUnpacker.rtp_ms rate (fst tn), RtpUnpacker.avcc (snd tn))) ((ts0, n0) :: rest)) in Em.
  change (n0 :: map snd rest) with (map snd ((ts0, n0) :: rest)).
  apply (remux_reads_back hevc rate ((ts0, n0) :: rest) rs_new r' (concat groups)); [|reflexivity|exact Em].
  constructor.
  - cbn [snd]. split; [apply Hn0|exact Hl0].
  - rewrite Forall_forall in *. intros tn Hin. split; [apply (Hrest tn Hin)|apply (Hlrest tn Hin)].
Qed.

(* ---------------------------------------------------------------- an audio-only RTSP publisher *)
Definition akind (ac : N) : U13.ukind := if ac =? S.c_aac then U13.UAac else U13.URaw.
Definition apt_of (ac : N) : Z :=
  if ac =? S.c_aac then pt_aac else if ac =? S.c_pcma then pt_g711a else if ac =? S.c_pcmu then pt_g711u else pt_opus.

Theorem rtsp_audio_ingest V fx flt rot ac aclock apt ssrc asc arrivals groups :
  (forall a, hv_ok (V a)) -> (ac = S.c_aac -> forall a, hv_pad (V a) = None) ->
  (ac = S.c_aac /\ asc <> None) \/ (ac = S.c_pcma \/ ac = S.c_pcmu \/ ac = S.c_opus) ->
  (1000 <= aclock < 4294967296000)%Z -> apt < 128 -> ssrc < 4294967296 -> Forall arr_ok arrivals ->
  rtsp_ingest fx flt rot ac aclock (Z.of_N apt) asc S.c_none 0 0 None None None
              (map (fun a => (0, raw_of V apt ssrc a)) arrivals) = Ok groups ->
  exists r0 ms0 more st12 outs r',
    init_with_av_config rs_new asc None None None = Ok (r0, ms0) /\ groups = ms0 :: more /\
    C12.feed_all (pr_of (akind ac)) (Z.to_N aclock) 1024 C12.c_init arrivals = Ok (st12, outs) /\
    feed_all_av fx r0 (map (to_av (apt_of ac)) outs) = Ok (r', concat more).
Proof.
  intros HV HP Hac Hclk Hapt Hss Hok E. unfold rtsp_ingest in E.
  assert (Evid : video_unpackable S.c_none = false) by reflexivity. rewrite Evid, andb_false_r in E.
  destruct (init_with_av_config rs_new asc None None None) as [[r0 ms0]| |] eqn:Ei; cbn [bind] in E; try discriminate.
  assert (Eac : (ac =? S.c_aac) && negb (is_some asc) = false).
  { destruct Hac as [[-> Hasc]|Hac]; [destruct asc; [reflexivity|congruence]|]. destruct Hac as [->|[->| ->]]; reflexivity. }
  rewrite Eac in E.
  set (cfg := S.sess_cfg_of true ac aclock (Z.of_N apt) S.c_none 0 0) in E.
  set (u := U13.mk_unp (akind ac) (apt_of ac) aclock).
  assert (Hcfg : S.sc_aunp cfg = Some u /\ S.sc_apt cfg = Z.of_N apt /\ S.sc_artp cfg = 0).
  { subst cfg u.
    assert (Hgen : forall k p, (1000 <= aclock < 4294967296000)%Z -> S.mk_unpacker true k p aclock = Some (U13.mk_unp k p aclock))
      by (intros; apply mk_unpacker_video; assumption).
    destruct Hac as [[-> _]|[->|[->| ->]]].
    - split; [exact (Hgen U13.UAac 97%Z Hclk)|split; reflexivity].
    - split; [exact (Hgen U13.URaw 8%Z Hclk)|split; reflexivity].
    - split; [exact (Hgen U13.URaw 0%Z Hclk)|split; reflexivity].
    - split; [exact (Hgen U13.URaw 101%Z Hclk)|split; reflexivity]. }
  destruct Hcfg as (Hu & Ha & Hch).
  destruct (rtsp_run fx rot cfg S.sess_init None r0 _) as [more| |] eqn:Er; cbn [bind] in E; try discriminate.
  injection E as <-.
  destruct (audio_run fx rot cfg u 0 apt ssrc V) with (arrivals := arrivals) (s := S.sess_init) (c12 := C12.c_init) (r := r0) (groups := more)
    as (st12 & outs & r' & Ef & Em); try assumption.
  - intros a Et. apply HP. subst u. cbn [U13.uk_kind] in Et. unfold akind in Et.
    destruct (ac =? S.c_aac) eqn:Eq; [apply N.eqb_eq; exact Eq|discriminate Et].
  - subst u. cbn [U13.uk_clock]. unfold clock_pos. lia.
  - left. symmetry. exact Hch.
  - apply crel_init.
  - exists r0, ms0, more, st12, outs, r'. repeat split; assumption.
Qed.
