(* C07: one RTP track through the RTSP in-session model the harness exercises
   (Net/NetInSess.v handle_interleaved: header parsing, payload-type dispatch,
   unpack container) and the remuxer behind it (Remux/RemuxRtspIngest.v), related
   to the C12 container on which the reorder theorems are proved. *)
From Coq Require Import Lia ZifyN ZifyNat ZifyBool.
From Lal Require Import Common.LBytes Common.LBytesProofs Common.Res.
From Lal Require Import Remux.RemuxAv2Rtmp Remux.RemuxAvQueue Remux.RemuxRtspIngest Remux.RemuxUnpackSimProofs.
From Lal Require Net.NetChk Net.NetChkProofs Net.NetRtpHeader Net.NetRtcp Net.NetUnpack Net.NetInSess.
From Lal Require Rtp.RtpUnpacker Rtp.RtpReorder Remux.RemuxPsPesProofs.
Open Scope N_scope.
Ltac Zify.zify_post_hook ::= Z.div_mod_to_equations.

Module S := NetInSess.
Module H := NetRtpHeader.

(* ---------------------------------------------------------------- reference RTP writer (RFC 3550 5.1, no CSRC / extension / padding) *)
Definition rtp_raw (mark pt seq ts ssrc : N) (body : bytes) : bytes :=
  128 :: (mark * 128 + pt) :: be_put 2 seq ++ be_put 4 ts ++ be_put 4 ssrc ++ body.

(* one arrival of the C12 container (seq, ts, payload) as a packet on the wire *)
Definition raw_of (pt ssrc : N) (a : N * N * bytes) : bytes := rtp_raw 0 pt (fst (fst a)) (snd (fst a)) ssrc (snd a).

Definition arr_ok (a : N * N * bytes) : Prop :=
  fst (fst a) < 65536 /\ snd (fst a) < 4294967296 /\ snd a <> [] /\ bytes_ok (snd a) /\ lenN (snd a) < 65536.

Lemma lenN_raw mark pt seq ts ssrc body : lenN (rtp_raw mark pt seq ts ssrc body) = 12 + lenN body.
Proof. unfold rtp_raw. cbn [be_put app]. rewrite !NetChkProofs.lenN_cons. lia. Qed.

Lemma bbe_at n b off : off + n <= lenN b ->
  H.bbe n b off = Ok (be_get (firstn (N.to_nat n) (skipn (N.to_nat off) b))).
Proof.
  intros Hl. unfold H.bbe, NetChk.be_at.
  assert (lenN b <? off = false) as -> by (apply N.ltb_ge; lia).
  assert (lenN b <? off + n = false) as -> by (apply N.ltb_ge; lia). reflexivity.
Qed.

Lemma parse_raw mark pt seq ts ssrc body :
  mark < 2 -> pt < 128 -> seq < 65536 -> ts < 4294967296 -> ssrc < 4294967296 -> body <> [] ->
  exists h, H.parse_rtp_header true (rtp_raw mark pt seq ts ssrc body) = Ok h /\
            H.rh_seq h = seq /\ H.rh_ts h = ts /\ H.rh_pt h = pt /\
            H.rtp_body (rtp_raw mark pt seq ts ssrc body) h = Ok (body, []).
Proof.
  intros Hm Hpt Hseq Hts Hss Hbody. set (raw := rtp_raw mark pt seq ts ssrc body).
  assert (Hlen : lenN raw = 12 + lenN body) by apply lenN_raw.
  assert (Hb1 : 1 <= lenN body) by (destruct body; [congruence|rewrite NetChkProofs.lenN_cons; lia]).
  unfold H.parse_rtp_header. cbv zeta.
  assert (lenN raw <? 12 = false) as -> by (apply N.ltb_ge; lia).
  unfold H.bidx. rewrite (RemuxPsPesProofs.idx_nth _ raw 0 128) by reflexivity. cbn [bind].
  rewrite (RemuxPsPesProofs.idx_nth _ raw 1 (mark * 128 + pt)) by reflexivity. cbn [bind].
  rewrite (bbe_at 2 raw 2) by lia. rewrite (bbe_at 4 raw 4) by lia. rewrite (bbe_at 4 raw 8) by lia. cbn [bind].
  change (128 mod 16) with 0. change ((128 / 16) mod 2) with 0. change ((128 / 32) mod 2) with 0.
  change (N.to_nat 0) with 0%nat. cbn [H.parse_csrc rev bind]. change (0 =? 0) with true. cbv iota. cbn [bind].
  assert (lenN raw <=? 12 = false) as -> by (apply N.leb_gt; lia).
  change (0 =? 1) with false. cbv iota. cbn [bind andb].
  eexists. split; [reflexivity|]. cbn [H.rh_seq H.rh_ts H.rh_pt].
  assert (E2 : firstn (N.to_nat 2) (skipn (N.to_nat 2) raw) = be_put 2 seq) by reflexivity.
  assert (E4 : firstn (N.to_nat 4) (skipn (N.to_nat 4) raw) = be_put 4 ts) by reflexivity.
  rewrite E2, E4. rewrite !be_get_put_small by (cbn; lia).
  split; [reflexivity|]. split; [reflexivity|]. split; [lia|].
  unfold H.rtp_body. cbn [H.rh_payload_offset H.rh_padding H.rh_padding_len]. change (12 =? 0) with false. change (0 =? 1) with false. cbv iota.
  assert (12 <=? lenN raw = true) as -> by (apply N.leb_le; lia). reflexivity.
Qed.

(* ---------------------------------------------------------------- one packet through handleRtpPacket *)
Definition set_vcont (s : S.sess) (ssrc : N) (seq : N) (c : U13.ucont) : S.sess :=
  S.mk_sess (S.ss_assrc s) ssrc (S.ss_arr s) (NetRtcp.rrp_feed (S.ss_vrr s) seq) (S.ss_acont s) c.
Definition set_acont (s : S.sess) (ssrc : N) (seq : N) (c : U13.ucont) : S.sess :=
  S.mk_sess ssrc (S.ss_vssrc s) (NetRtcp.rrp_feed (S.ss_arr s) seq) (S.ss_vrr s) c (S.ss_vcont s).

Lemma idx1_raw mark pt seq ts ssrc body :
  NetChk.idx NetChk.s_rtphdr_index (rtp_raw mark pt seq ts ssrc body) 1 = Ok (mark * 128 + pt).
Proof. apply RemuxPsPesProofs.idx_nth. reflexivity. Qed.

(* a packet of the video track *)
Lemma handle_video cfg s u ch pt ssrc a :
  S.sc_vunp cfg = Some u -> S.sc_vpt cfg = Z.of_N pt -> S.sc_apt cfg <> Z.of_N pt ->
  (ch = S.sc_artp cfg \/ ch = S.sc_vrtp cfg) -> pt < 128 -> ssrc < 4294967296 -> arr_ok a ->
  exists h, H.rh_seq h = fst (fst a) /\ H.rh_ts h = snd (fst a) /\ H.rtp_body (raw_of pt ssrc a) h = Ok (snd a, []) /\
    S.handle_interleaved true cfg s ch (raw_of pt ssrc a) =
    let* (c, avs) := U13.cont_feed true u S.unpacker_max_size (S.ss_vcont s) h (raw_of pt ssrc a) in
    Ok (set_vcont s (H.rh_ssrc h) (H.rh_seq h) c, S.EvRtp (H.rh_seq h) :: map S.EvAv avs).
Proof.
  intros Hu Hv Ha Hch Hpt Hss (Hseq & Hts & Hne & _ & Hlen). destruct a as [[seq ts] body]. cbn [fst snd] in *.
  destruct (parse_raw 0 pt seq ts ssrc body) as (h & Ep & E1 & E2 & E3 & E4); try assumption; [lia|].
  exists h. split; [exact E1|]. split; [exact E2|]. split; [exact E4|].
  unfold S.handle_interleaved.
  assert ((ch =? S.sc_artp cfg) || (ch =? S.sc_vrtp cfg) = true) as ->.
  { apply orb_true_iff. destruct Hch as [->| ->]; [left|right]; apply N.eqb_refl. }
  unfold S.handle_rtp, raw_of. cbn [fst snd].
  assert (lenN (rtp_raw 0 pt seq ts ssrc body) <? 12 = false) as -> by (apply N.ltb_ge; rewrite lenN_raw; lia).
  rewrite idx1_raw. cbn [bind]. replace ((0 * 128 + pt) mod 128) with pt by lia.
  assert ((S.sc_apt cfg =? Z.of_N pt)%Z = false) as -> by (apply Z.eqb_neq; exact Ha).
  assert ((S.sc_vpt cfg =? Z.of_N pt)%Z = true) as -> by (apply Z.eqb_eq; exact Hv).
  cbn [orb negb]. rewrite Ep, Hu. cbn [S.feed_opt]. reflexivity.
Qed.

(* a packet of the audio track *)
Lemma handle_audio cfg s u ch pt ssrc a :
  S.sc_aunp cfg = Some u -> S.sc_apt cfg = Z.of_N pt ->
  (ch = S.sc_artp cfg \/ ch = S.sc_vrtp cfg) -> pt < 128 -> ssrc < 4294967296 -> arr_ok a ->
  exists h, H.rh_seq h = fst (fst a) /\ H.rh_ts h = snd (fst a) /\ H.rtp_body (raw_of pt ssrc a) h = Ok (snd a, []) /\
    S.handle_interleaved true cfg s ch (raw_of pt ssrc a) =
    let* (c, avs) := U13.cont_feed true u S.unpacker_max_size (S.ss_acont s) h (raw_of pt ssrc a) in
    Ok (set_acont s (H.rh_ssrc h) (H.rh_seq h) c, S.EvRtp (H.rh_seq h) :: map S.EvAv avs).
Proof.
  intros Hu Ha Hch Hpt Hss (Hseq & Hts & Hne & _ & Hlen). destruct a as [[seq ts] body]. cbn [fst snd] in *.
  destruct (parse_raw 0 pt seq ts ssrc body) as (h & Ep & E1 & E2 & E3 & E4); try assumption; [lia|].
  exists h. split; [exact E1|]. split; [exact E2|]. split; [exact E4|].
  unfold S.handle_interleaved.
  assert ((ch =? S.sc_artp cfg) || (ch =? S.sc_vrtp cfg) = true) as ->.
  { apply orb_true_iff. destruct Hch as [->| ->]; [left|right]; apply N.eqb_refl. }
  unfold S.handle_rtp, raw_of. cbn [fst snd].
  assert (lenN (rtp_raw 0 pt seq ts ssrc body) <? 12 = false) as -> by (apply N.ltb_ge; rewrite lenN_raw; lia).
  rewrite idx1_raw. cbn [bind]. replace ((0 * 128 + pt) mod 128) with pt by lia.
  assert ((S.sc_apt cfg =? Z.of_N pt)%Z = true) as -> by (apply Z.eqb_eq; exact Ha).
  cbn [orb negb]. rewrite Ep, Hu. cbn [S.feed_opt]. reflexivity.
Qed.

(* ---------------------------------------------------------------- remuxer over lists *)
Lemma feed_all_av_app fx : forall a b r,
  feed_all_av fx r (a ++ b) =
  let* (r1, m1) := feed_all_av fx r a in let* (r2, m2) := feed_all_av fx r1 b in Ok (r2, m1 ++ m2).
Proof.
  induction a as [|p t IH]; intros b r; cbn [app feed_all_av bind].
  - destruct (feed_all_av fx r b) as [[r2 m2]| |]; reflexivity.
  - destruct (feed_av_packet fx r p) as [[r1 m1]| |]; cbn [bind]; try reflexivity.
    rewrite IH. destruct (feed_all_av fx r1 t) as [[r2 m2]| |]; cbn [bind]; try reflexivity.
    destruct (feed_all_av fx r2 b) as [[r3 m3]| |]; cbn [bind]; try reflexivity. rewrite app_assoc. reflexivity.
Qed.

(* without the interleave queue every AvPacket goes straight to the remuxer *)
Lemma deliver_none fx rot : forall avs r seq,
  deliver_evs fx rot None r (S.EvRtp seq :: map S.EvAv avs) =
  let* (r1, ms) := feed_all_av fx r avs in Ok (None, r1, ms).
Proof.
  intros avs r seq. cbn [deliver_evs]. revert r. induction avs as [|a t IH]; intros r; cbn [map deliver_evs feed_all_av bind]; [reflexivity|].
  unfold deliver. destruct (feed_av_packet fx r a) as [[r1 m1]| |]; cbn [bind]; try reflexivity.
  rewrite IH. destruct (feed_all_av fx r1 t) as [[r2 m2]| |]; reflexivity.
Qed.

(* ---------------------------------------------------------------- a single track, no interleave queue *)
Section SingleVideo.
Variables (fx rot : bool) (cfg : S.sess_cfg) (u : U13.unpacker) (ch pt ssrc : N).
Hypothesis Hclock : clock_pos (U13.uk_clock u).
Hypothesis Hu : S.sc_vunp cfg = Some u.
Hypothesis Hv : S.sc_vpt cfg = Z.of_N pt.
Hypothesis Ha : S.sc_apt cfg <> Z.of_N pt.
Hypothesis Hch : ch = S.sc_artp cfg \/ ch = S.sc_vrtp cfg.
Hypothesis Hpt : pt < 128.
Hypothesis Hss : ssrc < 4294967296.

Lemma video_run : forall arrivals s c12 r groups, crel (S.ss_vcont s) c12 -> Forall arr_ok arrivals ->
  rtsp_run fx rot cfg s None r (map (fun a => (ch, raw_of pt ssrc a)) arrivals) = Ok groups ->
  exists st12 outs r',
    C12.feed_all (pr_of (U13.uk_kind u)) (Z.to_N (U13.uk_clock u)) S.unpacker_max_size c12 arrivals = Ok (st12, outs) /\
    feed_all_av fx r (map (to_av (U13.uk_pt u)) outs) = Ok (r', concat groups).
Proof.
  induction arrivals as [|a t IH]; intros s c12 r groups Hr Hok E; cbn [map rtsp_run] in E.
  - injection E as <-. exists c12, [], r. split; reflexivity.
  - apply Forall_cons_iff in Hok as [Hak Hokt].
    destruct (handle_video cfg s u ch pt ssrc a Hu Hv Ha Hch Hpt Hss Hak) as (h & Hseq & Hts & Hbody & Eh). rewrite Eh in E. clear Eh.
    pose proof Hak as (_ & _ & _ & Hbytes & Hlen).
    pose proof (feed_sim u Hclock S.unpacker_max_size (S.ss_vcont s) c12 h (raw_of pt ssrc a) (snd a) Hr Hbody Hbytes Hlen) as Hf.
    destruct (U13.cont_feed true u S.unpacker_max_size (S.ss_vcont s) h (raw_of pt ssrc a)) as [[c' avs]| |]; cbn [bind] in E; try discriminate.
    destruct Hf as (st1 & o1 & Ef & Hr1 & ->). rewrite Hseq, Hts in Ef.
    rewrite deliver_none in E.
    destruct (feed_all_av fx r (map (to_av (U13.uk_pt u)) o1)) as [[r1 m1]| |] eqn:Em; cbn [bind] in E; try discriminate.
    destruct (rtsp_run fx rot cfg _ None r1 _) as [more| |] eqn:Er; cbn [bind] in E; try discriminate.
    injection E as <-.
    destruct (IH (set_vcont s (H.rh_ssrc h) (H.rh_seq h) c') st1 r1 more Hr1 Hokt Er) as (st12 & outs & r' & Ef2 & Em2).
    exists st12, (o1 ++ outs), r'. split.
    + destruct a as [[seq ts] body]. cbn [C12.feed_all fst snd] in *. rewrite Ef. cbn [bind]. rewrite Ef2. reflexivity.
    + rewrite map_app, feed_all_av_app, Em. cbn [bind]. rewrite Em2. reflexivity.
Qed.
End SingleVideo.

Section SingleAudio.
Variables (fx rot : bool) (cfg : S.sess_cfg) (u : U13.unpacker) (ch pt ssrc : N).
Hypothesis Hclock : clock_pos (U13.uk_clock u).
Hypothesis Hu : S.sc_aunp cfg = Some u.
Hypothesis Ha : S.sc_apt cfg = Z.of_N pt.
Hypothesis Hch : ch = S.sc_artp cfg \/ ch = S.sc_vrtp cfg.
Hypothesis Hpt : pt < 128.
Hypothesis Hss : ssrc < 4294967296.

Lemma audio_run : forall arrivals s c12 r groups, crel (S.ss_acont s) c12 -> Forall arr_ok arrivals ->
  rtsp_run fx rot cfg s None r (map (fun a => (ch, raw_of pt ssrc a)) arrivals) = Ok groups ->
  exists st12 outs r',
    C12.feed_all (pr_of (U13.uk_kind u)) (Z.to_N (U13.uk_clock u)) S.unpacker_max_size c12 arrivals = Ok (st12, outs) /\
    feed_all_av fx r (map (to_av (U13.uk_pt u)) outs) = Ok (r', concat groups).
Proof.
  induction arrivals as [|a t IH]; intros s c12 r groups Hr Hok E; cbn [map rtsp_run] in E.
  - injection E as <-. exists c12, [], r. split; reflexivity.
  - apply Forall_cons_iff in Hok as [Hak Hokt].
    destruct (handle_audio cfg s u ch pt ssrc a Hu Ha Hch Hpt Hss Hak) as (h & Hseq & Hts & Hbody & Eh). rewrite Eh in E. clear Eh.
    pose proof Hak as (_ & _ & _ & Hbytes & Hlen).
    pose proof (feed_sim u Hclock S.unpacker_max_size (S.ss_acont s) c12 h (raw_of pt ssrc a) (snd a) Hr Hbody Hbytes Hlen) as Hf.
    destruct (U13.cont_feed true u S.unpacker_max_size (S.ss_acont s) h (raw_of pt ssrc a)) as [[c' avs]| |]; cbn [bind] in E; try discriminate.
    destruct Hf as (st1 & o1 & Ef & Hr1 & ->). rewrite Hseq, Hts in Ef.
    rewrite deliver_none in E.
    destruct (feed_all_av fx r (map (to_av (U13.uk_pt u)) o1)) as [[r1 m1]| |] eqn:Em; cbn [bind] in E; try discriminate.
    destruct (rtsp_run fx rot cfg _ None r1 _) as [more| |] eqn:Er; cbn [bind] in E; try discriminate.
    injection E as <-.
    destruct (IH (set_acont s (H.rh_ssrc h) (H.rh_seq h) c') st1 r1 more Hr1 Hokt Er) as (st12 & outs & r' & Ef2 & Em2).
    exists st12, (o1 ++ outs), r'. split.
    + destruct a as [[seq ts] body]. cbn [C12.feed_all fst snd] in *. rewrite Ef. cbn [bind]. rewrite Ef2. reflexivity.
    + rewrite map_app, feed_all_av_app, Em. cbn [bind]. rewrite Em2. reflexivity.
Qed.
End SingleAudio.

(* ---------------------------------------------------------------- a video-only RTSP publisher, session as created *)
From Lal Require Rtp.RtpPacker Rtp.RtpFrames Rtp.RtpReorderAbs Rtp.RtpStreamProofs Rtp.RtpRoundtripProofs Rtp.RtpFreshProofs.
From Lal Require Properties.C12 Codec.CodecNalFraming Codec.CodecNalFramingProofs Remux.RemuxAv2RtmpProofs Remux.RemuxRtspIngestProofs.

Lemma int64_of_id z : (0 <= z < 9223372036854775808)%Z -> S.int64_of z = z.
Proof. intros H. unfold S.int64_of. lia. Qed.

Lemma mk_unpacker_video k pt vclock : (1000 <= vclock < 4294967296000)%Z ->
  S.mk_unpacker true k pt vclock = Some (U13.mk_unp k pt vclock).
Proof.
  intros H. unfold S.mk_unpacker. rewrite int64_of_id by lia. cbn [andb].
  assert (NetChk.w32 (Z.quot vclock 1000) =? 0 = false) as ->; [|reflexivity].
  apply N.eqb_neq. unfold NetChk.w32. rewrite Z.quot_div_nonneg by lia. rewrite Z.mod_small by lia. lia.
Qed.

Definition vkind (hevc : bool) : U13.ukind := if hevc then U13.UHevc else U13.UAvc.
Definition vcodec_tok (hevc : bool) : N := if hevc then S.c_h265 else S.c_h264.
Definition vpt_of (hevc : bool) : Z := if hevc then pt_hevc else pt_avc.

(* the in-session model on the packets of one video track = the C12 container on the same arrivals, then the remuxer *)
Theorem rtsp_video_ingest fx filter rot (hevc : bool) vclock vpt ssrc arrivals groups :
  (1000 <= vclock < 4294967296000)%Z -> 0 < vpt < 128 -> ssrc < 4294967296 -> Forall arr_ok arrivals ->
  rtsp_ingest fx filter rot S.c_none 0 0 None (vcodec_tok hevc) vclock (Z.of_N vpt) None None None
              (map (fun a => (2, raw_of vpt ssrc a)) arrivals) = Ok groups ->
  exists st12 outs r',
    C12.feed_all (pr_of (vkind hevc)) (Z.to_N vclock) 1024 C12.c_init arrivals = Ok (st12, outs) /\
    feed_all_av fx rs_new (map (to_av (vpt_of hevc)) outs) = Ok (r', concat groups).
Proof.
  intros Hclk Hvpt Hss Hok E. unfold rtsp_ingest in E.
  assert (Eaud : audio_unpackable S.c_none None = false) by reflexivity.
  rewrite Eaud, andb_false_r in E. cbn [andb] in E.
  change (init_with_av_config rs_new None None None None) with (@Ok (rstate * list rmsg) (rs_new, [])) in E. cbn [bind] in E.
  set (cfg := S.sess_cfg_of true _ 0 0 (vcodec_tok hevc) vclock (Z.of_N vpt)) in E.
  set (u := U13.mk_unp (vkind hevc) (vpt_of hevc) vclock).
  assert (Hu : S.sc_vunp cfg = Some u).
  { subst cfg u. unfold S.sess_cfg_of. destruct hevc; cbn [vcodec_tok vkind vpt_of];
      change (S.c_none =? S.c_none) with true; cbv iota; cbn [S.sc_vunp];
      [change (S.c_h265 =? S.c_none) with false; change (S.c_h265 =? S.c_h264) with false; change (S.c_h265 =? S.c_h265) with true
      |change (S.c_h264 =? S.c_none) with false; change (S.c_h264 =? S.c_h264) with true];
      cbv iota; cbn [S.sc_vunp]; apply mk_unpacker_video; exact Hclk. }
  assert (Hcfg : S.sc_vpt cfg = Z.of_N vpt /\ S.sc_apt cfg = 0%Z /\ S.sc_vrtp cfg = 2).
  { subst cfg. unfold S.sess_cfg_of. destruct hevc; cbn [vcodec_tok]; vm_compute; repeat split. }
  destruct Hcfg as (Hv & Ha & Hch).
  destruct (rtsp_run fx rot cfg S.sess_init None rs_new _) as [more| |] eqn:Er; cbn [bind] in E; try discriminate.
  injection E as <-.
  destruct (video_run fx rot cfg u 2 vpt ssrc) with (arrivals := arrivals) (s := S.sess_init) (c12 := C12.c_init) (r := rs_new) (groups := more)
    as (st12 & outs & r' & Ef & Em); try assumption.
  - subst u. cbn [U13.uk_clock]. unfold clock_pos. lia.
  - rewrite Ha. lia.
  - right. symmetry. exact Hch.
  - lia.
  - apply crel_init.
  - exists st12, outs, r'. split; [exact Ef|exact Em].
Qed.

(* the remuxer on the AvPackets of single NAL units (AVCC framing): the messages read back as the kept units *)
Lemma remux_reads_back (hevc : bool) rate (nals : list (N * bytes)) st st' msgs :
  Forall (fun tn => snd tn <> [] /\ lenN (snd tn) < 4294967296) nals -> rs_vfmt st = vfmt_avcc ->
  feed_all_av true st (map (to_av (vpt_of hevc)) (map (fun tn => (RtpUnpacker.rtp_ms rate (fst tn), RtpUnpacker.avcc (snd tn))) nals)) = Ok (st', msgs) ->
  RemuxAv2RtmpProofs.read_video_nals (RemuxAv2RtmpProofs.av_msgs msgs) = filter (RemuxAv2RtmpProofs.keep_nal hevc) (map snd nals).
Proof.
  intros Hn Hv E.
  set (l := map (fun tn : N * bytes => (to_av (vpt_of hevc) (RtpUnpacker.rtp_ms rate (fst tn), RtpUnpacker.avcc (snd tn)), [snd tn])) nals).
  assert (Hmap : map (to_av (vpt_of hevc)) (map (fun tn => (RtpUnpacker.rtp_ms rate (fst tn), RtpUnpacker.avcc (snd tn))) nals) = map fst l)
    by (subst l; rewrite !map_map; reflexivity).
  rewrite Hmap in E.
  rewrite (RemuxAv2RtmpProofs.video_track_nals hevc l st st' msgs); [|subst l|exact E].
  - subst l. rewrite map_map.
    rewrite (map_ext _ (fun x : N * bytes => filter (RemuxAv2RtmpProofs.keep_nal hevc) [snd x])) by reflexivity.
    clear. induction nals as [|tn t IH]; [reflexivity|]. cbn [map concat]. rewrite IH. cbn [filter app].
    destruct (RemuxAv2RtmpProofs.keep_nal hevc (snd tn)); reflexivity.
  - rewrite Hv. apply Forall_map. eapply Forall_impl; [|exact Hn]. intros tn [H1 H2].
    assert (Ha : CodecNalFramingProofs.avcc_ok (snd tn)) by (split; assumption).
    unfold RemuxAv2RtmpProofs.vpkt_ok. cbn [fst snd to_av NetUnpack.av_pt NetUnpack.av_payload].
    split; [destruct hevc; reflexivity|]. split.
    + change (vfmt_avcc =? vfmt_avcc) with true. cbv iota. apply RemuxRtspIngestProofs.avcc_single. exact Ha.
    + constructor; [exact Ha|constructor].
Qed.

Theorem rtsp_video_end_to_end flt rot (hevc : bool) maxp vclock vpt ssrc s0 ts0 n0 pls0 (rest : list (N * bytes)) sched groups :
  let c := codec_of hevc in
  let pr := RtpFrames.proto_of_codec c in
  let rate := Z.to_N vclock in
  RtpPacker.fu_hdr_size c < maxp -> (1000 <= vclock < 4294967296000)%Z -> 0 < vpt < 128 -> ssrc < 4294967296 ->
  RtpRoundtripProofs.nal_ok c n0 -> Forall (fun tn => RtpRoundtripProofs.nal_ok c (snd tn)) rest ->
  lenN n0 < 4294967296 -> Forall (fun tn => lenN (snd tn) < 4294967296) rest ->
  s0 < 65536 -> RtpPacker.pack_nal true c n0 maxp = Ok pls0 -> (length pls0 <= 1024)%nat ->
  let d := RtpSeqArith.seq_add s0 (lenN pls0 - 1) in
  let s := RtpRoundtripProofs.unit_stream pr (RtpSeqArith.seq_succ d) (map (RtpRoundtripProofs.video_unit c maxp rate) rest) in
  RtpReorderAbs.sched_ok 1024 (RtpStreamProofs.init_astate s) sched ->
  (forall i, (i < length (RtpStreamProofs.pkts s))%nat -> In i sched) ->
  let arrivals := map RtpStreamProofs.upkt_arrival (RtpFrames.mk_upkts pr s0 ts0 pls0)
                  ++ map (fun i => RtpStreamProofs.upkt_arrival (RtpStreamProofs.pkt_at s i)) sched in
  Forall arr_ok arrivals ->
  rtsp_ingest true flt rot S.c_none 0 0 None (vcodec_tok hevc) vclock (Z.of_N vpt) None None None
              (map (fun a => (2, raw_of vpt ssrc a)) arrivals) = Ok groups ->
  RemuxAv2RtmpProofs.read_video_nals (RemuxAv2RtmpProofs.av_msgs (concat groups))
  = filter (RemuxAv2RtmpProofs.keep_nal hevc) (n0 :: map snd rest).
Proof.
  intros c pr rate Hh Hclk Hvpt Hss Hn0 Hrest Hl0 Hlrest Hs0 Hpack Hlen d s Hsched Hall arrivals Harr E.
  destruct (rtsp_video_ingest true flt rot hevc vclock vpt ssrc arrivals groups Hclk Hvpt Hss Harr E) as (st12 & outs & r' & Ef & Em).
  assert (Hrate : RtpFrames.rate_ok rate) by (subst rate; unfold RtpFrames.rate_ok; lia).
  assert (Epr : pr_of (vkind hevc) = pr) by (subst pr c; destruct hevc; reflexivity).
  rewrite Epr in Ef. fold rate in Ef. subst pr.
  assert (Hd : d < 65536) by (subst d; unfold RtpSeqArith.seq_add, RtpSeqArith.seq_mod; apply N.mod_upper_bound; lia).
  (* what the C12 theorems say the container returns *)
  subst arrivals. rewrite RtpFreshProofs.feed_all_app in Ef.
  rewrite (C12.c12_pack_unpack_container c n0 maxp rate 1024 s0 ts0 pls0 Hh Hn0 Hrate Hs0 Hpack) in Ef by lia.
  fold d in Ef. change (RtpReorder.mk_cstate [] 0 true d) with (RtpStreamProofs.primed d) in Ef.
  pose proof (C12.c12_reorder_video c maxp rate 1024 d rest sched Hh Hrate Hd Hrest Hsched Hall) as Ereo.
  cbv zeta in Ereo. fold s in Ereo. rewrite Ereo in Ef. injection Ef as _ <-.
  change ((RtpUnpacker.rtp_ms rate ts0, RtpUnpacker.avcc n0) :: map (fun tn => (RtpUnpacker.rtp_ms rate (fst tn), RtpUnpacker.avcc (snd tn))) rest)
    with (map (fun tn : N * bytes => (RtpUnpacker.rtp_ms rate (fst tn), RtpUnpacker.avcc (snd tn))) ((ts0, n0) :: rest)) in Em.
  change (n0 :: map snd rest) with (map snd ((ts0, n0) :: rest)).
  apply (remux_reads_back hevc rate ((ts0, n0) :: rest) rs_new r' (concat groups)); [|reflexivity|exact Em].
  constructor.
  - cbn [snd]. split; [apply Hn0|exact Hl0].
  - rewrite Forall_forall in *. intros tn Hin. split; [apply (Hrest tn Hin)|apply (Hlrest tn Hin)].
Qed.

(* ---------------------------------------------------------------- an audio-only RTSP publisher *)
Definition akind (ac : N) : U13.ukind := if ac =? S.c_aac then U13.UAac else U13.URaw.
Definition apt_of (ac : N) : Z :=
  if ac =? S.c_aac then pt_aac else if ac =? S.c_pcma then pt_g711a else if ac =? S.c_pcmu then pt_g711u else pt_opus.

Theorem rtsp_audio_ingest fx flt rot ac aclock apt ssrc asc arrivals groups :
  (ac = S.c_aac /\ asc <> None) \/ (ac = S.c_pcma \/ ac = S.c_pcmu \/ ac = S.c_opus) ->
  (1000 <= aclock < 4294967296000)%Z -> apt < 128 -> ssrc < 4294967296 -> Forall arr_ok arrivals ->
  rtsp_ingest fx flt rot ac aclock (Z.of_N apt) asc S.c_none 0 0 None None None
              (map (fun a => (0, raw_of apt ssrc a)) arrivals) = Ok groups ->
  exists r0 ms0 more st12 outs r',
    init_with_av_config rs_new asc None None None = Ok (r0, ms0) /\ groups = ms0 :: more /\
    C12.feed_all (pr_of (akind ac)) (Z.to_N aclock) 1024 C12.c_init arrivals = Ok (st12, outs) /\
    feed_all_av fx r0 (map (to_av (apt_of ac)) outs) = Ok (r', concat more).
Proof.
  intros Hac Hclk Hapt Hss Hok E. unfold rtsp_ingest in E.
  assert (Evid : video_unpackable S.c_none = false) by reflexivity. rewrite Evid, andb_false_r in E.
  destruct (init_with_av_config rs_new asc None None None) as [[r0 ms0]| |] eqn:Ei; cbn [bind] in E; try discriminate.
  assert (Eac : (ac =? S.c_aac) && negb (is_some asc) = false).
  { destruct Hac as [[-> Hasc]|Hac]; [destruct asc; [reflexivity|congruence]|]. destruct Hac as [->|[->| ->]]; reflexivity. }
  rewrite Eac in E.
  set (cfg := S.sess_cfg_of true ac aclock (Z.of_N apt) S.c_none 0 0) in E.
  set (u := U13.mk_unp (akind ac) (apt_of ac) aclock).
  assert (Hcfg : S.sc_aunp cfg = Some u /\ S.sc_apt cfg = Z.of_N apt /\ S.sc_artp cfg = 0).
  { subst cfg u.
    assert (Hgen : forall k p, (1000 <= aclock < 4294967296000)%Z -> S.mk_unpacker true k p aclock = Some (U13.mk_unp k p aclock))
      by (intros; apply mk_unpacker_video; assumption).
    destruct Hac as [[-> _]|[->|[->| ->]]].
    - split; [exact (Hgen U13.UAac 97%Z Hclk)|split; reflexivity].
    - split; [exact (Hgen U13.URaw 8%Z Hclk)|split; reflexivity].
    - split; [exact (Hgen U13.URaw 0%Z Hclk)|split; reflexivity].
    - split; [exact (Hgen U13.URaw 101%Z Hclk)|split; reflexivity]. }
  destruct Hcfg as (Hu & Ha & Hch).
  destruct (rtsp_run fx rot cfg S.sess_init None r0 _) as [more| |] eqn:Er; cbn [bind] in E; try discriminate.
  injection E as <-.
  destruct (audio_run fx rot cfg u 0 apt ssrc) with (arrivals := arrivals) (s := S.sess_init) (c12 := C12.c_init) (r := r0) (groups := more)
    as (st12 & outs & r' & Ef & Em); try assumption.
  - subst u. cbn [U13.uk_clock]. unfold clock_pos. lia.
  - left. symmetry. exact Hch.
  - apply crel_init.
  - exists r0, ms0, more, st12, outs, r'. repeat split; assumption.
Qed.
