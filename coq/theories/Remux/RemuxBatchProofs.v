(* C06, stream level (2): AAC batching.  Whatever the cadence of audio and
   video messages and whenever FlushAudio is called (150 ms / 300 ms rules,
   fragment open, Dispose), the audio PES payloads emitted so far followed by
   the cache are the published AAC frames, each behind the ADTS header of the
   AudioSpecificConfig in force, in order, each once; every PES holds whole
   frames and is stamped with the time of its first frame. *)
From Coq Require Import Lia ZifyN ZifyNat ZifyBool.
From Lal Require Import Common.LBytes Common.LBytesProofs Common.Res Group.GroupMsg Codec.CodecBits Codec.CodecAac
  Codec.CodecAacProofs Codec.CodecAvcSeqHeader Codec.CodecHevcSeqHeader Codec.CodecNalFraming Rtp.RtpPacker
  Mpegts.TsPack Remux.RemuxTsTimestamp Remux.RemuxRtmp2Ts Remux.RemuxTsFilter Remux.RemuxStepProofs
  Remux.RemuxChainProofs.
Open Scope N_scope.
Ltac Zify.zify_post_hook ::= Z.div_mod_to_equations.

(* a published AAC frame: the context of the sequence header in force, the raw
   frame, the message time stamp *)
Definition aframe := (asc_ctx * bytes * N)%type.
Definition af_ctx (x : aframe) : asc_ctx := fst (fst x).
Definition af_raw (x : aframe) : bytes := snd (fst x).
Definition af_ts (x : aframe) : N := snd x.

(* the AAC frames of a message sequence (what a consumer is entitled to):
   sequence headers set the context, raw frames before the first usable
   header do not count *)
Definition aac_step (st : option asc_ctx * list aframe) (m : rmsg) : option asc_ctx * list aframe :=
  if (rm_type m =? type_audio) && (2 <? lenN (rm_payload m)) && (audio_codec_id m =? sound_aac) then
    if pb m 1 =? 0 then (res_to_opt (asc_unpack (skipn 2 (rm_payload m))), snd st)
    else match fst st with
         | Some a => (fst st, snd st ++ [(a, skipn 2 (rm_payload m), rm_ts m)])
         | None => st
         end
  else st.
Definition aac_walk (ms : list rmsg) : option asc_ctx * list aframe := fold_left aac_step ms (None, []).

Definition render1 (x : aframe) : bytes := adts_pack (af_ctx x) (lenN (af_raw x)) ++ af_raw x.
Definition render (g : list aframe) : bytes := concat (map render1 g).
Definition group_dts (g : list aframe) : N := match g with x :: _ => u64 (af_ts x * 90) | [] => 0 end.

Definition audio_evs (evs : list tsev) : list tsev := filter is_audio_ev evs.

Definition batched (s : r2t) (evs : list tsev) (ms : list rmsg) : Prop :=
  exists groups g,
    snd (aac_walk ms) = concat groups ++ g
    /\ map (fun e => f_raw (te_frame e)) (audio_evs evs) = map render groups
    /\ map te_dts0 (audio_evs evs) = map group_dts groups
    /\ Forall (fun x => x <> []) groups
    /\ r_acache s = render g
    /\ (g <> [] -> r_afirst s = group_dts g)
    /\ r_asc s = fst (aac_walk ms).

(* no Opus in the stream (Opus goes through the same cache, one frame per PES) and message sizes fit MsgLen *)
Definition aac_only (m : rmsg) : Prop :=
  (rm_type m = type_audio -> audio_codec_id m <> sound_opus) /\ lenN (rm_payload m) < 4294967296.

Lemma render_app a b : render (a ++ b) = render a ++ render b.
Proof. unfold render. now rewrite map_app, concat_app. Qed.

Lemma render_single x : render [x] = render1 x.
Proof. unfold render. cbn [map concat]. apply app_nil_r. Qed.

Lemma render_nil_iff g : render g = [] <-> g = [].
Proof.
  split; [|intros ->; reflexivity]. destruct g as [|x t]; [reflexivity|].
  unfold render. cbn [map concat]. intros H. apply app_eq_nil in H. destruct H as [H _].
  unfold render1 in H. apply app_eq_nil in H. destruct H as [H _].
  pose proof (adts_pack_length (af_ctx x) (lenN (af_raw x))) as L. rewrite H in L. discriminate.
Qed.

Lemma batched_init : batched r2t_init [] [].
Proof. exists [], []. repeat split; try reflexivity; try constructor. Qed.

Lemma aac_walk_snoc ms m : aac_walk (ms ++ [m]) = aac_step (aac_walk ms) m.
Proof. unfold aac_walk. now rewrite fold_left_app. Qed.

(* state changes that do not touch the audio fields *)
Lemma batched_ext s s' evs ms :
  r_acache s' = r_acache s -> r_afirst s' = r_afirst s -> r_asc s' = r_asc s ->
  batched s evs ms -> batched s' evs ms.
Proof.
  intros E1 E2 E3 (groups & g & H). exists groups, g. rewrite E1, E2, E3. exact H.
Qed.

(* FlushAudio: the cache becomes one more PES *)
Lemma flushed_batched n s evs ms s' evs' :
  batched s evs ms -> flushed n s = (s', evs') -> batched s' (evs ++ evs') ms.
Proof.
  intros (groups & g & Hw & Hr & Hd & Hne & Hc & Hf & Ha). unfold flushed.
  destruct (audio_cache_empty s) eqn:Ee.
  { intros H. injection H as <- <-. rewrite app_nil_r. exists groups, g. repeat split; assumption. }
  assert (Hg : g <> []).
  { intros ->. unfold audio_cache_empty in Ee. rewrite Hc in Ee. discriminate. }
  unfold on_frame_core, audio_frame.
  destruct (tsfilter_do _ _ _ _ _) as [[tf d] p]. destruct (pack _) as [pk cc']. intros H. injection H as <- <-.
  set (ev := mk_tsev _ _ _ _ _ _ _).
  assert (Eva : is_audio_ev ev = true) by reflexivity.
  exists (groups ++ [g]), []. unfold audio_evs in *. rewrite filter_app. cbn [filter]. rewrite Eva.
  rewrite !map_app. cbn [map]. rewrite Hr, Hd.
  repeat split.
  - rewrite concat_app. cbn [concat]. now rewrite !app_nil_r.
  - subst ev. cbn. now rewrite Hc.
  - subst ev. cbn. now rewrite (Hf Hg).
  - apply Forall_app. split; [assumption|]. constructor; [assumption|constructor].
  - intros H. congruence.
  - exact Ha.
Qed.

(* a video frame: at most a nested flush *)
Lemma on_frame_batched d s evs ms f cts s2 evs2 ev :
  batched s evs ms -> f_sid f = sid_video -> on_frame_pure d s f cts = (s2, evs2, ev) ->
  batched s2 (evs ++ evs2) ms.
Proof.
  intros Hb Hsid. unfold on_frame_pure.
  destruct (on_frame_core false s f cts) as [s1 ev0] eqn:Ec.
  assert (Hb1 : batched s1 evs ms).
  { revert Ec. unfold on_frame_core. destruct (tsfilter_do _ _ _ _ _) as [[tf dd] p]. destruct (pack _) as [pk cc'].
    intros H. injection H as <- _. now apply (batched_ext s). }
  assert (Ev : is_audio_ev ev0 = false).
  { revert Ec. unfold on_frame_core. destruct (tsfilter_do _ _ _ _ _) as [[tf dd] p]. destruct (pack _) as [pk cc'].
    intros H. injection H as _ <-. unfold is_audio_ev, ev_sid. cbn. now rewrite Hsid. }
  assert (Hsk : forall l s', batched s' l ms -> batched s' (l ++ [ev0]) ms).
  { intros l s' (groups & g & H). exists groups, g. unfold audio_evs in *. rewrite filter_app. cbn [filter].
    rewrite Ev, app_nil_r. exact H. }
  destruct d.
  - destruct (flushed true s1) as [s2' nested] eqn:Ef. intros H. injection H as <- <- <-.
    rewrite app_assoc. apply Hsk. eapply flushed_batched; eassumption.
  - intros H. injection H as <- <- <-. now apply Hsk.
Qed.

Lemma batched_skip_msg s evs ms m :
  ((rm_type m =? type_audio) && (2 <? lenN (rm_payload m)) && (audio_codec_id m =? sound_aac)) = false ->
  batched s evs ms -> batched s evs (ms ++ [m]).
Proof.
  intros E (groups & g & H). exists groups, g. rewrite aac_walk_snoc. unfold aac_step. rewrite E. exact H.
Qed.

Lemma feed_video_batched d s evs ms m s' evs' :
  batched s evs ms -> rm_type m = type_video -> feed_video_pure d s m = (s', evs') ->
  batched s' (evs ++ evs') (ms ++ [m]).
Proof.
  intros Hb Hty E. apply batched_skip_msg; [rewrite Hty; reflexivity|]. revert E. unfold feed_video_pure.
  destruct (lenN (rm_payload m) <=? 5); [intros H; injection H as <- <-; now rewrite app_nil_r|].
  destruct (negb _); [intros H; injection H as <- <-; now rewrite app_nil_r|].
  destruct (is_avc_key_seq_header m); [intros H; injection H as <- <-; rewrite app_nil_r; now apply (batched_ext s)|].
  destruct (is_hevc_key_seq_header m).
  { destruct (is_ext_header m); intros H; injection H as <- <-; rewrite app_nil_r; now apply (batched_ext s). }
  destruct (enhanced_too_short m); [intros H; injection H as <- <-; now rewrite app_nil_r|].
  destruct (iterate_nalu_avcc _) as [nals [e|]]; [intros H; injection H as <- <-; now rewrite app_nil_r|].
  destruct (video_loop _ _ _ _ _ _ _ _ _) as [cache [[|b out]|]];
    try (intros H; injection H as <- <-; rewrite app_nil_r; now apply (batched_ext s)).
  set (s0 := set_spspps s cache). set (dts := u64 (rm_ts m * 90)).
  assert (Hb0 : batched s0 evs ms) by now apply (batched_ext s).
  destruct (if negb (audio_cache_empty s0) && (r_afirst s0 + max_audio_delay_by_video <? dts)
            then flushed false s0 else (s0, [])) as [s1 evs1] eqn:Ef.
  assert (Hb1 : batched s1 (evs ++ evs1) ms).
  { destruct (negb (audio_cache_empty s0) && (r_afirst s0 + max_audio_delay_by_video <? dts)).
    - eapply flushed_batched; eassumption.
    - injection Ef as <- <-. now rewrite app_nil_r. }
  set (f := mk_frame _ _ _ _ _ _ _).
  destruct (on_frame_pure d s1 f (video_cts m)) as [[s2 evs2] ev] eqn:Eo.
  intros H. injection H as <- <-. rewrite app_assoc.
  apply (batched_ext s2); try reflexivity. exact (on_frame_batched d s1 (evs ++ evs1) ms f (video_cts m) s2 evs2 ev Hb1 eq_refl Eo).
Qed.

Lemma feed_audio_batched s evs ms m s' evs' :
  batched s evs ms -> rm_type m = type_audio -> audio_codec_id m = sound_aac -> lenN (rm_payload m) < 4294967296 ->
  feed_audio_pure s m = (s', evs') ->
  batched s' (evs ++ evs') (ms ++ [m]).
Proof.
  intros Hb Hty Hco Hlen. unfold feed_audio_pure.
  destruct (lenN (rm_payload m) <=? 2) eqn:E2.
  { intros H. injection H as <- <-. rewrite app_nil_r. apply batched_skip_msg; [|assumption].
    replace (2 <? lenN (rm_payload m)) with false by lia. now rewrite andb_false_r. }
  rewrite Hco, N.eqb_refl.
  assert (Est : forall st, aac_step st m =
            if pb m 1 =? 0 then (res_to_opt (asc_unpack (skipn 2 (rm_payload m))), snd st)
            else match fst st with Some a => (fst st, snd st ++ [(a, skipn 2 (rm_payload m), rm_ts m)]) | None => st end).
  { intros st. unfold aac_step. rewrite Hty, Hco, !N.eqb_refl. replace (2 <? lenN (rm_payload m)) with true by lia. reflexivity. }
  destruct (pb m 1 =? 0) eqn:E0.
  { intros H. injection H as <- <-. rewrite app_nil_r.
    destruct Hb as (groups & g & Hw & Hr & Hd & Hne & Hc & Hf & Ha). exists groups, g.
    rewrite aac_walk_snoc, Est. cbn [fst snd set_asc r_acache r_afirst r_asc]. repeat split; assumption. }
  destruct (r_asc s) as [asc|] eqn:Easc.
  2:{ intros H. injection H as <- <-. rewrite app_nil_r.
      destruct Hb as (groups & g & Hw & Hr & Hd & Hne & Hc & Hf & Ha). exists groups, g.
      rewrite aac_walk_snoc, Est, <- Ha, Easc. rewrite Easc in Ha. repeat split; assumption. }
  destruct (if negb (audio_cache_empty s) && (r_afirst s + max_audio_delay_by_audio <? u64 (rm_ts m * 90))
            then flushed false s else (s, [])) as [s1 evs1] eqn:Ef.
  intros H. injection H as <- <-.
  assert (Hb1 : batched s1 (evs ++ evs1) ms /\ r_asc s1 = r_asc s).
  { destruct (negb (audio_cache_empty s) && (r_afirst s + max_audio_delay_by_audio <? u64 (rm_ts m * 90))).
    - split; [eapply flushed_batched; eassumption|].
      revert Ef. unfold flushed. destruct (audio_cache_empty s); [intros H; now injection H as <- _|].
      unfold on_frame_core. destruct (tsfilter_do _ _ _ _ _) as [[tf dd] p]. destruct (pack _) as [pk cc'].
      intros H. injection H as <- _. reflexivity.
    - injection Ef as <- <-. rewrite app_nil_r. now split. }
  destruct Hb1 as ((groups & g & Hw & Hr & Hd & Hne & Hc & Hf & Ha) & Hasc1).
  set (x := (asc, skipn 2 (rm_payload m), rm_ts m) : aframe).
  exists groups, (g ++ [x]). rewrite aac_walk_snoc, Est, <- Ha, Hasc1, Easc.
  cbn [fst snd set_acache r_acache r_afirst r_asc].
  assert (Hn : u32 (lenN (rm_payload m) + 4294967294) = lenN (skipn 2 (rm_payload m))).
  { unfold lenN in *. rewrite skipn_length. unfold u32. lia. }
  repeat split; try assumption.
  - rewrite Hw. now rewrite app_assoc.
  - rewrite Hc, render_app, render_single. f_equal. unfold render1, x, af_ctx, af_raw.
    change (fst (fst (asc, skipn 2 (rm_payload m), rm_ts m))) with asc.
    change (snd (fst (asc, skipn 2 (rm_payload m), rm_ts m))) with (skipn 2 (rm_payload m)). now rewrite Hn.
  - intros _. unfold audio_cache_empty. rewrite Hc.
    destruct g as [|y t].
    + reflexivity.
    + destruct (render (y :: t)) eqn:Er; [apply render_nil_iff in Er; discriminate|]. now apply Hf.
  - now rewrite Hasc1, Easc in Ha |- *.
Qed.

Lemma on_pop_batched d s evs ms m s' evs' :
  batched s evs ms -> aac_only m -> on_pop_pure d s m = (s', evs') -> batched s' (evs ++ evs') (ms ++ [m]).
Proof.
  intros Hb (Hno & Hlen). unfold on_pop_pure.
  destruct (rm_type m =? type_audio) eqn:Ea.
  - apply N.eqb_eq in Ea.
    destruct ((audio_codec_id m =? sound_aac) || (audio_codec_id m =? sound_opus)) eqn:Ec; cbn [negb].
    + assert (Hc : audio_codec_id m = sound_aac).
      { apply orb_true_iff in Ec. destruct Ec as [Ec|Ec]; apply N.eqb_eq in Ec; [exact Ec|]. now destruct (Hno Ea). }
      now apply feed_audio_batched.
    + intros H. injection H as <- <-. rewrite app_nil_r. apply batched_skip_msg; [|assumption].
      apply orb_false_iff in Ec. destruct Ec as [Ec _]. rewrite Ec. now rewrite andb_false_r.
  - destruct (rm_type m =? type_video) eqn:Ev.
    + apply N.eqb_eq in Ev. now apply feed_video_batched.
    + intros H. injection H as <- <-. rewrite app_nil_r. apply batched_skip_msg; [|assumption]. now rewrite Ea.
Qed.

Lemma pop_all_batched : forall ms ds s evs ms0 s' evs',
  batched s evs ms0 -> Forall aac_only ms -> pop_all_pure ds s ms = (s', evs') ->
  batched s' (evs ++ evs') (ms0 ++ ms).
Proof.
  induction ms as [|m t IH]; intros ds s evs ms0 s' evs' Hb Ho; cbn [pop_all_pure].
  - intros H. injection H as <- <-. now rewrite !app_nil_r.
  - inversion Ho as [|? ? Hm Ht]; subst.
    destruct (on_pop_pure (hd false ds) s m) as [s1 e1] eqn:E1.
    destruct (pop_all_pure (tl ds) s1 t) as [s2 e2] eqn:E2. intros H. injection H as <- <-.
    rewrite app_assoc. replace (ms0 ++ m :: t) with ((ms0 ++ [m]) ++ t) by (now rewrite <- app_assoc).
    eapply IH; [|exact Ht|exact E2]. eapply on_pop_batched; eassumption.
Qed.

(* after the last FlushAudio (Dispose) nothing is left in the cache: the audio
   PES payloads are exactly the published frames *)
Lemma batched_flushed_complete n s evs ms s' evs' :
  batched s evs ms -> flushed n s = (s', evs') ->
  exists groups,
    snd (aac_walk ms) = concat groups
    /\ map (fun e => f_raw (te_frame e)) (audio_evs (evs ++ evs')) = map render groups
    /\ map te_dts0 (audio_evs (evs ++ evs')) = map group_dts groups
    /\ Forall (fun x => x <> []) groups.
Proof.
  intros Hb Ef. pose proof (flushed_batched n s evs ms s' evs' Hb Ef) as (groups & g & Hw & Hr & Hd & Hne & Hc & _).
  assert (Hemp : r_acache s' = []).
  { revert Ef. unfold flushed. destruct (audio_cache_empty s) eqn:Ee.
    - intros H. injection H as <- _. unfold audio_cache_empty in Ee. now destruct (r_acache s).
    - unfold on_frame_core. destruct (tsfilter_do _ _ _ _ _) as [[tf d] p]. destruct (pack _) as [pk cc'].
      intros H. injection H as <- _. reflexivity. }
  rewrite Hemp in Hc. symmetry in Hc. apply render_nil_iff in Hc. subst g. rewrite app_nil_r in Hw.
  exists groups. repeat split; assumption.
Qed.
