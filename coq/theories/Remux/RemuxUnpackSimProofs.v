(* C07: the C13 model of the RTP unpackers / unpack container (Net/NetUnpack.v,
   raw packets, checked accessors, written for panic-freedom) simulates the C12
   model (Rtp/RtpUnpacker.v, Rtp/RtpReorder.v, written for the round-trip and
   reorder proofs): whenever the C13 model returns, the C12 model returns the
   related result.  Packets are related when the C13 packet's Body() is the C12
   packet's body (no RTP padding), sequence number, timestamp and position agree. *)
From Coq Require Import Lia ZifyN ZifyNat ZifyBool.
From Lal Require Import Common.LBytes Common.LBytesProofs Common.Res.
From Lal Require Rtp.RtpSeqArith Rtp.RtpPacker Rtp.RtpUnpacker Rtp.RtpReorder Rtp.RtpNetAgreeProofs.
From Lal Require Net.NetChk Net.NetChkProofs Net.NetRtpHeader Net.NetRtcp Net.NetAuHeader Net.NetUnpack.
From Lal Require Remux.RemuxTsProofs.
Open Scope N_scope.
Ltac Zify.zify_post_hook ::= Z.div_mod_to_equations.

Module U12 := RtpUnpacker.
Module U13 := NetUnpack.
Module C12 := RtpReorder.

(* the bytes between len and cap of Body(): the RTP padding (the AAC unpacker's slice
   expressions can reach them, the other unpackers cannot) *)
Definition ptail (p : U13.upkt) : bytes := match U13.up_body p with Ok (_, t) => t | _ => [] end.

(* [tf]: the relation demands a packet without padding (needed for AAC only) *)
Definition prel (tf : bool) (p : U13.upkt) (q : U12.upkt) : Prop :=
  U13.up_body p = Ok (U12.u_body q, ptail p) /\ U13.up_seq p = U12.u_seq q /\ U13.up_ts p = U12.u_ts q /\
  U13.up_pos p = U12.u_pos q /\ bytes_ok (U12.u_body q) /\ lenN (U12.u_body q) < 65536 /\ (tf = true -> ptail p = nil).

Definition tf_of (k : U13.ukind) : bool := match k with U13.UAac => true | _ => false end.

Definition to_av (pt : Z) (o : U12.avout) : U13.avpkt := U13.mk_av pt (Z.of_N (fst o)) (snd o).

Definition clock_pos (clock : Z) : Prop := (0 < clock < 9223372036854775808)%Z.

(* result of TryUnpackOne *)
Definition rrel (tf : bool) (pt : Z) (r13 : res (option U13.unpack_out)) (r12 : res (option U12.unpacked)) : Prop :=
  match r13 with
  | Ok None => r12 = Ok None
  | Ok (Some o) =>
      exists outs rest12, r12 = Ok (Some (outs, U13.uo_seq o, rest12, U13.uo_removed o)) /\
                          Forall2 (prel tf) (U13.uo_rest o) rest12 /\ U13.uo_av o = map (to_av pt) outs
  | _ => True
  end.

Lemma sub_seq_same a b : NetRtcp.sub_seq a b = RtpSeqArith.sub_seq a b. Proof. reflexivity. Qed.
Lemma compare_seq_same a b : NetRtcp.compare_seq a b = RtpSeqArith.compare_seq a b. Proof. reflexivity. Qed.

Lemma ts_ok site13 site12 clock ts : clock_pos clock ->
  U13.ts_ms true site13 clock ts = Ok (Z.of_N (U12.rtp_ms (Z.to_N clock) ts)) /\
  U12.out_ts site12 (Z.to_N clock) ts = Ok (U12.rtp_ms (Z.to_N clock) ts).
Proof.
  intros H. split; [apply RemuxTsProofs.ts_ms_is_rtp_ms; exact H|]. apply RemuxTsProofs.out_ts_is_rtp_ms. unfold clock_pos in H. lia.
Qed.

(* ---------------------------------------------------------------- raw *)
Lemma raw_sim tf pt clock l13 l12 : clock_pos clock -> Forall2 (prel tf) l13 l12 ->
  rrel tf pt (U13.try_unpack_raw true pt clock l13) (U12.try_unpack_raw (Z.to_N clock) l12).
Proof.
  intros Hc Hl. destruct Hl as [|p q t13 t12 (Hb & Hs & Ht & _) Hr]; [reflexivity|].
  cbn [U13.try_unpack_raw U12.try_unpack_raw]. rewrite Hb. cbn [bind].
  destruct (ts_ok NetChk.s_raw_divide U12.site_raw_divide clock (U13.up_ts p) Hc) as [E1 E2]. rewrite E1. rewrite <- Ht, E2.
  cbn [bind rrel U13.uo_seq U13.uo_rest U13.uo_removed U13.uo_av]. eexists _, _. split; [rewrite Hs; reflexivity|]. split; [exact Hr|reflexivity].
Qed.

(* ---------------------------------------------------------------- STAP-A / AP *)
Lemma be_at2_cons ss si x y t : NetChk.be_at ss si 2 (x :: y :: t) 0 = Ok (x * 256 + y).
Proof.
  unfold NetChk.be_at. rewrite !NetChkProofs.lenN_cons.
  assert (lenN t + 1 + 1 <? 0 = false) as -> by (apply N.ltb_ge; lia).
  assert (lenN t + 1 + 1 <? 0 + 2 = false) as -> by (apply N.ltb_ge; lia).
  change (N.to_nat 2) with 2%nat. change (N.to_nat 0) with 0%nat. cbn [skipn firstn]. unfold be_get. cbn [be_get_acc]. f_equal; try lia.
Qed.

Lemma stap_sim : forall f13 f12 buf, (length buf < f13)%nat -> (length buf <= f12)%nat -> lenN buf < 4294967296 ->
  if U13.stap_valid f13 buf
  then exists nals, U12.parse_aggr f12 buf = Some nals /\ U13.stap_copy f13 buf = Ok (concat (map U12.avcc nals))
  else U12.parse_aggr f12 buf = None.
Proof.
  induction f13 as [|f13 IH]; intros f12 buf H13 H12 Hlen; [lia|].
  destruct buf as [|x [|y t]].
  - cbn. exists []. destruct f12; split; reflexivity.
  - cbn [U13.stap_valid]. destruct f12; reflexivity.
  - cbn [U13.stap_valid U13.stap_copy]. destruct f12 as [|f12]; [cbn [length] in H12; lia|]. cbn [U12.parse_aggr].
    unfold split_exactN. destruct (x * 256 + y <=? lenN t) eqn:En; [|reflexivity].
    apply N.leb_le in En. rewrite !NetChkProofs.lenN_cons in Hlen.
    specialize (IH f12 (skipn (N.to_nat (x * 256 + y)) t)).
    assert (Hs : (length (skipn (N.to_nat (x * 256 + y)) t) <= length t)%nat) by (rewrite skipn_length; lia).
    cbn [length] in H13, H12.
    destruct (U13.stap_valid f13 (skipn (N.to_nat (x * 256 + y)) t)) eqn:Ev.
    + destruct IH as (nals & E12 & E13); [lia|lia|unfold lenN in *; lia|]. rewrite E12.
      exists (firstn (N.to_nat (x * 256 + y)) t :: nals). split; [reflexivity|].
      rewrite be_at2_cons. cbn [bind].
      rewrite NetChkProofs.slice_ok by (rewrite ?NetChkProofs.lenN_cons; lia).
      rewrite NetChkProofs.slice_from_ok by (rewrite ?NetChkProofs.lenN_cons; lia). cbn [bind].
      replace (N.to_nat (2 + (x * 256 + y))) with (S (S (N.to_nat (x * 256 + y)))) by lia.
      change (N.to_nat 2) with 2%nat. cbn [skipn]. rewrite E13. cbn [bind map concat].
      replace (N.to_nat (2 + (x * 256 + y) - 2)) with (N.to_nat (x * 256 + y)) by lia.
      unfold U12.avcc. rewrite <- app_assoc. do 3 f_equal.
      rewrite NetChkProofs.lenN_firstn. unfold u32. lia.
    + rewrite IH; [reflexivity|lia|lia|unfold lenN in *; lia].
Qed.

(* ---------------------------------------------------------------- FU *)
Lemma Forall2_rev {A B} (R : A -> B -> Prop) l1 l2 : Forall2 R l1 l2 -> Forall2 R (rev l1) (rev l2).
Proof.
  induction 1 as [|a b l1 l2 H _ IH]; [constructor|]. cbn [rev]. apply Forall2_app; [exact IH|]. constructor; [exact H|constructor].
Qed.

Definition ch (skip : nat) (q : U12.upkt) : bytes := skipn skip (U12.u_body q).

Lemma walk_sim tf skip : forall l13 l12, Forall2 (prel tf) l13 l12 -> forall prev acc13 accq base, Forall2 (prel tf) acc13 accq ->
  match U13.fua_walk prev acc13 l13 with
  | None => U12.fu_collect skip prev l12 (map (ch skip) accq ++ base) = None
  | Some (mids, last, rest13) =>
      exists mids12 last12 rest12,
        U12.fu_collect skip prev l12 (map (ch skip) accq ++ base) = Some (rev base ++ map (ch skip) (mids12 ++ [last12]), last12, rest12) /\
        Forall2 (prel tf) mids mids12 /\ prel tf last last12 /\ Forall2 (prel tf) rest13 rest12
  end.
Proof.
  induction 1 as [|p q t13 t12 Hp Ht IH]; intros prev acc13 accq base Hacc; [reflexivity|].
  cbn [U13.fua_walk U12.fu_collect]. pose proof Hp as (Hb & Hs & Hts & Hpos & _).
  rewrite sub_seq_same, Hs, Hpos.
  destruct (RtpSeqArith.sub_seq (U12.u_seq q) prev =? 1)%Z; cbn [negb]; [|reflexivity].
  change U13.pos_fua_middle with U12.pos_fu_middle. change U13.pos_fua_end with U12.pos_fu_end.
  destruct (U12.u_pos q =? U12.pos_fu_middle).
  - specialize (IH (U12.u_seq q) (p :: acc13) (q :: accq) base (Forall2_cons _ _ Hp Hacc)). exact IH.
  - destruct (U12.u_pos q =? U12.pos_fu_end); [|reflexivity].
    exists (rev accq), q, t12. split.
    + f_equal. f_equal. f_equal. fold (ch skip q). cbn [rev]. rewrite rev_app_distr, map_app, map_rev, <- app_assoc. reflexivity.
    + split; [apply Forall2_rev; exact Hacc|]. split; [exact Hp|exact Ht].
Qed.

Lemma datas_sim tf skip : forall l13 l12 ds, Forall2 (prel tf) l13 l12 ->
  U13.fua_datas skip l13 = Ok ds -> ds = map (ch (N.to_nat skip)) l12.
Proof.
  induction l13 as [|p t IH]; intros l12 ds Hl E; inversion Hl as [|? q ? t12 Hp Ht]; subst; cbn [U13.fua_datas] in E.
  - injection E as <-. reflexivity.
  - destruct Hp as (Hb & _). rewrite Hb in E. cbn [bind] in E.
    unfold NetChk.slice_from in E. destruct (skip <=? lenN (U12.u_body q)); [|discriminate]. cbn [bind] in E.
    destruct (U13.fua_datas skip t) as [more| |] eqn:Em; cbn [bind] in E; try discriminate.
    injection E as <-. cbn [map]. f_equal. apply IH; [exact Ht|reflexivity].
Qed.

Lemma idx_nth0 site b i v : NetChk.idx site b i = Ok v -> nth (N.to_nat i) b 0 = v.
Proof.
  unfold NetChk.idx. destruct (i <? lenN b); [|discriminate].
  destruct (nth_error b (N.to_nat i)) as [x|] eqn:E; [|discriminate]. intros [= <-]. apply nth_error_nth. exact E.
Qed.

Lemma land_31 x : N.land x 31 = x mod 32. Proof. change 31 with (N.ones 5). rewrite N.land_ones. reflexivity. Qed.
Lemma land_63 x : N.land x 63 = x mod 64. Proof. change 63 with (N.ones 6). rewrite N.land_ones. reflexivity. Qed.

(* ---------------------------------------------------------------- AVC / HEVC *)
Definition codec_of (hevc : bool) : RtpPacker.vcodec := if hevc then RtpPacker.Hevc else RtpPacker.Avc.

Lemma Forall2_length' {A B} (R : A -> B -> Prop) l1 l2 : Forall2 R l1 l2 -> length l1 = length l2.
Proof. induction 1; cbn; congruence. Qed.

Lemma video_sim tf (hevc : bool) pt clock l13 l12 : clock_pos clock -> Forall2 (prel tf) l13 l12 ->
  rrel tf pt (U13.try_unpack_avchevc true hevc pt clock l13) (U12.try_unpack_video (codec_of hevc) (Z.to_N clock) l12).
Proof.
  intros Hc Hl. destruct Hl as [|first q t13 t12 Hp Hr]; [reflexivity|].
  cbn [U13.try_unpack_avchevc U12.try_unpack_video]. pose proof Hp as (Hb & Hs & Ht & Hpos & Hbytes & Hlen).
  rewrite Hpos. change U13.pos_single with U12.pos_single. change U13.pos_stapa with U12.pos_stapa.
  change U13.pos_ap with U12.pos_ap. change U13.pos_fua_start with U12.pos_fu_start.
  destruct (U12.u_pos q =? U12.pos_single).
  { destruct (ts_ok NetChk.s_avchevc_divide U12.site_avchevc_divide clock (U13.up_ts first) Hc) as [E1 E2]. rewrite E1. rewrite <- Ht, E2, Hb.
    cbn [bind rrel U13.uo_seq U13.uo_rest U13.uo_removed U13.uo_av]. eexists _, _. split; [rewrite Hs; reflexivity|]. split; [exact Hr|reflexivity]. }
  destruct ((U12.u_pos q =? U12.pos_stapa) || (U12.u_pos q =? U12.pos_ap)) eqn:Eagg.
  { destruct (ts_ok NetChk.s_avchevc_divide U12.site_avchevc_divide clock (U13.up_ts first) Hc) as [E1 E2]. rewrite E1. rewrite <- Ht, E2, Hb. cbn [bind].
    set (skip13 := if U12.u_pos q =? U12.pos_stapa then 1 else 2).
    set (skip12 := if U12.u_pos q =? U12.pos_stapa then 1%nat else 2%nat).
    assert (Esk : N.to_nat skip13 = skip12) by (subst skip13 skip12; destruct (U12.u_pos q =? U12.pos_stapa); reflexivity).
    unfold NetChk.slice_from. destruct (skip13 <=? lenN (U12.u_body q)) eqn:El; [|exact I]. cbn [bind]. apply N.leb_le in El.
    assert (Nat.ltb (length (U12.u_body q)) skip12 = false) as -> by (apply Nat.ltb_ge; unfold lenN in El; lia).
    rewrite Esk. set (buf := skipn skip12 (U12.u_body q)).
    pose proof (stap_sim (S (length buf)) (length buf) buf) as Hst.
    destruct (U13.stap_valid (S (length buf)) buf).
    - destruct Hst as (nals & E12 & E13); [lia|lia|subst buf; unfold lenN in *; rewrite skipn_length; lia|].
      cbn [negb]. rewrite E12, E13. cbn [bind rrel U13.uo_seq U13.uo_rest U13.uo_removed U13.uo_av].
      eexists _, _. split; [rewrite Hs; reflexivity|]. split; [exact Hr|reflexivity].
    - cbn [negb rrel]. rewrite Hst; [reflexivity|lia|lia|subst buf; unfold lenN in *; rewrite skipn_length; lia]. }
  destruct (U12.u_pos q =? U12.pos_fu_start); [|reflexivity].
  set (skip12 := N.to_nat (RtpPacker.fu_hdr_size (codec_of hevc))).
  pose proof (walk_sim tf skip12 t13 t12 Hr (U13.up_seq first) [] [] [ch skip12 q] (Forall2_nil _)) as Hw.
  cbn [map app] in Hw. rewrite Hs in Hw. change (skipn skip12 (U12.u_body q)) with (ch skip12 q).
  rewrite Hs.
  destruct (U13.fua_walk (U12.u_seq q) [] t13) as [[[mids last] rest13]|]; [|cbn [rrel]; match goal with |- match ?X with _ => _ end = _ => assert (EX : X = None) by exact Hw; rewrite EX end; reflexivity].
  destruct Hw as (mids12 & last12 & rest12 & Ecol & Hm & Hlast & Hrest).
  match goal with |- context [U12.fu_collect ?a ?b ?c ?d] =>
    assert (EX : U12.fu_collect a b c d = Some (rev [ch skip12 q] ++ map (ch skip12) (mids12 ++ [last12]), last12, rest12)) by exact Ecol;
    rewrite EX; clear EX end.
  pose proof Hlast as (_ & Hls & Hlt & _).
  destruct (ts_ok NetChk.s_avchevc_divide U12.site_avchevc_divide clock (U13.up_ts last) Hc) as [E1 E2]. rewrite E1. rewrite <- Hlt, E2, Hb. cbn [bind].
  (* the reconstructed NAL header *)
  set (NT := if hevc then _ else _).
  destruct NT as [ntype| |] eqn:ENT; cbn [bind]; try exact I.
  assert (Hhdr : ntype = U12.fu_nal_header (codec_of hevc) (U12.u_body q) /\ lenN ntype + 1 = RtpPacker.fu_hdr_size (codec_of hevc)).
  { subst NT. destruct hevc; cbn [codec_of U12.fu_nal_header RtpPacker.fu_hdr_size].
    - destruct (NetChk.idx NetChk.s_avchevc_index (U12.u_body q) 2) as [b2| |] eqn:I2; cbn [bind] in ENT; try discriminate.
      destruct (NetChk.idx NetChk.s_avchevc_index (U12.u_body q) 0) as [b0| |] eqn:I0; cbn [bind] in ENT; try discriminate.
      destruct (NetChk.idx NetChk.s_avchevc_index (U12.u_body q) 1) as [b1| |] eqn:I1; cbn [bind] in ENT; try discriminate.
      injection ENT as <-. apply idx_nth0 in I0, I1, I2. change (N.to_nat 0) with 0%nat in I0. change (N.to_nat 1) with 1%nat in I1.
      change (N.to_nat 2) with 2%nat in I2. rewrite I0, I1, I2, land_63. split; reflexivity.
    - destruct (NetChk.idx NetChk.s_avchevc_index (U12.u_body q) 0) as [b0| |] eqn:I0; cbn [bind] in ENT; try discriminate.
      destruct (NetChk.idx NetChk.s_avchevc_index (U12.u_body q) 1) as [b1| |] eqn:I1; cbn [bind] in ENT; try discriminate.
      injection ENT as <-. apply idx_nth0 in I0, I1. change (N.to_nat 0) with 0%nat in I0. change (N.to_nat 1) with 1%nat in I1.
      rewrite I0, I1, land_31. split; reflexivity. }
  destruct Hhdr as [Hh1 Hh2].
  destruct (U13.fua_datas (lenN ntype + 1) (first :: mids ++ [last])) as [ds| |] eqn:Eds; cbn [bind]; try exact I.
  assert (Hpk : Forall2 (prel tf) (first :: mids ++ [last]) (q :: mids12 ++ [last12])).
  { constructor; [exact Hp|]. apply Forall2_app; [exact Hm|]. constructor; [exact Hlast|constructor]. }
  pose proof (datas_sim _ _ _ _ _ Hpk Eds) as Hds. rewrite Hh2 in Hds. fold skip12 in Hds.
  cbn [rrel U13.uo_seq U13.uo_rest U13.uo_removed U13.uo_av].
  eexists _, _. split; [|split; [exact Hrest|]].
  - rewrite Hls. f_equal. f_equal. f_equal. cbn [rev app]. fold (ch skip12 q).
    change (ch skip12 q :: map (ch skip12) (mids12 ++ [last12])) with (map (ch skip12) (q :: mids12 ++ [last12])).
    rewrite map_length. rewrite (Forall2_length' _ _ _ Hpk). reflexivity.
  - cbn [map to_av fst snd rev app]. fold (ch skip12 q).
    change (ch skip12 q :: map (ch skip12) (mids12 ++ [last12])) with (map (ch skip12) (q :: mids12 ++ [last12])).
    rewrite <- Hds, <- Hh1. do 3 f_equal; try lia.
Qed.

(* ---------------------------------------------------------------- AAC *)
Module A13 := NetAuHeader.
Definition au_of := RtpNetAgreeProofs.au_of.

Lemma parse_au_loop_sizes b : bytes_ok b -> forall n pauh pau r,
  U12.parse_au_loop n b pauh pau = Ok r -> Forall (fun x => fst x < 8192) r.
Proof.
  intros Hb. induction n as [|n IH]; intros pauh pau r E; cbn [U12.parse_au_loop] in E.
  - injection E as <-. constructor.
  - destruct (nth_error b (N.to_nat pauh)) as [h0|] eqn:E0; [|discriminate].
    destruct (nth_error b (N.to_nat (pauh + 1))) as [h1|] eqn:E1; [|discriminate].
    destruct (U12.parse_au_loop n b (pauh + 2) _) as [r'| |] eqn:Er; cbn [bind] in E; try discriminate.
    injection E as <-. constructor; [|eapply IH; exact Er]. cbn [fst].
    assert (h0 < 256) by (apply nth_error_In in E0; unfold bytes_ok in Hb; rewrite Forall_forall in Hb; auto).
    assert (h1 < 256) by (apply nth_error_In in E1; unfold bytes_ok in Hb; rewrite Forall_forall in Hb; auto).
    rewrite RtpNetAgreeProofs.land_248_sub by assumption. lia.
Qed.

Lemma parse_au_sizes b r : bytes_ok b -> U12.parse_au b = Ok r -> Forall (fun x => fst x < 8192) r.
Proof.
  intros Hb E. unfold U12.parse_au in E. destruct b as [|b0 [|b1 t]]; try (injection E as <-; constructor).
  destruct (lenN (b0 :: b1 :: t) <? _); [injection E as <-; constructor|].
  destruct (U12.parse_au_loop _ _ _ _) as [r'| |] eqn:Er; cbn [bind] in E; try discriminate.
  destruct (_ && _); injection E as <-; [constructor|]. eapply parse_au_loop_sizes; eauto.
Qed.

Lemma extra_eq clock i : clock_pos clock ->
  Z.of_N (NetChk.w32 (Z.quot (Z.of_N i * 1024000) clock)) = Z.of_N (u32 (i * 1024000 / Z.to_N clock)).
Proof.
  intros [H1 H2]. unfold NetChk.w32, u32. rewrite Z.quot_div_nonneg by lia.
  rewrite Z2N.id by (apply Z.mod_pos_bound; lia). rewrite N2Z.inj_mod, N2Z.inj_div, N2Z.inj_mul, Z2N.id by lia. reflexivity.
Qed.

Lemma multi_sim pt clock ts b : clock_pos clock -> forall aus i,
  match U13.aac_multi true clock pt ts b [] (Z.of_N i) (map au_of aus) with
  | Ok avs => exists outs, U12.aac_multi (Z.to_N clock) (U12.rtp_ms (Z.to_N clock) ts) b i aus = Ok outs /\ avs = map (to_av pt) outs
  | _ => True
  end.
Proof.
  intros Hc. induction aus as [|[size pos] t IH]; intros i; cbn [map U13.aac_multi U12.aac_multi].
  - exists []. split; reflexivity.
  - destruct (ts_ok NetChk.s_aac_divide U12.site_aac_divide clock ts Hc) as [E1 _]. rewrite E1. cbn [bind].
    assert ((clock =? 0)%Z = false) as -> by (apply Z.eqb_neq; unfold clock_pos in Hc; lia).
    assert (Z.to_N clock =? 0 = false) as -> by (apply N.eqb_neq; unfold clock_pos in Hc; lia).
    change (au_of (size, pos)) with (A13.mk_au size pos). cbn [A13.au_pos A13.au_size].
    unfold U13.slice_cap, U12.slice_chk. change (lenN (@nil N)) with 0. rewrite N.add_0_r, app_nil_r.
    assert ((pos <=? pos + size) = true) as -> by (apply N.leb_le; lia). cbn [andb].
    destruct (pos + size <=? lenN b); cbn [bind]; [|exact I].
    specialize (IH (i + 1)). replace (Z.of_N (i + 1)) with (Z.of_N i + 1)%Z in IH by lia.
    destruct (U13.aac_multi true clock pt ts b [] (Z.of_N i + 1) (map au_of t)) as [more| |]; cbn [bind]; try exact I.
    destruct IH as (outs & -> & ->). cbn [bind]. eexists. split; [reflexivity|]. cbn [map]. f_equal.
    unfold to_av. cbn [fst snd]. rewrite extra_eq by exact Hc. rewrite N2Z.inj_add.
    replace (N.to_nat (pos + size - pos)) with (N.to_nat size) by lia. reflexivity.
Qed.

Lemma frag_sim pt clock total ts0 : clock_pos clock -> total < 8192 ->
  forall l13 l12, Forall2 (prel true) l13 l12 -> forall seq cache acc count, cache < total ->
  rrel true pt (U13.aac_frag true clock pt total ts0 seq cache acc count l13)
          (U12.aac_frag (Z.to_N clock) total ts0 seq l12 acc cache count).
Proof.
  intros Hc Ht. induction 1 as [|p q t13 t12 Hp Hr IH]; intros seq cache acc count Hcache; [reflexivity|].
  cbn [U13.aac_frag U12.aac_frag]. pose proof Hp as (Hb & Hs & Hts & _ & Hbytes & Hlen & Htl). rewrite (Htl eq_refl) in Hb.
  rewrite sub_seq_same, Hs, Hts.
  destruct (negb (RtpSeqArith.sub_seq (U12.u_seq q) seq =? 1)%Z); [reflexivity|].
  destruct (negb (U12.u_ts q =? ts0)); [reflexivity|].
  rewrite Hb. cbn [bind]. rewrite (RtpNetAgreeProofs.parse_au_agrees _ Hbytes).
  destruct (U12.parse_au (U12.u_body q)) as [aus| |] eqn:Ea; cbn [RtpNetAgreeProofs.lift_aus bind]; try exact I.
  destruct aus as [|[size pos] [|a2 more]]; cbn [map]; try reflexivity.
  unfold RtpNetAgreeProofs.au_of. cbn [fst snd A13.au_pos A13.au_size].
  destruct (negb (size =? total)); [reflexivity|].
  unfold NetChk.slice_from. destruct (pos <=? lenN (U12.u_body q)) eqn:Epos; cbn [bind]; [|exact I].
  assert (lenN (U12.u_body q) <? pos = false) as -> by (apply N.ltb_ge; apply N.leb_le; exact Epos).
  set (part := skipn (N.to_nat pos) (U12.u_body q)).
  assert (Hpl : lenN part < 65536) by (subst part; rewrite NetChkProofs.lenN_skipn; lia).
  assert (u32 (cache + lenN part) = cache + lenN part) as -> by (unfold u32; apply N.mod_small; lia).
  destruct (cache + lenN part <? total) eqn:Ec.
  - apply IH. apply N.ltb_lt. exact Ec.
  - destruct (cache + lenN part =? total); [|reflexivity].
    destruct (ts_ok NetChk.s_aac_divide U12.site_aac_divide clock (U12.u_ts q) Hc) as [E1 E2]. rewrite E1, E2.
    cbn [bind rrel U13.uo_seq U13.uo_rest U13.uo_removed U13.uo_av]. eexists _, _. split; [reflexivity|]. split; [exact Hr|reflexivity].
Qed.

Lemma aac_sim pt clock l13 l12 : clock_pos clock -> Forall2 (prel true) l13 l12 ->
  rrel true pt (U13.try_unpack_aac true pt clock l13) (U12.try_unpack_aac (Z.to_N clock) l12).
Proof.
  intros Hc Hl. destruct Hl as [|p q t13 t12 Hp Hr]; [reflexivity|].
  cbn [U13.try_unpack_aac U12.try_unpack_aac]. pose proof Hp as (Hb & Hs & Hts & _ & Hbytes & Hlen & Htl). rewrite (Htl eq_refl) in Hb.
  rewrite Hb. cbn [bind]. rewrite (RtpNetAgreeProofs.parse_au_agrees _ Hbytes).
  destruct (U12.parse_au (U12.u_body q)) as [aus| |] eqn:Ea; cbn [RtpNetAgreeProofs.lift_aus bind]; try exact I.
  pose proof (parse_au_sizes _ _ Hbytes Ea) as Hsz.
  destruct aus as [|[size pos] [|a2 more]].
  - (* no access unit: the packet is consumed *)
    cbn [map U13.aac_multi bind rrel U13.uo_seq U13.uo_rest U13.uo_removed U13.uo_av].
    eexists _, _. split; [rewrite Hs; reflexivity|]. split; [exact Hr|reflexivity].
  - cbn [map]. unfold RtpNetAgreeProofs.au_of. cbn [fst snd A13.au_pos A13.au_size].
    unfold NetChk.slice_from. destruct (pos <=? lenN (U12.u_body q)) eqn:Epos; cbn [bind]; [|exact I].
    assert (lenN (U12.u_body q) <? pos = false) as -> by (apply N.ltb_ge; apply N.leb_le; exact Epos).
    set (avail := skipn (N.to_nat pos) (U12.u_body q)).
    assert (Hal : lenN avail = lenN (U12.u_body q) - pos) by (subst avail; rewrite NetChkProofs.lenN_skipn; lia).
    destruct (size <=? lenN avail) eqn:Efit.
    + destruct (ts_ok NetChk.s_aac_divide U12.site_aac_divide clock (U12.u_ts q) Hc) as [E1 E2]. rewrite Hts, E1, E2. cbn [bind].
      unfold U13.slice_cap. change (lenN (@nil N)) with 0. rewrite N.add_0_r, app_nil_r.
      apply N.leb_le in Efit, Epos.
      assert ((pos <=? pos + size) && (pos + size <=? lenN (U12.u_body q)) = true) as ->.
      { apply andb_true_iff. split; apply N.leb_le; lia. }
      cbn [bind rrel U13.uo_seq U13.uo_rest U13.uo_removed U13.uo_av].
      eexists _, _. split; [rewrite Hs; reflexivity|]. split; [exact Hr|]. cbn [map]. unfold to_av. cbn [fst snd].
      replace (N.to_nat (pos + size - pos)) with (N.to_nat size) by lia. reflexivity.
    + rewrite Hs, Hts. assert (u32 (lenN avail) = lenN avail) as -> by (unfold u32; apply N.mod_small; lia).
      apply frag_sim; [exact Hc| |exact Hr|apply N.leb_gt; exact Efit].
      inversion Hsz; subst. assumption.
  - (* several access units *)
    set (aus := (size, pos) :: a2 :: more) in *.
    pose proof (multi_sim pt clock (U13.up_ts p) (U12.u_body q) Hc aus 0) as Hm. change (Z.of_N 0) with 0%Z in Hm.
    fold au_of. change (map RtpNetAgreeProofs.au_of aus) with (map au_of aus).
    assert (Eshape : match map au_of aus with [a] => false | _ => true end = true) by reflexivity.
    destruct (map au_of aus) as [|x [|y z]] eqn:Emap; try discriminate.
    destruct (U13.aac_multi true clock pt (U13.up_ts p) (U12.u_body q) [] 0 (x :: y :: z)) as [avs| |]; cbn [bind]; try exact I.
    destruct Hm as (outs & Em & ->).
    destruct (ts_ok NetChk.s_aac_divide U12.site_aac_divide clock (U12.u_ts q) Hc) as [_ E2]. rewrite E2. cbn [bind].
    rewrite <- Hts, Em. cbn [bind rrel U13.uo_seq U13.uo_rest U13.uo_removed U13.uo_av].
    eexists _, _. split; [rewrite Hs; reflexivity|]. split; [exact Hr|reflexivity].
Qed.

(* ---------------------------------------------------------------- TryUnpackOne, all protocols *)
Definition pr_of (k : U13.ukind) : U12.proto :=
  match k with U13.UAac => U12.PAac | U13.URaw => U12.PRaw | U13.UAvc => U12.PAvc | U13.UHevc => U12.PHevc end.

Lemma one_sim u l13 l12 : clock_pos (U13.uk_clock u) -> Forall2 (prel (tf_of (U13.uk_kind u))) l13 l12 ->
  rrel (tf_of (U13.uk_kind u)) (U13.uk_pt u) (U13.try_unpack_one true u l13) (U12.try_unpack_one (pr_of (U13.uk_kind u)) (Z.to_N (U13.uk_clock u)) l12).
Proof.
  intros Hc Hl. unfold U13.try_unpack_one, U12.try_unpack_one. destruct (U13.uk_kind u); cbn [pr_of tf_of].
  - apply aac_sim; assumption.
  - apply raw_sim; assumption.
  - apply (video_sim _ false); assumption.
  - apply (video_sim _ true); assumption.
Qed.

(* ---------------------------------------------------------------- the container *)
Definition crel (tf : bool) (c13 : U13.ucont) (c12 : C12.cstate) : Prop :=
  Forall2 (prel tf) (U13.uc_list c13) (C12.c_items c12) /\ U13.uc_size c13 = C12.c_size c12 /\
  match U13.uc_done c13 with
  | None => C12.c_flag c12 = false
  | Some d => C12.c_flag c12 = true /\ C12.c_done c12 = d
  end.

Lemma crel_init tf : crel tf U13.ucont_init C12.c_init.
Proof. repeat split. constructor. Qed.

Section Container.
Variable u : U13.unpacker.
Hypothesis Hclock : clock_pos (U13.uk_clock u).
Let pr := pr_of (U13.uk_kind u).
Let rate := Z.to_N (U13.uk_clock u).
Let pt := U13.uk_pt u.
Let tf := tf_of (U13.uk_kind u).

Lemma try_sim c13 c12 : crel tf c13 c12 ->
  match U13.cont_try true u c13 with
  | Ok (false, c', av) => c' = c13 /\ av = [] /\ C12.try_one pr rate c12 = Ok None
  | Ok (true, c', av) => exists st' outs, C12.try_one pr rate c12 = Ok (Some (st', outs)) /\ crel tf c' st' /\ av = map (to_av pt) outs
  | _ => True
  end.
Proof.
  intros (Hl & Hs & Hd). unfold U13.cont_try, C12.try_one.
  pose proof (one_sim u _ _ Hclock Hl) as H. fold pr rate pt in H.
  destruct (U13.try_unpack_one true u (U13.uc_list c13)) as [[o|]| |]; cbn [bind]; try exact I.
  - destruct H as (outs & rest12 & -> & Hr & Hav). cbn [bind]. eexists _, _. split; [reflexivity|]. split; [|exact Hav].
    repeat split; cbn [U13.uc_list U13.uc_size U13.uc_done C12.c_items C12.c_size C12.c_flag C12.c_done]; auto. rewrite Hs. reflexivity.
  - cbn [rrel] in H. rewrite H. cbn [bind]. repeat split.
Qed.

Lemma first_seq_sim c13 c12 : crel tf c13 c12 -> U13.first_sequential c13 = C12.is_first_sequential c12.
Proof.
  intros (Hl & _ & Hd). unfold U13.first_sequential, C12.is_first_sequential.
  destruct Hl as [|p q ? ? (_ & Hs & _) _]; [reflexivity|].
  destruct (U13.uc_done c13) as [d|].
  - destruct Hd as [-> ->]. rewrite sub_seq_same, Hs. reflexivity.
  - rewrite Hd. reflexivity.
Qed.

Lemma seq_loop_sim : forall fuel c13 c12 count acc, crel tf c13 c12 ->
  match U13.seq_loop true u fuel c13 count acc with
  | Ok (c', count', acc') =>
      exists st' outs any, C12.seq_loop fuel pr rate c12 = Ok (st', outs, any) /\ crel tf c' st' /\
                           acc' = acc ++ map (to_av pt) outs /\ count <= count' /\ (any = true <-> count < count') /\
                           (count' = count -> outs = [])
  | _ => True
  end.
Proof.
  induction fuel as [|f IH]; intros c13 c12 count acc Hr; cbn [U13.seq_loop C12.seq_loop]; [exact I|].
  rewrite (first_seq_sim _ _ Hr). destruct (C12.is_first_sequential c12); cbn [negb].
  2:{ exists c12, [], false. rewrite app_nil_r. split; [reflexivity|]. split; [exact Hr|]. split; [reflexivity|]. split; [lia|]. split; [split; [discriminate|intros; exfalso; lia]|reflexivity]. }
  pose proof (try_sim _ _ Hr) as Ht.
  destruct (U13.cont_try true u c13) as [[[ok c1] av]| |]; cbn [bind]; try exact I.
  destruct ok.
  - destruct Ht as (st1 & o1 & -> & Hr1 & ->). cbn [bind].
    specialize (IH c1 st1 (count + 1) (acc ++ map (to_av pt) o1) Hr1).
    destruct (U13.seq_loop true u f c1 (count + 1) (acc ++ map (to_av pt) o1)) as [[[c' count'] acc']| |]; try exact I.
    destruct IH as (st' & o2 & any & -> & Hr' & -> & Hle & _). cbn [bind].
    exists st', (o1 ++ o2), true. rewrite map_app, app_assoc.
    split; [reflexivity|]. split; [exact Hr'|]. split; [reflexivity|]. split; [lia|]. split; [split; [intros; lia|reflexivity]|intros; exfalso; lia].
  - destruct Ht as (-> & -> & ->). cbn [bind]. exists c12, [], false. rewrite app_nil_r.
    split; [reflexivity|]. split; [exact Hr|]. split; [reflexivity|]. split; [lia|]. split; [split; [discriminate|intros; exfalso; lia]|reflexivity].
Qed.

Lemma ins_sim p q : prel tf p q -> forall l13 l12, Forall2 (prel tf) l13 l12 ->
  Forall2 (prel tf) (fst (U13.ins p l13)) (fst (C12.insert q l12)) /\ snd (U13.ins p l13) = snd (C12.insert q l12).
Proof.
  intros Hp. induction 1 as [|a b t13 t12 Hab Ht IH]; cbn [U13.ins C12.insert].
  - split; [constructor; [exact Hp|constructor]|reflexivity].
  - pose proof Hp as (_ & Hs & _). pose proof Hab as (_ & Hs2 & _). rewrite compare_seq_same, Hs, Hs2.
    destruct (RtpSeqArith.compare_seq (U12.u_seq q) (U12.u_seq b) =? 0)%Z; [split; [constructor; assumption|reflexivity]|].
    destruct (RtpSeqArith.compare_seq (U12.u_seq q) (U12.u_seq b) =? 1)%Z.
    + destruct (U13.ins p t13) as [t' b1]. destruct (C12.insert q t12) as [t2' b2]. cbn [fst snd] in *.
      destruct IH as [IH1 IH2]. split; [constructor; assumption|exact IH2].
    + split; [constructor; [exact Hp|constructor; assumption]|reflexivity].
Qed.

Lemma calc_pos_sim h raw body tail : NetRtpHeader.rtp_body raw h = Ok (body, tail) -> bytes_ok body ->
  U13.calc_pos true u h raw = U12.calc_position pr body.
Proof.
  intros Hb Hok. unfold U13.calc_pos, U12.calc_position. subst pr. destruct (U13.uk_kind u); cbn [pr_of]; try reflexivity.
  - rewrite Hb. cbn [bind]. symmetry. apply RtpNetAgreeProofs.calc_position_avc_agrees. exact Hok.
  - rewrite Hb. cbn [bind]. symmetry. apply RtpNetAgreeProofs.calc_position_hevc_agrees. exact Hok.
Qed.

(* RtpUnpackContainer.Feed *)
Theorem feed_sim w c13 c12 h raw body tail : crel tf c13 c12 ->
  NetRtpHeader.rtp_body raw h = Ok (body, tail) -> (tf = true -> tail = []) -> bytes_ok body -> lenN body < 65536 ->
  match U13.cont_feed true u w c13 h raw with
  | Ok (c', av) =>
      exists st' outs, C12.feed pr rate w c12 (NetRtpHeader.rh_seq h) (NetRtpHeader.rh_ts h) body = Ok (st', outs) /\
                       crel tf c' st' /\ av = map (to_av pt) outs
  | _ => True
  end.
Proof.
  intros Hr Hb Htail Hok Hlen. pose proof Hr as (Hl & Hs & Hd). unfold U13.cont_feed, C12.feed.
  assert (Est : U13.is_stale c13 (NetRtpHeader.rh_seq h) = C12.is_stale c12 (NetRtpHeader.rh_seq h)).
  { unfold U13.is_stale, C12.is_stale. destruct (U13.uc_done c13) as [d|].
    - destruct Hd as [-> ->]. rewrite compare_seq_same. reflexivity.
    - rewrite Hd. reflexivity. }
  rewrite Est. destruct (C12.is_stale c12 (NetRtpHeader.rh_seq h)).
  { exists c12, []. repeat split; auto. }
  rewrite (calc_pos_sim h raw body tail Hb Hok).
  destruct (U12.calc_position pr body) as [pos| |]; cbn [bind]; try exact I.
  set (p := U13.mk_upkt h raw pos). set (q := U12.mk_upkt (NetRtpHeader.rh_seq h) (NetRtpHeader.rh_ts h) body pos).
  assert (Hp : prel tf p q).
  { subst p q. unfold prel, ptail, U13.up_body. cbn [U13.up_raw U13.up_hdr U13.up_seq U13.up_ts U13.up_pos U12.u_body U12.u_seq U12.u_ts U12.u_pos].
    rewrite Hb. repeat split; auto. }
  destruct (ins_sim p q Hp _ _ Hl) as [Hi1 Hi2].
  destruct (U13.ins p (U13.uc_list c13)) as [l13 b13]. destruct (C12.insert q (C12.c_items c12)) as [l12 b12].
  cbn [fst snd] in Hi1, Hi2. subst b12.
  set (c1 := U13.mk_ucont l13 _ _). set (st1 := C12.mk_cstate l12 _ _ _).
  assert (Hr1 : crel tf c1 st1).
  { subst c1 st1. unfold crel. cbn [U13.uc_list U13.uc_size U13.uc_done C12.c_items C12.c_size C12.c_flag C12.c_done].
    split; [exact Hi1|]. split; [rewrite Hs; destruct b13; lia|exact Hd]. }
  assert (Elen : length l13 = length l12) by (eapply Forall2_length'; exact Hi1).
  pose proof (seq_loop_sim (S (length l13)) c1 st1 0 [] Hr1) as Hloop.
  destruct (U13.seq_loop true u (S (length l13)) c1 0 []) as [[[c2 count] av]| |]; cbn [bind]; try exact I.
  destruct Hloop as (st2 & o2 & any & Eloop & Hr2 & Hav & _ & Hany & Hnone). rewrite <- Elen, Eloop. cbn [bind app] in *.
  destruct (0 <? count) eqn:Ecount.
  { assert (any = true) as -> by (apply Hany; apply N.ltb_lt; exact Ecount). exists st2, o2. repeat split; try apply Hr2; auto. }
  apply N.ltb_ge in Ecount. assert (count = 0) by lia. subst count.
  assert (any = false) as -> by (destruct any; [|reflexivity]; assert (0 < 0) by (apply Hany; reflexivity); lia).
  rewrite (Hnone eq_refl) in *. cbn [map] in Hav. subst av.
  pose proof Hr2 as (Hl2 & Hs2 & Hd2). rewrite Hs2.
  destruct (w <=? C12.c_size st2)%Z.
  2:{ exists st2, []. repeat split; try apply Hr2; auto. }
  pose proof (try_sim _ _ Hr2) as Ht.
  destruct (U13.cont_try true u c2) as [[[ok c3] av1]| |]; cbn [bind]; try exact I.
  destruct ok; cbn [negb].
  - destruct Ht as (st3 & o3 & -> & Hr3 & ->). cbn [bind].
    assert (Elen3 : length (U13.uc_list c3) = length (C12.c_items st3)) by (eapply Forall2_length'; apply Hr3).
    pose proof (seq_loop_sim (S (length (U13.uc_list c3))) c3 st3 0 [] Hr3) as Hloop2.
    destruct (U13.seq_loop true u (S (length (U13.uc_list c3))) c3 0 []) as [[[c4 count4] av2]| |]; cbn [bind]; try exact I.
    destruct Hloop2 as (st4 & o4 & any4 & Eloop2 & Hr4 & Hav2 & _). rewrite <- Elen3, Eloop2. cbn [bind app fst] in *.
    exists st4, (o3 ++ o4). subst av2. rewrite map_app. repeat split; try apply Hr4; auto.
  - destruct Ht as (-> & -> & ->). cbn [bind]. destruct Hl2 as [|a b t13 t12 Hab Ht2]; [exact I|].
    eexists _, []. split; [reflexivity|]. split; [|reflexivity].
    unfold crel. cbn [U13.uc_list U13.uc_size U13.uc_done C12.c_items C12.c_size C12.c_flag C12.c_done].
    split; [exact Ht2|]. split; [rewrite ?Hs2; reflexivity|exact Hd2].
Qed.
End Container.
