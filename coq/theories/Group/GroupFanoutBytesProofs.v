(* C01, byte level: what an RTMP consumer receives decodes - with lal's own
   chunk reader - to the published messages: same type, same absolute
   timestamp, same payload (metadata: without @setDataFrame), in order; an
   HTTP-FLV consumer's tags parse back likewise. *)
From Lal Require Import Common.LBytes Common.LBytesProofs Common.Res Rtmp.RtmpChunk Rtmp.RtmpComposer Rtmp.RtmpMetadata
  Rtmp.RtmpRoundtripProofs Flv.FlvTag Flv.FlvProofs Group.GroupMsg Group.GroupFanout Group.GroupFanoutBytes.
From Coq Require Import Lia.
Open Scope N_scope.

(* a published message the RTMP / FLV serialisation applies to *)
Definition pub_ok (with_sdf : bool) (m : GroupMsg.rmsg) : Prop :=
  (rm_type m = 8 \/ rm_type m = 9 \/ rm_type m = 18) /\ rm_ts m < 4294967296 /\
  bytes_ok (conv_payload with_sdf m) /\ lenN (conv_payload with_sdf m) < 16777216.

Definition hp_of (with_sdf : bool) (m : GroupMsg.rmsg) : rtmp_header * bytes :=
  (default_header m (lenN (conv_payload with_sdf m)), conv_payload with_sdf m).

Lemma pub_ok_hp with_sdf m : pub_ok with_sdf m -> hp_ok (hp_of with_sdf m).
Proof.
  intros (Ht & Hts & Hb & Hl). unfold hp_ok, hp_of, hdr_ok, default_header, csid_of_type. cbn [fst snd h_csid h_len h_type h_msid h_ts].
  destruct Ht as [Ht|[Ht|Ht]]; rewrite Ht; cbn; repeat split; try lia; try assumption; try discriminate.
Qed.

Lemma chunk_bytes_core with_sdf m : pub_ok with_sdf m ->
  chunk_bytes with_sdf m
  = Ok (message2chunks_core wv_fixed (N.to_nat local_chunk_size) (fst (hp_of with_sdf m)) None (snd (hp_of with_sdf m))).
Proof.
  intros (_ & _ & _ & Hl). unfold chunk_bytes, message2chunks_default, message2chunks, message2chunks_v, hp_of.
  cbn [fst snd]. unfold u32. rewrite N.mod_small by lia. reflexivity.
Qed.

(* the concatenated units of any sequence of published messages *)
Definition units_bytes (with_sdf : bool) (ms : list GroupMsg.rmsg) : bytes :=
  m2c_all (N.to_nat local_chunk_size) (map (hp_of with_sdf) ms).

Theorem rtmp_units_decode with_sdf ms st :
  Forall (pub_ok with_sdf) ms -> cs_chunk st = local_chunk_size -> all_idle st ->
  exists st' out,
    run_composer st (units_bytes with_sdf ms) = (st', out, err_eof) /\
    map m_hdr out = map (fun m => default_header m (lenN (conv_payload with_sdf m))) ms /\
    map m_payload out = map (conv_payload with_sdf) ms /\ all_idle st'.
Proof.
  intros Hok Hc Hidle.
  assert (Hhp : Forall hp_ok (map (hp_of with_sdf) ms)).
  { apply Forall_map. eapply Forall_impl; [|exact Hok]. intros m Hm. now apply pub_ok_hp. }
  destruct (write_read_seq local_chunk_size (map (hp_of with_sdf) ms) st) as (st' & out & H1 & H2 & H3 & H4 & _);
    try assumption; [reflexivity|].
  exists st', out. unfold units_bytes. split; [exact H1|]. rewrite !map_map in *. cbn [fst snd hp_of] in *.
  repeat split; assumption.
Qed.

(* HTTP-FLV: the tags of any sequence of published messages parse back, with
   lal's reader and with the reference FLV parser *)
Theorem flv_units_decode ms :
  Forall (pub_ok false) ms ->
  spec_parse_tags (length ms) (concat (map tag_bytes ms))
  = Some (map (fun m => (rm_type m, rm_ts m, conv_payload false m)) ms).
Proof.
  intro Hok.
  assert (Hm : map tag_bytes ms = map pack_spec_tag (map (fun m => (rm_type m, rm_ts m, conv_payload false m)) ms)).
  { rewrite map_map. reflexivity. }
  rewrite Hm.
  apply spec_parse_tags_stream; [|rewrite map_length; apply Nat.le_refl].
  apply Forall_map. eapply Forall_impl; [|exact Hok].
  intros m (Ht & Hts & Hb & Hl). unfold spec_tag_wf, tag_wf. repeat split; try assumption.
  destruct Ht as [Ht|[Ht|Ht]]; rewrite Ht; lia.
Qed.
