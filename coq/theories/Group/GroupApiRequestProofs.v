(* Proofs about the HTTP API request layer (GroupApiRequest.v): a value given explicitly is used as
   given, an absent one gets the documented default, and what reaches the relay rules is exactly
   that. *)
From Coq Require Import NArith ZArith List Bool Lia.
From Lal Require Import Group.GroupAdmission Group.GroupApiRequest.
Import ListNotations.
Open Scope N_scope.

Lemma jval_explicit : forall d z, jval d (JInt z) = Some z.
Proof. reflexivity. Qed.
Lemma jval_absent : forall d, jval d JAbsent = Some d.
Proof. reflexivity. Qed.
Lemma jval_null : forall d, jval d JNull = Some 0%Z.
Proof. reflexivity. Qed.
(* the default is used for an absent key only *)
Lemma jval_default_only_if_absent : forall d f z, jval d f = Some z -> f = JAbsent /\ z = d \/ f = JNull /\ z = 0%Z \/ f = JInt z.
Proof. intros d f z H. destruct f; simpl in H; inversion H; subst; auto. Qed.

(* start_relay_pull: field by field *)
Theorem pull_request_fields : forall b r, pull_request b = Some r ->
  pb_url b = true /\
  jval pull_timeout_default (pb_timeout b) = Some (pr_timeout r) /\
  jval pull_retry_default (pb_retry b) = Some (pr_retry r) /\
  jval pull_autostop_default (pb_autostop b) = Some (pr_autostop r) /\
  jval rtsp_mode_default (pb_mode b) = Some (pr_mode r).
Proof.
  intros b r H. unfold pull_request in H. destruct (pb_url b); [|discriminate H].
  destruct (jval pull_timeout_default (pb_timeout b)); [|discriminate H].
  destruct (jval pull_retry_default (pb_retry b)); [|discriminate H].
  destruct (jval pull_autostop_default (pb_autostop b)); [|discriminate H].
  destruct (jval rtsp_mode_default (pb_mode b)); [|discriminate H].
  inversion H; subst. simpl. repeat split.
Qed.

Theorem pull_request_explicit : forall nm t r a m,
  pull_request (mk_pull_body true nm (JInt t) (JInt r) (JInt a) (JInt m)) = Some (mk_pull_req t r a m).
Proof. reflexivity. Qed.

Theorem pull_request_defaults : forall nm,
  pull_request (mk_pull_body true nm JAbsent JAbsent JAbsent JAbsent) = Some (mk_pull_req 10000 0 (-1) 0).
Proof. reflexivity. Qed.

(* one field given, the others not: that one is used as given, whatever its value *)
Theorem pull_request_autostop_explicit : forall nm t r m z req,
  pull_request (mk_pull_body true nm t r (JInt z) m) = Some req -> pr_autostop req = z.
Proof. intros nm t r m z req H. destruct (pull_request_fields _ _ H) as [_ [_ [_ [A _]]]]. simpl in A. inversion A. reflexivity. Qed.
Theorem pull_request_retry_explicit : forall nm t a m z req,
  pull_request (mk_pull_body true nm t (JInt z) a m) = Some req -> pr_retry req = z.
Proof. intros nm t a m z req H. destruct (pull_request_fields _ _ H) as [_ [_ [A _]]]. simpl in A. inversion A. reflexivity. Qed.

Theorem pull_request_without_url : forall nm t r a m, pull_request (mk_pull_body false nm t r a m) = None.
Proof. reflexivity. Qed.

(* the request passes iff the url is there and no field is malformed; the stream_name key plays no part *)
Theorem pull_request_passes : forall b,
  (exists r, pull_request b = Some r) <->
  pb_url b = true /\ pb_timeout b <> JBad /\ pb_retry b <> JBad /\ pb_autostop b <> JBad /\ pb_mode b <> JBad.
Proof.
  intros [u nm t r a m]. unfold pull_request. simpl. split.
  - intros [q H]. destruct u; [|discriminate H]. destruct t, r, a, m; simpl in H; try discriminate H; repeat split; discriminate.
  - intros [-> [Ht [Hr [Ha Hm]]]]. destruct t, r, a, m; try contradiction; simpl; eexists; reflexivity.
Qed.

(* what the server manager is called with *)
Theorem api_start_pull_event : forall s b rt,
  api_event (AStartPull s b rt) =
  match pull_request b with Some r => Some (EStartPull s (pr_retry r) (pr_autostop r) rt) | None => None end.
Proof. reflexivity. Qed.

Theorem api_start_pull_explicit : forall s nm t r a m rt,
  api_event (AStartPull s (mk_pull_body true nm t (JInt r) (JInt a) m) rt) =
  match jval pull_timeout_default t, jval rtsp_mode_default m with
  | Some _, Some _ => Some (EStartPull s r a rt)
  | _, _ => None
  end.
Proof. intros. unfold api_event, pull_request. simpl. destruct (jval pull_timeout_default t); [|reflexivity]. destruct (jval rtsp_mode_default m); reflexivity. Qed.

(* start_rtp_pub *)
Theorem rtp_request_explicit : forall p t f, rtp_request (JInt p) (JInt t) (JInt f) = Some (mk_rtp_req p t f).
Proof. reflexivity. Qed.
Theorem rtp_request_defaults : rtp_request JAbsent JAbsent JAbsent = Some (mk_rtp_req 0 60000 0).
Proof. reflexivity. Qed.
Theorem rtp_request_timeout_explicit : forall p f z req, rtp_request p (JInt z) f = Some req -> rr_timeout req = z.
Proof.
  intros p f z req H. unfold rtp_request in H. destruct (jval rtp_pub_port_default p); [|discriminate H]. simpl in H.
  destruct (jval rtp_pub_tcp_default f); [|discriminate H]. inversion H. reflexivity.
Qed.

(* stop_relay_pull / kick_session: all keys required, nothing defaulted *)
Theorem api_stop_kick : forall s t,
  api_event (AStopPull (Some s)) = Some (EStopPull s) /\ api_event (AStopPull None) = None /\
  api_event (AKick (Some s) (Some t)) = Some (EKick s t) /\
  api_event (AKick None (Some t)) = None /\ api_event (AKick (Some s) None) = None /\ api_event (AKick None None) = None.
Proof. intros. repeat split. Qed.

(* a request answered with "param missing" changes nothing *)
Theorem api_param_missing_no_effect : forall fx cf st c, api_event c = None ->
  api_step fx cf st c = (st, RCode code_param_missing RsNone None, []).
Proof. intros fx cf st c H. unfold api_step. rewrite H. reflexivity. Qed.

(* "stop immediately" asked for explicitly through the API: with no consumer no attempt starts, and
   the caller is told why (unless there is an earlier reason: an input, an attempt in flight) *)
Theorem autostop_immediately_blocks_start : forall g now,
  pp_autostop (g_pp g) = 0%Z -> has_out g = false ->
  snd (fst (pull_if_needed g now)) = false /\
  (has_in g = false -> pp_pulling (g_pp g) = false -> pp_api (g_pp g) = true -> snd (pull_if_needed g now) = RsAutoStop).
Proof.
  intros g now Ha Ho.
  assert (Hs : should_auto_stop g now = true) by (unfold should_auto_stop; rewrite Ha, Ho; reflexivity).
  unfold pull_if_needed, should_start. rewrite Hs. split.
  - destruct (has_in g); [reflexivity|]. destruct (pp_pulling (g_pp g)); [reflexivity|].
    destruct (negb (pp_static (g_pp g)) && negb (pp_api (g_pp g))); reflexivity.
  - intros Hi Hp Hapi. rewrite Hi, Hp, Hapi. rewrite andb_false_r. reflexivity.
Qed.

(* the value that reaches the group is the one in the body *)
Theorem api_autostop_reaches_group : forall s nm t r m rt z e,
  api_event (AStartPull s (mk_pull_body true nm t r (JInt z) m) rt) = Some e ->
  exists retry, e = EStartPull s retry z rt.
Proof.
  intros s nm t r m rt z e H. unfold api_event in H.
  destruct (pull_request (mk_pull_body true nm t r (JInt z) m)) as [q|] eqn:E; [|discriminate H].
  apply pull_request_autostop_explicit in E. inversion H. subst. eexists. reflexivity.
Qed.
