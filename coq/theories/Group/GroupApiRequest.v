(* The HTTP API in front of the admission / relay state machine (GroupAdmission.v):
     pkg/logic/http_api.go   ctrlStartRelayPullHandler, ctrlStopRelayPullHandler, ctrlKickSessionHandler,
                             ctrlStartRtpPubHandler, unmarshalRequestJsonBody
   A request body is a JSON object; what the handlers make of a numeric field depends on whether the
   key is present at all ([JAbsent]: the documented default), present with null ([JNull]: Go's zero
   value), present with an integer ([JInt]: that integer, whatever it is - 0 and -1 included) or
   present with something that is not an integer ([JBad]: the request is answered with "param
   missing" and the server manager is not called).  A request that passes becomes one event of
   GroupAdmission.  No proofs in this file. *)
From Coq Require Import NArith ZArith List Bool.
From Lal Require Import Group.GroupAdmission.
Import ListNotations.
Open Scope N_scope.

Inductive jfield := JAbsent | JNull | JInt (z : Z) | JBad.

(* the documented defaults (lal HTTP API document; logic/var.go, base/t_http_an__api.go) *)
Definition pull_timeout_default : Z := 10000.      (* DefaultApiCtrlStartRelayPullReqPullTimeoutMs *)
Definition pull_retry_default : Z := 0.            (* PullRetryNumNever *)
Definition pull_autostop_default : Z := (-1).      (* AutoStopPullAfterNoOutMsNever *)
Definition rtsp_mode_default : Z := 0.             (* RtspModeTcp *)
Definition rtp_pub_timeout_default : Z := 60000.   (* DefaultApiCtrlStartRtpPubReqTimeoutMs *)
Definition rtp_pub_port_default : Z := 0.
Definition rtp_pub_tcp_default : Z := 0.

Definition jval (d : Z) (f : jfield) : option Z :=
  match f with
  | JAbsent => Some d
  | JNull => Some 0%Z
  | JInt z => Some z
  | JBad => None
  end.

(* start_relay_pull *)
Record pull_body := mk_pull_body {
  pb_url : bool;            (* key "url" present (required) *)
  pb_name : bool;           (* key "stream_name" present; absent: the last path element of the url *)
  pb_timeout : jfield; pb_retry : jfield; pb_autostop : jfield; pb_mode : jfield
}.
Record pull_req := mk_pull_req { pr_timeout : Z; pr_retry : Z; pr_autostop : Z; pr_mode : Z }.

Definition pull_request (b : pull_body) : option pull_req :=
  if pb_url b then
    match jval pull_timeout_default (pb_timeout b), jval pull_retry_default (pb_retry b),
          jval pull_autostop_default (pb_autostop b), jval rtsp_mode_default (pb_mode b) with
    | Some t, Some r, Some a, Some m => Some (mk_pull_req t r a m)
    | _, _, _, _ => None
    end
  else None.

(* start_rtp_pub *)
Record rtp_req := mk_rtp_req { rr_port : Z; rr_timeout : Z; rr_tcp : Z }.
Definition rtp_request (port timeout tcp : jfield) : option rtp_req :=
  match jval rtp_pub_port_default port, jval rtp_pub_timeout_default timeout, jval rtp_pub_tcp_default tcp with
  | Some p, Some t, Some f => Some (mk_rtp_req p t f)
  | _, _, _ => None
  end.

Inductive api_call :=
| AStartPull (s : N) (b : pull_body) (rtmp : bool)          (* POST /api/ctrl/start_relay_pull *)
| AStopPull (s : option N)                                  (* GET /api/ctrl/stop_relay_pull?stream_name= *)
| AKick (s : option N) (t : option ktarget)                 (* POST /api/ctrl/kick_session {stream_name, session_id} *)
| AStartRtpPub (s : option N) (n : N) (port timeout tcp : jfield) (listen : bool).
   (* listen: the port can be bound - the environment's part in the call, not a field of the body *)   (* POST /api/ctrl/start_rtp_pub *)

(* the call the handler makes on the server manager; None: answered with "param missing" (1002) *)
Definition api_event (c : api_call) : option event :=
  match c with
  | AStartPull s b rtmp =>
    match pull_request b with
    | Some r => Some (EStartPull s (pr_retry r) (pr_autostop r) rtmp)
    | None => None
    end
  | AStopPull (Some s) => Some (EStopPull s)
  | AStopPull None => None
  | AKick (Some s) (Some t) => Some (EKick s t)
  | AKick _ _ => None
  | AStartRtpPub (Some s) n port timeout tcp listen =>
    match rtp_request port timeout tcp with
    | Some _ => Some (EPsPub s n listen)
    | None => None
    end
  | AStartRtpPub None _ _ _ _ _ => None
  end.

Definition code_param_missing : N := 1002.

Definition api_step (fx : fixes) (cf : config) (st : state) (c : api_call) : state * result * list notif :=
  match api_event c with
  | Some e => step fx cf st e
  | None => (st, RCode code_param_missing RsNone None, [])
  end.
