(* The liveness sweep (pkg/logic/group__.go disposeInactiveSessions,
   pkg/base/basic_session_stat.go isAlive) and the emptiness test that lets
   ServerManager remove a group (Group.IsInactive).  Independent of the media
   fan-out: the sweep only looks at per-session byte counters. *)
From Lal Require Import Common.LBytes.
Open Scope N_scope.

(* BasicSessionStat: staleStat = counters seen by the previous isAlive call *)
Record sstat := mk_sstat { st_stale : option (N * N) }.

Definition sstat_new : sstat := {| st_stale := None |}.

(* isAlive(readBytesSum, wroteBytesSum): the first call only records *)
Definition is_alive (st : sstat) (r w : N) : (bool * bool) * sstat :=
  match st_stale st with
  | None => ((true, true), {| st_stale := Some (r, w) |})
  | Some (r0, w0) =>
      (* uint64 subtraction: equal iff the difference is 0 *)
      ((negb (u64 (r + 18446744073709551616 - r0) =? 0), negb (u64 (w + 18446744073709551616 - w0) =? 0)),
       {| st_stale := Some (r, w) |})
  end.

Inductive skind := SPubRtmp | SPubRtsp | SSubRtmp | SSubRtsp | SSubFlv | SSubTs | SPush.

Record sess := mk_sess { ss_id : N; ss_kind : skind; ss_stat : sstat; ss_r : N; ss_w : N; ss_closed : bool }.

Definition check_interval : N := 120.   (* base.LogicCheckSessionAliveIntervalSec *)

(* one session at one sweep: publishers are judged by bytes read, subscribers
   by bytes written, relay-push sessions are not looked at *)
Definition sweep_one (s : sess) : sess :=
  match ss_kind s with
  | SPush => s
  | k =>
      let '((ra, wa), st') := is_alive (ss_stat s) (ss_r s) (ss_w s) in
      let alive := match k with SPubRtmp | SPubRtsp => ra | _ => wa end in
      {| ss_id := ss_id s; ss_kind := k; ss_stat := st'; ss_r := ss_r s; ss_w := ss_w s;
         ss_closed := ss_closed s || negb alive |}
  end.

(* Group.Tick(tickCount): the sweep runs when tickCount is a multiple of 120 *)
Definition tick (n : N) (l : list sess) : list sess :=
  if n mod check_interval =? 0 then map sweep_one l else l.

Inductive iev :=
| IAdd (id : N) (k : skind)
| IBytes (id : N) (r w : N)       (* the session's connection read r and wrote w more bytes *)
| ITick (n : N).

Definition istep (l : list sess) (e : iev) : list sess :=
  match e with
  | IAdd id k => l ++ [{| ss_id := id; ss_kind := k; ss_stat := sstat_new; ss_r := 0; ss_w := 0; ss_closed := false |}]
  | IBytes id r w =>
      map (fun s => if ss_id s =? id
                    then {| ss_id := ss_id s; ss_kind := ss_kind s; ss_stat := ss_stat s;
                            ss_r := u64 (ss_r s + r); ss_w := u64 (ss_w s + w); ss_closed := ss_closed s |}
                    else s) l
  | ITick n => tick n l
  end.

Definition irun (h : list iev) : list sess := fold_left istep h [].

(* Group.IsInactive: no input, no output session, no relay pull pending:
   the group ServerManager.RunLoop removes at its next tick *)
Definition group_inactive (has_in has_out pull_alive : bool) : bool :=
  negb has_in && negb has_out && negb pull_alive.
