(* RTSP subscribers of the fan-out model (HandleNewRtspSubSessionDescribe /
   HandleNewRtspSubSessionPlay / feedRtpPacket / feedWaitRtspSubSessions):
   the SDP comes first, the key-frame gate, contiguity after admission. *)
From Lal Require Import Common.LBytes Common.Res Net.NetRtpHeader Group.GroupMsg Group.GroupGopCache Group.GroupFanout
  Group.GroupFanoutProofs.
From Coq Require Import Lia.
Open Scope N_scope.

(* ------------------------------------------------------------------ *)
(* kinds are preserved by every per-consumer function of the model *)

Lemma fin_kind cache key hdr lc pend x c : c_kind (fin cache key hdr lc pend x c) = c_kind c.
Proof.
  unfold fin. destruct (is_rtmp c); [|reflexivity].
  destruct (admitted c); [reflexivity|apply rtmp_visit_kind].
Qed.

Lemma write1_kind l c :
  c_kind (if ckind_eqb (c_kind c) KRtmp && admitted c then c_append c l else c) = c_kind c.
Proof. destruct (ckind_eqb (c_kind c) KRtmp && admitted c); reflexivity. Qed.

Lemma push_step_kind cache lw c : c_kind (push_step cache lw c) = c_kind c.
Proof.
  unfold push_step. destruct (negb (ckind_eqb (c_kind c) KPush)); [reflexivity|].
  destruct (c_fresh c); reflexivity.
Qed.

Lemma flv_step_kind cache key hdr lt c : c_kind (flv_step cache key hdr lt c) = c_kind c.
Proof.
  unfold flv_step. destruct (negb (ckind_eqb (c_kind c) KFlv)); [reflexivity|].
  destruct (c_fresh c); cbn.
  - match goal with |- context [if (if ?a then _ else _) then _ else _] => destruct a end;
      cbn; try destruct (c_wait c); try destruct key; try destruct hdr; reflexivity.
  - destruct (c_wait c); [destruct key; [|destruct hdr]|]; reflexivity.
Qed.

Lemma ts_step_kind cache pat b lt c : c_kind (ts_step cache pat b lt c) = c_kind c.
Proof.
  unfold ts_step. destruct (negb (ckind_eqb (c_kind c) KTs)); [reflexivity|].
  destruct (c_fresh c); cbn.
  - match goal with |- context [if (if ?a then _ else _) then _ else _] => destruct a end;
      cbn; try destruct (c_wait c); try destruct b; reflexivity.
  - destruct (c_wait c); [destruct b|]; reflexivity.
Qed.

(* ... and none of the RTMP / FLV / push / TS functions touches an RTSP session *)
Lemma fin_rtsp cache key hdr lc pend x c : c_kind c = KRtsp -> fin cache key hdr lc pend x c = c.
Proof. intro H. unfold fin, is_rtmp. now rewrite H. Qed.
Lemma write1_rtsp l c : c_kind c = KRtsp -> (if ckind_eqb (c_kind c) KRtmp && admitted c then c_append c l else c) = c.
Proof. intro H. now rewrite H. Qed.
Lemma push_step_rtsp cache lw c : c_kind c = KRtsp -> push_step cache lw c = c.
Proof. intro H. unfold push_step. now rewrite H. Qed.
Lemma flv_step_rtsp cache key hdr lt c : c_kind c = KRtsp -> flv_step cache key hdr lt c = c.
Proof. intro H. unfold flv_step. now rewrite H. Qed.
Lemma ts_step_rtsp cache pat b lt c : c_kind c = KRtsp -> ts_step cache pat b lt c = c.
Proof. intro H. unfold ts_step. now rewrite H. Qed.
Lemma pat_step_rtsp l c : c_kind c = KRtsp -> (if ckind_eqb (c_kind c) KTs && negb (c_fresh c) then c_append c l else c) = c.
Proof. intro H. now rewrite H. Qed.

(* what one publish does to the subscriber list: a composition of maps *)
Lemma publish_subs cf s m : Nat.eqb (length (rm_payload m)) 0 = false ->
  exists F : consumer -> consumer,
    g_subs (publish cf s m) = map F (g_subs s) /\
    (forall c, c_id (F c) = c_id c) /\ (forall c, c_kind (F c) = c_kind c) /\ (forall c, c_kind c = KRtsp -> F c = c).
Proof.
  intro Hne. unfold publish. rewrite Hne. rewrite rtmp_loop_spec.
  set (cache := g_rtmp_cache s). set (key := is_video_key_nalu m). set (hdr := is_hdr_msg m). set (lc := LC (g_next s)).
  set (x := if anytrig cache key hdr lc (g_subs s) then g_merge s else []).
  set (F1 := fin cache key hdr lc [] x).
  set (P := push_step cache (lcw m (g_next s))). set (V := flv_step (g_flv_cache s) key hdr (LT (g_next s))).
  assert (HW : forall l, exists F, (forall subs, map V (map P (write_rtmp_admitted l (map F1 subs))) = map F subs) /\
            (forall c, c_id (F c) = c_id c) /\ (forall c, c_kind (F c) = c_kind c) /\ (forall c, c_kind c = KRtsp -> F c = c)).
  { intro l.
    exists (fun c => V (P ((fun c => if ckind_eqb (c_kind c) KRtmp && admitted c then c_append c l else c) (F1 c)))).
    split; [intro subs; unfold write_rtmp_admitted; now rewrite !map_map|]. split; [|split].
    - intro c. unfold V, P, F1. now rewrite flv_step_id, push_step_id, write1_id, fin_id.
    - intro c. unfold V, P, F1. now rewrite flv_step_kind, push_step_kind, write1_kind, fin_kind.
    - intros c Hk. unfold V, P, F1. rewrite (fin_rtsp _ _ _ _ _ _ c Hk), (write1_rtsp _ c Hk), (push_step_rtsp _ _ c Hk).
      now apply flv_step_rtsp. }
  assert (H0 : exists F, (forall subs, map V (map P (map F1 subs)) = map F subs) /\
            (forall c, c_id (F c) = c_id c) /\ (forall c, c_kind (F c) = c_kind c) /\ (forall c, c_kind c = KRtsp -> F c = c)).
  { exists (fun c => V (P (F1 c))). split; [intro subs; now rewrite !map_map|]. split; [|split].
    - intro c. unfold V, P, F1. now rewrite flv_step_id, push_step_id, fin_id.
    - intro c. unfold V, P, F1. now rewrite flv_step_kind, push_step_kind, fin_kind.
    - intros c Hk. unfold V, P, F1. rewrite (fin_rtsp _ _ _ _ _ _ c Hk), (push_step_rtsp _ _ c Hk). now apply flv_step_rtsp. }
  destruct (has_kind KRtmp _); [destruct (cf_merge cf =? 0); [|destruct (cf_merge cf <=? _)]|]; cbn [g_subs].
  - destruct (HW [LC (g_next s)]) as (F & E & A & B & C). exists F. rewrite E. auto.
  - match goal with |- context [write_rtmp_admitted ?l _] => destruct (HW l) as (F & E & A & B & C) end.
    exists F. rewrite E. auto.
  - destruct H0 as (F & E & A & B & C). exists F. rewrite E. auto.
  - destruct H0 as (F & E & A & B & C). exists F. rewrite E. auto.
Qed.

(* ------------------------------------------------------------------ *)
(* the boundary test feedRtpPacket applies to a packet in state s *)
Definition rtp_boundary_at (s : gstate) (raw : bytes) : bool :=
  match rtp_pt raw with
  | None => false
  | Some pt => match g_sdp s with None => false | Some _ => rtp_is_boundary true (g_vcodec s) pt raw end
  end.

(* what an event does to an RTSP session that is playing *)
Definition rtsp_after (cf : cfg) (s : gstate) (e : ev) (c : consumer) : consumer :=
  match e with
  | EvRtp raw =>
      match rtp_pt raw with
      | Some pt => rtsp_step (cf_rtsp_wait cf) (rtp_boundary_at s raw) (rtp_pt_written pt) (LRtp (g_next_rtp s)) c
      | None => c
      end
  | _ => c
  end.

Lemma find_idp_in id l c : find (idp id) l = Some c -> c_id c = id.
Proof. intro H. apply find_some in H. now apply N.eqb_eq. Qed.

Theorem rtsp_playing_step cf s e id c :
  find_sub s id = Some c -> c_kind c = KRtsp -> c_fresh c = false -> stays e c ->
  find_sub (step cf s e) id = Some (rtsp_after cf s e c).
Proof.
  intros Hfind Hk Hfr Hstay. unfold find_sub in *.
  destruct e as [m|k jid|lid| | |b| |v|pid|raw|]; cbn [step rtsp_after].
  - destruct (Nat.eqb (length (rm_payload m)) 0) eqn:Hne.
    + unfold publish. rewrite Hne. exact Hfind.
    + destruct (publish_subs cf s m Hne) as (F & E & A & _ & C). rewrite E.
      rewrite find_map_id by exact A. rewrite Hfind. cbn [option_map]. now rewrite (C c Hk).
  - destruct (existsb _ _); [exact Hfind|]. unfold set_subs. cbn [g_subs]. now apply find_app_some.
  - cbn [stays] in Hstay.
    destruct (partition (fun x => c_id x =? lid) (g_subs s)) as [gone stay] eqn:Hp. cbn [g_subs].
    change stay with (snd (gone, stay)). rewrite <- Hp. apply find_partition_snd; [exact Hfind|].
    apply N.eqb_neq. exact Hstay.
  - destruct (g_in s); exact Hfind.
  - destruct (negb (g_in s)); [exact Hfind|].
    destruct (partition (fun x => ckind_eqb (c_kind x) KPush) (g_subs s)) as [pushes stay] eqn:Hp. cbn [g_subs].
    change stay with (snd (pushes, stay)). rewrite <- Hp. apply find_partition_snd; [exact Hfind|]. now rewrite Hk.
  - unfold feed_ts. cbn [g_subs]. rewrite find_map_id by (intro; apply ts_step_id). rewrite Hfind. cbn [option_map].
    now rewrite (ts_step_rtsp _ _ _ _ c Hk).
  - cbn [g_subs].
    assert (Hid1 : forall x : consumer, c_id (if ckind_eqb (c_kind x) KTs && negb (c_fresh x) then c_append x [LPat (g_next_pat s)] else x) = c_id x)
      by (intro x; destruct (ckind_eqb (c_kind x) KTs && negb (c_fresh x)); reflexivity).
    rewrite (find_map_id _ id (g_subs s) Hid1). rewrite Hfind. cbn [option_map]. now rewrite (pat_step_rtsp _ c Hk).
  - cbn [g_subs]. rewrite find_map_id by (intro; apply sdp_step_id). rewrite Hfind. cbn [option_map].
    unfold sdp_step. rewrite Hfr. now rewrite Bool.andb_false_r.
  - unfold set_subs. cbn [g_subs]. rewrite find_map_id by (intro; apply play_step_id). rewrite Hfind. cbn [option_map].
    unfold play_step. rewrite Hfr. now rewrite Bool.andb_false_r, Bool.andb_false_l.
  - unfold feed_rtp, feed_rtp_gen, rtp_boundary_at. cbn [g_subs]. destruct (rtp_pt raw) as [pt|]; [|exact Hfind].
    rewrite find_map_id by (intro; apply rtsp_step_id). rewrite Hfind. reflexivity.
  - destruct Hstay.
Qed.

(* ------------------------------------------------------------------ *)
(* the gate, one packet *)

(* nothing is held back: the flag is off in the configuration, or the session no longer waits *)
Definition rtsp_admitted (cf : cfg) (c : consumer) : bool :=
  negb (c_fresh c) && (negb (cf_rtsp_wait cf) || negb (c_wait c)).

Theorem rtsp_waiting_visit boundary written l c :
  c_kind c = KRtsp -> c_fresh c = false -> c_wait c = true ->
  let c' := rtsp_step true boundary written l c in
  c_kind c' = KRtsp /\ c_fresh c' = false /\ c_wait c' = negb boundary /\
  c_out c' = c_out c ++ (if boundary && written then [l] else []).
Proof.
  intros Hk Hf Hw. cbv zeta. unfold rtsp_step. rewrite Hk, Hf, Hw. cbn [ckind_eqb negb orb].
  destruct boundary, written; cbn [andb negb]; csimp; rewrite ?app_nil_r; auto.
Qed.

Theorem rtsp_open_visit waitcfg boundary written l c :
  c_kind c = KRtsp -> c_fresh c = false -> negb waitcfg || negb (c_wait c) = true ->
  let c' := rtsp_step waitcfg boundary written l c in
  c_kind c' = KRtsp /\ c_fresh c' = false /\ c_wait c' = c_wait c /\
  c_out c' = c_out c ++ (if written then [l] else []).
Proof.
  intros Hk Hf Hw. cbv zeta. unfold rtsp_step. rewrite Hk, Hf, Hw. cbn [ckind_eqb negb].
  destruct written; csimp; rewrite ?app_nil_r; auto.
Qed.

(* a session that has not sent PLAY is not touched by any packet *)
Theorem rtsp_not_playing_visit waitcfg boundary written l c :
  c_fresh c = true -> rtsp_step waitcfg boundary written l c = c.
Proof. intro Hf. unfold rtsp_step. rewrite Hf. now destruct (negb (ckind_eqb (c_kind c) KRtsp)). Qed.

(* PLAY: the session waits for a GOP start only when the group knows a video codec *)
Theorem rtsp_play_visit vk id c :
  c_kind c = KRtsp -> c_id c = id -> c_fresh c = true -> c_out c <> [] ->
  let c' := play_step vk id c in
  c_fresh c' = false /\ c_wait c' = (vk && c_wait c) /\ c_out c' = c_out c.
Proof.
  intros Hk Hid Hf Ho. cbv zeta. unfold play_step, no_sdp_yet. rewrite Hk, Hid, Hf, N.eqb_refl.
  destruct (c_out c) eqn:E; [congruence|]. cbn [ckind_eqb andb negb]. csimp. rewrite E. now destruct vk.
Qed.

(* ------------------------------------------------------------------ *)
(* histories: after admission, one label per forwarded packet *)

Definition rtp_unit (n : nat) (raw : bytes) : list label :=
  match rtp_pt raw with Some pt => if rtp_pt_written pt then [LRtp n] else [] | None => [] end.

Fixpoint rtp_units (n : nat) (h : list ev) : list label :=
  match h with
  | [] => []
  | EvRtp raw :: t => rtp_unit n raw ++ rtp_units (S n) t
  | _ :: t => rtp_units n t
  end.

Lemma g_next_rtp_step cf s e :
  g_next_rtp (step cf s e) = match e with EvRtp _ => S (g_next_rtp s) | _ => g_next_rtp s end.
Proof.
  destruct e as [m|k id|id| | |b| |v|pid|raw|]; cbn [step].
  - unfold publish. destruct (Nat.eqb _ 0); [reflexivity|].
    rewrite rtmp_loop_spec.
    destruct (has_kind KRtmp _); [destruct (cf_merge cf =? 0); [|destruct (cf_merge cf <=? _)]|]; reflexivity.
  - destruct (existsb _ _); reflexivity.
  - destruct (partition _ _); reflexivity.
  - destruct (g_in s); reflexivity.
  - destruct (negb (g_in s)); [reflexivity|]. destruct (partition _ _); reflexivity.
  - reflexivity.
  - reflexivity.
  - reflexivity.
  - reflexivity.
  - reflexivity.
  - reflexivity.
Qed.

Lemma stays_of_attached id k e h c :
  c_id c = id -> c_kind c = k -> k <> KPush -> attached id k (e :: h) -> stays e c /\ attached id k h.
Proof.
  intros Hid Hk Hp Hatt. destruct e; cbn [attached stays] in *; try contradiction; try (split; [exact I|exact Hatt]).
  - destruct Hatt as [H1 H2]. split; [congruence|exact H2].
  - destruct Hatt as [H1 H2]. split; [congruence|exact H2].
Qed.

Lemma rtsp_after_admitted cf s e c :
  c_kind c = KRtsp -> rtsp_admitted cf c = true ->
  let c' := rtsp_after cf s e c in
  c_kind c' = KRtsp /\ rtsp_admitted cf c' = true /\
  c_out c' = c_out c ++ match e with EvRtp raw => rtp_unit (g_next_rtp s) raw | _ => [] end.
Proof.
  intros Hk Ha. cbv zeta. unfold rtsp_admitted in Ha. apply andb_prop in Ha. destruct Ha as [Hf Hw].
  apply Bool.negb_true_iff in Hf.
  destruct e; cbn [rtsp_after]; try (unfold rtsp_admitted; rewrite Hf, Hw, app_nil_r; auto).
  unfold rtp_unit. destruct (rtp_pt raw) as [pt|]; [|unfold rtsp_admitted; rewrite Hf, Hw, app_nil_r; auto].
  destruct (rtsp_open_visit (cf_rtsp_wait cf) (rtp_boundary_at s raw) (rtp_pt_written pt) (LRtp (g_next_rtp s)) c Hk Hf Hw)
    as (K1 & K2 & K3 & K4).
  split; [exact K1|]. split; [unfold rtsp_admitted; now rewrite K2, K3, Hw|exact K4].
Qed.

Theorem rtsp_history_admitted cf : forall h s id c,
  find_sub s id = Some c -> c_kind c = KRtsp -> rtsp_admitted cf c = true -> attached id KRtsp h ->
  exists c', find_sub (fold_left (step cf) h s) id = Some c' /\ c_kind c' = KRtsp /\ rtsp_admitted cf c' = true /\
             c_out c' = c_out c ++ rtp_units (g_next_rtp s) h.
Proof.
  induction h as [|e h IH]; intros s id c Hfind Hk Ha Hatt.
  - exists c. cbn. repeat split; try assumption. now rewrite app_nil_r.
  - cbn [fold_left].
    assert (Hid : c_id c = id) by (unfold find_sub in Hfind; now apply find_idp_in in Hfind).
    destruct (stays_of_attached id KRtsp e h c Hid Hk ltac:(discriminate) Hatt) as [Hstay Hatt'].
    assert (Hf : c_fresh c = false).
    { unfold rtsp_admitted in Ha. apply andb_prop in Ha. destruct Ha as [Hf _]. now apply Bool.negb_true_iff in Hf. }
    pose proof (rtsp_playing_step cf s e id c Hfind Hk Hf Hstay) as Hf1.
    destruct (rtsp_after_admitted cf s e c Hk Ha) as (K1 & K2 & K3).
    destruct (IH (step cf s e) id _ Hf1 K1 K2 Hatt') as (c2 & Hf2 & Hk2 & Ha2 & Ho2).
    exists c2. split; [exact Hf2|]. split; [exact Hk2|]. split; [exact Ha2|].
    rewrite Ho2, K3, <- app_assoc. f_equal. rewrite g_next_rtp_step.
    destruct e; cbn [rtp_units]; reflexivity.
Qed.

Theorem rtsp_contiguous_run cf h0 h id c :
  find_sub (run cf h0) id = Some c -> c_kind c = KRtsp -> rtsp_admitted cf c = true -> attached id KRtsp h ->
  exists c', find_sub (run cf (h0 ++ h)) id = Some c' /\ c_kind c' = KRtsp /\ rtsp_admitted cf c' = true /\
             c_out c' = c_out c ++ rtp_units (g_next_rtp (run cf h0)) h.
Proof. intros. rewrite run_app. now apply rtsp_history_admitted. Qed.

(* ... and before: a waiting session receives nothing while no packet is a GOP start *)
Fixpoint quiet (cf : cfg) (s : gstate) (h : list ev) : Prop :=
  match h with
  | [] => True
  | e :: t => match e with EvRtp raw => rtp_boundary_at s raw = false | _ => True end /\ quiet cf (step cf s e) t
  end.

Theorem rtsp_history_waiting cf : cf_rtsp_wait cf = true -> forall h s id c,
  find_sub s id = Some c -> c_kind c = KRtsp -> c_fresh c = false -> c_wait c = true ->
  attached id KRtsp h -> quiet cf s h ->
  find_sub (fold_left (step cf) h s) id = Some c.
Proof.
  intro Hcfg. induction h as [|e h IH]; intros s id c Hfind Hk Hf Hw Hatt Hq; [exact Hfind|].
  cbn [fold_left]. cbn [quiet] in Hq. destruct Hq as [Hq1 Hq2].
  assert (Hid : c_id c = id) by (unfold find_sub in Hfind; now apply find_idp_in in Hfind).
  destruct (stays_of_attached id KRtsp e h c Hid Hk ltac:(discriminate) Hatt) as [Hstay Hatt'].
  pose proof (rtsp_playing_step cf s e id c Hfind Hk Hf Hstay) as Hf1.
  assert (Hsame : rtsp_after cf s e c = c).
  { destruct e; cbn [rtsp_after]; try reflexivity. destruct (rtp_pt raw) as [pt|]; [|reflexivity].
    rewrite Hcfg, Hq1. unfold rtsp_step. rewrite Hk, Hf, Hw. reflexivity. }
  rewrite Hsame in Hf1. now apply IH.
Qed.

(* The gate over histories: a session that is playing and waits receives
   nothing during h1 (no packet of h1 starts a GOP), then the first GOP-start
   packet itself, then one unit per packet of h2: one contiguous run. *)
Theorem rtsp_gate_run cf h0 h1 raw pt h2 id c :
  cf_rtsp_wait cf = true ->
  find_sub (run cf h0) id = Some c -> c_kind c = KRtsp -> c_fresh c = false -> c_wait c = true ->
  attached id KRtsp (h1 ++ EvRtp raw :: h2) ->
  quiet cf (run cf h0) h1 ->
  rtp_pt raw = Some pt -> rtp_boundary_at (run cf (h0 ++ h1)) raw = true ->
  exists c', find_sub (run cf (h0 ++ h1 ++ EvRtp raw :: h2)) id = Some c' /\ rtsp_admitted cf c' = true /\
             c_out c' = c_out c ++ rtp_units (g_next_rtp (run cf (h0 ++ h1))) (EvRtp raw :: h2).
Proof.
  intros Hcfg Hfind Hk Hf Hw Hatt Hq Hpt Hb.
  assert (Hatt1 : attached id KRtsp h1 /\ attached id KRtsp h2).
  { clear -Hatt. induction h1 as [|e h1 IH]; [split; [exact I|exact Hatt]|].
    destruct e; cbn [app attached] in *; try contradiction; try (apply IH; exact Hatt);
      destruct Hatt as [H1 H2]; destruct (IH H2) as [A B]; split; try split; assumption. }
  destruct Hatt1 as [Hatt1 Hatt2].
  assert (H1 : find_sub (run cf (h0 ++ h1)) id = Some c).
  { rewrite run_app. now apply (rtsp_history_waiting cf Hcfg h1 (run cf h0) id c). }
  set (s1 := run cf (h0 ++ h1)) in *.
  assert (Hid : c_id c = id) by (unfold find_sub in Hfind; now apply find_idp_in in Hfind).
  pose proof (rtsp_playing_step cf s1 (EvRtp raw) id c H1 Hk Hf I) as H2.
  cbn [rtsp_after] in H2. rewrite Hpt, Hcfg, Hb in H2.
  destruct (rtsp_waiting_visit true (rtp_pt_written pt) (LRtp (g_next_rtp s1)) c Hk Hf Hw) as (K1 & K2 & K3 & K4).
  set (c1 := rtsp_step true true (rtp_pt_written pt) (LRtp (g_next_rtp s1)) c) in *.
  assert (Ha1 : rtsp_admitted cf c1 = true) by (unfold rtsp_admitted; rewrite K2, K3; cbn; now rewrite Bool.orb_true_r).
  destruct (rtsp_history_admitted cf h2 (step cf s1 (EvRtp raw)) id c1 H2 K1 Ha1 Hatt2) as (c2 & Hf2 & Hk2 & Ha2 & Ho2).
  exists c2. split.
  { replace (h0 ++ h1 ++ EvRtp raw :: h2) with ((h0 ++ h1) ++ EvRtp raw :: h2) by now rewrite <- app_assoc.
    rewrite run_app. cbn [fold_left]. exact Hf2. }
  split; [exact Ha2|].
  rewrite Ho2, K4. cbn [andb rtp_units]. unfold rtp_unit. rewrite Hpt, <- app_assoc, g_next_rtp_step. reflexivity.
Qed.

(* ------------------------------------------------------------------ *)
(* F-34: the gate opens only on a packet of the VIDEO track *)

(* with a codec lal can classify, a boundary is a video-track packet with a positive verdict *)
Lemma boundary_is_video_gop_start v pt raw :
  v <> VOther -> rtp_is_boundary true v pt raw = true -> rtp_is_video pt = true /\ rtp_verdict v raw = true.
Proof. intros Hv H. destruct v; [| |congruence]; cbn [rtp_is_boundary negb orb] in H; now apply andb_prop in H. Qed.

Lemma boundary_at_inv s raw : rtp_boundary_at s raw = true ->
  exists pt, rtp_pt raw = Some pt /\ g_sdp s <> None /\
             (g_vcodec s <> VOther -> rtp_is_video pt = true /\ rtp_verdict (g_vcodec s) raw = true).
Proof.
  unfold rtp_boundary_at. destruct (rtp_pt raw) as [pt|]; [|discriminate]. destruct (g_sdp s); [|discriminate].
  intro H. exists pt. split; [reflexivity|]. split; [discriminate|]. intro Hv. now apply boundary_is_video_gop_start.
Qed.

(* ... so no audio packet is one, whatever its bytes *)
Lemma audio_never_boundary s raw pt :
  rtp_pt raw = Some pt -> rtp_is_video pt = false -> g_vcodec s <> VOther -> rtp_boundary_at s raw = false.
Proof.
  intros Hpt Ha Hv. unfold rtp_boundary_at. rewrite Hpt. destruct (g_sdp s); [|reflexivity].
  destruct (g_vcodec s); [| |congruence]; cbn [rtp_is_boundary negb orb]; now rewrite Ha.
Qed.

(* every continuation either has no GOP start at all or splits at its first one *)
Lemma quiet_or_opens cf : forall h s,
  quiet cf s h \/
  exists h1 raw h2, h = h1 ++ EvRtp raw :: h2 /\ quiet cf s h1 /\ rtp_boundary_at (fold_left (step cf) h1 s) raw = true.
Proof.
  induction h as [|e h IH]; intro s; [left; exact I|].
  assert (Hcase : (exists raw, e = EvRtp raw /\ rtp_boundary_at s raw = true) \/
                  match e with EvRtp raw => rtp_boundary_at s raw = false | _ => True end).
  { destruct e; try (right; exact I). destruct (rtp_boundary_at s raw) eqn:E; [left; now exists raw|right; reflexivity]. }
  destruct Hcase as [(raw & He & Hb)|Hq].
  - right. exists [], raw, h. subst e. repeat split; assumption.
  - destruct (IH (step cf s e)) as [Hq2|(h1 & raw & h2 & Hh & Hq1 & Hb)].
    + left. split; assumption.
    + right. exists (e :: h1), raw, h2. subst h. repeat split; assumption.
Qed.

(* For EVERY history: a session that plays and waits has either received nothing
   at all - audio included - or what it received begins with the first packet
   that passed the gate; and when the SDP in force announces a codec lal can
   classify, that packet belongs to the video track and is a GOP start. *)
Theorem rtsp_first_received cf h0 h id c :
  cf_rtsp_wait cf = true ->
  find_sub (run cf h0) id = Some c -> c_kind c = KRtsp -> c_fresh c = false -> c_wait c = true ->
  attached id KRtsp h ->
  find_sub (run cf (h0 ++ h)) id = Some c \/
  exists h1 raw pt h2,
    h = h1 ++ EvRtp raw :: h2 /\ quiet cf (run cf h0) h1 /\ rtp_pt raw = Some pt /\
    let s1 := run cf (h0 ++ h1) in
    g_sdp s1 <> None /\
    (g_vcodec s1 <> VOther ->
       rtp_is_video pt = true /\ rtp_verdict (g_vcodec s1) raw = true /\ rtp_unit (g_next_rtp s1) raw = [LRtp (g_next_rtp s1)]) /\
    exists c', find_sub (run cf (h0 ++ h)) id = Some c' /\ rtsp_admitted cf c' = true /\
               c_out c' = c_out c ++ rtp_unit (g_next_rtp s1) raw ++ rtp_units (S (g_next_rtp s1)) h2.
Proof.
  intros Hcfg Hfind Hk Hf Hw Hatt.
  destruct (quiet_or_opens cf h (run cf h0)) as [Hq|(h1 & raw & h2 & Hh & Hq & Hb)].
  - left. rewrite run_app. now apply (rtsp_history_waiting cf Hcfg h (run cf h0) id c).
  - right. rewrite <- run_app in Hb. destruct (boundary_at_inv _ _ Hb) as (pt & Hpt & Hsdp & Hvid).
    exists h1, raw, pt, h2. split; [exact Hh|]. split; [exact Hq|]. split; [exact Hpt|]. cbv zeta.
    split; [exact Hsdp|]. split.
    + intro Hv. destruct (Hvid Hv) as [V1 V2]. split; [exact V1|]. split; [exact V2|].
      unfold rtp_unit. rewrite Hpt. unfold rtp_is_video, rtp_video_pt in V1. apply N.eqb_eq in V1. subst pt. reflexivity.
    + subst h. destruct (rtsp_gate_run cf h0 h1 raw pt h2 id c Hcfg Hfind Hk Hf Hw Hatt Hq Hpt Hb) as (c' & F & A & O).
      exists c'. split; [exact F|]. split; [exact A|]. exact O.
Qed.

(* ------------------------------------------------------------------ *)
(* the SDP comes first: whatever an RTSP session has received starts with one
   DESCRIBE response carrying an SDP, followed only by RTP packets *)

Definition is_rtp (l : label) : Prop := exists j, l = LRtp j.
Definition rtsp_ok (c : consumer) : Prop :=
  c_kind c = KRtsp ->
  match c_out c with
  | [] => c_fresh c = true
  | l :: rest => (exists k, l = LSdp k) /\ Forall is_rtp rest
  end.
Definition sdp_ok (s : gstate) : Prop := match g_sdp s with Some l => exists k, l = LSdp k | None => True end.
Definition rtsp_inv (s : gstate) : Prop := Forall rtsp_ok (g_subs s) /\ Forall rtsp_ok (g_gone s) /\ sdp_ok s.

Lemma Forall_map_pres {A} (P : A -> Prop) (f : A -> A) l : (forall x, P x -> P (f x)) -> Forall P l -> Forall P (map f l).
Proof. intros Hf H. induction H; cbn; constructor; auto. Qed.

Lemma rtsp_ok_other (F : consumer -> consumer) :
  (forall c, c_kind (F c) = c_kind c) -> (forall c, c_kind c = KRtsp -> F c = c) -> forall c, rtsp_ok c -> rtsp_ok (F c).
Proof. intros Hk Hr c Hc Hk'. rewrite Hk in Hk'. rewrite (Hr c Hk'). now apply Hc. Qed.

Lemma rtsp_ok_sdp k c : rtsp_ok c -> rtsp_ok (sdp_step (LSdp k) c).
Proof.
  intros Hc. unfold sdp_step. destruct (ckind_eqb (c_kind c) KRtsp && c_fresh c && no_sdp_yet c) eqn:E; [|exact Hc].
  intros _. apply andb_prop in E. destruct E as [_ E]. unfold no_sdp_yet in E.
  rewrite c_out_append. destruct (c_out c); [|discriminate]. cbn [app]. split; [now exists k|constructor].
Qed.

Lemma rtsp_ok_play vk id c : rtsp_ok c -> rtsp_ok (play_step vk id c).
Proof.
  intros Hc. unfold play_step.
  destruct ((c_id c =? id) && ckind_eqb (c_kind c) KRtsp && c_fresh c && negb (no_sdp_yet c)) eqn:E; [|exact Hc].
  intros Hk. rewrite c_kind_set in Hk. specialize (Hc Hk). rewrite c_out_set.
  apply andb_prop in E. destruct E as [_ E]. unfold no_sdp_yet in E. destruct (c_out c); [discriminate|exact Hc].
Qed.

Lemma rtsp_ok_rtp w b wr j c : rtsp_ok c -> rtsp_ok (rtsp_step w b wr (LRtp j) c).
Proof.
  intros Hc. unfold rtsp_step. destruct (negb (ckind_eqb (c_kind c) KRtsp)) eqn:Ek; [exact Hc|].
  destruct (c_fresh c) eqn:Ef; [exact Hc|].
  assert (Hk : c_kind c = KRtsp) by (destruct (c_kind c); try discriminate; reflexivity).
  specialize (Hc Hk).
  assert (Happ : rtsp_ok (c_append c [LRtp j])).
  { intros _. rewrite c_out_append. destruct (c_out c) as [|l rest]; [congruence|]. cbn [app].
    destruct Hc as [H1 H2]. split; [exact H1|]. apply Forall_app. split; [exact H2|]. constructor; [now exists j|constructor]. }
  assert (Hsame : rtsp_ok c) by (intros _; exact Hc).
  assert (Hset : forall x, rtsp_ok x -> c_out x <> [] -> rtsp_ok (c_set x false false)).
  { intros x Hx Hne Hkx. rewrite c_kind_set in Hkx. specialize (Hx Hkx). rewrite c_out_set. destruct (c_out x); [congruence|exact Hx]. }
  assert (Hne : c_out c <> []) by (destruct (c_out c); [congruence|discriminate]).
  destruct wr, (negb w || negb (c_wait c)), b; try assumption; apply Hset; try assumption.
  rewrite c_out_append. destruct (c_out c); discriminate.
Qed.

Lemma Forall_partition {A} (P : A -> Prop) (p : A -> bool) l :
  Forall P l -> Forall P (fst (partition p l)) /\ Forall P (snd (partition p l)).
Proof.
  intro H. induction H as [|x l Hx Hl IH]; [split; constructor|].
  cbn [partition]. destruct (partition p l) as [a b]. cbn [fst snd] in *. destruct IH as [Ha Hb].
  destruct (p x); cbn [fst snd]; split; try constructor; assumption.
Qed.

Lemma rtsp_inv_step cf s e : rtsp_inv s -> rtsp_inv (step cf s e).
Proof.
  intros (Hs & Hg & Hd).
  destruct e as [m|k jid|lid| | |b| |v|pid|raw|]; cbn [step].
  - destruct (Nat.eqb (length (rm_payload m)) 0) eqn:Hne.
    + unfold publish. rewrite Hne. split; [exact Hs|split; [exact Hg|exact Hd]].
    + destruct (publish_subs cf s m Hne) as (F & E & _ & B & C).
      assert (Hg' : g_gone (publish cf s m) = g_gone s /\ g_sdp (publish cf s m) = g_sdp s).
      { unfold publish. rewrite Hne, rtmp_loop_spec.
        destruct (has_kind KRtmp _); [destruct (cf_merge cf =? 0); [|destruct (cf_merge cf <=? _)]|]; split; reflexivity. }
      destruct Hg' as [G1 G2]. unfold rtsp_inv, sdp_ok. rewrite E, G1, G2.
      split; [|split; [exact Hg|exact Hd]]. apply Forall_map_pres; [|exact Hs]. now apply rtsp_ok_other.
  - destruct (existsb _ _); [split; [exact Hs|split; [exact Hg|exact Hd]]|].
    unfold rtsp_inv, sdp_ok, set_subs. cbn [g_subs g_gone g_sdp]. split; [|split; [exact Hg|exact Hd]].
    apply Forall_app. split; [exact Hs|]. constructor; [|constructor].
    intro Hk. unfold new_consumer in *. cbn [c_kind c_out c_fresh] in *. subst k.
    unfold sdp_ok in Hd. destruct (g_sdp s); cbn [opt_list]; [split; [exact Hd|constructor]|reflexivity].
  - destruct (Forall_partition rtsp_ok (fun x => c_id x =? lid) _ Hs) as [Ha Hb].
    destruct (partition _ _) as [gone stay]. cbn [fst snd] in *.
    unfold rtsp_inv, sdp_ok. cbn [g_subs g_gone g_sdp]. split; [exact Hb|]. split; [|exact Hd]. apply Forall_app. now split.
  - destruct (g_in s); split; try exact Hs; split; try exact Hg; exact Hd.
  - destruct (negb (g_in s)); [split; [exact Hs|split; [exact Hg|exact Hd]]|].
    destruct (Forall_partition rtsp_ok (fun x => ckind_eqb (c_kind x) KPush) _ Hs) as [Ha Hb].
    destruct (partition _ _) as [pushes stay]. cbn [fst snd] in *.
    unfold rtsp_inv, sdp_ok. cbn [g_subs g_gone g_sdp]. split; [exact Hb|]. split; [|exact I]. apply Forall_app. now split.
  - unfold feed_ts, rtsp_inv, sdp_ok. cbn [g_subs g_gone g_sdp]. split; [|split; [exact Hg|exact Hd]].
    apply Forall_map_pres; [|exact Hs]. apply rtsp_ok_other; intros; [apply ts_step_kind|now apply ts_step_rtsp].
  - unfold rtsp_inv, sdp_ok. cbn [g_subs g_gone g_sdp]. split; [|split; [exact Hg|exact Hd]].
    apply Forall_map_pres; [|exact Hs].
    apply (rtsp_ok_other (fun c => if ckind_eqb (c_kind c) KTs && negb (c_fresh c) then c_append c [LPat (g_next_pat s)] else c)).
    + intro c. destruct (ckind_eqb (c_kind c) KTs && negb (c_fresh c)); reflexivity.
    + intros c Hk. now apply pat_step_rtsp.
  - unfold rtsp_inv, sdp_ok. cbn [g_subs g_gone g_sdp]. split; [|split; [exact Hg|now eexists]].
    apply Forall_map_pres; [|exact Hs]. intros; now apply rtsp_ok_sdp.
  - unfold rtsp_inv, sdp_ok, set_subs. cbn [g_subs g_gone g_sdp]. split; [|split; [exact Hg|exact Hd]].
    apply Forall_map_pres; [|exact Hs]. intros; now apply rtsp_ok_play.
  - unfold feed_rtp, feed_rtp_gen, rtsp_inv, sdp_ok. cbn [g_subs g_gone g_sdp]. split; [|split; [exact Hg|exact Hd]].
    destruct (rtp_pt raw); [|exact Hs]. apply Forall_map_pres; [|exact Hs]. intros; now apply rtsp_ok_rtp.
  - unfold rtsp_inv, sdp_ok. cbn [g_subs g_gone g_sdp]. split; [constructor|]. split; [|exact I]. apply Forall_app. now split.
Qed.

Theorem rtsp_inv_run cf h : rtsp_inv (run cf h).
Proof.
  unfold run. assert (H0 : rtsp_inv (g_init cf)) by (repeat split; constructor).
  revert H0. generalize (g_init cf). induction h as [|e h IH]; intros s Hs; [exact Hs|].
  cbn [fold_left]. apply IH. now apply rtsp_inv_step.
Qed.

(* every RTSP session that ever existed: SDP first, then RTP only *)
Theorem rtsp_sdp_first cf h c :
  In c (all_consumers (run cf h)) -> c_kind c = KRtsp ->
  c_out c = [] \/ exists k rest, c_out c = LSdp k :: rest /\ Forall is_rtp rest.
Proof.
  intros Hin Hk. destruct (rtsp_inv_run cf h) as (Hs & Hg & _).
  assert (Hc : rtsp_ok c).
  { unfold all_consumers in Hin. apply in_app_or in Hin. destruct Hin as [Hin|Hin].
    - rewrite Forall_forall in Hg. now apply Hg.
    - rewrite Forall_forall in Hs. now apply Hs. }
  specialize (Hc Hk). destruct (c_out c) as [|l rest]; [now left|]. right.
  destruct Hc as [[k Hl] Hr]. subst l. now exists k, rest.
Qed.
