(* Delivery of the accepted input is not disturbed by events about other input sessions:
   the subscribers that receive its media stay the same. *)
From Coq Require Import NArith ZArith List Bool Lia.
From Lal Require Import Group.GroupAdmission Group.GroupAdmissionProofs Group.GroupInvariantProofs.
Import ListNotations.
Open Scope N_scope.

(* the http-flv subscribers of a group that media is written to (broadcastByRtmpMsg, open connections) *)
Definition receivers (st : state) (g : group) : list N :=
  filter (sess_open (st_sess st)) (map snd (filter (fun x => subk_eqb (fst x) SkFlv) (g_subs g))).

(* events whose subject is an input session (publisher of any kind or relay-pull attempt) *)
Definition input_event (st : state) (e : event) : bool :=
  match e with
  | ERtmpPub _ _ _ | ERtspPub _ _ _ | ECustPub _ _ | EPsPub _ _ _
  | EPullSucc _ _ | EPullFail _ _ | EPullDone _ _ | EMedia _ => true
  | EGone n | EKick _ (KConn n) =>
    match find_sess n (st_sess st) with Some x => is_some (slot_of (s_kind x)) | None => true end
  | EKick _ (KAtt _ _) => true
  | _ => false
  end.

Definition keeps2 (s : N) (g : group) (st' : state) : Prop :=
  exists g', get_group st' s = Some g' /\ sim g g' /\ g_subs g' = g_subs g.

Lemma keeps2_here : forall s g st, get_group st s = Some g -> keeps2 s g st.
Proof. intros. exists g. split; [assumption|]. split; [apply sim_refl|reflexivity]. Qed.
Lemma keeps2_same : forall s g st st', st_groups st' = st_groups st -> keeps2 s g st -> keeps2 s g st'.
Proof. unfold keeps2, get_group. intros s g st st' E H. rewrite E. exact H. Qed.
Lemma keeps2_put_other : forall s s' g g2 st, s <> s' -> keeps2 s g st -> keeps2 s g (put_group st s' g2).
Proof.
  unfold keeps2. intros s s' g g2 st Hne [g' [H1 H2]]. exists g'. split; [|assumption].
  rewrite get_group_put. assert (E : N.eqb s s' = false) by (apply N.eqb_neq; assumption). rewrite E. assumption.
Qed.
Lemma keeps2_put_same : forall s g g2 st, sim g g2 -> g_subs g2 = g_subs g -> keeps2 s g (put_group st s g2).
Proof. unfold keeps2. intros s g g2 st H1 H2. exists g2. rewrite get_group_put, N.eqb_refl. split; [reflexivity|split; assumption]. Qed.

Lemma keeps2_get_or_create : forall cf st s s' g st1 g1,
  keeps2 s g st -> get_or_create cf st s' = (st1, g1) ->
  keeps2 s g st1 /\ (s' = s -> sim g g1 /\ g_subs g1 = g_subs g) /\ get_group st1 s' = Some g1.
Proof.
  intros cf st s s' g st1 g1 Hk E. unfold get_or_create in E.
  destruct (get_group st s') as [g0|] eqn:Eg.
  - inversion E; subst. split; [assumption|]. split; [|assumption].
    intros ->. destruct Hk as [g' [H1 H2]]. rewrite H1 in Eg. inversion Eg; subst. assumption.
  - inversion E; subst. split; [|split].
    + apply keeps2_same with (st := put_group st s' (new_group cf (st_gid st + 1) (st_now st))); [reflexivity|].
      apply keeps2_put_other; [|assumption].
      intros ->. destruct Hk as [g' [H1 _]]. rewrite H1 in Eg. discriminate.
    + intros ->. destruct Hk as [g' [H1 _]]. rewrite H1 in Eg. discriminate.
    + change (get_group (put_group st s' (new_group cf (st_gid st + 1) (st_now st))) s' = Some (new_group cf (st_gid st + 1) (st_now st))).
      rewrite get_group_put, N.eqb_refl. reflexivity.
Qed.

Lemma keeps2_admit_pub : forall cf st sl s' n st1 ok g1 s g,
  get_group st s = Some g -> has_in g = true ->
  admit_pub cf st sl s' n true = (st1, ok, g1) -> keeps2 s g st1.
Proof.
  intros cf st sl s' n st1 ok g1 s g Hg Hin E. unfold admit_pub in E.
  destruct (get_or_create cf st s') as [st0 g0] eqn:Eg.
  destruct (keeps2_get_or_create _ _ _ _ _ _ _ (keeps2_here _ _ _ Hg) Eg) as [Hk [Hs Hg0]].
  destruct (N.eq_dec s' s) as [->|Hne].
  - destruct (Hs eq_refl) as [Hsim _]. rewrite (sim_has_in _ _ Hsim), Hin in E. simpl in E. inversion E; subst. assumption.
  - destruct (true && has_in g0).
    + inversion E; subst. assumption.
    + unfold next_pipe in E. inversion E; subst.
      apply keeps2_put_other; [congruence|]. eapply keeps2_same; [|exact Hk]. reflexivity.
Qed.

Lemma keeps2_depart_pub : forall st sl s' n b s g,
  get_group st s = Some g -> occupies (SConn n) s g = false -> keeps2 s g (fst (depart_pub st sl s' n b)).
Proof.
  intros st sl s' n b s g Hg Ho. unfold depart_pub.
  destruct (get_group st s') as [g0|] eqn:Eg; [|apply keeps2_here; assumption]. simpl.
  destruct (N.eq_dec s' s) as [->|Hne].
  - rewrite Hg in Eg. inversion Eg; subst g0. rewrite (occupies_conn_slot _ _ _ sl Ho).
    apply keeps2_put_same; [apply sim_refl|reflexivity].
  - apply keeps2_put_other; [congruence|apply keeps2_here; assumption].
Qed.

Lemma keeps2_pull_del : forall st s s0 g g0 i,
  get_group st s = Some g -> get_group st s0 = Some g0 -> occupies (SAtt s0 i) s g = false ->
  keeps2 s g (put_group st s0 (pull_del fixed_tree g0 i)).
Proof.
  intros st s s0 g g0 i Hg Hg0 Ho. destruct (N.eq_dec s0 s) as [->|Hne].
  - rewrite Hg in Hg0. inversion Hg0; subst g0. apply keeps2_put_same.
    + apply sim_pull_del_foreign; [reflexivity|]. simpl in Ho. rewrite N.eqb_refl in Ho. exact Ho.
    + unfold pull_del. cbn [fx_f10 fixed_tree]. destruct (_ || _); reflexivity.
  - apply keeps2_put_other; [congruence|apply keeps2_here; assumption].
Qed.

Lemma keeps2_finish_att : forall s g st s' a, keeps2 s g st -> keeps2 s g (finish_att st s' a).
Proof. intros s g st s' a H. destruct a; simpl; [eapply keeps2_same; [|exact H]; reflexivity|assumption]. Qed.

(* the group keeps its input side AND its subscriber set *)
Lemma input_event_keeps2 : forall cf st e x s g,
  input_event st e = true -> subject_of e = Some x ->
  get_group st s = Some g -> has_in g = true -> occupies x s g = false ->
  keeps2 s g (fst (fst (step fixed_tree cf st e))).
Proof.
  intros cf st e x s g Hie Hx Hg Hin Ho.
  destruct e; simpl in Hie; try discriminate Hie; simpl in Hx; try discriminate Hx; cbn [step].
  - (* ERtmpPub *)
    destruct (fresh st n); cbn [negb fst]; [|apply keeps2_here; assumption].
    destruct deny; cbn [fst]; [eapply keeps2_same; [|apply keeps2_here; exact Hg]; reflexivity|].
    destruct (admit_pub cf st PsRtmp s0 n true) as [[st1 ok] g1] eqn:E.
    pose proof (keeps2_admit_pub _ _ _ _ _ _ _ _ _ _ Hg Hin E) as Hk.
    destruct ok; cbn [fst]; (eapply keeps2_same; [|exact Hk]); reflexivity.
  - (* ERtspPub *)
    destruct (fresh st n); cbn [negb fst]; [|apply keeps2_here; assumption].
    destruct deny; cbn [fst]; [eapply keeps2_same; [|apply keeps2_here; exact Hg]; reflexivity|].
    destruct (admit_pub cf st PsRtsp s0 n true) as [[st1 ok] g1] eqn:E.
    pose proof (keeps2_admit_pub _ _ _ _ _ _ _ _ _ _ Hg Hin E) as Hk.
    destruct ok; cbn [fst]; (eapply keeps2_same; [|exact Hk]); reflexivity.
  - (* ECustPub *)
    destruct (fresh st n); cbn [negb fst]; [|apply keeps2_here; assumption].
    destruct (admit_pub cf st PsCust s0 n true) as [[st1 ok] g1] eqn:E.
    pose proof (keeps2_admit_pub _ _ _ _ _ _ _ _ _ _ Hg Hin E) as Hk.
    destruct ok; cbn [fst]; (eapply keeps2_same; [|exact Hk]); reflexivity.
  - (* EPsPub *)
    destruct (fresh st n); cbn [negb fst]; [|apply keeps2_here; assumption].
    cbn [fx_f09 fixed_tree].
    destruct (admit_pub cf st PsPs s0 n true) as [[st1 ok] g1] eqn:E.
    pose proof (keeps2_admit_pub _ _ _ _ _ _ _ _ _ _ Hg Hin E) as Hk.
    destruct ok; cbn [fst]; [destruct listen; cbn [fst]|]; try ((eapply keeps2_same; [|exact Hk]); reflexivity).
    destruct (get_or_create cf st s0) as [st0 g0] eqn:E0.
    destruct (keeps2_get_or_create _ _ _ _ _ _ _ (keeps2_here _ _ _ Hg) E0) as [Hk0 _].
    eapply keeps2_same; [|exact Hk0]. reflexivity.
  - (* EGone of a publisher *)
    inversion Hx; subst x.
    destruct (find_sess n (st_sess st)) as [y|]; cbn [fst]; [|apply keeps2_here; assumption].
    destruct (s_gone y); cbn [fst]; [apply keeps2_here; assumption|].
    destruct (s_kind y); simpl in Hie; try discriminate Hie; cbn [fst]; try (apply keeps2_here; assumption);
    match goal with
    | |- context[depart_pub ?a ?b ?c ?d ?e] =>
        pose proof (keeps2_depart_pub a b c d e s g) as Hd; destruct (depart_pub a b c d e) as [st1 ns]; cbn [fst] in *; apply Hd
    end; try assumption.
    destruct (fx_f26 fixed_tree && _); assumption.
  - (* EKick *)
    destruct (get_group st s0) as [g0|] eqn:Eg0; cbn [fst]; [|apply keeps2_here; assumption].
    unfold kick_group. destruct t as [n|s' i].
    + inversion Hx; subst x.
      destruct (find_sess n (st_sess st)) as [y|]; cbn [fst]; [|apply keeps2_here; assumption].
      pose proof (occupies_conn_slot _ _ _ PsPs Ho) as Hps. simpl in Hps.
      destruct (s_kind y); simpl in Hie; try discriminate Hie; cbn [fst]; try (apply keeps2_here; assumption);
        match goal with |- context[if ?c then _ else _] => destruct c eqn:Ec end; cbn [fst];
        try (apply keeps2_here; assumption);
        try (eapply keeps2_same; [|apply keeps2_here; exact Hg]; reflexivity).
      destruct (N.eq_dec s0 s) as [->|Hne].
      * rewrite Hg in Eg0. inversion Eg0; subst g0. rewrite Hps in Ec. discriminate.
      * apply keeps2_put_other; [congruence|]. eapply keeps2_same; [|apply keeps2_here; exact Hg]. reflexivity.
    + inversion Hx; subst x. destruct (N.eqb s' s0 && _) eqn:Ec; cbn [fst]; [|apply keeps2_here; assumption].
      destruct (N.eq_dec s0 s) as [->|Hne].
      * rewrite Hg in Eg0. inversion Eg0; subst g0. simpl in Ho. rewrite Ho in Ec. discriminate.
      * destruct (stop_and_del _ _ _) as [[g1 a] ns]. cbn [fst].
        apply keeps2_finish_att. apply keeps2_put_other; [congruence|apply keeps2_here; assumption].
  - (* EPullSucc *)
    inversion Hx; subst x.
    destruct (find_att s0 i (st_atts st)) as [a|]; cbn [fst]; [|apply keeps2_here; assumption].
    destruct (get_group st s0) as [g0|] eqn:Eg0; cbn [fst]; [|apply keeps2_here; assumption].
    destruct (a_state a); cbn [fst]; try (apply keeps2_here; assumption).
    destruct (has_in g0 || _) eqn:Ei; cbn [fst].
    + eapply keeps2_same with (st := put_group st s0 _); [reflexivity|]. apply keeps2_pull_del; assumption.
    + destruct (N.eq_dec s0 s) as [->|Hne].
      * rewrite Hg in Eg0. inversion Eg0; subst g0. rewrite Hin in Ei. discriminate.
      * eapply keeps2_same with (st := put_group (st_set_pipe st (st_pipe st + 1)) s0 _); [reflexivity|].
        apply keeps2_put_other; [congruence|]. eapply keeps2_same; [|apply keeps2_here; exact Hg]. reflexivity.
  - (* EPullFail *)
    inversion Hx; subst x.
    destruct (find_att s0 i (st_atts st)) as [a|]; cbn [fst]; [|apply keeps2_here; assumption].
    destruct (get_group st s0) as [g0|] eqn:Eg0; cbn [fst]; [|apply keeps2_here; assumption].
    destruct (a_state a); cbn [fst]; try (apply keeps2_here; assumption).
    eapply keeps2_same with (st := put_group st s0 _); [reflexivity|]. apply keeps2_pull_del; assumption.
  - (* EPullDone *)
    inversion Hx; subst x.
    destruct (find_att s0 i (st_atts st)) as [a|]; cbn [fst]; [|apply keeps2_here; assumption].
    destruct (get_group st s0) as [g0|] eqn:Eg0; cbn [fst]; [|apply keeps2_here; assumption].
    destruct (a_state a); cbn [fst]; try (apply keeps2_here; assumption).
    eapply keeps2_same with (st := put_group st s0 _); [reflexivity|]. apply keeps2_pull_del; assumption.
  - (* EMedia *)
    destruct (find_sess n (st_sess st)) as [y|]; cbn [fst]; [|apply keeps2_here; assumption].
    destruct (s_kind y); cbn [fst]; try (apply keeps2_here; assumption);
    match goal with |- context[if ?c then _ else _] => destruct c end; apply keeps2_here; assumption.
Qed.

(* ---- the subscribers' connections are not touched ---------------------------------------------------------------- *)
Lemma sess_open_add : forall l x m y, find_sess m l = Some y -> sess_open (l ++ [x]) m = sess_open l m.
Proof. intros l x m y H. unfold sess_open. rewrite find_sess_app, H. reflexivity. Qed.

Lemma sess_open_upd_other : forall f l n m, m <> n -> (forall y, s_id (f y) = s_id y) ->
  sess_open (upd_sess n f l) m = sess_open l m.
Proof.
  intros f l n m Hne Hf. unfold sess_open. rewrite find_sess_upd by assumption.
  assert (E : N.eqb m n = false) by (apply N.eqb_neq; assumption). rewrite E. reflexivity.
Qed.

Lemma admit_pub_sess : forall cf st sl s n c, st_sess (fst (fst (admit_pub cf st sl s n c))) = st_sess st.
Proof.
  intros. unfold admit_pub. pose proof (get_or_create_sess cf st s) as H.
  destruct (get_or_create cf st s) as [st1 g]. simpl in H. destruct (c && has_in g); cbn [fst]; [assumption|].
  unfold next_pipe. cbn [fst snd]. exact H.
Qed.

Lemma depart_pub_sess : forall st sl s n b, st_sess (fst (depart_pub st sl s n b)) = st_sess st.
Proof. intros. unfold depart_pub. destruct (get_group st s); reflexivity. Qed.

Lemma vsess_found : forall st m c, vsess st m = Some c -> exists y, find_sess m (st_sess st) = Some y /\ core y = c.
Proof. intros st m c H. unfold vsess, view in H. destruct (find_sess m (st_sess st)) as [y|]; [|discriminate]. exists y. split; [reflexivity|]. inversion H. reflexivity. Qed.

Lemma input_event_sess_open : forall cf st e m kd s1 a b k,
  vsess st m = Some (kd, s1, a, b) -> subk_of kd = Some k -> input_event st e = true ->
  sess_open (st_sess (fst (fst (step fixed_tree cf st e)))) m = sess_open (st_sess st) m.
Proof.
  intros cf st e m kd s1 a b k Hv Hk Hie. destruct (vsess_found _ _ _ Hv) as [y [Hy Hc]].
  assert (Hkind : s_kind y = kd) by (unfold core in Hc; congruence).
  assert (Hother : forall n z, find_sess n (st_sess st) = Some z -> is_some (slot_of (s_kind z)) = true -> m <> n).
  { intros n z Hz Hs ->. rewrite Hy in Hz. inversion Hz; subst z. rewrite Hkind, (subk_slot_none _ _ Hk) in Hs. discriminate. }
  destruct e; simpl in Hie; try discriminate Hie; cbn [step].
  - destruct (fresh st n); cbn [negb fst]; [|reflexivity].
    destruct deny; cbn [fst]; [apply (sess_open_add _ _ _ y Hy)|].
    pose proof (admit_pub_sess cf st PsRtmp s n true) as Hs.
    destruct (admit_pub cf st PsRtmp s n true) as [[st1 ok] g1]. cbn [fst] in Hs.
    destruct ok; cbn [fst]; unfold add_sess; cbn [st_sess st_set_sess]; rewrite Hs; apply (sess_open_add _ _ _ y Hy).
  - destruct (fresh st n); cbn [negb fst]; [|reflexivity].
    destruct deny; cbn [fst]; [apply (sess_open_add _ _ _ y Hy)|].
    pose proof (admit_pub_sess cf st PsRtsp s n true) as Hs.
    destruct (admit_pub cf st PsRtsp s n true) as [[st1 ok] g1]. cbn [fst] in Hs.
    destruct ok; cbn [fst]; unfold add_sess; cbn [st_sess st_set_sess]; rewrite Hs; apply (sess_open_add _ _ _ y Hy).
  - destruct (fresh st n); cbn [negb fst]; [|reflexivity].
    pose proof (admit_pub_sess cf st PsCust s n true) as Hs.
    destruct (admit_pub cf st PsCust s n true) as [[st1 ok] g1]. cbn [fst] in Hs.
    destruct ok; cbn [fst]; unfold add_sess; cbn [st_sess st_set_sess]; rewrite Hs; apply (sess_open_add _ _ _ y Hy).
  - destruct (fresh st n); cbn [negb fst]; [|reflexivity]. cbn [fx_f09 fixed_tree].
    pose proof (admit_pub_sess cf st PsPs s n true) as Hs.
    destruct (admit_pub cf st PsPs s n true) as [[st1 ok] g1]. cbn [fst] in Hs.
    destruct ok; cbn [fst]; [destruct listen; cbn [fst]|]; unfold add_sess; cbn [st_sess st_set_sess];
      try rewrite Hs; try rewrite (get_or_create_sess cf st s); apply (sess_open_add _ _ _ y Hy).
  - (* EGone *)
    destruct (find_sess n (st_sess st)) as [z|] eqn:Ez; cbn [fst]; [|reflexivity].
    destruct (s_gone z); cbn [fst]; [reflexivity|].
    assert (Hmn : m <> n) by (apply (Hother n z Ez); exact Hie).
    destruct (s_kind z); simpl in Hie; try discriminate Hie; cbn [fst]; try reflexivity;
    match goal with
    | |- context[depart_pub ?a ?b ?c ?d ?e] =>
        pose proof (depart_pub_sess a b c d e) as Hd; destruct (depart_pub a b c d e) as [st1 ns]; cbn [fst] in *; rewrite Hd
    end.
    + unfold gone_sess. cbn [st_sess st_set_sess]. apply sess_open_upd_other; [assumption|reflexivity].
    + unfold gone_sess. cbn [st_sess st_set_sess]. apply sess_open_upd_other; [assumption|reflexivity].
    + destruct (fx_f26 fixed_tree && _); unfold gone_sess, close_sess; cbn [st_sess st_set_sess];
        rewrite !sess_open_upd_other by (try assumption; reflexivity); reflexivity.
  - (* EKick *)
    destruct (get_group st s) as [g0|]; cbn [fst]; [|reflexivity].
    unfold kick_group. destruct t as [n|s' i].
    + destruct (find_sess n (st_sess st)) as [z|] eqn:Ez; cbn [fst]; [|reflexivity].
      assert (Hmn : m <> n) by (apply (Hother n z Ez); exact Hie).
      destruct (s_kind z); simpl in Hie; try discriminate Hie; cbn [fst]; try reflexivity;
        match goal with |- context[if ?c then _ else _] => destruct c end; cbn [fst]; try reflexivity;
        unfold close_sess; cbn [st_sess st_set_sess put_group st_set_groups]; apply sess_open_upd_other; try assumption; reflexivity.
    + destruct (_ && _); cbn [fst]; [|reflexivity].
      destruct (stop_and_del _ _ _) as [[g1 a0] ns]. cbn [fst]. destruct a0; reflexivity.
  - (* EPullSucc *)
    destruct (find_att s i (st_atts st)) as [a0|]; cbn [fst]; [|reflexivity].
    destruct (get_group st s) as [g0|]; cbn [fst]; [|reflexivity].
    destruct (a_state a0); cbn [fst]; try reflexivity. destruct (has_in g0 || _); reflexivity.
  - (* EPullFail *)
    destruct (find_att s i (st_atts st)) as [a0|]; cbn [fst]; [|reflexivity].
    destruct (get_group st s) as [g0|]; cbn [fst]; [|reflexivity].
    destruct (a_state a0); reflexivity.
  - (* EPullDone *)
    destruct (find_att s i (st_atts st)) as [a0|]; cbn [fst]; [|reflexivity].
    destruct (get_group st s) as [g0|]; cbn [fst]; [|reflexivity].
    destruct (a_state a0); reflexivity.
  - (* EMedia *)
    destruct (find_sess n (st_sess st)) as [z|]; cbn [fst]; [|reflexivity].
    destruct (s_kind z); cbn [fst]; try reflexivity; match goal with |- context[if ?c then _ else _] => destruct c end; reflexivity.
Qed.

(* An event about an input session other than the accepted input - refusal of a publisher or of
   start_rtp_pub, departure or kick of a session that is not the input, the success / failure / end
   of a relay pull that is not attached, media of another session - leaves the input slots, the
   pipeline, the Group object, the subscriber set and the set of http-flv subscribers its media is
   delivered to exactly as they were. *)
Theorem input_event_delivery : forall cf h e x s g,
  let st := fst (run fixed_tree cf init_state h) in
  input_event st e = true -> subject_of e = Some x ->
  get_group st s = Some g -> has_in g = true -> occupies x s g = false ->
  exists g', get_group (fst (fst (step fixed_tree cf st e))) s = Some g' /\ sim g g' /\ g_subs g' = g_subs g /\
             receivers (fst (fst (step fixed_tree cf st e))) g' = receivers st g.
Proof.
  intros cf h e x s g st Hie Hx Hg Hin Ho.
  destruct (input_event_keeps2 cf st e x s g Hie Hx Hg Hin Ho) as [g' [G1 [G2 G3]]].
  exists g'. split; [assumption|]. split; [assumption|]. split; [assumption|].
  pose proof (inv_s_run cf h init_state [] inv_s_init) as HI. fold st in HI.
  unfold receivers. rewrite G3. apply filter_ext_in. intros m Hm.
  apply in_map_iff in Hm. destruct Hm as [[k m'] [E1 Hin2]]. simpl in E1. subst m'.
  apply filter_In in Hin2. destruct Hin2 as [Hin2 _].
  destruct (inv_entry _ _ HI s g Hg) as [_ E2]. destruct (E2 k m Hin2) as [kd [A B]].
  eapply input_event_sess_open; eassumption.
Qed.

(* ---- any number of such events -------------------------------------------------------------------------------------- *)
Lemma run_app_fst : forall fx cf h1 h2 st,
  fst (run fx cf st (h1 ++ h2)) = fst (run fx cf (fst (run fx cf st h1)) h2).
Proof.
  intros fx cf h1. induction h1 as [|e t IH]; intros h2 st; simpl; [reflexivity|].
  destruct (step fx cf st e) as [[st1 r] ns]. specialize (IH h2 st1).
  destruct (run fx cf st1 (t ++ h2)) as [a b]. destruct (run fx cf st1 t) as [c d]. simpl in *. exact IH.
Qed.

(* every event of es is, when it happens, about an input session other than the accepted input of stream s *)
Fixpoint all_foreign (cf : config) (st : state) (s : N) (es : list event) : Prop :=
  match es with
  | [] => True
  | e :: t =>
    (exists x g, input_event st e = true /\ subject_of e = Some x /\ get_group st s = Some g /\
                 has_in g = true /\ occupies x s g = false) /\
    all_foreign cf (fst (fst (step fixed_tree cf st e))) s t
  end.

(* The accepted input after the history h ++ es is the accepted input after h - same slots, pipeline,
   Group object, subscribers and media receivers - whatever foreign input events es consists of:
   the history without those events. *)
Theorem foreign_events_delivery : forall cf es h s g,
  let st := fst (run fixed_tree cf init_state h) in
  get_group st s = Some g -> all_foreign cf st s es ->
  let st' := fst (run fixed_tree cf init_state (h ++ es)) in
  exists g', get_group st' s = Some g' /\ sim g g' /\ g_subs g' = g_subs g /\ receivers st' g' = receivers st g.
Proof.
  intros cf es. induction es as [|e t IH]; intros h s g st Hg Hall st'.
  - subst st'. rewrite app_nil_r. exists g. split; [assumption|]. split; [apply sim_refl|]. split; reflexivity.
  - simpl in Hall. destruct Hall as [[x [g0 [A [B [C [D E]]]]]] Hrest].
    rewrite Hg in C. inversion C; subst g0.
    destruct (input_event_delivery cf h e x s g A B Hg D E) as [g1 [G1 [G2 [G3 G4]]]].
    assert (Hst1 : fst (run fixed_tree cf init_state (h ++ [e])) = fst (fst (step fixed_tree cf st e))).
    { rewrite run_app_fst. fold st. simpl. destruct (step fixed_tree cf st e) as [[a b] c]. reflexivity. }
    specialize (IH (h ++ [e]) s g1). cbv zeta in IH. rewrite Hst1 in IH. specialize (IH G1 Hrest).
    destruct IH as [g2 [I1 [I2 [I3 I4]]]].
    subst st'. replace (h ++ e :: t) with ((h ++ [e]) ++ t) by (rewrite <- app_assoc; reflexivity).
    exists g2. split; [assumption|]. split; [eapply sim_trans; eassumption|]. split; [congruence|]. rewrite I4. exact G4.
Qed.
