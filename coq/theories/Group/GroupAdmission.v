(* Model of the admission / relay state machine of lal's logic package:
     pkg/logic/group__in.go        Add*PubSession, StartRtpPub, Add*PullSession, del*Session, addIn, delIn
     pkg/logic/group__.go          hasInSession, Tick, Dispose, KickSession, GetStat, IsInactive
     pkg/logic/group__relay_pull.go pullProxy, shouldStartPull, shouldAutoStopPull, pullIfNeeded, tickPullModule, stopPull, kickPull
     pkg/logic/group__relay_push.go startPushIfNeeded, stopPushIfNeeded, Add/DelRtmpPushSession
     pkg/logic/group__out_sub.go   Add*SubSession, HandleNewRtspSubSession*, Del*SubSession, addSub
     pkg/logic/group_manager.go    SimpleGroupManager (stream name -> group)
     pkg/logic/server_manager__.go OnNew*/OnDel* callbacks, tick body of RunLoop, Dispose, Add/DelCustomizePubSession
     pkg/logic/server_manager__api.go CtrlStartRelayPull / CtrlStopRelayPull / CtrlKickSession / CtrlStartRtpPub, StatGroup
     pkg/rtmp/server.go, pkg/rtsp/server.go, pkg/rtsp/server_command_session.go
                                   the server shells: which OnDel* callback follows a refusal
   One [event] is one serialised happening (a callback, an API call, a tick, the
   end of a connection, the outcome of a relay attempt).  The asynchronous
   completions lal performs in its own goroutines for sessions lal itself has
   disposed (the Del of a relay-pull session, of a PS publisher, of a
   relay-push session) are part of the step that disposed the session, after
   the callback that did so has returned; this is the serialisation the harness
   enforces (it awaits that Del before the next event).

   [fixes] selects between the pinned tree (all false) and the repaired code.
   No proofs in this file. *)
From Coq Require Import NArith ZArith List Bool.
Import ListNotations.
Open Scope N_scope.

Record fixes := mk_fixes {
  fx_f09 : bool;   (* StartRtpPub refuses when the group has an input *)
  fx_f10 : bool;   (* delPullSession checks the identity of the session *)
  fx_f11 : bool;   (* a refused RTSP ANNOUNCE / DESCRIBE is not reported as a departed session *)
  fx_f14 : bool;   (* a relay pull that connects after stop_relay_pull disabled it is not attached *)
  fx_f26 : bool;   (* a deleted customize publisher (or one whose group was disposed) is disposed *)
  fx_f27 : bool    (* a relay push that connects when no rtmp/rtsp publisher is present is not attached *)
}.
Definition pinned_tree : fixes := mk_fixes false false false false false false.
Definition fixed_tree : fixes := mk_fixes true true true true true true.

(* configuration of the server: static relay pull on/off, number of relay-push targets *)
Record config := mk_config { cf_static : bool; cf_npush : nat }.

Inductive subk := SkRtmp | SkFlv | SkTs | SkRtsp.
Definition subk_eqb (a b : subk) : bool :=
  match a, b with
  | SkRtmp, SkRtmp | SkFlv, SkFlv | SkTs, SkTs | SkRtsp, SkRtsp => true
  | _, _ => false
  end.

Inductive skind := KRtmpPub | KRtmpSub | KRtspPub | KRtspSub | KFlvSub | KTsSub | KCustPub | KPsPub.

(* pullProxy *)
Record pullp := mk_pullp {
  pp_static : bool;          (* staticRelayPullEnable *)
  pp_api : bool;             (* apiEnable *)
  pp_rtmp_url : bool;        (* strings.HasPrefix(pullUrl, "rtmp") *)
  pp_retry : Z;              (* pullRetryNum *)
  pp_autostop : Z;           (* autoStopPullAfterNoOutMs *)
  pp_count : Z;              (* startCount *)
  pp_last : Z;               (* lastHasOutTs *)
  pp_pulling : bool;         (* isSessionPulling *)
  pp_rtmp : option N;        (* rtmpSession: index of the attached attempt *)
  pp_rtsp : option N         (* rtspSession *)
}.

Record push := mk_push { pu_pushing : bool; pu_att : bool }.   (* pushProxy: isPushing, pushSession != nil *)

Record group := mk_group {
  g_id : N;                  (* identity of the Group object *)
  g_rtmp : option N;         (* rtmpPubSession *)
  g_rtsp : option N;         (* rtspPubSession *)
  g_cust : option N;         (* customizePubSession *)
  g_ps : option N;           (* psPubSession *)
  g_pp : pullp;
  g_pipe : option N;         (* rtmp2MpegtsRemuxer: the per-input pipeline created by addIn *)
  g_subs : list (subk * N);  (* the subscriber sets *)
  g_push : list push;        (* url2PushProxy, one entry per configured target *)
  g_disposed : bool          (* Dispose ran: subscriber sets are nil *)
}.

(* ---- field updates ------------------------------------------------------ *)
Definition pp_set_run (p : pullp) (pulling : bool) (r s : option N) : pullp :=
  mk_pullp (pp_static p) (pp_api p) (pp_rtmp_url p) (pp_retry p) (pp_autostop p) (pp_count p) (pp_last p)
           pulling r s.
Definition pp_set_count (p : pullp) (c : Z) : pullp :=
  mk_pullp (pp_static p) (pp_api p) (pp_rtmp_url p) (pp_retry p) (pp_autostop p) c (pp_last p)
           (pp_pulling p) (pp_rtmp p) (pp_rtsp p).
Definition pp_set_last (p : pullp) (t : Z) : pullp :=
  mk_pullp (pp_static p) (pp_api p) (pp_rtmp_url p) (pp_retry p) (pp_autostop p) (pp_count p) t
           (pp_pulling p) (pp_rtmp p) (pp_rtsp p).
Definition pp_set_api (p : pullp) (a : bool) : pullp :=
  mk_pullp (pp_static p) a (pp_rtmp_url p) (pp_retry p) (pp_autostop p) (pp_count p) (pp_last p)
           (pp_pulling p) (pp_rtmp p) (pp_rtsp p).
Definition pp_set_req (p : pullp) (rtmp : bool) (retry autostop : Z) : pullp :=
  mk_pullp (pp_static p) true rtmp retry autostop (pp_count p) (pp_last p)
           (pp_pulling p) (pp_rtmp p) (pp_rtsp p).

Definition g_set_pubs (g : group) (a b c d : option N) : group :=
  mk_group (g_id g) a b c d (g_pp g) (g_pipe g) (g_subs g) (g_push g) (g_disposed g).
Definition g_set_pp (g : group) (p : pullp) : group :=
  mk_group (g_id g) (g_rtmp g) (g_rtsp g) (g_cust g) (g_ps g) p (g_pipe g) (g_subs g) (g_push g) (g_disposed g).
Definition g_set_pipe (g : group) (p : option N) : group :=
  mk_group (g_id g) (g_rtmp g) (g_rtsp g) (g_cust g) (g_ps g) (g_pp g) p (g_subs g) (g_push g) (g_disposed g).
Definition g_set_subs (g : group) (s : list (subk * N)) : group :=
  mk_group (g_id g) (g_rtmp g) (g_rtsp g) (g_cust g) (g_ps g) (g_pp g) (g_pipe g) s (g_push g) (g_disposed g).
Definition g_set_push (g : group) (p : list push) : group :=
  mk_group (g_id g) (g_rtmp g) (g_rtsp g) (g_cust g) (g_ps g) (g_pp g) (g_pipe g) (g_subs g) p (g_disposed g).
Definition g_set_disposed (g : group) : group :=
  mk_group (g_id g) (g_rtmp g) (g_rtsp g) (g_cust g) (g_ps g) (g_pp g) (g_pipe g) (g_subs g) (g_push g) true.

Definition is_some {A} (o : option A) : bool := match o with Some _ => true | None => false end.
Definition opt_is (o : option N) (n : N) : bool := match o with Some m => N.eqb m n | None => false end.

(* ---- predicates of group__.go ------------------------------------------- *)
Definition has_pub (g : group) : bool :=
  is_some (g_rtmp g) || is_some (g_rtsp g) || is_some (g_cust g) || is_some (g_ps g).
Definition has_pull (g : group) : bool := is_some (pp_rtmp (g_pp g)) || is_some (pp_rtsp (g_pp g)).
Definition has_in (g : group) : bool := has_pub g || has_pull g.
Definition has_sub (g : group) : bool := match g_subs g with [] => false | _ => true end.
Definition has_push (g : group) : bool := existsb (fun p => pu_pushing p && pu_att p) (g_push g).
Definition has_out (g : group) : bool := has_sub g || has_push g.

(* number of occupied input slots *)
Definition b2n (b : bool) : nat := if b then 1%nat else 0%nat.
Definition occupied (g : group) : nat :=
  (b2n (is_some (g_rtmp g)) + b2n (is_some (g_rtsp g)) + b2n (is_some (g_cust g)) + b2n (is_some (g_ps g))
   + b2n (is_some (pp_rtmp (g_pp g))) + b2n (is_some (pp_rtsp (g_pp g))))%nat.

(* ---- relay push ----------------------------------------------------------- *)
(* startPushIfNeeded: only for an RTMP or RTSP publisher; every idle target starts an attempt *)
Definition start_push (g : group) : group :=
  match g_push g with
  | [] => g                                              (* pushEnable false *)
  | _ =>
    if is_some (g_rtmp g) || is_some (g_rtsp g)
    then g_set_push g (map (fun p => if pu_pushing p then p else mk_push true false) (g_push g))
    else g
  end.
(* stopPushIfNeeded disposes the attached sessions and forgets them; the push
   goroutine then reports DelRtmpPushSession (isPushing := false).  An attempt
   that has not attached yet is not touched. *)
Definition stop_push (g : group) : group :=
  g_set_push g (map (fun p => if pu_att p then mk_push false false else p) (g_push g)).

(* ---- addIn / delIn --------------------------------------------------------- *)
Definition add_in (pipe : N) (g : group) : group := start_push (g_set_pipe g (Some pipe)).
Definition del_in (g : group) : group :=
  g_set_pubs (g_set_pipe (stop_push g) None) None None None None.

(* ---- relay pull ------------------------------------------------------------ *)
(* shouldAutoStopPull *)
Definition should_auto_stop (g : group) (now : Z) : bool :=
  let p := g_pp g in
  if (pp_autostop p <? 0)%Z then false
  else if has_out g then false
  else if (pp_autostop p =? 0)%Z then true
  else negb (pp_last p =? -1)%Z && (pp_autostop p <=? now - pp_last p)%Z.

(* reasons for not starting (the error text of shouldStartPull) *)
Inductive reason := RsNone | RsDup | RsNotEnable | RsAutoStop | RsRetry.

(* shouldStartPull *)
Definition should_start (g : group) (now : Z) : bool * reason :=
  let p := g_pp g in
  if has_in g then (false, RsDup)
  else if pp_pulling p then (false, RsDup)
  else if negb (pp_static p) && negb (pp_api p) then (false, RsNotEnable)
  else if should_auto_stop g now then (false, RsAutoStop)
  else if (0 <=? pp_retry p)%Z && (pp_retry p <? pp_count p)%Z then (false, RsRetry)
  else (true, RsNone).

(* pullIfNeeded: on success isSessionPulling := true, startCount++ and a client
   session is created and started (the caller allocates its identity) *)
Definition pull_if_needed (g : group) (now : Z) : group * bool * reason :=
  match should_start g now with
  | (true, _) =>
      let p := g_pp g in
      (g_set_pp g (pp_set_count (pp_set_run p true (pp_rtmp p) (pp_rtsp p)) (pp_count p + 1)%Z), true, RsNone)
  | (false, r) => (g, false, r)
  end.

(* stopPull: retry counter reset; an attached session is disposed (returned: its Del follows) *)
Definition stop_pull (g : group) : group * option N :=
  let p := pp_set_count (g_pp g) 0%Z in
  (g_set_pp g p, match pp_rtmp p with Some a => Some a | None => pp_rtsp p end).

(* tickPullModule: (group, an attempt was started, attached session that was disposed) *)
Definition tick_pull (g : group) (now : Z) : group * bool * option N :=
  let g1 := if has_sub g then g_set_pp g (pp_set_last (g_pp g) now) else g in
  if should_auto_stop g1 now then let '(g2, a) := stop_pull g1 in (g2, false, a)
  else let '(g2, started, _) := pull_if_needed g1 now in (g2, started, None).

(* delPullSession(session) for the attempt with index a *)
Definition pull_del (fx : fixes) (g : group) (a : N) : group :=
  let p := g_pp g in
  if fx_f10 fx then
    if opt_is (pp_rtmp p) a || opt_is (pp_rtsp p) a
    then del_in (g_set_pp g (pp_set_run p false None None))
    else g_set_pp g (pp_set_run p false (pp_rtmp p) (pp_rtsp p))
  else del_in (g_set_pp g (pp_set_run p false None None)).

(* delPsPubSession *)
Definition ps_del (g : group) (s : N) : group := if opt_is (g_ps g) s then del_in g else g.

(* isPullModuleAlive / IsInactive *)
Definition pull_alive (g : group) (now : Z) : bool :=
  has_pull g || pp_pulling (g_pp g) || fst (should_start g now).
Definition inactive (g : group) (now : Z) : bool :=
  negb (has_in g) && negb (has_out g) && negb (pull_alive g now).

(* ---- the server: groups by stream name, sessions, attempts ------------------ *)
Record sess := mk_sess {
  s_id : N; s_kind : skind; s_stream : N;
  s_acc : bool;        (* admitted *)
  s_gone : bool;       (* its server shell has finished (at once when refused) *)
  s_closed : bool;     (* lal closed its connection (kick, dispose) *)
  s_gid : option N     (* the Group object its media callback is bound to *)
}.

Inductive astate := AHeld | AAttached | AFinished.
Record att := mk_att { a_stream : N; a_idx : N; a_rtmp : bool; a_state : astate }.

Record state := mk_state {
  st_groups : list (N * group);
  st_sess : list sess;
  st_atts : list att;
  st_now : Z;
  st_pipe : N;                 (* pipelines created so far *)
  st_gid : N;                  (* groups created so far *)
  st_cnt : list (N * N);       (* stream -> relay-pull attempts so far *)
  st_disposed : bool
}.

Definition init_state : state := mk_state [] [] [] 0%Z 0 0 [] false.

Definition st_set_groups (st : state) (gs : list (N * group)) : state :=
  mk_state gs (st_sess st) (st_atts st) (st_now st) (st_pipe st) (st_gid st) (st_cnt st) (st_disposed st).
Definition st_set_sess (st : state) (ss : list sess) : state :=
  mk_state (st_groups st) ss (st_atts st) (st_now st) (st_pipe st) (st_gid st) (st_cnt st) (st_disposed st).
Definition st_set_atts (st : state) (a : list att) (c : list (N * N)) : state :=
  mk_state (st_groups st) (st_sess st) a (st_now st) (st_pipe st) (st_gid st) c (st_disposed st).
Definition st_set_now (st : state) (t : Z) : state :=
  mk_state (st_groups st) (st_sess st) (st_atts st) t (st_pipe st) (st_gid st) (st_cnt st) (st_disposed st).
Definition st_set_pipe (st : state) (p : N) : state :=
  mk_state (st_groups st) (st_sess st) (st_atts st) (st_now st) p (st_gid st) (st_cnt st) (st_disposed st).
Definition st_set_gid (st : state) (p : N) : state :=
  mk_state (st_groups st) (st_sess st) (st_atts st) (st_now st) (st_pipe st) p (st_cnt st) (st_disposed st).
Definition st_set_disposed (st : state) : state :=
  mk_state (st_groups st) (st_sess st) (st_atts st) (st_now st) (st_pipe st) (st_gid st) (st_cnt st) true.

Fixpoint lookup {A} (k : N) (l : list (N * A)) : option A :=
  match l with
  | [] => None
  | (k', v) :: t => if N.eqb k k' then Some v else lookup k t
  end.
Fixpoint update {A} (k : N) (v : A) (l : list (N * A)) : list (N * A) :=
  match l with
  | [] => [(k, v)]
  | (k', v') :: t => if N.eqb k k' then (k, v) :: t else (k', v') :: update k v t
  end.

Definition get_group (st : state) (s : N) : option group := lookup s (st_groups st).
Definition put_group (st : state) (s : N) (g : group) : state := st_set_groups st (update s g (st_groups st)).

(* NewGroup (initRelayPullByConfig, initRelayPushByConfig) *)
Definition new_group (cf : config) (id : N) (now : Z) : group :=
  mk_group id None None None None
    (mk_pullp (cf_static cf) false true (-1)%Z 0%Z 0%Z now false None None)
    None [] (repeat (mk_push false false) (cf_npush cf)) false.

(* getOrCreateGroup *)
Definition get_or_create (cf : config) (st : state) (s : N) : state * group :=
  match get_group st s with
  | Some g => (st, g)
  | None =>
    let g := new_group cf (st_gid st + 1) (st_now st) in
    (st_set_gid (put_group st s g) (st_gid st + 1), g)
  end.

Fixpoint find_sess (n : N) (l : list sess) : option sess :=
  match l with
  | [] => None
  | s :: t => if N.eqb (s_id s) n then Some s else find_sess n t
  end.
Fixpoint upd_sess (n : N) (f : sess -> sess) (l : list sess) : list sess :=
  match l with
  | [] => []
  | s :: t => if N.eqb (s_id s) n then f s :: t else s :: upd_sess n f t
  end.
Definition s_set_gone (s : sess) : sess := mk_sess (s_id s) (s_kind s) (s_stream s) (s_acc s) true (s_closed s) (s_gid s).
Definition s_set_closed (s : sess) : sess := mk_sess (s_id s) (s_kind s) (s_stream s) (s_acc s) (s_gone s) true (s_gid s).
Definition s_set_closed_gone (s : sess) : sess := mk_sess (s_id s) (s_kind s) (s_stream s) (s_acc s) true true (s_gid s).

Definition add_sess (st : state) (s : sess) : state := st_set_sess st (st_sess st ++ [s]).
Definition close_sess (st : state) (n : N) : state := st_set_sess st (upd_sess n s_set_closed (st_sess st)).
Definition gone_sess (st : state) (n : N) : state := st_set_sess st (upd_sess n s_set_gone (st_sess st)).
Definition close_opt (st : state) (o : option N) : state := match o with Some n => close_sess st n | None => st end.

Fixpoint find_att (s i : N) (l : list att) : option att :=
  match l with
  | [] => None
  | a :: t => if N.eqb (a_stream a) s && N.eqb (a_idx a) i then Some a else find_att s i t
  end.
Fixpoint upd_att (s i : N) (x : astate) (l : list att) : list att :=
  match l with
  | [] => []
  | a :: t => if N.eqb (a_stream a) s && N.eqb (a_idx a) i
              then mk_att s i (a_rtmp a) x :: t else a :: upd_att s i x t
  end.
Definition set_att (st : state) (s i : N) (x : astate) : state := st_set_atts st (upd_att s i x (st_atts st)) (st_cnt st).

(* a relay-pull client session was created for stream s: it is the next attempt of that stream *)
Definition alloc_att (st : state) (s : N) (rtmp : bool) : state * N :=
  let i := match lookup s (st_cnt st) with Some c => c + 1 | None => 1 end in
  (st_set_atts st (st_atts st ++ [mk_att s i rtmp AHeld]) (update s i (st_cnt st)), i).

(* ---- notifications ------------------------------------------------------------ *)
Inductive nkind := NPubStart | NPubStop | NSubStart | NSubStop | NPullStart | NPullStop.
Inductive who := WConn (n : N) | WAtt (s i : N).
Record notif := mk_notif { n_kind : nkind; n_who : who; n_in : bool; n_out : bool }.
Definition note (k : nkind) (w : who) (g : group) : notif := mk_notif k w (has_in g) (has_out g).

(* ---- events --------------------------------------------------------------------- *)
Inductive ktarget := KConn (n : N) | KAtt (s i : N).

Inductive event :=
| ERtmpPub (s n : N) (deny : bool)     (* rtmp publish command on connection n, stream s *)
| ERtmpSub (s n : N) (deny : bool)     (* rtmp play *)
| ERtspPub (s n : N) (deny : bool)     (* rtsp ANNOUNCE *)
| ERtspSub (s n : N) (deny : bool)     (* rtsp DESCRIBE *)
| ERtspPlay (n : N)                    (* rtsp PLAY on a described connection *)
| EFlvSub (s n : N) (deny : bool)      (* http-flv request *)
| ETsSub (s n : N) (deny : bool)       (* http-ts request *)
| ECustPub (s n : N)                   (* ILalServer.AddCustomizePubSession *)
| EPsPub (s n : N) (listen : bool)     (* start_rtp_pub; listen: PubSession.Listen succeeds (false: the port cannot be bound) *)
| EGone (n : N)                        (* the connection ends / DelCustomizePubSession *)
| EKick (s : N) (t : ktarget)          (* kick_session *)
| EStartPull (s : N) (retry autostop : Z) (rtmp : bool)   (* start_relay_pull *)
| EStopPull (s : N)                    (* stop_relay_pull *)
| EPullSucc (s i : N)                  (* the origin answered the play request of attempt i of stream s *)
| EPullFail (s i : N)                  (* the attempt failed before that *)
| EPullDone (s i : N)                  (* the origin closed an attached pull *)
| EPushOk (s : N) (t : nat) | EPushFail (s : N) (t : nat) | EPushDone (s : N) (t : nat)
| ETick (count : N)
| EAdvance (ms : Z)
| EDispose                             (* ServerManager.Dispose *)
| EMedia (n : N).                      (* one audio message from connection n *)

Inductive result :=
| RAcc | RRef | RNone | RBad | RPanic
| RCode (code : N) (why : reason) (a : option (N * N))
| RMedia (l : list N).

Definition code_group_not_found : N := 1001.
Definition code_session_not_found : N := 1003.
Definition code_start_pull_fail : N := 2001.
Definition code_listen_fail : N := 2002.
Definition code_start_rtp_pub_fail : N := 2003.

(* ---- helpers on the state ---------------------------------------------------------- *)
Definition next_pipe (st : state) : state * N := (st_set_pipe st (st_pipe st + 1), st_pipe st + 1).

(* pullIfNeeded at the level of the server: allocate the attempt when one starts *)
Definition pull_if_needed_st (st : state) (s : N) (g : group) : state * group * option N * reason :=
  let '(g1, started, r) := pull_if_needed g (st_now st) in
  if started then let '(st1, i) := alloc_att st s (pp_rtmp_url (g_pp g1)) in (st1, g1, Some i, r)
  else (st, g1, None, r).

(* stopPull followed by the Del the pull goroutine reports for the disposed session *)
Definition stop_and_del (fx : fixes) (s : N) (g : group) : group * option N * list notif :=
  let '(g1, a) := stop_pull g in
  match a with
  | Some i => let g2 := pull_del fx g1 i in (g2, Some i, [note NPullStop (WAtt s i) g2])
  | None => (g1, None, [])
  end.

Definition finish_att (st : state) (s : N) (a : option N) : state :=
  match a with Some i => set_att st s i AFinished | None => st end.

(* ---- arrivals ------------------------------------------------------------------------- *)
Definition fresh (st : state) (n : N) : bool := negb (is_some (find_sess n (st_sess st))).
Definition refused_sess (n : N) (k : skind) (s : N) : sess := mk_sess n k s false true true None.
Definition admitted_sess (n : N) (k : skind) (s : N) (gid : option N) : sess := mk_sess n k s true false false gid.

(* publishers: rtmp, rtsp, customize, ps.  [slot] says which field the session goes to. *)
Inductive pubslot := PsRtmp | PsRtsp | PsCust | PsPs.
Definition set_slot (g : group) (sl : pubslot) (n : N) : group :=
  match sl with
  | PsRtmp => g_set_pubs g (Some n) (g_rtsp g) (g_cust g) (g_ps g)
  | PsRtsp => g_set_pubs g (g_rtmp g) (Some n) (g_cust g) (g_ps g)
  | PsCust => g_set_pubs g (g_rtmp g) (g_rtsp g) (Some n) (g_ps g)
  | PsPs => g_set_pubs g (g_rtmp g) (g_rtsp g) (g_cust g) (Some n)
  end.
Definition get_slot (g : group) (sl : pubslot) : option N :=
  match sl with PsRtmp => g_rtmp g | PsRtsp => g_rtsp g | PsCust => g_cust g | PsPs => g_ps g end.
Definition kind_of_slot (sl : pubslot) : skind :=
  match sl with PsRtmp => KRtmpPub | PsRtsp => KRtspPub | PsCust => KCustPub | PsPs => KPsPub end.

(* Add*PubSession under getOrCreateGroup; [check] = the hasInSession test is made *)
Definition admit_pub (cf : config) (st : state) (sl : pubslot) (s n : N) (check : bool)
  : state * bool * group :=
  let '(st1, g) := get_or_create cf st s in
  if check && has_in g then (st1, false, g)
  else
    let '(st2, pipe) := next_pipe st1 in
    let g1 := add_in pipe (set_slot g sl n) in
    (put_group st2 s g1, true, g1).

(* the OnDel*PubSession callback for a publisher that is NOT in the slot: what the
   RTSP shell triggers for a refused ANNOUNCE on the pinned tree *)
Definition stray_pub_stop (st : state) (s n : N) : list notif :=
  match get_group st s with
  | Some g => [note NPubStop (WConn n) g]
  | None => []
  end.
Definition stray_sub_stop (st : state) (s n : N) : list notif :=
  match get_group st s with
  | Some g => [note NSubStop (WConn n) g]
  | None => []
  end.

(* Add*SubSession under getOrCreateGroup; [pull] = addSub (pullIfNeeded) is called *)
Definition admit_sub (cf : config) (st : state) (k : subk) (s n : N) (pull : bool)
  : option (state * group) :=
  let '(st1, g) := get_or_create cf st s in
  if g_disposed g then None        (* assignment to entry in nil map *)
  else
    let g1 := g_set_subs g (g_subs g ++ [(k, n)]) in
    if pull then
      let '(st2, g2, _, _) := pull_if_needed_st st1 s g1 in
      Some (put_group st2 s g2, g2)
    else Some (put_group st1 s g1, g1).

Definition remove_sub (k : subk) (n : N) (l : list (subk * N)) : list (subk * N) :=
  filter (fun x => negb (subk_eqb (fst x) k && N.eqb (snd x) n)) l.
Definition in_subs (k : subk) (n : N) (l : list (subk * N)) : bool :=
  existsb (fun x => subk_eqb (fst x) k && N.eqb (snd x) n) l.

Definition subk_of (k : skind) : option subk :=
  match k with KRtmpSub => Some SkRtmp | KFlvSub => Some SkFlv | KTsSub => Some SkTs | KRtspSub => Some SkRtsp | _ => None end.
Definition slot_of (k : skind) : option pubslot :=
  match k with KRtmpPub => Some PsRtmp | KRtspPub => Some PsRtsp | KCustPub => Some PsCust | KPsPub => Some PsPs | _ => None end.

(* ---- departures -------------------------------------------------------------------------- *)
(* OnDel*PubSession: getGroup; del*PubSession with identity check; stop notification *)
Definition depart_pub (st : state) (sl : pubslot) (s n : N) (notify : bool) : state * list notif :=
  match get_group st s with
  | None => (st, [])
  | Some g =>
    let g1 := if opt_is (get_slot g sl) n then del_in g else g in
    (put_group st s g1, if notify then [note NPubStop (WConn n) g1] else [])
  end.
Definition depart_sub (st : state) (k : subk) (s n : N) : state * list notif :=
  match get_group st s with
  | None => (st, [])
  | Some g =>
    let g1 := g_set_subs g (remove_sub k n (g_subs g)) in
    (put_group st s g1, [note NSubStop (WConn n) g1])
  end.

(* ---- Group.Dispose ------------------------------------------------------------------------- *)
Definition dispose_group (g : group) : group := del_in (g_set_disposed (g_set_subs g [])).
Definition closed_by_dispose (fx : fixes) (g : group) : list N :=
  (if fx_f26 fx then match g_cust g with Some n => [n] | None => [] end else [])
  ++ (match g_rtmp g with Some n => [n] | None => [] end)
  ++ (match g_rtsp g with Some n => [n] | None => [] end)
  ++ (match g_ps g with Some n => [n] | None => [] end)
  ++ map snd (g_subs g).

(* ---- tick ------------------------------------------------------------------------------------- *)
(* Group.Tick followed by the Del of a pull session the tick disposed *)
Definition tick_group (fx : fixes) (s : N) (g : group) (now : Z) : group * bool * option N * list notif :=
  let '(g1, started, a) := tick_pull g now in
  let g2 := start_push g1 in
  match a with
  | Some i => let g3 := pull_del fx g2 i in (g3, started, Some i, [note NPullStop (WAtt s i) g3])
  | None => (g2, started, None, [])
  end.

Fixpoint tick_groups (fx : fixes) (now : Z) (l : list (N * group)) (atts : list att) (cnt : list (N * N))
  : list (N * group) * list att * list (N * N) * list notif :=
  match l with
  | [] => ([], atts, cnt, [])
  | (s, g) :: t =>
    if inactive g now then tick_groups fx now t atts cnt     (* Dispose of an empty group, erased from the manager *)
    else
      let '(g1, started, fin, ns) := tick_group fx s g now in
      let '(atts1, cnt1) :=
        if started then
          let i := match lookup s cnt with Some c => c + 1 | None => 1 end in
          (atts ++ [mk_att s i (pp_rtmp_url (g_pp g1)) AHeld], update s i cnt)
        else (atts, cnt) in
      let atts2 := match fin with Some i => upd_att s i AFinished atts1 | None => atts1 end in
      let '(t1, atts3, cnt3, ns2) := tick_groups fx now t atts2 cnt1 in
      ((s, g1) :: t1, atts3, cnt3, ns ++ ns2)
  end.

(* ---- media ---------------------------------------------------------------------------------- *)
Fixpoint group_by_id (id : N) (l : list (N * group)) : option group :=
  match l with
  | [] => None
  | (_, g) :: t => if N.eqb (g_id g) id then Some g else group_by_id id t
  end.
Definition sess_open (ss : list sess) (n : N) : bool :=
  match find_sess n ss with Some s => negb (s_closed s) | None => false end.
(* broadcastByRtmpMsg as far as the http-flv subscribers are concerned *)
Definition deliver (st : state) (gid : option N) : list N :=
  match gid with
  | None => []
  | Some id =>
    match group_by_id id (st_groups st) with
    | None => []
    | Some g => filter (sess_open (st_sess st))
                       (map snd (filter (fun x => subk_eqb (fst x) SkFlv) (g_subs g)))
    end
  end.

(* ---- kick ------------------------------------------------------------------------------------ *)
Definition kick_group (fx : fixes) (st : state) (s : N) (g : group) (t : ktarget) : state * bool * list notif :=
  match t with
  | KAtt s' i =>
    if N.eqb s' s && (opt_is (pp_rtmp (g_pp g)) i || opt_is (pp_rtsp (g_pp g)) i) then
      let '(g1, a, ns) := stop_and_del fx s (g_set_pp g (pp_set_api (g_pp g) false)) in
      (finish_att (put_group st s g1) s a, true, ns)
    else (st, false, [])
  | KConn n =>
    match find_sess n (st_sess st) with
    | None => (st, false, [])
    | Some x =>
      match s_kind x with
      | KRtmpPub | KRtmpSub =>
        if opt_is (g_rtmp g) n || in_subs SkRtmp n (g_subs g) then (close_sess st n, true, []) else (st, false, [])
      | KRtspPub => if opt_is (g_rtsp g) n then (close_sess st n, true, []) else (st, false, [])
      | KPsPub =>
        (* Dispose; the PS session's RunLoop returns and DelPsPubSession follows *)
        if opt_is (g_ps g) n then (put_group (close_sess st n) s (ps_del g n), true, []) else (st, false, [])
      | KFlvSub => if in_subs SkFlv n (g_subs g) then (close_sess st n, true, []) else (st, false, [])
      | KTsSub => if in_subs SkTs n (g_subs g) then (close_sess st n, true, []) else (st, false, [])
      | KRtspSub => if in_subs SkRtsp n (g_subs g) then (close_sess st n, true, []) else (st, false, [])
      | KCustPub => (st, false, [])
      end
    end
  end.

(* ---- push outcomes ------------------------------------------------------------------------------ *)
Fixpoint upd_nth {A} (i : nat) (f : A -> A) (l : list A) : list A :=
  match l, i with
  | [], _ => []
  | x :: t, O => f x :: t
  | x :: t, S j => x :: upd_nth j f t
  end.

Definition push_apply (g : group) (t : nat) (next : push) : group :=
  g_set_push g (upd_nth t (fun _ => next) (g_push g)).

(* Add*PullSession: the attempt becomes the input *)
Definition attach_pull (g : group) (rt : bool) (i : N) : group :=
  let p := g_pp g in
  g_set_pp g (if rt then pp_set_run p (pp_pulling p) (Some i) (pp_rtsp p)
              else pp_set_run p (pp_pulling p) (pp_rtmp p) (Some i)).

Definition push_event (st : state) (s : N) (t : nat) (want_att : bool) (next : push) : state * result :=
  match get_group st s with
  | None => (st, RBad)
  | Some g =>
    match nth_error (g_push g) t with
    | Some p =>
      if pu_pushing p && Bool.eqb (pu_att p) want_att
      then (put_group st s (push_apply g t next), RNone)
      else (st, RBad)
    | None => (st, RBad)
    end
  end.

(* ---- one event ------------------------------------------------------------------------------------ *)
Definition step (fx : fixes) (cf : config) (st : state) (e : event) : state * result * list notif :=
  match e with
  | ERtmpPub s n deny =>
    if negb (fresh st n) then (st, RBad, [])
    else if deny then (add_sess st (refused_sess n KRtmpPub s), RRef, [])
    else
      let '(st1, ok, g) := admit_pub cf st PsRtmp s n true in
      if ok then (add_sess st1 (admitted_sess n KRtmpPub s (Some (g_id g))), RAcc, [note NPubStart (WConn n) g])
      else (add_sess st1 (refused_sess n KRtmpPub s), RRef, [])
  | ERtspPub s n deny =>
    if negb (fresh st n) then (st, RBad, [])
    else if deny then
      (add_sess st (refused_sess n KRtspPub s), RRef, if fx_f11 fx then [] else stray_pub_stop st s n)
    else
      let '(st1, ok, g) := admit_pub cf st PsRtsp s n true in
      if ok then (add_sess st1 (admitted_sess n KRtspPub s (Some (g_id g))), RAcc, [note NPubStart (WConn n) g])
      else (add_sess st1 (refused_sess n KRtspPub s), RRef, if fx_f11 fx then [] else stray_pub_stop st1 s n)
  | ECustPub s n =>
    if negb (fresh st n) then (st, RBad, [])
    else
      let '(st1, ok, g) := admit_pub cf st PsCust s n true in
      if ok then (add_sess st1 (admitted_sess n KCustPub s (Some (g_id g))), RAcc, [])
      else (add_sess st1 (refused_sess n KCustPub s), RRef, [])
  | EPsPub s n listen =>
    if negb (fresh st n) then (st, RBad, [])
    else
      let '(st1, ok, g) := admit_pub cf st PsPs s n (fx_f09 fx) in
      if ok then
        if listen then (add_sess st1 (admitted_sess n KPsPub s (Some (g_id g))), RCode 0 RsNone None, [])
        else
          (* StartRtpPub registered the session and ran addIn, then Listen failed: delPsPubSession takes it out again at
             once - what is left is the group (getOrCreateGroup), as after a refusal; no pipeline is ever seen *)
          (add_sess (fst (get_or_create cf st s)) (refused_sess n KPsPub s), RCode code_listen_fail RsNone None, [])
      else (add_sess st1 (refused_sess n KPsPub s), RCode code_start_rtp_pub_fail RsDup None, [])
  | ERtmpSub s n deny =>
    if negb (fresh st n) then (st, RBad, [])
    else if deny then (add_sess st (refused_sess n KRtmpSub s), RRef, [])
    else
      match admit_sub cf st SkRtmp s n true with
      | None => (st, RPanic, [])
      | Some (st1, g) => (add_sess st1 (admitted_sess n KRtmpSub s None), RAcc, [note NSubStart (WConn n) g])
      end
  | EFlvSub s n deny =>
    if negb (fresh st n) then (st, RBad, [])
    else if deny then (add_sess st (refused_sess n KFlvSub s), RRef, [])
    else
      match admit_sub cf st SkFlv s n true with
      | None => (st, RPanic, [])
      | Some (st1, g) => (add_sess st1 (admitted_sess n KFlvSub s None), RAcc, [note NSubStart (WConn n) g])
      end
  | ETsSub s n deny =>
    if negb (fresh st n) then (st, RBad, [])
    else if deny then (add_sess st (refused_sess n KTsSub s), RRef, [])
    else
      match admit_sub cf st SkTs s n true with
      | None => (st, RPanic, [])
      | Some (st1, g) => (add_sess st1 (admitted_sess n KTsSub s None), RAcc, [note NSubStart (WConn n) g])
      end
  | ERtspSub s n deny =>
    if negb (fresh st n) then (st, RBad, [])
    else if deny then
      (add_sess st (refused_sess n KRtspSub s), RRef, if fx_f11 fx then [] else stray_sub_stop st s n)
    else
      match admit_sub cf st SkRtsp s n false with
      | None => (st, RPanic, [])
      | Some (st1, g) => (add_sess st1 (admitted_sess n KRtspSub s None), RAcc, [note NSubStart (WConn n) g])
      end
  | ERtspPlay n =>
    match find_sess n (st_sess st) with
    | Some x =>
      match s_kind x with
      | KRtspSub =>
        if s_gone x || s_closed x then (st, RBad, [])
        else
          let '(st1, g) := get_or_create cf st (s_stream x) in
          let '(st2, g2, _, _) := pull_if_needed_st st1 (s_stream x) g in
          (put_group st2 (s_stream x) g2, RAcc, [])
      | _ => (st, RBad, [])
      end
    | None => (st, RBad, [])
    end
  | EGone n =>
    match find_sess n (st_sess st) with
    | None => (st, RBad, [])
    | Some x =>
      if s_gone x then (st, RBad, [])
      else
        match s_kind x with
        | KPsPub => (st, RBad, [])
        | KRtmpPub => let '(st1, ns) := depart_pub (gone_sess st n) PsRtmp (s_stream x) n true in (st1, RNone, ns)
        | KRtspPub => let '(st1, ns) := depart_pub (gone_sess st n) PsRtsp (s_stream x) n true in (st1, RNone, ns)
        | KCustPub =>
          let hit := match get_group st (s_stream x) with Some g => opt_is (g_cust g) n | None => false end in
          let st0 := if fx_f26 fx && hit then close_sess st n else st in
          let '(st1, ns) := depart_pub (gone_sess st0 n) PsCust (s_stream x) n false in (st1, RNone, ns)
        | KRtmpSub => let '(st1, ns) := depart_sub (gone_sess st n) SkRtmp (s_stream x) n in (st1, RNone, ns)
        | KRtspSub => let '(st1, ns) := depart_sub (gone_sess st n) SkRtsp (s_stream x) n in (st1, RNone, ns)
        | KFlvSub => let '(st1, ns) := depart_sub (close_sess (gone_sess st n) n) SkFlv (s_stream x) n in (st1, RNone, ns)
        | KTsSub => let '(st1, ns) := depart_sub (close_sess (gone_sess st n) n) SkTs (s_stream x) n in (st1, RNone, ns)
        end
    end
  | EKick s t =>
    match get_group st s with
    | None => (st, RCode code_group_not_found RsNone None, [])
    | Some g =>
      let '(st1, ok, ns) := kick_group fx st s g t in
      (st1, RCode (if ok then 0 else code_session_not_found) RsNone None, ns)
    end
  | EStartPull s retry autostop rtmp =>
    let '(st1, g) := get_or_create cf st s in
    let g1 := g_set_pp g (pp_set_req (g_pp g) rtmp retry autostop) in
    let '(st2, g2, started, r) := pull_if_needed_st st1 s g1 in
    (put_group st2 s g2,
     match started with
     | Some i => RCode 0 RsNone (Some (s, i))
     | None => RCode code_start_pull_fail r None
     end, [])
  | EStopPull s =>
    match get_group st s with
    | None => (st, RCode code_group_not_found RsNone None, [])
    | Some g =>
      let '(g1, a, ns) := stop_and_del fx s (g_set_pp g (pp_set_api (g_pp g) false)) in
      (finish_att (put_group st s g1) s a,
       match a with
       | Some i => RCode 0 RsNone (Some (s, i))
       | None => RCode code_session_not_found RsNone None
       end, ns)
    end
  | EPullSucc s i =>
    match find_att s i (st_atts st), get_group st s with
    | Some a, Some g =>
      match a_state a with
      | AHeld =>
        if has_in g || (fx_f14 fx && negb (pp_static (g_pp g)) && negb (pp_api (g_pp g))) then
          (* AddRtmpPullSession fails: the session is disposed and reports its end *)
          let g1 := pull_del fx g i in
          (set_att (put_group st s g1) s i AFinished, RNone, [note NPullStop (WAtt s i) g1])
        else
          let '(st1, pipe) := next_pipe st in
          let g1 := add_in pipe (attach_pull g (a_rtmp a) i) in
          (set_att (put_group st1 s g1) s i AAttached, RNone, [note NPullStart (WAtt s i) g1])
      | _ => (st, RBad, [])
      end
    | _, _ => (st, RBad, [])
    end
  | EPullFail s i =>
    match find_att s i (st_atts st), get_group st s with
    | Some a, Some g =>
      match a_state a with
      | AHeld =>
        let g1 := pull_del fx g i in
        (set_att (put_group st s g1) s i AFinished, RNone, [note NPullStop (WAtt s i) g1])
      | _ => (st, RBad, [])
      end
    | _, _ => (st, RBad, [])
    end
  | EPullDone s i =>
    match find_att s i (st_atts st), get_group st s with
    | Some a, Some g =>
      match a_state a with
      | AAttached =>
        let g1 := pull_del fx g i in
        (set_att (put_group st s g1) s i AFinished, RNone, [note NPullStop (WAtt s i) g1])
      | _ => (st, RBad, [])
      end
    | _, _ => (st, RBad, [])
    end
  | EPushOk s t =>
    let nopub := match get_group st s with
                 | Some g => negb (is_some (g_rtmp g)) && negb (is_some (g_rtsp g))
                 | None => false end in
    let '(st1, r) := push_event st s t false (if fx_f27 fx && nopub then mk_push false false else mk_push true true) in
    (st1, r, [])
  | EPushFail s t => let '(st1, r) := push_event st s t false (mk_push false false) in (st1, r, [])
  | EPushDone s t => let '(st1, r) := push_event st s t true (mk_push false false) in (st1, r, [])
  | ETick _ =>
    if st_disposed st then (st, RBad, [])        (* Dispose made RunLoop (the ticker) return *)
    else
    let '(gs, atts, cnt, ns) := tick_groups fx (st_now st) (st_groups st) (st_atts st) (st_cnt st) in
    (st_set_atts (st_set_groups st gs) atts cnt, RNone, ns)
  | EAdvance ms => (st_set_now st (st_now st + ms)%Z, RNone, [])
  | EDispose =>
    if st_disposed st then (st, RBad, [])
    else
      let closed := flat_map (fun sg => closed_by_dispose fx (snd sg)) (st_groups st) in
      let ss := fold_left (fun acc n => upd_sess n s_set_closed acc) closed (st_sess st) in
      let gs := map (fun sg => (fst sg, dispose_group (snd sg))) (st_groups st) in
      (st_set_disposed (st_set_sess (st_set_groups st gs) ss), RNone, [])
  | EMedia n =>
    match find_sess n (st_sess st) with
    | None => (st, RBad, [])
    | Some x =>
      match s_kind x with
      | KRtmpPub => if s_gone x || s_closed x then (st, RBad, []) else (st, RMedia (deliver st (s_gid x)), [])
      | KCustPub => if s_acc x && negb (s_closed x) then (st, RMedia (deliver st (s_gid x)), []) else (st, RBad, [])
      | _ => (st, RBad, [])
      end
    end
  end.

(* ---- runs ----------------------------------------------------------------------------------------- *)
Fixpoint run (fx : fixes) (cf : config) (st : state) (h : list event) : state * list notif :=
  match h with
  | [] => (st, [])
  | e :: t =>
    let '(st1, _, ns) := step fx cf st e in
    let '(st2, ns2) := run fx cf st1 t in
    (st2, ns ++ ns2)
  end.

(* ---- the stat API (GetStat) ------------------------------------------------------------------------- *)
Definition stat_pub (g : group) : option N :=
  match g_rtmp g with Some n => Some n | None =>
  match g_rtsp g with Some n => Some n | None => g_ps g end end.
Definition stat_pull (g : group) : option N :=
  match pp_rtmp (g_pp g) with Some n => Some n | None => pp_rtsp (g_pp g) end.
Definition stat_subs (g : group) : list N := map snd (g_subs g).
