(* Lemmas about the relay pull / push rules of the admission state machine (C17). *)
From Coq Require Import NArith ZArith List Bool Lia.
From Lal Require Import Group.GroupAdmission Group.GroupAdmissionProofs.
Import ListNotations.
Open Scope N_scope.

(* ---- when an attempt starts --------------------------------------------------------------- *)
Definition enabled (g : group) : bool := pp_static (g_pp g) || pp_api (g_pp g).
(* retry budget: never exhausted when negative; otherwise attempts so far <= budget *)
Definition budget_left (g : group) : Prop := (pp_retry (g_pp g) < 0)%Z \/ (pp_count (g_pp g) <= pp_retry (g_pp g))%Z.
(* auto-stop window: not configured, or a consumer is present, or (not "immediately" and) a
   consumer was seen less than the configured time ago *)
Definition in_window (g : group) (now : Z) : Prop :=
  (pp_autostop (g_pp g) < 0)%Z \/ has_out g = true \/
  ((pp_autostop (g_pp g) <> 0)%Z /\ (pp_last (g_pp g) = (-1)%Z \/ (now - pp_last (g_pp g) < pp_autostop (g_pp g))%Z)).

Lemma should_auto_stop_spec : forall g now, should_auto_stop g now = false <-> in_window g now.
Proof.
  intros g now. unfold should_auto_stop, in_window.
  destruct (pp_autostop (g_pp g) <? 0)%Z eqn:E1.
  - apply Z.ltb_lt in E1. split; [intros _; left; assumption|reflexivity].
  - apply Z.ltb_ge in E1. destruct (has_out g) eqn:E2.
    + split; [intros _; right; left; reflexivity|reflexivity].
    + destruct (pp_autostop (g_pp g) =? 0)%Z eqn:E3.
      * apply Z.eqb_eq in E3. split; [discriminate|]. intros [H|[H|[H _]]]; [lia|discriminate|contradiction].
      * apply Z.eqb_neq in E3. destruct (pp_last (g_pp g) =? -1)%Z eqn:E4; simpl.
        -- apply Z.eqb_eq in E4. split; [intros _; right; right; split; [assumption|left; assumption]|reflexivity].
        -- apply Z.eqb_neq in E4. destruct (pp_autostop (g_pp g) <=? now - pp_last (g_pp g))%Z eqn:E5.
           ++ apply Z.leb_le in E5. split; [discriminate|]. intros [H|[H|[_ [H|H]]]]; [lia|discriminate|contradiction|lia].
           ++ apply Z.leb_gt in E5. split; [intros _; right; right; split; [assumption|right; assumption]|reflexivity].
Qed.

(* pullIfNeeded starts an attempt exactly when the pull is enabled, the stream has no input,
   no attempt is in flight, the retry budget is not exhausted and the auto-stop window is open *)
Theorem attempt_iff : forall g now,
  snd (fst (pull_if_needed g now)) = true <->
  (enabled g = true /\ has_in g = false /\ pp_pulling (g_pp g) = false /\ budget_left g /\ in_window g now).
Proof.
  intros g now. unfold pull_if_needed, should_start, enabled, budget_left.
  rewrite <- should_auto_stop_spec.
  destruct (has_in g); simpl; [split; [discriminate|intros [_ [H _]]; discriminate]|].
  destruct (pp_pulling (g_pp g)); simpl; [split; [discriminate|intros [_ [_ [H _]]]; discriminate]|].
  destruct (pp_static (g_pp g)), (pp_api (g_pp g)); simpl;
    try (split; [discriminate|intros [H _]; discriminate]);
    (destruct (should_auto_stop g now); simpl; [split; [discriminate|intros [_ [_ [_ [_ H]]]]; discriminate]|]);
    (destruct (0 <=? pp_retry (g_pp g))%Z eqn:E1; simpl;
     [apply Z.leb_le in E1; destruct (pp_retry (g_pp g) <? pp_count (g_pp g))%Z eqn:E2; simpl;
      [apply Z.ltb_lt in E2; split; [discriminate|intros [_ [_ [_ [[H|H] _]]]]; lia]
      |apply Z.ltb_ge in E2; split; [intros _; repeat split; right; assumption|reflexivity]]
     |apply Z.leb_gt in E1; split; [intros _; repeat split; left; assumption|reflexivity]]).
Qed.

(* and when it does: in flight, one more attempt counted, nothing else changes *)
Lemma pull_if_needed_started : forall g now, snd (fst (pull_if_needed g now)) = true ->
  let g' := fst (fst (pull_if_needed g now)) in
  pp_pulling (g_pp g') = true /\ pp_count (g_pp g') = (pp_count (g_pp g) + 1)%Z /\ slots g' = slots g.
Proof.
  intros g now H. unfold pull_if_needed in *. destruct (should_start g now) as [[|] r]; simpl in *; [|discriminate].
  repeat split.
Qed.
Lemma pull_if_needed_not_started : forall g now, snd (fst (pull_if_needed g now)) = false ->
  fst (fst (pull_if_needed g now)) = g.
Proof.
  intros g now H. unfold pull_if_needed in *. destruct (should_start g now) as [[|] r]; simpl in *; [discriminate|reflexivity].
Qed.

(* ---- never two attempts in flight: the group-level core ------------------------------------- *)
(* an attempt only starts when none is in flight and none is attached *)
Lemma start_requires_idle : forall g now, snd (fst (pull_if_needed g now)) = true ->
  pp_pulling (g_pp g) = false /\ has_pull g = false.
Proof.
  intros g now H. apply attempt_iff in H. destruct H as [_ [Hin [Hp _]]]. split; [assumption|].
  unfold has_in in Hin. apply orb_false_iff in Hin. tauto.
Qed.

(* ---- stop rules -------------------------------------------------------------------------------- *)
Lemma stat_pull_slots : forall g g', slots g' = slots g -> stat_pull g' = stat_pull g.
Proof. unfold slots, stat_pull. intros g g' H. inversion H. reflexivity. Qed.

Lemma stat_pull_attached : forall g a, stat_pull g = Some a ->
  opt_is (pp_rtmp (g_pp g)) a || opt_is (pp_rtsp (g_pp g)) a = true.
Proof.
  unfold stat_pull. intros g a H. destruct (pp_rtmp (g_pp g)) as [x|].
  - inversion H; subst. simpl. rewrite N.eqb_refl. reflexivity.
  - rewrite H. simpl. rewrite N.eqb_refl. reflexivity.
Qed.

Lemma pull_del_attached : forall fx g a, fx_f10 fx = true ->
  opt_is (pp_rtmp (g_pp g)) a || opt_is (pp_rtsp (g_pp g)) a = true ->
  has_pull (pull_del fx g a) = false /\ pp_pulling (g_pp (pull_del fx g a)) = false /\ has_pub (pull_del fx g a) = false.
Proof. intros fx g a H10 H. unfold pull_del. rewrite H10, H. repeat split. Qed.

Lemma tick_pull_auto_stop : forall g now, has_sub g = false -> should_auto_stop g now = true ->
  tick_pull g now = (g_set_pp g (pp_set_count (g_pp g) 0%Z), false, stat_pull g).
Proof. intros g now Hs Ha. unfold tick_pull. rewrite Hs, Ha. reflexivity. Qed.

(* a tick after the last consumer has been gone for the window disposes the attached pull, and its Del
   (same step) empties the pull slots; nothing is attached afterwards *)
Lemma tick_auto_stop : forall fx s g now,
  fx_f10 fx = true -> has_sub g = false -> should_auto_stop g now = true ->
  let '(g', started, fin, ns) := tick_group fx s g now in
  has_pull g' = has_pull g && negb (is_some (stat_pull g)) /\ started = false /\ fin = stat_pull g /\
  (forall a, stat_pull g = Some a -> has_pull g' = false /\ ns = [note NPullStop (WAtt s a) g']).
Proof.
  intros fx s g now H10 Hs Ha. unfold tick_group. rewrite (tick_pull_auto_stop _ _ Hs Ha).
  set (g2 := start_push (g_set_pp g (pp_set_count (g_pp g) 0%Z))).
  assert (Hsl : slots g2 = slots g) by (subst g2; rewrite slots_start_push; reflexivity).
  destruct (stat_pull g) as [a|] eqn:E.
  - assert (Hat : opt_is (pp_rtmp (g_pp g2)) a || opt_is (pp_rtsp (g_pp g2)) a = true).
    { apply stat_pull_attached. rewrite (stat_pull_slots _ _ Hsl). exact E. }
    destruct (pull_del_attached fx g2 a H10 Hat) as [A [B C]].
    split; [rewrite A; simpl; rewrite andb_false_r; reflexivity|]. split; [reflexivity|]. split; [reflexivity|].
    intros a0 Ha0. inversion Ha0; subst. split; [assumption|reflexivity].
  - split; [|split; [reflexivity|split; [reflexivity|intros a Hx; discriminate]]].
    simpl. rewrite andb_true_r. unfold slots in Hsl. inversion Hsl as [[A B C D E1 F]].
    unfold has_pull. rewrite E1, F. reflexivity.
Qed.

(* stop_relay_pull / kick: an attached pull is disposed, its Del empties the slots and disables
   further attempts through the API flag; the response names the session iff there was one *)
Lemma stop_and_del_spec : forall fx s g, fx_f10 fx = true ->
  let g0 := g_set_pp g (pp_set_api (g_pp g) false) in
  let '(g', a, ns) := stop_and_del fx s g0 in
  a = stat_pull g /\ pp_api (g_pp g') = false /\ pp_count (g_pp g') = 0%Z /\
  match a with
  | Some i => has_pull g' = false /\ pp_pulling (g_pp g') = false /\ ns = [note NPullStop (WAtt s i) g']
  | None => slots g' = slots g /\ pp_pulling (g_pp g') = pp_pulling (g_pp g) /\ ns = []
  end.
Proof.
  intros fx s g H10. unfold stop_and_del, stop_pull.
  set (g1 := g_set_pp (g_set_pp g (pp_set_api (g_pp g) false)) _).
  assert (Hsl : slots g1 = slots g) by reflexivity.
  change (match pp_rtmp (pp_set_count (g_pp (g_set_pp g (pp_set_api (g_pp g) false))) 0%Z) with
          | Some a => Some a | None => pp_rtsp (pp_set_count (g_pp (g_set_pp g (pp_set_api (g_pp g) false))) 0%Z) end)
    with (stat_pull g).
  destruct (stat_pull g) as [a|] eqn:E.
  - assert (Hat : opt_is (pp_rtmp (g_pp g1)) a || opt_is (pp_rtsp (g_pp g1)) a = true).
    { apply stat_pull_attached. rewrite (stat_pull_slots _ _ Hsl). exact E. }
    destruct (pull_del_attached fx g1 a H10 Hat) as [A [B C]].
    split; [reflexivity|]. unfold pull_del. rewrite H10, Hat. repeat split.
  - repeat split.
Qed.

(* ---- API responses ------------------------------------------------------------------------------ *)
Lemma get_group_put_same : forall st s g, get_group (put_group st s g) s = Some g.
Proof. intros. unfold get_group, put_group. simpl. apply lookup_update_same. Qed.

Lemma get_group_finish_att : forall st s a s', get_group (finish_att st s a) s' = get_group st s'.
Proof. intros. destruct a; reflexivity. Qed.

(* stop_relay_pull: 1001 iff the stream has no group; 0 + session id iff a pull session was
   attached - it is disposed and has left the group when the call is over; 1003 iff the group
   exists but no pull session is attached - nothing but the API enable flag changes *)
Theorem stop_pull_truthful : forall fx cf st s, fx_f10 fx = true ->
  let '(st', r, ns) := step fx cf st (EStopPull s) in
  match get_group st s with
  | None => r = RCode code_group_not_found RsNone None /\ st' = st /\ ns = []
  | Some g =>
    exists g', get_group st' s = Some g' /\ pp_api (g_pp g') = false /\
    match stat_pull g with
    | Some i => r = RCode 0 RsNone (Some (s, i)) /\ has_pull g' = false /\ ns = [note NPullStop (WAtt s i) g']
    | None => r = RCode code_session_not_found RsNone None /\ slots g' = slots g /\
              pp_pulling (g_pp g') = pp_pulling (g_pp g) /\ ns = []
    end
  end.
Proof.
  intros fx cf st s H10. cbn [step].
  destruct (get_group st s) as [g|] eqn:Eg; [|repeat split].
  pose proof (stop_and_del_spec fx s g H10) as Hs. cbv zeta in Hs.
  destruct (stop_and_del fx s _) as [[g1 a] ns]. destruct Hs as [Ha [Hapi [Hc Hm]]].
  cbv beta iota.
  exists g1. rewrite get_group_finish_att, get_group_put_same. split; [reflexivity|]. split; [assumption|].
  rewrite <- Ha. destruct a as [i|].
  - destruct Hm as [A [B C]]. repeat split; assumption.
  - destruct Hm as [A [B C]]. repeat split; assumption.
Qed.

Lemma find_att_app_last : forall l s i rt x, find_att s i (l ++ [mk_att s i rt x]) <> None.
Proof.
  induction l as [|a t IH]; intros s i rt x; simpl.
  - rewrite !N.eqb_refl. simpl. discriminate.
  - destruct (_ && _); [discriminate|apply IH].
Qed.

(* start_relay_pull answers 0 + the session id exactly when this call started an attempt, and
   that is exactly when the rule allows it (attempt_iff) for the group with the request applied *)
Theorem start_pull_truthful : forall fx cf st s retry autostop rt,
  let g0 := g_set_pp (snd (get_or_create cf st s)) (pp_set_req (g_pp (snd (get_or_create cf st s))) rt retry autostop) in
  let '(st', r, ns) := step fx cf st (EStartPull s retry autostop rt) in
  ns = [] /\
  (if snd (fst (pull_if_needed g0 (st_now st)))
   then exists i, r = RCode 0 RsNone (Some (s, i)) /\ find_att s i (st_atts st') <> None /\
                  exists g', get_group st' s = Some g' /\ pp_pulling (g_pp g') = true
   else exists why, r = RCode code_start_pull_fail why None /\ why <> RsNone /\ st_atts st' = st_atts st /\
                    get_group st' s = Some g0).
Proof.
  intros fx cf st s retry autostop rt. cbn [step].
  destruct (get_or_create cf st s) as [st1 g] eqn:Eg. cbn [snd].
  assert (Hnow : st_now st1 = st_now st /\ st_atts st1 = st_atts st).
  { unfold get_or_create in Eg. destruct (get_group st s); inversion Eg; split; reflexivity. }
  destruct Hnow as [Hnow Hatts].
  unfold pull_if_needed_st. rewrite Hnow.
  set (g0 := g_set_pp g (pp_set_req (g_pp g) rt retry autostop)).
  pose proof (pull_if_needed_started g0 (st_now st)) as Hs.
  pose proof (pull_if_needed_not_started g0 (st_now st)) as Hn.
  destruct (pull_if_needed g0 (st_now st)) as [[g1 started] why] eqn:Ep. cbn [fst snd] in *.
  destruct started.
  - unfold alloc_att. cbv beta iota zeta. split; [reflexivity|]. eexists. split; [reflexivity|]. split.
    + cbn [st_atts put_group st_set_groups st_set_atts]. apply find_att_app_last.
    + exists g1. rewrite get_group_put_same. split; [reflexivity|]. apply Hs. reflexivity.
  - cbv beta iota zeta. split; [reflexivity|]. exists why. split; [reflexivity|]. split.
    + unfold pull_if_needed in Ep. destruct (should_start g0 (st_now st)) as [[|] r] eqn:Es; inversion Ep; subst.
      unfold should_start in Es.
      repeat match type of Es with (if ?c then _ else _) = _ => destruct c end; inversion Es; discriminate.
    + split; [exact Hatts|]. rewrite get_group_put_same. rewrite Hn; reflexivity.
Qed.

(* F-14: a relay pull that was stopped through the API while it was still connecting *)
Theorem stopped_pull_not_attached : forall fx cf st s i g,
  fx_f10 fx = true -> fx_f14 fx = true ->
  get_group st s = Some g -> pp_static (g_pp g) = false -> pp_api (g_pp g) = false ->
  opt_is (pp_rtmp (g_pp g)) i || opt_is (pp_rtsp (g_pp g)) i = false ->
  keeps s g (fst (fst (step fx cf st (EPullSucc s i)))).
Proof.
  intros fx cf st s i g H10 H14 Hg Hst Hapi Hno. cbn [step].
  destruct (find_att s i (st_atts st)) as [a|]; [|apply keeps_here; assumption].
  rewrite Hg. destruct (a_state a); try (apply keeps_here; assumption).
  rewrite H14, Hst, Hapi. cbn [negb andb]. rewrite orb_true_r. cbn [fst].
  eapply keeps_same with (st := put_group st s _); [reflexivity|].
  apply keeps_put_same. apply sim_pull_del_foreign; assumption.
Qed.

Definition f14_history : list event := [EStartPull 1 0 (-1) true; EStopPull 1; EPullSucc 1 1].
Lemma stopped_pull_attaches_pinned :
  exists cf h g, get_group (fst (run pinned_tree cf init_state h)) 1 = Some g /\
                 pp_api (g_pp g) = false /\ pp_static (g_pp g) = false /\ pp_rtmp (g_pp g) = Some 1.
Proof. exists (mk_config false 0), f14_history. eexists. split; [vm_compute; reflexivity|]. repeat split. Qed.

(* ---- relay push ------------------------------------------------------------------------------------ *)
Definition has_netpub (g : group) : bool := is_some (g_rtmp g) || is_some (g_rtsp g).

(* a push session is attached only on a target that is marked pushing, and only while an RTMP or
   RTSP publisher is the input of the group *)
Definition push_ok (g : group) : Prop :=
  Forall (fun p => pu_att p = true -> pu_pushing p = true /\ has_netpub g = true) (g_push g).

Definition no_att (g : group) : Prop := Forall (fun p => pu_att p = false) (g_push g).

Lemma no_att_push_ok : forall g, no_att g -> push_ok g.
Proof.
  unfold no_att, push_ok. intros g H. rewrite Forall_forall in *. intros p Hin Ha.
  rewrite (H p Hin) in Ha. discriminate.
Qed.

Lemma push_ok_idle_no_att : forall g, push_ok g -> has_netpub g = false -> no_att g.
Proof.
  unfold no_att, push_ok. intros g H Hn. rewrite Forall_forall in *. intros p Hin.
  destruct (pu_att p) eqn:E; [|reflexivity]. destruct (H p Hin E) as [_ H2]. congruence.
Qed.

Lemma has_in_false_netpub : forall g, has_in g = false -> has_netpub g = false.
Proof.
  unfold has_in, has_pub, has_netpub. intros g H.
  destruct (g_rtmp g), (g_rtsp g); simpl in *; try discriminate; reflexivity.
Qed.

Lemma push_ok_same : forall g g', g_push g' = g_push g -> has_netpub g' = has_netpub g -> push_ok g -> push_ok g'.
Proof. unfold push_ok. intros g g' E1 E2 H. rewrite E1, E2. exact H. Qed.

Definition start_one (p : push) : push := if pu_pushing p then p else mk_push true false.

Lemma start_push_list : forall g,
  g_push (start_push g) = if has_netpub g then map start_one (g_push g) else g_push g.
Proof.
  intros g. unfold start_push, has_netpub. destruct (g_push g) as [|q l] eqn:E.
  - rewrite E. destruct (_ || _); reflexivity.
  - destruct (_ || _); [reflexivity|exact E].
Qed.

Lemma start_push_netpub : forall g, has_netpub (start_push g) = has_netpub g.
Proof.
  intros g. unfold start_push, has_netpub. destruct (g_push g); [reflexivity|].
  destruct (is_some (g_rtmp g) || is_some (g_rtsp g)) eqn:En; simpl; rewrite ?En; reflexivity.
Qed.

Lemma start_push_push : forall g, push_ok g -> push_ok (start_push g).
Proof.
  intros g H. unfold push_ok in *. rewrite start_push_list, start_push_netpub.
  destruct (has_netpub g) eqn:En; [|exact H].
  rewrite Forall_forall in *. intros q Hin Ha.
  apply in_map_iff in Hin. destruct Hin as [q0 [Hq Hin]]. unfold start_one in Hq. destruct (pu_pushing q0) eqn:Ep.
  - subst q0. destruct (H q Hin Ha) as [A B]. split; [assumption|reflexivity].
  - subst q. simpl in Ha. discriminate.
Qed.

Lemma stop_push_no_att : forall g, no_att (stop_push g).
Proof.
  intros g. unfold no_att, stop_push. simpl. rewrite Forall_forall. intros q Hin.
  apply in_map_iff in Hin. destruct Hin as [q0 [Hq Hin]]. destruct (pu_att q0) eqn:Ea; subst q; [reflexivity|assumption].
Qed.

Lemma del_in_no_att : forall g, no_att (del_in g).
Proof. intros g. unfold del_in. apply (stop_push_no_att g). Qed.

Lemma Forall_upd_nth : forall A (P : A -> Prop) l t x, Forall P l -> P x -> Forall P (upd_nth t (fun _ => x) l).
Proof.
  induction l as [|a l IH]; intros t x Hl Hx; [destruct t; constructor|].
  inversion Hl; subst. destruct t; simpl; constructor; auto.
Qed.

Lemma push_ok_closed : forall fx, fx_f27 fx = true -> gw_closed fx push_ok.
Proof.
  intros fx H27. constructor.
  - intros. apply no_att_push_ok. unfold no_att, new_group. simpl.
    rewrite Forall_forall. intros p Hin. apply repeat_spec in Hin. subst. reflexivity.
  - intros g sl n p H Hin. unfold add_in. apply start_push_push. apply no_att_push_ok.
    pose proof (push_ok_idle_no_att g H (has_in_false_netpub g Hin)) as Hn.
    unfold no_att in *. destruct sl; exact Hn.
  - intros _ g n p H. unfold add_in. apply start_push_push. eapply push_ok_same; [| |exact H]; reflexivity.
  - intros g k n H. eapply push_ok_same; [| |exact H]; reflexivity.
  - intros g k n H. eapply push_ok_same; [| |exact H]; reflexivity.
  - intros g now H. unfold pull_if_needed. destruct (should_start g now) as [[|] r]; simpl; [|assumption].
    eapply push_ok_same; [| |exact H]; reflexivity.
  - intros g sl n H _. apply no_att_push_ok. apply del_in_no_att.
  - intros g H. eapply push_ok_same; [| |exact H]; reflexivity.
  - intros g rt r a H. eapply push_ok_same; [| |exact H]; reflexivity.
  - intros g a H. unfold pull_del. destruct (fx_f10 fx); [destruct (_ || _)|];
      try (apply no_att_push_ok; apply del_in_no_att). eapply push_ok_same; [| |exact H]; reflexivity.
  - intros g rt i p H Hin. unfold add_in. apply start_push_push. apply no_att_push_ok.
    pose proof (push_ok_idle_no_att g H (has_in_false_netpub g Hin)) as Hn.
    unfold no_att in *. destruct rt; exact Hn.
  - intros g t H. unfold push_ok, push_apply in *. simpl g_push.
    apply Forall_upd_nth; [exact H|]. simpl. discriminate.
  - intros g t H Hp. unfold push_ok, push_apply in *. simpl g_push.
    apply Forall_upd_nth; [exact H|]. simpl. intros _. split; [reflexivity|]. apply Hp. exact H27.
  - intros g now H. apply start_push_push. eapply push_ok_same; [| |exact H].
    + unfold tick_pull. destruct (has_sub g); destruct (should_auto_stop _ now); simpl; try reflexivity;
        match goal with |- context[pull_if_needed ?x now] => unfold pull_if_needed; destruct (should_start x now) as [[|] r] end; reflexivity.
    + unfold tick_pull. destruct (has_sub g); destruct (should_auto_stop _ now); simpl; try reflexivity;
        match goal with |- context[pull_if_needed ?x now] => unfold pull_if_needed; destruct (should_start x now) as [[|] r] end; reflexivity.
  - intros g H. apply no_att_push_ok. unfold dispose_group. apply del_in_no_att.
Qed.

(* relay push ends with the publisher: in every reachable state of the repaired server an attached
   push session sits on a target marked pushing, in a group whose input is an RTMP or RTSP publisher *)
Theorem push_ends_with_pub : forall fx cf st, fx_f27 fx = true -> reachable fx cf st ->
  forall s g, get_group st s = Some g -> push_ok g.
Proof.
  intros fx cf st H27 Hr s g Hg. eapply (all_groups_get push_ok); [|exact Hg].
  apply (gw_reachable fx push_ok cf st); [apply push_ok_closed; assumption|exact Hr].
Qed.

(* on the pinned tree a push that connects after its publisher left stays attached *)
Definition f27_history : list event := [ERtmpPub 1 1 false; EGone 1; EPushOk 1 0].
Lemma push_outlives_pub_pinned :
  exists cf h g, get_group (fst (run pinned_tree cf init_state h)) 1 = Some g /\
                 existsb pu_att (g_push g) = true /\ has_in g = false.
Proof. exists (mk_config false 1), f27_history. eexists. split; [vm_compute; reflexivity|]. split; reflexivity. Qed.

(* one push attempt per configured target as soon as an RTMP / RTSP publisher is the input, and
   again for every idle target at each tick (retry of failed targets) *)
Lemma start_push_all : forall g, has_netpub g = true -> Forall (fun p => pu_pushing p = true) (g_push (start_push g)).
Proof.
  intros g H. rewrite start_push_list, H. rewrite Forall_forall. intros q Hin.
  apply in_map_iff in Hin. destruct Hin as [q0 [Hq Hin]]. unfold start_one in Hq.
  destruct (pu_pushing q0) eqn:Ep; subst q; [assumption|reflexivity].
Qed.

Lemma start_push_length : forall g, length (g_push (start_push g)) = length (g_push g).
Proof. intros g. rewrite start_push_list. destruct (has_netpub g); [apply map_length|reflexivity]. Qed.

Theorem push_on_accept : forall g sl n p, (sl = PsRtmp \/ sl = PsRtsp) ->
  Forall (fun q => pu_pushing q = true) (g_push (add_in p (set_slot g sl n))) /\
  length (g_push (add_in p (set_slot g sl n))) = length (g_push g).
Proof.
  intros g sl n p Hsl. unfold add_in. split.
  - apply start_push_all. unfold has_netpub. destruct Hsl; subst sl; simpl; [reflexivity|apply orb_true_r].
  - rewrite start_push_length. destruct sl; reflexivity.
Qed.

Theorem push_retry_on_tick : forall fx s g now, has_netpub g = true -> has_pull g = false ->
  Forall (fun q => pu_pushing q = true) (g_push (fst (fst (fst (tick_group fx s g now))))).
Proof.
  intros fx s g now H Hp. unfold tick_group.
  assert (Hn : has_netpub (fst (fst (tick_pull g now))) = true).
  { unfold has_netpub in *. pose proof (slots_tick_pull g now) as Hs. unfold slots in Hs. inversion Hs as [[A B C D E F]].
    rewrite A, B. exact H. }
  assert (Hf : snd (tick_pull g now) = None).
  { unfold tick_pull, stop_pull. unfold has_pull in Hp. apply orb_false_iff in Hp. destruct Hp as [P1 P2].
    destruct (has_sub g); destruct (should_auto_stop _ now); simpl;
      try (destruct (pp_rtmp (g_pp g)); [discriminate P1|]; destruct (pp_rtsp (g_pp g)); [discriminate P2|reflexivity]);
      match goal with |- context[pull_if_needed ?x now] => destruct (pull_if_needed x now) as [[? ?] ?] end; reflexivity. }
  destruct (tick_pull g now) as [[g1 started] fin]. simpl in *. subst fin. simpl.
  apply start_push_all. assumption.
Qed.

(* ---- attempts are created by the triggers only ------------------------------------------------------------------ *)
Definition is_trigger (e : event) : bool :=
  match e with
  | ERtmpSub _ _ _ | EFlvSub _ _ _ | ETsSub _ _ _ | ERtspPlay _ | EStartPull _ _ _ _ | ETick _ => true
  | _ => false
  end.

Lemma get_or_create_cnt : forall cf st s, st_cnt (fst (get_or_create cf st s)) = st_cnt st /\ st_atts (fst (get_or_create cf st s)) = st_atts st.
Proof. intros. unfold get_or_create. destruct (get_group st s); split; reflexivity. Qed.

Lemma admit_pub_cnt : forall cf st sl s n c,
  st_cnt (fst (fst (admit_pub cf st sl s n c))) = st_cnt st /\ length (st_atts (fst (fst (admit_pub cf st sl s n c)))) = length (st_atts st).
Proof.
  intros. unfold admit_pub. destruct (get_or_create_cnt cf st s) as [H1 H2].
  destruct (get_or_create cf st s) as [st1 g]. simpl in *. destruct (c && has_in g); cbn [fst]; [rewrite H1, H2; split; reflexivity|].
  unfold next_pipe. cbn [fst snd]. rewrite <- H1, <- H2. split; reflexivity.
Qed.

Lemma upd_att_length : forall l s i x, length (upd_att s i x l) = length l.
Proof. induction l as [|a t IH]; intros; simpl; [reflexivity|]. destruct (_ && _); simpl; [reflexivity|rewrite IH; reflexivity]. Qed.

(* no event other than a subscriber arrival, an RTSP PLAY, start_relay_pull or a tick creates a relay
   attempt: the attempt counters and the number of attempts stay the same *)
Theorem attempts_only_by_triggers : forall fx cf st e, is_trigger e = false ->
  st_cnt (fst (fst (step fx cf st e))) = st_cnt st /\
  length (st_atts (fst (fst (step fx cf st e)))) = length (st_atts st).
Proof.
  intros fx cf st e Ht. destruct e; simpl in Ht; try discriminate Ht; cbn [step].
  - destruct (fresh st n); cbn [negb fst]; [|split; reflexivity]. destruct deny; cbn [fst]; [split; reflexivity|].
    pose proof (admit_pub_cnt cf st PsRtmp s n true) as H. destruct (admit_pub cf st PsRtmp s n true) as [[st1 ok] g]. cbn [fst] in *.
    destruct ok; exact H.
  - destruct (fresh st n); cbn [negb fst]; [|split; reflexivity]. destruct deny; cbn [fst]; [split; reflexivity|].
    pose proof (admit_pub_cnt cf st PsRtsp s n true) as H. destruct (admit_pub cf st PsRtsp s n true) as [[st1 ok] g]. cbn [fst] in *.
    destruct ok; exact H.
  - destruct (fresh st n); cbn [negb fst]; [|split; reflexivity]. destruct deny; cbn [fst]; [split; reflexivity|].
    unfold admit_sub. destruct (get_or_create_cnt cf st s) as [H1 H2]. destruct (get_or_create cf st s) as [st1 g]. simpl in H1, H2.
    destruct (g_disposed g); cbn [fst]; [split; reflexivity|]. cbn [fst]. rewrite <- H1, <- H2. split; reflexivity.
  - destruct (fresh st n); cbn [negb fst]; [|split; reflexivity].
    pose proof (admit_pub_cnt cf st PsCust s n true) as H. destruct (admit_pub cf st PsCust s n true) as [[st1 ok] g]. cbn [fst] in *.
    destruct ok; exact H.
  - destruct (fresh st n); cbn [negb fst]; [|split; reflexivity].
    pose proof (admit_pub_cnt cf st PsPs s n (fx_f09 fx)) as H. destruct (admit_pub cf st PsPs s n (fx_f09 fx)) as [[st1 ok] g]. cbn [fst] in *.
    destruct ok; [destruct listen; cbn [fst]|]; try exact H.
    destruct (get_or_create_cnt cf st s) as [H1 H2]. cbn [add_sess st_cnt st_atts st_set_sess]. unfold add_sess. simpl. rewrite H1, H2. split; reflexivity.
  - destruct (find_sess n (st_sess st)) as [x|]; cbn [fst]; [|split; reflexivity].
    destruct (s_gone x); cbn [fst]; [split; reflexivity|].
    destruct (s_kind x); cbn [fst]; try (split; reflexivity);
      unfold depart_pub, depart_sub;
      match goal with |- context[get_group ?a ?b] => destruct (get_group a b) end; cbn [fst]; try (split; reflexivity);
      destruct (fx_f26 fx && _); split; reflexivity.
  - destruct (get_group st s) as [g|]; cbn [fst]; [|split; reflexivity].
    unfold kick_group. destruct t as [n|s' i].
    + destruct (find_sess n (st_sess st)) as [x|]; cbn [fst]; [|split; reflexivity].
      destruct (s_kind x); cbn [fst]; try (split; reflexivity);
        match goal with |- context[if ?c then _ else _] => destruct c end; split; reflexivity.
    + destruct (_ && _); cbn [fst]; [|split; reflexivity].
      destruct (stop_and_del fx s _) as [[g1 a] ns]. cbn [fst]. destruct a; simpl; [|split; reflexivity].
      split; [reflexivity|apply upd_att_length].
  - destruct (get_group st s) as [g|]; cbn [fst]; [|split; reflexivity].
    destruct (stop_and_del fx s _) as [[g1 a] ns]. cbn [fst]. destruct a; simpl; [|split; reflexivity].
    split; [reflexivity|apply upd_att_length].
  - destruct (find_att s i (st_atts st)) as [a|]; cbn [fst]; [|split; reflexivity].
    destruct (get_group st s) as [g|]; cbn [fst]; [|split; reflexivity].
    destruct (a_state a); cbn [fst]; try (split; reflexivity).
    destruct (has_in g || _); cbn [fst]; (split; [reflexivity|apply upd_att_length]).
  - destruct (find_att s i (st_atts st)) as [a|]; cbn [fst]; [|split; reflexivity].
    destruct (get_group st s) as [g|]; cbn [fst]; [|split; reflexivity].
    destruct (a_state a); cbn [fst]; try (split; reflexivity). split; [reflexivity|apply upd_att_length].
  - destruct (find_att s i (st_atts st)) as [a|]; cbn [fst]; [|split; reflexivity].
    destruct (get_group st s) as [g|]; cbn [fst]; [|split; reflexivity].
    destruct (a_state a); cbn [fst]; try (split; reflexivity). split; [reflexivity|apply upd_att_length].
  - match goal with |- context[push_event st s t false ?nx] => generalize nx; intros next end.
    unfold push_event. destruct (get_group st s) as [g|]; cbn [fst]; [|split; reflexivity].
    destruct (nth_error (g_push g) t); cbn [fst]; [|split; reflexivity]. destruct (_ && _); split; reflexivity.
  - unfold push_event. destruct (get_group st s) as [g|]; cbn [fst]; [|split; reflexivity].
    destruct (nth_error (g_push g) t); cbn [fst]; [|split; reflexivity]. destruct (_ && _); split; reflexivity.
  - unfold push_event. destruct (get_group st s) as [g|]; cbn [fst]; [|split; reflexivity].
    destruct (nth_error (g_push g) t); cbn [fst]; [|split; reflexivity]. destruct (_ && _); split; reflexivity.
  - split; reflexivity.
  - destruct (st_disposed st); split; reflexivity.
  - destruct (find_sess n (st_sess st)) as [x|]; cbn [fst]; [|split; reflexivity].
    destruct (s_kind x); cbn [fst]; try (split; reflexivity);
    match goal with |- context[if ?c then _ else _] => destruct c end; split; reflexivity.
Qed.
