(* Model of the media fan-out of logic.Group (group__core_streaming.go:
   broadcastByRtmpMsg, feedTsPackets, write2/writev2RtmpSubSessions;
   group__out_sub.go: Add*SubSession; group__in.go: addIn/delIn; MergeWriter).
   Consumers receive LABELS: each label stands for the serialised bytes of one
   published message (or TS blob); the byte-level meaning is [label_bytes] in
   GroupFanoutBytes.v.  No proofs here. *)
From Lal Require Import Common.LBytes Common.Res Rtmp.RtmpMetadata Net.NetRtpHeader Group.GroupMsg Group.GroupGopCache.
Open Scope N_scope.

Inductive label :=
| LC (i : nat)      (* RTMP chunks of message i (metadata: @setDataFrame stripped) *)
| LCW (i : nat)     (* RTMP chunks of metadata message i with @setDataFrame ensured *)
| LT (i : nat)      (* FLV tag of message i (metadata: @setDataFrame stripped) *)
| LTs (j : nat)     (* j-th TS packet blob handed to OnTsPackets *)
| LPat (k : nat)    (* k-th PAT/PMT blob handed to OnPatPmt *)
| LSdp (k : nat)    (* k-th SDP handed to OnSdp (towards an RTSP subscriber: the DESCRIBE response carrying it) *)
| LRtp (j : nat).   (* j-th RTP packet handed to OnRtpPacket *)

(* video payload type of an SDP as feedRtpPacket distinguishes it *)
Inductive vcodec := VAvc | VHevc | VOther.

Inductive ckind := KRtmp | KFlv | KPush | KTs | KRtsp.

Definition ckind_eqb (a b : ckind) : bool :=
  match a, b with KRtmp, KRtmp | KFlv, KFlv | KPush, KPush | KTs, KTs | KRtsp, KRtsp => true | _, _ => false end.

Record consumer := mk_consumer {
  c_id : N; c_kind : ckind;
  c_fresh : bool;        (* IsFresh; RTSP: Stage != SubSessionStageReadPlay *)
  c_wait : bool;         (* ShouldWaitVideoKeyFrame / ShouldWaitBoundary *)
  c_out : list label     (* everything written to the session so far *)
}.

Record cfg := mk_cfg {
  cf_rtmp_enable : bool; cf_rtmp_gop : nat; cf_rtmp_max : nat;
  cf_flv_enable : bool; cf_flv_gop : nat; cf_flv_max : nat;
  cf_ts_gop : nat; cf_ts_max : nat;
  cf_merge : N;            (* RtmpConfig.MergeWriteSize; 0 = no merge writer *)
  cf_record_flv : bool;
  cf_chunk : N;            (* rtmp.LocalChunkSize *)
  cf_ext_at_limit : bool;  (* extended timestamp also for ts = 0xFFFFFF (after fix F-01) *)
  cf_rtsp_wait : bool;     (* RtspConfig.OutWaitKeyFrameFlag *)
  cf_hook : bool;          (* a stream hook is installed (GroupOption.onHookSession) *)
  cf_record_ts : bool      (* RecordConfig.EnableMpegts *)
}.

Record gstate := mk_gstate {
  g_next : nat;                          (* number of publish events so far *)
  g_next_ts : nat; g_next_pat : nat;
  g_rtmp_cache : gop_cache label;
  g_flv_cache : gop_cache label;
  g_ts_cache : gop_cache label;
  g_patpmt : option label;
  g_sdp : option label; g_next_sdp : nat;   (* sdpCtx (what DESCRIBE is answered with) *)
  g_merge : list label; g_merge_size : N;  (* MergeWriter.bs / currSize *)
  g_video_known : bool;                    (* stat.VideoCodec != "" *)
  g_subs : list consumer;                  (* attached consumers, iteration order *)
  g_gone : list consumer;                  (* detached consumers, kept for observation *)
  g_rec_open : bool;                       (* recordFlv != nil *)
  g_rec : list (list label);               (* FLV recordings, newest first *)
  g_in : bool;                             (* an input is attached *)
  g_next_rtp : nat;                        (* number of RTP packets handed to OnRtpPacket so far *)
  g_vcodec : vcodec;                       (* sdpCtx.GetVideoPayloadTypeBase() of the SDP in force *)
  g_hook : list (list nat * nat);          (* stream hook, one entry per input, newest first: messages told (OnMsg), OnStop calls *)
  g_trec : list (list label)               (* MPEG-TS recordings, newest first *)
}.

Definition g_init (c : cfg) : gstate :=
  {| g_next := 0; g_next_ts := 0; g_next_pat := 0;
     g_rtmp_cache := gc_new (cf_rtmp_gop c) (cf_rtmp_max c);
     g_flv_cache := gc_new (cf_flv_gop c) (cf_flv_max c);
     g_ts_cache := gc_new (cf_ts_gop c) (cf_ts_max c);
     g_patpmt := None; g_sdp := None; g_next_sdp := 0; g_merge := []; g_merge_size := 0; g_video_known := false;
     g_subs := []; g_gone := []; g_rec_open := false; g_rec := []; g_in := false;
     g_next_rtp := 0; g_vcodec := VOther; g_hook := []; g_trec := [] |}.

Inductive ev :=
| EvPublish (m : rmsg)
| EvJoin (k : ckind) (id : N)
| EvLeave (id : N)
| EvInStart | EvInStop
| EvTs (boundary : bool)      (* OnTsPackets(blob, frame, boundary) *)
| EvPatPmt                    (* OnPatPmt(blob) *)
| EvSdp (v : vcodec)          (* OnSdp(ctx): an RTSP publisher / pull / the RTSP remuxer announces its SDP *)
| EvPlay (id : N)             (* SETUP + PLAY of an RTSP subscriber that has its SDP: HandleNewRtspSubSessionPlay *)
| EvRtp (raw : bytes)         (* OnRtpPacket(pkt), pkt = rtprtcp.ParseRtpPacket(raw) *)
| EvDispose.                  (* Group.Dispose(): server shutdown / removal of the group.  The manager makes no further
                                 calls on a disposed group; the model keeps stepping (with an empty subscriber set) *)
(* EvJoin KRtsp id = DESCRIBE of a new RTSP session (HandleNewRtspSubSessionDescribe):
   it joins rtspSubSessionSet and is answered with the current SDP, if any. *)

Definition admitted (c : consumer) : bool := negb (c_fresh c) && negb (c_wait c).

Definition c_append (c : consumer) (l : list label) : consumer :=
  {| c_id := c_id c; c_kind := c_kind c; c_fresh := c_fresh c; c_wait := c_wait c; c_out := c_out c ++ l |}.
Definition c_set (c : consumer) (fresh wait : bool) : consumer :=
  {| c_id := c_id c; c_kind := c_kind c; c_fresh := fresh; c_wait := wait; c_out := c_out c |}.

(* write2RtmpSubSessions / writev2RtmpSubSessions *)
Definition write_rtmp_admitted (l : list label) (subs : list consumer) : list consumer :=
  map (fun c => if ckind_eqb (c_kind c) KRtmp && admitted c then c_append c l else c) subs.

Definition mclass_of (m : rmsg) : mclass :=
  if rm_type m =? type_metadata then MMeta
  else if is_aac_seq_header m then MAsh
  else if is_video_key_seq_header m then MVsh
  else if is_video_key_nalu m then MKey
  else MOther.

Definition prologue (g : gop_cache label) (with_sdf : bool) : list label :=
  opt_list (if with_sdf then gc_meta_w g else gc_meta_wo g) ++ opt_list (gc_vsh g) ++ opt_list (gc_ash g) ++ gc_all g.

(* isHeaderMsg of broadcastByRtmpMsg: metadata, video or AAC sequence header.
   Such a message is no frame; a session that waits for a key frame receives
   it all the same (fix F-08i). *)
Definition is_hdr_msg (m : rmsg) : bool :=
  (rm_type m =? type_metadata) || is_video_key_seq_header m || is_aac_seq_header m.

(* One visit of the loop over rtmpSubSessionSet at the top of
   broadcastByRtmpMsg, for a session that is not admitted yet.  Returns the
   session and whether MergeWriter.Flush() was called during the visit.
   [hdr] = isHeaderMsg, [lc] = the chunks of the message being published: a
   session that is still waiting after the key-frame test gets a header message
   written directly (the broadcast writers and the merge writer skip it). *)
Definition rtmp_visit (cache : gop_cache label) (key hdr : bool) (lc : label) (c : consumer) : consumer * bool :=
  let '(c1, f1) :=
    if c_fresh c then
      (* prologue; ShouldWaitVideoKeyFrame=false when a GOP is cached; Flush; IsFresh=false *)
      let c' := c_append c (prologue cache false) in
      (c_set c' false (if Nat.ltb 0 (gc_count cache) then false else c_wait c'), true)
    else (c, false) in
  if c_wait c1 && key then (c_set c1 (c_fresh c1) false, true)
  else if c_wait c1 && hdr then (c_append c1 [lc], f1)
  else (c1, f1).

(* The loop.  A Flush delivers the merge buffer to every session that is
   admitted at that moment - visited or not - and never to the session being
   visited (it is still fresh / waiting then).  [done] = visited sessions
   (reversed); sessions not yet visited receive what earlier flushes owe them
   ([pend]) when the loop reaches them, which is the same bytes in the same
   order because an admitted session is otherwise untouched by its visit. *)
Fixpoint rtmp_loop_aux (cache : gop_cache label) (key hdr : bool) (lc : label)
         (done todo : list consumer) (merge pend : list label) : list consumer * list label :=
  match todo with
  | [] => (rev done, merge)
  | c0 :: rest =>
      if negb (ckind_eqb (c_kind c0) KRtmp) then rtmp_loop_aux cache key hdr lc (c0 :: done) rest merge pend
      else if admitted c0 then rtmp_loop_aux cache key hdr lc (c_append c0 pend :: done) rest merge pend
      else
        let '(c1, flushed) := rtmp_visit cache key hdr lc c0 in
        if flushed
        then rtmp_loop_aux cache key hdr lc (c1 :: write_rtmp_admitted merge done) rest [] (pend ++ merge)
        else rtmp_loop_aux cache key hdr lc (c1 :: done) rest merge pend
  end.

Definition rtmp_loop (cache : gop_cache label) (key hdr : bool) (lc : label) (subs : list consumer) (merge : list label)
  : list consumer * list label :=
  rtmp_loop_aux cache key hdr lc [] subs merge [].

Definition has_kind (k : ckind) (subs : list consumer) : bool :=
  existsb (fun c => ckind_eqb (c_kind c) k) subs.

Definition label_size (c : cfg) (m : rmsg) (with_sdf : bool) : N :=
  let p := if rm_type m =? type_metadata
           then (if with_sdf then metadata_with_sdf (rm_payload m) else metadata_without_sdf (rm_payload m))
           else rm_payload m in
  let ext := if cf_ext_at_limit c then 16777215 <=? rm_ts m else 16777215 <? rm_ts m in
  chunks_len (cf_chunk c) ext (lenN p).

(* label of the with-@setDataFrame chunks: identical bytes to LC i unless the
   message is metadata whose payload changes when the prefix is ensured *)
Definition lcw (m : rmsg) (i : nat) : label :=
  if (rm_type m =? type_metadata) && negb (bytes_eqb (metadata_with_sdf (rm_payload m)) (metadata_without_sdf (rm_payload m)))
  then LCW i else LC i.

Definition push_step (cache : gop_cache label) (lw : label) (c : consumer) : consumer :=
  if negb (ckind_eqb (c_kind c) KPush) then c
  else
    let c1 := if c_fresh c then c_set (c_append c (prologue cache true)) false (c_wait c) else c in
    c_append c1 [lw].

Definition flv_step (cache : gop_cache label) (key hdr : bool) (lt : label) (c : consumer) : consumer :=
  if negb (ckind_eqb (c_kind c) KFlv) then c
  else
    let c1 :=
      if c_fresh c then
        let c' := c_append c (prologue cache false) in
        c_set c' false (if Nat.ltb 0 (gc_count cache) then false else c_wait c')
      else c in
    if c_wait c1 then
      (if key then c_set (c_append c1 [lt]) (c_fresh c1) false
       else if hdr then c_append c1 [lt]      (* metadata / sequence header: sent, keeps waiting (fix F-08i) *)
       else c1)
    else c_append c1 [lt].

Definition set_subs (s : gstate) subs merge msize : gstate :=
  {| g_next := g_next s; g_next_ts := g_next_ts s; g_next_pat := g_next_pat s;
     g_rtmp_cache := g_rtmp_cache s; g_flv_cache := g_flv_cache s; g_ts_cache := g_ts_cache s;
     g_patpmt := g_patpmt s; g_sdp := g_sdp s; g_next_sdp := g_next_sdp s; g_merge := merge; g_merge_size := msize; g_video_known := g_video_known s;
     g_subs := subs; g_gone := g_gone s; g_rec_open := g_rec_open s; g_rec := g_rec s; g_in := g_in s; g_next_rtp := g_next_rtp s; g_vcodec := g_vcodec s; g_hook := g_hook s; g_trec := g_trec s |}.

Definition rec_append (r : list (list label)) (l : label) : list (list label) :=
  match r with [] => [[l]] | f :: t => (f ++ [l]) :: t end.

(* the stream hook (customizeHookSessionContext): created at addIn, OnMsg for every
   non-empty message, OnStop in delIn.  One entry per input, newest first. *)
Definition hook_msg (hk : list (list nat * nat)) (i : nat) : list (list nat * nat) :=
  match hk with [] => [] | (ms, st) :: t => (ms ++ [i], st) :: t end.
Definition hook_stop (hk : list (list nat * nat)) : list (list nat * nat) :=
  match hk with [] => [] | (ms, st) :: t => (ms, S st) :: t end.

Definition publish (c : cfg) (s : gstate) (m : rmsg) : gstate :=
  let i := g_next s in
  let bump (s' : gstate) :=
    {| g_next := S i; g_next_ts := g_next_ts s'; g_next_pat := g_next_pat s';
       g_rtmp_cache := g_rtmp_cache s'; g_flv_cache := g_flv_cache s'; g_ts_cache := g_ts_cache s';
       g_patpmt := g_patpmt s'; g_sdp := g_sdp s'; g_next_sdp := g_next_sdp s'; g_merge := g_merge s'; g_merge_size := g_merge_size s';
       g_video_known := g_video_known s'; g_subs := g_subs s'; g_gone := g_gone s';
       g_rec_open := g_rec_open s'; g_rec := g_rec s'; g_in := g_in s'; g_next_rtp := g_next_rtp s'; g_vcodec := g_vcodec s'; g_hook := g_hook s'; g_trec := g_trec s' |} in
  if Nat.eqb (length (rm_payload m)) 0 then bump s
  else
    let key := is_video_key_nalu m in
    let hdr := is_hdr_msg m in
    let cls := mclass_of m in
    (* RTMP subscribers: prologue / admission loop *)
    let '(subs1, merge1) := rtmp_loop (g_rtmp_cache s) key hdr (LC i) (g_subs s) (g_merge s) in
    let msize1 := if Nat.eqb (length merge1) 0 then 0 else g_merge_size s in
    (* live write: direct, or through the merge writer *)
    let '(subs2, merge2, msize2) :=
      if has_kind KRtmp subs1 then
        if cf_merge c =? 0 then (write_rtmp_admitted [LC i] subs1, merge1, msize1)
        else
          let merge' := merge1 ++ [LC i] in
          let msize' := msize1 + label_size c m false in
          if cf_merge c <=? msize' then (write_rtmp_admitted merge' subs1, [], 0)
          else (subs1, merge', msize')
      else (subs1, merge1, msize1) in
    (* relay push, HTTP-FLV *)
    let subs3 := map (push_step (g_rtmp_cache s) (lcw m i)) subs2 in
    let subs4 := map (flv_step (g_flv_cache s) key hdr (LT i)) subs3 in
    let rec' := if g_rec_open s then rec_append (g_rec s) (LT i) else g_rec s in
    (* caches are fed after the fan-out *)
    let rc := if cf_rtmp_enable c then
                let g1 := fst (gc_feed (g_rtmp_cache s) cls (LC i) (rm_payload m)) in
                if rm_type m =? type_metadata then gc_set_metadata g1 (lcw m i) (LC i) else g1
              else g_rtmp_cache s in
    let fc := if cf_flv_enable c then
                let g1 := fst (gc_feed (g_flv_cache s) cls (LT i) (rm_payload m)) in
                if rm_type m =? type_metadata then gc_set_metadata g1 (LT i) (LT i) else g1
              else g_flv_cache s in
    let vk := g_video_known s || is_avc_key_seq_header m || is_hevc_key_seq_header m in
    {| g_next := S i; g_next_ts := g_next_ts s; g_next_pat := g_next_pat s;
       g_rtmp_cache := rc; g_flv_cache := fc; g_ts_cache := g_ts_cache s;
       g_patpmt := g_patpmt s; g_sdp := g_sdp s; g_next_sdp := g_next_sdp s; g_merge := merge2; g_merge_size := msize2; g_video_known := vk;
       g_subs := subs4; g_gone := g_gone s; g_rec_open := g_rec_open s; g_rec := rec'; g_in := g_in s; g_next_rtp := g_next_rtp s; g_vcodec := g_vcodec s;
       g_hook := if g_in s && cf_hook c then hook_msg (g_hook s) i else g_hook s; g_trec := g_trec s |}.

Definition ts_step (cache : gop_cache label) (pat : option label) (boundary : bool) (lt : label) (c : consumer) : consumer :=
  if negb (ckind_eqb (c_kind c) KTs) then c
  else
    let c1 :=
      if c_fresh c then
        let c' := c_append c (opt_list pat ++ gc_all cache) in
        c_set c' false (if Nat.ltb 0 (gc_count cache) then false else c_wait c')
      else c in
    if c_wait c1 then (if boundary then c_set (c_append c1 [lt]) (c_fresh c1) false else c1)
    else c_append c1 [lt].

Definition feed_ts (c : cfg) (s : gstate) (boundary : bool) : gstate :=
  let j := g_next_ts s in
  let subs' := map (ts_step (g_ts_cache s) (g_patpmt s) boundary (LTs j)) (g_subs s) in
  let tc := fst (gc_feed (g_ts_cache s) (if boundary then MKey else MOther) (LTs j) []) in
  {| g_next := g_next s; g_next_ts := S j; g_next_pat := g_next_pat s;
     g_rtmp_cache := g_rtmp_cache s; g_flv_cache := g_flv_cache s; g_ts_cache := tc;
     g_patpmt := g_patpmt s; g_sdp := g_sdp s; g_next_sdp := g_next_sdp s; g_merge := g_merge s; g_merge_size := g_merge_size s;
     g_video_known := g_video_known s; g_subs := subs'; g_gone := g_gone s;
     g_rec_open := g_rec_open s; g_rec := g_rec s; g_in := g_in s; g_next_rtp := g_next_rtp s; g_vcodec := g_vcodec s; g_hook := g_hook s; 
     (* recordMpegts.Write(tsPackets) *)
     g_trec := if g_in s && cf_record_ts c then rec_append (g_trec s) (LTs j) else g_trec s |}.

(* ---- RTSP subscribers (feedRtpPacket, after the fixes of E1) ---- *)
Definition rtp_pt (raw : bytes) : option N :=
  match parse_rtp_header true raw with Ok h => Some (rh_pt h) | _ => None end.

(* the CLASSIFIER's verdict on the packet bytes: IsAvcBoundary / IsHevcBoundary (models of C13).  It looks at the
   payload only - it says "GOP start" for any packet whose first payload bytes read as IDR / SPS / PPS (VPS, IRAP),
   STAP-A or FU with such a unit, whatever track the packet belongs to *)
Definition rtp_verdict (v : vcodec) (raw : bytes) : bool :=
  match v with
  | VOther => true
  | VAvc => match rtp_boundary true false raw with Ok b => b | _ => false end
  | VHevc => match rtp_boundary true true raw with Ok b => b | _ => false end
  end.

(* the packet's TRACK: sdpCtx.IsVideoPayloadTypeOrigin(pkt.Header.PacketType); every SDP of the harness announces video as 96 *)
Definition rtp_video_pt : N := 96.
Definition rtp_is_video (pt : N) : bool := pt =? rtp_video_pt.

(* the switch on sdpCtx.GetVideoPayloadTypeBase() in feedRtpPacket: with a codec lal can classify, a GOP start is
   a packet of the video track with a positive verdict; otherwise every packet passes.
   [fx = false]: the tree before fix F-34, where the verdict alone decided - also for audio packets *)
Definition rtp_is_boundary (fx : bool) (v : vcodec) (pt : N) (raw : bytes) : bool :=
  match v with
  | VOther => true
  | _ => (negb fx || rtp_is_video pt) && rtp_verdict v raw
  end.

(* payload types every SDP of the harness announces (video 96, audio 97):
   BaseOutSession.WriteRtpPacket hands other packets to no connection *)
Definition rtp_pt_written (pt : N) : bool := (pt =? 96) || (pt =? 97).

Definition no_sdp_yet (c : consumer) : bool := match c_out c with [] => true | _ => false end.

Definition rtsp_step (waitcfg boundary written : bool) (l : label) (c : consumer) : consumer :=
  if negb (ckind_eqb (c_kind c) KRtsp) then c
  else if c_fresh c then c                     (* not in stage ReadPlay: skipped *)
  else
    let w := if written then c_append c [l] else c in
    if negb waitcfg || negb (c_wait c) then w
    else if boundary then c_set w false false else c.

Definition feed_rtp_gen (fx : bool) (c : cfg) (s : gstate) (raw : bytes) : gstate :=
  let j := g_next_rtp s in
  let subs' :=
    match rtp_pt raw with
    | None => g_subs s     (* ParseRtpPacket fails: never reaches the group *)
    | Some pt =>
        (* no SDP in force (the input ended): nothing reaches a waiting session *)
        let boundary := match g_sdp s with None => false | Some _ => rtp_is_boundary fx (g_vcodec s) pt raw end in
        map (rtsp_step (cf_rtsp_wait c) boundary (rtp_pt_written pt) (LRtp j)) (g_subs s)
    end in
  {| g_next := g_next s; g_next_ts := g_next_ts s; g_next_pat := g_next_pat s;
     g_rtmp_cache := g_rtmp_cache s; g_flv_cache := g_flv_cache s; g_ts_cache := g_ts_cache s;
     g_patpmt := g_patpmt s; g_sdp := g_sdp s; g_next_sdp := g_next_sdp s; g_merge := g_merge s; g_merge_size := g_merge_size s;
     g_video_known := g_video_known s; g_subs := subs'; g_gone := g_gone s;
     g_rec_open := g_rec_open s; g_rec := g_rec s; g_in := g_in s;
     g_next_rtp := S j; g_vcodec := g_vcodec s; g_hook := g_hook s; g_trec := g_trec s |}.

Definition feed_rtp := feed_rtp_gen true.

(* feedWaitRtspSubSessions: sessions still in stage ReadDescribe get the SDP *)
Definition sdp_step (l : label) (c : consumer) : consumer :=
  if ckind_eqb (c_kind c) KRtsp && c_fresh c && no_sdp_yet c then c_append c [l] else c.

(* handlePlay + HandleNewRtspSubSessionPlay *)
Definition play_step (video_known : bool) (id : N) (c : consumer) : consumer :=
  if (c_id c =? id) && ckind_eqb (c_kind c) KRtsp && c_fresh c && negb (no_sdp_yet c)
  then c_set c false (if video_known then c_wait c else false) else c.

Definition new_consumer (s : gstate) (k : ckind) (id : N) : consumer :=
  (* NewServerSession / NewSubSession: IsFresh = true, ShouldWait... = true;
     Add*SubSession: no wait when no video codec is known.  Push sessions and
     TS sessions are not touched by that rule. *)
  let wait := match k with
              | KRtmp | KFlv => g_video_known s
              | KPush => false
              | KTs => true
              | KRtsp => true      (* NewSubSession; decided at PLAY *)
              end in
  {| c_id := id; c_kind := k; c_fresh := true; c_wait := wait;
     c_out := match k with KRtsp => opt_list (g_sdp s) | _ => [] end |}.

Definition step (c : cfg) (s : gstate) (e : ev) : gstate :=
  match e with
  | EvPublish m => publish c s m
  | EvJoin k id =>
      if existsb (fun x => c_id x =? id) (g_subs s) then s
      else set_subs s (g_subs s ++ [new_consumer s k id]) (g_merge s) (g_merge_size s)
  | EvLeave id =>
      let '(gone, stay) := partition (fun x => c_id x =? id) (g_subs s) in
      {| g_next := g_next s; g_next_ts := g_next_ts s; g_next_pat := g_next_pat s;
         g_rtmp_cache := g_rtmp_cache s; g_flv_cache := g_flv_cache s; g_ts_cache := g_ts_cache s;
         g_patpmt := g_patpmt s; g_sdp := g_sdp s; g_next_sdp := g_next_sdp s; g_merge := g_merge s; g_merge_size := g_merge_size s;
         g_video_known := g_video_known s; g_subs := stay; g_gone := g_gone s ++ gone;
         g_rec_open := g_rec_open s; g_rec := g_rec s; g_in := g_in s; g_next_rtp := g_next_rtp s; g_vcodec := g_vcodec s; g_hook := g_hook s; g_trec := g_trec s |}
  | EvInStart =>
      if g_in s then s else
      {| g_next := g_next s; g_next_ts := g_next_ts s; g_next_pat := g_next_pat s;
         g_rtmp_cache := g_rtmp_cache s; g_flv_cache := g_flv_cache s; g_ts_cache := g_ts_cache s;
         g_patpmt := g_patpmt s; g_sdp := g_sdp s; g_next_sdp := g_next_sdp s; g_merge := g_merge s; g_merge_size := g_merge_size s;
         g_video_known := g_video_known s; g_subs := g_subs s; g_gone := g_gone s;
         g_rec_open := cf_record_flv c;
         g_rec := if cf_record_flv c then [] :: g_rec s else g_rec s; g_in := true; g_next_rtp := g_next_rtp s; g_vcodec := g_vcodec s;
         g_hook := if cf_hook c then ([], 0%nat) :: g_hook s else g_hook s;
         g_trec := if cf_record_ts c then [] :: g_trec s else g_trec s |}
  | EvInStop =>
      if negb (g_in s) then s else
      (* delIn: push sessions disposed and forgotten, recording closed, caches
         and codec info cleared (fix F-07); the merge buffer is NOT reset *)
      let '(pushes, stay) := partition (fun x => ckind_eqb (c_kind x) KPush) (g_subs s) in
      {| g_next := g_next s; g_next_ts := g_next_ts s; g_next_pat := g_next_pat s;
         g_rtmp_cache := gc_clear (g_rtmp_cache s); g_flv_cache := gc_clear (g_flv_cache s);
         g_ts_cache := gc_clear (g_ts_cache s);
         g_patpmt := None; g_sdp := None; g_next_sdp := g_next_sdp s; g_merge := g_merge s; g_merge_size := g_merge_size s;
         g_video_known := false; g_subs := stay; g_gone := g_gone s ++ pushes;
         g_rec_open := false; g_rec := g_rec s; g_in := false; g_next_rtp := g_next_rtp s; g_vcodec := VOther;
         g_hook := if cf_hook c then hook_stop (g_hook s) else g_hook s; g_trec := g_trec s |}
  | EvTs boundary => feed_ts c s boundary
  | EvPatPmt =>
      let k := g_next_pat s in
      {| g_next := g_next s; g_next_ts := g_next_ts s; g_next_pat := S k;
         g_rtmp_cache := g_rtmp_cache s; g_flv_cache := g_flv_cache s; g_ts_cache := g_ts_cache s;
         g_patpmt := Some (LPat k); g_sdp := g_sdp s; g_next_sdp := g_next_sdp s; g_merge := g_merge s; g_merge_size := g_merge_size s;
         g_video_known := g_video_known s;
         (* sessions past their prologue get the new tables at once (fix F-08iii) *)
         g_subs := map (fun c => if ckind_eqb (c_kind c) KTs && negb (c_fresh c) then c_append c [LPat k] else c) (g_subs s);
         g_gone := g_gone s;
         g_rec_open := g_rec_open s; g_rec := g_rec s; g_in := g_in s; g_next_rtp := g_next_rtp s; g_vcodec := g_vcodec s; g_hook := g_hook s; 
         g_trec := if g_in s && cf_record_ts c then rec_append (g_trec s) (LPat k) else g_trec s |}
  | EvSdp v =>
      let k := g_next_sdp s in
      {| g_next := g_next s; g_next_ts := g_next_ts s; g_next_pat := g_next_pat s;
         g_rtmp_cache := g_rtmp_cache s; g_flv_cache := g_flv_cache s; g_ts_cache := g_ts_cache s;
         g_patpmt := g_patpmt s; g_sdp := Some (LSdp k); g_next_sdp := S k; g_merge := g_merge s; g_merge_size := g_merge_size s;
         g_video_known := g_video_known s; g_subs := map (sdp_step (LSdp k)) (g_subs s); g_gone := g_gone s;
         g_rec_open := g_rec_open s; g_rec := g_rec s; g_in := g_in s;
         g_next_rtp := g_next_rtp s; g_vcodec := v; g_hook := g_hook s; g_trec := g_trec s |}
  | EvPlay id => set_subs s (map (play_step (g_video_known s) id) (g_subs s)) (g_merge s) (g_merge_size s)
  | EvRtp raw => feed_rtp c s raw
  | EvDispose =>
      (* every sub session is disposed and forgotten, then delIn runs - without any check that an input exists *)
      {| g_next := g_next s; g_next_ts := g_next_ts s; g_next_pat := g_next_pat s;
         g_rtmp_cache := gc_clear (g_rtmp_cache s); g_flv_cache := gc_clear (g_flv_cache s);
         g_ts_cache := gc_clear (g_ts_cache s);
         g_patpmt := None; g_sdp := None; g_next_sdp := g_next_sdp s; g_merge := g_merge s; g_merge_size := g_merge_size s;
         g_video_known := false; g_subs := []; g_gone := g_gone s ++ g_subs s;
         g_rec_open := false; g_rec := g_rec s; g_in := false; g_next_rtp := g_next_rtp s; g_vcodec := VOther;
         g_hook := if g_in s && cf_hook c then hook_stop (g_hook s) else g_hook s; g_trec := g_trec s |}
  end.

Definition run (c : cfg) (h : list ev) : gstate := fold_left (step c) h (g_init c).

(* the tree before fix F-34 (kept for the refutation witness only) *)
Definition step_pinned (c : cfg) (s : gstate) (e : ev) : gstate :=
  match e with EvRtp raw => feed_rtp_gen false c s raw | _ => step c s e end.
Definition run_pinned (c : cfg) (h : list ev) : gstate := fold_left (step_pinned c) h (g_init c).

(* observation: every consumer that ever existed, by id *)
Definition all_consumers (s : gstate) : list consumer := g_gone s ++ g_subs s.
