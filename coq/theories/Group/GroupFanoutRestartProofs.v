(* C16: the end of an input finalises its outputs once, and nothing of it
   reaches consumers of a later input of the same name. *)
From Lal Require Import Common.LBytes Group.GroupMsg Group.GroupGopCache Group.GroupFanout
  Group.GroupGopCacheProofs Group.GroupFanoutProofs Group.GroupFanoutCacheProofs Group.GroupFanoutAdmitProofs.
From Coq Require Import Lia.
Open Scope N_scope.

Definition label_index (l : label) : nat :=
  match l with LC i | LCW i | LT i => i | LTs j => j | LPat k => k | LSdp k => k | LRtp j => j end.
Definition label_ge (n : nat) (l : label) : Prop := (n <= label_index l)%nat.

Definition cspec_ge (n : nat) (sp : cspec) : Prop :=
  Forall (label_ge n) (opt_list (sp_meta_w sp)) /\ Forall (label_ge n) (opt_list (sp_meta_wo sp)) /\
  Forall (label_ge n) (opt_list (sp_vsh sp)) /\ Forall (label_ge n) (opt_list (sp_ash sp)) /\
  Forall (Forall (label_ge n)) (sp_gops sp).

Lemma cspec_ge_init n : cspec_ge n cspec_init.
Proof. unfold cspec_ge. cbn. repeat split; constructor. Qed.

Lemma gops_feed_ge n max G c b :
  label_ge n b -> Forall (Forall (label_ge n)) G -> Forall (Forall (label_ge n)) (gops_feed max G c b).
Proof.
  intros Hb HG. destruct c; cbn [gops_feed]; try exact HG.
  - apply Forall_app. split; [exact HG|]. repeat constructor. exact Hb.
  - destruct (rev G) as [|lastg before] eqn:Hr; [exact HG|].
    assert (HG' : G = rev before ++ [lastg]) by (rewrite <- (rev_involutive G), Hr; reflexivity).
    destruct (_ || _); [|exact HG].
    rewrite HG' in HG. apply Forall_app in HG. destruct HG as [H1 H2].
    apply Forall_app. split; [exact H1|]. constructor; [|constructor].
    inversion H2; subst. apply Forall_app. split; [assumption|]. repeat constructor. exact Hb.
Qed.

Lemma cspec_feed_ge n gop_num max sp cls b w wo p :
  label_ge n b -> label_ge n w -> label_ge n wo ->
  cspec_ge n sp -> cspec_ge n (cspec_feed gop_num max sp cls b w wo p).
Proof.
  intros Hb Hw Hwo (H1 & H2 & H3 & H4 & H5). unfold cspec_ge, cspec_feed. cbn [sp_meta_w sp_meta_wo sp_vsh sp_ash sp_gops].
  repeat split.
  - destruct cls; try assumption. repeat constructor; assumption.
  - destruct cls; try assumption. repeat constructor; assumption.
  - destruct cls; try assumption. repeat constructor; assumption.
  - destruct cls; try assumption. repeat constructor; assumption.
  - destruct cls; try (destruct (Nat.ltb 0 gop_num); [now apply gops_feed_ge|assumption]);
      destruct (hdr_changed _ _); try assumption; constructor.
Qed.

Lemma lcw_index m i : label_index (lcw m i) = i.
Proof. unfold lcw. destruct (_ && _); reflexivity. Qed.

(* every label the cache specifications hold was published at or after [n],
   provided that is true of the starting point and indices only grow *)
Lemma sstep_ge cf n sp e :
  (n <= ss_n sp)%nat -> cspec_ge n (ss_rtmp sp) -> cspec_ge n (ss_flv sp) ->
  (n <= ss_n (sstep cf sp e))%nat /\ cspec_ge n (ss_rtmp (sstep cf sp e)) /\ cspec_ge n (ss_flv (sstep cf sp e)).
Proof.
  intros Hn Hr Hf. destruct e as [m|k id|id| | |b| |v|pid|raw|]; cbn [sstep]; try (split; [assumption|split; assumption]).
  - destruct (Nat.eqb _ 0); cbn [ss_n ss_rtmp ss_flv]; [split; [lia|split; assumption]|].
    split; [lia|split].
    + destruct (cf_rtmp_enable cf); [|assumption].
      apply cspec_feed_ge; try assumption; unfold label_ge; rewrite ?lcw_index; cbn; lia.
    + destruct (cf_flv_enable cf); [|assumption].
      apply cspec_feed_ge; try assumption; unfold label_ge; cbn; lia.
  - destruct (ss_in sp); cbn [ss_n ss_rtmp ss_flv]; (split; [assumption|split]); try assumption; apply cspec_ge_init.
  - cbn [ss_n ss_rtmp ss_flv]. split; [assumption|split; apply cspec_ge_init].
Qed.

Lemma sfold_ge cf n h : forall sp,
  (n <= ss_n sp)%nat -> cspec_ge n (ss_rtmp sp) -> cspec_ge n (ss_flv sp) ->
  cspec_ge n (ss_rtmp (fold_left (sstep cf) h sp)) /\ cspec_ge n (ss_flv (fold_left (sstep cf) h sp)).
Proof.
  induction h as [|e h IH]; intros sp Hn Hr Hf; [split; assumption|].
  cbn [fold_left]. destruct (sstep_ge cf n sp e Hn Hr Hf) as (H1 & H2 & H3). now apply IH.
Qed.

Lemma srun_app cf h0 h : srun cf (h0 ++ h) = fold_left (sstep cf) h (srun cf h0).
Proof. unfold srun. apply fold_left_app. Qed.

Lemma spec_prologue_ge n gop_num sp w : cspec_ge n sp -> Forall (label_ge n) (spec_prologue gop_num sp w).
Proof.
  intros (H1 & H2 & H3 & H4 & H5). unfold spec_prologue.
  repeat (apply Forall_app; split); try assumption.
  - destruct w; assumption.
  - unfold lastn. apply Forall_concat.
    rewrite <- (firstn_skipn (length (sp_gops sp) - gop_num) (sp_gops sp)) in H5.
    apply Forall_app in H5. apply H5.
Qed.

(* Clean restart: whatever the first input published (h1), after it ended the
   start-up prologue of any consumer of a later input consists only of messages
   published after the restart - no header, metadata or GOP of the predecessor. *)
Theorem restart_prologue_fresh cf h1 h2 w :
  g_in (run cf h1) = true ->
  let s := run cf (h1 ++ EvInStop :: h2) in
  let n1 := g_next (run cf h1) in
  Forall (label_ge n1) (prologue (g_rtmp_cache s) w) /\ Forall (label_ge n1) (prologue (g_flv_cache s) w).
Proof.
  intro Hin. cbv zeta.
  destruct (caches_follow_history cf h1) as (Hi1 & Hn1 & _ & _).
  destruct (caches_follow_history cf (h1 ++ EvInStop :: h2)) as (_ & _ & Hr & Hf).
  rewrite (prologue_spec _ _ _ _ w Hr), (prologue_spec _ _ _ _ w Hf).
  rewrite srun_app. cbn [fold_left]. cbn [sstep]. rewrite <- Hi1, Hin.
  destruct (sfold_ge cf (g_next (run cf h1)) h2
              {| ss_in := false; ss_n := ss_n (srun cf h1); ss_rtmp := cspec_init; ss_flv := cspec_init |})
    as [Gr Gf]; cbn [ss_n ss_rtmp ss_flv]; try apply cspec_ge_init; [lia|].
  split; now apply spec_prologue_ge.
Qed.

Lemma partition_filter {A} (p : A -> bool) l :
  partition p l = (filter p l, filter (fun x => negb (p x)) l).
Proof.
  induction l as [|a l IH]; [reflexivity|]. cbn [partition filter]. rewrite IH.
  destruct (p a); reflexivity.
Qed.

(* the teardown runs once: a second end-of-input is a no-op *)
Theorem in_stop_idempotent cf s : step cf (step cf s EvInStop) EvInStop = step cf s EvInStop.
Proof.
  cbn [step]. destruct (g_in s) eqn:Hin; cbn [negb].
  - destruct (partition _ _) as [pushes stay]. cbn [g_in negb]. reflexivity.
  - now rewrite Hin.
Qed.

(* what the teardown does to the outputs of the input: push sessions are
   detached (they receive nothing afterwards), the recording is closed with
   its content unchanged, other consumers stay attached untouched *)
Theorem in_stop_finalises cf s : g_in s = true ->
  let s' := step cf s EvInStop in
  g_in s' = false /\ g_rec_open s' = false /\ g_rec s' = g_rec s /\
  (forall c, In c (g_subs s') <-> In c (g_subs s) /\ c_kind c <> KPush) /\
  (forall c, In c (g_subs s) -> c_kind c = KPush -> In c (g_gone s')).
Proof.
  intro Hin. cbn [step]. rewrite Hin. cbn [negb].
  destruct (partition (fun x => ckind_eqb (c_kind x) KPush) (g_subs s)) as [pushes stay] eqn:Hp.
  cbn [g_in g_rec_open g_rec g_subs g_gone].
  assert (Hs : stay = filter (fun x => negb (ckind_eqb (c_kind x) KPush)) (g_subs s)).
  { change stay with (snd (pushes, stay)). rewrite <- Hp, partition_filter. reflexivity. }
  assert (Hq : pushes = filter (fun x => ckind_eqb (c_kind x) KPush) (g_subs s)).
  { change pushes with (fst (pushes, stay)). rewrite <- Hp, partition_filter. reflexivity. }
  split; [reflexivity|]. split; [reflexivity|]. split; [reflexivity|]. split.
  - intro c. rewrite Hs, filter_In. split.
    + intros [Hc Hk]. split; [exact Hc|]. intro E. rewrite E in Hk. discriminate.
    + intros [Hc Hk]. split; [exact Hc|]. destruct (c_kind c); try reflexivity. congruence.
  - intros c Hc Hk. apply in_or_app. right. rewrite Hq, filter_In. split; [exact Hc|]. now rewrite Hk.
Qed.
