(* The group manager (pkg/logic/group_manager.go) over all events of the admission / relay machine:
   which names have a group and which Group object (identity) serves them.
     - no event other than a tick removes a group;
     - every event keeps the identity of the Group registered for a name, or registers a NEW
       identity (larger than every identity handed out before) for a name that had none. *)
From Coq Require Import NArith ZArith List Bool Lia.
From Lal Require Import Group.GroupAdmission Group.GroupAdmissionProofs Group.GroupInvariantProofs.
Import ListNotations.
Open Scope N_scope.

(* name -> identity of its Group object *)
Definition ids (st : state) : list (N * N) := map (fun sg => (fst sg, g_id (snd sg))) (st_groups st).

Lemma lookup_ids : forall l k, lookup k (map (fun sg : N * group => (fst sg, g_id (snd sg))) l) = option_map g_id (lookup k l).
Proof.
  induction l as [|[k0 g0] t IH]; intros k; [reflexivity|]. simpl. destruct (N.eqb k k0); [reflexivity|apply IH].
Qed.

Lemma ids_get : forall st s, lookup s (ids st) = option_map g_id (get_group st s).
Proof. intros. unfold ids, get_group. apply lookup_ids. Qed.

Lemma ids_update_same : forall l s g g0, lookup s l = Some g0 -> g_id g = g_id g0 ->
  map (fun sg : N * group => (fst sg, g_id (snd sg))) (update s g l) = map (fun sg : N * group => (fst sg, g_id (snd sg))) l.
Proof.
  induction l as [|[k0 v0] t IH]; intros s g g0 H E; [discriminate|]. simpl in *.
  destruct (N.eqb s k0) eqn:Ek.
  - inversion H; subst v0. simpl. apply N.eqb_eq in Ek. subst k0. rewrite E. reflexivity.
  - simpl. f_equal. eapply IH; eassumption.
Qed.

Lemma ids_update_new : forall l s g, lookup s l = None ->
  map (fun sg : N * group => (fst sg, g_id (snd sg))) (update s g l) = map (fun sg : N * group => (fst sg, g_id (snd sg))) l ++ [(s, g_id g)].
Proof.
  induction l as [|[k0 v0] t IH]; intros s g H; [reflexivity|]. simpl in *.
  destruct (N.eqb s k0); [discriminate|]. simpl. f_equal. apply IH. exact H.
Qed.

Lemma ids_put_same : forall st s g g0, get_group st s = Some g0 -> g_id g = g_id g0 -> ids (put_group st s g) = ids st.
Proof. intros st s g g0 H E. unfold ids, put_group. cbn [st_groups st_set_groups]. eapply ids_update_same; eassumption. Qed.

(* what one event may do to the registry *)
Definition ext (st st' : state) : Prop :=
  (ids st' = ids st /\ st_gid st' = st_gid st) \/
  (exists s, lookup s (ids st) = None /\ ids st' = ids st ++ [(s, st_gid st + 1)] /\ st_gid st' = st_gid st + 1).

Lemma ext_refl : forall st, ext st st.
Proof. intros. left. split; reflexivity. Qed.

Lemma ext_same : forall st st', st_groups st' = st_groups st -> st_gid st' = st_gid st -> ext st st'.
Proof. intros st st' A B. left. unfold ids. rewrite A. split; [reflexivity|exact B]. Qed.

Lemma ext_then : forall st st1 st2, ext st st1 -> ids st2 = ids st1 -> st_gid st2 = st_gid st1 -> ext st st2.
Proof.
  intros st st1 st2 [[A B]|[s [N0 [A B]]]] E1 E2.
  - left. split; congruence.
  - right. exists s. split; [exact N0|]. split; congruence.
Qed.

Lemma ext_put : forall st st1 s g g0, ext st st1 -> get_group st1 s = Some g0 -> g_id g = g_id g0 -> ext st (put_group st1 s g).
Proof. intros st st1 s g g0 H Hg E. eapply ext_then; [exact H|eapply ids_put_same; eassumption|reflexivity]. Qed.

Lemma get_or_create_ext : forall cf st s st1 g, get_or_create cf st s = (st1, g) -> ext st st1 /\ get_group st1 s = Some g.
Proof.
  intros cf st s st1 g H. unfold get_or_create in H. destruct (get_group st s) as [g0|] eqn:Eg.
  - inversion H; subst. split; [apply ext_refl|exact Eg].
  - inversion H; subst. split.
    + right. exists s. split; [rewrite ids_get, Eg; reflexivity|]. split; [|reflexivity].
      unfold ids, put_group. cbn [st_groups st_set_gid st_set_groups]. rewrite ids_update_new by exact Eg. reflexivity.
    + unfold get_group. cbn. apply lookup_update_same.
Qed.

(* ---- transformers keep the identity ---------------------------------------------------------------- *)
Lemma gid_start_push : forall g, g_id (start_push g) = g_id g.
Proof. intros. unfold start_push. destruct (g_push g); [reflexivity|]. destruct (_ || _); reflexivity. Qed.
Lemma gid_add_in : forall p g, g_id (add_in p g) = g_id g.
Proof. intros. unfold add_in. rewrite gid_start_push. reflexivity. Qed.
Lemma gid_set_slot : forall g sl n, g_id (set_slot g sl n) = g_id g.
Proof. intros. destruct sl; reflexivity. Qed.
Lemma gid_del_in : forall g, g_id (del_in g) = g_id g.
Proof. reflexivity. Qed.
Lemma gid_pull_if_needed : forall g now, g_id (fst (fst (pull_if_needed g now))) = g_id g.
Proof. intros. unfold pull_if_needed. destruct (should_start g now) as [[|] r]; reflexivity. Qed.
Lemma gid_stop_pull : forall g, g_id (fst (stop_pull g)) = g_id g.
Proof. reflexivity. Qed.
Lemma gid_pull_del : forall fx g a, g_id (pull_del fx g a) = g_id g.
Proof. intros. unfold pull_del. destruct (fx_f10 fx); [destruct (_ || _)|]; reflexivity. Qed.
Lemma gid_ps_del : forall g s, g_id (ps_del g s) = g_id g.
Proof. intros. unfold ps_del. destruct (opt_is (g_ps g) s); reflexivity. Qed.
Lemma gid_attach_pull : forall g rt i, g_id (attach_pull g rt i) = g_id g.
Proof. intros. unfold attach_pull. destruct rt; reflexivity. Qed.
Lemma gid_stop_and_del : forall fx s g, g_id (fst (fst (stop_and_del fx s g))) = g_id g.
Proof.
  intros. unfold stop_and_del. destruct (stop_pull g) as [g1 a] eqn:E.
  assert (H : g_id g1 = g_id g) by (change g1 with (fst (g1, a)); rewrite <- E; apply gid_stop_pull).
  destruct a; cbn [fst]; [rewrite gid_pull_del|]; exact H.
Qed.
Lemma gid_tick_pull : forall g now, g_id (fst (fst (tick_pull g now))) = g_id g.
Proof.
  intros. unfold tick_pull. set (g1 := if has_sub g then _ else g).
  assert (H : g_id g1 = g_id g) by (subst g1; destruct (has_sub g); reflexivity).
  destruct (should_auto_stop g1 now).
  - destruct (stop_pull g1) as [g2 a] eqn:E. cbn [fst]. change g2 with (fst (g2, a)). rewrite <- E, gid_stop_pull. exact H.
  - pose proof (gid_pull_if_needed g1 now) as H2. destruct (pull_if_needed g1 now) as [[g2 st] r]. cbn [fst] in *. congruence.
Qed.
Lemma gid_tick_group : forall fx s g now, g_id (fst (fst (fst (tick_group fx s g now)))) = g_id g.
Proof.
  intros. unfold tick_group. pose proof (gid_tick_pull g now) as H. destruct (tick_pull g now) as [[g1 st] a]. cbn [fst] in H.
  destruct a; cbn [fst]; [rewrite gid_pull_del|]; rewrite gid_start_push; exact H.
Qed.

Lemma pull_if_needed_st_ext : forall st s g st1 g1 o r, pull_if_needed_st st s g = (st1, g1, o, r) ->
  st_groups st1 = st_groups st /\ st_gid st1 = st_gid st /\ g_id g1 = g_id g.
Proof.
  intros st s g st1 g1 o r H. unfold pull_if_needed_st in H.
  pose proof (gid_pull_if_needed g (st_now st)) as Hg. destruct (pull_if_needed g (st_now st)) as [[g2 started] r2]. cbn [fst] in Hg.
  destruct started.
  - unfold alloc_att in H. inversion H; subst. repeat split; assumption.
  - inversion H; subst. repeat split; assumption.
Qed.

(* ---- the composite operations ---------------------------------------------------------------------------- *)
Lemma admit_pub_ext : forall cf st sl s n chk st1 ok g, admit_pub cf st sl s n chk = (st1, ok, g) -> ext st st1.
Proof.
  intros cf st sl s n chk st1 ok g H. unfold admit_pub in H.
  destruct (get_or_create cf st s) as [st0 g0] eqn:E. destruct (get_or_create_ext cf st s st0 g0 E) as [X Hg].
  destruct (chk && has_in g0).
  - inversion H; subst. exact X.
  - unfold next_pipe in H. inversion H; subst.
    eapply ext_put; [eapply ext_then; [exact X|reflexivity|reflexivity]|exact Hg|].
    rewrite gid_add_in, gid_set_slot. reflexivity.
Qed.

Lemma admit_sub_ext : forall cf st k s n pull st1 g, admit_sub cf st k s n pull = Some (st1, g) -> ext st st1.
Proof.
  intros cf st k s n pull st1 g H. unfold admit_sub in H.
  destruct (get_or_create cf st s) as [st0 g0] eqn:E. destruct (get_or_create_ext cf st s st0 g0 E) as [X Hg].
  destruct (g_disposed g0); [discriminate|]. destruct pull.
  - destruct (pull_if_needed_st st0 s (g_set_subs g0 (g_subs g0 ++ [(k, n)]))) as [[[st2 g2] o] r] eqn:Ep.
    destruct (pull_if_needed_st_ext _ _ _ _ _ _ _ Ep) as [A [B C]]. inversion H; subst.
    eapply (ext_put st st2 s g g0); [eapply ext_then; [exact X|unfold ids; rewrite A; reflexivity|exact B]| |rewrite C; reflexivity].
    unfold get_group. rewrite A. exact Hg.
  - inversion H; subst. eapply ext_put; [exact X|exact Hg|reflexivity].
Qed.

Lemma depart_pub_ext : forall st sl s n b, ext st (fst (depart_pub st sl s n b)).
Proof.
  intros. unfold depart_pub. destruct (get_group st s) as [g|] eqn:E; [|apply ext_refl]. cbn [fst].
  eapply ext_put; [apply ext_refl|exact E|]. destruct (opt_is (get_slot g sl) n); reflexivity.
Qed.
Lemma depart_sub_ext : forall st k s n, ext st (fst (depart_sub st k s n)).
Proof.
  intros. unfold depart_sub. destruct (get_group st s) as [g|] eqn:E; [|apply ext_refl]. cbn [fst].
  eapply ext_put; [apply ext_refl|exact E|reflexivity].
Qed.

Lemma ext_after_same : forall st st0 st', st_groups st0 = st_groups st -> st_gid st0 = st_gid st -> ext st0 st' -> ext st st'.
Proof.
  intros st st0 st' A B [[C D]|[s [N0 [C D]]]]; unfold ids in *; rewrite A, B in *.
  - left. split; assumption.
  - right. exists s. repeat split; assumption.
Qed.

Lemma kick_group_ext : forall fx st s g t, get_group st s = Some g -> ext st (fst (fst (kick_group fx st s g t))).
Proof.
  intros fx st s g t Hg. unfold kick_group. destruct t as [n|s' i].
  - destruct (find_sess n (st_sess st)) as [x|]; [|apply ext_refl].
    destruct (s_kind x); repeat match goal with |- context[if ?c then _ else _] => destruct c end; cbn [fst];
      try apply ext_refl; try (apply ext_same; reflexivity).
    eapply ext_put; [apply ext_same; reflexivity|exact Hg|apply gid_ps_del].
  - destruct (_ && _); [|apply ext_refl].
    pose proof (gid_stop_and_del fx s (g_set_pp g (pp_set_api (g_pp g) false))) as Hid.
    destruct (stop_and_del fx s (g_set_pp g (pp_set_api (g_pp g) false))) as [[g1 a] ns]. cbn [fst] in *.
    eapply ext_then; [eapply ext_put; [apply ext_refl|exact Hg|exact Hid]| |].
    + unfold finish_att. destruct a; reflexivity.
    + unfold finish_att. destruct a; reflexivity.
Qed.

Lemma push_event_ext : forall st s t w next, ext st (fst (push_event st s t w next)).
Proof.
  intros. unfold push_event. destruct (get_group st s) as [g|] eqn:E; [|apply ext_refl].
  destruct (nth_error (g_push g) t) as [p|]; [|apply ext_refl].
  destruct (_ && _); cbn [fst]; [|apply ext_refl]. eapply ext_put; [apply ext_refl|exact E|reflexivity].
Qed.

(* ---- every event but the tick ------------------------------------------------------------------------------ *)
Theorem step_ext : forall fx cf st e, (forall c, e <> ETick c) -> ext st (fst (fst (step fx cf st e))).
Proof.
  intros fx cf st e Hnt.
  assert (Hpub : forall sl s n chk, ext st (fst (fst (admit_pub cf st sl s n chk)))).
  { intros. destruct (admit_pub cf st sl s n chk) as [[st1 ok] g] eqn:E. cbn [fst]. eapply admit_pub_ext; exact E. }
  assert (Hpub2 : forall sl s n chk x y, ext st (add_sess (fst (fst (admit_pub cf st sl s n chk))) (if snd (fst (admit_pub cf st sl s n chk)) then x else y))).
  { intros. eapply ext_then; [apply Hpub|reflexivity|reflexivity]. }
  destruct e; cbn [step].
  - (* ERtmpPub *) destruct (fresh st n); cbn [negb]; [|apply ext_refl]. destruct deny; [apply ext_same; reflexivity|].
    destruct (admit_pub cf st PsRtmp s n true) as [[st1 ok] g] eqn:E. apply admit_pub_ext in E.
    destruct ok; cbn [fst]; (eapply ext_then; [exact E|reflexivity|reflexivity]).
  - (* ERtmpSub *) destruct (fresh st n); cbn [negb]; [|apply ext_refl]. destruct deny; [apply ext_same; reflexivity|].
    destruct (admit_sub cf st SkRtmp s n true) as [[st1 g]|] eqn:E; cbn [fst]; [|apply ext_refl].
    apply admit_sub_ext in E. eapply ext_then; [exact E|reflexivity|reflexivity].
  - (* ERtspPub *) destruct (fresh st n); cbn [negb]; [|apply ext_refl]. destruct deny; [apply ext_same; reflexivity|].
    destruct (admit_pub cf st PsRtsp s n true) as [[st1 ok] g] eqn:E. apply admit_pub_ext in E.
    destruct ok; cbn [fst]; (eapply ext_then; [exact E|reflexivity|reflexivity]).
  - (* ERtspSub *) destruct (fresh st n); cbn [negb]; [|apply ext_refl]. destruct deny; [apply ext_same; reflexivity|].
    destruct (admit_sub cf st SkRtsp s n false) as [[st1 g]|] eqn:E; cbn [fst]; [|apply ext_refl].
    apply admit_sub_ext in E. eapply ext_then; [exact E|reflexivity|reflexivity].
  - (* ERtspPlay *) destruct (find_sess n (st_sess st)) as [x|]; [|apply ext_refl].
    destruct (s_kind x); try apply ext_refl. destruct (s_gone x || s_closed x); [apply ext_refl|].
    destruct (get_or_create cf st (s_stream x)) as [st1 g] eqn:E. destruct (get_or_create_ext _ _ _ _ _ E) as [X Hg].
    destruct (pull_if_needed_st st1 (s_stream x) g) as [[[st2 g2] o] r] eqn:Ep.
    destruct (pull_if_needed_st_ext _ _ _ _ _ _ _ Ep) as [A [B C]]. cbn [fst].
    eapply ext_put; [eapply ext_then; [exact X|unfold ids; rewrite A; reflexivity|exact B]| |exact C].
    unfold get_group. rewrite A. exact Hg.
  - (* EFlvSub *) destruct (fresh st n); cbn [negb]; [|apply ext_refl]. destruct deny; [apply ext_same; reflexivity|].
    destruct (admit_sub cf st SkFlv s n true) as [[st1 g]|] eqn:E; cbn [fst]; [|apply ext_refl].
    apply admit_sub_ext in E. eapply ext_then; [exact E|reflexivity|reflexivity].
  - (* ETsSub *) destruct (fresh st n); cbn [negb]; [|apply ext_refl]. destruct deny; [apply ext_same; reflexivity|].
    destruct (admit_sub cf st SkTs s n true) as [[st1 g]|] eqn:E; cbn [fst]; [|apply ext_refl].
    apply admit_sub_ext in E. eapply ext_then; [exact E|reflexivity|reflexivity].
  - (* ECustPub *) destruct (fresh st n); cbn [negb]; [|apply ext_refl].
    destruct (admit_pub cf st PsCust s n true) as [[st1 ok] g] eqn:E. apply admit_pub_ext in E.
    destruct ok; cbn [fst]; (eapply ext_then; [exact E|reflexivity|reflexivity]).
  - (* EPsPub *) destruct (fresh st n); cbn [negb]; [|apply ext_refl].
    destruct (admit_pub cf st PsPs s n (fx_f09 fx)) as [[st1 ok] g] eqn:E. apply admit_pub_ext in E.
    destruct ok; cbn [fst]; [destruct listen; cbn [fst]|]; try (eapply ext_then; [exact E|reflexivity|reflexivity]).
    destruct (get_or_create cf st s) as [st0 g0] eqn:E0. destruct (get_or_create_ext _ _ _ _ _ E0) as [X _]. cbn [fst].
    eapply ext_then; [exact X|reflexivity|reflexivity].
  - (* EGone *) destruct (find_sess n (st_sess st)) as [x|]; [|apply ext_refl]. destruct (s_gone x); [apply ext_refl|].
    destruct (s_kind x); try apply ext_refl;
      match goal with
      | |- context[depart_pub ?a ?sl ?s ?m ?b] =>
          pose proof (depart_pub_ext a sl s m b) as H; destruct (depart_pub a sl s m b) as [st1 ns]; cbn [fst] in *;
          eapply ext_after_same; [| |exact H]; try reflexivity
      | |- context[depart_sub ?a ?k ?s ?m] =>
          pose proof (depart_sub_ext a k s m) as H; destruct (depart_sub a k s m) as [st1 ns]; cbn [fst] in *;
          eapply ext_after_same; [| |exact H]; reflexivity
      end.
    + destruct (fx_f26 fx && _); reflexivity.
    + destruct (fx_f26 fx && _); reflexivity.
  - (* EKick *) destruct (get_group st s) as [g|] eqn:Eg; [|apply ext_refl].
    pose proof (kick_group_ext fx st s g t Eg) as H. destruct (kick_group fx st s g t) as [[st1 ok] ns]. exact H.
  - (* EStartPull *)
    destruct (get_or_create cf st s) as [st1 g] eqn:E. destruct (get_or_create_ext _ _ _ _ _ E) as [X Hg].
    destruct (pull_if_needed_st st1 s (g_set_pp g (pp_set_req (g_pp g) rtmp retry autostop))) as [[[st2 g2] o] r] eqn:Ep.
    destruct (pull_if_needed_st_ext _ _ _ _ _ _ _ Ep) as [A [B C]]. cbn [fst].
    eapply (ext_put st st2 s g2 g); [eapply ext_then; [exact X|unfold ids; rewrite A; reflexivity|exact B]| |rewrite C; reflexivity].
    unfold get_group. rewrite A. exact Hg.
  - (* EStopPull *) destruct (get_group st s) as [g|] eqn:Eg; [|apply ext_refl].
    pose proof (gid_stop_and_del fx s (g_set_pp g (pp_set_api (g_pp g) false))) as Hid.
    destruct (stop_and_del fx s (g_set_pp g (pp_set_api (g_pp g) false))) as [[g1 a] ns]. cbn [fst] in *.
    eapply ext_then; [eapply ext_put; [apply ext_refl|exact Eg|exact Hid]| |]; unfold finish_att; destruct a; reflexivity.
  - (* EPullSucc *) destruct (find_att s i (st_atts st)) as [a|]; [|apply ext_refl].
    destruct (get_group st s) as [g|] eqn:Eg; [|apply ext_refl]. destruct (a_state a); try apply ext_refl.
    destruct (has_in g || _); cbn [fst].
    + eapply ext_then; [eapply ext_put; [apply ext_refl|exact Eg|apply gid_pull_del]|reflexivity|reflexivity].
    + eapply ext_then; [eapply ext_put; [apply ext_same; reflexivity|exact Eg|]|reflexivity|reflexivity].
      rewrite gid_add_in, gid_attach_pull. reflexivity.
  - (* EPullFail *) destruct (find_att s i (st_atts st)) as [a|]; [|apply ext_refl].
    destruct (get_group st s) as [g|] eqn:Eg; [|apply ext_refl]. destruct (a_state a); try apply ext_refl. cbn [fst].
    eapply ext_then; [eapply ext_put; [apply ext_refl|exact Eg|apply gid_pull_del]|reflexivity|reflexivity].
  - (* EPullDone *) destruct (find_att s i (st_atts st)) as [a|]; [|apply ext_refl].
    destruct (get_group st s) as [g|] eqn:Eg; [|apply ext_refl]. destruct (a_state a); try apply ext_refl. cbn [fst].
    eapply ext_then; [eapply ext_put; [apply ext_refl|exact Eg|apply gid_pull_del]|reflexivity|reflexivity].
  - (* EPushOk *) match goal with |- context[push_event st s t ?w ?nx] => pose proof (push_event_ext st s t w nx) as H; destruct (push_event st s t w nx) end. exact H.
  - (* EPushFail *) match goal with |- context[push_event st s t ?w ?nx] => pose proof (push_event_ext st s t w nx) as H; destruct (push_event st s t w nx) end. exact H.
  - (* EPushDone *) match goal with |- context[push_event st s t ?w ?nx] => pose proof (push_event_ext st s t w nx) as H; destruct (push_event st s t w nx) end. exact H.
  - (* ETick *) exfalso. eapply Hnt. reflexivity.
  - (* EAdvance *) apply ext_same; reflexivity.
  - (* EDispose *) destruct (st_disposed st); [apply ext_refl|]. cbn [fst]. left. split; [|reflexivity].
    unfold ids. cbn [st_groups st_set_disposed st_set_sess st_set_groups]. rewrite map_map. apply map_ext. intros [k g]. reflexivity.
  - (* EMedia *) destruct (find_sess n (st_sess st)) as [x|]; [|apply ext_refl].
    destruct (s_kind x); try apply ext_refl; match goal with |- context[if ?c then _ else _] => destruct c end; apply ext_refl.
Qed.

(* ---- consequences --------------------------------------------------------------------------------------------- *)
Lemma lookup_app_some : forall A (l1 l2 : list (N * A)) k v, lookup k l1 = Some v -> lookup k (l1 ++ l2) = Some v.
Proof. induction l1 as [|[k0 v0] t IH]; intros l2 k v H; [discriminate|]. simpl in *. destruct (N.eqb k k0); [exact H|apply IH; exact H]. Qed.

(* no event other than a tick removes a group, and none replaces the Group object of a name *)
Theorem only_ticks_remove : forall fx cf st e s g, (forall c, e <> ETick c) -> get_group st s = Some g ->
  exists g', get_group (fst (fst (step fx cf st e))) s = Some g' /\ g_id g' = g_id g.
Proof.
  intros fx cf st e s g Hnt Hg. pose proof (step_ext fx cf st e Hnt) as H.
  assert (Hl : lookup s (ids st) = Some (g_id g)) by (rewrite ids_get, Hg; reflexivity).
  assert (Hl' : lookup s (ids (fst (fst (step fx cf st e)))) = Some (g_id g)).
  { destruct H as [[A _]|[s0 [_ [A _]]]]; rewrite A; [exact Hl|apply lookup_app_some; exact Hl]. }
  rewrite ids_get in Hl'. destruct (get_group (fst (fst (step fx cf st e))) s) as [g'|]; [|discriminate].
  exists g'. split; [reflexivity|]. inversion Hl'. reflexivity.
Qed.

(* every identity in use is at most the number of Groups created so far *)
Definition idb (st : state) : Prop := Forall (fun kv => snd kv <= st_gid st) (ids st).

Lemma idb_ext : forall st st', ext st st' -> idb st -> idb st'.
Proof.
  unfold idb. intros st st' [[A B]|[s [_ [A B]]]] H; rewrite A, B; [exact H|].
  apply Forall_app. split; [|constructor; [simpl; lia|constructor]].
  eapply Forall_impl; [|exact H]. intros kv Hk. simpl in *. lia.
Qed.

Lemma tick_groups_idb : forall fx now l atts cnt K,
  Forall (fun sg : N * group => g_id (snd sg) <= K) l ->
  Forall (fun sg : N * group => g_id (snd sg) <= K) (fst (fst (fst (tick_groups fx now l atts cnt)))).
Proof.
  intros fx now l. induction l as [|[s g] t IH]; intros atts cnt K H; [constructor|].
  inversion H; subst. cbn [tick_groups]. destruct (inactive g now); [apply IH; assumption|].
  pose proof (gid_tick_group fx s g now) as Hid. destruct (tick_group fx s g now) as [[[g1 started] fin] ns]. cbn [fst] in Hid.
  match goal with |- context[let '(a1, c1) := ?X in _] => destruct X as [atts1 cnt1] end.
  match goal with |- context[tick_groups fx now t ?a ?c] => pose proof (IH a c K H3) as IH1; destruct (tick_groups fx now t a c) as [[[t1 a3] c3] ns2] end.
  cbn [fst] in *. constructor; [cbn [snd] in *; lia|exact IH1].
Qed.

Lemma step_idb : forall fx cf st e, idb st -> idb (fst (fst (step fx cf st e))).
Proof.
  intros fx cf st e H. destruct e; try (apply (idb_ext st); [apply step_ext; intros c Hc; discriminate|exact H]).
  cbn [step]. destruct (st_disposed st); [exact H|].
  unfold idb, ids in *. rewrite Forall_map in H.
  pose proof (tick_groups_idb fx (st_now st) (st_groups st) (st_atts st) (st_cnt st) (st_gid st) H) as H1.
  destruct (tick_groups fx (st_now st) (st_groups st) (st_atts st) (st_cnt st)) as [[[gs atts] cnt] ns]. cbn [fst] in *.
  cbn [st_groups st_gid st_set_atts st_set_groups]. rewrite Forall_map. exact H1.
Qed.

Lemma reachable_idb : forall fx cf st, reachable fx cf st -> idb st.
Proof. intros fx cf st H. induction H; [constructor|apply step_idb; assumption]. Qed.

(* In every reachable state, the Group created for a name that has none carries an identity no group
   of the state has: a new Group object. *)
Theorem new_group_identity_fresh : forall fx cf st s g, reachable fx cf st -> get_group st s = Some g -> g_id g < st_gid st + 1.
Proof.
  intros fx cf st s g Hr Hg. pose proof (reachable_idb fx cf st Hr) as H. unfold idb in H. rewrite Forall_forall in H.
  assert (Hin : In (s, g_id g) (ids st)).
  { unfold ids. apply in_map_iff. exists (s, g). split; [reflexivity|]. apply lookup_In. exact Hg. }
  specialize (H _ Hin). simpl in H. lia.
Qed.
