(* The bytes a label stands for: remux.MakeDefaultRtmpHeader +
   LazyRtmpChunkDivider (chunks with / without @setDataFrame) and
   LazyRtmpMsg2FlvTag, in terms of the C08 / C11 / C18 models. *)
From Lal Require Import Common.LBytes Common.Res Rtmp.RtmpChunk Rtmp.RtmpMetadata Flv.FlvTag
  Group.GroupMsg Group.GroupFanout.
Open Scope N_scope.

(* remux.MakeDefaultRtmpHeader: csid by type, msid 1, length and timestamp kept *)
Definition csid_of_type (t : N) : N :=
  if t =? type_metadata then 5 else if t =? type_audio then 6 else if t =? type_video then 7 else 0.

Definition default_header (m : GroupMsg.rmsg) (len : N) : rtmp_header :=
  mk_hdr (csid_of_type (rm_type m)) len (rm_type m) 1 (rm_ts m).

Definition conv_payload (with_sdf : bool) (m : GroupMsg.rmsg) : bytes :=
  if rm_type m =? type_metadata
  then (if with_sdf then metadata_with_sdf (rm_payload m) else metadata_without_sdf (rm_payload m))
  else rm_payload m.

(* LazyRtmpChunkDivider.GetEnsureWith(out)Sdf *)
Definition chunk_bytes (with_sdf : bool) (m : GroupMsg.rmsg) : res bytes :=
  let p := conv_payload with_sdf m in
  message2chunks_default (default_header m (u32 (lenN p))) p.

(* LazyRtmpMsg2FlvTag.GetEnsureWithoutSdf *)
Definition tag_bytes (m : GroupMsg.rmsg) : bytes :=
  pack_tag (rm_type m) (rm_ts m) (conv_payload false m).

Definition label_bytes (ms : list GroupMsg.rmsg) (l : label) : res bytes :=
  match l with
  | LC i => match nth_error ms i with Some m => chunk_bytes false m | None => Err 0 end
  | LCW i => match nth_error ms i with Some m => chunk_bytes true m | None => Err 0 end
  | LT i => match nth_error ms i with Some m => Ok (tag_bytes m) | None => Err 0 end
  | _ => Err 0
  end.
