(* Server shells whose WRITES fail (the peer is gone while the shell answers), on top of GroupRtspShell.v:
     pkg/rtmp/server_session.go   handshake, doConnect, doCreateStream, doPublish, doPlay: every reply is written
                                  synchronously and a failed write ends the shell; the session gets its role (BaseType
                                  pub / sub) and is handed to the observer only AFTER the last reply of publish / play
     pkg/rtmp/server.go           handleTcpConnect: OnDelRtmpPubSession / OnDelRtmpSubSession by BaseType
     pkg/rtsp/server_command_session.go  every response goes through the connection's write queue: a failed write does
                                  not end the command loop, it closes the connection (as a kick does); the shell ends
                                  when its read fails, i.e. with the end of the connection
   "The w-th write fails" is a parameter of the arrival; what it amounts to is a list of events of the layers below
   ([write_fail_events]): which callbacks have fired is what the code does.  No proofs in this file. *)
From Coq Require Import NArith ZArith List Bool Arith.
From Lal Require Import Group.GroupAdmission Group.GroupRtspShell.
Import ListNotations.
Open Scope N_scope.

(* (the response to DESCRIBE is written only once the group holds an SDP, possibly much later: not modelled) *)
Inductive wkind := WRtmpPub | WRtmpSub | WRtspAnnounce | WRtspPlay.

(* writes of the RTMP server shell up to and including the last reply of publish / play:
   S0+S1+S2; window acknowledgement size, set peer bandwidth, set chunk size, _result(connect); _result(createStream);
   then onStatus(NetStream.Publish.Start) | stream is recorded, stream begin, onStatus(NetStream.Play.Start) *)
Definition rtmp_writes (pub : bool) : nat := if pub then 7%nat else 9%nat.

Definition stream_of_sess (st : state) (n : N) : N :=
  match find_sess n (st_sess st) with Some x => s_stream x | None => 0 end.

(* [st]: the admission state in which the arrival happens (only the stream of the session of a PLAY is read from it) *)
Definition write_fail_events (st : state) (k : wkind) (s n : N) (w : nat) : list cevent :=
  match k with
  | WRtmpPub =>
    (* a reply up to onStatus(publish) cannot be written: the shell ends before the observer has seen the session, and its
       role is still undecided: no Del callback either.  Later: the publisher has been accepted by then *)
    if (w <=? rtmp_writes true)%nat then [CE (ERtmpPub s n true)] else [CE (ERtmpPub s n false)]
  | WRtmpSub =>
    if (w <=? rtmp_writes false)%nat then [CE (ERtmpSub s n true)] else [CE (ERtmpSub s n false)]
  (* RTSP: the command is handled as usual (the observer has decided before the response is queued); the failed write
     closes the connection, which is what a kick of that session does; the shell ends with the connection (EGone) *)
  | WRtspAnnounce => [CE (ERtspPub s n false); CE (EKick s (KConn n))]
  | WRtspPlay => [CE (ERtspPlay n); CE (EKick (stream_of_sess st n) (KConn n))]
  end.
