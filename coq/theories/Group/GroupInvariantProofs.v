(* The state-wide invariant of the admission / relay state machine on the repaired
   tree: what sits in a group is an admitted live session of that stream, an
   admitted live network session sits in its group, relay attempts and the
   pull proxy agree, and the notification log mirrors the life of every session. *)
From Coq Require Import NArith ZArith List Bool Lia.
From Lal Require Import Group.GroupAdmission Group.GroupAdmissionProofs.
Import ListNotations.
Open Scope N_scope.

(* ---- the session table ------------------------------------------------------------------------- *)
(* what the invariant looks at: kind, stream, admitted, gone *)
Definition core (x : sess) : skind * N * bool * bool := (s_kind x, s_stream x, s_acc x, s_gone x).
Definition view (l : list sess) (n : N) : option (skind * N * bool * bool) := option_map core (find_sess n l).

Lemma find_sess_id : forall l n x, find_sess n l = Some x -> s_id x = n.
Proof.
  induction l as [|y t IH]; simpl; intros n x H; [discriminate|].
  destruct (N.eqb (s_id y) n) eqn:E; [inversion H; subst; apply N.eqb_eq; assumption|auto].
Qed.

Lemma find_sess_app : forall l n y,
  find_sess n (l ++ [y]) = match find_sess n l with Some x => Some x | None => if N.eqb (s_id y) n then Some y else None end.
Proof.
  induction l as [|z t IH]; simpl; intros n y; [reflexivity|].
  destruct (N.eqb (s_id z) n); [reflexivity|apply IH].
Qed.

Lemma find_sess_upd : forall f l n m, (forall y, s_id (f y) = s_id y) ->
  find_sess n (upd_sess m f l) = if N.eqb n m then option_map f (find_sess n l) else find_sess n l.
Proof.
  intros f l n m Hf. induction l as [|z t IH]; simpl.
  - destruct (N.eqb n m); reflexivity.
  - destruct (N.eqb (s_id z) m) eqn:E1; simpl.
    + rewrite Hf. destruct (N.eqb (s_id z) n) eqn:E2.
      * apply N.eqb_eq in E1, E2. assert (E3 : N.eqb n m = true) by (apply N.eqb_eq; congruence). rewrite E3. reflexivity.
      * destruct (N.eqb n m) eqn:E3; [|reflexivity].
        apply N.eqb_eq in E1, E3. apply N.eqb_neq in E2. congruence.
    + destruct (N.eqb (s_id z) n) eqn:E2.
      * destruct (N.eqb n m) eqn:E3; [|reflexivity].
        apply N.eqb_eq in E2, E3. apply N.eqb_neq in E1. congruence.
      * exact IH.
Qed.

Lemma view_add_fresh : forall l y n, find_sess (s_id y) l = None ->
  view (l ++ [y]) n = if N.eqb (s_id y) n then Some (core y) else view l n.
Proof.
  intros l y n Hf. unfold view. rewrite find_sess_app.
  destruct (N.eqb (s_id y) n) eqn:E.
  - apply N.eqb_eq in E. subst n. rewrite Hf. reflexivity.
  - destruct (find_sess n l); reflexivity.
Qed.

Lemma view_closed : forall l m n, view (upd_sess m s_set_closed l) n = view l n.
Proof.
  intros. unfold view. rewrite find_sess_upd by reflexivity.
  destruct (N.eqb n m); [|reflexivity]. destruct (find_sess n l); reflexivity.
Qed.

Lemma view_closed_many : forall ms l n, view (fold_left (fun acc m => upd_sess m s_set_closed acc) ms l) n = view l n.
Proof.
  induction ms as [|m t IH]; intros l n; simpl; [reflexivity|]. rewrite IH. apply view_closed.
Qed.

Lemma view_gone : forall l m n,
  view (upd_sess m s_set_gone l) n =
  if N.eqb n m then option_map (fun c => let '(k, s, a, _) := c in (k, s, a, true)) (view l n) else view l n.
Proof.
  intros. unfold view. rewrite find_sess_upd by reflexivity.
  destruct (N.eqb n m); [|reflexivity]. destruct (find_sess n l); reflexivity.
Qed.

(* ---- the attempt table --------------------------------------------------------------------------- *)
Lemma find_att_app : forall l s i a,
  find_att s i (l ++ [a]) =
  match find_att s i l with Some x => Some x | None => if N.eqb (a_stream a) s && N.eqb (a_idx a) i then Some a else None end.
Proof.
  induction l as [|z t IH]; simpl; intros s i a; [reflexivity|].
  destruct (N.eqb (a_stream z) s && N.eqb (a_idx z) i); [reflexivity|apply IH].
Qed.

Lemma find_att_key : forall l s i a, find_att s i l = Some a -> a_stream a = s /\ a_idx a = i.
Proof.
  induction l as [|z t IH]; simpl; intros s i a H; [discriminate|].
  destruct (N.eqb (a_stream z) s && N.eqb (a_idx z) i) eqn:E; [|auto].
  inversion H; subst. apply andb_prop in E. destruct E as [E1 E2]. split; apply N.eqb_eq; assumption.
Qed.

Lemma find_att_upd : forall l s i s' i' x,
  find_att s i (upd_att s' i' x l) =
  if N.eqb s s' && N.eqb i i' then option_map (fun a => mk_att s' i' (a_rtmp a) x) (find_att s i l) else find_att s i l.
Proof.
  intros l s i s' i' x. induction l as [|z t IH]; simpl.
  - destruct (_ && _); reflexivity.
  - destruct (N.eqb (a_stream z) s' && N.eqb (a_idx z) i') eqn:E1; simpl.
    + apply andb_prop in E1. destruct E1 as [A B]. apply N.eqb_eq in A, B.
      destruct (N.eqb s s' && N.eqb i i') eqn:E3.
      * apply andb_prop in E3. destruct E3 as [C D]. apply N.eqb_eq in C, D. subst.
        rewrite !N.eqb_refl. simpl. reflexivity.
      * destruct (N.eqb s' s && N.eqb i' i) eqn:E4.
        -- apply andb_prop in E4. destruct E4 as [C D]. apply N.eqb_eq in C, D. subst.
           rewrite !N.eqb_refl in E3. discriminate.
        -- rewrite A, B. rewrite E4. reflexivity.
    + destruct (N.eqb (a_stream z) s && N.eqb (a_idx z) i) eqn:E2.
      * destruct (N.eqb s s' && N.eqb i i') eqn:E3; [|reflexivity].
        apply andb_prop in E2, E3. destruct E2 as [A B], E3 as [C D]. apply N.eqb_eq in A, B, C, D. subst.
        rewrite !N.eqb_refl in E1. discriminate.
      * exact IH.
Qed.

(* ---- the group table ------------------------------------------------------------------------------- *)
Lemma keys_update : forall A k (v : A) l, In k (map fst l) -> map fst (update k v l) = map fst l.
Proof.
  induction l as [|[k' v'] t IH]; simpl; intros H; [contradiction|].
  destruct (N.eqb k k') eqn:E; simpl.
  - apply N.eqb_eq in E. subst. reflexivity.
  - f_equal. apply IH. destruct H as [H|H]; [apply N.eqb_neq in E; congruence|assumption].
Qed.

Lemma keys_update_new : forall A k (v : A) l, ~ In k (map fst l) -> map fst (update k v l) = map fst l ++ [k].
Proof.
  induction l as [|[k' v'] t IH]; simpl; intros H; [reflexivity|].
  destruct (N.eqb k k') eqn:E; simpl.
  - apply N.eqb_eq in E. subst. exfalso. apply H. left; reflexivity.
  - f_equal. apply IH. intros Hin. apply H. right; assumption.
Qed.

Lemma lookup_none_keys : forall A k (l : list (N * A)), lookup k l = None <-> ~ In k (map fst l).
Proof.
  induction l as [|[k' v'] t IH]; simpl; [tauto|].
  destruct (N.eqb k k') eqn:E.
  - apply N.eqb_eq in E. subst. split; [discriminate|]. intros H. exfalso. apply H. left; reflexivity.
  - apply N.eqb_neq in E. rewrite IH. split; intros H; [intros [H1|H1]; [congruence|contradiction]|tauto].
Qed.

Lemma NoDup_snoc : forall (l : list N) k, NoDup l -> ~ In k l -> NoDup (l ++ [k]).
Proof.
  induction l as [|a t IH]; simpl; intros k H Hk; [constructor; [tauto|constructor]|].
  inversion H; subst. constructor.
  - rewrite in_app_iff. simpl. intros [H1|[H1|[]]]; [contradiction|]. subst. apply Hk. left; reflexivity.
  - apply IH; [assumption|]. intros H1. apply Hk. right; assumption.
Qed.

Lemma NoDup_update : forall A k (v : A) l, NoDup (map fst l) -> NoDup (map fst (update k v l)).
Proof.
  intros A k v l H. destruct (lookup k l) eqn:E.
  - rewrite keys_update; [assumption|]. destruct (in_dec N.eq_dec k (map fst l)); [assumption|].
    apply lookup_none_keys in n. congruence.
  - apply lookup_none_keys in E. rewrite keys_update_new by assumption.
    apply NoDup_snoc; assumption.
Qed.

(* ---- the invariant ------------------------------------------------------------------------------------ *)
Definition vsess (st : state) (n : N) := view (st_sess st) n.
Definition vatt (st : state) (s i : N) : option astate := option_map a_state (find_att s i (st_atts st)).
Definition cnt_of (st : state) (s : N) : N := match lookup s (st_cnt st) with Some c => c | None => 0 end.

(* what sits in a group is an admitted, live session of the right kind and of that stream *)
Definition entry_ok (st : state) (s : N) (g : group) : Prop :=
  (forall sl n, get_slot g sl = Some n -> vsess st n = Some (kind_of_slot sl, s, true, false)) /\
  (forall k n, In (k, n) (g_subs g) -> exists kd, subk_of kd = Some k /\ vsess st n = Some (kd, s, true, false)).

Definition sits (g : group) (kd : skind) (n : N) : Prop :=
  match slot_of kd, subk_of kd with
  | Some sl, _ => get_slot g sl = Some n
  | None, Some k => In (k, n) (g_subs g)
  | None, None => False
  end.

Definition net_kind (k : skind) : bool := match k with KCustPub | KPsPub => false | _ => true end.

(* a refused session is gone; an admitted live network session has its group and, unless the
   server was disposed, sits in it *)
Definition sess_ok (st : state) (n : N) : Prop :=
  match vsess st n with
  | None => True
  | Some (kd, s, acc, gone) =>
    (acc = false -> gone = true) /\
    (acc = true -> gone = false -> net_kind kd = true ->
       exists g, get_group st s = Some g /\ (st_disposed st = false -> sits g kd n))
  end.

Definition attached_in (g : group) (i : N) : Prop := pp_rtmp (g_pp g) = Some i \/ pp_rtsp (g_pp g) = Some i.

Definition att_ok (st : state) (s i : N) : Prop :=
  match vatt st s i with
  | None => True
  | Some x =>
    1 <= i <= cnt_of st s /\
    match x with
    | AHeld => exists g, get_group st s = Some g /\ pp_pulling (g_pp g) = true /\ ~ attached_in g i
    | AAttached => exists g, get_group st s = Some g /\ pp_pulling (g_pp g) = true /\ attached_in g i
    | AFinished => True
    end
  end.

Definition outstanding (x : option astate) : bool :=
  match x with Some AHeld | Some AAttached => true | _ => false end.

(* notification words *)
Definition who_eqb (a b : who) : bool :=
  match a, b with
  | WConn x, WConn y => N.eqb x y
  | WAtt s i, WAtt t j => N.eqb s t && N.eqb i j
  | _, _ => false
  end.
Definition word (log : list notif) (w : who) : list nkind :=
  map n_kind (filter (fun n => who_eqb (n_who n) w) log).

Definition start_kind (kd : skind) : option (nkind * nkind) :=
  match kd with
  | KRtmpPub | KRtspPub => Some (NPubStart, NPubStop)
  | KRtmpSub | KRtspSub | KFlvSub | KTsSub => Some (NSubStart, NSubStop)
  | KCustPub | KPsPub => None
  end.
(* the notifications a connection must have produced so far *)
Definition conn_word (v : option (skind * N * bool * bool)) : list nkind :=
  match v with
  | None => []
  | Some (kd, _, acc, gone) =>
    match start_kind kd with
    | None => []
    | Some (st, en) => if acc then (if gone then [st; en] else [st]) else []
    end
  end.
Definition att_word_ok (x : option astate) (w : list nkind) : Prop :=
  match x with
  | None | Some AHeld => w = []
  | Some AAttached => w = [NPullStart]
  | Some AFinished => w = [NPullStop] \/ w = [NPullStart; NPullStop]
  end.

(* family S: groups and connections *)
Record INV_S (st : state) (log : list notif) : Prop := mk_INV_S {
  inv_keys : NoDup (map fst (st_groups st));
  inv_slots : forall s g, get_group st s = Some g -> slots_ok g;
  inv_entry : forall s g, get_group st s = Some g -> entry_ok st s g;
  inv_sess : forall n, sess_ok st n;
  inv_log_conn : forall n, word log (WConn n) = conn_word (vsess st n)
}.

(* family A: relay-pull attempts *)
Record INV_A (st : state) (log : list notif) : Prop := mk_INV_A {
  inva_keys : NoDup (map fst (st_groups st));
  inv_att : forall s i, att_ok st s i;
  inv_att_slot : forall s g i, get_group st s = Some g -> attached_in g i -> vatt st s i = Some AAttached;
  inv_att_last : forall s i, outstanding (vatt st s i) = true -> i = cnt_of st s;
  inv_log_att : forall s i, att_word_ok (vatt st s i) (word log (WAtt s i))
}.

Lemma inv_s_init : INV_S init_state [].
Proof.
  constructor.
  - constructor.
  - intros s g H. discriminate H.
  - intros s g H. discriminate H.
  - intros n. exact I.
  - intros n. reflexivity.
Qed.

Lemma inv_a_init : INV_A init_state [].
Proof.
  constructor.
  - constructor.
  - intros s i. exact I.
  - intros s g i H. discriminate H.
  - intros s i H. discriminate H.
  - intros s i. reflexivity.
Qed.

(* words *)
Lemma word_app : forall l1 l2 w, word (l1 ++ l2) w = word l1 w ++ word l2 w.
Proof. intros. unfold word. rewrite filter_app, map_app. reflexivity. Qed.
Lemma word_nil : forall w, word [] w = [].
Proof. reflexivity. Qed.
Lemma who_eqb_refl : forall w, who_eqb w w = true.
Proof. destruct w; simpl; rewrite ?N.eqb_refl; reflexivity. Qed.
Lemma who_eqb_eq : forall a b, who_eqb a b = true -> a = b.
Proof.
  destruct a, b; simpl; intros H; try discriminate.
  - apply N.eqb_eq in H. subst. reflexivity.
  - apply andb_prop in H. destruct H as [A B]. apply N.eqb_eq in A, B. subst. reflexivity.
Qed.
Lemma word_one : forall k w g w', word [note k w g] w' = if who_eqb w w' then [k] else [].
Proof. intros. unfold word, note. simpl. destruct (who_eqb w w'); reflexivity. Qed.

(* ======================================================================================== *)
(* family S                                                                                  *)
(* ======================================================================================== *)

(* the part of a group family S looks at *)
Definition shape (g : group) := (g_rtmp g, g_rtsp g, g_cust g, g_ps g, g_subs g).

Lemma shape_get_slot : forall g g' sl, shape g' = shape g -> get_slot g' sl = get_slot g sl.
Proof. unfold shape. intros g g' sl H. inversion H. destruct sl; simpl; assumption. Qed.
Lemma shape_subs : forall g g', shape g' = shape g -> g_subs g' = g_subs g.
Proof. unfold shape. intros g g' H. inversion H. reflexivity. Qed.

Lemma shape_sits : forall g g' kd n, shape g' = shape g -> sits g kd n -> sits g' kd n.
Proof.
  intros g g' kd n H. unfold sits. destruct (slot_of kd) as [sl|].
  - rewrite (shape_get_slot _ _ sl H). trivial.
  - rewrite (shape_subs _ _ H). trivial.
Qed.

(* entry_ok only depends on the shape and on the session views *)
Lemma entry_ok_shape : forall st st' s g g',
  shape g' = shape g -> (forall n, vsess st' n = vsess st n) -> entry_ok st s g -> entry_ok st' s g'.
Proof.
  intros st st' s g g' Hs Hv [H1 H2]. split.
  - intros sl n Hn. rewrite (shape_get_slot _ _ sl Hs) in Hn. rewrite Hv. apply H1. assumption.
  - intros k n Hn. rewrite (shape_subs _ _ Hs) in Hn. destruct (H2 k n Hn) as [kd [A B]]. exists kd. rewrite Hv. split; assumption.
Qed.

(* states that family S cannot tell apart *)
Definition equiv_S (st st' : state) : Prop :=
  st_groups st' = st_groups st /\ (forall n, vsess st' n = vsess st n) /\ st_disposed st' = st_disposed st.

Lemma inv_s_equiv : forall st st' log, equiv_S st st' -> INV_S st log -> INV_S st' log.
Proof.
  intros st st' log [Hg [Hv Hd]] H. destruct H as [K SL EN SE LG].
  assert (Hgg : forall s, get_group st' s = get_group st s) by (intros; unfold get_group; rewrite Hg; reflexivity).
  constructor.
  - rewrite Hg. assumption.
  - intros s g Hs. rewrite Hgg in Hs. eauto.
  - intros s g Hs. rewrite Hgg in Hs. eapply entry_ok_shape; [reflexivity|exact Hv|eauto].
  - intros n. specialize (SE n). unfold sess_ok in *. rewrite Hv. destruct (vsess st n) as [[[[kd s] acc] gone]|]; [|exact I].
    destruct SE as [A B]. split; [assumption|]. intros H1 H2 H3. destruct (B H1 H2 H3) as [g [G1 G2]].
    exists g. rewrite Hgg, Hd. split; assumption.
  - intros n. rewrite Hv. apply LG.
Qed.

(* ---- one group replaced by one of the same shape (pull proxy, push, pipeline changes) ------- *)
Lemma get_group_put : forall st s g s', get_group (put_group st s g) s' = if N.eqb s' s then Some g else get_group st s'.
Proof.
  intros. unfold get_group, put_group. simpl. destruct (N.eqb s' s) eqn:E.
  - apply N.eqb_eq in E. subst. apply lookup_update_same.
  - apply N.eqb_neq in E. apply lookup_update_other. assumption.
Qed.

Lemma inv_s_put_shape : forall st log s g g',
  INV_S st log -> get_group st s = Some g -> shape g' = shape g -> slots_ok g' ->
  INV_S (put_group st s g') log.
Proof.
  intros st log s g g' H Hg Hs Hok. destruct H as [K SL EN SE LG]. constructor.
  - apply NoDup_update. assumption.
  - intros s' g0 H0. rewrite get_group_put in H0. destruct (N.eqb s' s); [inversion H0; subst; assumption|eauto].
  - intros s' g0 H0. rewrite get_group_put in H0. destruct (N.eqb s' s) eqn:E.
    + inversion H0; subst g0. apply N.eqb_eq in E. subst s'.
      eapply entry_ok_shape; [exact Hs|reflexivity|eauto].
    + eapply entry_ok_shape; [reflexivity|reflexivity|eauto].
  - intros n. specialize (SE n). unfold sess_ok in *. change (vsess (put_group st s g') n) with (vsess st n).
    destruct (vsess st n) as [[[[kd s0] acc] gone]|]; [|exact I].
    destruct SE as [A B]. split; [assumption|]. intros H1 H2 H3. destruct (B H1 H2 H3) as [g0 [G1 G2]].
    rewrite get_group_put. destruct (N.eqb s0 s) eqn:E.
    + apply N.eqb_eq in E. subst s0. rewrite Hg in G1. inversion G1; subst g0.
      exists g'. split; [reflexivity|]. intros Hd. eapply shape_sits; [exact Hs|]. apply G2. exact Hd.
    + exists g0. split; assumption.
  - intros n. apply LG.
Qed.

(* ---- a new, empty group ------------------------------------------------------------------------ *)
Lemma inv_s_get_or_create : forall cf st log s st1 g,
  INV_S st log -> get_or_create cf st s = (st1, g) ->
  INV_S st1 log /\ get_group st1 s = Some g /\ (forall n, vsess st1 n = vsess st n) /\
  st_disposed st1 = st_disposed st /\
  (get_group st s = Some g \/ (get_group st s = None /\ shape g = (None, None, None, None, []) /\ has_in g = false /\ g_disposed g = false)).
Proof.
  intros cf st log s st1 g H E. unfold get_or_create in E. destruct (get_group st s) as [g0|] eqn:Eg.
  - inversion E; subst st1 g0. split; [assumption|]. split; [assumption|]. split; [reflexivity|]. split; [reflexivity|left; reflexivity].
  - inversion E; subst. clear E. destruct H as [K SL EN SE LG].
    set (g := new_group cf (st_gid st + 1) (st_now st)).
    split; [|split; [|split; [|split]]].
    + constructor.
      * simpl. apply NoDup_update. assumption.
      * intros s' g0 H0. change (get_group (put_group st s g) s' = Some g0) in H0. rewrite get_group_put in H0.
        destruct (N.eqb s' s); [inversion H0; subst; apply slots_ok_new_group|eauto].
      * intros s' g0 H0. change (get_group (put_group st s g) s' = Some g0) in H0. rewrite get_group_put in H0.
        destruct (N.eqb s' s).
        -- inversion H0; subst g0. split; [intros sl n Hn; destruct sl; discriminate Hn|intros k n Hn; destruct Hn].
        -- eapply entry_ok_shape; [reflexivity|reflexivity|eauto].
      * intros n. specialize (SE n). unfold sess_ok in *.
        change (vsess (st_set_gid (put_group st s g) (st_gid st + 1)) n) with (vsess st n).
        destruct (vsess st n) as [[[[kd s0] acc] gone]|]; [|exact I].
        destruct SE as [A B]. split; [assumption|]. intros H1 H2 H3. destruct (B H1 H2 H3) as [g0 [G1 G2]].
        change (get_group (st_set_gid (put_group st s g) (st_gid st + 1)) s0) with (get_group (put_group st s g) s0).
        rewrite get_group_put. destruct (N.eqb s0 s) eqn:E.
        -- apply N.eqb_eq in E. subst s0. rewrite Eg in G1. discriminate.
        -- exists g0. split; assumption.
      * intros n. apply LG.
    + change (get_group (put_group st s g) s = Some g). rewrite get_group_put, N.eqb_refl. reflexivity.
    + reflexivity.
    + reflexivity.
    + right. repeat split.
Qed.

(* ---- helpers about occupancy ------------------------------------------------------------------- *)
Lemma slots_ok_two : forall g sl sl' a b, slots_ok g -> get_slot g sl = Some a -> get_slot g sl' = Some b -> sl = sl'.
Proof.
  unfold slots_ok, occupied. intros g sl sl' a b H A B.
  destruct sl, sl'; try reflexivity; simpl in *; rewrite A, B in H; simpl in H;
    destruct (g_rtmp g), (g_rtsp g), (g_cust g), (g_ps g), (pp_rtmp (g_pp g)), (pp_rtsp (g_pp g)); simpl in *; try discriminate; lia.
Qed.

Lemma slots_ok_pull_nopub : forall g sl, slots_ok g -> has_pull g = true -> get_slot g sl = None.
Proof.
  unfold slots_ok, occupied, has_pull. intros g sl H P.
  destruct sl; simpl;
    destruct (g_rtmp g), (g_rtsp g), (g_cust g), (g_ps g), (pp_rtmp (g_pp g)), (pp_rtsp (g_pp g)); simpl in *; try discriminate; try reflexivity; lia.
Qed.

Lemma has_in_false_slot : forall g sl, has_in g = false -> get_slot g sl = None.
Proof.
  unfold has_in, has_pub. intros g sl H.
  destruct sl; simpl; destruct (g_rtmp g), (g_rtsp g), (g_cust g), (g_ps g); simpl in *; try discriminate; reflexivity.
Qed.

Lemma sits_pub : forall g kd n sl, slot_of kd = Some sl -> sits g kd n -> get_slot g sl = Some n.
Proof. unfold sits. intros g kd n sl H. rewrite H. trivial. Qed.

Lemma net_pub_slot : forall kd sl, slot_of kd = Some sl -> net_kind kd = true -> sl = PsRtmp \/ sl = PsRtsp.
Proof. intros kd sl H N. destruct kd; simpl in *; try discriminate; inversion H; auto. Qed.

(* ---- the publisher slots are cleared while the occupant is not a network publisher
        (PS publisher, relay pull): nobody who must keep sitting is affected ------------------- *)
Lemma inv_s_put_clear : forall st log s g g',
  INV_S st log -> get_group st s = Some g ->
  (is_some (g_ps g) = true \/ has_pull g = true) ->
  (forall sl, get_slot g' sl = None) -> g_subs g' = g_subs g -> slots_ok g' ->
  INV_S (put_group st s g') log.
Proof.
  intros st log s g g' H Hg Hocc Hcl Hsub Hok. destruct H as [K SL EN SE LG]. constructor.
  - apply NoDup_update. assumption.
  - intros s' g0 H0. rewrite get_group_put in H0. destruct (N.eqb s' s); [inversion H0; subst; assumption|eauto].
  - intros s' g0 H0. rewrite get_group_put in H0. destruct (N.eqb s' s) eqn:E.
    + inversion H0; subst g0. apply N.eqb_eq in E. subst s'. destruct (EN s g Hg) as [E1 E2]. split.
      * intros sl n Hn. rewrite Hcl in Hn. discriminate.
      * intros k n Hn. rewrite Hsub in Hn. apply E2. assumption.
    + eapply entry_ok_shape; [reflexivity|reflexivity|eauto].
  - intros n. specialize (SE n). unfold sess_ok in *. change (vsess (put_group st s g') n) with (vsess st n).
    destruct (vsess st n) as [[[[kd s0] acc] gone]|]; [|exact I].
    destruct SE as [A B]. split; [assumption|]. intros H1 H2 H3. destruct (B H1 H2 H3) as [g0 [G1 G2]].
    rewrite get_group_put. destruct (N.eqb s0 s) eqn:E.
    + apply N.eqb_eq in E. subst s0. rewrite Hg in G1. inversion G1; subst g0.
      exists g'. split; [reflexivity|]. intros Hd. specialize (G2 Hd). unfold sits in *.
      destruct (slot_of kd) as [sl|] eqn:Esl.
      * exfalso. destruct (net_pub_slot _ _ Esl H3) as [->| ->].
        -- destruct Hocc as [Hp|Hp].
           ++ destruct (g_ps g) as [a|] eqn:Eps; [|discriminate]. pose proof (slots_ok_two g PsRtmp PsPs n a (SL s g Hg) G2 Eps). discriminate.
           ++ rewrite (slots_ok_pull_nopub g PsRtmp (SL s g Hg) Hp) in G2. discriminate.
        -- destruct Hocc as [Hp|Hp].
           ++ destruct (g_ps g) as [a|] eqn:Eps; [|discriminate]. pose proof (slots_ok_two g PsRtsp PsPs n a (SL s g Hg) G2 Eps). discriminate.
           ++ rewrite (slots_ok_pull_nopub g PsRtsp (SL s g Hg) Hp) in G2. discriminate.
      * rewrite Hsub. exact G2.
    + exists g0. split; assumption.
  - intros n. apply LG.
Qed.

(* ---- sessions are added -------------------------------------------------------------------------- *)
Lemma vsess_add : forall st x n, find_sess (s_id x) (st_sess st) = None ->
  vsess (add_sess st x) n = if N.eqb (s_id x) n then Some (core x) else vsess st n.
Proof. intros. unfold vsess, add_sess. simpl. apply view_add_fresh. assumption. Qed.

Lemma fresh_none : forall st n, fresh st n = true -> find_sess n (st_sess st) = None.
Proof. unfold fresh. intros st n H. destruct (find_sess n (st_sess st)); [discriminate|reflexivity]. Qed.

Lemma fresh_vsess : forall st n, fresh st n = true -> vsess st n = None.
Proof. intros st n H. unfold vsess, view. rewrite (fresh_none _ _ H). reflexivity. Qed.

(* a refused session: recorded as gone, nothing else changes, no notification *)
Lemma inv_s_add_refused : forall st log n k s,
  INV_S st log -> fresh st n = true -> INV_S (add_sess st (refused_sess n k s)) log.
Proof.
  intros st log n k s H Hf. pose proof (fresh_none _ _ Hf) as Hn. destruct H as [K SL EN SE LG].
  assert (Hv : forall m, vsess (add_sess st (refused_sess n k s)) m = if N.eqb n m then Some (k, s, false, true) else vsess st m).
  { intros m. rewrite vsess_add by exact Hn. reflexivity. }
  assert (Hold : forall m c, vsess st m = Some c -> vsess (add_sess st (refused_sess n k s)) m = Some c).
  { intros m c Hm. rewrite Hv. destruct (N.eqb n m) eqn:E; [|assumption]. apply N.eqb_eq in E. subst m.
    rewrite (fresh_vsess _ _ Hf) in Hm. discriminate. }
  constructor.
  - assumption.
  - intros s' g Hg. exact (SL s' g Hg).
  - intros s' g Hg. destruct (EN s' g Hg) as [E1 E2]. split.
    + intros sl m Hm. apply Hold. apply E1. assumption.
    + intros k0 m Hm. destruct (E2 k0 m Hm) as [kd [A B]]. exists kd. split; [assumption|apply Hold; assumption].
  - intros m. unfold sess_ok. rewrite Hv. destruct (N.eqb n m) eqn:E.
    + split; [reflexivity|intros Hx; discriminate Hx].
    + specialize (SE m). unfold sess_ok in SE. destruct (vsess st m) as [[[[kd s0] acc] gone]|]; [|exact I]. exact SE.
  - intros m. rewrite Hv. destruct (N.eqb n m) eqn:E.
    + apply N.eqb_eq in E. subst m. rewrite LG, (fresh_vsess _ _ Hf). simpl. destruct (start_kind k) as [[a b]|]; reflexivity.
    + apply LG.
Qed.

Lemma shape_start_push : forall g, shape (start_push g) = shape g.
Proof. intros g. unfold start_push. destruct (g_push g); [reflexivity|]. destruct (_ || _); reflexivity. Qed.
Lemma shape_add_in : forall p g, shape (add_in p g) = shape g.
Proof. intros. unfold add_in. rewrite shape_start_push. reflexivity. Qed.

Lemma get_slot_set_slot : forall g sl n sl', get_slot (set_slot g sl n) sl' = if
  match sl, sl' with PsRtmp, PsRtmp | PsRtsp, PsRtsp | PsCust, PsCust | PsPs, PsPs => true | _, _ => false end
  then Some n else get_slot g sl'.
Proof. intros g sl n sl'. destruct sl, sl'; reflexivity. Qed.

Lemma slot_of_kind_of_slot : forall sl, slot_of (kind_of_slot sl) = Some sl.
Proof. destruct sl; reflexivity. Qed.

Lemma start_kind_slot : forall sl, start_kind (kind_of_slot sl) =
  if net_kind (kind_of_slot sl) then Some (NPubStart, NPubStop) else None.
Proof. destruct sl; reflexivity. Qed.

Lemma word_conn_att : forall k s i g n, word [note k (WAtt s i) g] (WConn n) = [].
Proof. reflexivity. Qed.

(* ---- a publisher is admitted -------------------------------------------------------------------- *)
Lemma inv_s_admit_pub : forall st log s g sl n p gid,
  INV_S st log -> get_group st s = Some g -> has_in g = false -> fresh st n = true ->
  INV_S (add_sess (put_group st s (add_in p (set_slot g sl n))) (admitted_sess n (kind_of_slot sl) s gid))
        (log ++ (if net_kind (kind_of_slot sl) then [note NPubStart (WConn n) (add_in p (set_slot g sl n))] else [])).
Proof.
  intros st log s g sl n p gid H Hg Hin Hf.
  set (g1 := add_in p (set_slot g sl n)). set (x := admitted_sess n (kind_of_slot sl) s gid).
  pose proof (fresh_none _ _ Hf) as Hn. pose proof (fresh_vsess _ _ Hf) as Hvn.
  destruct H as [K SL EN SE LG].
  assert (Hv : forall m, vsess (add_sess (put_group st s g1) x) m = if N.eqb n m then Some (kind_of_slot sl, s, true, false) else vsess st m).
  { intros m. rewrite vsess_add by exact Hn. reflexivity. }
  assert (Hold : forall m c, vsess st m = Some c -> vsess (add_sess (put_group st s g1) x) m = Some c).
  { intros m c Hm. rewrite Hv. destruct (N.eqb n m) eqn:E; [|assumption]. apply N.eqb_eq in E. subst m. rewrite Hvn in Hm. discriminate. }
  assert (Hgg : forall s', get_group (add_sess (put_group st s g1) x) s' = if N.eqb s' s then Some g1 else get_group st s').
  { intros s'. change (get_group (add_sess (put_group st s g1) x) s') with (get_group (put_group st s g1) s'). apply get_group_put. }
  assert (Hsl1 : forall sl', get_slot g1 sl' = if match sl, sl' with PsRtmp, PsRtmp | PsRtsp, PsRtsp | PsCust, PsCust | PsPs, PsPs => true | _, _ => false end then Some n else None).
  { intros sl'. subst g1. rewrite (shape_get_slot _ _ sl' (shape_add_in p _)), get_slot_set_slot.
    rewrite (has_in_false_slot g sl' Hin). reflexivity. }
  assert (Hsub1 : g_subs g1 = g_subs g).
  { subst g1. rewrite (shape_subs _ _ (shape_add_in p _)). destruct sl; reflexivity. }
  constructor.
  - simpl. apply NoDup_update. assumption.
  - intros s' g0 H0. rewrite Hgg in H0. destruct (N.eqb s' s); [inversion H0; subst g0; apply slots_ok_set_slot; assumption|eauto].
  - intros s' g0 H0. rewrite Hgg in H0. destruct (N.eqb s' s) eqn:E.
    + inversion H0; subst g0. apply N.eqb_eq in E. subst s'. destruct (EN s g Hg) as [E1 E2]. split.
      * intros sl' m Hm. rewrite Hsl1 in Hm.
        destruct sl, sl'; simpl in Hm; try discriminate; inversion Hm; subst m; rewrite Hv, N.eqb_refl; reflexivity.
      * intros k m Hm. rewrite Hsub1 in Hm. destruct (E2 k m Hm) as [kd [A B]]. exists kd. split; [assumption|apply Hold; assumption].
    + destruct (EN s' g0 H0) as [E1 E2]. split.
      * intros sl' m Hm. apply Hold. apply E1. assumption.
      * intros k m Hm. destruct (E2 k m Hm) as [kd [A B]]. exists kd. split; [assumption|apply Hold; assumption].
  - intros m. unfold sess_ok. rewrite Hv. destruct (N.eqb n m) eqn:E.
    + apply N.eqb_eq in E. subst m. split; [intros Hx; discriminate Hx|]. intros _ _ _.
      exists g1. rewrite Hgg, N.eqb_refl. split; [reflexivity|]. intros _. unfold sits. rewrite slot_of_kind_of_slot.
      rewrite Hsl1. destruct sl; reflexivity.
    + specialize (SE m). unfold sess_ok in SE. destruct (vsess st m) as [[[[kd s0] acc] gone]|]; [|exact I].
      destruct SE as [A B]. split; [assumption|]. intros H1 H2 H3. destruct (B H1 H2 H3) as [g0 [G1 G2]].
      rewrite Hgg. destruct (N.eqb s0 s) eqn:E2.
      * apply N.eqb_eq in E2. subst s0. rewrite Hg in G1. inversion G1; subst g0.
        exists g1. split; [reflexivity|]. intros Hd. specialize (G2 Hd). unfold sits in *.
        destruct (slot_of kd) as [sl0|].
        -- rewrite (has_in_false_slot g sl0 Hin) in G2. discriminate.
        -- rewrite Hsub1. exact G2.
      * exists g0. split; assumption.
  - intros m. rewrite word_app, Hv, LG. destruct (N.eqb n m) eqn:E.
    + apply N.eqb_eq in E. subst m. rewrite Hvn. simpl conn_word. rewrite start_kind_slot.
      destruct (net_kind (kind_of_slot sl)); [|reflexivity].
      rewrite word_one. simpl. rewrite N.eqb_refl. reflexivity.
    + destruct (net_kind (kind_of_slot sl)); [|rewrite app_nil_r; reflexivity].
      rewrite word_one. simpl. rewrite E. rewrite app_nil_r. reflexivity.
Qed.

Lemma subk_not_pub : forall sl k, subk_of (kind_of_slot sl) = Some k -> False.
Proof. destruct sl; simpl; discriminate. Qed.
Lemma subk_slot_none : forall kd k, subk_of kd = Some k -> slot_of kd = None.
Proof. destruct kd; simpl; intros k H; try discriminate; reflexivity. Qed.
Lemma subk_start_kind : forall kd k, subk_of kd = Some k -> start_kind kd = Some (NSubStart, NSubStop).
Proof. destruct kd; simpl; intros k H; try discriminate; reflexivity. Qed.
Lemma subk_net : forall kd k, subk_of kd = Some k -> net_kind kd = true.
Proof. destruct kd; simpl; intros k H; try discriminate; reflexivity. Qed.
Lemma kind_of_slot_inj : forall a b, kind_of_slot a = kind_of_slot b -> a = b.
Proof. destruct a, b; simpl; intros H; try discriminate; reflexivity. Qed.
Lemma subk_of_inj : forall kd k k', subk_of kd = Some k -> subk_of kd = Some k' -> k = k'.
Proof. intros. congruence. Qed.

(* ---- a subscriber is admitted ---------------------------------------------------------------------- *)
Lemma inv_s_admit_sub : forall st log s g g1 kd k n,
  INV_S st log -> get_group st s = Some g -> fresh st n = true -> subk_of kd = Some k ->
  (forall sl, get_slot g1 sl = get_slot g sl) -> g_subs g1 = g_subs g ++ [(k, n)] -> slots_ok g1 ->
  INV_S (add_sess (put_group st s g1) (admitted_sess n kd s None)) (log ++ [note NSubStart (WConn n) g1]).
Proof.
  intros st log s g g1 kd k n H Hg Hf Hk Hsl1 Hsub1 Hok1.
  set (x := admitted_sess n kd s None).
  pose proof (fresh_none _ _ Hf) as Hn. pose proof (fresh_vsess _ _ Hf) as Hvn.
  destruct H as [K SL EN SE LG].
  assert (Hv : forall m, vsess (add_sess (put_group st s g1) x) m = if N.eqb n m then Some (kd, s, true, false) else vsess st m).
  { intros m. rewrite vsess_add by exact Hn. reflexivity. }
  assert (Hold : forall m c, vsess st m = Some c -> vsess (add_sess (put_group st s g1) x) m = Some c).
  { intros m c Hm. rewrite Hv. destruct (N.eqb n m) eqn:E; [|assumption]. apply N.eqb_eq in E. subst m. rewrite Hvn in Hm. discriminate. }
  assert (Hgg : forall s', get_group (add_sess (put_group st s g1) x) s' = if N.eqb s' s then Some g1 else get_group st s').
  { intros s'. change (get_group (add_sess (put_group st s g1) x) s') with (get_group (put_group st s g1) s'). apply get_group_put. }
  constructor.
  - simpl. apply NoDup_update. assumption.
  - intros s' g0 H0. rewrite Hgg in H0. destruct (N.eqb s' s); [inversion H0; subst g0; assumption|eauto].
  - intros s' g0 H0. rewrite Hgg in H0. destruct (N.eqb s' s) eqn:E.
    + inversion H0; subst g0. apply N.eqb_eq in E. subst s'. destruct (EN s g Hg) as [E1 E2]. split.
      * intros sl' m Hm. rewrite Hsl1 in Hm. apply Hold. apply E1. assumption.
      * intros k0 m Hm. rewrite Hsub1 in Hm. apply in_app_or in Hm. destruct Hm as [Hm|[Hm|[]]].
        -- destruct (E2 k0 m Hm) as [kd0 [A B]]. exists kd0. split; [assumption|apply Hold; assumption].
        -- inversion Hm; subst k0 m. exists kd. split; [assumption|]. rewrite Hv, N.eqb_refl. reflexivity.
    + destruct (EN s' g0 H0) as [E1 E2]. split.
      * intros sl' m Hm. apply Hold. apply E1. assumption.
      * intros k0 m Hm. destruct (E2 k0 m Hm) as [kd0 [A B]]. exists kd0. split; [assumption|apply Hold; assumption].
  - intros m. unfold sess_ok. rewrite Hv. destruct (N.eqb n m) eqn:E.
    + apply N.eqb_eq in E. subst m. split; [intros Hx; discriminate Hx|]. intros _ _ _.
      exists g1. rewrite Hgg, N.eqb_refl. split; [reflexivity|]. intros _. unfold sits.
      rewrite (subk_slot_none _ _ Hk), Hk, Hsub1. apply in_or_app. right. left. reflexivity.
    + specialize (SE m). unfold sess_ok in SE. destruct (vsess st m) as [[[[kd0 s0] acc] gone]|]; [|exact I].
      destruct SE as [A B]. split; [assumption|]. intros H1 H2 H3. destruct (B H1 H2 H3) as [g0 [G1 G2]].
      rewrite Hgg. destruct (N.eqb s0 s) eqn:E2.
      * apply N.eqb_eq in E2. subst s0. rewrite Hg in G1. inversion G1; subst g0.
        exists g1. split; [reflexivity|]. intros Hd. specialize (G2 Hd). unfold sits in *.
        destruct (slot_of kd0) as [sl0|].
        -- rewrite Hsl1. exact G2.
        -- destruct (subk_of kd0); [|exact G2]. rewrite Hsub1. apply in_or_app. left. exact G2.
      * exists g0. split; assumption.
  - intros m. rewrite word_app, Hv, LG, word_one. simpl who_eqb. destruct (N.eqb n m) eqn:E.
    + apply N.eqb_eq in E. subst m. rewrite Hvn. simpl conn_word. rewrite (subk_start_kind _ _ Hk). reflexivity.
    + rewrite app_nil_r. reflexivity.
Qed.

(* ---- a session is marked gone ------------------------------------------------------------------------ *)
Definition gone_of (st st0 : state) (n : N) : Prop :=
  st_groups st0 = st_groups st /\ st_disposed st0 = st_disposed st /\
  (forall m, vsess st0 m = if N.eqb m n
                            then option_map (fun c => let '(k, s, a, _) := c in (k, s, a, true)) (vsess st m)
                            else vsess st m).

Lemma gone_of_gone_sess : forall st n, gone_of st (gone_sess st n) n.
Proof. intros. split; [reflexivity|]. split; [reflexivity|]. intros m. unfold vsess, gone_sess. simpl. apply view_gone. Qed.

Lemma gone_of_close_gone : forall st n, gone_of st (close_sess (gone_sess st n) n) n.
Proof.
  intros. split; [reflexivity|]. split; [reflexivity|]. intros m. unfold vsess, close_sess, gone_sess. simpl.
  rewrite view_closed. apply view_gone.
Qed.

Lemma gone_of_gone_close : forall st n, gone_of st (gone_sess (close_sess st n) n) n.
Proof.
  intros. split; [reflexivity|]. split; [reflexivity|]. intros m. unfold vsess, close_sess, gone_sess. simpl.
  rewrite view_gone. rewrite view_closed. reflexivity.
Qed.

Lemma get_group_same_groups : forall st st0 s, st_groups st0 = st_groups st -> get_group st0 s = get_group st s.
Proof. intros. unfold get_group. rewrite H. reflexivity. Qed.

Lemma get_slot_del_in : forall g sl, get_slot (del_in g) sl = None.
Proof. intros g sl. destruct sl; reflexivity. Qed.
Lemma subs_del_in : forall g, g_subs (del_in g) = g_subs g.
Proof. reflexivity. Qed.

Lemma opt_is_true : forall o n, opt_is o n = true -> o = Some n.
Proof. intros [m|] n H; simpl in H; [apply N.eqb_eq in H; subst; reflexivity|discriminate]. Qed.
Lemma opt_is_false : forall o n, opt_is o n = false -> o <> Some n.
Proof. intros [m|] n H; simpl in H; [apply N.eqb_neq in H; congruence|discriminate]. Qed.

(* ---- a publisher leaves (OnDel*PubSession / DelCustomizePubSession) ---------------------------------- *)
Lemma inv_s_depart_pub : forall st st0 log sl s n acc,
  INV_S st log -> vsess st n = Some (kind_of_slot sl, s, acc, false) -> gone_of st st0 n ->
  INV_S (fst (depart_pub st0 sl s n (net_kind (kind_of_slot sl))))
        (log ++ snd (depart_pub st0 sl s n (net_kind (kind_of_slot sl)))).
Proof.
  intros st st0 log sl s n acc H Hvn [Hg0 [Hd0 Hv0]].
  destruct H as [K SL EN SE LG].
  assert (Hacc : acc = true).
  { pose proof (SE n) as S. unfold sess_ok in S. rewrite Hvn in S. destruct S as [A _]. destruct acc; [reflexivity|]. specialize (A eq_refl). discriminate. }
  subst acc.
  assert (Hvn0 : vsess st0 n = Some (kind_of_slot sl, s, true, true)) by (rewrite Hv0, N.eqb_refl, Hvn; reflexivity).
  assert (Hvm : forall m, m <> n -> vsess st0 m = vsess st m).
  { intros m Hm. rewrite Hv0. destruct (N.eqb m n) eqn:E; [apply N.eqb_eq in E; contradiction|reflexivity]. }
  assert (Hgg : forall s', get_group st0 s' = get_group st s') by (intros; apply get_group_same_groups; assumption).
  (* entries of the old state never mention n outside the slot sl of group s *)
  assert (Hent : forall s' g0 sl' m, get_group st s' = Some g0 -> get_slot g0 sl' = Some m -> m = n -> s' = s /\ sl' = sl).
  { intros s' g0 sl' m G0 Gs ->. destruct (EN s' g0 G0) as [E1 _]. specialize (E1 sl' n Gs). rewrite Hvn in E1.
    split; [congruence|apply kind_of_slot_inj; congruence]. }
  assert (Hsubs : forall s' g0 k m, get_group st s' = Some g0 -> In (k, m) (g_subs g0) -> m <> n).
  { intros s' g0 k m G0 Gs ->. destruct (EN s' g0 G0) as [_ E2]. destruct (E2 k n Gs) as [kd [A B]]. rewrite Hvn in B.
    inversion B; subst kd. exact (subk_not_pub _ _ A). }
  unfold depart_pub. rewrite Hgg. destruct (get_group st s) as [g|] eqn:Eg.
  - (* the group exists *)
    set (g1 := if opt_is (get_slot g sl) n then del_in g else g).
    assert (Hg1slot : forall sl' m, get_slot g1 sl' = Some m -> get_slot g sl' = Some m /\ m <> n).
    { intros sl' m Hm. subst g1. destruct (opt_is (get_slot g sl) n) eqn:Em.
      - rewrite get_slot_del_in in Hm. discriminate.
      - split; [assumption|]. intros ->. destruct (Hent s g sl' n Eg Hm eq_refl) as [_ ->].
        apply opt_is_false in Em. contradiction. }
    assert (Hg1sub : g_subs g1 = g_subs g) by (subst g1; destruct (opt_is _ n); reflexivity).
    assert (Hgg1 : forall s', get_group (put_group st0 s g1) s' = if N.eqb s' s then Some g1 else get_group st s').
    { intros s'. rewrite get_group_put, Hgg. reflexivity. }
    cbn [fst snd]. constructor.
    + simpl. rewrite Hg0. apply NoDup_update. assumption.
    + intros s' g0 H0. rewrite Hgg1 in H0. destruct (N.eqb s' s).
      * inversion H0; subst g0. subst g1. destruct (opt_is _ n); [apply slots_ok_del_in|]; eauto.
      * eauto.
    + intros s' g0 H0. rewrite Hgg1 in H0. destruct (N.eqb s' s) eqn:E.
      * inversion H0; subst g0. apply N.eqb_eq in E. subst s'. destruct (EN s g Eg) as [E1 E2]. split.
        -- intros sl' m Hm. destruct (Hg1slot sl' m Hm) as [A B].
           change (vsess (put_group st0 s g1) m) with (vsess st0 m). rewrite (Hvm m B). apply E1. assumption.
        -- intros k m Hm. rewrite Hg1sub in Hm. destruct (E2 k m Hm) as [kd [A B]]. exists kd. split; [assumption|].
           change (vsess (put_group st0 s g1) m) with (vsess st0 m). rewrite (Hvm m (Hsubs s g k m Eg Hm)). assumption.
      * destruct (EN s' g0 H0) as [E1 E2]. split.
        -- intros sl' m Hm. change (vsess (put_group st0 s g1) m) with (vsess st0 m). rewrite Hvm; [apply E1; assumption|].
           intros ->. destruct (Hent s' g0 sl' n H0 Hm eq_refl) as [-> _]. rewrite N.eqb_refl in E. discriminate.
        -- intros k m Hm. destruct (E2 k m Hm) as [kd [A B]]. exists kd. split; [assumption|].
           change (vsess (put_group st0 s g1) m) with (vsess st0 m). rewrite (Hvm m (Hsubs s' g0 k m H0 Hm)). assumption.
    + intros m. unfold sess_ok. change (vsess (put_group st0 s g1) m) with (vsess st0 m).
      destruct (N.eq_dec m n) as [->|Hmn].
      * rewrite Hvn0. split; [intros Hx; discriminate Hx|intros _ Hx; discriminate Hx].
      * rewrite (Hvm m Hmn). specialize (SE m). unfold sess_ok in SE.
        destruct (vsess st m) as [[[[kd0 s0] acc0] gone0]|] eqn:Evm; [|exact I].
        destruct SE as [A B]. split; [assumption|]. intros H1 H2 H3. destruct (B H1 H2 H3) as [g0 [G1 G2]].
        rewrite Hgg1. change (st_disposed (put_group st0 s g1)) with (st_disposed st0). rewrite Hd0.
        destruct (N.eqb s0 s) eqn:E2.
        -- apply N.eqb_eq in E2. subst s0. rewrite Eg in G1. inversion G1; subst g0.
           exists g1. split; [reflexivity|]. intros Hd. specialize (G2 Hd). unfold sits in *.
           destruct (slot_of kd0) as [sl0|] eqn:Esl0.
           ++ subst g1. destruct (opt_is (get_slot g sl) n) eqn:Em; [|exact G2].
              exfalso. apply opt_is_true in Em. pose proof (slots_ok_two g sl0 sl m n (SL s g Eg) G2 Em) as ->.
              rewrite Em in G2. congruence.
           ++ rewrite Hg1sub. exact G2.
        -- exists g0. split; assumption.
    + intros m. rewrite word_app. change (vsess (put_group st0 s g1) m) with (vsess st0 m).
      destruct (N.eq_dec m n) as [->|Hmn].
      * rewrite Hvn0, LG, Hvn. simpl conn_word. rewrite start_kind_slot.
        destruct (net_kind (kind_of_slot sl)); [|reflexivity].
        rewrite word_one. simpl. rewrite N.eqb_refl. reflexivity.
      * rewrite (Hvm m Hmn), LG. destruct (net_kind (kind_of_slot sl)); [|rewrite app_nil_r; reflexivity].
        rewrite word_one. simpl. assert (E : N.eqb n m = false) by (apply N.eqb_neq; congruence). rewrite E, app_nil_r. reflexivity.
  - (* no group: only possible for a publisher that needs none (customize) *)
    cbn [fst snd]. rewrite app_nil_r.
    assert (Hnet : net_kind (kind_of_slot sl) = false).
    { destruct (net_kind (kind_of_slot sl)) eqn:En; [|reflexivity]. exfalso.
      pose proof (SE n) as S. unfold sess_ok in S. rewrite Hvn in S. destruct S as [_ B].
      destruct (B eq_refl eq_refl En) as [g0 [G1 _]]. rewrite Eg in G1. discriminate. }
    constructor.
    + rewrite Hg0. assumption.
    + intros s' g0 H0. rewrite Hgg in H0. eauto.
    + intros s' g0 H0. rewrite Hgg in H0. destruct (EN s' g0 H0) as [E1 E2]. split.
      * intros sl' m Hm. rewrite Hvm; [apply E1; assumption|].
        intros ->. destruct (Hent s' g0 sl' n H0 Hm eq_refl) as [-> _]. rewrite Eg in H0. discriminate.
      * intros k m Hm. destruct (E2 k m Hm) as [kd [A B]]. exists kd. split; [assumption|].
        rewrite (Hvm m (Hsubs s' g0 k m H0 Hm)). assumption.
    + intros m. unfold sess_ok. destruct (N.eq_dec m n) as [->|Hmn].
      * rewrite Hvn0. split; [intros Hx; discriminate Hx|intros _ Hx; discriminate Hx].
      * rewrite (Hvm m Hmn). specialize (SE m). unfold sess_ok in SE.
        destruct (vsess st m) as [[[[kd0 s0] acc0] gone0]|]; [|exact I].
        destruct SE as [A B]. split; [assumption|]. intros H1 H2 H3. destruct (B H1 H2 H3) as [g0 [G1 G2]].
        exists g0. rewrite Hgg, Hd0. split; assumption.
    + intros m. destruct (N.eq_dec m n) as [->|Hmn].
      * rewrite Hvn0, LG, Hvn. simpl conn_word. rewrite start_kind_slot, Hnet. reflexivity.
      * rewrite (Hvm m Hmn). apply LG.
Qed.

Lemma in_remove_sub : forall k n k' m l, In (k', m) (remove_sub k n l) <-> In (k', m) l /\ ~ (k' = k /\ m = n).
Proof.
  intros. unfold remove_sub. rewrite filter_In. simpl. split.
  - intros [A B]. split; [assumption|]. intros [-> ->].
    assert (subk_eqb k k = true) by (destruct k; reflexivity). rewrite H, N.eqb_refl in B. discriminate.
  - intros [A B]. split; [assumption|]. destruct (subk_eqb k' k) eqn:E1; [|reflexivity].
    destruct (N.eqb m n) eqn:E2; [|reflexivity]. exfalso. apply B. apply N.eqb_eq in E2. split; [|assumption].
    destruct k', k; simpl in E1; try discriminate; reflexivity.
Qed.

(* ---- a subscriber leaves ---------------------------------------------------------------------------------- *)
Lemma inv_s_depart_sub : forall st st0 log kd k s n acc,
  INV_S st log -> subk_of kd = Some k -> vsess st n = Some (kd, s, acc, false) -> gone_of st st0 n ->
  INV_S (fst (depart_sub st0 k s n)) (log ++ snd (depart_sub st0 k s n)).
Proof.
  intros st st0 log kd k s n acc H Hk Hvn [Hg0 [Hd0 Hv0]].
  destruct H as [K SL EN SE LG].
  assert (Hacc : acc = true).
  { pose proof (SE n) as S. unfold sess_ok in S. rewrite Hvn in S. destruct S as [A _]. destruct acc; [reflexivity|]. specialize (A eq_refl). discriminate. }
  subst acc.
  assert (Hvn0 : vsess st0 n = Some (kd, s, true, true)) by (rewrite Hv0, N.eqb_refl, Hvn; reflexivity).
  assert (Hvm : forall m, m <> n -> vsess st0 m = vsess st m).
  { intros m Hm. rewrite Hv0. destruct (N.eqb m n) eqn:E; [apply N.eqb_eq in E; contradiction|reflexivity]. }
  assert (Hgg : forall s', get_group st0 s' = get_group st s') by (intros; apply get_group_same_groups; assumption).
  assert (Hent : forall s' g0 sl' m, get_group st s' = Some g0 -> get_slot g0 sl' = Some m -> m <> n).
  { intros s' g0 sl' m G0 Gs ->. destruct (EN s' g0 G0) as [E1 _]. specialize (E1 sl' n Gs). rewrite Hvn in E1.
    assert (kd = kind_of_slot sl') by congruence. subst kd. exact (subk_not_pub _ _ Hk). }
  assert (Hsubs : forall s' g0 k' m, get_group st s' = Some g0 -> In (k', m) (g_subs g0) -> m = n -> s' = s /\ k' = k).
  { intros s' g0 k' m G0 Gs ->. destruct (EN s' g0 G0) as [_ E2]. destruct (E2 k' n Gs) as [kd' [A B]]. rewrite Hvn in B.
    assert (kd' = kd) by congruence. subst kd'. split; congruence. }
  (* by the invariant the group exists *)
  pose proof (SE n) as S. unfold sess_ok in S. rewrite Hvn in S. destruct S as [_ B].
  destruct (B eq_refl eq_refl (subk_net _ _ Hk)) as [g [Eg _]]. clear B.
  unfold depart_sub. rewrite Hgg, Eg.
  set (g1 := g_set_subs g (remove_sub k n (g_subs g))).
  assert (Hgg1 : forall s', get_group (put_group st0 s g1) s' = if N.eqb s' s then Some g1 else get_group st s').
  { intros s'. rewrite get_group_put, Hgg. reflexivity. }
  cbn [fst snd]. constructor.
  - simpl. rewrite Hg0. apply NoDup_update. assumption.
  - intros s' g0 H0. rewrite Hgg1 in H0. destruct (N.eqb s' s).
    + inversion H0; subst g0. eapply slots_ok_slots; [|exact (SL s g Eg)]. reflexivity.
    + eauto.
  - intros s' g0 H0. rewrite Hgg1 in H0. destruct (N.eqb s' s) eqn:E.
    + inversion H0; subst g0. apply N.eqb_eq in E. subst s'. destruct (EN s g Eg) as [E1 E2]. split.
      * intros sl' m Hm. change (get_slot g1 sl') with (get_slot g sl') in Hm.
        change (vsess (put_group st0 s g1) m) with (vsess st0 m). rewrite (Hvm m (Hent s g sl' m Eg Hm)). apply E1. assumption.
      * intros k' m Hm. simpl in Hm. apply in_remove_sub in Hm. destruct Hm as [Hm Hne].
        destruct (E2 k' m Hm) as [kd' [A B]]. exists kd'. split; [assumption|].
        change (vsess (put_group st0 s g1) m) with (vsess st0 m). rewrite Hvm; [assumption|].
        intros ->. apply Hne. destruct (Hsubs s g k' n Eg Hm eq_refl) as [_ ->]. split; reflexivity.
    + destruct (EN s' g0 H0) as [E1 E2]. split.
      * intros sl' m Hm. change (vsess (put_group st0 s g1) m) with (vsess st0 m). rewrite (Hvm m (Hent s' g0 sl' m H0 Hm)). apply E1. assumption.
      * intros k' m Hm. destruct (E2 k' m Hm) as [kd' [A B]]. exists kd'. split; [assumption|].
        change (vsess (put_group st0 s g1) m) with (vsess st0 m). rewrite Hvm; [assumption|].
        intros ->. destruct (Hsubs s' g0 k' n H0 Hm eq_refl) as [-> _]. rewrite N.eqb_refl in E. discriminate.
  - intros m. unfold sess_ok. change (vsess (put_group st0 s g1) m) with (vsess st0 m).
    destruct (N.eq_dec m n) as [->|Hmn].
    + rewrite Hvn0. split; [intros Hx; discriminate Hx|intros _ Hx; discriminate Hx].
    + rewrite (Hvm m Hmn). specialize (SE m). unfold sess_ok in SE.
      destruct (vsess st m) as [[[[kd0 s0] acc0] gone0]|] eqn:Evm; [|exact I].
      destruct SE as [A B]. split; [assumption|]. intros H1 H2 H3. destruct (B H1 H2 H3) as [g0 [G1 G2]].
      rewrite Hgg1. change (st_disposed (put_group st0 s g1)) with (st_disposed st0). rewrite Hd0.
      destruct (N.eqb s0 s) eqn:E2.
      * apply N.eqb_eq in E2. subst s0. rewrite Eg in G1. inversion G1; subst g0.
        exists g1. split; [reflexivity|]. intros Hd. specialize (G2 Hd). unfold sits in *.
        destruct (slot_of kd0) as [sl0|]; [exact G2|]. destruct (subk_of kd0) as [k0|]; [|exact G2].
        simpl. apply in_remove_sub. split; [exact G2|]. intros [_ Hx]. contradiction.
      * exists g0. split; assumption.
  - intros m. rewrite word_app, word_one. simpl who_eqb. change (vsess (put_group st0 s g1) m) with (vsess st0 m).
    destruct (N.eq_dec m n) as [->|Hmn].
    + rewrite N.eqb_refl, Hvn0, LG, Hvn. simpl conn_word. rewrite (subk_start_kind _ _ Hk). reflexivity.
    + assert (E : N.eqb n m = false) by (apply N.eqb_neq; congruence). rewrite E, app_nil_r, (Hvm m Hmn). apply LG.
Qed.

(* ---- ServerManager.Dispose ------------------------------------------------------------------------------------ *)
Lemma lookup_map_snd : forall A B (f : A -> B) l k, lookup k (map (fun kv => (fst kv, f (snd kv))) l) = option_map f (lookup k l).
Proof.
  induction l as [|[k' v] t IH]; simpl; intros k; [reflexivity|]. destruct (N.eqb k k'); [reflexivity|apply IH].
Qed.

Lemma inv_s_dispose : forall st st' log,
  INV_S st log ->
  st_groups st' = map (fun sg => (fst sg, dispose_group (snd sg))) (st_groups st) ->
  (forall n, vsess st' n = vsess st n) -> st_disposed st' = true ->
  INV_S st' log.
Proof.
  intros st st' log H Hg Hv Hd. destruct H as [K SL EN SE LG].
  assert (Hgg : forall s, get_group st' s = option_map dispose_group (get_group st s)).
  { intros s. unfold get_group. rewrite Hg. apply lookup_map_snd. }
  constructor.
  - rewrite Hg, map_map. simpl. assumption.
  - intros s g Hs. rewrite Hgg in Hs. destruct (get_group st s) as [g0|] eqn:E; [|discriminate]. inversion Hs; subst g.
    apply slots_ok_dispose_group. eauto.
  - intros s g Hs. rewrite Hgg in Hs. destruct (get_group st s) as [g0|] eqn:E; [|discriminate]. inversion Hs; subst g. split.
    + intros sl n Hn. unfold dispose_group in Hn. rewrite get_slot_del_in in Hn. discriminate.
    + intros k n Hn. simpl in Hn. destruct Hn.
  - intros n. specialize (SE n). unfold sess_ok in *. rewrite Hv.
    destruct (vsess st n) as [[[[kd s0] acc] gone]|]; [|exact I].
    destruct SE as [A B]. split; [assumption|]. intros H1 H2 H3. destruct (B H1 H2 H3) as [g0 [G1 _]].
    exists (dispose_group g0). rewrite Hgg, G1. split; [reflexivity|]. intros Hx. rewrite Hd in Hx. discriminate.
  - intros n. rewrite Hv. apply LG.
Qed.

(* ---- many groups change at once (tick) -------------------------------------------------------------------------- *)
Lemma inv_s_regroup : forall st st' log,
  INV_S st log -> st_disposed st = false ->
  NoDup (map fst (st_groups st')) -> (forall n, vsess st' n = vsess st n) -> st_disposed st' = st_disposed st ->
  (forall s g', get_group st' s = Some g' ->
     exists g, get_group st s = Some g /\ slots_ok g' /\ g_subs g' = g_subs g /\
               ((forall sl, get_slot g' sl = get_slot g sl) \/
                ((forall sl, get_slot g' sl = None) /\ (is_some (g_ps g) = true \/ has_pull g = true)))) ->
  (forall s g, get_group st s = Some g -> get_group st' s = None -> has_in g = false /\ g_subs g = []) ->
  INV_S st' log.
Proof.
  intros st st' log H Hnd K' Hv Hd Hsome Hnone. destruct H as [K SL EN SE LG]. constructor.
  - assumption.
  - intros s g' Hs. destruct (Hsome s g' Hs) as [g [A [B _]]]. assumption.
  - intros s g' Hs. destruct (Hsome s g' Hs) as [g [A [B [C D]]]]. destruct (EN s g A) as [E1 E2]. split.
    + intros sl n Hn. rewrite Hv. apply E1. destruct D as [D|[D _]]; [rewrite <- D; assumption|rewrite D in Hn; discriminate].
    + intros k n Hn. rewrite C in Hn. destruct (E2 k n Hn) as [kd [X Y]]. exists kd. rewrite Hv. split; assumption.
  - intros n. specialize (SE n). unfold sess_ok in *. rewrite Hv.
    destruct (vsess st n) as [[[[kd s0] acc] gone]|]; [|exact I].
    destruct SE as [A B]. split; [assumption|]. intros H1 H2 H3. destruct (B H1 H2 H3) as [g0 [G1 G2]].
    specialize (G2 Hnd). destruct (get_group st' s0) as [g'|] eqn:Eg'.
    + destruct (Hsome s0 g' Eg') as [g [X [Y [Z W]]]]. rewrite G1 in X. inversion X; subst g.
      exists g'. split; [reflexivity|]. intros _. unfold sits in *. destruct (slot_of kd) as [sl|] eqn:Esl.
      * destruct W as [W|[W Hocc]]; [rewrite W; exact G2|]. exfalso.
        destruct (net_pub_slot _ _ Esl H3) as [->| ->]; destruct Hocc as [Hp|Hp].
        -- destruct (g_ps g0) as [a|] eqn:Eps; [|discriminate]. pose proof (slots_ok_two g0 PsRtmp PsPs n a (SL s0 g0 G1) G2 Eps). discriminate.
        -- rewrite (slots_ok_pull_nopub g0 PsRtmp (SL s0 g0 G1) Hp) in G2. discriminate.
        -- destruct (g_ps g0) as [a|] eqn:Eps; [|discriminate]. pose proof (slots_ok_two g0 PsRtsp PsPs n a (SL s0 g0 G1) G2 Eps). discriminate.
        -- rewrite (slots_ok_pull_nopub g0 PsRtsp (SL s0 g0 G1) Hp) in G2. discriminate.
      * rewrite Z. exact G2.
    + exfalso. destruct (Hnone s0 g0 G1 Eg') as [X Y]. unfold sits in G2. destruct (slot_of kd) as [sl|].
      * rewrite (has_in_false_slot g0 sl X) in G2. discriminate.
      * rewrite Y in G2. destruct (subk_of kd); destruct G2.
  - intros n. rewrite Hv. apply LG.
Qed.

Lemma tick_groups_keys : forall fx now l atts cnt k,
  In k (map fst (fst (fst (fst (tick_groups fx now l atts cnt))))) -> In k (map fst l).
Proof.
  intros fx now l. induction l as [|[s g] t IH]; intros atts cnt k H; [simpl in H; contradiction|].
  cbn [tick_groups] in H. destruct (inactive g now).
  - right. eapply IH. exact H.
  - destruct (tick_group fx s g now) as [[[g1 started] fin] ns].
    match type of H with context[let '(a1, c1) := ?X in _] => destruct X as [atts1 cnt1] end.
    match type of H with context[tick_groups fx now t ?a ?c] => specialize (IH a c k); destruct (tick_groups fx now t a c) as [[[t1 a3] c3] ns2] end.
    simpl in *. destruct H as [H|H]; [left; assumption|right; apply IH; assumption].
Qed.

Lemma tick_groups_nodup : forall fx now l atts cnt, NoDup (map fst l) ->
  NoDup (map fst (fst (fst (fst (tick_groups fx now l atts cnt))))).
Proof.
  intros fx now l. induction l as [|[s g] t IH]; intros atts cnt H; [constructor|].
  inversion H; subst. cbn [tick_groups]. destruct (inactive g now); [apply IH; assumption|].
  destruct (tick_group fx s g now) as [[[g1 started] fin] ns].
  match goal with |- context[let '(a1, c1) := ?X in _] => destruct X as [atts1 cnt1] end.
  match goal with |- context[tick_groups fx now t ?a ?c] =>
    pose proof (IH a c H3) as IH1; pose proof (tick_groups_keys fx now t a c s) as Hk; destruct (tick_groups fx now t a c) as [[[t1 a3] c3] ns2] end.
  simpl in *. constructor; [|assumption]. intros Hin. apply H2. apply Hk. assumption.
Qed.

Lemma tick_groups_lookup : forall fx now l atts cnt s, NoDup (map fst l) ->
  lookup s (fst (fst (fst (tick_groups fx now l atts cnt)))) =
  match lookup s l with
  | Some g => if inactive g now then None else Some (fst (fst (fst (tick_group fx s g now))))
  | None => None
  end.
Proof.
  intros fx now l. induction l as [|[s0 g0] t IH]; intros atts cnt s H; [reflexivity|].
  inversion H; subst. cbn [tick_groups lookup].
  destruct (inactive g0 now) eqn:Ei.
  - rewrite IH by assumption. destruct (N.eqb s s0) eqn:E; [|reflexivity].
    apply N.eqb_eq in E. subst s0. apply lookup_none_keys in H2. rewrite H2, Ei. reflexivity.
  - destruct (tick_group fx s0 g0 now) as [[[g1 started] fin] ns] eqn:Et.
    match goal with |- context[let '(a1, c1) := ?X in _] => destruct X as [atts1 cnt1] end.
    match goal with |- context[tick_groups fx now t ?a ?c] => pose proof (IH a c s H3) as IH1; destruct (tick_groups fx now t a c) as [[[t1 a3] c3] ns2] end.
    simpl in *. destruct (N.eqb s s0) eqn:E.
    + apply N.eqb_eq in E. subst s0. rewrite Ei, Et. reflexivity.
    + exact IH1.
Qed.

(* what Group.Tick (and the Del of a pull it disposed) does to the part family S looks at *)
Lemma tick_group_shape : forall s g now,
  let g' := fst (fst (fst (tick_group fixed_tree s g now))) in
  slots_ok g -> slots_ok g' /\ g_subs g' = g_subs g /\
  ((forall sl, get_slot g' sl = get_slot g sl) \/ ((forall sl, get_slot g' sl = None) /\ has_pull g = true)).
Proof.
  intros s g now g' Hok. subst g'. unfold tick_group.
  pose proof (slots_tick_pull g now) as Hsl.
  assert (Hsh : shape (fst (fst (tick_pull g now))) = shape g).
  { unfold tick_pull. destruct (has_sub g); destruct (should_auto_stop _ now); simpl; try reflexivity;
      match goal with |- context[pull_if_needed ?x now] => unfold pull_if_needed; destruct (should_start x now) as [[|] r] end; reflexivity. }
  destruct (tick_pull g now) as [[g1 started] fin]. simpl in Hsl, Hsh.
  set (g2 := start_push g1).
  assert (Hsh2 : shape g2 = shape g) by (subst g2; rewrite shape_start_push; assumption).
  assert (Hsl2 : slots g2 = slots g) by (subst g2; rewrite slots_start_push; assumption).
  assert (Hok2 : slots_ok g2) by (eapply slots_ok_slots; eassumption).
  destruct fin as [i|]; cbn [fst].
  - unfold pull_del. cbn [fx_f10 fixed_tree].
    destruct (opt_is (pp_rtmp (g_pp g2)) i || opt_is (pp_rtsp (g_pp g2)) i) eqn:Ea.
    + split; [|split].
      * unfold slots_ok. rewrite occupied_del_in_nopull; [lia|reflexivity].
      * simpl. apply (shape_subs _ _ Hsh2).
      * right. split; [intros sl; apply get_slot_del_in|].
        unfold slots in Hsl2. inversion Hsl2 as [[A B C D E F]]. unfold has_pull. rewrite <- E, <- F.
        apply orb_true_iff in Ea. destruct Ea as [Ea|Ea]; apply opt_is_true in Ea; rewrite Ea; simpl; [reflexivity|apply orb_true_r].
    + split; [|split].
      * eapply slots_ok_slots; [|exact Hok2]. reflexivity.
      * simpl. apply (shape_subs _ _ Hsh2).
      * left. intros sl. change (get_slot (g_set_pp g2 (pp_set_run (g_pp g2) false (pp_rtmp (g_pp g2)) (pp_rtsp (g_pp g2)))) sl) with (get_slot g2 sl).
        apply shape_get_slot. assumption.
  - split; [assumption|]. split; [apply (shape_subs _ _ Hsh2)|]. left. intros sl. apply shape_get_slot. assumption.
Qed.

(* ---- family S: every step ------------------------------------------------------------------------------------------ *)
Lemma get_or_create_sess : forall cf st s, st_sess (fst (get_or_create cf st s)) = st_sess st.
Proof. intros. unfold get_or_create. destruct (get_group st s); reflexivity. Qed.

Lemma fresh_same_sess : forall st st' n, st_sess st' = st_sess st -> fresh st' n = fresh st n.
Proof. intros. unfold fresh. rewrite H. reflexivity. Qed.

Lemma equiv_S_refl_groups : forall st st', st_groups st' = st_groups st -> st_sess st' = st_sess st ->
  st_disposed st' = st_disposed st -> equiv_S st st'.
Proof. intros st st' A B C. split; [assumption|]. split; [|assumption]. intros n. unfold vsess. rewrite B. reflexivity. Qed.

Lemma inv_s_event_admit_pub : forall cf st log sl s n,
  INV_S st log -> fresh st n = true ->
  INV_S (add_sess (fst (fst (admit_pub cf st sl s n true)))
                  (if snd (fst (admit_pub cf st sl s n true))
                   then admitted_sess n (kind_of_slot sl) s (Some (g_id (snd (admit_pub cf st sl s n true))))
                   else refused_sess n (kind_of_slot sl) s))
        (log ++ if snd (fst (admit_pub cf st sl s n true)) && net_kind (kind_of_slot sl)
                then [note NPubStart (WConn n) (snd (admit_pub cf st sl s n true))] else []).
Proof.
  intros cf st log sl s n H Hf. unfold admit_pub.
  pose proof (get_or_create_sess cf st s) as Hss.
  destruct (get_or_create cf st s) as [st1 g] eqn:Eg. simpl in Hss.
  destruct (inv_s_get_or_create _ _ _ _ _ _ H Eg) as [H1 [Hg1 _]].
  assert (Hf1 : fresh st1 n = true) by (rewrite (fresh_same_sess _ _ _ Hss); assumption).
  cbn [andb]. destruct (has_in g) eqn:Hin; cbn [fst snd].
  - rewrite app_nil_r. apply inv_s_add_refused; assumption.
  - unfold next_pipe. cbn [fst snd andb].
    assert (H2 : INV_S (st_set_pipe st1 (st_pipe st1 + 1)) log).
    { eapply inv_s_equiv; [|exact H1]. apply equiv_S_refl_groups; reflexivity. }
    apply (inv_s_admit_pub (st_set_pipe st1 (st_pipe st1 + 1)) log s g sl n (st_pipe st1 + 1)); assumption.
Qed.

Lemma pull_if_needed_st_S : forall st s g st1 g1 o r,
  pull_if_needed_st st s g = (st1, g1, o, r) ->
  equiv_S st st1 /\ st_sess st1 = st_sess st /\ shape g1 = shape g /\ slots g1 = slots g.
Proof.
  intros st s g st1 g1 o r E. unfold pull_if_needed_st in E.
  pose proof (slots_pull_if_needed g (st_now st)) as Hsl.
  assert (Hsh : shape (fst (fst (pull_if_needed g (st_now st)))) = shape g).
  { unfold pull_if_needed. destruct (should_start g (st_now st)) as [[|] r0]; reflexivity. }
  destruct (pull_if_needed g (st_now st)) as [[g2 started] r2]. simpl in *.
  destruct started; [unfold alloc_att in E|]; inversion E; subst; (split; [apply equiv_S_refl_groups; reflexivity|]); repeat split; assumption.
Qed.

Lemma inv_s_event_admit_sub : forall cf st log kd k s n pull,
  INV_S st log -> fresh st n = true -> subk_of kd = Some k ->
  match admit_sub cf st k s n pull with
  | None => True
  | Some (st1, g) => INV_S (add_sess st1 (admitted_sess n kd s None)) (log ++ [note NSubStart (WConn n) g])
  end.
Proof.
  intros cf st log kd k s n pull H Hf Hk. unfold admit_sub.
  pose proof (get_or_create_sess cf st s) as Hss.
  destruct (get_or_create cf st s) as [st1 g] eqn:Eg. simpl in Hss.
  destruct (inv_s_get_or_create _ _ _ _ _ _ H Eg) as [H1 [Hg1 _]].
  assert (Hf1 : fresh st1 n = true) by (rewrite (fresh_same_sess _ _ _ Hss); assumption).
  destruct (g_disposed g); [exact I|].
  set (g0 := g_set_subs g (g_subs g ++ [(k, n)])).
  destruct pull.
  - destruct (pull_if_needed_st st1 s g0) as [[[st2 g2] o] r] eqn:Ep.
    destruct (pull_if_needed_st_S _ _ _ _ _ _ _ Ep) as [Heq [Hs2 [Hsh Hsl]]].
    pose proof (inv_s_equiv _ _ _ Heq H1) as H2.
    apply (inv_s_admit_sub st2 log s g g2 kd k n); try assumption.
    + destruct Heq as [Gq _]. rewrite (get_group_same_groups _ _ s Gq). assumption.
    + rewrite (fresh_same_sess _ _ _ Hs2). assumption.
    + intros sl. rewrite (shape_get_slot _ _ sl Hsh). reflexivity.
    + rewrite (shape_subs _ _ Hsh). reflexivity.
    + eapply slots_ok_slots; [exact Hsl|]. eapply slots_ok_slots; [|exact (inv_slots _ _ H1 s g Hg1)]. reflexivity.
  - apply (inv_s_admit_sub st1 log s g g0 kd k n); try assumption; try reflexivity.
    eapply slots_ok_slots; [|exact (inv_slots _ _ H1 s g Hg1)]. reflexivity.
Qed.

Lemma inv_s_log_other : forall st log ns, INV_S st log -> (forall n, word ns (WConn n) = []) -> INV_S st (log ++ ns).
Proof.
  intros st log ns H Hn. destruct H as [K SL EN SE LG]. constructor; try assumption.
  intros n. rewrite word_app, Hn, app_nil_r. apply LG.
Qed.

Lemma inv_s_nil : forall st log, INV_S st log -> INV_S st (log ++ []).
Proof. intros. rewrite app_nil_r. assumption. Qed.

Lemma attached_has_pull : forall g i, opt_is (pp_rtmp (g_pp g)) i || opt_is (pp_rtsp (g_pp g)) i = true -> has_pull g = true.
Proof.
  intros g i H. unfold has_pull. apply orb_true_iff in H. destruct H as [H|H]; apply opt_is_true in H; rewrite H; simpl; [reflexivity|apply orb_true_r].
Qed.

Lemma inv_s_pull_del : forall st log s g i,
  INV_S st log -> get_group st s = Some g -> INV_S (put_group st s (pull_del fixed_tree g i)) log.
Proof.
  intros st log s g i H Hg. unfold pull_del. cbn [fx_f10 fixed_tree].
  destruct (opt_is (pp_rtmp (g_pp g)) i || opt_is (pp_rtsp (g_pp g)) i) eqn:Ea.
  - apply (inv_s_put_clear st log s g); try assumption.
    + right. apply attached_has_pull with i. assumption.
    + intros sl. apply get_slot_del_in.
    + reflexivity.
    + unfold slots_ok. rewrite occupied_del_in_nopull; [lia|reflexivity].
  - apply (inv_s_put_shape st log s g); try assumption; [reflexivity|].
    eapply slots_ok_slots; [|exact (inv_slots _ _ H s g Hg)]. reflexivity.
Qed.

Lemma update_update : forall A k (v1 v2 : A) l, update k v2 (update k v1 l) = update k v2 l.
Proof.
  induction l as [|[k' v'] t IH]; simpl.
  - rewrite N.eqb_refl. reflexivity.
  - destruct (N.eqb k k') eqn:E; simpl.
    + rewrite N.eqb_refl. reflexivity.
    + rewrite E, IH. reflexivity.
Qed.

Lemma inv_s_stop_and_del : forall st log s g,
  INV_S st log -> get_group st s = Some g ->
  let '(g1, a, ns) := stop_and_del fixed_tree s (g_set_pp g (pp_set_api (g_pp g) false)) in
  INV_S (finish_att (put_group st s g1) s a) (log ++ ns).
Proof.
  intros st log s g H Hg. unfold stop_and_del, stop_pull.
  set (g1 := g_set_pp (g_set_pp g (pp_set_api (g_pp g) false)) _).
  assert (H1 : INV_S (put_group st s g1) log).
  { apply (inv_s_put_shape st log s g); try assumption; [reflexivity|].
    eapply slots_ok_slots; [|exact (inv_slots _ _ H s g Hg)]. reflexivity. }
  assert (Hg1 : get_group (put_group st s g1) s = Some g1) by (rewrite get_group_put, N.eqb_refl; reflexivity).
  match goal with |- context[match ?x with Some a => Some a | None => ?y end] => destruct (match x with Some a => Some a | None => y end) as [i|] end.
  - cbv beta iota. apply inv_s_log_other; [|intros n; reflexivity].
    eapply inv_s_equiv with (st := put_group (put_group st s g1) s (pull_del fixed_tree g1 i)).
    + apply equiv_S_refl_groups; try reflexivity. unfold finish_att, set_att, put_group. simpl.
      symmetry. apply update_update.
    + apply inv_s_pull_del; assumption.
  - cbv beta iota. rewrite app_nil_r. exact H1.
Qed.

Lemma vsess_find : forall st n x, find_sess n (st_sess st) = Some x -> vsess st n = Some (s_kind x, s_stream x, s_acc x, s_gone x).
Proof. intros st n x H. unfold vsess, view. rewrite H. reflexivity. Qed.

Lemma equiv_S_close : forall st n, equiv_S st (close_sess st n).
Proof. intros. split; [reflexivity|]. split; [|reflexivity]. intros m. unfold vsess, close_sess. simpl. apply view_closed. Qed.

Lemma word_conn_notes_att : forall (ns : list notif), (forall x, In x ns -> exists s i, n_who x = WAtt s i) -> forall n, word ns (WConn n) = [].
Proof.
  induction ns as [|x t IH]; intros H n; [reflexivity|].
  unfold word. simpl. destruct (H x (or_introl eq_refl)) as [s [i E]]. rewrite E. simpl.
  apply IH. intros y Hy. apply H. right. assumption.
Qed.

Lemma tick_groups_notes : forall fx now l atts cnt x,
  In x (snd (tick_groups fx now l atts cnt)) -> exists s i, n_who x = WAtt s i.
Proof.
  intros fx now l. induction l as [|[s g] t IH]; intros atts cnt x H; [simpl in H; contradiction|].
  cbn [tick_groups] in H. destruct (inactive g now); [eapply IH; exact H|].
  unfold tick_group in H. destruct (tick_pull g now) as [[g1 started] fin].
  destruct fin as [i|];
  match type of H with context[let '(a1, c1) := ?X in _] => destruct X as [atts1 cnt1] end;
  match type of H with context[tick_groups fx now t ?a ?c] => specialize (IH a c x); destruct (tick_groups fx now t a c) as [[[t1 a3] c3] ns2] end;
  simpl in H.
  - destruct H as [H|H]; [subst x; exists s, i; reflexivity|apply IH; assumption].
  - apply IH; assumption.
Qed.

Theorem inv_s_step : forall cf st log e, INV_S st log ->
  INV_S (fst (fst (step fixed_tree cf st e))) (log ++ snd (step fixed_tree cf st e)).
Proof.
  intros cf st log e H. destruct e; cbn [step].
  - (* ERtmpPub *)
    destruct (fresh st n) eqn:Hf; cbn [negb fst snd]; [|apply inv_s_nil; assumption].
    destruct deny; cbn [fst snd]; [apply inv_s_nil; apply inv_s_add_refused; assumption|].
    pose proof (inv_s_event_admit_pub cf st log PsRtmp s n H Hf) as Ha.
    destruct (admit_pub cf st PsRtmp s n true) as [[st1 ok] g]. destruct ok; cbn [fst snd andb kind_of_slot net_kind] in *; exact Ha.
  - (* ERtmpSub *)
    destruct (fresh st n) eqn:Hf; cbn [negb fst snd]; [|apply inv_s_nil; assumption].
    destruct deny; cbn [fst snd]; [apply inv_s_nil; apply inv_s_add_refused; assumption|].
    pose proof (inv_s_event_admit_sub cf st log KRtmpSub SkRtmp s n true H Hf eq_refl) as Ha.
    destruct (admit_sub cf st SkRtmp s n true) as [[st1 g]|]; cbn [fst snd]; [exact Ha|apply inv_s_nil; assumption].
  - (* ERtspPub *)
    destruct (fresh st n) eqn:Hf; cbn [negb fst snd]; [|apply inv_s_nil; assumption].
    destruct deny; cbn [fst snd fx_f11 fixed_tree]; [apply inv_s_nil; apply inv_s_add_refused; assumption|].
    pose proof (inv_s_event_admit_pub cf st log PsRtsp s n H Hf) as Ha.
    destruct (admit_pub cf st PsRtsp s n true) as [[st1 ok] g]. destruct ok; cbn [fst snd andb kind_of_slot net_kind fx_f11 fixed_tree] in *; exact Ha.
  - (* ERtspSub *)
    destruct (fresh st n) eqn:Hf; cbn [negb fst snd]; [|apply inv_s_nil; assumption].
    destruct deny; cbn [fst snd fx_f11 fixed_tree]; [apply inv_s_nil; apply inv_s_add_refused; assumption|].
    pose proof (inv_s_event_admit_sub cf st log KRtspSub SkRtsp s n false H Hf eq_refl) as Ha.
    destruct (admit_sub cf st SkRtsp s n false) as [[st1 g]|]; cbn [fst snd]; [exact Ha|apply inv_s_nil; assumption].
  - (* ERtspPlay *)
    destruct (find_sess n (st_sess st)) as [x|]; cbn [fst snd]; [|apply inv_s_nil; assumption].
    destruct (s_kind x); cbn [fst snd]; try (apply inv_s_nil; assumption).
    destruct (s_gone x || s_closed x); cbn [fst snd]; [apply inv_s_nil; assumption|].
    destruct (get_or_create cf st (s_stream x)) as [st1 g] eqn:Eg.
    destruct (inv_s_get_or_create _ _ _ _ _ _ H Eg) as [H1 [Hg1 _]].
    destruct (pull_if_needed_st st1 (s_stream x) g) as [[[st2 g2] o] r] eqn:Ep.
    destruct (pull_if_needed_st_S _ _ _ _ _ _ _ Ep) as [Heq [Hs2 [Hsh Hsl]]].
    cbn [fst snd]. apply inv_s_nil. apply (inv_s_put_shape st2 log (s_stream x) g g2).
    + eapply inv_s_equiv; eassumption.
    + destruct Heq as [Gq _]. rewrite (get_group_same_groups _ _ _ Gq). assumption.
    + assumption.
    + eapply slots_ok_slots; [exact Hsl|exact (inv_slots _ _ H1 _ g Hg1)].
  - (* EFlvSub *)
    destruct (fresh st n) eqn:Hf; cbn [negb fst snd]; [|apply inv_s_nil; assumption].
    destruct deny; cbn [fst snd]; [apply inv_s_nil; apply inv_s_add_refused; assumption|].
    pose proof (inv_s_event_admit_sub cf st log KFlvSub SkFlv s n true H Hf eq_refl) as Ha.
    destruct (admit_sub cf st SkFlv s n true) as [[st1 g]|]; cbn [fst snd]; [exact Ha|apply inv_s_nil; assumption].
  - (* ETsSub *)
    destruct (fresh st n) eqn:Hf; cbn [negb fst snd]; [|apply inv_s_nil; assumption].
    destruct deny; cbn [fst snd]; [apply inv_s_nil; apply inv_s_add_refused; assumption|].
    pose proof (inv_s_event_admit_sub cf st log KTsSub SkTs s n true H Hf eq_refl) as Ha.
    destruct (admit_sub cf st SkTs s n true) as [[st1 g]|]; cbn [fst snd]; [exact Ha|apply inv_s_nil; assumption].
  - (* ECustPub *)
    destruct (fresh st n) eqn:Hf; cbn [negb fst snd]; [|apply inv_s_nil; assumption].
    pose proof (inv_s_event_admit_pub cf st log PsCust s n H Hf) as Ha.
    destruct (admit_pub cf st PsCust s n true) as [[st1 ok] g]. destruct ok; cbn [fst snd andb kind_of_slot net_kind] in *; exact Ha.
  - (* EPsPub *)
    destruct (fresh st n) eqn:Hf; cbn [negb fst snd]; [|apply inv_s_nil; assumption].
    cbn [fx_f09 fixed_tree].
    pose proof (inv_s_event_admit_pub cf st log PsPs s n H Hf) as Ha.
    destruct (admit_pub cf st PsPs s n true) as [[st1 ok] g]. destruct ok; cbn [fst snd andb kind_of_slot net_kind] in *;
      [destruct listen; cbn [fst snd]|]; try exact Ha.
    (* Listen failed: the state of a refusal *)
    pose proof (get_or_create_sess cf st s) as Hss.
    destruct (get_or_create cf st s) as [st0 g0] eqn:E0. cbn [fst] in *.
    destruct (inv_s_get_or_create _ _ _ _ _ _ H E0) as [H0 _].
    apply inv_s_nil. apply inv_s_add_refused; [exact H0|]. unfold fresh in *. rewrite Hss. exact Hf.
  - (* EGone *)
    destruct (find_sess n (st_sess st)) as [x|] eqn:Ex; cbn [fst snd]; [|apply inv_s_nil; assumption].
    destruct (s_gone x) eqn:Egone; cbn [fst snd]; [apply inv_s_nil; assumption|].
    pose proof (vsess_find _ _ _ Ex) as Hv. rewrite Egone in Hv.
    destruct (s_kind x) eqn:Ek; cbn [fst snd]; try (apply inv_s_nil; assumption).
    + pose proof (inv_s_depart_pub st (gone_sess st n) log PsRtmp (s_stream x) n (s_acc x) H Hv (gone_of_gone_sess st n)) as Hd.
      cbn [kind_of_slot net_kind] in Hd. destruct (depart_pub _ _ _ _ _) as [st1 ns]. exact Hd.
    + pose proof (inv_s_depart_sub st (gone_sess st n) log KRtmpSub SkRtmp (s_stream x) n (s_acc x) H eq_refl Hv (gone_of_gone_sess st n)) as Hd.
      destruct (depart_sub _ _ _ _) as [st1 ns]. exact Hd.
    + pose proof (inv_s_depart_pub st (gone_sess st n) log PsRtsp (s_stream x) n (s_acc x) H Hv (gone_of_gone_sess st n)) as Hd.
      cbn [kind_of_slot net_kind] in Hd. destruct (depart_pub _ _ _ _ _) as [st1 ns]. exact Hd.
    + pose proof (inv_s_depart_sub st (gone_sess st n) log KRtspSub SkRtsp (s_stream x) n (s_acc x) H eq_refl Hv (gone_of_gone_sess st n)) as Hd.
      destruct (depart_sub _ _ _ _) as [st1 ns]. exact Hd.
    + pose proof (inv_s_depart_sub st (close_sess (gone_sess st n) n) log KFlvSub SkFlv (s_stream x) n (s_acc x) H eq_refl Hv (gone_of_close_gone st n)) as Hd.
      destruct (depart_sub _ _ _ _) as [st1 ns]. exact Hd.
    + pose proof (inv_s_depart_sub st (close_sess (gone_sess st n) n) log KTsSub SkTs (s_stream x) n (s_acc x) H eq_refl Hv (gone_of_close_gone st n)) as Hd.
      destruct (depart_sub _ _ _ _) as [st1 ns]. exact Hd.
    + cbn [fx_f26 fixed_tree andb].
      match goal with |- context[if ?c then close_sess st n else st] => destruct c end.
      * pose proof (inv_s_depart_pub st (gone_sess (close_sess st n) n) log PsCust (s_stream x) n (s_acc x) H Hv (gone_of_gone_close st n)) as Hd.
        cbn [kind_of_slot net_kind] in Hd. destruct (depart_pub _ _ _ _ _) as [st1 ns]. exact Hd.
      * pose proof (inv_s_depart_pub st (gone_sess st n) log PsCust (s_stream x) n (s_acc x) H Hv (gone_of_gone_sess st n)) as Hd.
        cbn [kind_of_slot net_kind] in Hd. destruct (depart_pub _ _ _ _ _) as [st1 ns]. exact Hd.
  - (* EKick *)
    destruct (get_group st s) as [g|] eqn:Eg; cbn [fst snd]; [|apply inv_s_nil; assumption].
    unfold kick_group. destruct t as [n|s' i].
    + destruct (find_sess n (st_sess st)) as [x|]; cbn [fst snd]; [|apply inv_s_nil; assumption].
      destruct (s_kind x); cbn [fst snd]; try (apply inv_s_nil; assumption);
        match goal with |- context[if ?c then _ else _] => destruct c eqn:Ec end; cbn [fst snd];
        try (apply inv_s_nil; assumption);
        try (apply inv_s_nil; eapply inv_s_equiv; [apply equiv_S_close|assumption]).
      apply inv_s_nil. unfold ps_del. rewrite Ec.
      apply (inv_s_put_clear (close_sess st n) log s g).
      * eapply inv_s_equiv; [apply equiv_S_close|assumption].
      * assumption.
      * left. apply opt_is_true in Ec. rewrite Ec. reflexivity.
      * intros sl. apply get_slot_del_in.
      * reflexivity.
      * apply slots_ok_del_in. exact (inv_slots _ _ H s g Eg).
    + destruct (_ && _); cbn [fst snd]; [|apply inv_s_nil; assumption].
      pose proof (inv_s_stop_and_del st log s g H Eg) as Hs.
      destruct (stop_and_del fixed_tree s _) as [[g1 a] ns]. cbn [fst snd]. exact Hs.
  - (* EStartPull *)
    destruct (get_or_create cf st s) as [st1 g] eqn:Eg.
    destruct (inv_s_get_or_create _ _ _ _ _ _ H Eg) as [H1 [Hg1 _]].
    set (g0 := g_set_pp g (pp_set_req (g_pp g) rtmp retry autostop)).
    destruct (pull_if_needed_st st1 s g0) as [[[st2 g2] o] r] eqn:Ep.
    destruct (pull_if_needed_st_S _ _ _ _ _ _ _ Ep) as [Heq [Hs2 [Hsh Hsl]]].
    cbn [fst snd]. apply inv_s_nil. apply (inv_s_put_shape st2 log s g g2).
    + eapply inv_s_equiv; eassumption.
    + destruct Heq as [Gq _]. rewrite (get_group_same_groups _ _ _ Gq). assumption.
    + rewrite Hsh. reflexivity.
    + eapply slots_ok_slots; [exact Hsl|]. eapply slots_ok_slots; [|exact (inv_slots _ _ H1 _ g Hg1)]. reflexivity.
  - (* EStopPull *)
    destruct (get_group st s) as [g|] eqn:Eg; cbn [fst snd]; [|apply inv_s_nil; assumption].
    pose proof (inv_s_stop_and_del st log s g H Eg) as Hs.
    destruct (stop_and_del fixed_tree s _) as [[g1 a] ns]. cbn [fst snd]. exact Hs.
  - (* EPullSucc *)
    destruct (find_att s i (st_atts st)) as [a|]; cbn [fst snd]; [|apply inv_s_nil; assumption].
    destruct (get_group st s) as [g|] eqn:Eg; cbn [fst snd]; [|apply inv_s_nil; assumption].
    destruct (a_state a); cbn [fst snd]; try (apply inv_s_nil; assumption).
    destruct (has_in g || _) eqn:Ei; cbn [fst snd].
    + apply inv_s_log_other; [|intros m; reflexivity].
      eapply inv_s_equiv with (st := put_group st s (pull_del fixed_tree g i)); [apply equiv_S_refl_groups; reflexivity|].
      apply inv_s_pull_del; assumption.
    + apply orb_false_iff in Ei. destruct Ei as [Ei _].
      apply inv_s_log_other; [|intros m; reflexivity].
      eapply inv_s_equiv with (st := put_group st s (add_in (st_pipe st + 1) (attach_pull g (a_rtmp a) i))); [apply equiv_S_refl_groups; reflexivity|].
      apply (inv_s_put_shape st log s g); try assumption.
      * rewrite shape_add_in. unfold attach_pull. destruct (a_rtmp a); reflexivity.
      * apply (gw_attach _ _ (slots_ok_closed fixed_tree eq_refl eq_refl)); [exact (inv_slots _ _ H s g Eg)|assumption].
  - (* EPullFail *)
    destruct (find_att s i (st_atts st)) as [a|]; cbn [fst snd]; [|apply inv_s_nil; assumption].
    destruct (get_group st s) as [g|] eqn:Eg; cbn [fst snd]; [|apply inv_s_nil; assumption].
    destruct (a_state a); cbn [fst snd]; try (apply inv_s_nil; assumption).
    apply inv_s_log_other; [|intros m; reflexivity].
    eapply inv_s_equiv with (st := put_group st s (pull_del fixed_tree g i)); [apply equiv_S_refl_groups; reflexivity|].
    apply inv_s_pull_del; assumption.
  - (* EPullDone *)
    destruct (find_att s i (st_atts st)) as [a|]; cbn [fst snd]; [|apply inv_s_nil; assumption].
    destruct (get_group st s) as [g|] eqn:Eg; cbn [fst snd]; [|apply inv_s_nil; assumption].
    destruct (a_state a); cbn [fst snd]; try (apply inv_s_nil; assumption).
    apply inv_s_log_other; [|intros m; reflexivity].
    eapply inv_s_equiv with (st := put_group st s (pull_del fixed_tree g i)); [apply equiv_S_refl_groups; reflexivity|].
    apply inv_s_pull_del; assumption.
  - (* EPushOk *)
    match goal with |- context[push_event st s t false ?nx] => generalize nx; intros next end.
    unfold push_event. destruct (get_group st s) as [g|] eqn:Eg; cbn [fst snd]; [|apply inv_s_nil; assumption].
    destruct (nth_error (g_push g) t) as [q|]; cbn [fst snd]; [|apply inv_s_nil; assumption].
    destruct (_ && _); cbn [fst snd]; [|apply inv_s_nil; assumption].
    apply inv_s_nil. apply (inv_s_put_shape st log s g); try assumption; [reflexivity|].
    eapply slots_ok_slots; [|exact (inv_slots _ _ H s g Eg)]. reflexivity.
  - (* EPushFail *)
    unfold push_event. destruct (get_group st s) as [g|] eqn:Eg; cbn [fst snd]; [|apply inv_s_nil; assumption].
    destruct (nth_error (g_push g) t) as [q|]; cbn [fst snd]; [|apply inv_s_nil; assumption].
    destruct (_ && _); cbn [fst snd]; [|apply inv_s_nil; assumption].
    apply inv_s_nil. apply (inv_s_put_shape st log s g); try assumption; [reflexivity|].
    eapply slots_ok_slots; [|exact (inv_slots _ _ H s g Eg)]. reflexivity.
  - (* EPushDone *)
    unfold push_event. destruct (get_group st s) as [g|] eqn:Eg; cbn [fst snd]; [|apply inv_s_nil; assumption].
    destruct (nth_error (g_push g) t) as [q|]; cbn [fst snd]; [|apply inv_s_nil; assumption].
    destruct (_ && _); cbn [fst snd]; [|apply inv_s_nil; assumption].
    apply inv_s_nil. apply (inv_s_put_shape st log s g); try assumption; [reflexivity|].
    eapply slots_ok_slots; [|exact (inv_slots _ _ H s g Eg)]. reflexivity.
  - (* ETick *)
    destruct (st_disposed st) eqn:Ed; cbn [fst snd]; [apply inv_s_nil; assumption|].
    pose proof (tick_groups_nodup fixed_tree (st_now st) (st_groups st) (st_atts st) (st_cnt st) (inv_keys _ _ H)) as Hnd.
    pose proof (fun s => tick_groups_lookup fixed_tree (st_now st) (st_groups st) (st_atts st) (st_cnt st) s (inv_keys _ _ H)) as Hlk.
    pose proof (tick_groups_notes fixed_tree (st_now st) (st_groups st) (st_atts st) (st_cnt st)) as Hns.
    destruct (tick_groups fixed_tree (st_now st) (st_groups st) (st_atts st) (st_cnt st)) as [[[gs atts] cnt] ns].
    cbn [fst snd] in *. apply inv_s_log_other; [|apply word_conn_notes_att; assumption].
    apply (inv_s_regroup st); try assumption; try reflexivity.
    + intros s g' Hs. unfold get_group in Hs. cbn [st_groups st_set_atts st_set_groups] in Hs. rewrite Hlk in Hs.
      destruct (lookup s (st_groups st)) as [g|] eqn:El; [|discriminate].
      destruct (inactive g (st_now st)); [discriminate|]. inversion Hs; subst g'.
      exists g. split; [exact El|].
      destruct (tick_group_shape s g (st_now st) (inv_slots _ _ H s g El)) as [A [B C]].
      split; [assumption|]. split; [assumption|]. destruct C as [C|[C D]]; [left; assumption|right; split; [assumption|right; assumption]].
    + intros s g Hs Hn. unfold get_group in Hs, Hn. cbn [st_groups st_set_atts st_set_groups] in Hn. rewrite Hlk, Hs in Hn.
      destruct (inactive g (st_now st)) eqn:Ei; [|discriminate]. unfold inactive in Ei.
      apply andb_prop in Ei. destruct Ei as [Ei _]. apply andb_prop in Ei. destruct Ei as [E1 E2].
      apply negb_true_iff in E1, E2. split; [assumption|]. unfold has_out in E2. apply orb_false_iff in E2. destruct E2 as [E2 _].
      unfold has_sub in E2. destruct (g_subs g); [reflexivity|discriminate].
  - (* EAdvance *)
    cbn [fst snd]. apply inv_s_nil. eapply inv_s_equiv; [|exact H]. apply equiv_S_refl_groups; reflexivity.
  - (* EDispose *)
    destruct (st_disposed st); cbn [fst snd]; [apply inv_s_nil; assumption|].
    apply inv_s_nil. eapply inv_s_dispose; [exact H|reflexivity| |reflexivity].
    intros n. unfold vsess. cbn [st_sess st_set_disposed st_set_sess]. apply view_closed_many.
  - (* EMedia *)
    destruct (find_sess n (st_sess st)) as [x|]; cbn [fst snd]; [|apply inv_s_nil; assumption].
    destruct (s_kind x); cbn [fst snd]; try (apply inv_s_nil; assumption);
    match goal with |- context[if ?c then _ else _] => destruct c end; cbn [fst snd]; apply inv_s_nil; assumption.
Qed.

(* ---- runs ---------------------------------------------------------------------------------------------------------- *)
Lemma inv_s_run : forall cf h st log, INV_S st log ->
  INV_S (fst (run fixed_tree cf st h)) (log ++ snd (run fixed_tree cf st h)).
Proof.
  intros cf h. induction h as [|e t IH]; intros st log H; simpl.
  - rewrite app_nil_r. assumption.
  - pose proof (inv_s_step cf st log e H) as H1.
    destruct (step fixed_tree cf st e) as [[st1 r] ns]. cbn [fst snd] in H1.
    specialize (IH st1 (log ++ ns) H1). destruct (run fixed_tree cf st1 t) as [st2 ns2]. cbn [fst snd] in *.
    rewrite app_assoc. exact IH.
Qed.

(* Notifications of connections: after any history, the notifications carrying the id of a
   connection are exactly: nothing if it was never seen or was refused; its start if it was
   admitted and is still there; its start followed by its stop once it has gone - start/stop of the
   publisher kind for RTMP/RTSP publishers, of the subscriber kind for subscribers; none at all for
   customize and PS publishers. *)
Theorem notifications_conn : forall cf h n,
  let '(st, log) := run fixed_tree cf init_state h in
  word log (WConn n) = conn_word (vsess st n).
Proof.
  intros cf h n. pose proof (inv_s_run cf h init_state [] inv_s_init) as H.
  destruct (run fixed_tree cf init_state h) as [st log]. cbn [fst snd] in H. simpl in H.
  exact (inv_log_conn _ _ H n).
Qed.

(* the stat view: the publisher and the subscribers it lists are admitted sessions of that very
   stream that have not gone *)
Theorem stat_lists_attached : forall cf h s g,
  let st := fst (run fixed_tree cf init_state h) in
  get_group st s = Some g ->
  (forall n, stat_pub g = Some n ->
     exists kd, vsess st n = Some (kd, s, true, false) /\ (g_rtmp g = Some n \/ g_rtsp g = Some n \/ g_ps g = Some n)) /\
  (forall n, In n (stat_subs g) -> exists kd k, subk_of kd = Some k /\ In (k, n) (g_subs g) /\ vsess st n = Some (kd, s, true, false)).
Proof.
  intros cf h s g st Hg. pose proof (inv_s_run cf h init_state [] inv_s_init) as H. fold st in H.
  destruct (inv_entry _ _ H s g Hg) as [E1 E2]. split.
  - intros n Hn. unfold stat_pub in Hn.
    destruct (g_rtmp g) as [a|] eqn:Ea.
    + inversion Hn; subst a. exists KRtmpPub. split; [apply (E1 PsRtmp n Ea)|left; reflexivity].
    + destruct (g_rtsp g) as [b|] eqn:Eb.
      * inversion Hn; subst b. exists KRtspPub. split; [apply (E1 PsRtsp n Eb)|right; left; reflexivity].
      * exists KPsPub. split; [apply (E1 PsPs n Hn)|right; right; assumption].
  - intros n Hn. unfold stat_subs in Hn. apply in_map_iff in Hn. destruct Hn as [[k m] [Hm Hin]]. simpl in Hm. subst m.
    destruct (E2 k n Hin) as [kd [A B]]. exists kd, k. repeat split; assumption.
Qed.

(* F-11 on the pinned tree: a refused RTSP ANNOUNCE is reported as a departed publisher *)
Definition f11_history : list event := [ERtspPub 1 1 false; ERtspPub 1 2 false].
Lemma notifications_conn_refuted_pinned :
  exists cf h n, word (snd (run pinned_tree cf init_state h)) (WConn n)
                 <> conn_word (vsess (fst (run pinned_tree cf init_state h)) n).
Proof. exists (mk_config false 0), f11_history, 2. vm_compute. discriminate. Qed.
