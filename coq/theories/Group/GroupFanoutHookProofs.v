(* The stream hook and the MPEG-TS recording of the fan-out model: what they
   hold after any history is a function of the history alone, and every input
   is finalised exactly once. *)
From Lal Require Import Common.LBytes Group.GroupMsg Group.GroupGopCache Group.GroupFanout Group.GroupFanoutProofs.
From Coq Require Import Lia.
Open Scope N_scope.

(* ------------------------------------------------------------------ *)
(* history-only specification: one entry per input (newest first) with the
   indices of the non-empty messages published while it was attached, and the
   number of OnStop calls *)
Record hspec := mk_hspec { hs_in : bool; hs_n : nat; hs_hook : list (list nat * nat) }.

Definition hspec_init : hspec := {| hs_in := false; hs_n := 0; hs_hook := [] |}.

Definition hstep (cf : cfg) (sp : hspec) (e : ev) : hspec :=
  match e with
  | EvPublish m =>
      {| hs_in := hs_in sp; hs_n := S (hs_n sp);
         hs_hook := if negb (Nat.eqb (length (rm_payload m)) 0) && hs_in sp && cf_hook cf
                    then hook_msg (hs_hook sp) (hs_n sp) else hs_hook sp |}
  | EvInStart =>
      if hs_in sp then sp
      else {| hs_in := true; hs_n := hs_n sp; hs_hook := if cf_hook cf then ([], 0%nat) :: hs_hook sp else hs_hook sp |}
  | EvInStop =>
      if hs_in sp
      then {| hs_in := false; hs_n := hs_n sp; hs_hook := if cf_hook cf then hook_stop (hs_hook sp) else hs_hook sp |}
      else sp
  | EvDispose =>
      {| hs_in := false; hs_n := hs_n sp; hs_hook := if hs_in sp && cf_hook cf then hook_stop (hs_hook sp) else hs_hook sp |}
  | _ => sp
  end.

Definition hrun (cf : cfg) (h : list ev) : hspec := fold_left (hstep cf) h hspec_init.

Definition hrel (s : gstate) (sp : hspec) : Prop :=
  g_in s = hs_in sp /\ g_next s = hs_n sp /\ g_hook s = hs_hook sp.

Lemma publish_hook_fields cf s m : Nat.eqb (length (rm_payload m)) 0 = false ->
  g_in (publish cf s m) = g_in s /\ g_next (publish cf s m) = S (g_next s) /\
  g_hook (publish cf s m) = (if g_in s && cf_hook cf then hook_msg (g_hook s) (g_next s) else g_hook s) /\
  g_trec (publish cf s m) = g_trec s.
Proof.
  intro Hne. unfold publish. rewrite Hne. rewrite rtmp_loop_spec.
  destruct (has_kind KRtmp _); [destruct (cf_merge cf =? 0); [|destruct (cf_merge cf <=? _)]|];
    cbn [g_in g_next g_hook g_trec]; repeat split; reflexivity.
Qed.

Lemma hrel_step cf s sp e : hrel s sp -> hrel (step cf s e) (hstep cf sp e).
Proof.
  intros (Hin & Hn & Hh).
  destruct e as [m|k id|id| | |b| |v|pid|raw|]; cbn [step hstep].
  - destruct (Nat.eqb (length (rm_payload m)) 0) eqn:Hne.
    + unfold publish. rewrite Hne. unfold hrel. cbn [g_in g_next g_hook hs_in hs_n hs_hook negb andb].
      repeat split; try assumption. congruence.
    + destruct (publish_hook_fields cf s m Hne) as (P1 & P2 & P3 & _).
      unfold hrel. cbn [hs_in hs_n hs_hook negb andb]. rewrite P1, P2, P3, <- Hin, <- Hn, <- Hh. repeat split.
  - destruct (existsb _ _); unfold hrel, set_subs; cbn [g_in g_next g_hook]; repeat split; assumption.
  - destruct (partition _ _). unfold hrel. cbn [g_in g_next g_hook]. repeat split; assumption.
  - rewrite <- Hin. destruct (g_in s) eqn:Hg; unfold hrel; cbn [g_in g_next g_hook hs_in hs_n hs_hook]; rewrite ?Hh;
      repeat split; try assumption; congruence.
  - rewrite <- Hin. destruct (g_in s) eqn:Hg; cbn [negb].
    + destruct (partition _ _). unfold hrel. cbn [g_in g_next g_hook hs_in hs_n hs_hook]. rewrite ?Hh. repeat split; try assumption; congruence.
    + unfold hrel. repeat split; try assumption. congruence.
  - unfold feed_ts, hrel. cbn [g_in g_next g_hook]. repeat split; assumption.
  - unfold hrel. cbn [g_in g_next g_hook]. repeat split; assumption.
  - unfold hrel. cbn [g_in g_next g_hook]. repeat split; assumption.
  - unfold hrel, set_subs. cbn [g_in g_next g_hook]. repeat split; assumption.
  - unfold feed_rtp, feed_rtp_gen, hrel. cbn [g_in g_next g_hook]. repeat split; assumption.
  - unfold hrel. cbn [g_in g_next g_hook hs_in hs_n hs_hook]. rewrite Hin, Hh. repeat split; assumption.
Qed.

Theorem hook_follows_history cf h : hrel (run cf h) (hrun cf h).
Proof.
  unfold run, hrun. assert (H0 : hrel (g_init cf) hspec_init) by (repeat split).
  revert H0. generalize (g_init cf) hspec_init.
  induction h as [|e h IH]; intros s sp H; [exact H|]. cbn [fold_left]. apply IH. now apply hrel_step.
Qed.

(* ------------------------------------------------------------------ *)
(* OnStop exactly once per input: every finished input's entry counts one
   stop, the entry of the input that is still attached counts none *)
Definition stopped_once (e : list nat * nat) : Prop := snd e = 1%nat.

Definition hook_ok (cf : cfg) (inn : bool) (hk : list (list nat * nat)) : Prop :=
  if cf_hook cf then
    if inn then match hk with [] => False | (_, st) :: t => st = 0%nat /\ Forall stopped_once t end
    else Forall stopped_once hk
  else hk = [].

Lemma hook_ok_step cf sp e : hook_ok cf (hs_in sp) (hs_hook sp) -> hook_ok cf (hs_in (hstep cf sp e)) (hs_hook (hstep cf sp e)).
Proof.
  unfold hook_ok. intro H.
  destruct e as [m|k id|id| | |b| |v|pid|raw|]; cbn [hstep]; try exact H.
  - cbn [hs_in hs_hook]. destruct (cf_hook cf) eqn:Hc.
    + rewrite Bool.andb_true_r. destruct (hs_in sp) eqn:Hi.
      * rewrite Bool.andb_true_r. destruct (negb _); [|exact H].
        destruct (hs_hook sp) as [|[ms st] t]; [exact H|]. exact H.
      * rewrite Bool.andb_false_r. exact H.
    + rewrite Bool.andb_false_r. exact H.
  - destruct (hs_in sp) eqn:Hi; [now rewrite Hi|]. cbn [hs_in hs_hook].
    destruct (cf_hook cf); [split; [reflexivity|exact H]|exact H].
  - destruct (hs_in sp) eqn:Hi; [|now rewrite Hi]. cbn [hs_in hs_hook].
    destruct (cf_hook cf); [|exact H].
    destruct (hs_hook sp) as [|[ms st] t]; [contradiction|]. destruct H as [H1 H2]. subst st.
    constructor; [reflexivity|exact H2].
  - cbn [hs_in hs_hook]. destruct (hs_in sp) eqn:Hi; cbn [andb]; [|exact H].
    destruct (cf_hook cf); [|exact H].
    destruct (hs_hook sp) as [|[ms st] t]; [contradiction|]. destruct H as [H1 H2]. subst st.
    constructor; [reflexivity|exact H2].
Qed.

Theorem hook_once_run cf h : hook_ok cf (g_in (run cf h)) (g_hook (run cf h)).
Proof.
  destruct (hook_follows_history cf h) as (Hin & _ & Hh). rewrite Hin, Hh. unfold hrun. clear Hin Hh.
  assert (H0 : hook_ok cf (hs_in hspec_init) (hs_hook hspec_init)).
  { unfold hook_ok. cbn. destruct (cf_hook cf); [constructor|reflexivity]. }
  revert H0. generalize hspec_init.
  induction h as [|e h IH]; intros sp H; [exact H|]. cbn [fold_left]. apply IH. now apply hook_ok_step.
Qed.

(* the teardown tells the hook to stop, once; a second end-of-input does not *)
Theorem in_stop_hook cf s : g_in s = true -> cf_hook cf = true ->
  g_hook (step cf s EvInStop) = hook_stop (g_hook s) /\
  g_hook (step cf (step cf s EvInStop) EvInStop) = hook_stop (g_hook s).
Proof.
  intros Hin Hc. cbn [step]. rewrite Hin. cbn [negb].
  destruct (partition _ _) as [pushes stay]. cbn [g_hook g_in negb]. rewrite Hc. split; reflexivity.
Qed.

(* ------------------------------------------------------------------ *)
(* MPEG-TS recording: one file per input (newest first) holding exactly the
   PAT/PMT and TS blobs handed to the group while that input was attached *)
Record tspec := mk_tspec { tp_in : bool; tp_ts : nat; tp_pat : nat; tp_rec : list (list label) }.

Definition tspec_init : tspec := {| tp_in := false; tp_ts := 0; tp_pat := 0; tp_rec := [] |}.

Definition tstep (cf : cfg) (sp : tspec) (e : ev) : tspec :=
  match e with
  | EvTs _ =>
      {| tp_in := tp_in sp; tp_ts := S (tp_ts sp); tp_pat := tp_pat sp;
         tp_rec := if tp_in sp && cf_record_ts cf then rec_append (tp_rec sp) (LTs (tp_ts sp)) else tp_rec sp |}
  | EvPatPmt =>
      {| tp_in := tp_in sp; tp_ts := tp_ts sp; tp_pat := S (tp_pat sp);
         tp_rec := if tp_in sp && cf_record_ts cf then rec_append (tp_rec sp) (LPat (tp_pat sp)) else tp_rec sp |}
  | EvInStart =>
      if tp_in sp then sp
      else {| tp_in := true; tp_ts := tp_ts sp; tp_pat := tp_pat sp;
              tp_rec := if cf_record_ts cf then [] :: tp_rec sp else tp_rec sp |}
  | EvInStop =>
      if tp_in sp then {| tp_in := false; tp_ts := tp_ts sp; tp_pat := tp_pat sp; tp_rec := tp_rec sp |} else sp
  | EvDispose => {| tp_in := false; tp_ts := tp_ts sp; tp_pat := tp_pat sp; tp_rec := tp_rec sp |}
  | _ => sp
  end.

Definition trun (cf : cfg) (h : list ev) : tspec := fold_left (tstep cf) h tspec_init.

Definition trel (s : gstate) (sp : tspec) : Prop :=
  g_in s = tp_in sp /\ g_next_ts s = tp_ts sp /\ g_next_pat s = tp_pat sp /\ g_trec s = tp_rec sp.

Lemma publish_ts_fields cf s m :
  g_in (publish cf s m) = g_in s /\ g_next_ts (publish cf s m) = g_next_ts s /\
  g_next_pat (publish cf s m) = g_next_pat s /\ g_trec (publish cf s m) = g_trec s.
Proof.
  unfold publish. destruct (Nat.eqb _ 0); [repeat split|]. rewrite rtmp_loop_spec.
  destruct (has_kind KRtmp _); [destruct (cf_merge cf =? 0); [|destruct (cf_merge cf <=? _)]|];
    cbn [g_in g_next_ts g_next_pat g_trec]; repeat split; reflexivity.
Qed.

Lemma trel_step cf s sp e : trel s sp -> trel (step cf s e) (tstep cf sp e).
Proof.
  intros (Hin & Hn & Hp & Hr).
  destruct e as [m|k id|id| | |b| |v|pid|raw|]; cbn [step tstep].
  - destruct (publish_ts_fields cf s m) as (P1 & P2 & P3 & P4). unfold trel. rewrite P1, P2, P3, P4. repeat split; assumption.
  - destruct (existsb _ _); unfold trel, set_subs; cbn [g_in g_next_ts g_next_pat g_trec]; repeat split; assumption.
  - destruct (partition _ _). unfold trel. cbn [g_in g_next_ts g_next_pat g_trec]. repeat split; assumption.
  - rewrite <- Hin. destruct (g_in s) eqn:Hg; unfold trel; cbn [g_in g_next_ts g_next_pat g_trec tp_in tp_ts tp_pat tp_rec]; rewrite ?Hr;
      repeat split; try assumption; congruence.
  - rewrite <- Hin. destruct (g_in s) eqn:Hg; cbn [negb].
    + destruct (partition _ _). unfold trel. cbn [g_in g_next_ts g_next_pat g_trec tp_in tp_ts tp_pat tp_rec]. repeat split; assumption.
    + unfold trel. repeat split; try assumption. congruence.
  - unfold feed_ts, trel. cbn [g_in g_next_ts g_next_pat g_trec tp_in tp_ts tp_pat tp_rec]. rewrite Hin, Hn, Hr. repeat split; try assumption; congruence.
  - unfold trel. cbn [g_in g_next_ts g_next_pat g_trec tp_in tp_ts tp_pat tp_rec]. rewrite Hin, Hp, Hr. repeat split; try assumption; congruence.
  - unfold trel. cbn [g_in g_next_ts g_next_pat g_trec]. repeat split; assumption.
  - unfold trel, set_subs. cbn [g_in g_next_ts g_next_pat g_trec]. repeat split; assumption.
  - unfold feed_rtp, feed_rtp_gen, trel. cbn [g_in g_next_ts g_next_pat g_trec]. repeat split; assumption.
  - unfold trel. cbn [g_in g_next_ts g_next_pat g_trec tp_in tp_ts tp_pat tp_rec]. repeat split; assumption.
Qed.

Theorem trec_follows_history cf h : trel (run cf h) (trun cf h).
Proof.
  unfold run, trun. assert (H0 : trel (g_init cf) tspec_init) by (repeat split).
  revert H0. generalize (g_init cf) tspec_init.
  induction h as [|e h IH]; intros s sp H; [exact H|]. cbn [fold_left]. apply IH. now apply trel_step.
Qed.

(* the teardown closes the file with its content unchanged, and nothing is
   appended to any file while no input is attached *)
Theorem in_stop_trec cf s : g_trec (step cf s EvInStop) = g_trec s.
Proof.
  cbn [step]. destruct (negb (g_in s)); [reflexivity|]. destruct (partition _ _). reflexivity.
Qed.

Theorem no_input_no_trec cf s e : g_in s = false -> e <> EvInStart -> g_trec (step cf s e) = g_trec s.
Proof.
  intros Hin He.
  destruct e as [m|k id|id| | |b| |v|pid|raw|]; cbn [step].
  - apply publish_ts_fields.
  - destruct (existsb _ _); reflexivity.
  - destruct (partition _ _); reflexivity.
  - congruence.
  - now rewrite Hin.
  - unfold feed_ts. cbn [g_trec]. now rewrite Hin.
  - cbn [g_trec]. now rewrite Hin.
  - reflexivity.
  - reflexivity.
  - reflexivity.
  - reflexivity.
Qed.

(* ------------------------------------------------------------------ *)
(* Group.Dispose(): server shutdown / removal of the group *)

Lemma gc_clear_empty (g : gop_cache label) : gc_count (gc_clear g) = 0%nat /\ gc_all (gc_clear g) = [].
Proof.
  assert (H0 : gc_count (gc_clear g) = 0%nat).
  { unfold gc_count. cbn [gc_clear gc_last gc_first gc_size]. rewrite Nat.add_0_l, Nat.sub_0_r.
    destruct (gc_size g) as [|n]; [reflexivity|]. apply Nat.mod_same. lia. }
  split; [exact H0|]. unfold gc_all. now rewrite H0.
Qed.

(* every sub session is disposed holding exactly what it had received, the
   input is torn down as by delIn (recordings closed with their content, the
   hook told to stop iff an input was attached, caches / codec / SDP / PAT-PMT
   wiped), with or without an input *)
Theorem dispose_finalises cf s :
  let s' := step cf s EvDispose in
  g_in s' = false /\ g_subs s' = [] /\ g_gone s' = g_gone s ++ g_subs s /\
  g_rec_open s' = false /\ g_rec s' = g_rec s /\ g_trec s' = g_trec s /\
  g_hook s' = (if g_in s && cf_hook cf then hook_stop (g_hook s) else g_hook s) /\
  g_video_known s' = false /\ g_patpmt s' = None /\ g_sdp s' = None /\
  prologue (g_rtmp_cache s') false = [] /\ prologue (g_rtmp_cache s') true = [] /\
  prologue (g_flv_cache s') false = [] /\ gc_all (g_ts_cache s') = [].
Proof.
  cbv zeta. cbn [step g_in g_subs g_gone g_rec_open g_rec g_trec g_hook g_video_known g_patpmt g_sdp g_rtmp_cache g_flv_cache g_ts_cache].
  unfold prologue. cbn [gc_clear gc_meta_w gc_meta_wo gc_vsh gc_ash opt_list app].
  repeat split; try reflexivity; apply gc_clear_empty.
Qed.

(* ... once: the teardown of an input that has already ended does not tell the
   hook again, and a disposed group has nothing left to finalise *)
Theorem dispose_after_stop cf s :
  g_hook (step cf (step cf s EvInStop) EvDispose) = g_hook (step cf s EvInStop) /\
  g_hook (step cf (step cf s EvDispose) EvDispose) = g_hook (step cf s EvDispose) /\
  g_hook (step cf (step cf s EvDispose) EvInStop) = g_hook (step cf s EvDispose).
Proof.
  split; [|split].
  - cbn [step]. destruct (g_in s) eqn:Hin; cbn [negb].
    + destruct (partition _ _). cbn [g_in g_hook andb]. reflexivity.
    + cbn [g_hook]. now rewrite Hin.
  - cbn [step g_in g_hook andb]. reflexivity.
  - cbn [step g_in negb]. reflexivity.
Qed.
