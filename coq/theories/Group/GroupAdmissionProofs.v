(* Lemmas about the admission / relay state machine (GroupAdmission.v). *)
From Coq Require Import NArith ZArith List Bool Lia.
From Lal Require Import Group.GroupAdmission.
Import ListNotations.
Open Scope N_scope.

(* ---- generic facts about the association lists -------------------------------- *)
Lemma lookup_update_same : forall A k (v : A) l, lookup k (update k v l) = Some v.
Proof.
  induction l as [|[k' v'] t IH]; simpl.
  - rewrite N.eqb_refl. reflexivity.
  - destruct (N.eqb k k') eqn:E; simpl.
    + rewrite N.eqb_refl. reflexivity.
    + rewrite E. exact IH.
Qed.

Lemma lookup_update_other : forall A k k' (v : A) l, k' <> k -> lookup k' (update k v l) = lookup k' l.
Proof.
  induction l as [|[k2 v2] t IH]; simpl; intros Hne.
  - destruct (N.eqb k' k) eqn:E; [apply N.eqb_eq in E; contradiction|reflexivity].
  - destruct (N.eqb k k2) eqn:E; simpl.
    + apply N.eqb_eq in E. subst k2.
      destruct (N.eqb k' k) eqn:E2; [apply N.eqb_eq in E2; contradiction|reflexivity].
    + destruct (N.eqb k' k2); [reflexivity|apply IH; assumption].
Qed.

Lemma Forall_update : forall A (P : N * A -> Prop) k v l,
  Forall P l -> P (k, v) -> Forall P (update k v l).
Proof.
  induction l as [|[k' v'] t IH]; simpl; intros Hl Hp.
  - constructor; [assumption|constructor].
  - inversion Hl; subst. destruct (N.eqb k k'); constructor; auto.
Qed.

Lemma lookup_In : forall A k (v : A) l, lookup k l = Some v -> In (k, v) l.
Proof.
  induction l as [|[k' v'] t IH]; simpl; intros H; [discriminate|].
  destruct (N.eqb k k') eqn:E.
  - apply N.eqb_eq in E. inversion H; subst. left; reflexivity.
  - right; auto.
Qed.

(* a property of every group of a state *)
Definition all_groups (P : group -> Prop) (st : state) : Prop :=
  Forall (fun kv => P (snd kv)) (st_groups st).

Lemma all_groups_get : forall P st s g, all_groups P st -> get_group st s = Some g -> P g.
Proof.
  unfold all_groups, get_group. intros P st s g H Hl.
  apply lookup_In in Hl. rewrite Forall_forall in H. apply (H (s, g)); assumption.
Qed.

Lemma all_groups_put : forall P st s g, all_groups P st -> P g -> all_groups P (put_group st s g).
Proof.
  unfold all_groups, put_group. intros. simpl. apply Forall_update; assumption.
Qed.

Lemma all_groups_same : forall P st1 st2, st_groups st1 = st_groups st2 -> all_groups P st2 -> all_groups P st1.
Proof. unfold all_groups. intros P st1 st2 E H. rewrite E. exact H. Qed.

(* ---- the input slots --------------------------------------------------------------- *)
Definition slots (g : group) : option N * option N * option N * option N * option N * option N :=
  (g_rtmp g, g_rtsp g, g_cust g, g_ps g, pp_rtmp (g_pp g), pp_rtsp (g_pp g)).

Definition slots_ok (g : group) : Prop := (occupied g <= 1)%nat.

Lemma occupied_slots : forall g1 g2, slots g1 = slots g2 -> occupied g1 = occupied g2.
Proof. unfold slots, occupied. intros g1 g2 H. inversion H. reflexivity. Qed.

Lemma slots_ok_slots : forall g1 g2, slots g1 = slots g2 -> slots_ok g2 -> slots_ok g1.
Proof. unfold slots_ok. intros g1 g2 H. rewrite (occupied_slots _ _ H). trivial. Qed.

Lemma has_in_false_occupied : forall g, has_in g = false -> occupied g = 0%nat.
Proof.
  unfold has_in, has_pub, has_pull, occupied. intros g H.
  destruct (g_rtmp g), (g_rtsp g), (g_cust g), (g_ps g), (pp_rtmp (g_pp g)), (pp_rtsp (g_pp g)); simpl in *; try discriminate; reflexivity.
Qed.

Lemma occupied_zero_has_in : forall g, occupied g = 0%nat -> has_in g = false.
Proof.
  unfold has_in, has_pub, has_pull, occupied. intros g H.
  destruct (g_rtmp g), (g_rtsp g), (g_cust g), (g_ps g), (pp_rtmp (g_pp g)), (pp_rtsp (g_pp g)); simpl in *; try discriminate; reflexivity.
Qed.

(* transformations that do not touch the slots *)
Lemma slots_start_push : forall g, slots (start_push g) = slots g.
Proof. unfold start_push. intros g. destruct (g_push g); [reflexivity|]. destruct (_ || _); reflexivity. Qed.
Lemma slots_stop_push : forall g, slots (stop_push g) = slots g.
Proof. reflexivity. Qed.
Lemma slots_add_in : forall p g, slots (add_in p g) = slots g.
Proof. intros. unfold add_in. rewrite slots_start_push. reflexivity. Qed.
Lemma slots_pull_if_needed : forall g now, slots (fst (fst (pull_if_needed g now))) = slots g.
Proof. intros. unfold pull_if_needed. destruct (should_start g now) as [[|] r]; reflexivity. Qed.
Lemma slots_stop_pull : forall g, slots (fst (stop_pull g)) = slots g.
Proof. reflexivity. Qed.
Lemma slots_tick_pull : forall g now, slots (fst (fst (tick_pull g now))) = slots g.
Proof.
  intros. unfold tick_pull.
  set (g1 := if has_sub g then _ else g).
  assert (H1 : slots g1 = slots g) by (subst g1; destruct (has_sub g); reflexivity).
  destruct (should_auto_stop g1 now).
  - simpl. exact H1.
  - destruct (pull_if_needed g1 now) as [[g2 st] r] eqn:E. simpl.
    change g2 with (fst (fst (g2, st, r))). rewrite <- E. rewrite slots_pull_if_needed. exact H1.
Qed.

Lemma occupied_del_in : forall g, (occupied (del_in g) <= occupied g)%nat.
Proof. intros g. unfold occupied, del_in. simpl. lia. Qed.

Lemma occupied_del_in_nopull : forall g, has_pull g = false -> occupied (del_in g) = 0%nat.
Proof.
  unfold has_pull, occupied, del_in. intros g H. simpl.
  destruct (pp_rtmp (g_pp g)), (pp_rtsp (g_pp g)); simpl in *; try discriminate; reflexivity.
Qed.

Lemma slots_ok_del_in : forall g, slots_ok g -> slots_ok (del_in g).
Proof. unfold slots_ok. intros g H. pose proof (occupied_del_in g). lia. Qed.

Lemma slots_ok_set_slot : forall g sl n p, has_in g = false -> slots_ok (add_in p (set_slot g sl n)).
Proof.
  intros g sl n p H. apply has_in_false_occupied in H.
  unfold slots_ok. rewrite (occupied_slots _ _ (slots_add_in p _)).
  unfold occupied in *. destruct sl; simpl;
  destruct (g_rtmp g), (g_rtsp g), (g_cust g), (g_ps g), (pp_rtmp (g_pp g)), (pp_rtsp (g_pp g)); simpl in *; lia.
Qed.

Lemma slots_ok_pull_del : forall fx g a, fx_f10 fx = true -> slots_ok g -> slots_ok (pull_del fx g a).
Proof.
  intros fx g a Hfx H. unfold pull_del. rewrite Hfx.
  destruct (_ || _).
  - unfold slots_ok. rewrite occupied_del_in_nopull; [lia|reflexivity].
  - eapply slots_ok_slots; [|exact H]. reflexivity.
Qed.

Lemma slots_ok_ps_del : forall g s, slots_ok g -> slots_ok (ps_del g s).
Proof.
  intros g s H. unfold ps_del.
  destruct (opt_is (g_ps g) s); [apply slots_ok_del_in|]; assumption.
Qed.

Lemma slots_ok_new_group : forall cf id now, slots_ok (new_group cf id now).
Proof. intros. unfold slots_ok, occupied. simpl. lia. Qed.

Lemma slots_ok_dispose_group : forall g, slots_ok g -> slots_ok (dispose_group g).
Proof.
  intros g H. unfold dispose_group. apply slots_ok_del_in.
  eapply slots_ok_slots; [|exact H]; reflexivity.
Qed.

(* ---- predicates on single groups that every step preserves ------------------------------ *)
Record gw_closed (fx : fixes) (Q : group -> Prop) : Prop := {
  gw_new : forall cf id now, Q (new_group cf id now);
  gw_admit : forall g sl n p, Q g -> has_in g = false -> Q (add_in p (set_slot g sl n));
  gw_admit_ps : fx_f09 fx = false -> forall g n p, Q g -> Q (add_in p (set_slot g PsPs n));
  gw_subs_add : forall g k n, Q g -> Q (g_set_subs g (g_subs g ++ [(k, n)]));
  gw_subs_del : forall g k n, Q g -> Q (g_set_subs g (remove_sub k n (g_subs g)));
  gw_pull_if : forall g now, Q g -> Q (fst (fst (pull_if_needed g now)));
  gw_del_in : forall g sl n, Q g -> opt_is (get_slot g sl) n = true -> Q (del_in g);
  gw_api_stop : forall g, Q g -> Q (fst (stop_pull (g_set_pp g (pp_set_api (g_pp g) false))));
  gw_req : forall g rt r a, Q g -> Q (g_set_pp g (pp_set_req (g_pp g) rt r a));
  gw_pull_del : forall g a, Q g -> Q (pull_del fx g a);
  gw_attach : forall g rt i p, Q g -> has_in g = false -> Q (add_in p (attach_pull g rt i));
  gw_push_off : forall g t, Q g -> Q (push_apply g t (mk_push false false));
  gw_push_on : forall g t, Q g -> (fx_f27 fx = true -> is_some (g_rtmp g) || is_some (g_rtsp g) = true) ->
                           Q (push_apply g t (mk_push true true));
  gw_tick : forall g now, Q g -> Q (start_push (fst (fst (tick_pull g now))));
  gw_dispose : forall g, Q g -> Q (dispose_group g)
}.

Section Groupwise.
Variable fx : fixes.
Variable Q : group -> Prop.
Hypothesis HQ : gw_closed fx Q.

Ltac same H := eapply all_groups_same; [|exact H]; reflexivity.

Lemma gw_get_or_create : forall cf st s st1 g,
  all_groups Q st -> get_or_create cf st s = (st1, g) -> all_groups Q st1 /\ Q g /\ get_group st1 s = Some g.
Proof.
  intros cf st s st1 g H E. unfold get_or_create in E.
  destruct (get_group st s) eqn:Eg.
  - inversion E; subst. split; [assumption|]. split; [eapply all_groups_get; eauto|assumption].
  - inversion E; subst. split; [|split].
    + eapply all_groups_same with (st2 := put_group st s _); [reflexivity|].
      apply all_groups_put; [assumption|apply (gw_new _ _ HQ)].
    + apply (gw_new _ _ HQ).
    + unfold get_group. simpl. apply lookup_update_same.
Qed.

Lemma gw_pull_if_needed_st : forall st s g st1 g1 o r,
  all_groups Q st -> Q g -> pull_if_needed_st st s g = (st1, g1, o, r) -> all_groups Q st1 /\ Q g1.
Proof.
  intros st s g st1 g1 o r H Hg E. unfold pull_if_needed_st in E.
  pose proof (gw_pull_if _ _ HQ g (st_now st) Hg) as Hp.
  destruct (pull_if_needed g (st_now st)) as [[g2 started] r2]. simpl in Hp.
  destruct started.
  - unfold alloc_att in E. inversion E; subst. split; [|assumption]. same H.
  - inversion E; subst. split; assumption.
Qed.

Lemma gw_admit_pub : forall cf st sl s n check st1 ok g,
  all_groups Q st -> (check = false -> sl = PsPs /\ fx_f09 fx = false) ->
  admit_pub cf st sl s n check = (st1, ok, g) -> all_groups Q st1.
Proof.
  intros cf st sl s n check st1 ok g H Hc E. unfold admit_pub in E.
  destruct (get_or_create cf st s) as [st0 g0] eqn:Eg.
  destruct (gw_get_or_create _ _ _ _ _ H Eg) as [H0 [Hg0 _]].
  destruct (check && has_in g0) eqn:Ec.
  - inversion E; subst. assumption.
  - unfold next_pipe in E. inversion E; subst.
    apply all_groups_put; [same H0|].
    destruct check; simpl in Ec.
    + apply (gw_admit _ _ HQ); assumption.
    + destruct (Hc eq_refl) as [-> Hf]. apply (gw_admit_ps _ _ HQ); assumption.
Qed.

Lemma gw_admit_sub : forall cf st k s n pull st1 g,
  all_groups Q st -> admit_sub cf st k s n pull = Some (st1, g) -> all_groups Q st1.
Proof.
  intros cf st k s n pull st1 g H E. unfold admit_sub in E.
  destruct (get_or_create cf st s) as [st0 g0] eqn:Eg.
  destruct (gw_get_or_create _ _ _ _ _ H Eg) as [H0 [Hg0 _]].
  destruct (g_disposed g0); [discriminate|].
  pose proof (gw_subs_add _ _ HQ g0 k n Hg0) as Hs.
  destruct pull.
  - destruct (pull_if_needed_st st0 s _) as [[[st2 g2] o] r] eqn:Ep.
    destruct (gw_pull_if_needed_st _ _ _ _ _ _ _ H0 Hs Ep) as [H2 Hg2].
    inversion E; subst. apply all_groups_put; assumption.
  - inversion E; subst. apply all_groups_put; assumption.
Qed.

Lemma gw_depart_pub : forall st sl s n b, all_groups Q st -> all_groups Q (fst (depart_pub st sl s n b)).
Proof.
  intros st sl s n b H. unfold depart_pub. destruct (get_group st s) eqn:Eg; [|assumption].
  simpl. apply all_groups_put; [assumption|].
  pose proof (all_groups_get _ _ _ _ H Eg) as Hg.
  destruct (opt_is (get_slot g sl) n) eqn:Em; [eapply (gw_del_in _ _ HQ); eauto|assumption].
Qed.

Lemma gw_depart_sub : forall st k s n, all_groups Q st -> all_groups Q (fst (depart_sub st k s n)).
Proof.
  intros st k s n H. unfold depart_sub. destruct (get_group st s) eqn:Eg; [|assumption].
  simpl. apply all_groups_put; [assumption|].
  apply (gw_subs_del _ _ HQ). eapply all_groups_get; eauto.
Qed.

Lemma gw_stop_and_del : forall s g, Q g ->
  Q (fst (fst (stop_and_del fx s (g_set_pp g (pp_set_api (g_pp g) false))))).
Proof.
  intros s g Hg. unfold stop_and_del.
  pose proof (gw_api_stop _ _ HQ g Hg) as Hs.
  destruct (stop_pull _) as [g1 [a|]]; simpl in *; [apply (gw_pull_del _ _ HQ)|]; assumption.
Qed.

Lemma gw_kick_group : forall st s g t, all_groups Q st -> get_group st s = Some g ->
  all_groups Q (fst (fst (kick_group fx st s g t))).
Proof.
  intros st s g t H Eg. pose proof (all_groups_get _ _ _ _ H Eg) as Hg.
  unfold kick_group. destruct t as [n|s' i].
  - destruct (find_sess n (st_sess st)); [|assumption].
    destruct (s_kind s0); simpl; try assumption;
      match goal with |- context[if ?c then _ else _] => destruct c eqn:Ec end; simpl; try assumption;
      try (same H).
    apply all_groups_put; [same H|].
    unfold ps_del. rewrite Ec. apply (gw_del_in _ _ HQ g PsPs n); assumption.
  - destruct (_ && _); [|assumption].
    pose proof (gw_stop_and_del s g Hg) as Hs.
    destruct (stop_and_del _ _ _) as [[g1 a] ns]. simpl in *.
    destruct a; simpl; (eapply all_groups_same with (st2 := put_group st s g1); [reflexivity|]);
      apply all_groups_put; assumption.
Qed.

Lemma gw_push_event_off : forall st s t w, all_groups Q st ->
  all_groups Q (fst (push_event st s t w (mk_push false false))).
Proof.
  intros st s t w H. unfold push_event. destruct (get_group st s) eqn:Eg; [|assumption].
  destruct (nth_error (g_push g) t); [|assumption].
  destruct (_ && _); [|assumption]. simpl. apply all_groups_put; [assumption|].
  apply (gw_push_off _ _ HQ g t). eapply all_groups_get; eauto.
Qed.

Lemma gw_tick_group : forall s g now, Q g -> Q (fst (fst (fst (tick_group fx s g now)))).
Proof.
  intros s g now Hg. unfold tick_group.
  pose proof (gw_tick _ _ HQ g now Hg) as Ht.
  destruct (tick_pull g now) as [[g1 started] [a|]]; simpl in *; [apply (gw_pull_del _ _ HQ)|]; assumption.
Qed.

Lemma gw_tick_groups : forall now l atts cnt,
  Forall (fun kv => Q (snd kv)) l ->
  Forall (fun kv => Q (snd kv)) (fst (fst (fst (tick_groups fx now l atts cnt)))).
Proof.
  intros now l. induction l as [|[s g] t IH]; intros atts cnt H; [constructor|].
  inversion H; subst. simpl in H2. cbn [tick_groups].
  destruct (inactive g now); [apply IH; assumption|].
  pose proof (gw_tick_group s g now H2) as Ht.
  destruct (tick_group fx s g now) as [[[g1 started] fin] ns]. simpl in Ht.
  match goal with |- context[let '(a1, c1) := ?X in _] => destruct X as [atts1 cnt1] end.
  match goal with |- context[tick_groups fx now t ?a ?c] => specialize (IH a c H3); destruct (tick_groups fx now t a c) as [[[t1 a3] c3] ns2] end.
  simpl in *. constructor; assumption.
Qed.

Lemma gw_step : forall cf st e, all_groups Q st -> all_groups Q (fst (fst (step fx cf st e))).
Proof.
  intros cf st e H. destruct e; simpl.
  - (* ERtmpPub *)
    destruct (fresh st n); simpl; [|assumption]. destruct deny; simpl; [same H|].
    destruct (admit_pub cf st PsRtmp s n true) as [[st1 ok] g] eqn:E.
    assert (H1 : all_groups Q st1) by (eapply gw_admit_pub; [exact H| |exact E]; intros Hx; discriminate Hx).
    destruct ok; simpl; same H1.
  - (* ERtmpSub *)
    destruct (fresh st n); simpl; [|assumption]. destruct deny; simpl; [same H|].
    destruct (admit_sub cf st SkRtmp s n true) as [[st1 g]|] eqn:E; simpl; [|assumption].
    pose proof (gw_admit_sub _ _ _ _ _ _ _ _ H E) as H1. same H1.
  - (* ERtspPub *)
    destruct (fresh st n); simpl; [|assumption]. destruct deny; simpl; [same H|].
    destruct (admit_pub cf st PsRtsp s n true) as [[st1 ok] g] eqn:E.
    assert (H1 : all_groups Q st1) by (eapply gw_admit_pub; [exact H| |exact E]; intros Hx; discriminate Hx).
    destruct ok; simpl; same H1.
  - (* ERtspSub *)
    destruct (fresh st n); simpl; [|assumption]. destruct deny; simpl; [same H|].
    destruct (admit_sub cf st SkRtsp s n false) as [[st1 g]|] eqn:E; simpl; [|assumption].
    pose proof (gw_admit_sub _ _ _ _ _ _ _ _ H E) as H1. same H1.
  - (* ERtspPlay *)
    destruct (find_sess n (st_sess st)) as [x|]; simpl; [|assumption].
    destruct (s_kind x); simpl; try assumption.
    destruct (s_gone x || s_closed x); simpl; [assumption|].
    destruct (get_or_create cf st (s_stream x)) as [st1 g] eqn:Eg.
    destruct (gw_get_or_create _ _ _ _ _ H Eg) as [H1 [Hg _]].
    destruct (pull_if_needed_st st1 (s_stream x) g) as [[[st2 g2] o] r] eqn:Ep.
    destruct (gw_pull_if_needed_st _ _ _ _ _ _ _ H1 Hg Ep) as [H2 Hg2].
    simpl. apply all_groups_put; assumption.
  - (* EFlvSub *)
    destruct (fresh st n); simpl; [|assumption]. destruct deny; simpl; [same H|].
    destruct (admit_sub cf st SkFlv s n true) as [[st1 g]|] eqn:E; simpl; [|assumption].
    pose proof (gw_admit_sub _ _ _ _ _ _ _ _ H E) as H1. same H1.
  - (* ETsSub *)
    destruct (fresh st n); simpl; [|assumption]. destruct deny; simpl; [same H|].
    destruct (admit_sub cf st SkTs s n true) as [[st1 g]|] eqn:E; simpl; [|assumption].
    pose proof (gw_admit_sub _ _ _ _ _ _ _ _ H E) as H1. same H1.
  - (* ECustPub *)
    destruct (fresh st n); simpl; [|assumption].
    destruct (admit_pub cf st PsCust s n true) as [[st1 ok] g] eqn:E.
    assert (H1 : all_groups Q st1) by (eapply gw_admit_pub; [exact H| |exact E]; intros Hx; discriminate Hx).
    destruct ok; simpl; same H1.
  - (* EPsPub *)
    destruct (fresh st n); simpl; [|assumption].
    destruct (admit_pub cf st PsPs s n (fx_f09 fx)) as [[st1 ok] g] eqn:E.
    assert (H1 : all_groups Q st1) by (eapply gw_admit_pub; [exact H| |exact E]; intros Hx; split; [reflexivity|exact Hx]).
    destruct ok; simpl; [destruct listen; simpl|]; try (same H1).
    destruct (get_or_create cf st s) as [st0 g0] eqn:E0. destruct (gw_get_or_create _ _ _ _ _ H E0) as [H0 _]. same H0.
  - (* EGone *)
    destruct (find_sess n (st_sess st)) as [x|]; simpl; [|assumption].
    destruct (s_gone x); simpl; [assumption|].
    destruct (s_kind x); simpl; try assumption;
    match goal with
    | |- context[depart_pub ?a ?b ?c ?d ?e] =>
        pose proof (gw_depart_pub a b c d e) as Hd; destruct (depart_pub a b c d e) as [st1 ns]; simpl in *; apply Hd
    | |- context[depart_sub ?a ?b ?c ?d] =>
        pose proof (gw_depart_sub a b c d) as Hd; destruct (depart_sub a b c d) as [st1 ns]; simpl in *; apply Hd
    end; try (same H).
    destruct (fx_f26 fx && _); same H.
  - (* EKick *)
    destruct (get_group st s) as [g|] eqn:Eg; simpl; [|assumption].
    pose proof (gw_kick_group st s g t H Eg) as Hk.
    destruct (kick_group fx st s g t) as [[st1 ok] ns]. simpl in *. exact Hk.
  - (* EStartPull *)
    destruct (get_or_create cf st s) as [st1 g] eqn:Eg.
    destruct (gw_get_or_create _ _ _ _ _ H Eg) as [H1 [Hg _]].
    pose proof (gw_req _ _ HQ g rtmp retry autostop Hg) as Hr.
    destruct (pull_if_needed_st st1 s _) as [[[st2 g2] o] r] eqn:Ep.
    destruct (gw_pull_if_needed_st _ _ _ _ _ _ _ H1 Hr Ep) as [H2 Hg2].
    simpl. apply all_groups_put; assumption.
  - (* EStopPull *)
    destruct (get_group st s) as [g|] eqn:Eg; simpl; [|assumption].
    pose proof (gw_stop_and_del s g (all_groups_get _ _ _ _ H Eg)) as Hs.
    destruct (stop_and_del _ _ _) as [[g1 a] ns]. simpl in *.
    destruct a; simpl; (eapply all_groups_same with (st2 := put_group st s g1); [reflexivity|]);
      apply all_groups_put; assumption.
  - (* EPullSucc *)
    destruct (find_att s i (st_atts st)) as [a|]; simpl; [|assumption].
    destruct (get_group st s) as [g|] eqn:Eg; simpl; [|assumption].
    pose proof (all_groups_get _ _ _ _ H Eg) as Hg.
    destruct (a_state a); simpl; try assumption.
    destruct (has_in g || _) eqn:Ei; simpl.
    + eapply all_groups_same with (st2 := put_group st s _); [reflexivity|].
      apply all_groups_put; [assumption|]. apply (gw_pull_del _ _ HQ). assumption.
    + apply orb_false_iff in Ei. destruct Ei as [Ei _].
      eapply all_groups_same with (st2 := put_group (st_set_pipe st (st_pipe st + 1)) s _); [reflexivity|].
      apply all_groups_put; [same H|].
      apply (gw_attach _ _ HQ g (a_rtmp a) i); assumption.
  - (* EPullFail *)
    destruct (find_att s i (st_atts st)) as [a|]; simpl; [|assumption].
    destruct (get_group st s) as [g|] eqn:Eg; simpl; [|assumption].
    destruct (a_state a); simpl; try assumption.
    eapply all_groups_same with (st2 := put_group st s _); [reflexivity|].
    apply all_groups_put; [assumption|]. apply (gw_pull_del _ _ HQ). eapply all_groups_get; eauto.
  - (* EPullDone *)
    destruct (find_att s i (st_atts st)) as [a|]; simpl; [|assumption].
    destruct (get_group st s) as [g|] eqn:Eg; simpl; [|assumption].
    destruct (a_state a); simpl; try assumption.
    eapply all_groups_same with (st2 := put_group st s _); [reflexivity|].
    apply all_groups_put; [assumption|]. apply (gw_pull_del _ _ HQ). eapply all_groups_get; eauto.
  - (* EPushOk *)
    match goal with |- context[push_event st s t false ?nx] => set (next := nx) end.
    destruct (push_event st s t false next) as [st1 r] eqn:E. simpl.
    unfold push_event in E. destruct (get_group st s) as [g|] eqn:Eg; [|inversion E; subst; assumption].
    destruct (nth_error (g_push g) t) as [pp0|]; [|inversion E; subst; assumption].
    destruct (pu_pushing pp0 && Bool.eqb (pu_att pp0) false); [|inversion E; subst; assumption].
    inversion E; subst st1 r. apply all_groups_put; [assumption|].
    pose proof (all_groups_get _ _ _ _ H Eg) as Hg.
    subst next. clear E. destruct (fx_f27 fx) eqn:E27; simpl.
    + destruct (negb (is_some (g_rtmp g)) && negb (is_some (g_rtsp g))) eqn:En.
      * apply (gw_push_off _ _ HQ g t Hg).
      * apply (gw_push_on _ _ HQ g t Hg). intros _.
        destruct (is_some (g_rtmp g)), (is_some (g_rtsp g)); simpl in *; try discriminate En; reflexivity.
    + apply (gw_push_on _ _ HQ g t Hg). rewrite E27. intros Hx; discriminate Hx.
  - (* EPushFail *)
    pose proof (gw_push_event_off st s t false H) as Hp.
    destruct (push_event st s t false _) as [st1 r]. simpl in *. exact Hp.
  - (* EPushDone *)
    pose proof (gw_push_event_off st s t true H) as Hp.
    destruct (push_event st s t true _) as [st1 r]. simpl in *. exact Hp.
  - (* ETick *)
    destruct (st_disposed st); simpl; [assumption|].
    pose proof (gw_tick_groups (st_now st) (st_groups st) (st_atts st) (st_cnt st) H) as Ht.
    destruct (tick_groups _ _ _ _ _) as [[[gs atts] cnt] ns]. simpl in *. exact Ht.
  - (* EAdvance *) same H.
  - (* EDispose *)
    destruct (st_disposed st); simpl; [assumption|].
    unfold all_groups in *. simpl. rewrite Forall_forall in *. intros [k g] Hin.
    apply in_map_iff in Hin. destruct Hin as [[k0 g0] [Heq Hin]]. simpl in Heq. inversion Heq; subst k g. simpl.
    apply (gw_dispose _ _ HQ). apply (H (k0, g0) Hin).
  - (* EMedia *)
    destruct (find_sess n (st_sess st)) as [x|]; simpl; [|assumption].
    destruct (s_kind x); simpl; try assumption;
    match goal with |- context[if ?c then _ else _] => destruct c end; assumption.
Qed.
End Groupwise.

(* reachable states *)
Inductive reachable (fx : fixes) (cf : config) : state -> Prop :=
| reach_init : reachable fx cf init_state
| reach_step : forall st e, reachable fx cf st -> reachable fx cf (fst (fst (step fx cf st e))).

Lemma gw_reachable : forall fx Q cf st, gw_closed fx Q -> reachable fx cf st -> all_groups Q st.
Proof.
  intros fx Q cf st HQ Hr. induction Hr.
  - constructor.
  - apply gw_step; assumption.
Qed.

Lemma run_reachable : forall fx cf h st, reachable fx cf st -> reachable fx cf (fst (run fx cf st h)).
Proof.
  intros fx cf h. induction h as [|e t IH]; intros st Hr; simpl; [assumption|].
  pose proof (reach_step fx cf st e Hr) as H1.
  destruct (step fx cf st e) as [[st1 r] ns]. simpl in H1.
  specialize (IH st1 H1). destruct (run fx cf st1 t) as [st2 ns2]. simpl in *. exact IH.
Qed.

(* ---- at most one input ---------------------------------------------------------------------- *)
Lemma slots_ok_closed : forall fx, fx_f09 fx = true -> fx_f10 fx = true -> gw_closed fx slots_ok.
Proof.
  intros fx H9 H10. constructor.
  - apply slots_ok_new_group.
  - intros. apply slots_ok_set_slot. assumption.
  - rewrite H9. discriminate.
  - intros g k n H. eapply slots_ok_slots; [|exact H]. reflexivity.
  - intros g k n H. eapply slots_ok_slots; [|exact H]. reflexivity.
  - intros g now H. eapply slots_ok_slots; [|exact H]. apply slots_pull_if_needed.
  - intros g sl n H _. apply slots_ok_del_in. assumption.
  - intros g H. eapply slots_ok_slots; [|exact H]. reflexivity.
  - intros g rt r a H. eapply slots_ok_slots; [|exact H]. reflexivity.
  - intros g a H. apply slots_ok_pull_del; assumption.
  - intros g rt i p _ Hin. apply has_in_false_occupied in Hin.
    unfold slots_ok. rewrite (occupied_slots _ _ (slots_add_in p _)).
    unfold occupied, attach_pull in *. destruct rt; simpl;
    destruct (g_rtmp g), (g_rtsp g), (g_cust g), (g_ps g), (pp_rtmp (g_pp g)), (pp_rtsp (g_pp g)); simpl in *; lia.
  - intros g t H. eapply slots_ok_slots; [|exact H]. reflexivity.
  - intros g t H _. eapply slots_ok_slots; [|exact H]. reflexivity.
  - intros g now H. eapply slots_ok_slots; [|exact H]. rewrite slots_start_push. apply slots_tick_pull.
  - intros g H. apply slots_ok_dispose_group. assumption.
Qed.

Theorem single_input : forall fx cf st, fx_f09 fx = true -> fx_f10 fx = true -> reachable fx cf st ->
  forall s g, get_group st s = Some g -> (occupied g <= 1)%nat.
Proof.
  intros fx cf st H9 H10 Hr s g Hg.
  eapply (all_groups_get slots_ok); [|exact Hg].
  apply (gw_reachable fx slots_ok cf st); [apply slots_ok_closed; assumption|exact Hr].
Qed.

(* the pinned tree: StartRtpPub accepts a second input *)
Definition f09_history : list event := [ERtmpPub 1 1 false; EPsPub 1 2 true].
Lemma single_input_refuted_pinned :
  exists cf h s g, get_group (fst (run pinned_tree cf init_state h)) s = Some g /\ occupied g = 2%nat.
Proof. exists (mk_config false 0), f09_history, 1. eexists. split; [vm_compute; reflexivity|reflexivity]. Qed.

(* ---- events about a session that is not the accepted input ------------------------------------ *)
Inductive subject := SConn (n : N) | SAtt (s i : N).

Definition subject_of (e : event) : option subject :=
  match e with
  | ERtmpPub _ n _ | ERtmpSub _ n _ | ERtspPub _ n _ | ERtspSub _ n _ | ERtspPlay n
  | EFlvSub _ n _ | ETsSub _ n _ | ECustPub _ n | EPsPub _ n _ | EGone n | EMedia n => Some (SConn n)
  | EKick _ (KConn n) => Some (SConn n)
  | EKick _ (KAtt s i) => Some (SAtt s i)
  | EPullSucc s i | EPullFail s i | EPullDone s i => Some (SAtt s i)
  | _ => None
  end.

(* x is the accepted input of group g of stream s *)
Definition occupies (x : subject) (s : N) (g : group) : bool :=
  match x with
  | SConn n => opt_is (g_rtmp g) n || opt_is (g_rtsp g) n || opt_is (g_cust g) n || opt_is (g_ps g) n
  | SAtt s' i => N.eqb s' s && (opt_is (pp_rtmp (g_pp g)) i || opt_is (pp_rtsp (g_pp g)) i)
  end.

(* the input side of a group: slots, per-input pipeline, identity of the Group object *)
Definition sim (g g' : group) : Prop := slots g' = slots g /\ g_pipe g' = g_pipe g /\ g_id g' = g_id g.
Definition keeps (s : N) (g : group) (st' : state) : Prop := exists g', get_group st' s = Some g' /\ sim g g'.

Lemma sim_refl : forall g, sim g g.
Proof. intros; repeat split. Qed.
Lemma sim_trans : forall a b c, sim a b -> sim b c -> sim a c.
Proof. unfold sim. intros a b c [H1 [H2 H3]] [H4 [H5 H6]]. repeat split; congruence. Qed.

Lemma keeps_here : forall s g st, get_group st s = Some g -> keeps s g st.
Proof. intros. exists g. split; [assumption|apply sim_refl]. Qed.
Lemma keeps_same : forall s g st st', st_groups st' = st_groups st -> keeps s g st -> keeps s g st'.
Proof. unfold keeps, get_group. intros s g st st' E H. rewrite E. exact H. Qed.
Lemma keeps_put_other : forall s s' g g2 st, s <> s' -> keeps s g st -> keeps s g (put_group st s' g2).
Proof.
  unfold keeps, get_group, put_group. intros s s' g g2 st Hne [g' [H1 H2]]. exists g'. split; [|assumption].
  simpl. rewrite lookup_update_other; assumption.
Qed.
Lemma keeps_put_same : forall s g g2 st, sim g g2 -> keeps s g (put_group st s g2).
Proof.
  unfold keeps, get_group, put_group. intros s g g2 st H. exists g2. split; [|assumption].
  simpl. apply lookup_update_same.
Qed.

Lemma get_or_create_found : forall cf st s g, get_group st s = Some g -> get_or_create cf st s = (st, g).
Proof. intros cf st s g H. unfold get_or_create. rewrite H. reflexivity. Qed.

Lemma keeps_get_or_create : forall cf st s s' g st1 g1,
  keeps s g st -> get_or_create cf st s' = (st1, g1) ->
  keeps s g st1 /\ (s' = s -> sim g g1) /\ get_group st1 s' = Some g1.
Proof.
  intros cf st s s' g st1 g1 Hk E. unfold get_or_create in E.
  destruct (get_group st s') as [g0|] eqn:Eg.
  - inversion E; subst. split; [assumption|]. split; [|assumption].
    intros ->. destruct Hk as [g' [H1 H2]]. rewrite H1 in Eg. inversion Eg; subst. assumption.
  - inversion E; subst. split; [|split].
    + apply keeps_same with (st := put_group st s' (new_group cf (st_gid st + 1) (st_now st))); [reflexivity|].
      apply keeps_put_other; [|assumption].
      intros ->. destruct Hk as [g' [H1 _]]. rewrite H1 in Eg. discriminate.
    + intros ->. destruct Hk as [g' [H1 _]]. rewrite H1 in Eg. discriminate.
    + unfold get_group. simpl. apply lookup_update_same.
Qed.

Lemma sim_has_in : forall g g', sim g g' -> has_in g' = has_in g.
Proof.
  unfold sim, slots, has_in, has_pub, has_pull. intros g g' [H _]. inversion H. reflexivity.
Qed.

Lemma pull_if_needed_busy : forall g now, has_in g = true -> pull_if_needed g now = (g, false, RsDup).
Proof. intros g now H. unfold pull_if_needed, should_start. rewrite H. reflexivity. Qed.

Lemma pull_if_needed_st_busy : forall st s g, has_in g = true -> pull_if_needed_st st s g = (st, g, None, RsDup).
Proof. intros st s g H. unfold pull_if_needed_st. rewrite (pull_if_needed_busy _ _ H). reflexivity. Qed.

Lemma occupies_conn_slot : forall n s g sl, occupies (SConn n) s g = false -> opt_is (get_slot g sl) n = false.
Proof.
  unfold occupies. intros n s g sl H.
  apply orb_false_iff in H. destruct H as [H H4]. apply orb_false_iff in H. destruct H as [H H3].
  apply orb_false_iff in H. destruct H as [H1 H2]. destruct sl; assumption.
Qed.

Lemma sim_pull_del_foreign : forall fx g i, fx_f10 fx = true ->
  opt_is (pp_rtmp (g_pp g)) i || opt_is (pp_rtsp (g_pp g)) i = false -> sim g (pull_del fx g i).
Proof. intros fx g i H10 H. unfold pull_del. rewrite H10, H. repeat split. Qed.

Section Foreign.
Variable fx : fixes.
Hypothesis H9 : fx_f09 fx = true.
Hypothesis H10 : fx_f10 fx = true.

Lemma foreign_admit_pub : forall cf st sl s' n check st1 ok g1 s g,
  (check = true \/ fx_f09 fx = true /\ check = fx_f09 fx) ->
  get_group st s = Some g -> has_in g = true ->
  admit_pub cf st sl s' n check = (st1, ok, g1) -> keeps s g st1 /\ (s' = s -> ok = false).
Proof.
  intros cf st sl s' n check st1 ok g1 s g Hc Hg Hin E.
  assert (Hcheck : check = true) by (destruct Hc as [?|[? ?]]; congruence).
  subst check. unfold admit_pub in E.
  destruct (get_or_create cf st s') as [st0 g0] eqn:Eg.
  destruct (keeps_get_or_create _ _ _ _ _ _ _ (keeps_here _ _ _ Hg) Eg) as [Hk [Hs Hg0]].
  destruct (N.eq_dec s' s) as [->|Hne].
  - rewrite (sim_has_in _ _ (Hs eq_refl)), Hin in E. simpl in E. inversion E; subst. split; [assumption|reflexivity].
  - split; [|intros; contradiction].
    destruct (true && has_in g0).
    + inversion E; subst. assumption.
    + unfold next_pipe in E. inversion E; subst.
      apply keeps_put_other; [congruence|]. eapply keeps_same; [|exact Hk]. reflexivity.
Qed.

Lemma foreign_admit_sub : forall cf st k s' n pull st1 g1 s g,
  get_group st s = Some g -> has_in g = true ->
  admit_sub cf st k s' n pull = Some (st1, g1) -> keeps s g st1.
Proof.
  intros cf st k s' n pull st1 g1 s g Hg Hin E. unfold admit_sub in E.
  destruct (get_or_create cf st s') as [st0 g0] eqn:Eg.
  destruct (keeps_get_or_create _ _ _ _ _ _ _ (keeps_here _ _ _ Hg) Eg) as [Hk [Hs Hg0]].
  destruct (g_disposed g0); [discriminate|].
  destruct (N.eq_dec s' s) as [->|Hne].
  - assert (Hb : has_in (g_set_subs g0 (g_subs g0 ++ [(k, n)])) = true)
      by (rewrite <- Hin, <- (sim_has_in _ _ (Hs eq_refl)); reflexivity).
    destruct pull.
    + rewrite (pull_if_needed_st_busy _ _ _ Hb) in E. inversion E; subst.
      apply keeps_put_same. destruct (Hs eq_refl) as [A [B C]]. repeat split; assumption.
    + inversion E; subst. apply keeps_put_same. destruct (Hs eq_refl) as [A [B C]]. repeat split; assumption.
  - destruct pull.
    + destruct (pull_if_needed_st st0 s' _) as [[[st2 g2] o] r] eqn:Ep.
      inversion E; subst. apply keeps_put_other; [congruence|].
      unfold pull_if_needed_st in Ep. destruct (pull_if_needed _ _) as [[g3 started] r3].
      destruct started; [unfold alloc_att in Ep|]; inversion Ep; subst; [eapply keeps_same; [|exact Hk]; reflexivity|assumption].
    + inversion E; subst. apply keeps_put_other; [congruence|assumption].
Qed.

Lemma foreign_depart_pub : forall st sl s' n b s g,
  get_group st s = Some g -> occupies (SConn n) s g = false ->
  keeps s g (fst (depart_pub st sl s' n b)).
Proof.
  intros st sl s' n b s g Hg Ho. unfold depart_pub.
  destruct (get_group st s') as [g0|] eqn:Eg; [|apply keeps_here; assumption]. simpl.
  destruct (N.eq_dec s' s) as [->|Hne].
  - rewrite Hg in Eg. inversion Eg; subst g0. rewrite (occupies_conn_slot _ _ _ sl Ho).
    apply keeps_put_same. apply sim_refl.
  - apply keeps_put_other; [congruence|apply keeps_here; assumption].
Qed.

Lemma foreign_depart_sub : forall st k s' n s g,
  get_group st s = Some g -> keeps s g (fst (depart_sub st k s' n)).
Proof.
  intros st k s' n s g Hg. unfold depart_sub.
  destruct (get_group st s') as [g0|] eqn:Eg; [|apply keeps_here; assumption]. simpl.
  destruct (N.eq_dec s' s) as [->|Hne].
  - rewrite Hg in Eg. inversion Eg; subst g0. apply keeps_put_same. repeat split.
  - apply keeps_put_other; [congruence|apply keeps_here; assumption].
Qed.

Lemma keeps_finish_att : forall s g st s' a, keeps s g st -> keeps s g (finish_att st s' a).
Proof. intros s g st s' a H. destruct a; simpl; [eapply keeps_same; [|exact H]; reflexivity|assumption]. Qed.

Lemma foreign_kick : forall st s' g0 t x s g,
  get_group st s' = Some g0 -> get_group st s = Some g ->
  subject_of (EKick s' t) = Some x -> occupies x s g = false ->
  keeps s g (fst (fst (kick_group fx st s' g0 t))).
Proof.
  intros st s' g0 t x s g Hg0 Hg Hx Ho. unfold kick_group.
  destruct (N.eq_dec s' s) as [->|Hne].
  - rewrite Hg in Hg0. inversion Hg0; subst g0. destruct t as [n|s'' i]; simpl in Hx; inversion Hx; subst x.
    + destruct (find_sess n (st_sess st)) as [y|]; [|apply keeps_here; assumption].
      pose proof (occupies_conn_slot _ _ _ PsPs Ho) as Hps. simpl in Hps.
      destruct (s_kind y); simpl; try (apply keeps_here; assumption);
        try (match goal with |- context[if ?c then _ else _] => destruct c end; simpl;
             [eapply keeps_same; [|apply keeps_here; exact Hg]; reflexivity|apply keeps_here; assumption]).
      rewrite Hps. apply keeps_here; assumption.
    + simpl in Ho. rewrite Ho. apply keeps_here; assumption.
  - destruct t as [n|s'' i].
    + destruct (find_sess n (st_sess st)) as [y|]; [|apply keeps_here; assumption].
      destruct (s_kind y); simpl; try (apply keeps_here; assumption);
        match goal with |- context[if ?c then _ else _] => destruct c end; simpl;
        try (apply keeps_here; assumption);
        try (eapply keeps_same; [|apply keeps_here; exact Hg]; reflexivity).
      apply keeps_put_other; [congruence|]. eapply keeps_same; [|apply keeps_here; exact Hg]. reflexivity.
    + destruct (_ && _); [|apply keeps_here; assumption].
      destruct (stop_and_del _ _ _) as [[g1 a] ns]. simpl.
      apply keeps_finish_att. apply keeps_put_other; [congruence|apply keeps_here; assumption].
Qed.

Theorem foreign_event_step : forall cf st e x s g,
  subject_of e = Some x -> get_group st s = Some g -> has_in g = true -> occupies x s g = false ->
  keeps s g (fst (fst (step fx cf st e))).
Proof.
  intros cf st e x s g Hx Hg Hin Ho.
  destruct e; simpl in Hx; try discriminate Hx; simpl.
  - (* ERtmpPub *)
    destruct (fresh st n); simpl; [|apply keeps_here; assumption].
    destruct deny; simpl; [eapply keeps_same; [|apply keeps_here; exact Hg]; reflexivity|].
    destruct (admit_pub cf st PsRtmp s0 n true) as [[st1 ok] g1] eqn:E.
    destruct (foreign_admit_pub _ _ _ _ _ _ _ _ _ _ _ (or_introl eq_refl) Hg Hin E) as [Hk _].
    destruct ok; simpl; (eapply keeps_same; [|exact Hk]); reflexivity.
  - (* ERtmpSub *)
    destruct (fresh st n); simpl; [|apply keeps_here; assumption].
    destruct deny; simpl; [eapply keeps_same; [|apply keeps_here; exact Hg]; reflexivity|].
    destruct (admit_sub cf st SkRtmp s0 n true) as [[st1 g1]|] eqn:E; simpl; [|apply keeps_here; assumption].
    eapply keeps_same; [|exact (foreign_admit_sub _ _ _ _ _ _ _ _ _ _ Hg Hin E)]. reflexivity.
  - (* ERtspPub *)
    destruct (fresh st n); simpl; [|apply keeps_here; assumption].
    destruct deny; simpl; [eapply keeps_same; [|apply keeps_here; exact Hg]; reflexivity|].
    destruct (admit_pub cf st PsRtsp s0 n true) as [[st1 ok] g1] eqn:E.
    destruct (foreign_admit_pub _ _ _ _ _ _ _ _ _ _ _ (or_introl eq_refl) Hg Hin E) as [Hk _].
    destruct ok; simpl; (eapply keeps_same; [|exact Hk]); reflexivity.
  - (* ERtspSub *)
    destruct (fresh st n); simpl; [|apply keeps_here; assumption].
    destruct deny; simpl; [eapply keeps_same; [|apply keeps_here; exact Hg]; reflexivity|].
    destruct (admit_sub cf st SkRtsp s0 n false) as [[st1 g1]|] eqn:E; simpl; [|apply keeps_here; assumption].
    eapply keeps_same; [|exact (foreign_admit_sub _ _ _ _ _ _ _ _ _ _ Hg Hin E)]. reflexivity.
  - (* ERtspPlay *)
    destruct (find_sess n (st_sess st)) as [y|]; simpl; [|apply keeps_here; assumption].
    destruct (s_kind y); simpl; try (apply keeps_here; assumption).
    destruct (s_gone y || s_closed y); simpl; [apply keeps_here; assumption|].
    destruct (get_or_create cf st (s_stream y)) as [st1 g1] eqn:Eg.
    destruct (keeps_get_or_create _ _ _ _ _ _ _ (keeps_here _ _ _ Hg) Eg) as [Hk [Hs Hg1]].
    destruct (N.eq_dec (s_stream y) s) as [Heq|Hne].
    + rewrite Heq in *. assert (Hb : has_in g1 = true) by (rewrite (sim_has_in _ _ (Hs eq_refl)); assumption).
      rewrite (pull_if_needed_st_busy _ _ _ Hb). simpl. apply keeps_put_same. apply Hs. reflexivity.
    + destruct (pull_if_needed_st st1 (s_stream y) g1) as [[[st2 g2] o] r] eqn:Ep. simpl.
      apply keeps_put_other; [congruence|].
      unfold pull_if_needed_st in Ep. destruct (pull_if_needed _ _) as [[g3 started] r3].
      destruct started; [unfold alloc_att in Ep|]; inversion Ep; subst; [eapply keeps_same; [|exact Hk]; reflexivity|assumption].
  - (* EFlvSub *)
    destruct (fresh st n); simpl; [|apply keeps_here; assumption].
    destruct deny; simpl; [eapply keeps_same; [|apply keeps_here; exact Hg]; reflexivity|].
    destruct (admit_sub cf st SkFlv s0 n true) as [[st1 g1]|] eqn:E; simpl; [|apply keeps_here; assumption].
    eapply keeps_same; [|exact (foreign_admit_sub _ _ _ _ _ _ _ _ _ _ Hg Hin E)]. reflexivity.
  - (* ETsSub *)
    destruct (fresh st n); simpl; [|apply keeps_here; assumption].
    destruct deny; simpl; [eapply keeps_same; [|apply keeps_here; exact Hg]; reflexivity|].
    destruct (admit_sub cf st SkTs s0 n true) as [[st1 g1]|] eqn:E; simpl; [|apply keeps_here; assumption].
    eapply keeps_same; [|exact (foreign_admit_sub _ _ _ _ _ _ _ _ _ _ Hg Hin E)]. reflexivity.
  - (* ECustPub *)
    destruct (fresh st n); simpl; [|apply keeps_here; assumption].
    destruct (admit_pub cf st PsCust s0 n true) as [[st1 ok] g1] eqn:E.
    destruct (foreign_admit_pub _ _ _ _ _ _ _ _ _ _ _ (or_introl eq_refl) Hg Hin E) as [Hk _].
    destruct ok; simpl; (eapply keeps_same; [|exact Hk]); reflexivity.
  - (* EPsPub *)
    destruct (fresh st n); simpl; [|apply keeps_here; assumption].
    destruct (admit_pub cf st PsPs s0 n (fx_f09 fx)) as [[st1 ok] g1] eqn:E.
    destruct (foreign_admit_pub _ _ _ _ _ _ _ _ _ _ _ (or_intror (conj H9 eq_refl)) Hg Hin E) as [Hk _].
    destruct ok; simpl; [destruct listen; simpl|]; try ((eapply keeps_same; [|exact Hk]); reflexivity).
    destruct (get_or_create cf st s0) as [st0 g0] eqn:E0.
    destruct (keeps_get_or_create _ _ _ _ _ _ _ (keeps_here _ _ _ Hg) E0) as [Hk0 _].
    eapply keeps_same; [|exact Hk0]. reflexivity.
  - (* EGone *)
    inversion Hx; subst x.
    destruct (find_sess n (st_sess st)) as [y|]; simpl; [|apply keeps_here; assumption].
    destruct (s_gone y); simpl; [apply keeps_here; assumption|].
    destruct (s_kind y); simpl; try (apply keeps_here; assumption);
    match goal with
    | |- context[depart_pub ?a ?b ?c ?d ?e] =>
        pose proof (foreign_depart_pub a b c d e s g) as Hd; destruct (depart_pub a b c d e) as [st1 ns]; simpl in *; apply Hd
    | |- context[depart_sub ?a ?b ?c ?d] =>
        pose proof (foreign_depart_sub a b c d s g) as Hd; destruct (depart_sub a b c d) as [st1 ns]; simpl in *; apply Hd
    end; try assumption.
    destruct (fx_f26 fx && _); assumption.
  - (* EKick *)
    destruct (get_group st s0) as [g0|] eqn:Eg0; simpl; [|apply keeps_here; assumption].
    pose proof (foreign_kick st s0 g0 t x s g Eg0 Hg Hx Ho) as Hk.
    destruct (kick_group fx st s0 g0 t) as [[st1 ok] ns]. simpl in *. exact Hk.
  - (* EPullSucc *)
    inversion Hx; subst x.
    destruct (find_att s0 i (st_atts st)) as [a|]; simpl; [|apply keeps_here; assumption].
    destruct (get_group st s0) as [g0|] eqn:Eg0; simpl; [|apply keeps_here; assumption].
    destruct (a_state a); simpl; try (apply keeps_here; assumption).
    destruct (N.eq_dec s0 s) as [->|Hne].
    + rewrite Hg in Eg0. inversion Eg0; subst g0. rewrite Hin. simpl.
      eapply keeps_same with (st := put_group st s _); [reflexivity|].
      apply keeps_put_same. apply sim_pull_del_foreign; [assumption|].
      simpl in Ho. rewrite N.eqb_refl in Ho. exact Ho.
    + destruct (has_in g0 || _); simpl.
      * eapply keeps_same with (st := put_group st s0 _); [reflexivity|].
        apply keeps_put_other; [congruence|apply keeps_here; assumption].
      * eapply keeps_same with (st := put_group (st_set_pipe st (st_pipe st + 1)) s0 _); [reflexivity|].
        apply keeps_put_other; [congruence|]. eapply keeps_same; [|apply keeps_here; exact Hg]. reflexivity.
  - (* EPullFail *)
    inversion Hx; subst x.
    destruct (find_att s0 i (st_atts st)) as [a|]; simpl; [|apply keeps_here; assumption].
    destruct (get_group st s0) as [g0|] eqn:Eg0; simpl; [|apply keeps_here; assumption].
    destruct (a_state a); simpl; try (apply keeps_here; assumption).
    eapply keeps_same with (st := put_group st s0 _); [reflexivity|].
    destruct (N.eq_dec s0 s) as [->|Hne].
    + rewrite Hg in Eg0. inversion Eg0; subst g0.
      apply keeps_put_same. apply sim_pull_del_foreign; [assumption|].
      simpl in Ho. rewrite N.eqb_refl in Ho. exact Ho.
    + apply keeps_put_other; [congruence|apply keeps_here; assumption].
  - (* EPullDone *)
    inversion Hx; subst x.
    destruct (find_att s0 i (st_atts st)) as [a|]; simpl; [|apply keeps_here; assumption].
    destruct (get_group st s0) as [g0|] eqn:Eg0; simpl; [|apply keeps_here; assumption].
    destruct (a_state a); simpl; try (apply keeps_here; assumption).
    eapply keeps_same with (st := put_group st s0 _); [reflexivity|].
    destruct (N.eq_dec s0 s) as [->|Hne].
    + rewrite Hg in Eg0. inversion Eg0; subst g0.
      apply keeps_put_same. apply sim_pull_del_foreign; [assumption|].
      simpl in Ho. rewrite N.eqb_refl in Ho. exact Ho.
    + apply keeps_put_other; [congruence|apply keeps_here; assumption].
  - (* EMedia *)
    destruct (find_sess n (st_sess st)) as [y|]; simpl; [|apply keeps_here; assumption].
    destruct (s_kind y); simpl; try (apply keeps_here; assumption);
    match goal with |- context[if ?c then _ else _] => destruct c end; apply keeps_here; assumption.
Qed.
End Foreign.

(* F-10 on the pinned tree: the failure of a pull that never attached tears down the publisher *)
Definition f10_prefix : list event := [EStartPull 1 0 (-1) true; ERtmpPub 1 1 false].
Lemma foreign_event_refuted_pinned :
  exists cf st e x s g,
    reachable pinned_tree cf st /\ subject_of e = Some x /\ get_group st s = Some g /\ has_in g = true /\
    occupies x s g = false /\ ~ keeps s g (fst (fst (step pinned_tree cf st e))).
Proof.
  exists (mk_config false 0), (fst (run pinned_tree (mk_config false 0) init_state f10_prefix)),
         (EPullFail 1 1), (SAtt 1 1), 1.
  eexists. split; [apply run_reachable; constructor|].
  split; [reflexivity|]. split; [vm_compute; reflexivity|]. split; [reflexivity|]. split; [reflexivity|].
  intros [g' [H1 [H2 _]]]. vm_compute in H1. inversion H1; subst g'. vm_compute in H2. discriminate H2.
Qed.

(* ---- an input that arrives while another is accepted is refused -------------------------------- *)
Definition arrival_stream (e : event) : option N :=
  match e with
  | ERtmpPub s _ _ | ERtspPub s _ _ | ECustPub s _ | EPsPub s _ _ | EStartPull s _ _ _ | EPullSucc s _ => Some s
  | _ => None
  end.

Definition refusal (e : event) (r : result) : Prop :=
  match e with
  | ERtmpPub _ _ _ | ERtspPub _ _ _ | ECustPub _ _ => r = RRef \/ r = RBad
  | EPsPub _ _ _ => r = RCode code_start_rtp_pub_fail RsDup None \/ r = RBad
  | EStartPull _ _ _ _ => r = RCode code_start_pull_fail RsDup None
  | EPullSucc _ _ => r = RNone \/ r = RBad
  | _ => False
  end.

Lemma admit_pub_busy : forall cf st sl s n g, get_group st s = Some g -> has_in g = true ->
  admit_pub cf st sl s n true = (st, false, g).
Proof.
  intros cf st sl s n g Hg Hin. unfold admit_pub. rewrite (get_or_create_found _ _ _ _ Hg), Hin. reflexivity.
Qed.

Theorem refuse_when_busy : forall fx cf st e s g,
  fx_f09 fx = true -> fx_f10 fx = true ->
  arrival_stream e = Some s -> get_group st s = Some g -> has_in g = true ->
  (forall x, subject_of e = Some x -> occupies x s g = false) ->
  refusal e (snd (fst (step fx cf st e))) /\ keeps s g (fst (fst (step fx cf st e))).
Proof.
  intros fx cf st e s g H9 H10 Ha Hg Hin Ho. split.
  - destruct e; simpl in Ha; try discriminate Ha; inversion Ha; subst; simpl.
    + destruct (fresh st n); simpl; [|right; reflexivity]. destruct deny; simpl; [left; reflexivity|].
      rewrite (admit_pub_busy _ _ _ _ _ _ Hg Hin). left; reflexivity.
    + destruct (fresh st n); simpl; [|right; reflexivity]. destruct deny; simpl; [left; reflexivity|].
      rewrite (admit_pub_busy _ _ _ _ _ _ Hg Hin). left; reflexivity.
    + destruct (fresh st n); simpl; [|right; reflexivity].
      rewrite (admit_pub_busy _ _ _ _ _ _ Hg Hin). left; reflexivity.
    + destruct (fresh st n); simpl; [|right; reflexivity].
      rewrite H9. rewrite (admit_pub_busy _ _ _ _ _ _ Hg Hin). left; reflexivity.
    + rewrite (get_or_create_found _ _ _ _ Hg).
      rewrite (pull_if_needed_st_busy st s (g_set_pp g (pp_set_req (g_pp g) rtmp retry autostop)) Hin). reflexivity.
    + destruct (find_att s i (st_atts st)) as [a|]; simpl; [|right; reflexivity].
      rewrite Hg. destruct (a_state a); simpl; try (right; reflexivity).
      rewrite Hin. left; reflexivity.
  - destruct (subject_of e) as [x|] eqn:Ex.
    + eapply foreign_event_step; eauto.
    + destruct e; simpl in Ha; try discriminate Ha; simpl in Ex; try discriminate Ex. inversion Ha; subst. simpl.
      rewrite (get_or_create_found _ _ _ _ Hg).
      rewrite (pull_if_needed_st_busy st s (g_set_pp g (pp_set_req (g_pp g) rtmp retry autostop)) Hin). simpl.
      apply keeps_put_same. repeat split.
Qed.
