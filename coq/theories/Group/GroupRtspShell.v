(* The RTSP server shell on top of the admission state machine (GroupAdmission.v):
     pkg/rtsp/server.go               handleTcpConnect: which OnDel* callback follows the end of a command connection
     pkg/rtsp/server_command_session.go  handleAnnounce / handleDescribe / handlePlay: the pubSession / subSession
                                      fields of ONE ServerCommandSession
   An RTSP command connection is not the same thing as a session: every ANNOUNCE creates a new
   rtsp.PubSession and every DESCRIBE a new rtsp.SubSession (each with its own unique key) and stores
   it in the connection's pubSession / subSession field; when the connection ends the shell reports
   the departure of pubSession, or else of subSession.  GroupAdmission's events [ERtspPub] / [ERtspSub]
   are the FIRST command of a connection; this file adds further ANNOUNCE / DESCRIBE commands on an
   existing connection and gives [EGone] / [ERtspPlay] of an RTSP session their connection-level
   meaning.  Every step is a sequence of GroupAdmission steps.

   [fsh] = false: the tree before the repair (a further ANNOUNCE / DESCRIBE overwrites the field);
   true: a connection that already carries a publish or play session answers a further ANNOUNCE /
   DESCRIBE with an error, i.e. the connection ends and its session is reported as departed.
   An RTMP connection is one session (rtmp.ServerSession) that may publish or play once: a further
   publish / play command on it ([CRtmpCmd], pkg/rtmp/server_session.go doPublish / doPlay) is refused
   before anything of it is recorded, the connection ends and the session departs from ITS stream -
   whatever stream the refused command names.
   No proofs in this file. *)
From Coq Require Import NArith ZArith List Bool.
From Lal Require Import Group.GroupAdmission.
Import ListNotations.
Open Scope N_scope.

Record conn := mk_conn {
  cn_members : list N;      (* every session created on the connection, refused ones included *)
  cn_pub : option N;        (* ServerCommandSession.pubSession *)
  cn_sub : option N;        (* ServerCommandSession.subSession *)
  cn_open : bool            (* runCmdLoop still running *)
}.

Record cstate := mk_cstate { cs_base : state; cs_conns : list conn }.
Definition init_cstate : cstate := mk_cstate init_state [].

Inductive cevent :=
| CE (e : event)                              (* an event of GroupAdmission *)
| CAnnounce (s c n : N) (deny : bool)         (* ANNOUNCE for stream s on the connection of session c: new PubSession n *)
| CDescribe (s c n : N) (deny : bool)         (* DESCRIBE for stream s on the connection of session c: new SubSession n *)
| CRtmpCmd (s n : N) (pub : bool).            (* a further publish / play command naming stream s on the connection of RTMP session n *)

Definition memb (n : N) (c : conn) : bool := existsb (N.eqb n) (cn_members c).

Fixpoint get_conn (n : N) (l : list conn) : option conn :=
  match l with
  | [] => None
  | c :: t => if memb n c then Some c else get_conn n t
  end.
Fixpoint set_conn (n : N) (c' : conn) (l : list conn) : list conn :=
  match l with
  | [] => []
  | c :: t => if memb n c then c' :: t else c :: set_conn n c' t
  end.
Definition reserved (cs : cstate) (n : N) : bool := is_some (get_conn n (cs_conns cs)).

(* lal closed the (shared) connection: one of its sessions was kicked or disposed *)
Definition conn_closed (st : state) (c : conn) : bool :=
  existsb (fun m => match find_sess m (st_sess st) with Some x => s_closed x | None => false end) (cn_members c).

Definition kind_is (st : state) (n : N) (k : skind) : bool :=
  match find_sess n (st_sess st) with
  | Some x => match s_kind x, k with KRtspSub, KRtspSub | KRtspPub, KRtspPub => true | _, _ => false end
  | None => false
  end.

(* handleTcpConnect after RunLoop returned: the departure of pubSession, or else of subSession *)
Definition close_conn (fx : fixes) (cf : config) (st : state) (c : conn) : state * list notif :=
  match cn_pub c with
  | Some p => let '(st1, _, ns) := step fx cf st (EGone p) in (st1, ns)
  | None =>
    match cn_sub c with
    | Some q => let '(st1, _, ns) := step fx cf st (EGone q) in (st1, ns)
    | None => (st, [])
    end
  end.

Definition arrival_id (e : event) : option N :=
  match e with
  | ERtmpPub _ n _ | ERtmpSub _ n _ | ERtspPub _ n _ | ERtspSub _ n _ | EFlvSub _ n _ | ETsSub _ n _
  | ECustPub _ n | EPsPub _ n _ => Some n
  | _ => None
  end.

Definition result_acc (r : result) : bool := match r with RAcc => true | _ => false end.
Definition result_bad (r : result) : bool := match r with RBad | RPanic => true | _ => false end.

Definition cstep (fsh : bool) (fx : fixes) (cf : config) (cs : cstate) (ce : cevent) : cstate * result * list notif :=
  let st := cs_base cs in
  let conns := cs_conns cs in
  match ce with
  | CE e =>
    match arrival_id e with
    | Some n =>
      if reserved cs n then (cs, RBad, [])      (* the name was used for a command that never became a session *)
      else
        let '(st1, r, ns) := step fx cf st e in
        match e with
        | ERtspPub _ _ _ =>
          if result_bad r then (mk_cstate st1 conns, r, ns)
          else (mk_cstate st1 (conns ++ [mk_conn [n] (if result_acc r then Some n else None) None (result_acc r)]), r, ns)
        | ERtspSub _ _ _ =>
          if result_bad r then (mk_cstate st1 conns, r, ns)
          else (mk_cstate st1 (conns ++ [mk_conn [n] None (if result_acc r then Some n else None) (result_acc r)]), r, ns)
        | _ => (mk_cstate st1 conns, r, ns)
        end
    | None =>
      match e with
      | EGone n =>
        match get_conn n conns with
        | Some c =>
          if cn_open c then
            let '(st1, ns) := close_conn fx cf st c in
            (mk_cstate st1 (set_conn n (mk_conn (cn_members c) (cn_pub c) (cn_sub c) false) conns), RNone, ns)
          else (cs, RBad, [])
        | None => let '(st1, r, ns) := step fx cf st e in (mk_cstate st1 conns, r, ns)
        end
      | ERtspPlay n =>
        match get_conn n conns with
        | Some c =>
          if negb (cn_open c) || conn_closed st c || negb (kind_is st n KRtspSub) then (cs, RBad, [])
          else
            match cn_sub c with
            | Some q => let '(st1, r, ns) := step fx cf st (ERtspPlay q) in (mk_cstate st1 conns, r, ns)
            | None =>
              (* handlePlay without a subSession is an error: the connection ends *)
              let '(st1, ns) := close_conn fx cf st c in
              (mk_cstate st1 (set_conn n (mk_conn (cn_members c) (cn_pub c) (cn_sub c) false) conns), RRef, ns)
            end
        | None => let '(st1, r, ns) := step fx cf st e in (mk_cstate st1 conns, r, ns)
        end
      | _ => let '(st1, r, ns) := step fx cf st e in (mk_cstate st1 conns, r, ns)
      end
    end
  | CAnnounce s c n deny =>
    if negb (fresh st n) || reserved cs n then (cs, RBad, [])
    else
      match get_conn c conns with
      | None => (cs, RBad, [])
      | Some k =>
        if negb (cn_open k) || conn_closed st k then (cs, RBad, [])
        else if fsh && (is_some (cn_pub k) || is_some (cn_sub k)) then
          (* repaired: an error; the connection ends and its session departs *)
          let '(st1, ns) := close_conn fx cf st k in
          (mk_cstate st1 (set_conn c (mk_conn (cn_members k ++ [n]) (cn_pub k) (cn_sub k) false) conns), RRef, ns)
        else
          let '(st1, r, ns) := step fx cf st (ERtspPub s n deny) in
          if result_acc r then
            (mk_cstate st1 (set_conn c (mk_conn (cn_members k ++ [n]) (Some n) (cn_sub k) true) conns), RAcc, ns)
          else
            (* refused: pubSession is reset (it stays the refused session before the F-11 repair) and the connection ends *)
            let k1 := mk_conn (cn_members k ++ [n]) (if fx_f11 fx then None else Some n) (cn_sub k) false in
            let '(st2, ns2) := close_conn fx cf st1 k1 in
            (mk_cstate st2 (set_conn c k1 conns), RRef, ns ++ ns2)
      end
  | CDescribe s c n deny =>
    if negb (fresh st n) || reserved cs n then (cs, RBad, [])
    else
      match get_conn c conns with
      | None => (cs, RBad, [])
      | Some k =>
        if negb (cn_open k) || conn_closed st k then (cs, RBad, [])
        else if fsh && (is_some (cn_pub k) || is_some (cn_sub k)) then
          let '(st1, ns) := close_conn fx cf st k in
          (mk_cstate st1 (set_conn c (mk_conn (cn_members k ++ [n]) (cn_pub k) (cn_sub k) false) conns), RRef, ns)
        else
          let '(st1, r, ns) := step fx cf st (ERtspSub s n deny) in
          if result_bad r then (cs, RBad, [])
          else if result_acc r then
            (mk_cstate st1 (set_conn c (mk_conn (cn_members k ++ [n]) (cn_pub k) (Some n) true) conns), RAcc, ns)
          else
            let k1 := mk_conn (cn_members k ++ [n]) (cn_pub k) (if fx_f11 fx then None else Some n) false in
            let '(st2, ns2) := close_conn fx cf st1 k1 in
            (mk_cstate st2 (set_conn c k1 conns), RRef, ns ++ ns2)
      end
  | CRtmpCmd _ n _ =>
    match find_sess n (st_sess st) with
    | Some x =>
      match s_kind x with
      | KRtmpPub | KRtmpSub =>
        if negb (s_acc x) || s_gone x || s_closed x then (cs, RBad, [])
        else let '(st1, _, ns) := step fx cf st (EGone n) in (mk_cstate st1 conns, RRef, ns)
      | _ => (cs, RBad, [])
      end
    | None => (cs, RBad, [])
    end
  end.

Fixpoint crun (fsh : bool) (fx : fixes) (cf : config) (cs : cstate) (h : list cevent) : cstate * list notif :=
  match h with
  | [] => (cs, [])
  | e :: t =>
    let '(cs1, _, ns) := cstep fsh fx cf cs e in
    let '(cs2, ns2) := crun fsh fx cf cs1 t in
    (cs2, ns ++ ns2)
  end.
